/-
Every operation of the abstract graph preserves its well-formedness: all graphs reachable from the empty
database by `node` / `edge` / `remove` / `kv` operations satisfy `Graph.wfB`, so the C14 theorems apply to every
history (the abstract side of C08).
-/
import AgdbSearch.Lemmas.GraphWF
namespace AgdbSearch

/-- Propositional form of `Graph.wfB`. -/
structure Graph.Good (g : Graph) : Prop where
  len : 0 < g.slots.length
  slot0 : g.slot 0 = .free
  node : ∀ i out inn, g.slot i = .node out inn →
    out.Nodup ∧ inn.Nodup ∧ (∀ e ∈ out, ∃ d, g.slot e = .edge i d) ∧ (∀ e ∈ inn, ∃ s, g.slot e = .edge s i)
  edge : ∀ e s d, g.slot e = .edge s d →
    (∃ o i, g.slot s = .node o i ∧ e ∈ o) ∧ (∃ o i, g.slot d = .node o i ∧ e ∈ i)
  free : g.freeList.Nodup ∧ ∀ i ∈ g.freeList, g.slot i = .free ∧ i ≠ 0 ∧ i < g.slots.length

theorem slot_setSlot (g : Graph) (i : Nat) (s : Slot) (j : Nat) :
    (g.setSlot i s).slot j = if j = i ∧ i < g.slots.length then s else g.slot j := by
  unfold Graph.slot Graph.setSlot
  simp only [List.getD_eq_getElem?_getD, List.getElem?_set]
  by_cases h : i = j
  · subst h
    by_cases hl : i < g.slots.length
    · simp [hl]
    · simp [hl, List.getElem?_eq_none (Nat.le_of_not_lt hl)]
  · have : ¬ (j = i ∧ i < g.slots.length) := fun hh => h hh.1.symm
    simp [h, this]

theorem Good.wfB {g : Graph} (h : g.Good) : g.wfB = true := by
  unfold Graph.wfB
  simp only [Bool.and_eq_true, beq_iff_eq, List.all_eq_true, List.mem_range, decide_eq_true_eq]
  refine ⟨⟨⟨h.slot0, ?_⟩, h.free.1⟩, ?_⟩
  · intro i _
    cases hs : g.slot i with
    | free => rfl
    | node out inn =>
      obtain ⟨h1, h2, h3, h4⟩ := h.node i out inn hs
      simp only [Bool.and_eq_true, decide_eq_true_eq, List.all_eq_true, beq_iff_eq]
      refine ⟨⟨⟨h1, h2⟩, ?_⟩, ?_⟩
      · intro e he
        obtain ⟨d, hd⟩ := h3 e he
        simp [Graph.isEdgeSlot, Graph.srcOf, hd]
      · intro e he
        obtain ⟨s, hd⟩ := h4 e he
        simp [Graph.isEdgeSlot, Graph.dstOf, hd]
    | edge s d =>
      obtain ⟨⟨o, i', hs', hm⟩, ⟨o2, i2, hd', hm2⟩⟩ := h.edge i s d hs
      simp [Graph.isNodeSlot, Graph.outOf, Graph.innOf, hs', hd', hm, hm2]
  · intro i hi
    obtain ⟨a, b, c⟩ := h.free.2 i hi
    simp [a, b, c]

theorem good_empty : Graph.empty.Good := by
  refine ⟨by decide, by decide, ?_, ?_, by simp [Graph.empty]⟩
  · intro i out inn hs
    have : Graph.empty.slot i = .free := by
      unfold Graph.slot Graph.empty
      cases i <;> simp [List.getD]
    rw [this] at hs; cases hs
  · intro e s d hs
    have : Graph.empty.slot e = .free := by
      unfold Graph.slot Graph.empty
      cases e <;> simp [List.getD]
    rw [this] at hs; cases hs

/-- What `get_free_index` returns. -/
theorem alloc_spec (g : Graph) (h : g.Good) :
    let r := g.allocSlot
    (∀ j, r.2.slot j = g.slot j) ∧ g.slot r.1 = .free ∧ r.1 ≠ 0 ∧ r.1 < r.2.slots.length ∧
    g.slots.length ≤ r.2.slots.length ∧ r.2.freeList.Nodup ∧
    (∀ j ∈ r.2.freeList, j ≠ r.1 ∧ g.slot j = .free ∧ j ≠ 0 ∧ j < r.2.slots.length) ∧ r.2.vals = g.vals := by
  unfold Graph.allocSlot
  cases hf : g.freeList with
  | nil =>
    simp only
    have hbeyond : g.slot g.slots.length = .free := by
      unfold Graph.slot; simp [List.getD_eq_getElem?_getD]
    refine ⟨?_, hbeyond, by have := h.len; omega, by simp, by simp, by simp, by simp, trivial⟩
    intro j
    unfold Graph.slot
    simp only [List.getD_eq_getElem?_getD]
    by_cases hj : j < g.slots.length
    · simp [List.getElem?_append_left hj]
    · have hj' : g.slots.length ≤ j := Nat.le_of_not_lt hj
      rw [List.getElem?_eq_none hj']
      by_cases hje : j = g.slots.length
      · subst hje; simp
      · rw [List.getElem?_eq_none (by simp; omega)]
  | cons i rest =>
    simp only
    have hfree := h.free
    rw [hf] at hfree
    have hnd := List.nodup_cons.mp hfree.1
    obtain ⟨a, b, c⟩ := hfree.2 i (by simp)
    refine ⟨fun j => rfl, a, b, c, Nat.le_refl _, hnd.2, ?_, trivial⟩
    intro j hj
    obtain ⟨a', b', c'⟩ := hfree.2 j (by simp [hj])
    exact ⟨fun e => hnd.1 (e ▸ hj), a', b', c'⟩

theorem good_insertNode (g : Graph) (h : g.Good) : g.insertNode.2.Good := by
  obtain ⟨hs, hfree, hne, hlt, hle, hnd, hfl, _⟩ := alloc_spec g h
  unfold Graph.insertNode
  generalize g.allocSlot = r at *
  obtain ⟨i, g1⟩ := r
  simp only at hs hfree hne hlt hle hnd hfl ⊢
  have hslot : ∀ j, (g1.setSlot i (.node [] [])).slot j = if j = i then .node [] [] else g.slot j := by
    intro j; rw [slot_setSlot]; simp [hlt, hs]
  have hnotfree : ∀ j, g.slot j ≠ .free → j ≠ i := fun j hj e => hj (e ▸ hfree)
  refine ⟨by simp [Graph.setSlot]; omega, ?_, ?_, ?_, ?_⟩
  · rw [hslot]; simp [Ne.symm hne, h.slot0]
  · intro j out inn hj
    rw [hslot] at hj
    by_cases hji : j = i
    · simp [hji] at hj; obtain ⟨rfl, rfl⟩ := hj; simp
    · simp only [hji, if_false] at hj
      obtain ⟨h1, h2, h3, h4⟩ := h.node j out inn hj
      refine ⟨h1, h2, ?_, ?_⟩
      · intro e he
        obtain ⟨d, hd⟩ := h3 e he
        exact ⟨d, by rw [hslot, if_neg (hnotfree e (by rw [hd]; simp))]; exact hd⟩
      · intro e he
        obtain ⟨s, hd⟩ := h4 e he
        exact ⟨s, by rw [hslot, if_neg (hnotfree e (by rw [hd]; simp))]; exact hd⟩
  · intro e s d he
    rw [hslot] at he
    by_cases hei : e = i
    · simp [hei] at he
    · simp only [hei, if_false] at he
      obtain ⟨⟨o, n, hs', hm⟩, ⟨o2, n2, hd', hm2⟩⟩ := h.edge e s d he
      refine ⟨⟨o, n, ?_, hm⟩, ⟨o2, n2, ?_, hm2⟩⟩
      · rw [hslot, if_neg (hnotfree s (by rw [hs']; simp))]; exact hs'
      · rw [hslot, if_neg (hnotfree d (by rw [hd']; simp))]; exact hd'
  · refine ⟨by simpa [Graph.setSlot] using hnd, ?_⟩
    intro j hj
    have hj' : j ∈ g1.freeList := by simpa [Graph.setSlot] using hj
    obtain ⟨a, b, c, d⟩ := hfl j hj'
    refine ⟨by rw [hslot, if_neg a]; exact b, c, by simpa [Graph.setSlot] using d⟩

theorem length_setSlot (g : Graph) (i : Nat) (s : Slot) : (g.setSlot i s).slots.length = g.slots.length := by
  simp [Graph.setSlot]

theorem slot_pushOut (g : Graph) (n e : Nat) (o i : List Nat) (hs : g.slot n = .node o i) (hl : n < g.slots.length)
    (j : Nat) : (g.pushOut n e).slot j = if j = n then .node (e :: o) i else g.slot j := by
  unfold Graph.pushOut; rw [hs]; simp only; rw [slot_setSlot]; simp [hl]

theorem slot_pushInn (g : Graph) (n e : Nat) (o i : List Nat) (hs : g.slot n = .node o i) (hl : n < g.slots.length)
    (j : Nat) : (g.pushInn n e).slot j = if j = n then .node o (e :: i) else g.slot j := by
  unfold Graph.pushInn; rw [hs]; simp only; rw [slot_setSlot]; simp [hl]

theorem meta_pushOut (g : Graph) (n e : Nat) :
    (g.pushOut n e).slots.length = g.slots.length ∧ (g.pushOut n e).freeList = g.freeList := by
  unfold Graph.pushOut; cases g.slot n <;> simp [Graph.setSlot]

theorem meta_pushInn (g : Graph) (n e : Nat) :
    (g.pushInn n e).slots.length = g.slots.length ∧ (g.pushInn n e).freeList = g.freeList := by
  unfold Graph.pushInn; cases g.slot n <;> simp [Graph.setSlot]

theorem isNodeSlot_iff (g : Graph) (n : Nat) : g.isNodeSlot n = true ↔ ∃ o i, g.slot n = .node o i := by
  unfold Graph.isNodeSlot; cases g.slot n <;> simp

theorem good_insertEdge (g : Graph) (h : g.Good) (a b : Int) (r : Int × Graph)
    (hr : g.insertEdge a b = .ok r) : r.2.Good := by
  unfold Graph.insertEdge at hr
  split at hr
  · cases hr
  · split at hr
    · rename_i hnodes
      simp only [Bool.and_eq_true, Graph.isNode, decide_eq_true_eq] at hnodes
      obtain ⟨⟨_, hna⟩, ⟨_, hnb⟩⟩ := hnodes
      obtain ⟨oa, ia, hsa⟩ := (isNodeSlot_iff g _).mp hna
      obtain ⟨ob, ib, hsb⟩ := (isNodeSlot_iff g _).mp hnb
      generalize a.toNat = na at *
      generalize b.toNat = nb at *
      obtain ⟨hs, hfree, hne, hlt, hle, hnd, hfl, _⟩ := alloc_spec g h
      generalize g.allocSlot = al at *
      obtain ⟨i, g1⟩ := al
      simp only at hs hfree hne hlt hle hnd hfl hr
      injection hr with hr; subst hr
      simp only
      have hina : i ≠ na := fun e => by rw [e, hsa] at hfree; cases hfree
      have hinb : i ≠ nb := fun e => by rw [e, hsb] at hfree; cases hfree
      have hla : na < g1.slots.length := Nat.lt_of_lt_of_le (slot_lt g na (by rw [hsa]; simp)) hle
      have hlb : nb < g1.slots.length := Nat.lt_of_lt_of_le (slot_lt g nb (by rw [hsb]; simp)) hle
      -- slot function of the three intermediate graphs
      have h2 : ∀ j, (g1.setSlot i (.edge na nb)).slot j = if j = i then .edge na nb else g.slot j := by
        intro j; rw [slot_setSlot]; simp [hlt, hs]
      have h2a : (g1.setSlot i (.edge na nb)).slot na = .node oa ia := by rw [h2, if_neg (Ne.symm hina)]; exact hsa
      have h3 : ∀ j, ((g1.setSlot i (.edge na nb)).pushOut na i).slot j =
          if j = na then .node (i :: oa) ia else if j = i then .edge na nb else g.slot j := by
        intro j
        rw [slot_pushOut _ na i oa ia h2a (by rw [length_setSlot]; exact hla), h2]
      have h3b : ((g1.setSlot i (.edge na nb)).pushOut na i).slot nb =
          if nb = na then .node (i :: oa) ia else .node ob ib := by
        rw [h3]; by_cases e : nb = na
        · simp [e]
        · simp [e, Ne.symm hinb, hsb]
      have hl3 : nb < ((g1.setSlot i (.edge na nb)).pushOut na i).slots.length := by
        rw [(meta_pushOut _ _ _).1, length_setSlot]; exact hlb
      have h4 : ∀ j, (((g1.setSlot i (.edge na nb)).pushOut na i).pushInn nb i).slot j =
          if j = nb then (if nb = na then .node (i :: oa) (i :: ia) else .node ob (i :: ib))
          else if j = na then .node (i :: oa) ia else if j = i then .edge na nb else g.slot j := by
        intro j
        by_cases e : nb = na
        · rw [slot_pushInn _ nb i (i :: oa) ia (by rw [h3b]; simp [e]) hl3, h3]; simp [e]
        · rw [slot_pushInn _ nb i ob ib (by rw [h3b]; simp [e]) hl3, h3]; simp [e]
      have hlen4 : (((g1.setSlot i (.edge na nb)).pushOut na i).pushInn nb i).slots.length = g1.slots.length := by
        rw [(meta_pushInn _ _ _).1, (meta_pushOut _ _ _).1, length_setSlot]
      have hfl4 : (((g1.setSlot i (.edge na nb)).pushOut na i).pushInn nb i).freeList = g1.freeList := by
        rw [(meta_pushInn _ _ _).2, (meta_pushOut _ _ _).2]; rfl
      generalize (((g1.setSlot i (.edge na nb)).pushOut na i).pushInn nb i) = g4 at *
      -- elements of the old graph keep their slot unless they are one of the two end nodes
      have hedge_same : ∀ e s d, g.slot e = .edge s d → g4.slot e = .edge s d := by
        intro e s d he
        have e1 : e ≠ nb := fun x => by rw [x, hsb] at he; cases he
        have e2 : e ≠ na := fun x => by rw [x, hsa] at he; cases he
        have e3 : e ≠ i := fun x => by rw [x, hfree] at he; cases he
        rw [h4]; simp [e1, e2, e3, he]
      have hi_notin_oa : i ∉ oa := fun hm => by
        obtain ⟨d, hd⟩ := (h.node na oa ia hsa).2.2.1 i hm
        rw [hfree] at hd; cases hd
      have hi_notin_ia : i ∉ ia := fun hm => by
        obtain ⟨d, hd⟩ := (h.node na oa ia hsa).2.2.2 i hm
        rw [hfree] at hd; cases hd
      have hi_notin_ib : i ∉ ib := fun hm => by
        obtain ⟨d, hd⟩ := (h.node nb ob ib hsb).2.2.2 i hm
        rw [hfree] at hd; cases hd
      have hslot_i : g4.slot i = .edge na nb := by rw [h4]; simp [hinb, hina]
      -- the out-list / in-list of an old node only grows by `i`
      have hnode_grow : ∀ n o m, g.slot n = .node o m → ∃ o' m', g4.slot n = .node o' m' ∧
          (∀ x, x ∈ o → x ∈ o') ∧ (∀ x, x ∈ m → x ∈ m') := by
        intro n o m hn
        have hni : n ≠ i := fun x => by rw [x, hfree] at hn; cases hn
        have q := h4 n
        by_cases e1 : n = nb
        · by_cases e2 : n = na
          · have e3 : nb = na := e1 ▸ e2
            rw [if_pos e1, if_pos e3] at q
            have ho : o = oa ∧ m = ia := by
              rw [e2, hsa] at hn; injection hn with x y; exact ⟨x.symm, y.symm⟩
            rw [ho.1, ho.2]
            exact ⟨_, _, q, fun x hx => List.mem_cons_of_mem _ hx, fun x hx => List.mem_cons_of_mem _ hx⟩
          · have e3 : ¬ nb = na := fun x => e2 (e1.trans x)
            rw [if_pos e1, if_neg e3] at q
            have ho : o = ob ∧ m = ib := by
              rw [e1, hsb] at hn; injection hn with x y; exact ⟨x.symm, y.symm⟩
            rw [ho.1, ho.2]
            exact ⟨_, _, q, fun x hx => hx, fun x hx => List.mem_cons_of_mem _ hx⟩
        · by_cases e2 : n = na
          · rw [if_neg e1, if_pos e2] at q
            have ho : o = oa ∧ m = ia := by
              rw [e2, hsa] at hn; injection hn with x y; exact ⟨x.symm, y.symm⟩
            rw [ho.1, ho.2]
            exact ⟨_, _, q, fun x hx => List.mem_cons_of_mem _ hx, fun x hx => hx⟩
          · rw [if_neg e1, if_neg e2, if_neg hni, hn] at q
            exact ⟨o, m, q, fun x hx => hx, fun x hx => hx⟩
      refine ⟨by rw [hlen4]; omega, ?_, ?_, ?_, ?_⟩
      · have z1 : (0 : Nat) ≠ nb := fun x => by rw [← x, h.slot0] at hsb; cases hsb
        have z2 : (0 : Nat) ≠ na := fun x => by rw [← x, h.slot0] at hsa; cases hsa
        rw [h4]; simp [z1, z2, Ne.symm hne, h.slot0]
      · intro j out inn hj
        rw [h4] at hj
        by_cases e1 : j = nb
        · subst e1
          by_cases e2 : j = na
          · subst e2
            rw [hsa] at hsb; injection hsb with ho hm; subst ho; subst hm
            simp at hj; obtain ⟨rfl, rfl⟩ := hj
            obtain ⟨n1, n2, n3, n4⟩ := h.node j oa ia hsa
            refine ⟨List.nodup_cons.mpr ⟨hi_notin_oa, n1⟩, List.nodup_cons.mpr ⟨hi_notin_ia, n2⟩, ?_, ?_⟩
            · intro e he
              rcases List.mem_cons.mp he with rfl | he
              · exact ⟨j, hslot_i⟩
              · obtain ⟨d, hd⟩ := n3 e he; exact ⟨d, hedge_same e _ _ hd⟩
            · intro e he
              rcases List.mem_cons.mp he with rfl | he
              · exact ⟨j, hslot_i⟩
              · obtain ⟨d, hd⟩ := n4 e he; exact ⟨d, hedge_same e _ _ hd⟩
          · simp [e2] at hj; obtain ⟨rfl, rfl⟩ := hj
            obtain ⟨n1, n2, n3, n4⟩ := h.node j ob ib hsb
            refine ⟨n1, List.nodup_cons.mpr ⟨hi_notin_ib, n2⟩, ?_, ?_⟩
            · intro e he
              obtain ⟨d, hd⟩ := n3 e he; exact ⟨d, hedge_same e _ _ hd⟩
            · intro e he
              rcases List.mem_cons.mp he with rfl | he
              · exact ⟨na, hslot_i⟩
              · obtain ⟨d, hd⟩ := n4 e he; exact ⟨d, hedge_same e _ _ hd⟩
        · by_cases e2 : j = na
          · subst e2
            simp [e1] at hj; obtain ⟨rfl, rfl⟩ := hj
            obtain ⟨n1, n2, n3, n4⟩ := h.node j oa ia hsa
            refine ⟨List.nodup_cons.mpr ⟨hi_notin_oa, n1⟩, n2, ?_, ?_⟩
            · intro e he
              rcases List.mem_cons.mp he with rfl | he
              · exact ⟨nb, hslot_i⟩
              · obtain ⟨d, hd⟩ := n3 e he; exact ⟨d, hedge_same e _ _ hd⟩
            · intro e he
              obtain ⟨d, hd⟩ := n4 e he; exact ⟨d, hedge_same e _ _ hd⟩
          · by_cases e3 : j = i
            · subst e3; simp [hinb, hina] at hj
            · simp only [e1, e2, e3, if_false] at hj
              obtain ⟨n1, n2, n3, n4⟩ := h.node j out inn hj
              refine ⟨n1, n2, ?_, ?_⟩
              · intro e he
                obtain ⟨d, hd⟩ := n3 e he; exact ⟨d, hedge_same e _ _ hd⟩
              · intro e he
                obtain ⟨d, hd⟩ := n4 e he; exact ⟨d, hedge_same e _ _ hd⟩
      · intro e s d he
        by_cases e3 : e = i
        · subst e3
          rw [hslot_i] at he; injection he with hs' hd'
          rw [← hs', ← hd']
          by_cases x : nb = na
          · have q1 : g4.slot na = .node (e :: oa) (e :: ia) := by rw [h4 na, if_pos x.symm, if_pos x]
            have q2 : g4.slot nb = .node (e :: oa) (e :: ia) := by rw [h4 nb, if_pos rfl, if_pos x]
            exact ⟨⟨_, _, q1, by simp⟩, ⟨_, _, q2, by simp⟩⟩
          · have x' : ¬ na = nb := fun y => x y.symm
            have q1 : g4.slot na = .node (e :: oa) ia := by rw [h4 na, if_neg x', if_pos rfl]
            have q2 : g4.slot nb = .node ob (e :: ib) := by rw [h4 nb, if_pos rfl, if_neg x]
            exact ⟨⟨_, _, q1, by simp⟩, ⟨_, _, q2, by simp⟩⟩
        · have he' : g.slot e = .edge s d := by
            have e1 : e ≠ nb := fun x => by rw [h4, if_pos x] at he; split at he <;> cases he
            have e2 : e ≠ na := fun x => by rw [h4, if_neg e1, if_pos x] at he; cases he
            rw [h4] at he; simpa [e1, e2, e3] using he
          obtain ⟨⟨o, n, hs', hm⟩, ⟨o2, n2, hd', hm2⟩⟩ := h.edge e s d he'
          obtain ⟨o', m', q1, q2, _⟩ := hnode_grow _ _ _ hs'
          obtain ⟨o'', m'', q3, _, q4⟩ := hnode_grow _ _ _ hd'
          exact ⟨⟨o', m', q1, q2 e hm⟩, ⟨o'', m'', q3, q4 e hm2⟩⟩
      · rw [hfl4]
        refine ⟨hnd, ?_⟩
        intro j hj
        obtain ⟨a', b', c', d'⟩ := hfl j hj
        have j1 : j ≠ nb := fun x => by rw [x, hsb] at b'; cases b'
        have j2 : j ≠ na := fun x => by rw [x, hsa] at b'; cases b'
        refine ⟨by rw [h4]; simp [j1, j2, a', b'], c', by rw [hlen4]; exact d'⟩
    · cases hr

theorem slot_dropVals (g : Graph) (i j : Nat) : (g.dropVals i).slot j = g.slot j := rfl

/-- Facts about one `removeEdgeSlot` (whether or not `e` is an edge). -/
structure RemStep (g g' : Graph) (e : Nat) : Prop where
  good : g'.Good
  nodes : ∀ n, g'.isNodeSlot n = g.isNodeSlot n
  outs : ∀ n x, x ∈ g'.outOf n ↔ x ∈ g.outOf n ∧ x ≠ e
  inns : ∀ n x, x ∈ g'.innOf n ↔ x ∈ g.innOf n ∧ x ≠ e
  edges : ∀ x, x ≠ e → g'.slot x = g.slot x ∨ (∃ o m, g.slot x = .node o m)
  len : g'.slots.length = g.slots.length

theorem mem_outOf_edge (g : Graph) (h : g.Good) {n x : Nat} (hx : x ∈ g.outOf n) : ∃ d, g.slot x = .edge n d := by
  unfold Graph.outOf at hx
  cases hs : g.slot n with
  | free => simp [hs] at hx
  | edge s d => simp [hs] at hx
  | node o m => simp [hs] at hx; exact (h.node n o m hs).2.2.1 x hx

theorem mem_innOf_edge (g : Graph) (h : g.Good) {n x : Nat} (hx : x ∈ g.innOf n) : ∃ s, g.slot x = .edge s n := by
  unfold Graph.innOf at hx
  cases hs : g.slot n with
  | free => simp [hs] at hx
  | edge s d => simp [hs] at hx
  | node o m => simp [hs] at hx; exact (h.node n o m hs).2.2.2 x hx

theorem remStep (g : Graph) (h : g.Good) (e : Nat) : RemStep g (g.removeEdgeSlot e) e := by
  unfold Graph.removeEdgeSlot
  cases hse : g.slot e with
  | free =>
    simp only
    refine ⟨h, fun _ => rfl, ?_, ?_, fun x _ => Or.inl rfl, rfl⟩
    · intro n x; constructor
      · intro hx; refine ⟨hx, fun hxe => ?_⟩
        obtain ⟨d, hd⟩ := mem_outOf_edge g h hx; rw [hxe, hse] at hd; cases hd
      · exact fun hx => hx.1
    · intro n x; constructor
      · intro hx; refine ⟨hx, fun hxe => ?_⟩
        obtain ⟨d, hd⟩ := mem_innOf_edge g h hx; rw [hxe, hse] at hd; cases hd
      · exact fun hx => hx.1
  | node o m =>
    simp only
    refine ⟨h, fun _ => rfl, ?_, ?_, fun x _ => Or.inl rfl, rfl⟩
    · intro n x; constructor
      · intro hx; refine ⟨hx, fun hxe => ?_⟩
        obtain ⟨d, hd⟩ := mem_outOf_edge g h hx; rw [hxe, hse] at hd; cases hd
      · exact fun hx => hx.1
    · intro n x; constructor
      · intro hx; refine ⟨hx, fun hxe => ?_⟩
        obtain ⟨d, hd⟩ := mem_innOf_edge g h hx; rw [hxe, hse] at hd; cases hd
      · exact fun hx => hx.1
  | edge s d =>
    simp only
    obtain ⟨⟨os, is, hss, hes⟩, ⟨od, id, hsd, hed⟩⟩ := h.edge e s d hse
    have hes_ne : e ≠ s := fun x => by rw [x, hss] at hse; cases hse
    have hed_ne : e ≠ d := fun x => by rw [x, hsd] at hse; cases hse
    have hls : s < g.slots.length := slot_lt g s (by rw [hss]; simp)
    have hld : d < g.slots.length := slot_lt g d (by rw [hsd]; simp)
    have hle : e < g.slots.length := slot_lt g e (by rw [hse]; simp)
    have h1 : ∀ j, (g.eraseOut s e).slot j = if j = s then .node (os.erase e) is else g.slot j := by
      intro j; unfold Graph.eraseOut; rw [hss]; simp only; rw [slot_setSlot]; simp [hls]
    have hl1 : (g.eraseOut s e).slots.length = g.slots.length ∧ (g.eraseOut s e).freeList = g.freeList := by
      unfold Graph.eraseOut; rw [hss]; simp [Graph.setSlot]
    have h2 : ∀ j, ((g.eraseOut s e).eraseInn d e).slot j =
        if j = d then (if d = s then .node (os.erase e) (is.erase e) else .node od (id.erase e))
        else if j = s then .node (os.erase e) is else g.slot j := by
      intro j
      unfold Graph.eraseInn
      by_cases x : d = s
      · have : (g.eraseOut s e).slot d = .node (os.erase e) is := by rw [h1, if_pos x]
        rw [this]; simp only; rw [slot_setSlot, h1]; simp [x, hl1.1, hls]
      · have : (g.eraseOut s e).slot d = .node od id := by rw [h1, if_neg x, hsd]
        rw [this]; simp only; rw [slot_setSlot, h1]; simp [x, hl1.1, hld]
    have hl2 : ((g.eraseOut s e).eraseInn d e).slots.length = g.slots.length ∧
        ((g.eraseOut s e).eraseInn d e).freeList = g.freeList := by
      unfold Graph.eraseInn
      cases (g.eraseOut s e).slot d <;> simp [Graph.setSlot, hl1]
    generalize ((g.eraseOut s e).eraseInn d e) = g2 at *
    have hsl : ∀ j, (({ (g2.setSlot e .free) with freeList := e :: (g2.setSlot e .free).freeList } : Graph).dropVals e).slot j =
        if j = e then .free
        else if j = d then (if d = s then .node (os.erase e) (is.erase e) else .node od (id.erase e))
        else if j = s then .node (os.erase e) is else g.slot j := by
      intro j
      show (g2.setSlot e .free).slot j = _
      rw [slot_setSlot, h2]; simp [hl2.1, hle]
    have hlenf : (({ (g2.setSlot e .free) with freeList := e :: (g2.setSlot e .free).freeList } : Graph).dropVals e).slots.length
        = g.slots.length := by
      show (g2.setSlot e .free).slots.length = _
      rw [length_setSlot, hl2.1]
    have hflf : (({ (g2.setSlot e .free) with freeList := e :: (g2.setSlot e .free).freeList } : Graph).dropVals e).freeList
        = e :: g.freeList := by
      show e :: (g2.setSlot e .free).freeList = _
      simp [Graph.setSlot, hl2.2]
    generalize (({ (g2.setSlot e .free) with freeList := e :: (g2.setSlot e .free).freeList } : Graph).dropVals e) = gf at *
    obtain ⟨nds, _, _, _⟩ := h.node s os is hss
    obtain ⟨_, ndd, _, _⟩ := h.node d od id hsd
    have hnot_out : ∀ n o m, g.slot n = .node o m → n ≠ s → e ∉ o := by
      intro n o m hn hns hm
      obtain ⟨dd, hd⟩ := (h.node n o m hn).2.2.1 e hm
      rw [hse] at hd; injection hd with x _; exact hns x.symm
    have hnot_inn : ∀ n o m, g.slot n = .node o m → n ≠ d → e ∉ m := by
      intro n o m hn hnd hm
      obtain ⟨dd, hd⟩ := (h.node n o m hn).2.2.2 e hm
      rw [hse] at hd; injection hd with _ x; exact hnd x.symm
    have hshrink : ∀ n o m, g.slot n = .node o m → ∃ o' m', gf.slot n = .node o' m' ∧ o'.Nodup ∧ m'.Nodup ∧
        (∀ x, x ∈ o' ↔ x ∈ o ∧ x ≠ e) ∧ (∀ x, x ∈ m' ↔ x ∈ m ∧ x ≠ e) := by
      intro n o m hn
      have hne : n ≠ e := fun x => by rw [x, hse] at hn; cases hn
      obtain ⟨ndo, ndm, _, _⟩ := h.node n o m hn
      have q := hsl n
      rw [if_neg hne] at q
      have era : ∀ (l : List Nat), l.Nodup → ∀ x, x ∈ l.erase e ↔ x ∈ l ∧ x ≠ e := by
        intro l hl x; rw [hl.mem_erase_iff]; exact And.comm
      have keep : ∀ (l : List Nat), e ∉ l → ∀ x, x ∈ l ↔ x ∈ l ∧ x ≠ e := by
        intro l hl x; exact ⟨fun hx => ⟨hx, fun y => hl (y ▸ hx)⟩, fun hx => hx.1⟩
      by_cases e1 : n = d
      · by_cases e2 : d = s
        · have e3 : n = s := e1.trans e2
          have ho : o = os ∧ m = is := by rw [e3, hss] at hn; injection hn with x y; exact ⟨x.symm, y.symm⟩
          rw [if_pos e1, if_pos e2] at q
          rw [ho.1, ho.2]
          exact ⟨_, _, q, nds.erase e, (ho.2 ▸ ndm).erase e, era _ nds, era _ (ho.2 ▸ ndm)⟩
        · have e3 : n ≠ s := fun x => e2 (e1.symm.trans x)
          have ho : o = od ∧ m = id := by rw [e1, hsd] at hn; injection hn with x y; exact ⟨x.symm, y.symm⟩
          rw [if_pos e1, if_neg e2] at q
          rw [ho.1, ho.2]
          exact ⟨_, _, q, ho.1 ▸ ndo, ndd.erase e, keep _ (ho.1 ▸ hnot_out n o m hn e3), era _ ndd⟩
      · by_cases e2 : n = s
        · have ho : o = os ∧ m = is := by rw [e2, hss] at hn; injection hn with x y; exact ⟨x.symm, y.symm⟩
          rw [if_neg e1, if_pos e2] at q
          rw [ho.1, ho.2]
          exact ⟨_, _, q, nds.erase e, ho.2 ▸ ndm, era _ nds, keep _ (ho.2 ▸ hnot_inn n o m hn e1)⟩
        · rw [if_neg e1, if_neg e2, hn] at q
          exact ⟨o, m, q, ndo, ndm, keep _ (hnot_out n o m hn e2), keep _ (hnot_inn n o m hn e1)⟩
    have hsame : ∀ x, x ≠ e → (∀ o m, g.slot x ≠ .node o m) → gf.slot x = g.slot x := by
      intro x hxe hnn
      have x1 : x ≠ d := fun y => hnn od id (y ▸ hsd)
      have x2 : x ≠ s := fun y => hnn os is (y ▸ hss)
      rw [hsl]; simp [hxe, x1, x2]
    have hfree_e : gf.slot e = .free := by rw [hsl]; simp
    have hnode_back : ∀ j out inn, gf.slot j = .node out inn → ∃ o m, g.slot j = .node o m := by
      intro j out inn hj
      by_cases e1 : j = d
      · exact ⟨od, id, e1 ▸ hsd⟩
      · by_cases e2 : j = s
        · exact ⟨os, is, e2 ▸ hss⟩
        · have e0 : j ≠ e := fun x => by rw [x, hfree_e] at hj; cases hj
          rw [hsl] at hj; simp only [e0, e1, e2, if_false] at hj
          exact ⟨out, inn, hj⟩
    refine ⟨⟨by rw [hlenf]; exact h.len, ?_, ?_, ?_, ?_⟩, ?_, ?_, ?_, ?_, hlenf⟩
    · refine (hsame 0 (fun x => by rw [← x, h.slot0] at hse; cases hse) (fun o m x => by rw [h.slot0] at x; cases x)).trans h.slot0
    · intro j out inn hj
      obtain ⟨o, m, hg⟩ := hnode_back j out inn hj
      obtain ⟨o', m', q, n1, n2, m1, m2⟩ := hshrink j o m hg
      rw [q] at hj; injection hj with x y; subst x; subst y
      refine ⟨n1, n2, ?_, ?_⟩
      · intro x hx
        obtain ⟨hxo, hxe⟩ := (m1 x).mp hx
        obtain ⟨dd, hd⟩ := (h.node j o m hg).2.2.1 x hxo
        exact ⟨dd, by rw [hsame x hxe (fun o m y => by rw [hd] at y; cases y)]; exact hd⟩
      · intro x hx
        obtain ⟨hxo, hxe⟩ := (m2 x).mp hx
        obtain ⟨dd, hd⟩ := (h.node j o m hg).2.2.2 x hxo
        exact ⟨dd, by rw [hsame x hxe (fun o m y => by rw [hd] at y; cases y)]; exact hd⟩
    · intro x s' d' hx
      have hxe : x ≠ e := fun y => by rw [y, hfree_e] at hx; cases hx
      have hxg : g.slot x = .edge s' d' := by
        have x1 : x ≠ d := fun y => by
          obtain ⟨o', m', q, _⟩ := hshrink d od id hsd; rw [y, q] at hx; cases hx
        have x2 : x ≠ s := fun y => by
          obtain ⟨o', m', q, _⟩ := hshrink s os is hss; rw [y, q] at hx; cases hx
        rw [hsl] at hx; simpa [hxe, x1, x2] using hx
      obtain ⟨⟨o, n, hs', hm⟩, ⟨o2, n2, hd', hm2⟩⟩ := h.edge x s' d' hxg
      obtain ⟨o', m', q, _, _, m1, _⟩ := hshrink s' o n hs'
      obtain ⟨o'', m'', q', _, _, _, m2⟩ := hshrink d' o2 n2 hd'
      exact ⟨⟨o', m', q, (m1 x).mpr ⟨hm, hxe⟩⟩, ⟨o'', m'', q', (m2 x).mpr ⟨hm2, hxe⟩⟩⟩
    · rw [hflf]
      have he_notin : e ∉ g.freeList := fun hm => by
        have := (h.free.2 e hm).1; rw [hse] at this; cases this
      refine ⟨List.nodup_cons.mpr ⟨he_notin, h.free.1⟩, ?_⟩
      intro j hj
      rcases List.mem_cons.mp hj with rfl | hj
      · exact ⟨hfree_e, (fun x => by rw [x, h.slot0] at hse; cases hse), (by rw [hlenf]; exact hle)⟩
      · obtain ⟨a', b', c'⟩ := h.free.2 j hj
        refine ⟨?_, b', by rw [hlenf]; exact c'⟩
        rw [hsame j (fun x => he_notin (x ▸ hj)) (fun o m y => by rw [a'] at y; cases y)]; exact a'
    · intro n
      unfold Graph.isNodeSlot
      cases hn : g.slot n with
      | node o m => obtain ⟨o', m', q, _⟩ := hshrink n o m hn; simp [q]
      | free =>
        by_cases x : n = e
        · rw [x, hfree_e]
        · rw [hsame n x (fun o m y => by rw [hn] at y; cases y), hn]
      | edge a b =>
        by_cases x : n = e
        · rw [x, hfree_e]
        · rw [hsame n x (fun o m y => by rw [hn] at y; cases y), hn]
    · intro n x
      unfold Graph.outOf
      cases hn : g.slot n with
      | node o m => obtain ⟨o', m', q, _, _, m1, _⟩ := hshrink n o m hn; simp only [q]; exact m1 x
      | free =>
        by_cases y : n = e
        · rw [y, hfree_e]; simp
        · rw [hsame n y (fun o m z => by rw [hn] at z; cases z), hn]; simp
      | edge a b =>
        by_cases y : n = e
        · rw [y, hfree_e]; simp
        · rw [hsame n y (fun o m z => by rw [hn] at z; cases z), hn]; simp
    · intro n x
      unfold Graph.innOf
      cases hn : g.slot n with
      | node o m => obtain ⟨o', m', q, _, _, _, m2⟩ := hshrink n o m hn; simp only [q]; exact m2 x
      | free =>
        by_cases y : n = e
        · rw [y, hfree_e]; simp
        · rw [hsame n y (fun o m z => by rw [hn] at z; cases z), hn]; simp
      | edge a b =>
        by_cases y : n = e
        · rw [y, hfree_e]; simp
        · rw [hsame n y (fun o m z => by rw [hn] at z; cases z), hn]; simp
    · intro x hxe
      by_cases hnode : ∃ o m, g.slot x = .node o m
      · exact Or.inr hnode
      · exact Or.inl (hsame x hxe (fun o m y => hnode ⟨o, m, y⟩))

theorem remFold : ∀ (L : List Nat) (g : Graph), g.Good →
    (L.foldl Graph.removeEdgeSlot g).Good ∧
    (∀ n, (L.foldl Graph.removeEdgeSlot g).isNodeSlot n = g.isNodeSlot n) ∧
    (∀ n x, x ∈ (L.foldl Graph.removeEdgeSlot g).outOf n ↔ x ∈ g.outOf n ∧ x ∉ L) ∧
    (∀ n x, x ∈ (L.foldl Graph.removeEdgeSlot g).innOf n ↔ x ∈ g.innOf n ∧ x ∉ L) ∧
    (L.foldl Graph.removeEdgeSlot g).slots.length = g.slots.length
  | [], g, h => ⟨h, fun _ => rfl, by simp, by simp, rfl⟩
  | e :: rest, g, h => by
    have st := remStep g h e
    obtain ⟨a, b, c, d, l⟩ := remFold rest (g.removeEdgeSlot e) st.good
    simp only [List.foldl_cons]
    refine ⟨a, fun n => (b n).trans (st.nodes n), ?_, ?_, l.trans st.len⟩
    · intro n x; rw [c, st.outs]; simp only [List.mem_cons, not_or]; constructor
      · rintro ⟨⟨h1, h2⟩, h3⟩; exact ⟨h1, h2, h3⟩
      · rintro ⟨h1, h2, h3⟩; exact ⟨⟨h1, h2⟩, h3⟩
    · intro n x; rw [d, st.inns]; simp only [List.mem_cons, not_or]; constructor
      · rintro ⟨⟨h1, h2⟩, h3⟩; exact ⟨h1, h2, h3⟩
      · rintro ⟨h1, h2, h3⟩; exact ⟨⟨h1, h2⟩, h3⟩

theorem Good.congr {g g' : Graph} (hs : g'.slots = g.slots) (hf : g'.freeList = g.freeList) (h : g.Good) : g'.Good := by
  have hslot : ∀ j, g'.slot j = g.slot j := fun j => by unfold Graph.slot; rw [hs]
  refine ⟨by rw [hs]; exact h.len, by rw [hslot]; exact h.slot0, ?_, ?_, ?_⟩
  · intro i out inn hi
    rw [hslot] at hi
    obtain ⟨a, b, c, d⟩ := h.node i out inn hi
    exact ⟨a, b, fun e he => by rw [hslot]; exact c e he, fun e he => by rw [hslot]; exact d e he⟩
  · intro e s d he
    rw [hslot] at he
    obtain ⟨⟨o, n, q, m⟩, ⟨o2, n2, q2, m2⟩⟩ := h.edge e s d he
    exact ⟨⟨o, n, by rw [hslot]; exact q, m⟩, ⟨o2, n2, by rw [hslot]; exact q2, m2⟩⟩
  · rw [hf]
    refine ⟨h.free.1, fun i hi => ?_⟩
    obtain ⟨a, b, c⟩ := h.free.2 i hi
    exact ⟨by rw [hslot]; exact a, b, by rw [hs]; exact c⟩

theorem good_remove (g : Graph) (h : g.Good) (x : Int) : (g.remove x).2.Good := by
  unfold Graph.remove
  split
  · rename_i hnode
    simp only [Graph.isNode, Bool.and_eq_true, decide_eq_true_eq] at hnode
    obtain ⟨_, hn⟩ := hnode
    generalize x.toNat = n at *
    dsimp only
    obtain ⟨gd, nds, outs, inns, hlen⟩ := remFold (g.nodeEdges n) g h
    generalize (g.nodeEdges n).foldl Graph.removeEdgeSlot g = g1 at *
    have hn1 : g1.isNodeSlot n = true := (nds n).trans hn
    obtain ⟨o, m, hs1⟩ := (isNodeSlot_iff g1 n).mp hn1
    have ho : o = [] := by
      apply List.eq_nil_iff_forall_not_mem.mpr
      intro y hy
      have : y ∈ g1.outOf n := by simp [Graph.outOf, hs1, hy]
      obtain ⟨h1, h2⟩ := (outs n y).mp this
      exact h2 (by simp [Graph.nodeEdges, h1])
    have hm : m = [] := by
      apply List.eq_nil_iff_forall_not_mem.mpr
      intro y hy
      have : y ∈ g1.innOf n := by simp [Graph.innOf, hs1, hy]
      obtain ⟨h1, h2⟩ := (inns n y).mp this
      apply h2
      obtain ⟨s, hsy⟩ := mem_innOf_edge g h h1
      by_cases hsn : s = n
      · rw [hsn] at hsy
        obtain ⟨⟨o', n', q, hmem⟩, _⟩ := h.edge y n n hsy
        simp [Graph.nodeEdges, Graph.outOf, q, hmem]
      · have : g.srcOf y = s := by simp [Graph.srcOf, hsy]
        simp [Graph.nodeEdges, h1, this, hsn]
    subst ho; subst hm
    have hln : n < g1.slots.length := slot_lt g1 n (by rw [hs1]; simp)
    have hsl : ∀ j, (({ (g1.setSlot n .free) with freeList := n :: (g1.setSlot n .free).freeList } : Graph).dropVals n).slot j =
        if j = n then .free else g1.slot j := by
      intro j
      show (g1.setSlot n .free).slot j = _
      rw [slot_setSlot]; simp [hln]
    have hlenf : (({ (g1.setSlot n .free) with freeList := n :: (g1.setSlot n .free).freeList } : Graph).dropVals n).slots.length
        = g1.slots.length := by
      show (g1.setSlot n .free).slots.length = _
      rw [length_setSlot]
    have hflf : (({ (g1.setSlot n .free) with freeList := n :: (g1.setSlot n .free).freeList } : Graph).dropVals n).freeList
        = n :: g1.freeList := by
      show n :: (g1.setSlot n .free).freeList = _
      simp [Graph.setSlot]
    generalize (({ (g1.setSlot n .free) with freeList := n :: (g1.setSlot n .free).freeList } : Graph).dropVals n) = gf at *
    have hn0 : n ≠ 0 := fun y => by rw [y, gd.slot0] at hs1; cases hs1
    have hsame : ∀ j, (∀ o m, g1.slot j ≠ .node o m) → gf.slot j = g1.slot j := by
      intro j hj
      have : j ≠ n := fun y => hj [] [] (y ▸ hs1)
      rw [hsl, if_neg this]
    refine ⟨by rw [hlenf]; exact gd.len, ?_, ?_, ?_, ?_⟩
    · rw [hsl, if_neg (Ne.symm hn0)]; exact gd.slot0
    · intro j out inn hj
      have hjn : j ≠ n := fun y => by rw [hsl, if_pos y] at hj; cases hj
      rw [hsl, if_neg hjn] at hj
      obtain ⟨a, b, c, d⟩ := gd.node j out inn hj
      refine ⟨a, b, ?_, ?_⟩
      · intro e he
        obtain ⟨dd, hd⟩ := c e he
        exact ⟨dd, by rw [hsame e (fun o m y => by rw [hd] at y; cases y)]; exact hd⟩
      · intro e he
        obtain ⟨dd, hd⟩ := d e he
        exact ⟨dd, by rw [hsame e (fun o m y => by rw [hd] at y; cases y)]; exact hd⟩
    · intro e s d he
      have hen : e ≠ n := fun y => by rw [hsl, if_pos y] at he; cases he
      rw [hsl, if_neg hen] at he
      obtain ⟨⟨o, m, q, hm⟩, ⟨o2, m2, q2, hm2⟩⟩ := gd.edge e s d he
      have hsn : s ≠ n := fun y => by rw [y, hs1] at q; injection q with a b; rw [← a] at hm; simp at hm
      have hdn : d ≠ n := fun y => by rw [y, hs1] at q2; injection q2 with a b; rw [← b] at hm2; simp at hm2
      exact ⟨⟨o, m, by rw [hsl, if_neg hsn]; exact q, hm⟩, ⟨o2, m2, by rw [hsl, if_neg hdn]; exact q2, hm2⟩⟩
    · rw [hflf]
      have hnot : n ∉ g1.freeList := fun hm => by
        have := (gd.free.2 n hm).1; rw [hs1] at this; cases this
      refine ⟨List.nodup_cons.mpr ⟨hnot, gd.free.1⟩, ?_⟩
      intro j hj
      rcases List.mem_cons.mp hj with rfl | hj
      · exact ⟨by rw [hsl]; simp, hn0, by rw [hlenf]; exact hln⟩
      · obtain ⟨a', b', c'⟩ := gd.free.2 j hj
        exact ⟨by rw [hsame j (fun o m y => by rw [a'] at y; cases y)]; exact a', b', by rw [hlenf]; exact c'⟩
  · split
    · exact (remStep g h _).good
    · exact h

theorem good_insertKv (g : Graph) (h : g.Good) (x : Int) (k v : DbValue) (g' : Graph)
    (hr : g.insertKv x k v = .ok g') : g'.Good := by
  unfold Graph.insertKv at hr
  split at hr
  · injection hr with hr; subst hr
    exact Good.congr (g := g) rfl rfl h
  · cases hr

/-- The database states reachable from the empty database by the operations of the protocol. -/
inductive Graph.Reachable : Graph → Prop
  | empty : Graph.Reachable Graph.empty
  | node {g : Graph} : g.Reachable → Graph.Reachable g.insertNode.2
  | edge {g : Graph} {a b : Int} {r : Int × Graph} : g.Reachable → g.insertEdge a b = .ok r → Graph.Reachable r.2
  | remove {g : Graph} (x : Int) : g.Reachable → Graph.Reachable (g.remove x).2
  | kv {g g' : Graph} {x : Int} {k v : DbValue} : g.Reachable → g.insertKv x k v = .ok g' → Graph.Reachable g'

/-- **Every reachable state of the abstract graph is well-formed.** -/
theorem reachable_good {g : Graph} (h : g.Reachable) : g.Good := by
  induction h with
  | empty => exact good_empty
  | node _ ih => exact good_insertNode _ ih
  | edge _ hr ih => exact good_insertEdge _ ih _ _ _ hr
  | remove x _ ih => exact good_remove _ ih x
  | kv _ hr ih => exact good_insertKv _ ih _ _ _ _ hr

theorem reachable_wfB {g : Graph} (h : g.Reachable) : g.wfB = true := Good.wfB (reachable_good h)

end AgdbSearch
