/-
Completeness invariant of the lazy traversal (C14): when the work list is empty the visited set is closed
under "node → every edge on its chain" and "edge → its target".
-/
import AgdbSearch.Lemmas.Traversal
namespace AgdbSearch

/-- The handler of an unconditional search: `Continue(true)` for every element. -/
def allH : HandlerFn Unit := defaultH (fun _ _ => ⟨.cont, true⟩)

structure Inv (V : View) (s : GS) : Prop where
  i1 : ∀ n ∈ s.visited, 0 < n → ∀ e ∈ V.succ n,
        e ∈ s.visited ∨ ∃ si ∈ s.work, ¬ 0 < si.idx ∧ si.dist ≠ 0 ∧ e ∈ chain V si.idx
  i2 : ∀ e ∈ s.visited, ¬ 0 < e → V.target e ∈ s.visited ∨ ∃ si ∈ s.work, si.idx = V.target e
  i3 : ∀ si ∈ s.work, ¬ 0 < si.idx → si.dist ≠ 0 → 0 < V.owner si.idx ∧ si.idx ∈ V.succ (V.owner si.idx)
  i4 : ∀ si ∈ s.work, ¬ 0 < si.idx → 0 < V.target si.idx

/-- The pending edges of a popped edge item are itself plus the pending edges of its next sibling. -/
theorem pending_split (V : View) (hwf : V.WF) (alg : Alg) (si : SI) (follow : Bool) (rest : List SI)
    (hn : ¬ 0 < si.idx) (hd : si.dist ≠ 0) (ho : 0 < V.owner si.idx) (hm : si.idx ∈ V.succ (V.owner si.idx))
    {e : Int} (he : e ∈ chain V si.idx) :
    e = si.idx ∨ ∃ x ∈ expand false alg V si follow rest, ¬ 0 < x.idx ∧ x.dist ≠ 0 ∧ e ∈ chain V x.idx := by
  rw [chain_cons V hwf ho hm] at he
  rcases List.mem_cons.mp he with h | h
  · exact Or.inl h
  · right
    cases hnx : V.next si.idx with
    | none => simp [hnx] at h
    | some e' =>
      simp only [hnx] at h
      refine ⟨⟨e', si.dist⟩, ?_, ?_, hd, h⟩
      · exact (mem_expand alg V si follow rest _).mpr (Or.inr (Or.inr (Or.inl ⟨hn, hd, hnx, rfl⟩)))
      · exact hwf.edge_neg _ _ (V.next_mem hnx)

theorem i34_expand (V : View) (hwf : V.WF) (alg : Alg) (si : SI) (follow : Bool) (rest : List SI)
    (h3 : ∀ x ∈ si :: rest, ¬ 0 < x.idx → x.dist ≠ 0 → 0 < V.owner x.idx ∧ x.idx ∈ V.succ (V.owner x.idx))
    (h4 : ∀ x ∈ si :: rest, ¬ 0 < x.idx → 0 < V.target x.idx) :
    (∀ x ∈ expand false alg V si follow rest, ¬ 0 < x.idx → x.dist ≠ 0 →
        0 < V.owner x.idx ∧ x.idx ∈ V.succ (V.owner x.idx)) ∧
    (∀ x ∈ expand false alg V si follow rest, ¬ 0 < x.idx → 0 < V.target x.idx) := by
  have key : ∀ x ∈ expand false alg V si follow rest, ¬ 0 < x.idx →
      (x.dist ≠ 0 → 0 < V.owner x.idx ∧ x.idx ∈ V.succ (V.owner x.idx)) ∧ 0 < V.target x.idx := by
    intro x hx hxn
    rcases (mem_expand alg V si follow rest x).mp hx with h | ⟨hn, _, hf, _⟩ | ⟨hn, hd0, hnx, _⟩ | ⟨hn, _, rfl⟩
    · exact ⟨h3 x (List.mem_cons_of_mem _ h) hxn, h4 x (List.mem_cons_of_mem _ h) hxn⟩
    · have hmem := first_mem hf
      have ho := hwf.owner_of_mem _ _ hn hmem
      exact ⟨fun _ => by rw [ho]; exact ⟨hn, hmem⟩, hwf.target_pos _ _ hn hmem⟩
    · obtain ⟨hpos, _⟩ := h3 si (by simp) hn hd0
      have hmem := V.next_mem hnx
      have ho := hwf.owner_of_mem _ _ hpos hmem
      exact ⟨fun _ => by rw [ho]; exact ⟨hpos, hmem⟩, hwf.target_pos _ _ hpos hmem⟩
    · exact absurd (h4 si (by simp) hn) hxn
  exact ⟨fun x hx hn => (key x hx hn).1, fun x hx hn => (key x hx hn).2⟩

theorem inv_skip (V : View) (hwf : V.WF) (alg : Alg) (si : SI) (rest : List SI) (vis : List Int)
    (hinv : Inv V ⟨si :: rest, vis⟩) (hv : si.idx ∈ vis) :
    Inv V ⟨expand false alg V si false rest, vis⟩ := by
  obtain ⟨h34a, h34b⟩ := i34_expand V hwf alg si false rest hinv.i3 hinv.i4
  refine ⟨?_, ?_, h34a, h34b⟩
  · intro n hn hpos e he
    rcases hinv.i1 n hn hpos e he with h | ⟨x, hx, hxn, hxd, hxe⟩
    · exact Or.inl h
    · rcases List.mem_cons.mp hx with rfl | hx
      · obtain ⟨ho, hm⟩ := hinv.i3 x (by simp) hxn hxd
        rcases pending_split V hwf alg x false rest hxn hxd ho hm hxe with rfl | h
        · exact Or.inl hv
        · exact Or.inr h
      · exact Or.inr ⟨x, (mem_expand alg V si false rest x).mpr (Or.inl hx), hxn, hxd, hxe⟩
  · intro e he hen
    rcases hinv.i2 e he hen with h | ⟨x, hx, hxe⟩
    · exact Or.inl h
    · rcases List.mem_cons.mp hx with rfl | hx
      · left; rw [← hxe]; exact hv
      · exact Or.inr ⟨x, (mem_expand alg V si false rest x).mpr (Or.inl hx), hxe⟩

theorem inv_visit (V : View) (hwf : V.WF) (alg : Alg) (si : SI) (rest : List SI) (vis : List Int)
    (hinv : Inv V ⟨si :: rest, vis⟩) :
    Inv V ⟨expand false alg V si true rest, si.idx :: vis⟩ := by
  obtain ⟨h34a, h34b⟩ := i34_expand V hwf alg si true rest hinv.i3 hinv.i4
  refine ⟨?_, ?_, h34a, h34b⟩
  · intro n hn hpos e he
    rcases List.mem_cons.mp hn with rfl | hn
    · -- the node just visited: all its edges are pending behind its first edge
      right
      cases hf : V.first si.idx with
      | none =>
        unfold View.first at hf
        cases hs : V.succ si.idx with
        | nil => rw [hs] at he; simp at he
        | cons y ys => rw [hs] at hf; simp at hf
      | some f =>
        refine ⟨⟨f, si.dist + 1⟩, ?_, hwf.edge_neg _ _ (first_mem hf), by simp, ?_⟩
        · exact (mem_expand alg V si true rest _).mpr (Or.inr (Or.inl ⟨hpos, rfl, hf, rfl⟩))
        · show e ∈ chain V f
          rw [chain_first V hwf hpos hf]; exact he
    · rcases hinv.i1 n hn hpos e he with h | ⟨x, hx, hxn, hxd, hxe⟩
      · exact Or.inl (List.mem_cons_of_mem _ h)
      · rcases List.mem_cons.mp hx with rfl | hx
        · obtain ⟨ho, hm⟩ := hinv.i3 x (by simp) hxn hxd
          rcases pending_split V hwf alg x true rest hxn hxd ho hm hxe with rfl | h
          · exact Or.inl (by simp)
          · exact Or.inr h
        · exact Or.inr ⟨x, (mem_expand alg V si true rest x).mpr (Or.inl hx), hxn, hxd, hxe⟩
  · intro e he hen
    rcases List.mem_cons.mp he with rfl | he
    · right
      exact ⟨⟨V.target si.idx, si.dist + 1⟩,
        (mem_expand alg V si true rest _).mpr (Or.inr (Or.inr (Or.inr ⟨hen, rfl, rfl⟩))), rfl⟩
    · rcases hinv.i2 e he hen with h | ⟨x, hx, hxe⟩
      · exact Or.inl (List.mem_cons_of_mem _ h)
      · rcases List.mem_cons.mp hx with rfl | hx
        · left; rw [← hxe]; simp
        · exact Or.inr ⟨x, (mem_expand alg V si true rest x).mpr (Or.inl hx), hxe⟩

/-- Closure of a set of elements under the two traversal steps. -/
def Closed (V : View) (W : List Int) : Prop :=
  (∀ n ∈ W, 0 < n → ∀ e ∈ V.succ n, e ∈ W) ∧ (∀ e ∈ W, ¬ 0 < e → V.target e ∈ W)

theorem Closed.congr {V : View} {W W' : List Int} (h : ∀ x, x ∈ W ↔ x ∈ W') (hc : Closed V W) : Closed V W' :=
  ⟨fun n hn hp e he => (h e).mp (hc.1 n ((h n).mpr hn) hp e he),
   fun e he hn => (h _).mp (hc.2 e ((h e).mpr he) hn)⟩

theorem complete_aux (alg : Alg) (V : View) (hwf : V.WF) :
    ∀ (f : Nat) (s : GS) (xs : List Int),
      run (gstep false alg V) allH f s () = .ok xs → Inv V s → Closed V (xs ++ s.visited) := by
  intro f
  induction f with
  | zero => intro s xs hr; simp [run] at hr
  | succ f ih =>
    intro s xs hr hinv
    obtain ⟨work, vis⟩ := s
    cases work with
    | nil =>
      simp only [run, gstep_nil] at hr
      injection hr with hr; subst hr
      refine ⟨fun n hn hp e he => ?_, fun e he hn => ?_⟩
      · rcases hinv.i1 n (by simpa using hn) hp e he with h | ⟨x, hx, _⟩
        · simpa using h
        · simp at hx
      · rcases hinv.i2 e (by simpa using he) hn with h | ⟨x, hx, _⟩
        · simpa using h
        · simp at hx
    | cons si rest =>
      cases hv : vis.contains si.idx with
      | true =>
        simp only [run, gstep_visited alg V si rest vis hv] at hr
        have := ih _ xs hr (inv_skip V hwf alg si rest vis hinv (by simpa using hv))
        exact this
      | false =>
        simp only [run, gstep_unvisited alg V si rest vis hv, allH, defaultH] at hr
        obtain ⟨xs', hx', rfl⟩ := Outcome.map_eq_ok hr
        have := ih _ xs' hx' (inv_visit V hwf alg si rest vis hinv)
        refine Closed.congr ?_ this
        intro x; simp [consIf]; constructor
        · rintro (h | rfl | h)
          · exact Or.inr (Or.inl h)
          · exact Or.inl rfl
          · exact Or.inr (Or.inr h)
        · rintro (rfl | h | h)
          · exact Or.inr (Or.inl rfl)
          · exact Or.inl h
          · exact Or.inr (Or.inr h)

theorem inv_init (V : View) (o : Int) (ho : 0 < o ∨ 0 < V.target o) : Inv V (gsInit o) := by
  refine ⟨?_, ?_, ?_, ?_⟩
  · intro n hn; simp [gsInit] at hn
  · intro e he; simp [gsInit] at he
  · intro si hsi _ hd; simp [gsInit] at hsi; subst hsi; simp at hd
  · intro si hsi hn; simp [gsInit] at hsi; subst hsi
    rcases ho with h | h
    · exact absurd h hn
    · exact h

end AgdbSearch
