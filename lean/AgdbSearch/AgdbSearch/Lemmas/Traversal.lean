/-
Invariants of `SearchImpl::search` with the lazy sibling chaining (C14), for both iterators and both
directions at once (everything is stated over a `View` and the work list as a set).
-/
import AgdbSearch.Lemmas.Slice
namespace AgdbSearch

/-- Well-formedness of a direction view: chains have no repetitions, every edge on node `n`'s chain is owned by
`n`, chain members are edge ids (not positive) and lead to node ids (positive). -/
structure View.WF (V : View) : Prop where
  owner_of_mem : ∀ n e, 0 < n → e ∈ V.succ n → V.owner e = n
  nodup : ∀ n, (V.succ n).Nodup
  edge_neg : ∀ n e, e ∈ V.succ n → ¬ 0 < e
  target_pos : ∀ n e, 0 < n → e ∈ V.succ n → 0 < V.target e

/-- Reachability in the documented sense: from a node to each edge on its chain, from an edge to its target. -/
inductive Reach (V : View) (o : Int) : Int → Prop
  | origin : Reach V o o
  | edge {n e : Int} : Reach V o n → 0 < n → e ∈ V.succ n → Reach V o e
  | node {e : Int} : Reach V o e → ¬ 0 < e → Reach V o (V.target e)

/-- The part of the owner's chain starting at edge `e`. -/
def chain (V : View) (e : Int) : List Int := (V.succ (V.owner e)).dropWhile (fun x => x != e)

/-! ### list facts about `after` -/

theorem after_mem {e x : Int} : ∀ {l : List Int}, after e l = some x → x ∈ l
  | [], h => by simp [after] at h
  | y :: ys, h => by
    simp only [after] at h
    split at h
    · cases ys with
      | nil => simp at h
      | cons z zs => simp at h; simp [h]
    · exact List.mem_cons_of_mem _ (after_mem h)

theorem dropWhile_cons_ne {e y : Int} {ys : List Int} (h : y ≠ e) :
    (y :: ys).dropWhile (fun x => x != e) = ys.dropWhile (fun x => x != e) := by
  have : (y != e) = true := by simp [h]
  simp [this]

theorem dropWhile_cons_eq {e : Int} {ys : List Int} :
    (e :: ys).dropWhile (fun x => x != e) = e :: ys := by
  simp

theorem dropWhile_after {e : Int} : ∀ {l : List Int}, l.Nodup → e ∈ l →
    l.dropWhile (fun x => x != e) =
      e :: (match after e l with
            | some e' => l.dropWhile (fun x => x != e')
            | none => [])
  | [], _, h => by simp at h
  | y :: ys, hnd, hmem => by
    have hnd' := List.nodup_cons.mp hnd
    by_cases hy : y = e
    · subst hy
      rw [dropWhile_cons_eq]
      cases ys with
      | nil => simp [after]
      | cons z zs =>
        have hne : y ≠ z := by
          intro h; apply hnd'.1; simp [h]
        simp only [after, if_true, List.head?_cons]
        rw [dropWhile_cons_ne hne, dropWhile_cons_eq]
    · have hmem' : e ∈ ys := by
        rcases List.mem_cons.mp hmem with h | h
        · exact absurd h.symm hy
        · exact h
      have ih := dropWhile_after (e := e) hnd'.2 hmem'
      rw [dropWhile_cons_ne hy, ih]
      simp only [after, hy, if_false]
      cases ha : after e ys with
      | none => rfl
      | some e' =>
        have : y ≠ e' := by
          intro h; apply hnd'.1; rw [h]; exact after_mem ha
        simp only [dropWhile_cons_ne this]

theorem View.next_mem (V : View) {e e' : Int} (h : V.next e = some e') : e' ∈ V.succ (V.owner e) :=
  after_mem h

theorem chain_cons (V : View) (hwf : V.WF) {e : Int} (ho : 0 < V.owner e) (hm : e ∈ V.succ (V.owner e)) :
    chain V e = e :: (match V.next e with
                      | some e' => chain V e'
                      | none => []) := by
  unfold chain View.next
  rw [dropWhile_after (hwf.nodup _) hm]
  cases ha : after e (V.succ (V.owner e)) with
  | none => rfl
  | some e' =>
    have : V.owner e' = V.owner e := hwf.owner_of_mem _ _ ho (after_mem ha)
    simp [this]

theorem chain_first (V : View) (hwf : V.WF) {n f : Int} (hn : 0 < n) (hf : V.first n = some f) :
    chain V f = V.succ n := by
  unfold View.first at hf
  cases hs : V.succ n with
  | nil => simp [hs] at hf
  | cons y ys =>
    simp [hs] at hf; subst hf
    have : V.owner y = n := hwf.owner_of_mem n y hn (by simp [hs])
    simp only [chain, this, hs, dropWhile_cons_eq]

/-! ### membership in the expanded work list -/

theorem mem_optList {o : Option Int} {d : Nat} {x : SI} : x ∈ optList o d ↔ o = some x.idx ∧ x.dist = d := by
  obtain ⟨xi, xd⟩ := x
  cases o with
  | none => simp [optList]
  | some i =>
    simp only [optList, List.mem_singleton, SI.mk.injEq, Option.some.injEq]
    constructor
    · rintro ⟨rfl, rfl⟩; exact ⟨rfl, rfl⟩
    · rintro ⟨rfl, rfl⟩; exact ⟨rfl, rfl⟩

theorem mem_expand (alg : Alg) (V : View) (si : SI) (follow : Bool) (rest : List SI) (x : SI) :
    x ∈ expand false alg V si follow rest ↔
      x ∈ rest ∨
      (0 < si.idx ∧ follow = true ∧ V.first si.idx = some x.idx ∧ x.dist = si.dist + 1) ∨
      (¬ 0 < si.idx ∧ si.dist ≠ 0 ∧ V.next si.idx = some x.idx ∧ x.dist = si.dist) ∨
      (¬ 0 < si.idx ∧ follow = true ∧ x = ⟨V.target si.idx, si.dist + 1⟩) := by
  unfold expand
  by_cases hn : 0 < si.idx
  · cases follow <;> cases alg <;> simp [hn, mem_optList] <;> grind
  · by_cases hd : si.dist = 0
    · cases follow <;> cases alg <;> simp [hn, hd] <;> grind
    · cases follow <;> cases alg <;> simp [hn, hd, mem_optList] <;> grind

/-! ### one step of the loop -/

theorem gstep_nil (alg : Alg) (V : View) (vis : List Int) : gstep false alg V ⟨[], vis⟩ = .done := rfl

theorem gstep_visited (alg : Alg) (V : View) (si : SI) (rest : List SI) (vis : List Int)
    (h : vis.contains si.idx = true) :
    gstep false alg V ⟨si :: rest, vis⟩ = .skip ⟨expand false alg V si false rest, vis⟩ := by
  simp only [gstep, h, if_true, Bool.false_eq_true, if_false]

theorem gstep_unvisited (alg : Alg) (V : View) (si : SI) (rest : List SI) (vis : List Int)
    (h : vis.contains si.idx = false) :
    gstep false alg V ⟨si :: rest, vis⟩ =
      .visit si.idx si.dist (fun follow => ⟨expand false alg V si follow rest, si.idx :: vis⟩) := by
  simp only [gstep, h, Bool.false_eq_true, if_false]

/-! ### soundness and no duplicates (any handler) -/

/-- Invariant on work items for soundness. -/
def GoodItem (V : View) (o : Int) (si : SI) : Prop :=
  Reach V o si.idx ∧
  (¬ 0 < si.idx → 0 < V.target si.idx) ∧
  (¬ 0 < si.idx → si.dist ≠ 0 →
    0 < V.owner si.idx ∧ si.idx ∈ V.succ (V.owner si.idx) ∧ Reach V o (V.owner si.idx))

theorem first_mem {V : View} {n f : Int} (hf : V.first n = some f) : f ∈ V.succ n := by
  unfold View.first at hf
  cases hs : V.succ n with
  | nil => simp [hs] at hf
  | cons y ys => simp [hs] at hf; simp [hf]

theorem good_expand (alg : Alg) (V : View) (hwf : V.WF) (o : Int) (si : SI) (follow : Bool) (rest : List SI)
    (hsi : GoodItem V o si) (hrest : ∀ x ∈ rest, GoodItem V o x) :
    ∀ x ∈ expand false alg V si follow rest, GoodItem V o x := by
  intro x hx
  rcases (mem_expand alg V si follow rest x).mp hx with h | ⟨hn, _, hf, hd⟩ | ⟨hn, hd0, hnx, hd⟩ | ⟨hn, _, rfl⟩
  · exact hrest x h
  · have hmem : x.idx ∈ V.succ si.idx := first_mem hf
    have ho := hwf.owner_of_mem _ _ hn hmem
    refine ⟨Reach.edge hsi.1 hn hmem, fun _ => hwf.target_pos _ _ hn hmem, fun _ _ => ?_⟩
    rw [ho]; exact ⟨hn, hmem, hsi.1⟩
  · obtain ⟨hpos, hm, hr⟩ := hsi.2.2 hn hd0
    have hmem : x.idx ∈ V.succ (V.owner si.idx) := V.next_mem hnx
    have ho := hwf.owner_of_mem _ _ hpos hmem
    refine ⟨Reach.edge hr hpos hmem, fun _ => hwf.target_pos _ _ hpos hmem, fun _ _ => ?_⟩
    rw [ho]; exact ⟨hpos, hmem, hr⟩
  · have hp : 0 < V.target si.idx := hsi.2.1 hn
    exact ⟨Reach.node hsi.1 hn, fun h => absurd hp h, fun h => absurd hp h⟩

/-- Everything a search returns is reachable from the origin — for any handler (conditions, limits). -/
theorem sound_aux {σ : Type} (alg : Alg) (V : View) (hwf : V.WF) (o : Int) (h : HandlerFn σ) :
    ∀ (f : Nat) (s : GS) (st : σ) (xs : List Int),
      run (gstep false alg V) h f s st = .ok xs →
      (∀ si ∈ s.work, GoodItem V o si) → ∀ x ∈ xs, Reach V o x := by
  intro f
  induction f with
  | zero => intro s st xs hr; simp [run] at hr
  | succ f ih =>
    intro s st xs hr hgood
    obtain ⟨work, vis⟩ := s
    cases work with
    | nil =>
      simp only [run, gstep_nil] at hr
      injection hr with hr; subst hr; simp
    | cons si rest =>
      have hsi := hgood si (by simp)
      have hrest : ∀ x ∈ rest, GoodItem V o x := fun x hx => hgood x (by simp [hx])
      cases hv : vis.contains si.idx with
      | true =>
        simp only [run, gstep_visited alg V si rest vis hv] at hr
        exact ih _ st xs hr (good_expand alg V hwf o si false rest hsi hrest)
      | false =>
        simp only [run, gstep_unvisited alg V si rest vis hv] at hr
        cases hc : (h st si.idx si.dist).1.kind <;> simp only [hc] at hr
        · obtain ⟨xs', hx', rfl⟩ := Outcome.map_eq_ok hr
          intro x hx
          have := ih _ _ xs' hx' (good_expand alg V hwf o si true rest hsi hrest)
          unfold consIf at hx; split at hx
          · rcases List.mem_cons.mp hx with rfl | hx
            · exact hsi.1
            · exact this x hx
          · exact this x hx
        · injection hr with hr; subst hr
          intro x hx
          unfold consIf at hx; split at hx
          · simp at hx; subst hx; exact hsi.1
          · simp at hx
        · obtain ⟨xs', hx', rfl⟩ := Outcome.map_eq_ok hr
          intro x hx
          have := ih _ _ xs' hx' (good_expand alg V hwf o si false rest hsi hrest)
          unfold consIf at hx; split at hx
          · rcases List.mem_cons.mp hx with rfl | hx
            · exact hsi.1
            · exact this x hx
          · exact this x hx

/-- No element is returned twice, and nothing already visited is returned — for any handler. -/
theorem nodup_aux {σ : Type} (alg : Alg) (V : View) (h : HandlerFn σ) :
    ∀ (f : Nat) (s : GS) (st : σ) (xs : List Int),
      run (gstep false alg V) h f s st = .ok xs →
      xs.Nodup ∧ ∀ x ∈ xs, x ∉ s.visited := by
  intro f
  induction f with
  | zero => intro s st xs hr; simp [run] at hr
  | succ f ih =>
    intro s st xs hr
    obtain ⟨work, vis⟩ := s
    cases work with
    | nil =>
      simp only [run, gstep_nil] at hr
      injection hr with hr; subst hr; simp
    | cons si rest =>
      cases hv : vis.contains si.idx with
      | true =>
        simp only [run, gstep_visited alg V si rest vis hv] at hr
        have := ih _ st xs hr
        exact this
      | false =>
        have hnv : si.idx ∉ vis := by simpa using hv
        simp only [run, gstep_unvisited alg V si rest vis hv] at hr
        have key : ∀ xs' : List Int, (xs'.Nodup ∧ ∀ x ∈ xs', x ∉ si.idx :: vis) → ∀ b,
            (consIf b si.idx xs').Nodup ∧ ∀ x ∈ consIf b si.idx xs', x ∉ vis := by
          intro xs' ⟨hnd, hnot⟩ b
          cases b
          · exact ⟨hnd, fun x hx hxv => hnot x hx (List.mem_cons_of_mem _ hxv)⟩
          · refine ⟨List.nodup_cons.mpr ⟨fun hm => hnot _ hm (by simp), hnd⟩, ?_⟩
            intro x hx hxv
            rcases List.mem_cons.mp hx with rfl | hx
            · exact hnv hxv
            · exact hnot x hx (List.mem_cons_of_mem _ hxv)
        cases hc : (h st si.idx si.dist).1.kind <;> simp only [hc] at hr
        · obtain ⟨xs', hx', rfl⟩ := Outcome.map_eq_ok hr
          exact key xs' (ih _ _ xs' hx') _
        · injection hr with hr; subst hr
          exact key [] (by simp) _
        · obtain ⟨xs', hx', rfl⟩ := Outcome.map_eq_ok hr
          exact key xs' (ih _ _ xs' hx') _

end AgdbSearch
