/-
The loop invariants of `PathSearch::search` (C17): validity of every queued path (any handler) and, for
distance-independent costs, the Dijkstra invariant.
-/
import AgdbSearch.Lemmas.PathLemmas
namespace AgdbSearch

/-! ### validity, any handler -/

theorem mergeSort_eq_nil {paths : List Path} (h : (sortPaths paths).getLast? = none) : paths = [] := by
  have h1 : sortPaths paths = [] := List.getLast?_eq_none_iff.mp h
  have := (sortPaths_perm paths).length_eq
  rw [h1] at this
  exact List.eq_nil_of_length_eq_zero this.symm

theorem allValid_step (g : Graph) (h : Int → Nat → Nat × Bool) (o dest : Int) (s s' : PS)
    (hv : AllValid g h o s) (hs : pathStep false g h dest s = .inl s') : AllValid g h o s' := by
  rcases pathStep_cases g h dest s with ⟨_, h0⟩ | ⟨cur, hc, h1 | h1 | h1⟩
  · rw [h0] at hs; cases hs
  · obtain ⟨_, hmem⟩ := (pop_spec s.paths cur hc).2
    rw [h1.2] at hs; injection hs with hs; subst hs
    intro p hp
    exact hv p ((hmem p).mpr (Or.inr hp))
  · rw [h1.2.2] at hs; cases hs
  · obtain ⟨hcur, _, hmem⟩ := pop_spec s.paths cur hc
    rw [h1.2.2] at hs; injection hs with hs; subst hs
    intro p hp
    rcases List.mem_append.mp hp with hp | hp
    · exact hv p ((hmem p).mpr (Or.inr hp))
    · obtain ⟨e, he, h1', _, h3', rfl⟩ := (mem_news g h _ cur (lastOf cur) p).mp hp
      have hcv := hv cur hcur
      have := VPath.snoc e hcv he h1' h3'
      rw [lastOf_snoc2]
      exact this

theorem VPath.ne_nil {g : Graph} {h : Int → Nat → Nat × Bool} {o u : Int} {l : List (Int × Bool)} {k : Nat}
    (hv : VPath g h o l u k) : l ≠ [] := by
  cases hv <;> simp

theorem valid_result (g : Graph) (h : Int → Nat → Nat × Bool) (o dest : Int) (s : PS) (r : List (Int × Bool))
    (hv : AllValid g h o s) (hs : pathStep false g h dest s = .inr r) :
    (r = [] ∧ s.paths = []) ∨ ∃ cur, r = cur.elems ∧ cur ∈ s.paths ∧ lastOf cur = dest ∧ lastOf cur ∉ s.visited ∧
      (∀ q ∈ s.paths, cur.cost ≤ q.cost) ∧ VPath g h o r dest cur.cost := by
  rcases pathStep_cases g h dest s with ⟨hn, h0⟩ | ⟨cur, hc, h1 | h1 | h1⟩
  · rw [h0] at hs; injection hs with hs
    exact Or.inl ⟨hs.symm, mergeSort_eq_nil hn⟩
  · rw [h1.2] at hs; cases hs
  · obtain ⟨hcur, hmin, _⟩ := pop_spec s.paths cur hc
    rw [h1.2.2] at hs; injection hs with hs
    right
    refine ⟨cur, hs.symm, hcur, h1.2.1, h1.1, hmin, ?_⟩
    have := hv cur hcur
    rw [h1.2.1] at this
    rw [← hs]; exact this
  · rw [h1.2.2] at hs; cases hs

/-- **Validity of the raw result** for any handler (distance-dependent conditions included). -/
theorem pathLoop_valid (g : Graph) (h : Int → Nat → Nat × Bool) (o dest : Int) :
    ∀ (f : Nat) (s : PS) (r : List (Int × Bool)), AllValid g h o s →
      pathLoop false g h dest f s = .ok r → r = [] ∨ ∃ k, VPath g h o r dest k := by
  intro f
  induction f with
  | zero => intro s r _ hr; simp [pathLoop] at hr
  | succ f ih =>
    intro s r hv hr
    simp only [pathLoop] at hr
    split at hr
    · injection hr with hr; exact Or.inl hr.symm
    · split at hr
      · rename_i r' hstep
        injection hr with hr; subst hr
        rcases valid_result g h o dest s _ hv hstep with ⟨h0, _⟩ | ⟨cur, _, _, _, _, _, hvp⟩
        · exact Or.inl h0
        · exact Or.inr ⟨_, hvp⟩
      · rename_i s' hstep
        exact ih s' r (allValid_step g h o dest s s' hv hstep) hr

/-! ### optimality, distance-independent costs -/

/-- Usable paths and their costs when the cost of an element does not depend on its distance. -/
inductive UPath (g : Graph) (c : Int → Nat) (o : Int) : Int → Nat → Prop
  | nil : UPath g c o o 0
  | step {u : Int} {k : Nat} (e : Nat) : UPath g c o u k → e ∈ g.outOf u.toNat →
      c (-(Int.ofNat e)) ≠ 0 → c (Int.ofNat (g.dstOf e)) ≠ 0 →
      UPath g c o (Int.ofNat (g.dstOf e)) (k + c (-(Int.ofNat e)) + c (Int.ofNat (g.dstOf e)))

theorem VPath.length_pos {g : Graph} {h : Int → Nat → Nat × Bool} {o u : Int} {l : List (Int × Bool)} {k : Nat}
    (hv : VPath g h o l u k) : 0 < l.length := List.length_pos_iff.mpr hv.ne_nil

theorem VPath.toUPath {g : Graph} {h : Int → Nat → Nat × Bool} (hs : ∀ x d, 0 < d → h x d = h x 1)
    {o u : Int} {l : List (Int × Bool)} {k : Nat} (hv : VPath g h o l u k) :
    UPath g (fun x => (h x 1).1) o u k := by
  induction hv with
  | single => exact UPath.nil
  | @snoc l u k e hprev he h1 h2 ih =>
    have hp := hprev.length_pos
    rw [hs (-(Int.ofNat e)) l.length hp] at h1 ⊢
    rw [hs (Int.ofNat (g.dstOf e)) (l.length + 1) (Nat.succ_pos _)] at h2 ⊢
    exact UPath.step e ih he h1 h2

structure PInv (g : Graph) (c : Int → Nat) (o dest : Int) (s : PS) : Prop where
  valid : ∀ p ∈ s.paths, UPath g c o (lastOf p) p.cost
  origin : o ∈ s.visited ∨ ∃ p ∈ s.paths, lastOf p = o ∧ p.cost = 0
  settled : ∀ v ∈ s.visited, ∃ kv, (∀ k, UPath g c o v k → kv ≤ k) ∧
    ∀ e ∈ g.outOf v.toNat, c (-(Int.ofNat e)) ≠ 0 → c (Int.ofNat (g.dstOf e)) ≠ 0 →
      Int.ofNat (g.dstOf e) ∈ s.visited ∨
      ∃ p ∈ s.paths, lastOf p = Int.ofNat (g.dstOf e) ∧
        p.cost ≤ kv + c (-(Int.ofNat e)) + c (Int.ofNat (g.dstOf e))
  destUnvisited : dest ∉ s.visited

/-- Frontier property: any usable path to `x` either ends in the settled region or is dominated by a queued
path whose end is not settled. -/
theorem frontier {g : Graph} {c : Int → Nat} {o dest : Int} {s : PS} (hi : PInv g c o dest s)
    {x : Int} {k : Nat} (hp : UPath g c o x k) :
    x ∈ s.visited ∨ ∃ p ∈ s.paths, lastOf p ∉ s.visited ∧ p.cost ≤ k := by
  induction hp with
  | nil =>
    rcases hi.origin with h | ⟨p, hp, hl, hc⟩
    · exact Or.inl h
    · by_cases hv : o ∈ s.visited
      · exact Or.inl hv
      · exact Or.inr ⟨p, hp, by rw [hl]; exact hv, by omega⟩
  | step e hu he h1 h2 ih =>
    rename_i u k'
    rcases ih with hvis | ⟨p, hp, hl, hc⟩
    · obtain ⟨kv, hmin, hedges⟩ := hi.settled u hvis
      have hkv := hmin k' hu
      rcases hedges e he h1 h2 with h | ⟨p, hp, hl, hc⟩
      · exact Or.inl h
      · by_cases hv : Int.ofNat (g.dstOf e) ∈ s.visited
        · exact Or.inl hv
        · exact Or.inr ⟨p, hp, by rw [hl]; exact hv, by omega⟩
    · exact Or.inr ⟨p, hp, hl, by omega⟩

theorem pinv_step (g : Graph) (h : Int → Nat → Nat × Bool) (hs : ∀ x d, 0 < d → h x d = h x 1) (o dest : Int)
    (s s' : PS) (hv : AllValid g h o s) (hi : PInv g (fun x => (h x 1).1) o dest s)
    (hstep : pathStep false g h dest s = .inl s') : PInv g (fun x => (h x 1).1) o dest s' := by
  rcases pathStep_cases g h dest s with ⟨_, h0⟩ | ⟨cur, hc, h1 | h1 | h1⟩
  · rw [h0] at hstep; cases hstep
  · -- discard: the popped path ends in a settled node
    obtain ⟨_, _, hmem⟩ := pop_spec s.paths cur hc
    rw [h1.2] at hstep; injection hstep with hstep; subst hstep
    refine ⟨fun p hp => hi.valid p ((hmem p).mpr (Or.inr hp)), ?_, ?_, hi.destUnvisited⟩
    · rcases hi.origin with h | ⟨p, hp, hl, hc0⟩
      · exact Or.inl h
      · rcases (hmem p).mp hp with rfl | hp
        · left; rw [← hl]; exact h1.1
        · exact Or.inr ⟨p, hp, hl, hc0⟩
    · intro v hv
      obtain ⟨kv, hmin, hedges⟩ := hi.settled v hv
      refine ⟨kv, hmin, fun e he h1' h2' => ?_⟩
      rcases hedges e he h1' h2' with h | ⟨p, hp, hl, hc0⟩
      · exact Or.inl h
      · rcases (hmem p).mp hp with rfl | hp
        · left; rw [← hl]; exact h1.1
        · exact Or.inr ⟨p, hp, hl, hc0⟩
  · rw [h1.2.2] at hstep; cases hstep
  · -- expand: the popped path ends in an unsettled node `u`, which becomes settled with cost `cur.cost`
    obtain ⟨hcur, hmin, hmem⟩ := pop_spec s.paths cur hc
    obtain ⟨hnv, hnd, heq⟩ := h1
    rw [heq] at hstep; injection hstep with hstep; subst hstep
    have hcurv := hi.valid cur hcur
    have hlen : 0 < cur.elems.length := (hv cur hcur).length_pos
    have hlen1 : 0 < cur.elems.length + 1 := Nat.succ_pos _
    have hnews : ∀ e ∈ g.outOf (lastOf cur).toNat, (h (-(Int.ofNat e)) 1).1 ≠ 0 → (h (Int.ofNat (g.dstOf e)) 1).1 ≠ 0 →
        Int.ofNat (g.dstOf e) ∉ lastOf cur :: s.visited →
        ∃ p ∈ (g.outOf (lastOf cur).toNat).flatMap (fun e =>
            expandEdge false h (lastOf cur :: s.visited) cur (-(Int.ofNat e)) (Int.ofNat (g.dstOf e))),
          lastOf p = Int.ofNat (g.dstOf e) ∧
          p.cost = cur.cost + (h (-(Int.ofNat e)) 1).1 + (h (Int.ofNat (g.dstOf e)) 1).1 := by
      intro e he h1' h2' hnv'
      refine ⟨_, (mem_news g h _ cur (lastOf cur) _).mpr ⟨e, he, ?_, hnv', ?_, rfl⟩, lastOf_snoc2 _ _ _ _, ?_⟩
      · rw [hs _ _ hlen]; exact h1'
      · rw [hs _ _ hlen1]; exact h2'
      · simp only; rw [hs (-(Int.ofNat e)) _ hlen, hs (Int.ofNat (g.dstOf e)) _ hlen1]
    refine ⟨?_, ?_, ?_, ?_⟩
    · intro p hp
      rcases List.mem_append.mp hp with hp | hp
      · exact hi.valid p ((hmem p).mpr (Or.inr hp))
      · obtain ⟨e, he, h1', _, h3', rfl⟩ := (mem_news g h _ cur (lastOf cur) p).mp hp
        rw [lastOf_snoc2]
        simp only
        rw [hs (-(Int.ofNat e)) _ hlen] at h1' ⊢
        rw [hs (Int.ofNat (g.dstOf e)) _ hlen1] at h3' ⊢
        exact UPath.step e hcurv he h1' h3'
    · rcases hi.origin with h | ⟨p, hp, hl, hc0⟩
      · exact Or.inl (List.mem_cons_of_mem _ h)
      · rcases (hmem p).mp hp with rfl | hp
        · left; rw [← hl]; simp
        · exact Or.inr ⟨p, List.mem_append_left _ hp, hl, hc0⟩
    · intro v hv
      rcases List.mem_cons.mp hv with rfl | hv
      · refine ⟨cur.cost, ?_, ?_⟩
        · intro k hk
          rcases frontier hi hk with h | ⟨p, hp, _, hc0⟩
          · exact absurd h hnv
          · have := hmin p hp; omega
        · intro e he h1' h2'
          by_cases hx : Int.ofNat (g.dstOf e) ∈ lastOf cur :: s.visited
          · exact Or.inl hx
          · obtain ⟨p, hp, hl, hc0⟩ := hnews e he h1' h2' hx
            exact Or.inr ⟨p, List.mem_append_right _ hp, hl, by omega⟩
      · obtain ⟨kv, hmin', hedges⟩ := hi.settled v hv
        refine ⟨kv, hmin', fun e he h1' h2' => ?_⟩
        rcases hedges e he h1' h2' with h | ⟨p, hp, hl, hc0⟩
        · exact Or.inl (List.mem_cons_of_mem _ h)
        · rcases (hmem p).mp hp with rfl | hp
          · left; rw [← hl]; simp
          · exact Or.inr ⟨p, List.mem_append_left _ hp, hl, hc0⟩
    · intro hd
      rcases List.mem_cons.mp hd with h | h
      · exact hnd h.symm
      · exact hi.destUnvisited h

/-- **Dijkstra**: with distance-independent costs the loop returns either nothing, and then no usable path to the
destination exists, or a valid path whose cost no usable path undercuts. -/
theorem pathLoop_optimal (g : Graph) (h : Int → Nat → Nat × Bool) (hs : ∀ x d, 0 < d → h x d = h x 1) (o dest : Int) :
    ∀ (f : Nat) (s : PS) (r : List (Int × Bool)),
      AllValid g h o s → PInv g (fun x => (h x 1).1) o dest s →
      pathLoop false g h dest f s = .ok r →
      (r = [] ∧ ∀ k, ¬ UPath g (fun x => (h x 1).1) o dest k) ∨
      (∃ K, VPath g h o r dest K ∧ ∀ k, UPath g (fun x => (h x 1).1) o dest k → K ≤ k) := by
  intro f
  induction f with
  | zero => intro s r _ _ hr; simp [pathLoop] at hr
  | succ f ih =>
    intro s r hv hi hr
    have hempty : s.paths = [] → ∀ k, ¬ UPath g (fun x => (h x 1).1) o dest k := by
      intro he k hk
      rcases frontier hi hk with h | ⟨p, hp, _⟩
      · exact hi.destUnvisited h
      · rw [he] at hp; simp at hp
    simp only [pathLoop] at hr
    split at hr
    · rename_i he
      injection hr with hr
      exact Or.inl ⟨hr.symm, hempty (by simpa using he)⟩
    · split at hr
      · rename_i r' hstep
        injection hr with hr; subst hr
        rcases valid_result g h o dest s _ hv hstep with ⟨h0, hp0⟩ | ⟨cur, _, _, hl, hnv, hmin, hvp⟩
        · exact Or.inl ⟨h0, hempty hp0⟩
        · right
          refine ⟨cur.cost, hvp, fun k hk => ?_⟩
          rcases frontier hi hk with h | ⟨p, hp, _, hc0⟩
          · exact absurd h hi.destUnvisited
          · have := hmin p hp; omega
      · rename_i s' hstep
        exact ih s' r (allValid_step g h o dest s s' hv hstep) (pinv_step g h hs o dest s s' hv hi hstep) hr

theorem init_valid (g : Graph) (h : Int → Nat → Nat × Bool) (o : Int) :
    AllValid g h o ⟨[⟨[(o, (h o 0).2)], 0⟩], []⟩ := by
  intro p hp
  simp at hp; subst hp
  exact VPath.single

theorem init_pinv (g : Graph) (c : Int → Nat) (o dest : Int) (b : Bool) :
    PInv g c o dest ⟨[⟨[(o, b)], 0⟩], []⟩ := by
  refine ⟨?_, Or.inr ⟨⟨[(o, b)], 0⟩, by simp, by simp [lastOf], rfl⟩, by intro v hv; simp at hv, by simp⟩
  intro p hp
  simp at hp; subst hp
  exact UPath.nil

end AgdbSearch
