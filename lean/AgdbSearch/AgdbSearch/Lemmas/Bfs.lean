/-
Breadth-first order (C14): the distances handed to the handler are non-decreasing along the run and each is the
shortest distance of its element from the origin (every node and edge step counts 1).
-/
import AgdbSearch.Lemmas.Complete
namespace AgdbSearch

/-- The sequence of handler calls `(index, distance)` of an unconditional traversal (`none` = out of fuel). -/
def visitsD (alg : Alg) (V : View) : Nat → GS → Option (List SI)
  | 0, _ => none
  | f + 1, s =>
    match gstep false alg V s with
    | .done => some []
    | .skip s' => visitsD alg V f s'
    | .visit idx dist k => (visitsD alg V f (k true)).map (fun t => ⟨idx, dist⟩ :: t)

theorem run_visitsD (alg : Alg) (V : View) :
    ∀ (f : Nat) (s : GS) (xs : List Int), run (gstep false alg V) allH f s () = .ok xs →
      ∃ tr, visitsD alg V f s = some tr ∧ xs = tr.map (fun t => t.idx) := by
  intro f
  induction f with
  | zero => intro s xs h; simp [run] at h
  | succ f ih =>
    intro s xs h
    simp only [run, visitsD] at h ⊢
    cases hs : gstep false alg V s with
    | done => simp only [hs] at h ⊢; injection h with h; subst h; exact ⟨[], rfl, rfl⟩
    | skip s' => simp only [hs] at h ⊢; exact ih s' xs h
    | visit idx dist k =>
      simp only [hs, allH, defaultH] at h ⊢
      obtain ⟨xs', hx', rfl⟩ := Outcome.map_eq_ok h
      obtain ⟨tr, htr, rfl⟩ := ih _ xs' hx'
      exact ⟨⟨idx, dist⟩ :: tr, by simp [htr], by simp [consIf]⟩

/-- `ReachD V o x k`: there is a walk of exactly `k` steps from the origin to `x`. -/
inductive ReachD (V : View) (o : Int) : Int → Nat → Prop
  | origin : ReachD V o o 0
  | edge {n e : Int} {k : Nat} : ReachD V o n k → 0 < n → e ∈ V.succ n → ReachD V o e (k + 1)
  | node {e : Int} {k : Nat} : ReachD V o e k → ¬ 0 < e → ReachD V o (V.target e) (k + 1)

/-- Work-list discipline of the breadth-first deque: sorted by distance, all within one level of each other. -/
def BfsOrd (w : List SI) : Prop :=
  w.Pairwise (fun a b => a.dist ≤ b.dist) ∧ ∀ a ∈ w, ∀ b ∈ w, b.dist ≤ a.dist + 1

theorem bfsOrd_expand (V : View) (si : SI) (follow : Bool) (rest : List SI) (h : BfsOrd (si :: rest)) :
    BfsOrd (expand false .bfs V si follow rest) ∧ ∀ x ∈ expand false .bfs V si follow rest, si.dist ≤ x.dist := by
  obtain ⟨hs, hn⟩ := h
  have hs' := List.pairwise_cons.mp hs
  have hge : ∀ x ∈ rest, si.dist ≤ x.dist := hs'.1
  have hle : ∀ x ∈ rest, x.dist ≤ si.dist + 1 := fun x hx => hn si (by simp) x (by simp [hx])
  have hnr : ∀ a ∈ rest, ∀ b ∈ rest, b.dist ≤ a.dist + 1 := fun a ha b hb => hn a (by simp [ha]) b (by simp [hb])
  -- membership-based bounds for every element of the new list
  have hb : ∀ x ∈ expand false .bfs V si follow rest, si.dist ≤ x.dist ∧ x.dist ≤ si.dist + 1 := by
    intro x hx
    rcases (mem_expand .bfs V si follow rest x).mp hx with h | ⟨_, _, _, hd⟩ | ⟨_, _, _, hd⟩ | ⟨_, _, rfl⟩
    · exact ⟨hge x h, hle x h⟩
    · omega
    · omega
    · simp
  refine ⟨⟨?_, ?_⟩, fun x hx => (hb x hx).1⟩
  · unfold expand
    by_cases hpos : 0 < si.idx
    · simp only [hpos, if_true]
      cases follow
      · simpa using hs'.2
      · simp only [if_true]
        refine List.pairwise_append.mpr ⟨hs'.2, ?_, ?_⟩
        · cases V.first si.idx <;> simp [optList]
        · intro a ha b hb'
          have := (mem_optList.mp hb').2
          have := hle a ha
          omega
    · simp only [hpos, if_false, Bool.false_or]
      refine List.pairwise_append.mpr ⟨List.pairwise_append.mpr ⟨?_, hs'.2, ?_⟩, ?_, ?_⟩
      · split
        · cases V.next si.idx <;> simp [optList]
        · simp
      · intro a ha b hb'
        have : a.dist = si.dist := by
          split at ha
          · exact (mem_optList.mp ha).2
          · simp at ha
        have := hge b hb'
        omega
      · cases follow <;> simp
      · intro a ha b hb'
        have hbd : b.dist = si.dist + 1 := by
          cases follow
          · simp at hb'
          · simp at hb'; subst hb'; rfl
        rcases List.mem_append.mp ha with ha | ha
        · have : a.dist = si.dist := by
            split at ha
            · exact (mem_optList.mp ha).2
            · simp at ha
          omega
        · have := hle a ha; omega
  · intro a ha b hb'
    have := hb a ha; have := hb b hb'; omega

/-- Visited elements with the distance they were visited at. -/
structure InvD (V : View) (o : Int) (vd : List SI) (s : GS) : Prop where
  vis : ∀ x, x ∈ s.visited ↔ ∃ d, (⟨x, d⟩ : SI) ∈ vd
  d1 : ∀ v ∈ vd, 0 < v.idx → ∀ e ∈ V.succ v.idx,
        (∃ de, de ≤ v.dist + 1 ∧ (⟨e, de⟩ : SI) ∈ vd) ∨
        ∃ si ∈ s.work, ¬ 0 < si.idx ∧ si.dist ≠ 0 ∧ e ∈ chain V si.idx ∧ si.dist ≤ v.dist + 1
  d2 : ∀ v ∈ vd, ¬ 0 < v.idx →
        (∃ dt, dt ≤ v.dist + 1 ∧ (⟨V.target v.idx, dt⟩ : SI) ∈ vd) ∨
        ∃ si ∈ s.work, si.idx = V.target v.idx ∧ si.dist ≤ v.dist + 1
  d3 : ∀ v ∈ vd, ∀ si ∈ s.work, v.dist ≤ si.dist
  i3 : ∀ si ∈ s.work, ¬ 0 < si.idx → si.dist ≠ 0 → 0 < V.owner si.idx ∧ si.idx ∈ V.succ (V.owner si.idx)
  i4 : ∀ si ∈ s.work, ¬ 0 < si.idx → 0 < V.target si.idx
  ord : BfsOrd s.work
  vdSorted : vd.Pairwise (fun a b => a.dist ≤ b.dist)
  sound : ∀ si ∈ s.work, ReachD V o si.idx si.dist ∧
    (¬ 0 < si.idx → si.dist ≠ 0 → ∃ k, si.dist = k + 1 ∧ ReachD V o (V.owner si.idx) k)

theorem sound_expand (V : View) (hwf : V.WF) (o : Int) (alg : Alg) (si : SI) (follow : Bool) (rest : List SI)
    (h3 : ∀ x ∈ si :: rest, ¬ 0 < x.idx → x.dist ≠ 0 → 0 < V.owner x.idx ∧ x.idx ∈ V.succ (V.owner x.idx))
    (h4 : ∀ x ∈ si :: rest, ¬ 0 < x.idx → 0 < V.target x.idx)
    (hs : ∀ x ∈ si :: rest, ReachD V o x.idx x.dist ∧
      (¬ 0 < x.idx → x.dist ≠ 0 → ∃ k, x.dist = k + 1 ∧ ReachD V o (V.owner x.idx) k)) :
    ∀ x ∈ expand false alg V si follow rest, ReachD V o x.idx x.dist ∧
      (¬ 0 < x.idx → x.dist ≠ 0 → ∃ k, x.dist = k + 1 ∧ ReachD V o (V.owner x.idx) k) := by
  intro x hx
  have hsi := hs si (by simp)
  rcases (mem_expand alg V si follow rest x).mp hx with h | ⟨hn, _, hf, hd⟩ | ⟨hn, hd0, hnx, hd⟩ | ⟨hn, _, rfl⟩
  · exact hs x (List.mem_cons_of_mem _ h)
  · have hmem := first_mem hf
    have ho := hwf.owner_of_mem _ _ hn hmem
    refine ⟨by rw [hd]; exact ReachD.edge hsi.1 hn hmem, fun _ _ => ⟨si.dist, hd, by rw [ho]; exact hsi.1⟩⟩
  · obtain ⟨hpos, _⟩ := h3 si (by simp) hn hd0
    obtain ⟨k, hk, hr⟩ := hsi.2 hn hd0
    have hmem := V.next_mem hnx
    have ho := hwf.owner_of_mem _ _ hpos hmem
    refine ⟨by rw [hd, hk]; exact ReachD.edge hr hpos hmem, fun _ _ => ⟨k, by omega, by rw [ho]; exact hr⟩⟩
  · exact ⟨ReachD.node hsi.1 hn, fun hneg _ => absurd (h4 si (by simp) hn) hneg⟩

theorem pending_splitD (V : View) (hwf : V.WF) (alg : Alg) (si : SI) (follow : Bool) (rest : List SI)
    (hn : ¬ 0 < si.idx) (hd : si.dist ≠ 0) (ho : 0 < V.owner si.idx) (hm : si.idx ∈ V.succ (V.owner si.idx))
    {e : Int} (he : e ∈ chain V si.idx) :
    e = si.idx ∨ ∃ x ∈ expand false alg V si follow rest, ¬ 0 < x.idx ∧ x.dist = si.dist ∧ e ∈ chain V x.idx := by
  rw [chain_cons V hwf ho hm] at he
  rcases List.mem_cons.mp he with h | h
  · exact Or.inl h
  · right
    cases hnx : V.next si.idx with
    | none => simp [hnx] at h
    | some e' =>
      simp only [hnx] at h
      refine ⟨⟨e', si.dist⟩, ?_, ?_, rfl, h⟩
      · exact (mem_expand alg V si follow rest _).mpr (Or.inr (Or.inr (Or.inl ⟨hn, hd, hnx, rfl⟩)))
      · exact hwf.edge_neg _ _ (V.next_mem hnx)

theorem invD_skip (V : View) (hwf : V.WF) (o : Int) (vd : List SI) (si : SI) (rest : List SI) (vis : List Int)
    (hinv : InvD V o vd ⟨si :: rest, vis⟩) (hv : si.idx ∈ vis) :
    InvD V o vd ⟨expand false .bfs V si false rest, vis⟩ := by
  obtain ⟨h34a, h34b⟩ := i34_expand V hwf .bfs si false rest hinv.i3 hinv.i4
  obtain ⟨hord, hmin⟩ := bfsOrd_expand V si false rest hinv.ord
  obtain ⟨dv, hdv⟩ := (hinv.vis si.idx).mp hv
  have hdvle : dv ≤ si.dist := hinv.d3 _ hdv si (by simp)
  refine ⟨hinv.vis, ?_, ?_, ?_, h34a, h34b, hord, hinv.vdSorted,
    sound_expand V hwf o .bfs si false rest hinv.i3 hinv.i4 hinv.sound⟩
  · intro v hvd hpos e he
    rcases hinv.d1 v hvd hpos e he with h | ⟨x, hx, hxn, hxd, hxe, hxb⟩
    · exact Or.inl h
    · rcases List.mem_cons.mp hx with rfl | hx
      · obtain ⟨ho, hm⟩ := hinv.i3 x (by simp) hxn hxd
        rcases pending_splitD V hwf .bfs x false rest hxn hxd ho hm hxe with rfl | ⟨y, hy, hyn, hyd, hye⟩
        · exact Or.inl ⟨dv, by omega, hdv⟩
        · exact Or.inr ⟨y, hy, hyn, by omega, hye, by omega⟩
      · exact Or.inr ⟨x, (mem_expand .bfs V si false rest x).mpr (Or.inl hx), hxn, hxd, hxe, hxb⟩
  · intro v hvd hneg
    rcases hinv.d2 v hvd hneg with h | ⟨x, hx, hxe, hxb⟩
    · exact Or.inl h
    · rcases List.mem_cons.mp hx with rfl | hx
      · left; refine ⟨dv, by omega, ?_⟩; rw [← hxe]; exact hdv
      · exact Or.inr ⟨x, (mem_expand .bfs V si false rest x).mpr (Or.inl hx), hxe, hxb⟩
  · intro v hvd x hx
    have := hinv.d3 v hvd si (by simp)
    have := hmin x hx
    omega

theorem invD_visit (V : View) (hwf : V.WF) (o : Int) (vd : List SI) (si : SI) (rest : List SI) (vis : List Int)
    (hinv : InvD V o vd ⟨si :: rest, vis⟩) :
    InvD V o (vd ++ [si]) ⟨expand false .bfs V si true rest, si.idx :: vis⟩ := by
  obtain ⟨h34a, h34b⟩ := i34_expand V hwf .bfs si true rest hinv.i3 hinv.i4
  obtain ⟨hord, hmin⟩ := bfsOrd_expand V si true rest hinv.ord
  have hsi_mem : si ∈ vd ++ [si] := by simp
  refine ⟨?_, ?_, ?_, ?_, h34a, h34b, hord, ?_,
    sound_expand V hwf o .bfs si true rest hinv.i3 hinv.i4 hinv.sound⟩
  · intro x
    constructor
    · intro hx
      rcases List.mem_cons.mp hx with rfl | hx
      · exact ⟨si.dist, hsi_mem⟩
      · obtain ⟨d, hd⟩ := (hinv.vis x).mp hx
        exact ⟨d, List.mem_append_left _ hd⟩
    · rintro ⟨d, hd⟩
      rcases List.mem_append.mp hd with hd | hd
      · exact List.mem_cons_of_mem _ ((hinv.vis x).mpr ⟨d, hd⟩)
      · simp at hd; rw [← hd]; simp
  · intro v hvd hpos e he
    rcases List.mem_append.mp hvd with hvd | hvd
    · rcases hinv.d1 v hvd hpos e he with ⟨de, hde, hm⟩ | ⟨x, hx, hxn, hxd, hxe, hxb⟩
      · exact Or.inl ⟨de, hde, List.mem_append_left _ hm⟩
      · rcases List.mem_cons.mp hx with rfl | hx
        · obtain ⟨ho, hm⟩ := hinv.i3 x (by simp) hxn hxd
          rcases pending_splitD V hwf .bfs x true rest hxn hxd ho hm hxe with rfl | ⟨y, hy, hyn, hyd, hye⟩
          · exact Or.inl ⟨x.dist, hxb, hsi_mem⟩
          · exact Or.inr ⟨y, hy, hyn, by omega, hye, by omega⟩
        · exact Or.inr ⟨x, (mem_expand .bfs V si true rest x).mpr (Or.inl hx), hxn, hxd, hxe, hxb⟩
    · simp at hvd; subst hvd
      right
      cases hf : V.first v.idx with
      | none =>
        unfold View.first at hf
        cases hs : V.succ v.idx with
        | nil => rw [hs] at he; simp at he
        | cons y ys => rw [hs] at hf; simp at hf
      | some f =>
        refine ⟨⟨f, v.dist + 1⟩, ?_, hwf.edge_neg _ _ (first_mem hf), by simp, ?_, Nat.le_refl _⟩
        · exact (mem_expand .bfs V v true rest _).mpr (Or.inr (Or.inl ⟨hpos, rfl, hf, rfl⟩))
        · show e ∈ chain V f
          rw [chain_first V hwf hpos hf]; exact he
  · intro v hvd hneg
    rcases List.mem_append.mp hvd with hvd | hvd
    · rcases hinv.d2 v hvd hneg with ⟨dt, hdt, hm⟩ | ⟨x, hx, hxe, hxb⟩
      · exact Or.inl ⟨dt, hdt, List.mem_append_left _ hm⟩
      · rcases List.mem_cons.mp hx with rfl | hx
        · left; refine ⟨x.dist, hxb, ?_⟩; rw [← hxe]; exact hsi_mem
        · exact Or.inr ⟨x, (mem_expand .bfs V si true rest x).mpr (Or.inl hx), hxe, hxb⟩
    · simp at hvd; subst hvd
      right
      exact ⟨⟨V.target v.idx, v.dist + 1⟩,
        (mem_expand .bfs V v true rest _).mpr (Or.inr (Or.inr (Or.inr ⟨hneg, rfl, rfl⟩))), rfl, Nat.le_refl _⟩
  · intro v hvd x hx
    have := hmin x hx
    rcases List.mem_append.mp hvd with hvd | hvd
    · have := hinv.d3 v hvd si (by simp); omega
    · simp at hvd; subst hvd; exact this
  · refine List.pairwise_append.mpr ⟨hinv.vdSorted, by simp, ?_⟩
    intro a ha b hb
    simp at hb; subst hb
    exact hinv.d3 a ha b (by simp)

/-- Closure with distance bounds. -/
def ClosedD (V : View) (W : List SI) : Prop :=
  (∀ v ∈ W, 0 < v.idx → ∀ e ∈ V.succ v.idx, ∃ de, de ≤ v.dist + 1 ∧ (⟨e, de⟩ : SI) ∈ W) ∧
  (∀ v ∈ W, ¬ 0 < v.idx → ∃ dt, dt ≤ v.dist + 1 ∧ (⟨V.target v.idx, dt⟩ : SI) ∈ W)

theorem bfs_aux (V : View) (hwf : V.WF) (o : Int) :
    ∀ (f : Nat) (s : GS) (vd tr : List SI), visitsD .bfs V f s = some tr → InvD V o vd s →
      (vd ++ tr).Pairwise (fun a b => a.dist ≤ b.dist) ∧ ClosedD V (vd ++ tr) ∧
      ∀ t ∈ tr, ReachD V o t.idx t.dist := by
  intro f
  induction f with
  | zero => intro s vd tr h; simp [visitsD] at h
  | succ f ih =>
    intro s vd tr h hinv
    obtain ⟨work, vis⟩ := s
    cases work with
    | nil =>
      simp only [visitsD, gstep_nil] at h
      injection h with h; subst h
      simp only [List.append_nil]
      refine ⟨hinv.vdSorted, ⟨?_, ?_⟩, by simp⟩
      · intro v hv hp e he
        rcases hinv.d1 v hv hp e he with h | ⟨x, hx, _⟩
        · exact h
        · simp at hx
      · intro v hv hn
        rcases hinv.d2 v hv hn with h | ⟨x, hx, _⟩
        · exact h
        · simp at hx
    | cons si rest =>
      cases hv : vis.contains si.idx with
      | true =>
        simp only [visitsD, gstep_visited .bfs V si rest vis hv] at h
        have := ih _ vd tr h (invD_skip V hwf o vd si rest vis hinv (by simpa using hv))
        exact this
      | false =>
        simp only [visitsD, gstep_unvisited .bfs V si rest vis hv] at h
        cases htr : visitsD .bfs V f ⟨expand false .bfs V si true rest, si.idx :: vis⟩ with
        | none => simp [htr] at h
        | some tr' =>
          simp only [htr, Option.map_some, Option.some.injEq] at h
          subst h
          obtain ⟨h1, h2, h3⟩ := ih _ (vd ++ [si]) tr' htr (invD_visit V hwf o vd si rest vis hinv)
          have heq : vd ++ [si] ++ tr' = vd ++ (⟨si.idx, si.dist⟩ :: tr') := by simp
          rw [heq] at h1 h2
          refine ⟨h1, h2, ?_⟩
          intro t ht
          rcases List.mem_cons.mp ht with rfl | ht
          · exact (hinv.sound si (by simp)).1
          · exact h3 t ht

theorem invD_init (V : View) (o : Int) (ho : 0 < o ∨ 0 < V.target o) : InvD V o [] (gsInit o) := by
  refine ⟨by intro x; simp [gsInit], by intro v hv; simp at hv, by intro v hv; simp at hv,
    by intro v hv; simp at hv, ?_, ?_, ?_, List.Pairwise.nil, ?_⟩
  · intro si hsi _ hd; simp [gsInit] at hsi; subst hsi; simp at hd
  · intro si hsi hn; simp [gsInit] at hsi; subst hsi
    rcases ho with h | h
    · exact absurd h hn
    · exact h
  · simp [BfsOrd, gsInit]
  · intro si hsi; simp [gsInit] at hsi; subst hsi
    exact ⟨ReachD.origin, fun _ hd => absurd rfl hd⟩

/-- From closure: an element reachable in `k` steps was visited at a distance `≤ k`. -/
theorem closedD_lower {V : View} {o : Int} {W : List SI} (hc : ClosedD V W) (ho : (⟨o, 0⟩ : SI) ∈ W)
    {x : Int} {k : Nat} (hr : ReachD V o x k) : ∃ dx, dx ≤ k ∧ (⟨x, dx⟩ : SI) ∈ W := by
  induction hr with
  | origin => exact ⟨0, Nat.le_refl _, ho⟩
  | edge _ hn he ih =>
    obtain ⟨dn, hdn, hm⟩ := ih
    obtain ⟨de, hde, hme⟩ := hc.1 _ hm hn _ he
    exact ⟨de, by simp at hde; omega, hme⟩
  | node _ hn ih =>
    obtain ⟨de, hde, hm⟩ := ih
    obtain ⟨dt, hdt, hmt⟩ := hc.2 _ hm hn
    exact ⟨dt, by simp at hdt; omega, hmt⟩

end AgdbSearch
