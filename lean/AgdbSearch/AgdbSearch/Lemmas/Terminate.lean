/-
Termination of `SearchImpl::search` (C14 / C19 for searches): a potential that strictly decreases with
every loop iteration, for any handler.
-/
import AgdbSearch.Lemmas.Complete
namespace AgdbSearch

/-- Weight of a work item: a node item 1; an edge item 1 + the number of edges from it to the end of its chain. -/
def itemW (V : View) (si : SI) : Nat := if 0 < si.idx then 1 else (chain V si.idx).length + 1

def workW (V : View) (l : List SI) : Nat := (l.map (itemW V)).sum

def unvisW (V : View) : List Int → List Int → Nat
  | [], _ => 0
  | y :: ys, vis => (if y ∈ vis then 0 else elemW V y) + unvisW V ys vis

def potential (V : View) (U : List Int) (s : GS) : Nat := workW V s.work + unvisW V U s.visited

theorem itemW_pos (V : View) (si : SI) : 1 ≤ itemW V si := by unfold itemW; split <;> omega

theorem unvisW_mono (V : View) (x : Int) (vis : List Int) :
    ∀ zs : List Int, unvisW V zs (x :: vis) ≤ unvisW V zs vis
  | [] => by simp [unvisW]
  | z :: zs => by
    have ih := unvisW_mono V x vis zs
    simp only [unvisW, List.mem_cons]
    by_cases hz : z = x
    · simp only [hz, true_or, if_true]; omega
    · by_cases hzv : z ∈ vis
      · simp only [hz, hzv, or_true, if_true]; omega
      · simp only [hz, hzv, or_false, if_false]; omega

theorem unvisW_visit (V : View) (x : Int) (vis : List Int) :
    ∀ U : List Int, x ∈ U → x ∉ vis → unvisW V U (x :: vis) + elemW V x ≤ unvisW V U vis
  | [], h, _ => by simp at h
  | y :: ys, hmem, hnv => by
    simp only [unvisW, List.mem_cons]
    by_cases hy : y = x
    · subst hy
      have := unvisW_mono V y vis ys
      simp only [true_or, if_true, hnv, if_false]; omega
    · have hmem' : x ∈ ys := by
        rcases List.mem_cons.mp hmem with h | h
        · exact absurd h.symm hy
        · exact h
      have ih := unvisW_visit V x vis ys hmem' hnv
      by_cases hyv : y ∈ vis
      · simp only [hy, hyv, or_true, if_true]; omega
      · simp only [hy, hyv, or_false, if_false]; omega

theorem workW_expand_le (V : View) (alg : Alg) (si : SI) (follow : Bool) (rest : List SI) (P : Nat)
    (hfirst : 0 < si.idx → follow = true → ∀ f, V.first si.idx = some f → itemW V ⟨f, si.dist + 1⟩ ≤ P)
    (hedge : ¬ 0 < si.idx →
      (match (if si.dist ≠ 0 then V.next si.idx else none) with
        | some e' => itemW V ⟨e', si.dist⟩
        | none => 0) + (if follow then itemW V ⟨V.target si.idx, si.dist + 1⟩ else 0) ≤ P) :
    workW V (expand false alg V si follow rest) ≤ workW V rest + P := by
  unfold expand workW
  by_cases hn : 0 < si.idx
  · simp only [hn, if_true]
    cases follow
    · simp
    · cases hf : V.first si.idx with
      | none => cases alg <;> simp [optList]
      | some f =>
        have := hfirst hn rfl f hf
        cases alg <;> simp [optList, List.sum_append] <;> omega
  · have he := hedge hn
    simp only [hn, if_false, Bool.false_or]
    by_cases hd : si.dist = 0
    · simp only [hd, ne_eq, not_true_eq_false, if_false] at he
      cases follow <;> cases alg <;> simp_all [List.sum_append] <;> omega
    · simp only [hd, ne_eq, not_false_eq_true, if_true] at he
      have hd' : (si.dist != 0) = true := by simp [hd]
      cases hnx : V.next si.idx with
      | none =>
        simp only [hnx] at he
        cases follow <;> cases alg <;> simp_all [optList, List.sum_append] <;> omega
      | some e' =>
        simp only [hnx] at he
        cases follow <;> cases alg <;> simp_all [optList, List.sum_append] <;> omega

/-- Facts kept along the run for the termination argument. -/
structure InvT (V : View) (U : List Int) (s : GS) : Prop where
  i3 : ∀ si ∈ s.work, ¬ 0 < si.idx → si.dist ≠ 0 → 0 < V.owner si.idx ∧ si.idx ∈ V.succ (V.owner si.idx)
  i4 : ∀ si ∈ s.work, ¬ 0 < si.idx → 0 < V.target si.idx
  inU : ∀ si ∈ s.work, si.idx ∈ U

/-- `U` contains every element the traversal can touch. -/
structure Universe (V : View) (U : List Int) : Prop where
  succ_mem : ∀ n ∈ U, 0 < n → ∀ e ∈ V.succ n, e ∈ U
  target_mem : ∀ e ∈ U, ¬ 0 < e → V.target e ∈ U
  next_mem : ∀ e ∈ U, ¬ 0 < e → ∀ e', V.next e = some e' → e' ∈ U

theorem invT_expand (V : View) (hwf : V.WF) (U : List Int) (hU : Universe V U) (alg : Alg) (si : SI)
    (follow : Bool) (rest : List SI) (vis vis' : List Int) (h : InvT V U ⟨si :: rest, vis⟩) :
    InvT V U ⟨expand false alg V si follow rest, vis'⟩ := by
  obtain ⟨a, b⟩ := i34_expand V hwf alg si follow rest h.i3 h.i4
  refine ⟨a, b, ?_⟩
  intro x hx
  have hsi := h.inU si (by simp)
  rcases (mem_expand alg V si follow rest x).mp hx with h' | ⟨hn, _, hf, _⟩ | ⟨hn, _, hnx, _⟩ | ⟨hn, _, rfl⟩
  · exact h.inU x (List.mem_cons_of_mem _ h')
  · exact hU.succ_mem _ hsi hn _ (first_mem hf)
  · exact hU.next_mem _ hsi hn _ hnx
  · exact hU.target_mem _ hsi hn

theorem itemW_next (V : View) (hwf : V.WF) {e e' : Int} {d d' : Nat} (hn : ¬ 0 < e)
    (ho : 0 < V.owner e) (hm : e ∈ V.succ (V.owner e)) (hnx : V.next e = some e') :
    itemW V ⟨e', d'⟩ + 1 = itemW V ⟨e, d⟩ := by
  have hn' : ¬ 0 < e' := hwf.edge_neg _ _ (V.next_mem hnx)
  simp only [itemW, hn, hn', if_false]
  rw [chain_cons V hwf ho hm, hnx]; simp

theorem itemW_first (V : View) (hwf : V.WF) {n f : Int} {d : Nat} (hn : 0 < n) (hf : V.first n = some f) :
    itemW V ⟨f, d⟩ = (V.succ n).length + 1 := by
  have hn' : ¬ 0 < f := hwf.edge_neg _ _ (first_mem hf)
  simp only [itemW, hn', if_false]
  rw [chain_first V hwf hn hf]

/-- Popping an already visited item lowers the potential. -/
theorem potential_skip (V : View) (hwf : V.WF) (U : List Int) (alg : Alg) (si : SI) (rest : List SI)
    (vis : List Int) (h : InvT V U ⟨si :: rest, vis⟩) :
    potential V U ⟨expand false alg V si false rest, vis⟩ + 1 ≤ potential V U ⟨si :: rest, vis⟩ := by
  have hle := workW_expand_le V alg si false rest (itemW V si - 1)
    (by intro _ hf; simp at hf)
    (by
      intro hn
      simp only [Bool.false_eq_true, if_false, Nat.add_zero]
      by_cases hd : si.dist = 0
      · simp [hd]
      · simp only [ne_eq, hd, not_false_eq_true, if_true]
        cases hnx : V.next si.idx with
        | none => simp
        | some e' =>
          obtain ⟨ho, hm⟩ := h.i3 si (by simp) hn hd
          have := itemW_next V hwf (d := si.dist) (d' := si.dist) hn ho hm hnx
          rw [show (⟨si.idx, si.dist⟩ : SI) = si from rfl] at this
          simp only; omega)
  have hpos := itemW_pos V si
  unfold potential
  simp only [workW, List.map_cons, List.sum_cons] at *
  omega

/-- Visiting a new element lowers the potential, whatever the handler answers. -/
theorem potential_visit (V : View) (hwf : V.WF) (U : List Int) (alg : Alg) (si : SI) (follow : Bool)
    (rest : List SI) (vis : List Int) (h : InvT V U ⟨si :: rest, vis⟩) (hv : si.idx ∉ vis) :
    potential V U ⟨expand false alg V si follow rest, si.idx :: vis⟩ + 1 ≤ potential V U ⟨si :: rest, vis⟩ := by
  have hu := unvisW_visit V si.idx vis U (h.inU si (by simp)) hv
  have hpos := itemW_pos V si
  have hle := workW_expand_le V alg si follow rest (itemW V si + elemW V si.idx - 1)
    (by
      intro hn _ f hf
      have := itemW_first V hwf (d := si.dist + 1) hn hf
      simp only [elemW, hn, if_true]; omega)
    (by
      intro hn
      have htgt : ∀ d, itemW V ⟨V.target si.idx, d⟩ = 1 := by
        intro d; simp [itemW, h.i4 si (by simp) hn]
      have hel : elemW V si.idx = 1 := by simp [elemW, hn]
      by_cases hd : si.dist = 0
      · simp only [hd, ne_eq, not_true_eq_false, if_false]
        cases follow <;> simp [htgt] <;> omega
      · simp only [ne_eq, hd, not_false_eq_true, if_true]
        cases hnx : V.next si.idx with
        | none => cases follow <;> simp [htgt] <;> omega
        | some e' =>
          obtain ⟨ho, hm⟩ := h.i3 si (by simp) hn hd
          have := itemW_next V hwf (d := si.dist) (d' := si.dist) hn ho hm hnx
          rw [show (⟨si.idx, si.dist⟩ : SI) = si from rfl] at this
          cases follow <;> simp [htgt] <;> omega)
  unfold potential
  simp only [workW, List.map_cons, List.sum_cons] at *
  omega

/-- **Termination**: with more fuel than the potential the loop never runs out of fuel — any handler. -/
theorem terminates_aux {σ : Type} (V : View) (hwf : V.WF) (U : List Int) (hU : Universe V U) (alg : Alg)
    (h : HandlerFn σ) :
    ∀ (f : Nat) (s : GS) (st : σ), InvT V U s → potential V U s < f →
      run (gstep false alg V) h f s st ≠ .outOfFuel := by
  intro f
  induction f with
  | zero => intro s st _ hp; omega
  | succ f ih =>
    intro s st hinv hp
    obtain ⟨work, vis⟩ := s
    cases work with
    | nil => simp [run, gstep_nil]
    | cons si rest =>
      cases hv : vis.contains si.idx with
      | true =>
        simp only [run, gstep_visited alg V si rest vis hv]
        have hdec := potential_skip V hwf U alg si rest vis hinv
        exact ih _ st (invT_expand V hwf U hU alg si false rest vis vis hinv) (by omega)
      | false =>
        have hnv : si.idx ∉ vis := by simpa using hv
        simp only [run, gstep_unvisited alg V si rest vis hv]
        have hmap : ∀ (o : Outcome (List Int)) (g : List Int → List Int), o ≠ .outOfFuel → o.map g ≠ .outOfFuel := by
          intro o g ho; cases o <;> simp_all [Outcome.map]
        cases hc : (h st si.idx si.dist).1.kind <;> simp only
        · have hdec := potential_visit V hwf U alg si true rest vis hinv hnv
          exact hmap _ _ (ih _ _ (invT_expand V hwf U hU alg si true rest vis _ hinv) (by omega))
        · simp
        · have hdec := potential_visit V hwf U alg si false rest vis hinv hnv
          exact hmap _ _ (ih _ _ (invT_expand V hwf U hU alg si false rest vis _ hinv) (by omega))

end AgdbSearch
