/-
Abstract graph of the database as seen by the search code: slot table (a slot is free, a node
with its outgoing / incoming edge chains most-recent-first, or an edge with its endpoints),
the LIFO free list that decides which id the next insert gets
(agdb/src/graph.rs `get_free_index` / `free_index`), and the per-element key-values.
Element ids: node in slot `i` is `i`, edge in slot `i` is `-i` (agdb `GraphIndex`).
The operations mirror what the public queries do (agdb/src/db.rs `insert_node`, `insert_edge`,
`remove_id` → `remove_node`/`remove_edge`, `insert_or_replace_key_value`).
-/
import AgdbSearch.Model.Value
namespace AgdbSearch

inductive Slot where
  | free
  | node (out inn : List Nat)
  | edge (src dst : Nat)
  deriving DecidableEq, Repr, Inhabited

structure Graph where
  /-- slot table; slot 0 is the reserved header slot and always `free` -/
  slots : List Slot
  /-- freed slots, most recently freed first -/
  freeList : List Nat
  /-- (slot, key, value) triples; at most one per (slot, key) -/
  vals : List (Nat × DbValue × DbValue)
  deriving Repr

namespace Graph

def empty : Graph := ⟨[.free], [], []⟩

def slot (g : Graph) (i : Nat) : Slot := g.slots.getD i .free

def isNodeSlot (g : Graph) (i : Nat) : Bool :=
  match g.slot i with
  | .node _ _ => true
  | _ => false

def isEdgeSlot (g : Graph) (i : Nat) : Bool :=
  match g.slot i with
  | .edge _ _ => true
  | _ => false

/-- `GraphImpl::node(index).is_some()`. -/
def isNode (g : Graph) (x : Int) : Bool := 0 < x && g.isNodeSlot x.toNat

/-- `GraphImpl::edge(index).is_some()`. -/
def isEdge (g : Graph) (x : Int) : Bool := x < 0 && g.isEdgeSlot (-x).toNat

/-- `GraphSearch::is_valid_index`. -/
def isElem (g : Graph) (x : Int) : Bool := g.isNode x || g.isEdge x

def outOf (g : Graph) (i : Nat) : List Nat :=
  match g.slot i with
  | .node o _ => o
  | _ => []

def innOf (g : Graph) (i : Nat) : List Nat :=
  match g.slot i with
  | .node _ n => n
  | _ => []

def srcOf (g : Graph) (i : Nat) : Nat :=
  match g.slot i with
  | .edge s _ => s
  | _ => 0

def dstOf (g : Graph) (i : Nat) : Nat :=
  match g.slot i with
  | .edge _ d => d
  | _ => 0

def setSlot (g : Graph) (i : Nat) (s : Slot) : Graph := { g with slots := g.slots.set i s }

/-- `get_free_index`: reuse the most recently freed slot, else grow by one slot. -/
def allocSlot (g : Graph) : Nat × Graph :=
  match g.freeList with
  | i :: rest => (i, { g with freeList := rest })
  | [] => (g.slots.length, { g with slots := g.slots ++ [.free] })

/-- `insert().nodes().count(1)`. -/
def insertNode (g : Graph) : Int × Graph :=
  let (i, g1) := g.allocSlot
  (Int.ofNat i, g1.setSlot i (.node [] []))

def pushOut (g : Graph) (n e : Nat) : Graph :=
  match g.slot n with
  | .node o i => g.setSlot n (.node (e :: o) i)
  | _ => g

def pushInn (g : Graph) (n e : Nat) : Graph :=
  match g.slot n with
  | .node o i => g.setSlot n (.node o (e :: i))
  | _ => g

/-- `insert().edges().from(a).to(b)`: both ids must exist (`db_id` → `NotFound`) and be nodes
(`GraphImpl::insert_edge` → `validate_node` → `InvalidIndex` for an edge id). -/
def insertEdge (g : Graph) (a b : Int) : Outcome (Int × Graph) :=
  if !g.isElem a || !g.isElem b then .err .notFound
  else if g.isNode a && g.isNode b then
    let (i, g1) := g.allocSlot
    let g2 := g1.setSlot i (.edge a.toNat b.toNat)
    let g3 := g2.pushOut a.toNat i
    let g4 := g3.pushInn b.toNat i
    .ok (-(Int.ofNat i), g4)
  else .err .invalidIndex

def dropVals (g : Graph) (i : Nat) : Graph := { g with vals := g.vals.filter (fun t => t.1 != i) }

def eraseOut (g : Graph) (n e : Nat) : Graph :=
  match g.slot n with
  | .node o i => g.setSlot n (.node (o.erase e) i)
  | _ => g

def eraseInn (g : Graph) (n e : Nat) : Graph :=
  match g.slot n with
  | .node o i => g.setSlot n (.node o (i.erase e))
  | _ => g

/-- `GraphImpl::remove_edge` + `remove_all_values`: unlink from both chains, free the slot. -/
def removeEdgeSlot (g : Graph) (e : Nat) : Graph :=
  match g.slot e with
  | .edge s d =>
    let g3 := ((g.eraseOut s e).eraseInn d e).setSlot e .free
    ({ g3 with freeList := e :: g3.freeList }).dropVals e
  | _ => g

/-- `DbImpl::node_edges`: outgoing chain, then incoming chain without the self-loops. -/
def nodeEdges (g : Graph) (n : Nat) : List Nat :=
  g.outOf n ++ (g.innOf n).filter (fun e => g.srcOf e != n)

/-- `remove().ids(x)`; returns the number of removed ids (0 or 1). -/
def remove (g : Graph) (x : Int) : Nat × Graph :=
  if g.isNode x then
    let n := x.toNat
    let g1 := (g.nodeEdges n).foldl removeEdgeSlot g
    let g2 := g1.setSlot n .free
    (1, ({ g2 with freeList := n :: g2.freeList }).dropVals n)
  else if g.isEdge x then
    (1, g.removeEdgeSlot (-x).toNat)
  else (0, g)

def setVal (vals : List (Nat × DbValue × DbValue)) (i : Nat) (k v : DbValue) :
    List (Nat × DbValue × DbValue) :=
  match vals with
  | [] => [(i, k, v)]
  | t :: rest => if t.1 == i && t.2.1 == k then (i, k, v) :: rest else t :: setVal rest i k v

/-- `insert().values([[(k, v)]]).ids(x)` on an existing element (insert or replace). -/
def insertKv (g : Graph) (x : Int) (k v : DbValue) : Outcome Graph :=
  if g.isElem x then .ok { g with vals := setVal g.vals x.natAbs k v } else .err .notFound

/-- `DbKeyValues::value(index, key)`. -/
def value? (g : Graph) (x : Int) (k : DbValue) : Option DbValue :=
  (g.vals.find? (fun t => t.1 == x.natAbs && t.2.1 == k)).map (fun t => t.2.2)

/-- `DbKeyValues::keys(index)`. -/
def keysOf (g : Graph) (x : Int) : List DbValue :=
  (g.vals.filter (fun t => t.1 == x.natAbs)).map (fun t => t.2.1)

/-- Element id stored in slot `i` (`GraphImpl::next_element`: `-i` if the slot holds an edge). -/
def elemAt (g : Graph) (i : Nat) : Option Int :=
  match g.slot i with
  | .free => none
  | .node _ _ => some (Int.ofNat i)
  | .edge _ _ => some (-(Int.ofNat i))

/-- `GraphImpl::iter`: slots `1 .. capacity` in increasing order, skipping freed slots. -/
def elements (g : Graph) : List Int :=
  (List.range g.slots.length).filterMap (fun i => if i = 0 then none else g.elemAt i)

/-- `GraphNode::edge_count_from` etc. -/
def edgeCountFrom (g : Graph) (x : Int) : Nat := (g.outOf x.toNat).length
def edgeCountTo (g : Graph) (x : Int) : Nat := (g.innOf x.toNat).length

end Graph
end AgdbSearch

namespace AgdbSearch
namespace Graph

/-- Well-formedness of the abstract graph (decidable; the driver re-checks it before every search):
slot 0 is the free header slot; a node's chains are duplicate-free and consist of edges that start (out-chain)
resp. end (in-chain) at it; an edge's endpoints are nodes and the edge is on both their chains; the free list is
duplicate-free and lists free slots. -/
def wfB (g : Graph) : Bool :=
  (g.slot 0 == Slot.free) &&
  (List.range g.slots.length).all (fun i =>
    match g.slot i with
    | .free => true
    | .node out inn =>
        decide out.Nodup && decide inn.Nodup &&
        out.all (fun e => g.isEdgeSlot e && g.srcOf e == i) &&
        inn.all (fun e => g.isEdgeSlot e && g.dstOf e == i)
    | .edge s d =>
        g.isNodeSlot s && g.isNodeSlot d && (g.outOf s).contains i && (g.innOf d).contains i) &&
  decide g.freeList.Nodup &&
  g.freeList.all (fun i => g.slot i == Slot.free && i != 0 && decide (i < g.slots.length))

end Graph
end AgdbSearch
