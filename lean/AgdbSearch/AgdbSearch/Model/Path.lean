/-
`PathSearch` (agdb/src/graph_search/path_search.rs) and `PathHandler` (db_search_handlers.rs).
`paths` is the `Vec<Path>` in vector order (the path processed next is the LAST one after sorting).
-/
import AgdbSearch.Model.Search
namespace AgdbSearch

structure Path where
  /-- `(index, add)` pairs, origin first -/
  elems : List (Int × Bool)
  cost : Nat
  deriving DecidableEq, Repr

/-- `PathHandler::process`: `(cost, add)`; cost 0 = do not use. -/
def pathCost (c : Control) : Nat × Bool :=
  match c.kind with
  | .cont => (if c.val then 1 else 2, c.val)
  | _ => (0, c.val)

/-- Comparator of `PathSearch::sort_paths` as a `≤` for the stable sort:
decreasing cost, and for equal cost decreasing length (so the cheapest, then shortest path is last). -/
def pathLe (l r : Path) : Bool :=
  l.cost > r.cost || (l.cost == r.cost && l.elems.length ≥ r.elems.length)

/-- Stable insertion of `x` into a list sorted by `pathLe` (before the first element it is `≤` to). -/
def insertPath (x : Path) : List Path → List Path
  | [] => [x]
  | y :: ys => if pathLe x y then x :: y :: ys else y :: insertPath x ys

/-- `paths.sort_by(..)`: the stable sort by `pathLe`, written as a structurally recursive insertion sort
(for a total pre-order the stably sorted list is unique, so this is the list `sort_by` produces). -/
def sortPaths (l : List Path) : List Path := l.foldr insertPath []

structure PS where
  paths : List Path
  visited : List Int

/-- `index` of `process_path`: the last element of the current path (`GraphIndex::default()` = 0 for the
impossible empty path). -/
def lastOf (p : Path) : Int :=
  match p.elems.getLast? with
  | some q => q.1
  | none => 0

/-- `expand_edge` followed by `expand_node` for one outgoing edge `e` (element id) of the current path.
`cur` is `current_path`; `h` the handler. `legacy = true`: the edge is evaluated at `len + 1`
(the distance of the node behind it) as on the unchanged tree; `false`: at `len` (proposed fix). -/
def expandEdge (legacy : Bool) (h : Int → Nat → Nat × Bool) (visited : List Int) (cur : Path)
    (e : Int) (node : Int) : List Path :=
  let len := cur.elems.length
  let ce := h e (if legacy then len + 1 else len)
  if ce.1 != 0 && !visited.contains node then
    let cn := h node (len + 1)
    if cn.1 != 0 then
      [⟨cur.elems ++ [(e, ce.2), (node, cn.2)], cur.cost + ce.1 + cn.1⟩]
    else []
  else []

/-- One round of `while !is_finished { sort_paths(); process_last_path() }`.
Returns either the finished result (`Sum.inr`) or the next state. -/
def pathStep (legacy : Bool) (g : Graph) (h : Int → Nat → Nat × Bool) (dest : Int) (s : PS) :
    PS ⊕ List (Int × Bool) :=
  let sorted := sortPaths s.paths
  match sorted.getLast? with
  | none => .inr []
  | some cur =>
    let paths := sorted.dropLast
    let index := lastOf cur
    if s.visited.contains index then .inl ⟨paths, s.visited⟩
    else if index = dest then .inr cur.elems
    else
      let visited := index :: s.visited
      let news := (g.outOf index.toNat).flatMap (fun e =>
        expandEdge legacy h visited cur (-(Int.ofNat e)) (Int.ofNat (g.dstOf e)))
      .inl ⟨paths ++ news, visited⟩

def pathLoop (legacy : Bool) (g : Graph) (h : Int → Nat → Nat × Bool) (dest : Int) :
    Nat → PS → Outcome (List (Int × Bool))
  | 0, _ => .outOfFuel
  | f + 1, s =>
    if s.paths.isEmpty then .ok []
    else match pathStep legacy g h dest s with
      | .inr r => .ok r
      | .inl s' => pathLoop legacy g h dest f s'

/-- `GraphSearch::path` + `PathSearch::new` + `search`. -/
def pathSearch (legacy : Bool) (g : Graph) (base : Int → Nat → Control) (origin dest : Int) (fuel : Nat) :
    Outcome (List Int) :=
  if origin != dest && g.isNode origin && g.isNode dest then
    let h := fun x d => pathCost (base x d)
    let add := (h origin 0).2
    (pathLoop legacy g h dest fuel ⟨[⟨[(origin, add)], 0⟩], []⟩).map
      (fun r => (r.filter (fun e => e.2)).map (fun e => e.1))
  else .ok []

end AgdbSearch
