/-
`SearchQuery::search`, `sort`, `slice` (agdb/src/query/search_query.rs) and
`DbImpl::search_from / search_to / search_from_to` (agdb/src/db.rs).
`legacy = true` reproduces the unchanged tree, `false` the tree with the proposed fixes.
-/
import AgdbSearch.Model.Path
namespace AgdbSearch

def U64_MAX : Nat := 2 ^ 64 - 1

/-- `DbKeyOrder`. -/
structure KeyOrder where
  asc : Bool
  key : DbValue
  deriving DecidableEq, Repr

inductive AlgQ where
  | bfs | dfs | elements
  deriving DecidableEq, Repr

structure SearchQ where
  alg : AlgQ
  origin : Int
  destination : Int
  limit : Nat
  offset : Nat
  orderBy : List KeyOrder
  conds : Conds
  deriving Repr

/-- The `match (left_kv, right_kv)` of the sort comparator for one key. -/
def optCmp (asc : Bool) : Option DbValue → Option DbValue → Ordering
  | none, none => .eq
  | none, some _ => .gt
  | some _, none => .lt
  | some l, some r => if asc then l.cmp r else (l.cmp r).swap

def keyCmp (g : Graph) (ko : KeyOrder) (l r : Int) : Ordering :=
  optCmp ko.asc (g.value? l ko.key) (g.value? r ko.key)

/-- The closure given to `ids.sort_by`: first non-equal key decides. -/
def elemCmp (g : Graph) : List KeyOrder → Int → Int → Ordering
  | [] => fun _ _ => .eq
  | ko :: rest => compareLex (keyCmp g ko) (elemCmp g rest)

/-- `SearchQuery::sort` (`sort_by` is a stable sort). -/
def sortIds (g : Graph) (kos : List KeyOrder) (ids : List Int) : List Int :=
  ids.mergeSort (fun l r => elemCmp g kos l r != .gt)

/-- `SearchQuery::slice` on the unchanged tree: range indexing panics when out of range. -/
def sliceLegacy (limit offset : Nat) (ids : List Int) : Outcome (List Int) :=
  if limit = 0 then
    if offset = 0 then .ok ids
    else if offset ≤ ids.length then .ok (ids.drop offset) else .panic "SearchQuery::slice"
  else if offset = 0 then .ok (ids.take limit)
  else if offset + limit > U64_MAX then .panic "SearchQuery::slice"
  else if offset + limit ≤ ids.length then .ok ((ids.take (offset + limit)).drop offset)
  else .panic "SearchQuery::slice"

/-- `SearchQuery::slice` with the proposed fix: both bounds clipped to the length. -/
def slice (limit offset : Nat) (ids : List Int) : List Int :=
  let o := min offset ids.length
  let e := if limit = 0 then ids.length else min (min (o + limit) U64_MAX) ids.length
  (ids.take e).drop o

/-- Dispatch on `(limit, offset)` of `search_from` / `search_to`. -/
def runWith {S : Type} (legacy : Bool) (step : S → Step S) (base : Int → Nat → Control) (limit offset : Nat)
    (fuel : Nat) (s : S) : Outcome (List Int) :=
  if limit = 0 then
    if offset = 0 then run step (defaultH base) fuel s ()
    else run step (offsetH offset base) fuel s 0
  else if offset = 0 then run step (limitH limit base) fuel s 0
  else if legacy && limit + offset > U64_MAX then .panic "LimitOffsetHandler::new"
  else run step (limitOffsetH (min (limit + offset) U64_MAX) offset base) fuel s 0

/-- `search_from` / `search_to` for the graph algorithms. -/
def searchGraph (legacy : Bool) (g : Graph) (alg : Alg) (V : View) (base : Int → Nat → Control)
    (origin : Int) (limit offset : Nat) : Outcome (List Int) :=
  if g.isElem origin then
    runWith legacy (gstep legacy alg V) base limit offset g.fuel (gsInit origin)
  else .ok []

def searchElements (legacy : Bool) (g : Graph) (base : Int → Nat → Control) (limit offset : Nat) :
    Outcome (List Int) :=
  runWith legacy estep base limit offset (g.slots.length + 1) ⟨g.elements, 0⟩

def Outcome.bind {α β : Type} (o : Outcome α) (f : α → Outcome β) : Outcome β :=
  match o with
  | .ok a => f a
  | .err k => .err k
  | .panic s => .panic s
  | .hugeAlloc s => .hugeAlloc s
  | .outOfFuel => .outOfFuel

def sortSlice (legacy : Bool) (g : Graph) (q : SearchQ) (ids : List Int) : Outcome (List Int) :=
  let sorted := sortIds g q.orderBy ids
  if legacy then sliceLegacy q.limit q.offset sorted else .ok (slice q.limit q.offset sorted)

/-- `SearchQuery::search` (index search excluded). -/
def search (legacy : Bool) (g : Graph) (q : SearchQ) : Outcome (List Int) :=
  let base := evalConds legacy g q.conds
  match q.alg with
  | .elements =>
    if q.orderBy.isEmpty then searchElements legacy g base q.limit q.offset
    else (searchElements legacy g base 0 0).bind (sortSlice legacy g q)
  | _ =>
    let alg := if q.alg = .bfs then Alg.bfs else Alg.dfs
    if q.destination = 0 then
      if !g.isElem q.origin then .err .notFound
      else if q.orderBy.isEmpty then searchGraph legacy g alg g.viewFwd base q.origin q.limit q.offset
      else (searchGraph legacy g alg g.viewFwd base q.origin 0 0).bind (sortSlice legacy g q)
    else if q.origin = 0 then
      if !g.isElem q.destination then .err .notFound
      else if q.orderBy.isEmpty then searchGraph legacy g alg g.viewRev base q.destination q.limit q.offset
      else (searchGraph legacy g alg g.viewRev base q.destination 0 0).bind (sortSlice legacy g q)
    else
      if !g.isElem q.origin || !g.isElem q.destination then .err .notFound
      else (pathSearch legacy g base q.origin q.destination g.fuel).bind (sortSlice legacy g q)

end AgdbSearch
