/-
Group `search` (C14–C18): shared basic types.
`Outcome` follows tools/INTERFACE.md; `Control` mirrors `SearchControl`
(agdb/src/graph_search.rs) as a (kind, value) pair.
-/
namespace AgdbSearch

inductive ErrKind where
  | notFound
  | invalidIndex
  | other
  deriving DecidableEq, Repr

inductive Outcome (α : Type) where
  | ok (a : α)
  | err (k : ErrKind)
  | panic (site : String)
  | hugeAlloc (site : String)
  | outOfFuel
  deriving DecidableEq, Repr

def Outcome.map {α β : Type} (f : α → β) : Outcome α → Outcome β
  | .ok a => .ok (f a)
  | .err k => .err k
  | .panic s => .panic s
  | .hugeAlloc s => .hugeAlloc s
  | .outOfFuel => .outOfFuel

def Outcome.isOk {α : Type} : Outcome α → Bool
  | .ok _ => true
  | _ => false

/-- `SearchControl` discriminant. -/
inductive Kind where
  | cont
  | finish
  | stop
  deriving DecidableEq, Repr

/-- `SearchControl::{Continue,Finish,Stop}(bool)`. -/
structure Control where
  kind : Kind
  val : Bool
  deriving DecidableEq, Repr

namespace Control

/-- `SearchControl::and` — the nine arms in source order. -/
def and (a b : Control) : Control :=
  match a.kind, b.kind with
  | .cont, .cont => ⟨.cont, a.val && b.val⟩
  | .cont, .finish => ⟨.finish, a.val && b.val⟩
  | .cont, .stop => ⟨.stop, a.val && b.val⟩
  | .finish, .cont => ⟨.finish, a.val && b.val⟩
  | .finish, .finish => ⟨.finish, a.val && b.val⟩
  | .finish, .stop => ⟨.finish, a.val && b.val⟩
  | .stop, .cont => ⟨.stop, a.val && b.val⟩
  | .stop, .finish => ⟨.finish, a.val && b.val⟩
  | .stop, .stop => ⟨.stop, a.val && b.val⟩

/-- `SearchControl::or` — the nine arms in source order. -/
def or (a b : Control) : Control :=
  match a.kind, b.kind with
  | .cont, .cont => ⟨.cont, a.val || b.val⟩
  | .cont, .finish => ⟨.cont, a.val || b.val⟩
  | .cont, .stop => ⟨.cont, a.val || b.val⟩
  | .finish, .cont => ⟨.cont, a.val || b.val⟩
  | .finish, .finish => ⟨.finish, a.val || b.val⟩
  | .finish, .stop => ⟨.stop, a.val || b.val⟩
  | .stop, .cont => ⟨.cont, a.val || b.val⟩
  | .stop, .finish => ⟨.stop, a.val || b.val⟩
  | .stop, .stop => ⟨.stop, a.val || b.val⟩

/-- `SearchControl::flip`. -/
def flip (a : Control) : Control := ⟨a.kind, !a.val⟩

/-- `SearchControl::set_value`. -/
def setValue (a : Control) (v : Bool) : Control := ⟨a.kind, v⟩

end Control

/-- Prepend `x` when `b` (the `if add_index { result.push(index) }` of the search loops,
in result-returning form). -/
def consIf (b : Bool) (x : Int) (l : List Int) : List Int := if b then x :: l else l

end AgdbSearch
