/-
Query conditions and their evaluation: `QueryCondition*` (agdb/src/query/query_condition.rs),
`DbImpl::evaluate_condition` / `evaluate_conditions` (agdb/src/db.rs).
A condition list is kept in first-child / next-sibling form (`Conds`), a plain (non-nested)
inductive, so the evaluator is a structural recursion mirroring the `for` loop with its
accumulator `result`.
-/
import AgdbSearch.Model.Graph
namespace AgdbSearch

inductive Logic where
  | and | or
  deriving DecidableEq, Repr

inductive Modifier where
  | none | beyond | not | notBeyond
  deriving DecidableEq, Repr

/-- `QueryConditionData` without `Where`. -/
inductive Atom where
  | distance (c : CountComparison)
  | edge
  | edgeCount (c : CountComparison)
  | edgeCountFrom (c : CountComparison)
  | edgeCountTo (c : CountComparison)
  | ids (l : List Int)
  | keyValue (key : DbValue) (c : Comparison)
  | keys (l : List DbValue)
  | node
  deriving DecidableEq, Repr

/-- `Vec<QueryCondition>`; `group` is `QueryConditionData::Where`. -/
inductive Conds where
  | nil
  | leaf (logic : Logic) (modifier : Modifier) (a : Atom) (rest : Conds)
  | group (logic : Logic) (modifier : Modifier) (inner : Conds) (rest : Conds)
  deriving DecidableEq, Repr

/-- `evaluate_condition` for the non-`Where` data. `legacy` selects the unchanged `Comparison::compare`. -/
def evalAtom (legacy : Bool) (g : Graph) (x : Int) (dist : Nat) : Atom → Control
  | .distance c => c.compareDistance dist
  | .edge => ⟨.cont, decide (x < 0)⟩
  | .edgeCount c => ⟨.cont, g.isNode x && c.compare (g.edgeCountFrom x + g.edgeCountTo x)⟩
  | .edgeCountFrom c => ⟨.cont, g.isNode x && c.compare (g.edgeCountFrom x)⟩
  | .edgeCountTo c => ⟨.cont, g.isNode x && c.compare (g.edgeCountTo x)⟩
  | .ids l => ⟨.cont, l.contains x⟩
  | .keyValue k c =>
    ⟨.cont, match g.value? x k with
      | some v => if legacy then c.compareLegacy v else c.compare v
      | none => false⟩
  | .keys l => ⟨.cont, l.all (fun k => (g.keysOf x).contains k)⟩
  | .node => ⟨.cont, decide (0 < x)⟩

/-- The `match condition.modifier` block of `evaluate_conditions`. -/
def applyModifier (m : Modifier) (dist : Nat) (result control : Control) : Control :=
  match m with
  | .beyond => if control.val || dist == 0 then ⟨.cont, result.val⟩ else ⟨.stop, result.val⟩
  | .not => control.flip
  | .notBeyond => if control.val then ⟨.stop, result.val⟩ else ⟨.cont, result.val⟩
  | .none => control

/-- `result = match condition.logic { And => result.and(control), Or => result.or(control) }`. -/
def combine (l : Logic) (result control : Control) : Control :=
  match l with
  | .and => result.and control
  | .or => result.or control

/-- `evaluate_conditions` with the loop accumulator made explicit. -/
def evalFrom (legacy : Bool) (g : Graph) (x : Int) (dist : Nat) (result : Control) : Conds → Control
  | .nil => result
  | .leaf l m a rest =>
    evalFrom legacy g x dist (combine l result (applyModifier m dist result (evalAtom legacy g x dist a))) rest
  | .group l m inner rest =>
    evalFrom legacy g x dist
      (combine l result (applyModifier m dist result (evalFrom legacy g x dist ⟨.cont, true⟩ inner))) rest

/-- `DbImpl::evaluate_conditions(index, distance, conditions)`. -/
def evalConds (legacy : Bool) (g : Graph) (cs : Conds) (x : Int) (dist : Nat) : Control :=
  evalFrom legacy g x dist ⟨.cont, true⟩ cs

end AgdbSearch
