/-
The search loops: `SearchImpl::search` with the four iterators (breadth/depth first, forward/reverse;
agdb/src/graph_search/*.rs), `ElementSearch::search`, and the limit/offset handlers
(agdb/src/db/db_search_handlers.rs).

All loops are instances of one generic driver `run` over a step function: a step either ends the
search, drops an already visited work item, or presents an element to the handler and continues
according to the handler's answer (`follow` = the handler said Continue, not Stop).
Results are returned front-to-back (`result.push` of the code becomes a cons on return).
-/
import AgdbSearch.Model.Cond
namespace AgdbSearch

inductive Step (S : Type) where
  | done
  | skip (s : S)
  | visit (idx : Int) (dist : Nat) (k : Bool → S)

/-- A handler: state `σ`, `process(index, distance)` returns the control and the new state. -/
abbrev HandlerFn (σ : Type) := σ → Int → Nat → Control × σ

/-- `SearchImpl::search` / `ElementSearch::search` main loop (fuel = number of loop iterations). -/
def run {S σ : Type} (step : S → Step S) (h : HandlerFn σ) : Nat → S → σ → Outcome (List Int)
  | 0, _, _ => .outOfFuel
  | f + 1, s, st =>
    match step s with
    | .done => .ok []
    | .skip s' => run step h f s' st
    | .visit idx dist k =>
      match h st idx dist with
      | (c, st') =>
        match c.kind with
        | .cont => (run step h f (k true) st').map (consIf c.val idx)
        | .stop => (run step h f (k false) st').map (consIf c.val idx)
        | .finish => .ok (consIf c.val idx [])

/-! ### Handlers -/

/-- `DefaultHandler`: the condition evaluator alone. -/
def defaultH (base : Int → Nat → Control) : HandlerFn Unit :=
  fun _ x d => (base x d, ())

/-- `LimitHandler::process`. -/
def limitH (limit : Nat) (base : Int → Nat → Control) : HandlerFn Nat :=
  fun counter x d =>
    let control := base x d
    let add := control.val
    let counter := if add then counter + 1 else counter
    if counter == limit then (⟨.finish, add⟩, counter) else (control, counter)

/-- `OffsetHandler::process`. -/
def offsetH (offset : Nat) (base : Int → Nat → Control) : HandlerFn Nat :=
  fun counter x d =>
    let control := base x d
    if control.val then
      let counter := counter + 1
      (control.setValue (decide (offset < counter)), counter)
    else (control, counter)

/-- `LimitOffsetHandler::process`; `limit` here is the field, i.e. `limit + offset` of the query. -/
def limitOffsetH (limit offset : Nat) (base : Int → Nat → Control) : HandlerFn Nat :=
  fun counter x d =>
    let control := base x d
    let (control, counter) :=
      if control.val then
        let counter := counter + 1
        (control.setValue (decide (offset < counter)), counter)
      else (control, counter)
    if counter == limit then (⟨.finish, control.val⟩, counter) else (control, counter)

/-! ### Graph traversal -/

/-- `SearchIndex`. -/
structure SI where
  idx : Int
  dist : Nat
  deriving DecidableEq, Repr

/-- Direction-independent view of the graph used by the iterators: `succ n` is the chain of edge ids
hanging off node `n` (most recent first), `owner e` the node whose chain edge `e` is on,
`target e` the node the edge leads to. Forward search: out-chain / from / to; reverse: in-chain / to / from. -/
structure View where
  succ : Int → List Int
  owner : Int → Int
  target : Int → Int

/-- The element following the first occurrence of `e` in a chain. -/
def after (e : Int) : List Int → Option Int
  | [] => none
  | x :: xs => if x = e then xs.head? else after e xs

/-- `first_edge_from` / `first_edge_to` filtered by `is_valid`. -/
def View.first (V : View) (n : Int) : Option Int := (V.succ n).head?

/-- `next_edge_from` / `next_edge_to` filtered by `is_valid`. -/
def View.next (V : View) (e : Int) : Option Int := after e (V.succ (V.owner e))

def Graph.viewFwd (g : Graph) : View where
  succ n := (g.outOf n.toNat).map (fun e => -(Int.ofNat e))
  owner e := Int.ofNat (g.srcOf (-e).toNat)
  target e := Int.ofNat (g.dstOf (-e).toNat)

def Graph.viewRev (g : Graph) : View where
  succ n := (g.innOf n.toNat).map (fun e => -(Int.ofNat e))
  owner e := Int.ofNat (g.dstOf (-e).toNat)
  target e := Int.ofNat (g.srcOf (-e).toNat)

inductive Alg where
  | bfs | dfs
  deriving DecidableEq, Repr

def optList (o : Option Int) (d : Nat) : List SI :=
  match o with
  | some i => [⟨i, d⟩]
  | none => []

/-- `SearchIterator::expand` of the four iterators. The work list is kept with the next element to pop
at the head: for the stack of the depth-first iterators `push` is a cons; for the deque of the breadth-first
ones `push_back` appends and `push_front` conses.
`legacy = true` is the unchanged code (an edge always chains its next sibling);
`legacy = false` is the proposed fix (proposed_fixes/C14-edge-origin.diff): an edge at distance 0 is the search origin
and its siblings are not reachable from it. -/
def expand (legacy : Bool) (alg : Alg) (V : View) (si : SI) (follow : Bool) (rest : List SI) : List SI :=
  if 0 < si.idx then
    if follow then
      match alg with
      | .bfs => rest ++ optList (V.first si.idx) (si.dist + 1)
      | .dfs => optList (V.first si.idx) (si.dist + 1) ++ rest
    else rest
  else
    let sib := if legacy || si.dist != 0 then optList (V.next si.idx) si.dist else []
    let tgt : List SI := if follow then [⟨V.target si.idx, si.dist + 1⟩] else []
    match alg with
    | .bfs => sib ++ rest ++ tgt
    | .dfs => tgt ++ sib ++ rest

/-- State of `SearchImpl`: the iterator's stack/deque and the visited bit set. -/
structure GS where
  work : List SI
  visited : List Int

/-- One iteration of `SearchImpl::search`: `algorithm.next()`, `visit_index`, then either
`process_unvisited_index` (continuation on the handler's answer) or, for a visited element,
re-chaining of an edge's sibling (fix; the unchanged code just drops the item). -/
def gstep (legacy : Bool) (alg : Alg) (V : View) (s : GS) : Step GS :=
  match s.work with
  | [] => .done
  | si :: rest =>
    if s.visited.contains si.idx then
      .skip ⟨if legacy then rest else expand legacy alg V si false rest, s.visited⟩
    else
      .visit si.idx si.dist (fun follow => ⟨expand legacy alg V si follow rest, si.idx :: s.visited⟩)

def gsInit (origin : Int) : GS := ⟨[⟨origin, 0⟩], []⟩

/-- Weight of a not yet visited element in the termination measure: a node pays for its whole chain, an edge for
its target. -/
def elemW (V : View) (x : Int) : Nat := if 0 < x then (V.succ x).length + 1 else 1

/-- Enough fuel for any traversal of `g` in either direction (`Props/C14.lean`, `C14_graph_terminates`):
twice the total element weight (≤ 2·(nodes + 2·edges)) in both directions, plus 2. -/
def Graph.fuel (g : Graph) : Nat :=
  2 * ((g.elements.map (elemW g.viewFwd)).sum + (g.elements.map (elemW g.viewRev)).sum) + 2

/-! ### Elements search -/

/-- State of `ElementSearch::search`: remaining elements and the enumeration counter. -/
structure ES where
  todo : List Int
  pos : Nat

def estep (s : ES) : Step ES :=
  match s.todo with
  | [] => .done
  | x :: rest => .visit x s.pos (fun _ => ⟨rest, s.pos + 1⟩)

end AgdbSearch
