/-
`DbValue` (agdb/src/db/db_value.rs), its derived total order, `DbF64` ordering
(`f64::total_cmp` on bit patterns), `Comparison::compare` and `CountComparison`
(agdb/src/query/query_condition.rs).
Strings are their UTF-8 bytes, floats their `u64` bit pattern.
-/
import AgdbSearch.Model.Basic
namespace AgdbSearch

inductive DbValue where
  | bytes (v : List Nat)
  | i64 (v : Int)
  | u64 (v : Nat)
  | f64 (bits : Nat)
  | str (v : List Nat)
  | vecI64 (v : List Int)
  | vecU64 (v : List Nat)
  | vecF64 (v : List Nat)
  | vecStr (v : List (List Nat))
  deriving DecidableEq, Repr, Inhabited

/-- `f64::total_cmp` key: the bit pattern as `i64` with the magnitude bits of negative numbers flipped. -/
def f64Key (bits : Nat) : Int :=
  if bits < 2 ^ 63 then (bits : Int) else (2 ^ 63 : Int) - 1 - (bits : Int)

namespace DbValue

/-- Declaration index of the variant (what the derived `Ord` compares first). -/
def kindIdx : DbValue → Nat
  | bytes _ => 0
  | i64 _ => 1
  | u64 _ => 2
  | f64 _ => 3
  | str _ => 4
  | vecI64 _ => 5
  | vecU64 _ => 6
  | vecF64 _ => 7
  | vecStr _ => 8

/-- Payload as a list of integer lists whose lexicographic order is the payload order of the
derived `Ord` (scalars: a single one-element list; byte strings: one list; string vectors: one list per string). -/
def payload : DbValue → List (List Int)
  | bytes v => [v.map Int.ofNat]
  | i64 v => [[v]]
  | u64 v => [[Int.ofNat v]]
  | f64 b => [[f64Key b]]
  | str v => [v.map Int.ofNat]
  | vecI64 v => [v]
  | vecU64 v => [v.map Int.ofNat]
  | vecF64 v => [v.map f64Key]
  | vecStr v => v.map (fun s => s.map Int.ofNat)

/-- `<DbValue as Ord>::cmp` (derived: variant index, then payload). -/
def cmp : DbValue → DbValue → Ordering :=
  compareLex (compareOn kindIdx) (compareOn payload)

def sameKind (a b : DbValue) : Bool := a.kindIdx == b.kindIdx

end DbValue

/-- `str::contains` / slice-pattern search on element lists. -/
def isInfixB {α : Type} [BEq α] (pat : List α) : List α → Bool
  | [] => pat.isEmpty
  | x :: xs => pat.isPrefixOf (x :: xs) || isInfixB pat xs

inductive CmpOp where
  | equal | gt | ge | lt | le | notEqual | contains | startsWith | endsWith
  deriving DecidableEq, Repr

/-- `Comparison` = operator + right-hand value. -/
structure Comparison where
  op : CmpOp
  right : DbValue
  deriving DecidableEq, Repr

open DbValue in
def containsB (left right : DbValue) : Bool :=
  match left, right with
  | str l, str r => isInfixB r l
  | str l, vecStr r => r.all (fun x => isInfixB x l)
  | vecI64 l, i64 r => l.contains r
  | vecI64 l, vecI64 r => r.all (fun x => l.contains x)
  | vecU64 l, u64 r => l.contains r
  | vecU64 l, vecU64 r => r.all (fun x => l.contains x)
  | vecF64 l, f64 r => l.contains r
  | vecF64 l, vecF64 r => r.all (fun x => l.contains x)
  | vecStr l, str r => l.contains r
  | vecStr l, vecStr r => r.all (fun x => l.contains x)
  | _, _ => false

open DbValue in
def startsWithB (left right : DbValue) : Bool :=
  match left, right with
  | str l, str r => r.isPrefixOf l
  | str l, vecStr r => r.flatten.isPrefixOf l
  | vecI64 l, i64 r => [r].isPrefixOf l
  | vecI64 l, vecI64 r => r.isPrefixOf l
  | vecU64 l, u64 r => [r].isPrefixOf l
  | vecU64 l, vecU64 r => r.isPrefixOf l
  | vecF64 l, f64 r => [r].isPrefixOf l
  | vecF64 l, vecF64 r => r.isPrefixOf l
  | vecStr l, str r => l.head? == some r
  | vecStr l, vecStr r => r.isPrefixOf l
  | _, _ => false

open DbValue in
def endsWithB (left right : DbValue) : Bool :=
  match left, right with
  | str l, str r => r.isSuffixOf l
  | str l, vecStr r => r.flatten.isSuffixOf l
  | vecI64 l, i64 r => [r].isSuffixOf l
  | vecI64 l, vecI64 r => r.isSuffixOf l
  | vecU64 l, u64 r => [r].isSuffixOf l
  | vecU64 l, vecU64 r => r.isSuffixOf l
  | vecF64 l, f64 r => [r].isSuffixOf l
  | vecF64 l, vecF64 r => r.isSuffixOf l
  | vecStr l, str r => l.getLast? == some r
  | vecStr l, vecStr r => r.isSuffixOf l
  | _, _ => false

/-- `Comparison::compare(&self, left)` **as on the unchanged tree**: the ordering operators use the
derived `PartialOrd`, which orders values of different variants by variant index. -/
def Comparison.compareLegacy (c : Comparison) (left : DbValue) : Bool :=
  match c.op with
  | .equal => left == c.right
  | .gt => left.cmp c.right == .gt
  | .ge => left.cmp c.right != .lt
  | .lt => left.cmp c.right == .lt
  | .le => left.cmp c.right != .gt
  | .notEqual => left != c.right
  | .contains => containsB left c.right
  | .startsWith => startsWithB left c.right
  | .endsWith => endsWithB left c.right

/-- `Comparison::compare` with the proposed fix (proposed_fixes/C15-type-strict-ordering.diff):
the four ordering operators first require both values to be of the same variant. -/
def Comparison.compare (c : Comparison) (left : DbValue) : Bool :=
  match c.op with
  | .equal => left == c.right
  | .gt => left.sameKind c.right && left.cmp c.right == .gt
  | .ge => left.sameKind c.right && left.cmp c.right != .lt
  | .lt => left.sameKind c.right && left.cmp c.right == .lt
  | .le => left.sameKind c.right && left.cmp c.right != .gt
  | .notEqual => left != c.right
  | .contains => containsB left c.right
  | .startsWith => startsWithB left c.right
  | .endsWith => endsWithB left c.right

inductive CountOp where
  | equal | gt | ge | lt | le | notEqual
  deriving DecidableEq, Repr

/-- `CountComparison` = operator + constant. -/
structure CountComparison where
  op : CountOp
  n : Nat
  deriving DecidableEq, Repr

/-- `CountComparison::compare(&self, left)`. -/
def CountComparison.compare (c : CountComparison) (left : Nat) : Bool :=
  match c.op with
  | .equal => left == c.n
  | .gt => left > c.n
  | .ge => left ≥ c.n
  | .lt => left < c.n
  | .le => left ≤ c.n
  | .notEqual => left != c.n

/-- `CountComparison::compare_distance(&self, right)`; `right` is the distance. -/
def CountComparison.compareDistance (c : CountComparison) (d : Nat) : Control :=
  match c.op with
  | .equal => if d < c.n then ⟨.cont, false⟩ else if d = c.n then ⟨.stop, true⟩ else ⟨.stop, false⟩
  | .gt => if d ≤ c.n then ⟨.cont, false⟩ else ⟨.cont, true⟩
  | .ge => if d < c.n then ⟨.cont, false⟩ else ⟨.cont, true⟩
  | .lt => if d < c.n then ⟨.cont, true⟩ else ⟨.stop, false⟩
  | .le => if d ≤ c.n then ⟨.cont, true⟩ else ⟨.stop, false⟩
  | .notEqual => if d = c.n then ⟨.cont, false⟩ else ⟨.cont, true⟩

end AgdbSearch
