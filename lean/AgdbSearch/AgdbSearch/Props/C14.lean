/-
C14 — breadth/depth-first traversals return exactly the reachable elements, origin first, each once.

Model = the tree with proposed_fixes/C14-edge-origin.diff (`legacy = false`). The statements are over a
direction `View` (forward: out-chains / `to`; reverse: in-chains / `from`) and hold for BOTH iterators
(`alg`), for ALL graphs: no bound on size; `V.WF` is the chain well-formedness of the abstract graph
(checked at run time by the driver on every case, `Graph.wfB`; see notes/search.md).
-/
import AgdbSearch.Lemmas.GraphWF
import AgdbSearch.Lemmas.Bfs
import AgdbSearch.Lemmas.Dfs
import AgdbSearch.Lemmas.GraphOps
import AgdbSearch.Lemmas.NoPanic
namespace AgdbSearch

/-- The unconditional traversal: `SearchImpl::search` with a handler answering `Continue(true)`. -/
def traverse (alg : Alg) (V : View) (o : Int) (fuel : Nat) : Outcome (List Int) :=
  run (gstep false alg V) allH fuel (gsInit o) ()

/-- What `search().from(o)` / `.to(o)` without conditions, limit, offset runs is `traverse`. -/
theorem C14_model_is_search (g : Graph) (alg : Alg) (V : View) (o : Int) (h : g.isElem o = true) :
    searchGraph false g alg V (evalConds false g .nil) o 0 0 = traverse alg V o g.fuel := by
  have : evalConds false g .nil = fun _ _ => ⟨.cont, true⟩ := by funext x d; rfl
  simp [searchGraph, h, runWith, traverse, allH, this]

/-- **Origin first.** -/
theorem C14_origin_first (alg : Alg) (V : View) (o : Int) (fuel : Nat) (xs : List Int)
    (h : traverse alg V o fuel = .ok xs) : xs.head? = some o := by
  cases fuel with
  | zero => simp [traverse, run] at h
  | succ f =>
    unfold traverse gsInit at h
    simp only [run, gstep_unvisited alg V ⟨o, 0⟩ [] [] (by simp), allH, defaultH] at h
    obtain ⟨xs', _, rfl⟩ := Outcome.map_eq_ok h
    simp [consIf]

theorem goodItem_init (V : View) (o : Int) (ho : 0 < o ∨ 0 < V.target o) :
    ∀ si ∈ (gsInit o).work, GoodItem V o si := by
  intro si hsi
  simp [gsInit] at hsi; subst hsi
  refine ⟨Reach.origin, fun hn => ?_, fun _ hd => absurd rfl hd⟩
  rcases ho with h | h
  · exact absurd h hn
  · exact h

/-- **Sound**: every returned element is reachable from the origin. -/
theorem C14_sound (alg : Alg) (V : View) (hwf : V.WF) (o : Int) (ho : 0 < o ∨ 0 < V.target o)
    (fuel : Nat) (xs : List Int) (h : traverse alg V o fuel = .ok xs) : ∀ x ∈ xs, Reach V o x :=
  sound_aux alg V hwf o allH fuel (gsInit o) () xs h (goodItem_init V o ho)

/-- Soundness for ANY handler (conditions, limit, offset): a search never returns an unreachable element. -/
theorem C14_sound_any_handler {σ : Type} (alg : Alg) (V : View) (hwf : V.WF) (o : Int)
    (ho : 0 < o ∨ 0 < V.target o) (h : HandlerFn σ) (st : σ) (fuel : Nat) (xs : List Int)
    (hr : run (gstep false alg V) h fuel (gsInit o) st = .ok xs) : ∀ x ∈ xs, Reach V o x :=
  sound_aux alg V hwf o h fuel (gsInit o) st xs hr (goodItem_init V o ho)

/-- **No duplicates** (for any handler). -/
theorem C14_nodup {σ : Type} (alg : Alg) (V : View) (o : Int) (h : HandlerFn σ) (st : σ) (fuel : Nat)
    (xs : List Int) (hr : run (gstep false alg V) h fuel (gsInit o) st = .ok xs) : xs.Nodup :=
  (nodup_aux alg V h fuel (gsInit o) st xs hr).1

/-- **Complete**: every reachable element is returned. -/
theorem C14_complete (alg : Alg) (V : View) (hwf : V.WF) (o : Int) (ho : 0 < o ∨ 0 < V.target o)
    (fuel : Nat) (xs : List Int) (h : traverse alg V o fuel = .ok xs) : ∀ x, Reach V o x → x ∈ xs := by
  have hc := complete_aux alg V hwf fuel (gsInit o) xs h (inv_init V o ho)
  have hc' : Closed V xs := Closed.congr (by intro x; simp [gsInit]) hc
  have ho' : o ∈ xs := by
    have := C14_origin_first alg V o fuel xs h
    cases xs with
    | nil => simp at this
    | cons y ys => simp at this; simp [this]
  intro x hx
  induction hx with
  | origin => exact ho'
  | edge _ hn he ih => exact hc'.1 _ ih hn _ he
  | node _ hn ih => exact hc'.2 _ ih hn

/-- The result is exactly the reachable set, listed once each, origin first. -/
theorem C14_exact (alg : Alg) (V : View) (hwf : V.WF) (o : Int) (ho : 0 < o ∨ 0 < V.target o)
    (fuel : Nat) (xs : List Int) (h : traverse alg V o fuel = .ok xs) :
    xs.head? = some o ∧ xs.Nodup ∧ ∀ x, x ∈ xs ↔ Reach V o x :=
  ⟨C14_origin_first alg V o fuel xs h, C14_nodup alg V o allH () fuel xs h,
   fun x => ⟨C14_sound alg V hwf o ho fuel xs h x, C14_complete alg V hwf o ho fuel xs h x⟩⟩

/-- **Terminates**: for any handler, any fuel above the potential of the initial state suffices; `U` is any
list containing the origin and closed under the traversal steps (e.g. all elements of the graph). The potential of
the initial state is at most `(number of nodes) + 2·(number of edges) + (length of the origin's chain) + 1`. -/
theorem C14_terminates {σ : Type} (alg : Alg) (V : View) (hwf : V.WF) (U : List Int) (hU : Universe V U)
    (o : Int) (hoU : o ∈ U) (ho : 0 < o ∨ 0 < V.target o) (h : HandlerFn σ) (st : σ) (fuel : Nat)
    (hf : potential V U (gsInit o) < fuel) :
    run (gstep false alg V) h fuel (gsInit o) st ≠ .outOfFuel := by
  refine terminates_aux V hwf U hU alg h fuel (gsInit o) st ⟨?_, ?_, ?_⟩ hf
  · intro si hsi _ hd; simp [gsInit] at hsi; subst hsi; simp at hd
  · intro si hsi hn; simp [gsInit] at hsi; subst hsi
    rcases ho with h | h
    · exact absurd h hn
    · exact h
  · intro si hsi; simp [gsInit] at hsi; subst hsi; exact hoU

/-! ### The same on the abstract graph of the database -/

/-- Direction of a search: `search().from(o)` follows out-chains, `search().to(o)` in-chains. -/
def Graph.view (g : Graph) (fwd : Bool) : View := if fwd then g.viewFwd else g.viewRev

theorem Graph.view_wf (g : Graph) (h : g.wfB = true) (fwd : Bool) : (g.view fwd).WF := by
  cases fwd
  · exact wf_viewRev g h
  · exact wf_viewFwd g h

theorem Graph.view_universe (g : Graph) (h : g.wfB = true) (fwd : Bool) : Universe (g.view fwd) g.elements := by
  cases fwd
  · exact universe_rev g h
  · exact universe_fwd g h

theorem Graph.origin_ok (g : Graph) (h : g.wfB = true) (fwd : Bool) (o : Int) (ho : g.isElem o = true) :
    0 < o ∨ 0 < (g.view fwd).target o := by
  have w := g.wfacts h
  by_cases hp : 0 < o
  · exact Or.inl hp
  · right
    have hes := isElem_neg_edge g ho hp
    have hends := edge_ends g w hes
    cases fwd
    · have := g.nodeSlot_pos w hends.1
      simp [Graph.view, Graph.viewRev]; omega
    · have := g.nodeSlot_pos w hends.2
      simp [Graph.view, Graph.viewFwd]; omega

/-- **C14 on the database graph**: for every well-formed graph, every existing origin (node or edge), both
directions and both algorithms, `search()` without conditions returns the origin first, nothing twice, and
exactly the reachable elements. -/
theorem C14_graph_exact (g : Graph) (hwf : g.wfB = true) (alg : Alg) (fwd : Bool) (o : Int)
    (ho : g.isElem o = true) (xs : List Int)
    (h : searchGraph false g alg (g.view fwd) (evalConds false g .nil) o 0 0 = .ok xs) :
    xs.head? = some o ∧ xs.Nodup ∧ ∀ x, x ∈ xs ↔ Reach (g.view fwd) o x := by
  rw [C14_model_is_search g alg _ o ho] at h
  exact C14_exact alg _ (g.view_wf hwf fwd) o (g.origin_ok hwf fwd o ho) g.fuel xs h

theorem le_sum_of_mem {α : Type} (f : α → Nat) : ∀ (l : List α) (x : α), x ∈ l → f x ≤ (l.map f).sum
  | [], _, h => by simp at h
  | y :: ys, x, h => by
    rcases List.mem_cons.mp h with rfl | h
    · simp
    · have := le_sum_of_mem f ys x h
      simp; omega

theorem unvisW_nil (V : View) : ∀ U : List Int, unvisW V U [] = (U.map (elemW V)).sum
  | [] => rfl
  | y :: ys => by simp [unvisW, unvisW_nil V ys]

theorem length_dropWhile_le {α : Type} (p : α → Bool) : ∀ l : List α, (l.dropWhile p).length ≤ l.length
  | [] => by simp
  | x :: xs => by
    simp only [List.dropWhile_cons]
    split
    · have := length_dropWhile_le p xs; simp; omega
    · simp

/-- **Terminates on the database graph**: `Graph.fuel` is enough for every search (any handler: conditions,
limit, offset), from every existing origin, in both directions — the model never answers `outOfFuel`. -/
theorem C14_graph_terminates {σ : Type} (g : Graph) (hwf : g.wfB = true) (alg : Alg) (fwd : Bool) (o : Int)
    (ho : g.isElem o = true) (h : HandlerFn σ) (st : σ) :
    run (gstep false alg (g.view fwd)) h g.fuel (gsInit o) st ≠ .outOfFuel := by
  have w := g.wfacts hwf
  have hoU : o ∈ g.elements := (C18_iter_mem g o).mpr ho
  refine C14_terminates alg _ (g.view_wf hwf fwd) g.elements (g.view_universe hwf fwd) o hoU
    (g.origin_ok hwf fwd o ho) h st g.fuel ?_
  -- the potential of the initial state is at most twice the total element weight of this direction
  have hsum : potential (g.view fwd) g.elements (gsInit o) ≤ 2 * (g.elements.map (elemW (g.view fwd))).sum := by
    unfold potential gsInit
    simp only [workW, List.map_cons, List.map_nil, List.sum_cons, List.sum_nil, Nat.add_zero, unvisW_nil]
    have : itemW (g.view fwd) ⟨o, 0⟩ ≤ (g.elements.map (elemW (g.view fwd))).sum := by
      by_cases hp : 0 < o
      · have h1 := le_sum_of_mem (elemW (g.view fwd)) g.elements o hoU
        have : 1 ≤ elemW (g.view fwd) o := by unfold elemW; split <;> omega
        simp only [itemW, hp, if_true]; omega
      · have hes := isElem_neg_edge g ho hp
        have hends := edge_ends g w hes
        -- the owner of the origin edge is an existing node; its weight covers the chain
        have hown : (g.view fwd).owner o ∈ g.elements ∧ 0 < (g.view fwd).owner o := by
          cases fwd
          · have := g.nodeSlot_pos w hends.2
            exact ⟨(C18_iter_mem g _).mpr (isElem_node g w hends.2), by simp [Graph.view, Graph.viewRev]; omega⟩
          · have := g.nodeSlot_pos w hends.1
            exact ⟨(C18_iter_mem g _).mpr (isElem_node g w hends.1), by simp [Graph.view, Graph.viewFwd]; omega⟩
        have h1 := le_sum_of_mem (elemW (g.view fwd)) g.elements _ hown.1
        have h2 : (chain (g.view fwd) o).length ≤ ((g.view fwd).succ ((g.view fwd).owner o)).length :=
          length_dropWhile_le _ _
        simp only [itemW, hp, if_false]
        simp only [elemW, hown.2, if_true] at h1
        omega
    omega
  have hfuel : 2 * (g.elements.map (elemW (g.view fwd))).sum < g.fuel := by
    unfold Graph.fuel
    cases fwd <;> simp only [Graph.view, if_true, Bool.false_eq_true, if_false] <;> omega
  omega

/-- **C14 after every history**: for every state of the abstract graph reachable from the empty database by any
sequence of node / edge insertions, removals (with id reuse) and value insertions (`Graph.Reachable`,
Lemmas/GraphOps.lean: every operation preserves `Graph.wfB`), every existing origin (node or edge), both directions
and both algorithms: the unconditional search terminates within the model's fuel and returns the origin first,
nothing twice, and exactly the reachable elements. -/
theorem C14_every_history (g : Graph) (hr : g.Reachable) (alg : Alg) (fwd : Bool) (o : Int)
    (ho : g.isElem o = true) :
    ∃ xs, searchGraph false g alg (g.view fwd) (evalConds false g .nil) o 0 0 = .ok xs ∧
      xs.head? = some o ∧ xs.Nodup ∧ ∀ x, x ∈ xs ↔ Reach (g.view fwd) o x := by
  have hwf := reachable_wfB hr
  have hterm := C14_graph_terminates g hwf alg fwd o ho allH ()
  rcases run_ok_or_fuel (gstep false alg (g.view fwd)) allH g.fuel (gsInit o) () with ⟨xs, hres⟩ | hres
  · have h' : searchGraph false g alg (g.view fwd) (evalConds false g .nil) o 0 0 = .ok xs := by
      rw [C14_model_is_search g alg _ o ho]; exact hres
    exact ⟨xs, h', C14_graph_exact g hwf alg fwd o ho xs h'⟩
  · exact absurd hres hterm

/-! ### Order -/

/-- **Depth-first order**: the elements are returned in the order of the recursive pre-order traversal with a global
visited set (`Dfs`, Lemmas/Dfs.lean: a visited element is skipped; a node is followed by the traversal of the
edges of its chain, most recent first, each to its end before the next; an edge by the traversal of its target) —
`xs.reverse` is the visited list (newest first) that traversal ends with. All graphs, node and edge origins,
both directions. -/
theorem C14_dfs_order (V : View) (hwf : V.WF) (o : Int) (ho : 0 < o ∨ 0 < V.target o) (fuel : Nat)
    (xs : List Int) (h : traverse .dfs V o fuel = .ok xs) : Dfs V [] o xs.reverse := by
  have hinv : InvI V (gsInit o) := by
    refine ⟨?_, ?_⟩
    · intro si hsi _ hd; simp [gsInit] at hsi; subst hsi; simp at hd
    · intro si hsi hn; simp [gsInit] at hsi; subst hsi
      rcases ho with h | h
      · exact absurd h hn
      · exact h
  have := dfs_aux V hwf fuel (gsInit o) xs h hinv
  simp only [gsInit, DfsItems, List.append_nil] at this
  obtain ⟨v1, hrel, rfl⟩ := this
  simpa [ItemRel] using hrel

/-- …and that reference traversal is a function: it is the only visited list the recursive traversal can end with. -/
theorem C14_dfs_order_unique (V : View) (hwf : V.WF) (o : Int) (ho : 0 < o ∨ 0 < V.target o) (fuel : Nat)
    (xs : List Int) (h : traverse .dfs V o fuel = .ok xs) (vis' : List Int) (hd : Dfs V [] o vis') :
    vis' = xs.reverse :=
  Dfs.functional hd (C14_dfs_order V hwf o ho fuel xs h)

theorem eq_of_nodup_map {α β : Type} (f : α → β) : ∀ (l : List α), (l.map f).Nodup →
    ∀ a ∈ l, ∀ b ∈ l, f a = f b → a = b
  | [], _, a, ha, _, _, _ => by simp at ha
  | x :: xs, hnd, a, ha, b, hb, hab => by
    simp only [List.map_cons, List.nodup_cons, List.mem_map, not_exists, not_and] at hnd
    rcases List.mem_cons.mp ha with ha' | ha' <;> rcases List.mem_cons.mp hb with hb' | hb'
    · rw [ha', hb']
    · subst ha'; exact absurd hab.symm (hnd.1 b hb')
    · subst hb'; exact absurd hab (hnd.1 a ha')
    · exact eq_of_nodup_map f xs hnd.2 a ha' b hb' hab

/-- **Breadth-first distances**: the `(element, distance)` pairs handed to the handler (`visitsD`) list the returned
elements in non-decreasing distance, and the distance attached to each element is its true shortest distance
from the origin, every node and edge step counting 1 — for all graphs, node and edge origins, both directions. -/
theorem C14_bfs_distance (V : View) (hwf : V.WF) (o : Int) (ho : 0 < o ∨ 0 < V.target o) (fuel : Nat)
    (xs : List Int) (h : traverse .bfs V o fuel = .ok xs) :
    ∃ tr : List SI, visitsD .bfs V fuel (gsInit o) = some tr ∧ xs = tr.map (fun t => t.idx) ∧
      tr.Pairwise (fun a b => a.dist ≤ b.dist) ∧
      ∀ t ∈ tr, ReachD V o t.idx t.dist ∧ ∀ k, ReachD V o t.idx k → t.dist ≤ k := by
  obtain ⟨tr, htr, hxs⟩ := run_visitsD .bfs V fuel (gsInit o) xs h
  obtain ⟨hsorted, hclosed, hreach⟩ := bfs_aux V hwf o fuel (gsInit o) [] tr htr (invD_init V o ho)
  simp only [List.nil_append] at hsorted hclosed
  have hnd : (tr.map (fun t => t.idx)).Nodup := hxs ▸ C14_nodup .bfs V o allH () fuel xs h
  have ho0 : (⟨o, 0⟩ : SI) ∈ tr := by
    cases fuel with
    | zero => simp [visitsD] at htr
    | succ f =>
      simp only [visitsD, gsInit, gstep_unvisited .bfs V ⟨o, 0⟩ [] [] (by simp)] at htr
      cases hq : visitsD .bfs V f ⟨expand false .bfs V ⟨o, 0⟩ true [], [o]⟩ with
      | none => simp [hq] at htr
      | some t' => simp [hq] at htr; subst htr; simp
  refine ⟨tr, htr, hxs, hsorted, fun t ht => ⟨hreach t ht, fun k hk => ?_⟩⟩
  obtain ⟨dx, hdx, hm⟩ := closedD_lower hclosed ho0 hk
  have : (⟨t.idx, dx⟩ : SI) = t := eq_of_nodup_map (fun t => t.idx) tr hnd _ hm t ht rfl
  have : dx = t.dist := by rw [← this]
  omega

/-! ### The unchanged code -/

/-- Graph of DESIGN.md §5: nodes 1,2,3; edges −4: 1→2, −5: 1→3. -/
def g5 : Graph :=
  let g := Graph.empty.insertNode.2.insertNode.2.insertNode.2
  match g.insertEdge 1 2 with
  | .ok (_, g1) => (match g1.insertEdge 1 3 with
    | .ok (_, g2) => g2
    | _ => g1)
  | _ => g

/-- On the unchanged tree `search().from(-5)` returns `[-5, -4, 3, 2]`; with the fix `[-5, 3]`. -/
theorem C14_edge_origin_counterexample :
    search true g5 ⟨.bfs, -5, 0, 0, 0, [], .nil⟩ = .ok [-5, -4, 3, 2] ∧
    search false g5 ⟨.bfs, -5, 0, 0, 0, [], .nil⟩ = .ok [-5, 3] := by
  decide

/-- …and `-4` is not reachable from `-5`. -/
theorem C14_edge_origin_unreachable : ¬ Reach g5.viewFwd (-5) (-4) := by
  have key : ∀ x, Reach g5.viewFwd (-5) x → x = -5 ∨ x = 3 := by
    intro x hx
    induction hx with
    | origin => exact Or.inl rfl
    | edge _ hn he ih =>
      rcases ih with rfl | rfl
      · exact absurd hn (by decide)
      · have : g5.viewFwd.succ 3 = [] := by decide
        rw [this] at he; simp at he
    | node _ hn ih =>
      rcases ih with rfl | rfl
      · right; decide
      · exact absurd (by decide : (0 : Int) < 3) hn
  intro h
  rcases key _ h with h | h <;> exact absurd h (by decide)

/-! ### Non-vacuity -/

example : traverse .bfs g5.viewFwd 1 g5.fuel = .ok [1, -5, -4, 3, 2] := by decide
example : traverse .dfs g5.viewFwd 1 g5.fuel = .ok [1, -5, 3, -4, 2] := by decide
example : traverse .bfs g5.viewRev 3 g5.fuel = .ok [3, -5, 1] := by decide
example : g5.wfB = true := by decide
example : visitsD .bfs g5.viewFwd g5.fuel (gsInit 1) = some [⟨1, 0⟩, ⟨-5, 1⟩, ⟨-4, 1⟩, ⟨3, 2⟩, ⟨2, 2⟩] := by decide

end AgdbSearch
