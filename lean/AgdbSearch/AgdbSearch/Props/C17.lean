/-
C17 — path search returns a minimum-cost path.

Model = `PathSearch` as written (re-sort by cost then length, take the last, lazy deletion through `visited`)
with the distance fix of proposed_fixes/C15-path-edge-distance.diff (`legacy = false`).
`C17_valid`/`C17_filter` hold for ANY conditions; `C17_optimal`/`C17_empty_iff` for conditions whose answer does
not depend on the distance (`C17_static_conditions`: every condition tree without a `distance` atom).
Reading of "the result is empty exactly when …": the statement is about the PATH found (`pathRaw`); the listed
ids are its elements that pass the conditions (`C17_filter`), so the id list is also empty when no element of
the cheapest path passes.
-/
import AgdbSearch.Lemmas.Dijkstra
namespace AgdbSearch

/-- `PathHandler` over a condition evaluator. -/
def costH (base : Int → Nat → Control) : Int → Nat → Nat × Bool := fun x d => pathCost (base x d)

/-- The path found by `PathSearch::search` before the final `filter(|e| e.1)`. -/
def pathRaw (g : Graph) (base : Int → Nat → Control) (o d : Int) (fuel : Nat) : Outcome (List (Int × Bool)) :=
  if o != d && g.isNode o && g.isNode d then
    pathLoop false g (costH base) d fuel ⟨[⟨[(o, (costH base o 0).2)], 0⟩], []⟩
  else .ok []

/-- **The result lists the path elements that pass the conditions**, in path order. -/
theorem C17_filter (g : Graph) (base : Int → Nat → Control) (o d : Int) (fuel : Nat) :
    pathSearch false g base o d fuel =
      (pathRaw g base o d fuel).map (fun r => (r.filter (fun e => e.2)).map (fun e => e.1)) := by
  unfold pathSearch pathRaw
  split <;> rfl

/-- The flag stored with each path element is the conditions' answer at the element's distance, and elements
answering `Stop` have cost 0 (cannot be used), others cost 1 if they pass and 2 otherwise. -/
theorem C17_cost (c : Control) :
    (pathCost c).2 = c.val ∧
    (c.kind ≠ .cont → (pathCost c).1 = 0) ∧
    (c.kind = .cont → (pathCost c).1 = if c.val then 1 else 2) := by
  unfold pathCost
  cases c.kind <;> simp

/-- **Valid**: for ANY conditions, the path found is empty or an alternating directed path of nodes and edges from
the origin to the destination, every element after the origin usable (non-zero cost at its distance), flags =
the conditions' answers, with `K` the sum of the element costs. -/
theorem C17_valid (g : Graph) (base : Int → Nat → Control) (o d : Int) (fuel : Nat) (r : List (Int × Bool))
    (h : pathRaw g base o d fuel = .ok r) : r = [] ∨ ∃ K, VPath g (costH base) o r d K := by
  unfold pathRaw at h
  split at h
  · exact pathLoop_valid g (costH base) o d fuel _ r (init_valid g (costH base) o) h
  · injection h with h; exact Or.inl h.symm

/-- **Optimal** (distance-independent conditions): no usable path from the origin to the destination is cheaper
than the one found. -/
theorem C17_optimal (g : Graph) (base : Int → Nat → Control) (hs : ∀ x dd, 0 < dd → base x dd = base x 1)
    (o d : Int) (fuel : Nat) (r : List (Int × Bool)) (h : pathRaw g base o d fuel = .ok r) (hne : r ≠ []) :
    ∃ K, VPath g (costH base) o r d K ∧ ∀ k, UPath g (fun x => (costH base x 1).1) o d k → K ≤ k := by
  have hs' : ∀ x dd, 0 < dd → costH base x dd = costH base x 1 := by
    intro x dd hd; simp [costH, hs x dd hd]
  unfold pathRaw at h
  split at h
  · rcases pathLoop_optimal g (costH base) hs' o d fuel _ r (init_valid g (costH base) o)
        (init_pinv g _ o d _) h with ⟨h0, _⟩ | h1
    · exact absurd h0 hne
    · exact h1
  · injection h with h; exact absurd h.symm hne

/-- **Empty exactly when** (distance-independent conditions) the origin equals the destination, an endpoint is not
an existing node, or no usable path exists. -/
theorem C17_empty_iff (g : Graph) (base : Int → Nat → Control) (hs : ∀ x dd, 0 < dd → base x dd = base x 1)
    (o d : Int) (fuel : Nat) (r : List (Int × Bool)) (h : pathRaw g base o d fuel = .ok r) :
    r = [] ↔ (o = d ∨ g.isNode o = false ∨ g.isNode d = false ∨
              ∀ k, ¬ UPath g (fun x => (costH base x 1).1) o d k) := by
  have hs' : ∀ x dd, 0 < dd → costH base x dd = costH base x 1 := by
    intro x dd hd; simp [costH, hs x dd hd]
  unfold pathRaw at h
  split at h
  · rename_i hc
    simp only [Bool.and_eq_true, bne_iff_ne, ne_eq] at hc
    rcases pathLoop_optimal g (costH base) hs' o d fuel _ r (init_valid g (costH base) o)
        (init_pinv g _ o d _) h with ⟨h0, hno⟩ | ⟨K, hv, _⟩
    · exact ⟨fun _ => Or.inr (Or.inr (Or.inr hno)), fun _ => h0⟩
    · constructor
      · intro h0; exact absurd h0 hv.ne_nil
      · rintro (h1 | h1 | h1 | h1)
        · exact absurd h1 hc.1.1
        · simp [hc.1.2] at h1
        · simp [hc.2] at h1
        · exact absurd (hv.toUPath hs') (h1 K)
  · rename_i hc
    injection h with h
    refine ⟨fun _ => ?_, fun _ => h.symm⟩
    by_cases h1 : o = d
    · exact Or.inl h1
    · cases h2 : g.isNode o
      · exact Or.inr (Or.inl rfl)
      · cases h3 : g.isNode d
        · exact Or.inr (Or.inr (Or.inl rfl))
        · exact absurd (by simp [h1, h2, h3]) hc

/-- Condition trees without a `distance` atom. -/
def noDistance : Conds → Bool
  | .nil => true
  | .leaf _ _ a rest => (match a with | .distance _ => false | _ => true) && noDistance rest
  | .group _ _ inner rest => noDistance inner && noDistance rest

theorem evalFrom_static (legacy : Bool) (g : Graph) (x : Int) (dd : Nat) (hd : 0 < dd) (cs : Conds)
    (hn : noDistance cs = true) :
    ∀ r, evalFrom legacy g x dd r cs = evalFrom legacy g x 1 r cs := by
  induction cs with
  | nil => intro r; rfl
  | leaf l m a rest ih =>
    intro r
    simp only [noDistance, Bool.and_eq_true] at hn
    have ha : evalAtom legacy g x dd a = evalAtom legacy g x 1 a := by
      cases a <;> first | rfl | simp at hn
    have hdd : (dd == 0) = false := by simp; omega
    have hm : ∀ c, applyModifier m dd r c = applyModifier m 1 r c := by
      intro c; cases m <;> simp [applyModifier, hdd]
    simp only [evalFrom, ha, hm, ih hn.2]
  | group l m inner rest ihi ihr =>
    intro r
    simp only [noDistance, Bool.and_eq_true] at hn
    have hdd : (dd == 0) = false := by simp; omega
    have hm : ∀ c, applyModifier m dd r c = applyModifier m 1 r c := by
      intro c; cases m <;> simp [applyModifier, hdd]
    simp only [evalFrom, ihi hn.1, hm, ihr hn.2]

/-- Conditions without `distance` answer the same at every distance ≥ 1 (`beyond` differs only at the origin,
whose cost is never used), so `C17_optimal` / `C17_empty_iff` apply to them. -/
theorem C17_static_conditions (legacy : Bool) (g : Graph) (cs : Conds) (hn : noDistance cs = true) :
    ∀ x dd, 0 < dd → evalConds legacy g cs x dd = evalConds legacy g cs x 1 := by
  intro x dd hd
  exact evalFrom_static legacy g x dd hd cs hn _

/-- FULL STATEMENT for distance-dependent conditions (not proved; the cost of an element then depends on the path
that reaches it, and the search is best-first over partial paths with per-node lazy deletion, which is not
optimal in general; the harness searches this region for a concrete non-optimal result):
no valid path is cheaper than the one found. -/
def C17_optimal_statement : Prop :=
  ∀ (g : Graph) (base : Int → Nat → Control) (o d : Int) (fuel : Nat) (r r' : List (Int × Bool)) (K K' : Nat),
    pathRaw g base o d fuel = .ok r → VPath g (costH base) o r d K → VPath g (costH base) o r' d K' → K ≤ K'

/-- Proved part of `C17_optimal_statement`: it holds whenever the conditions are distance-independent
(the path found has a cost `K` not above the cost of any valid path). -/
theorem C17_optimal_partial (g : Graph) (base : Int → Nat → Control) (hs : ∀ x dd, 0 < dd → base x dd = base x 1)
    (o d : Int) (fuel : Nat) (r r' : List (Int × Bool)) (K' : Nat)
    (h : pathRaw g base o d fuel = .ok r) (hne : r ≠ [])
    (hv' : VPath g (costH base) o r' d K') : ∃ K, VPath g (costH base) o r d K ∧ K ≤ K' := by
  have hs' : ∀ x dd, 0 < dd → costH base x dd = costH base x 1 := by
    intro x dd hd; simp [costH, hs x dd hd]
  obtain ⟨K0, hv0, hmin⟩ := C17_optimal g base hs o d fuel r h hne
  exact ⟨K0, hv0, hmin K' (hv'.toUPath hs')⟩

/-! ### Distance-dependent conditions: the full statement is false (known finding) -/

/-- 1→2→3 (edges −7, −8), 1→4→5→3 (−9, −10, −11), 3→6 (−12). -/
def gDD : Graph :=
  let g := Graph.empty.insertNode.2.insertNode.2.insertNode.2.insertNode.2.insertNode.2.insertNode.2
  let ins := fun (g : Graph) (a b : Int) => match g.insertEdge a b with | .ok (_, g') => g' | _ => g
  ins (ins (ins (ins (ins (ins g 1 2) 2 3) 1 4) 4 5) 5 3) 3 6

/-- `where_().distance(LessThanOrEqual(6)).and().not().ids([-7, 2, -8])`. -/
def condsDD : Conds :=
  .leaf .and .none (.distance ⟨.le, 6⟩) (.leaf .and .not (.ids [-7, 2, -8]) .nil)

/-- With a distance condition the search returns nothing although a usable path exists: node 3 is settled
through the cheaper but longer route (distance 6), from where edge −12 lies beyond the distance limit, and the
dearer route that reaches 3 at distance 4 is discarded. Refutes `C17_optimal_statement` / the `empty exactly when`
clause outside the distance-independent case (known finding `C17/distance-dependent/PathSearch::process_index`). -/
theorem C17_distance_dependent_counterexample :
    pathRaw gDD (evalConds false gDD condsDD) 1 6 gDD.fuel = .ok [] ∧
    ∃ r K, VPath gDD (costH (evalConds false gDD condsDD)) 1 r 6 K := by
  refine ⟨by decide, ?_⟩
  have h := VPath.snoc (g := gDD) (h := costH (evalConds false gDD condsDD)) (o := 1) 12
    (VPath.snoc 8 (VPath.snoc 7 VPath.single (by decide) (by decide) (by decide))
      (by decide) (by decide) (by decide)) (by decide) (by decide) (by decide)
  exact ⟨_, _, h⟩

/-! ### Non-vacuity -/

/-- 1→2 by edge −3, 2→4 by −5 … a diamond where the conditions make one branch more expensive. -/
def gDiamond : Graph :=
  let g := Graph.empty.insertNode.2.insertNode.2.insertNode.2.insertNode.2
  let ins := fun (g : Graph) (a b : Int) => match g.insertEdge a b with | .ok (_, g') => g' | _ => g
  ins (ins (ins (ins g 1 2) 2 4) 1 3) 3 4

example : pathSearch false gDiamond (evalConds false gDiamond .nil) 1 4 gDiamond.fuel = .ok [1, -7, 3, -8, 4] := by
  decide
/-- excluding node 3 from the selection makes the 1→3→4 branch cost 5 instead of 4: the other branch wins. -/
example : pathSearch false gDiamond (evalConds false gDiamond (.leaf .and .not (.ids [3]) .nil)) 1 4 gDiamond.fuel
    = .ok [1, -5, 2, -6, 4] := by decide
/-- stopping at both middle nodes leaves no usable path. -/
example : pathSearch false gDiamond (evalConds false gDiamond (.leaf .and .notBeyond (.ids [2, 3]) .nil)) 1 4
    gDiamond.fuel = .ok [] := by decide

end AgdbSearch
