/-
C16 — limit, offset and ordering slice and sort results without failing.

Model = the tree with proposed_fixes/C16-slice-clip.diff applied (`legacy = false`);
the unchanged code is `legacy = true` and is refuted by `C16_slice_panic_counterexample`
and `C16_limit_overflow_counterexample`.
-/
import AgdbSearch.Lemmas.Slice
import AgdbSearch.Lemmas.Order
import AgdbSearch.Lemmas.NoPanic
namespace AgdbSearch

/-- **Streaming limit/offset = slice of the unlimited run** (breadth/depth first, forward and reverse: `V`
is the direction). For every graph, condition evaluator `base`, origin, limit and offset: if the search without
limit/offset returns `xs`, the search with them returns exactly positions `offset .. offset+limit-1` of `xs`
(clipped; `limit = 0` = unlimited). No bound on the graph; `hb` only excludes `limit+offset` overflowing `u64`
on a result list longer than `u64::MAX`, which no database can hold. -/
theorem C16_stream_slice (g : Graph) (alg : Alg) (V : View) (base : Int → Nat → Control)
    (origin : Int) (limit offset : Nat) (xs : List Int)
    (h : searchGraph false g alg V base origin 0 0 = .ok xs)
    (hb : limit + offset ≤ U64_MAX ∨ xs.length ≤ U64_MAX) :
    searchGraph false g alg V base origin limit offset = .ok (sliceSpec limit offset xs) := by
  unfold searchGraph at h ⊢
  split at h
  · rename_i he
    simp only [he, if_true]
    have h0 : run (gstep false alg V) (defaultH base) g.fuel (gsInit origin) () = .ok xs := by
      simpa [runWith] using h
    exact runWith_eq_slice _ base limit offset _ _ xs h0 hb
  · rename_i he
    simp only [he]
    injection h with h; subst h
    simp [sliceSpec]

/-- The same for the elements search. -/
theorem C16_stream_slice_elements (g : Graph) (base : Int → Nat → Control)
    (limit offset : Nat) (xs : List Int)
    (h : searchElements false g base 0 0 = .ok xs)
    (hb : limit + offset ≤ U64_MAX ∨ xs.length ≤ U64_MAX) :
    searchElements false g base limit offset = .ok (sliceSpec limit offset xs) := by
  unfold searchElements at h ⊢
  have h0 : run estep (defaultH base) (g.slots.length + 1) ⟨g.elements, 0⟩ () = .ok xs := by
    simpa [runWith] using h
  exact runWith_eq_slice _ base limit offset _ _ xs h0 hb

/-- The repaired `SearchQuery::slice` is the specification slice (and is a total function: it returns a list,
there is no failing arm left). -/
theorem C16_slice_spec (limit offset : Nat) (ids : List Int) (hlen : ids.length ≤ U64_MAX) :
    slice limit offset ids = sliceSpec limit offset ids := by
  unfold slice sliceSpec
  by_cases hl : limit = 0
  · simp only [hl, if_true]
    rw [List.take_of_length_le (Nat.le_refl _)]
    by_cases ho : offset ≤ ids.length
    · rw [Nat.min_eq_left ho]
    · rw [Nat.min_eq_right (by omega), List.drop_of_length_le (by omega : ids.length ≤ offset)]
      exact List.drop_of_length_le (Nat.le_refl _)
  · simp only [hl, if_false]
    by_cases ho : offset ≤ ids.length
    · rw [Nat.min_eq_left ho, List.take_drop]
      by_cases h2 : offset + limit ≤ ids.length
      · rw [Nat.min_eq_left (by omega : offset + limit ≤ U64_MAX), Nat.min_eq_left h2]
      · rw [List.take_of_length_le (by omega : ids.length ≤ offset + limit)]
        rw [List.take_of_length_le]
        by_cases h3 : offset + limit ≤ U64_MAX
        · rw [Nat.min_eq_left h3]; omega
        · rw [Nat.min_eq_right (by omega)]; omega
    · rw [Nat.min_eq_right (by omega : ids.length ≤ offset)]
      rw [List.drop_of_length_le (by omega : ids.length ≤ offset)]
      rw [List.drop_of_length_le]
      · simp
      · rw [List.length_take]; omega

theorem sortIds_nil_keys (g : Graph) (ids : List Int) : sortIds g [] ids = ids := by
  unfold sortIds
  apply List.mergeSort_of_pairwise
  simp [elemCmp]
  exact List.pairwise_of_forall (by intros; trivial)

theorem Outcome.bind_bind {α β γ : Type} (o : Outcome α) (f : α → Outcome β) (k : β → Outcome γ) :
    (o.bind f).bind k = o.bind (fun a => (f a).bind k) := by
  cases o <;> rfl

theorem Outcome.bind_ok {α : Type} (o : Outcome α) : o.bind .ok = o := by cases o <;> rfl

/-- **With `order_by`, and for path search, result = slice (stable sort (complete search))**:
the query with limit/offset/order equals the same query without them, sorted by the keys and then sliced
with the total `slice`. Together with `C16_slice_spec` this is positions `offset .. offset+limit-1`. -/
theorem C16_sorted_slice (g : Graph) (q : SearchQ)
    (hq : q.orderBy ≠ [] ∨ (q.alg ≠ .elements ∧ q.origin ≠ 0 ∧ q.destination ≠ 0)) :
    search false g q =
      (search false g { q with limit := 0, offset := 0, orderBy := [] }).bind
        (fun base => .ok (slice q.limit q.offset (sortIds g q.orderBy base))) := by
  have hs : ∀ ids, sortSlice false g q ids = .ok (slice q.limit q.offset (sortIds g q.orderBy ids)) := by
    intro ids; simp [sortSlice]
  have hfun0 : ∀ q' : SearchQ, q'.limit = 0 → q'.offset = 0 → q'.orderBy = [] →
      sortSlice false g q' = Outcome.ok := by
    intro q' h1 h2 h3
    funext ids
    simp only [sortSlice, Bool.false_eq_true, if_false, h1, h2, h3, sortIds_nil_keys]
    simp [slice]
  have hfun : sortSlice false g q = fun ids => .ok (slice q.limit q.offset (sortIds g q.orderBy ids)) :=
    funext hs
  cases halg : q.alg with
  | elements =>
    rcases hq with ho | ⟨ha, _, _⟩
    · have : q.orderBy.isEmpty = false := by cases h : q.orderBy <;> simp_all
      simp only [search, halg, this, hfun]
      simp
    · exact absurd halg ha
  | bfs =>
    simp only [search, halg]
    by_cases hd : q.destination = 0
    · have ho : q.orderBy ≠ [] := by rcases hq with h | ⟨_, _, h⟩; exact h; exact absurd hd h
      have : q.orderBy.isEmpty = false := by cases h : q.orderBy <;> simp_all
      simp only [hd, if_true, this, hfun]
      split <;> simp [Outcome.bind]
    · by_cases hor : q.origin = 0
      · have ho : q.orderBy ≠ [] := by rcases hq with h | ⟨_, h, _⟩; exact h; exact absurd hor h
        have : q.orderBy.isEmpty = false := by cases h : q.orderBy <;> simp_all
        simp only [hd, hor, if_true, if_false, this, hfun]
        split <;> simp [Outcome.bind]
      · simp only [hd, hor, if_false, hfun]
        split
        · simp [Outcome.bind]
        · rw [hfun0 _ rfl rfl rfl, Outcome.bind_ok]
  | dfs =>
    simp only [search, halg]
    by_cases hd : q.destination = 0
    · have ho : q.orderBy ≠ [] := by rcases hq with h | ⟨_, _, h⟩; exact h; exact absurd hd h
      have : q.orderBy.isEmpty = false := by cases h : q.orderBy <;> simp_all
      simp only [hd, if_true, this, hfun]
      split <;> simp [Outcome.bind]
    · by_cases hor : q.origin = 0
      · have ho : q.orderBy ≠ [] := by rcases hq with h | ⟨_, h, _⟩; exact h; exact absurd hor h
        have : q.orderBy.isEmpty = false := by cases h : q.orderBy <;> simp_all
        simp only [hd, hor, if_true, if_false, this, hfun]
        split <;> simp [Outcome.bind]
      · simp only [hd, hor, if_false, hfun]
        split
        · simp [Outcome.bind]
        · rw [hfun0 _ rfl rfl rfl, Outcome.bind_ok]

theorem bind_eq_ok {α β : Type} {o : Outcome α} {f : α → Outcome β} {y : β} (h : o.bind f = .ok y) :
    ∃ x, o = .ok x ∧ f x = .ok y := by
  cases o <;> simp [Outcome.bind] at h
  exact ⟨_, rfl, h⟩

theorem slice_zero (ids : List Int) : slice 0 0 ids = ids := by simp [slice]

/-- **The property as stated, for every query shape at once** (breadth/depth first forward and reverse, elements, path;
with or without `order_by`; any conditions): if the query without limit and offset returns `xs`, the query with
them returns exactly positions `offset .. offset+limit-1` of `xs` (clipped; `limit = 0` unlimited). -/
theorem C16_search_slice (g : Graph) (q : SearchQ) (xs : List Int)
    (h0 : search false g { q with limit := 0, offset := 0 } = .ok xs)
    (hb : xs.length ≤ U64_MAX) :
    search false g q = .ok (sliceSpec q.limit q.offset xs) := by
  have hss : ∀ (q' : SearchQ) ids, sortSlice false g q' ids = .ok (slice q'.limit q'.offset (sortIds g q'.orderBy ids)) := by
    intro q' ids; simp [sortSlice]
  have hlen : ∀ ids : List Int, (sortIds g q.orderBy ids).length = ids.length := by
    intro ids; simp [sortIds, List.length_mergeSort]
  -- the ordered / path shape: both queries sort the same complete result
  have ordered : ∀ (o : Outcome (List Int)),
      o.bind (sortSlice false g { q with limit := 0, offset := 0 }) = .ok xs →
      o.bind (sortSlice false g q) = .ok (sliceSpec q.limit q.offset xs) := by
    intro o ho
    obtain ⟨ids, rfl, hx⟩ := bind_eq_ok ho
    rw [hss] at hx
    simp only [slice_zero] at hx
    injection hx with hx
    simp only [Outcome.bind, hss]
    rw [C16_slice_spec _ _ _ (by rw [hx]; exact hb), hx]
  unfold search at h0 ⊢
  cases halg : q.alg with
  | elements =>
    simp only [halg] at h0 ⊢
    by_cases ho : q.orderBy.isEmpty
    · simp only [ho, if_true] at h0 ⊢
      exact C16_stream_slice_elements g _ _ _ xs h0 (Or.inr hb)
    · simp only [ho] at h0 ⊢
      exact ordered _ h0
  | bfs =>
    simp only [halg] at h0 ⊢
    by_cases hd : q.destination = 0
    · simp only [hd, if_true] at h0 ⊢
      split at h0
      · cases h0
      · rename_i he
        simp only [he]
        by_cases ho : q.orderBy.isEmpty
        · simp only [ho, if_true] at h0 ⊢
          exact C16_stream_slice g _ _ _ _ _ _ xs h0 (Or.inr hb)
        · simp only [ho] at h0 ⊢
          exact ordered _ h0
    · simp only [hd, if_false] at h0 ⊢
      by_cases hor : q.origin = 0
      · simp only [hor, if_true] at h0 ⊢
        split at h0
        · cases h0
        · rename_i he
          simp only [he]
          by_cases ho : q.orderBy.isEmpty
          · simp only [ho, if_true] at h0 ⊢
            exact C16_stream_slice g _ _ _ _ _ _ xs h0 (Or.inr hb)
          · simp only [ho] at h0 ⊢
            exact ordered _ h0
      · simp only [hor, if_false] at h0 ⊢
        split at h0
        · cases h0
        · rename_i he
          simp only [he]
          exact ordered _ h0
  | dfs =>
    simp only [halg] at h0 ⊢
    by_cases hd : q.destination = 0
    · simp only [hd, if_true] at h0 ⊢
      split at h0
      · cases h0
      · rename_i he
        simp only [he]
        by_cases ho : q.orderBy.isEmpty
        · simp only [ho, if_true] at h0 ⊢
          exact C16_stream_slice g _ _ _ _ _ _ xs h0 (Or.inr hb)
        · simp only [ho] at h0 ⊢
          exact ordered _ h0
    · simp only [hd, if_false] at h0 ⊢
      by_cases hor : q.origin = 0
      · simp only [hor, if_true] at h0 ⊢
        split at h0
        · cases h0
        · rename_i he
          simp only [he]
          by_cases ho : q.orderBy.isEmpty
          · simp only [ho, if_true] at h0 ⊢
            exact C16_stream_slice g _ _ _ _ _ _ xs h0 (Or.inr hb)
          · simp only [ho] at h0 ⊢
            exact ordered _ h0
      · simp only [hor, if_false] at h0 ⊢
        split at h0
        · cases h0
        · rename_i he
          simp only [he]
          exact ordered _ h0

/-- **Never a failure**: on the repaired code no search — any algorithm, any limit, offset, ordering, conditions —
panics or over-allocates; the only non-value outcomes are the documented `NotFound` for a missing origin and
(in the model) fuel exhaustion, which `C14_terminates` excludes for the graph searches. -/
theorem C16_no_failure (g : Graph) (q : SearchQ) : (search false g q).noCrash := by
  have hss : ∀ ids, (sortSlice false g q ids).noCrash := by intro ids; simp [sortSlice, Outcome.noCrash]
  have hsg : ∀ alg V base o l off, (searchGraph false g alg V base o l off).noCrash := by
    intro alg V base o l off
    unfold searchGraph; split
    · exact runWith_noCrash _ _ _ _ _ _
    · simp [Outcome.noCrash]
  have hse : ∀ base l off, (searchElements false g base l off).noCrash := by
    intro base l off; exact runWith_noCrash _ _ _ _ _ _
  have hp : ∀ base o d f, (pathSearch false g base o d f).noCrash := by
    intro base o d f
    unfold pathSearch; split
    · exact Outcome.noCrash_map (pathLoop_noCrash _ _ _ _ _ _)
    · simp [Outcome.noCrash]
  unfold search
  cases q.alg <;> simp only
  · split
    · split
      · simp [Outcome.noCrash]
      · split
        · exact hsg _ _ _ _ _ _
        · exact Outcome.noCrash_bind (hsg _ _ _ _ _ _) hss
    · split
      · split
        · simp [Outcome.noCrash]
        · split
          · exact hsg _ _ _ _ _ _
          · exact Outcome.noCrash_bind (hsg _ _ _ _ _ _) hss
      · split
        · simp [Outcome.noCrash]
        · exact Outcome.noCrash_bind (hp _ _ _ _) hss
  · split
    · split
      · simp [Outcome.noCrash]
      · split
        · exact hsg _ _ _ _ _ _
        · exact Outcome.noCrash_bind (hsg _ _ _ _ _ _) hss
    · split
      · split
        · simp [Outcome.noCrash]
        · split
          · exact hsg _ _ _ _ _ _
          · exact Outcome.noCrash_bind (hsg _ _ _ _ _ _) hss
      · split
        · simp [Outcome.noCrash]
        · exact Outcome.noCrash_bind (hp _ _ _ _) hss
  · split
    · exact hse _ _ _
    · exact Outcome.noCrash_bind (hse _ _ _) hss

/-- **Ordering is a stable sort by the listed keys**: the sorted list is a permutation of the input, it is
sorted for the multi-key comparator (no later element compares strictly smaller than an earlier one), and
it is stable (two elements that are not out of order keep their relative position). -/
theorem C16_order (g : Graph) (kos : List KeyOrder) (ids : List Int) :
    (sortIds g kos ids).Perm ids ∧
    (sortIds g kos ids).Pairwise (fun a b => elemCmp g kos a b ≠ .gt) ∧
    (∀ a b, [a, b].Sublist ids → elemCmp g kos a b ≠ .gt → [a, b].Sublist (sortIds g kos ids)) := by
  refine ⟨List.mergeSort_perm _ _, ?_, ?_⟩
  · have := List.pairwise_mergeSort (le := elemLe g kos) (elemLe_trans g kos) (elemLe_total g kos) ids
    refine List.Pairwise.imp ?_ this
    intro a b h; simpa [elemLe] using h
  · intro a b hsub hle
    exact List.pair_sublist_mergeSort (le := elemLe g kos) (elemLe_trans g kos) (elemLe_total g kos)
      (by simpa [elemLe] using hle) hsub

/-- The comparator is: first listed key decides, ties fall through to the next key. -/
theorem C16_order_lex (g : Graph) (ko : KeyOrder) (rest : List KeyOrder) (l r : Int) :
    elemCmp g (ko :: rest) l r = (keyCmp g ko l r).then (elemCmp g rest l r) := rfl

/-- Elements lacking a key are placed after those that have it, in both directions. -/
theorem C16_missing_last (g : Graph) (ko : KeyOrder) (l r : Int) (v : DbValue)
    (hl : g.value? l ko.key = some v) (hr : g.value? r ko.key = none) :
    keyCmp g ko l r = .lt ∧ keyCmp g ko r l = .gt := by
  simp [keyCmp, hl, hr, optCmp]

/-- Ascending uses the value order, descending its reverse. -/
theorem C16_direction (g : Graph) (ko : KeyOrder) (l r : Int) (a b : DbValue)
    (hl : g.value? l ko.key = some a) (hr : g.value? r ko.key = some b) :
    keyCmp g ko l r = if ko.asc then a.cmp b else (a.cmp b).swap := by
  simp [keyCmp, hl, hr, optCmp]

/-! ### The unchanged code -/

def twoNodes : Graph := (Graph.empty.insertNode.2).insertNode.2

/-- `search().elements().order_by(..).offset(5)` on 2 elements panics in `SearchQuery::slice` on the unchanged tree. -/
theorem C16_slice_panic_counterexample :
    search true twoNodes ⟨.elements, 0, 0, 0, 5, [⟨true, .str [107]⟩], .nil⟩ = .panic "SearchQuery::slice" := by
  have h : searchElements true twoNodes (evalConds true twoNodes .nil) 0 0 = .ok [1, 2] := by decide
  simp only [search, List.isEmpty_cons, Bool.false_eq_true, if_false, h, Outcome.bind, sortSlice, if_true]
  simp [sliceLegacy, sortIds, List.length_mergeSort]

/-- offset + limit past the end panics as well (range end out of bounds). -/
theorem C16_slice_panic_counterexample_limit :
    ∀ ids : List Int, ids.length = 2 → sliceLegacy 2 1 ids = .panic "SearchQuery::slice" := by
  intro ids h; simp [sliceLegacy, h, U64_MAX]

/-- `limit + offset` overflowing `u64` panics in `LimitOffsetHandler::new` (debug build) on the unchanged tree. -/
theorem C16_limit_overflow_counterexample :
    search true twoNodes ⟨.elements, 0, 0, U64_MAX, 1, [], .nil⟩ = .panic "LimitOffsetHandler::new" := by
  decide

/-! ### Non-vacuity -/

example : searchElements false twoNodes (evalConds false twoNodes .nil) 0 0 = .ok [1, 2] := by decide
example : searchElements false twoNodes (evalConds false twoNodes .nil) 1 1 = .ok (sliceSpec 1 1 [1, 2]) := by decide
example : search false twoNodes ⟨.elements, 0, 0, U64_MAX, 1, [], .nil⟩ = .ok [2] := by decide
example : slice 0 5 [1, 2] = [] := by decide
example : slice 2 1 [1, 2] = [2] := by decide

end AgdbSearch
