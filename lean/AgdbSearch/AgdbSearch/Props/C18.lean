/-
C18 — the elements search visits every existing element exactly once in id-slot order and never a removed one.
`Graph.elements` mirrors `GraphImpl::iter` / `next_element`; `estep` mirrors `ElementSearch::search`.
-/
import AgdbSearch.Lemmas.Complete
import AgdbSearch.Props.C15
namespace AgdbSearch

theorem elemAt_some (g : Graph) (i : Nat) (x : Int) :
    g.elemAt i = some x ↔ (g.isNodeSlot i = true ∧ x = Int.ofNat i) ∨ (g.isEdgeSlot i = true ∧ x = -(Int.ofNat i)) := by
  unfold Graph.elemAt Graph.isNodeSlot Graph.isEdgeSlot
  cases g.slot i <;> simp [eq_comm]

theorem mem_elements (g : Graph) (x : Int) :
    x ∈ g.elements ↔ ∃ i, i < g.slots.length ∧ i ≠ 0 ∧ g.elemAt i = some x := by
  unfold Graph.elements
  simp only [List.mem_filterMap, List.mem_range]
  constructor
  · rintro ⟨i, hi, h⟩
    by_cases h0 : i = 0
    · simp [h0] at h
    · simp only [h0, if_false] at h; exact ⟨i, hi, h0, h⟩
  · rintro ⟨i, hi, h0, h⟩
    exact ⟨i, hi, by simp [h0, h]⟩

theorem slot_lt (g : Graph) (i : Nat) (h : g.slot i ≠ .free) : i < g.slots.length := by
  unfold Graph.slot at h
  by_cases hi : i < g.slots.length
  · exact hi
  · simp [List.getD, List.getElem?_eq_none (Nat.le_of_not_lt hi)] at h

/-- **The enumeration is exactly the set of existing elements**: a node id / edge id is enumerated iff the
graph currently has that node / edge — in particular a removed (freed) id is never enumerated. -/
theorem C18_iter_mem (g : Graph) (x : Int) : x ∈ g.elements ↔ g.isElem x = true := by
  rw [mem_elements]
  unfold Graph.isElem Graph.isNode Graph.isEdge
  constructor
  · rintro ⟨i, _, h0, h⟩
    rcases (elemAt_some g i x).mp h with ⟨hn, rfl⟩ | ⟨he, rfl⟩
    · have : (0 : Int) < Int.ofNat i := by simp; omega
      simp [this, hn]; left; omega
    · have : -(Int.ofNat i) < 0 := by simp; omega
      simp [this, he]; right; omega
  · intro h
    simp only [Bool.or_eq_true, Bool.and_eq_true, decide_eq_true_eq] at h
    rcases h with ⟨hp, hs⟩ | ⟨hp, hs⟩
    · refine ⟨x.toNat, slot_lt g _ ?_, by omega, (elemAt_some g _ x).mpr (Or.inl ⟨hs, by simp; omega⟩)⟩
      unfold Graph.isNodeSlot at hs; intro hf; simp [hf] at hs
    · refine ⟨(-x).toNat, slot_lt g _ ?_, by omega, (elemAt_some g _ x).mpr (Or.inr ⟨hs, by simp; omega⟩)⟩
      unfold Graph.isEdgeSlot at hs; intro hf; simp [hf] at hs

/-- **Increasing order of the magnitude of the ids**, hence each element exactly once. -/
theorem C18_iter_sorted (g : Graph) : g.elements.Pairwise (fun a b => a.natAbs < b.natAbs) := by
  unfold Graph.elements
  refine List.Pairwise.filterMap _ ?_ (List.pairwise_lt_range)
  intro i j hij a ha b hb
  by_cases hi : i = 0
  · simp [hi] at ha
  · by_cases hj : j = 0
    · simp [hj] at hb
    · simp only [hi, hj, if_false, Option.mem_def] at ha hb
      have ea : a.natAbs = i := by
        rcases (elemAt_some g i a).mp ha with ⟨_, rfl⟩ | ⟨_, rfl⟩ <;> simp
      have eb : b.natAbs = j := by
        rcases (elemAt_some g j b).mp hb with ⟨_, rfl⟩ | ⟨_, rfl⟩ <;> simp
      omega

theorem C18_iter_nodup (g : Graph) : g.elements.Nodup := by
  refine (C18_iter_sorted g).imp ?_
  intro a b h hab; subst hab; omega

/-- What the elements search does with an arbitrary condition evaluator that never answers `Finish`
(`C15_never_finish`): it examines the enumeration front to back, each element once, handing the handler the
0-based position as distance, and returns those whose control value is true. -/
def selectPos (base : Int → Nat → Control) : Nat → List Int → List Int
  | _, [] => []
  | p, x :: rest => consIf (base x p).val x (selectPos base (p + 1) rest)

theorem run_estep (base : Int → Nat → Control) (hnf : ∀ x d, (base x d).kind ≠ .finish) :
    ∀ (l : List Int) (p fuel : Nat), l.length < fuel →
      run estep (defaultH base) fuel ⟨l, p⟩ () = .ok (selectPos base p l) := by
  intro l
  induction l with
  | nil =>
    intro p fuel hf
    cases fuel with
    | zero => omega
    | succ f => simp [run, estep, selectPos]
  | cons x rest ih =>
    intro p fuel hf
    cases fuel with
    | zero => omega
    | succ f =>
      have hrec := ih (p + 1) f (by simpa using hf)
      simp only [run, estep, defaultH, selectPos]
      cases hk : (base x p).kind
      · simp [hrec, Outcome.map]
      · exact absurd hk (hnf x p)
      · simp [hrec, Outcome.map]

/-- **Elements search = the enumeration filtered by the conditions** (any condition tree, either comparison
semantics); with no conditions it returns every existing element once, in id-slot order.
Limit / offset then slice this list (`C16_stream_slice_elements`). -/
theorem C18_iter (legacy : Bool) (g : Graph) (cs : Conds) :
    searchElements false g (evalConds legacy g cs) 0 0 = .ok (selectPos (evalConds legacy g cs) 0 g.elements) ∧
    searchElements false g (evalConds legacy g .nil) 0 0 = .ok g.elements := by
  have hlen : g.elements.length < g.slots.length + 1 := by
    unfold Graph.elements
    have := List.length_filterMap_le (fun i => if i = 0 then none else g.elemAt i) (List.range g.slots.length)
    simp at this; omega
  have hnf : ∀ cs x d, (evalConds legacy g cs x d).kind ≠ .finish := by
    intro cs x d
    exact C15_never_finish legacy g cs x d
  constructor
  · simp only [searchElements, runWith, if_true]
    exact run_estep _ (hnf cs) _ _ _ hlen
  · simp only [searchElements, runWith, if_true]
    rw [run_estep _ (hnf .nil) _ _ _ hlen]
    congr 1
    have : ∀ p l, selectPos (evalConds legacy g .nil) p l = l := by
      intro p l
      induction l generalizing p with
      | nil => rfl
      | cons x r ih => simp [selectPos, ih, consIf, evalConds, evalFrom]
    exact this 0 _

/-! ### Non-vacuity: slot reuse after removals -/

/-- nodes 1,2,3; remove 2; edge 1→3 reuses slot 2 as edge −2: enumeration `[1, -2, 3]`. -/
def gReuse : Graph :=
  let g := Graph.empty.insertNode.2.insertNode.2.insertNode.2
  let g := (g.remove 2).2
  match g.insertEdge 1 3 with
  | .ok (_, g') => g'
  | _ => g

example : gReuse.elements = [1, -2, 3] := by decide
example : searchElements false gReuse (evalConds false gReuse .nil) 0 0 = .ok [1, -2, 3] := by decide
example : gReuse.isElem 2 = false ∧ (2 : Int) ∉ gReuse.elements := by decide

end AgdbSearch
