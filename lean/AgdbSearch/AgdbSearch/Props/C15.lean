/-
C15 — search conditions select and prune exactly as documented; comparisons are type-strict.

Model = the tree with proposed_fixes/C15-type-strict-ordering.diff (`legacy = false`); the unchanged
`Comparison::compare` is `compareLegacy`, refuted by `C15_cross_type_counterexample`.
Reading of the documentation (docs/references/queries, "Truth tables"): the control kinds form the chain
Continue < Stop < Finish, `and` takes the larger kind and the conjunction of the values, `or` the smaller
kind and the disjunction; `not` negates the value; `beyond` / `not_beyond` "only control traversal … do not
select or reject elements on their own": they contribute the value accumulated so far.
-/
import AgdbSearch.Model.Query
import AgdbSearch.Lemmas.Extent
namespace AgdbSearch

/-! ### Documented tables -/

def Kind.rank : Kind → Nat
  | .cont => 0
  | .stop => 1
  | .finish => 2

/-- documented `And` table on kinds: the stronger of the two (Continue < Stop < Finish). -/
def docAndKind (a b : Kind) : Kind := if a.rank ≤ b.rank then b else a
/-- documented `Or` table on kinds: the weaker of the two. -/
def docOrKind (a b : Kind) : Kind := if a.rank ≤ b.rank then a else b

/-- **`SearchControl::and` / `or` are the documented tables**, including the rows the documentation leaves to
symmetry, for all 36 + 36 argument pairs. -/
theorem C15_tables (a b : Control) :
    a.and b = ⟨docAndKind a.kind b.kind, a.val && b.val⟩ ∧
    a.or b = ⟨docOrKind a.kind b.kind, a.val || b.val⟩ := by
  obtain ⟨ka, va⟩ := a
  obtain ⟨kb, vb⟩ := b
  cases ka <;> cases kb <;> exact ⟨rfl, rfl⟩

/-! ### Selection and traversal -/

def combineB (l : Logic) (acc v : Bool) : Bool :=
  match l with
  | .and => acc && v
  | .or => acc || v

/-- Value contributed by one condition whose own truth value is `v`. -/
def modB (m : Modifier) (acc v : Bool) : Bool :=
  match m with
  | .none => v
  | .not => !v
  | .beyond => acc
  | .notBeyond => acc

/-- The documented selection rule: left-to-right and/or fold of the per-condition truth values. -/
def selFrom (legacy : Bool) (g : Graph) (x : Int) (d : Nat) (acc : Bool) : Conds → Bool
  | .nil => acc
  | .leaf l m a rest =>
    selFrom legacy g x d (combineB l acc (modB m acc (evalAtom legacy g x d a).val)) rest
  | .group l m inner rest =>
    selFrom legacy g x d (combineB l acc (modB m acc (selFrom legacy g x d true inner))) rest

def combineK (l : Logic) (acc k : Kind) : Kind :=
  match l with
  | .and => docAndKind acc k
  | .or => docOrKind acc k

/-- Kind contributed by one condition of own kind `k` and own truth value `v` at distance `d`. -/
def modK (m : Modifier) (d : Nat) (k : Kind) (v : Bool) : Kind :=
  match m with
  | .none => k
  | .not => k
  | .beyond => if v || d == 0 then .cont else .stop
  | .notBeyond => if v then .stop else .cont

/-- The documented traversal rule: which control kind a condition list yields. -/
def kindFrom (legacy : Bool) (g : Graph) (x : Int) (d : Nat) (acc : Kind) : Conds → Kind
  | .nil => acc
  | .leaf l m a rest =>
    kindFrom legacy g x d
      (combineK l acc (modK m d (evalAtom legacy g x d a).kind (evalAtom legacy g x d a).val)) rest
  | .group l m inner rest =>
    kindFrom legacy g x d
      (combineK l acc (modK m d (kindFrom legacy g x d .cont inner) (selFrom legacy g x d true inner))) rest

theorem evalFrom_spec (legacy : Bool) (g : Graph) (x : Int) (d : Nat) (cs : Conds) :
    ∀ r : Control, evalFrom legacy g x d r cs =
      ⟨kindFrom legacy g x d r.kind cs, selFrom legacy g x d r.val cs⟩ := by
  induction cs with
  | nil => intro r; rfl
  | leaf l m a rest ih =>
    intro r
    simp only [evalFrom, kindFrom, selFrom]
    rw [ih]
    obtain ⟨rk, rv⟩ := r
    generalize evalAtom legacy g x d a = c
    obtain ⟨ck, cv⟩ := c
    cases l <;> cases m <;> simp only [combine, applyModifier, Control.flip, combineK, combineB, modK, modB,
      (C15_tables _ _).1, (C15_tables _ _).2] <;> (try split) <;> simp_all
  | group l m inner rest ihi ihr =>
    intro r
    simp only [evalFrom, kindFrom, selFrom]
    rw [ihr, ihi]
    obtain ⟨rk, rv⟩ := r
    generalize kindFrom legacy g x d .cont inner = ck
    generalize selFrom legacy g x d true inner = cv
    cases l <;> cases m <;> simp only [combine, applyModifier, Control.flip, combineK, combineB, modK, modB,
      (C15_tables _ _).1, (C15_tables _ _).2] <;> (try split) <;> simp_all

/-- **Selection**: an element is selected iff the left-to-right and/or fold of the per-condition truth values
(with `not` negating and `beyond`/`not_beyond` neutral) is true — for every graph, element, distance and
condition tree of any depth. -/
theorem C15_selection (legacy : Bool) (g : Graph) (cs : Conds) (x : Int) (d : Nat) :
    (evalConds legacy g cs x d).val = selFrom legacy g x d true cs := by
  simp [evalConds, evalFrom_spec]

/-- **Traversal**: the control kind is the max/min fold of the per-condition kinds, where only `distance`,
`beyond`, `not_beyond` (and groups containing them) can contribute `Stop`. -/
theorem C15_traversal (legacy : Bool) (g : Graph) (cs : Conds) (x : Int) (d : Nat) :
    (evalConds legacy g cs x d).kind = kindFrom legacy g x d .cont cs := by
  simp [evalConds, evalFrom_spec]

/-- Every atom except `distance` yields `Continue` (documented "Results" table). -/
theorem C15_atom_kinds (legacy : Bool) (g : Graph) (x : Int) (d : Nat) (a : Atom)
    (h : ∀ c, a ≠ .distance c) : (evalAtom legacy g x d a).kind = .cont := by
  cases a <;> first | rfl | exact absurd rfl (h _)

theorem compareDistance_ne_finish (c : CountComparison) (d : Nat) : (c.compareDistance d).kind ≠ .finish := by
  unfold CountComparison.compareDistance
  cases c.op <;> simp only <;> repeat' split
  all_goals simp

theorem evalAtom_ne_finish (legacy : Bool) (g : Graph) (x : Int) (d : Nat) (a : Atom) :
    (evalAtom legacy g x d a).kind ≠ .finish := by
  cases a <;> first | exact compareDistance_ne_finish _ _ | simp [evalAtom]

theorem modK_ne_finish (m : Modifier) (d : Nat) (k : Kind) (v : Bool) (h : k ≠ .finish) :
    modK m d k v ≠ .finish := by
  cases m <;> simp only [modK]
  · exact h
  · split <;> simp
  · exact h
  · split <;> simp

theorem combineK_ne_finish (l : Logic) (a b : Kind) (ha : a ≠ .finish) (hb : b ≠ .finish) :
    combineK l a b ≠ .finish := by
  cases l <;> cases a <;> cases b <;> simp_all [combineK, docAndKind, docOrKind, Kind.rank]

theorem kindFrom_ne_finish (legacy : Bool) (g : Graph) (x : Int) (d : Nat) (cs : Conds) :
    ∀ k, k ≠ .finish → kindFrom legacy g x d k cs ≠ .finish := by
  induction cs with
  | nil => intro k hk; exact hk
  | leaf l m a rest ih =>
    intro k hk
    simp only [kindFrom]
    exact ih _ (combineK_ne_finish _ _ _ hk (modK_ne_finish _ _ _ _ (evalAtom_ne_finish legacy g x d a)))
  | group l m inner rest ihi ihr =>
    intro k hk
    simp only [kindFrom]
    exact ihr _ (combineK_ne_finish _ _ _ hk (modK_ne_finish _ _ _ _ (ihi .cont (by simp))))

/-- Conditions never produce `Finish` (it is reserved for the limit handlers). -/
theorem C15_never_finish (legacy : Bool) (g : Graph) (cs : Conds) (x : Int) (d : Nat) :
    (evalConds legacy g cs x d).kind ≠ .finish := by
  rw [C15_traversal]; exact kindFrom_ne_finish legacy g x d cs .cont (by simp)

/-- `beyond` never stops at the origin (distance 0). -/
theorem C15_beyond_origin (r c : Control) : (applyModifier .beyond 0 r c).kind = .cont := by
  simp [applyModifier]

/-! ### Extent of the traversal -/

/-- Condition trees whose answer does not depend on the distance: no `distance` atom and no `beyond` modifier
(`beyond` treats the origin specially). -/
def pureConds : Conds → Bool
  | .nil => true
  | .leaf _ m a rest =>
    (match a with | .distance _ => false | _ => true) && (match m with | .beyond => false | _ => true) && pureConds rest
  | .group _ m inner rest => (match m with | .beyond => false | _ => true) && pureConds inner && pureConds rest

theorem evalFrom_pure (legacy : Bool) (g : Graph) (x : Int) (d : Nat) (cs : Conds) (hp : pureConds cs = true) :
    ∀ r, evalFrom legacy g x d r cs = evalFrom legacy g x 0 r cs := by
  induction cs with
  | nil => intro r; rfl
  | leaf l m a rest ih =>
    intro r
    simp only [pureConds, Bool.and_eq_true] at hp
    have ha : evalAtom legacy g x d a = evalAtom legacy g x 0 a := by
      cases a <;> first | rfl | simp at hp
    have hm : ∀ c, applyModifier m d r c = applyModifier m 0 r c := by
      intro c; cases m <;> first | rfl | simp at hp
    simp only [evalFrom, ha, hm, ih hp.2]
  | group l m inner rest ihi ihr =>
    intro r
    simp only [pureConds, Bool.and_eq_true] at hp
    have hm : ∀ c, applyModifier m d r c = applyModifier m 0 r c := by
      intro c; cases m <;> first | rfl | simp at hp
    simp only [evalFrom, ihi hp.1.2, hm, ihr hp.2]

/-- **Extent of a conditional traversal** (distance-independent conditions; both algorithms, both directions, node or
edge origin, any graph): the search returns exactly the elements that (a) are reachable from the origin without
passing through an element whose control is `Stop` — a stopped node's edges and a stopped edge's target are not
followed, the sibling edges of a stopped edge still are — and (b) are selected (`C15_selection`). -/
theorem C15_extent (legacy : Bool) (g : Graph) (cs : Conds) (hp : pureConds cs = true)
    (alg : Alg) (V : View) (hwf : V.WF) (o : Int) (ho : 0 < o ∨ 0 < V.target o) (fuel : Nat) (xs : List Int)
    (h : run (gstep false alg V) (defaultH (evalConds legacy g cs)) fuel (gsInit o) () = .ok xs) :
    ∀ x, x ∈ xs ↔
      ReachC V (fun y => (evalConds legacy g cs y 0).kind) o x ∧ (evalConds legacy g cs x 0).val = true := by
  have hK : ∀ x d, (evalConds legacy g cs x d).kind = (evalConds legacy g cs x 0).kind := by
    intro x d; unfold evalConds; rw [evalFrom_pure legacy g x d cs hp]
  have hB : ∀ x d, (evalConds legacy g cs x d).val = (evalConds legacy g cs x 0).val := by
    intro x d; unfold evalConds; rw [evalFrom_pure legacy g x d cs hp]
  have hnf : ∀ x, (evalConds legacy g cs x 0).kind ≠ .finish := fun x => C15_never_finish legacy g cs x 0
  intro x
  constructor
  · intro hx
    refine extent_sound_aux V hwf alg _ _ _ o hK hB fuel (gsInit o) xs h ?_ x hx
    intro si hsi
    simp [gsInit] at hsi; subst hsi
    refine ⟨ReachC.origin, fun hn => ?_, fun _ hd => absurd rfl hd⟩
    rcases ho with h' | h'
    · exact absurd h' hn
    · exact h'
  · rintro ⟨hr, hb⟩
    have hinv : InvC V (fun y => (evalConds legacy g cs y 0).kind) (gsInit o) := by
      refine ⟨by intro n hn; simp [gsInit] at hn, by intro e he; simp [gsInit] at he, ?_, ?_⟩
      · intro si hsi _ hd; simp [gsInit] at hsi; subst hsi; simp at hd
      · intro si hsi hn; simp [gsInit] at hsi; subst hsi
        rcases ho with h' | h'
        · exact absurd h' hn
        · exact h'
    obtain ⟨W, hc, _, hwork, hret⟩ :=
      extent_complete_aux V hwf alg _ _ _ hK hB hnf fuel (gsInit o) xs h hinv
    have hoW : o ∈ W := hwork ⟨o, 0⟩ (by simp [gsInit])
    have hall : ∀ y, ReachC V (fun y => (evalConds legacy g cs y 0).kind) o y → y ∈ W := by
      intro y hy
      induction hy with
      | origin => exact hoW
      | edge _ hn hk he ih => exact hc.1 _ ih hn hk _ he
      | node _ hn hk ih => exact hc.2 _ ih hn hk
    exact hret x (hall x hr) (by simp [gsInit]) hb

/-! ### Comparisons -/

/-- **Type-strict comparisons**: between values of different variants `Equal`, `GreaterThan`, `GreaterThanOrEqual`,
`LessThan`, `LessThanOrEqual` are false and `NotEqual` is true — for all values. -/
theorem C15_type_strict (l r : DbValue) (h : l.kindIdx ≠ r.kindIdx) :
    Comparison.compare ⟨.equal, r⟩ l = false ∧ Comparison.compare ⟨.gt, r⟩ l = false ∧
    Comparison.compare ⟨.ge, r⟩ l = false ∧ Comparison.compare ⟨.lt, r⟩ l = false ∧
    Comparison.compare ⟨.le, r⟩ l = false ∧ Comparison.compare ⟨.notEqual, r⟩ l = true := by
  have hne : l ≠ r := fun e => h (by rw [e])
  have hk : l.sameKind r = false := by simp [DbValue.sameKind, h]
  simp [Comparison.compare, hk, hne]

/-- Within one variant the ordering operators are the variant's own order (`DbValue.cmp`; see
`Lemmas/Order.lean`: a lawful total order — numeric for integers, `total_cmp` for floats, lexicographic otherwise). -/
theorem C15_same_type (l r : DbValue) (h : l.kindIdx = r.kindIdx) :
    Comparison.compare ⟨.gt, r⟩ l = (l.cmp r == .gt) ∧ Comparison.compare ⟨.ge, r⟩ l = (l.cmp r != .lt) ∧
    Comparison.compare ⟨.lt, r⟩ l = (l.cmp r == .lt) ∧ Comparison.compare ⟨.le, r⟩ l = (l.cmp r != .gt) := by
  have hk : l.sameKind r = true := by simp [DbValue.sameKind, h]
  simp [Comparison.compare, hk]

/-- Allowed (left, right) variant pairs of `contains` / `starts_with` / `ends_with`: a string against a string or a
string vector; a vector against its element type or the same vector type. -/
def familyPair (l r : Nat) : Bool :=
  (l == 4 && (r == 4 || r == 8)) || (5 ≤ l && l ≤ 8 && (r == l || r + 4 == l))

/-- **contains / starts_with / ends_with hold only on the documented variant pairs** (never for bytes or scalars
on the left). -/
theorem C15_contains_family (l r : DbValue) :
    (Comparison.compare ⟨.contains, r⟩ l = true → familyPair l.kindIdx r.kindIdx = true) ∧
    (Comparison.compare ⟨.startsWith, r⟩ l = true → familyPair l.kindIdx r.kindIdx = true) ∧
    (Comparison.compare ⟨.endsWith, r⟩ l = true → familyPair l.kindIdx r.kindIdx = true) := by
  refine ⟨?_, ?_, ?_⟩ <;> cases l <;> cases r <;>
    simp [Comparison.compare, containsB, startsWithB, endsWithB, familyPair, DbValue.kindIdx]

/-- …and on those pairs they are: substring / all listed substrings; element / all listed elements;
prefix (of the concatenation, the first element, the vector) and suffix likewise. -/
theorem C15_contains_family_rows (s t : List Nat) (ss ts : List (List Nat)) (v w : List Int) (a : Int) :
    Comparison.compare ⟨.contains, .str t⟩ (.str s) = isInfixB t s ∧
    Comparison.compare ⟨.contains, .vecStr ts⟩ (.str s) = ts.all (fun x => isInfixB x s) ∧
    Comparison.compare ⟨.contains, .i64 a⟩ (.vecI64 v) = v.contains a ∧
    Comparison.compare ⟨.contains, .vecI64 w⟩ (.vecI64 v) = w.all (fun x => v.contains x) ∧
    Comparison.compare ⟨.contains, .str t⟩ (.vecStr ss) = ss.contains t ∧
    Comparison.compare ⟨.startsWith, .str t⟩ (.str s) = t.isPrefixOf s ∧
    Comparison.compare ⟨.startsWith, .vecStr ts⟩ (.str s) = ts.flatten.isPrefixOf s ∧
    Comparison.compare ⟨.startsWith, .i64 a⟩ (.vecI64 v) = [a].isPrefixOf v ∧
    Comparison.compare ⟨.startsWith, .vecI64 w⟩ (.vecI64 v) = w.isPrefixOf v ∧
    Comparison.compare ⟨.startsWith, .str t⟩ (.vecStr ss) = (ss.head? == some t) ∧
    Comparison.compare ⟨.endsWith, .str t⟩ (.str s) = t.isSuffixOf s ∧
    Comparison.compare ⟨.endsWith, .vecStr ts⟩ (.str s) = ts.flatten.isSuffixOf s ∧
    Comparison.compare ⟨.endsWith, .vecI64 w⟩ (.vecI64 v) = w.isSuffixOf v ∧
    Comparison.compare ⟨.endsWith, .str t⟩ (.vecStr ss) = (ss.getLast? == some t) := by
  refine ⟨rfl, rfl, rfl, rfl, rfl, rfl, rfl, rfl, rfl, rfl, rfl, rfl, rfl, rfl⟩

/-- `isInfixB` is "occurs as a contiguous sub-list". -/
theorem isInfixB_iff (p s : List Nat) : isInfixB p s = true ↔ p <:+: s := by
  induction s with
  | nil =>
    simp [isInfixB]
  | cons x xs ih =>
    simp only [isInfixB, Bool.or_eq_true, ih, List.isPrefixOf_iff_prefix, List.infix_cons_iff]

/-- **`distance` conditions** (`CountComparison::compare_distance`): the value is the plain comparison of the
distance; the kind is never `Finish`; and `Stop` is returned only when no greater distance can satisfy the
comparison, i.e. pruning below a stopped element never loses a match. -/
theorem C15_distance (c : CountComparison) (d : Nat) :
    (c.compareDistance d).val = c.compare d ∧
    (c.compareDistance d).kind ≠ .finish ∧
    ((c.compareDistance d).kind = .stop → ∀ d', d < d' → c.compare d' = false) := by
  refine ⟨?_, compareDistance_ne_finish c d, ?_⟩
  · obtain ⟨op, n⟩ := c
    cases op <;> simp only [CountComparison.compareDistance, CountComparison.compare] <;>
      repeat' split
    all_goals simp_all
    all_goals omega
  · obtain ⟨op, n⟩ := c
    cases op <;> simp only [CountComparison.compareDistance, CountComparison.compare] <;>
      repeat' split
    all_goals simp_all
    all_goals (intros; omega)

/-! ### The unchanged code -/

/-- On the unchanged tree `age > 30_i64` selects `age = 5_u64` and `age < 30_i64` selects a byte array
(derived `PartialOrd` orders by variant). -/
theorem C15_cross_type_counterexample :
    Comparison.compareLegacy ⟨.gt, .i64 30⟩ (.u64 5) = true ∧
    Comparison.compareLegacy ⟨.lt, .i64 30⟩ (.bytes [10]) = true := by
  decide

/-- nodes 1, 2 and edge −3: 1→2. -/
def gPair : Graph :=
  let g := Graph.empty.insertNode.2.insertNode.2
  match g.insertEdge 1 2 with
  | .ok (_, g') => g'
  | _ => g

/-- On the unchanged tree the path search evaluates an edge at the distance of the node behind it:
`search().from(1).to(2).where_().distance(NotEqual(1))` lists edge −3 (it is at distance 1); with
proposed_fixes/C15-path-edge-distance.diff it does not, as bfs/dfs and the documentation have it. -/
theorem C15_path_edge_distance_counterexample :
    pathSearch true gPair (evalConds true gPair (.leaf .and .none (.distance ⟨.notEqual, 1⟩) .nil)) 1 2 gPair.fuel
      = .ok [1, -3, 2] ∧
    pathSearch false gPair (evalConds false gPair (.leaf .and .none (.distance ⟨.notEqual, 1⟩) .nil)) 1 2 gPair.fuel
      = .ok [1, 2] ∧
    search false gPair ⟨.bfs, 1, 0, 0, 0, [], .leaf .and .none (.distance ⟨.notEqual, 1⟩) .nil⟩ = .ok [1, 2] := by
  decide

/-! ### Non-vacuity -/

example : Comparison.compare ⟨.gt, .i64 30⟩ (.u64 5) = false := by decide
example : Comparison.compare ⟨.gt, .i64 30⟩ (.i64 31) = true := by decide
example : Comparison.compare ⟨.lt, .f64 0⟩ (.f64 (2 ^ 63)) = true := by decide  -- -0.0 < +0.0 (total_cmp)
example : Comparison.compare ⟨.contains, .vecStr [[97], [99]]⟩ (.str [97, 98, 99]) = true := by decide
example : (CountComparison.compareDistance ⟨.equal, 2⟩ 2) = ⟨.stop, true⟩ := by decide
/-- `node or (not_beyond edge)` on an edge at distance 1: selected value stays false-or-false … -/
example : evalConds false Graph.empty
    (.leaf .and .none .node (.leaf .or .notBeyond .edge .nil)) (-3) 1 = ⟨.cont, false⟩ := by decide
example : evalConds false Graph.empty
    (.leaf .and .none .edge (.leaf .and .notBeyond .edge .nil)) (-3) 1 = ⟨.stop, true⟩ := by decide

end AgdbSearch
