/-
Line-protocol driver for group `search` (protocol: notes/search.md).
`searchmodel` mirrors the tree WITH the proposed fixes; `searchmodel --legacy` mirrors the unchanged tree.
-/
import AgdbSearch.Model.Query
open AgdbSearch

def hexVal (c : Char) : Option Nat :=
  if '0' ≤ c && c ≤ '9' then some (c.toNat - '0'.toNat)
  else if 'a' ≤ c && c ≤ 'f' then some (c.toNat - 'a'.toNat + 10)
  else none

def hexBytes : List Char → Option (List Nat)
  | [] => some []
  | a :: b :: rest => do
    let x ← hexVal a
    let y ← hexVal b
    let r ← hexBytes rest
    pure ((x * 16 + y) :: r)
  | _ => none

def parseHex (s : String) : Option (List Nat) :=
  if s == "_" then some [] else if s.isEmpty then none else hexBytes s.toList

def parseNat? (s : String) : Option Nat :=
  if s.isEmpty || !s.all Char.isDigit then none else s.toNat?

def parseInt? (s : String) : Option Int :=
  if s.startsWith "-" then (parseNat? (s.drop 1).toString).map (fun n => -(Int.ofNat n))
  else (parseNat? s).map Int.ofNat

def parseU64 (s : String) : Option Nat := do
  let n ← parseNat? s
  if n ≤ U64_MAX then some n else none

def parseI64 (s : String) : Option Int := do
  let n ← parseInt? s
  if -(2 ^ 63 : Int) ≤ n && n < (2 ^ 63 : Int) then some n else none

def parseVec {α : Type} (f : String → Option α) (s : String) : Option (List α) :=
  if s == "~" then some [] else (s.splitOn ",").mapM f

def parseValue (s : String) : Option DbValue :=
  match s.splitOn ":" with
  | [tag, body] =>
    match tag with
    | "i" => (parseI64 body).map .i64
    | "u" => (parseU64 body).map .u64
    | "f" => (parseU64 body).map .f64
    | "s" => (parseHex body).map .str
    | "b" => (parseHex body).map .bytes
    | "vi" => (parseVec parseI64 body).map .vecI64
    | "vu" => (parseVec parseU64 body).map .vecU64
    | "vf" => (parseVec parseU64 body).map .vecF64
    | "vs" => (parseVec parseHex body).map .vecStr
    | _ => none
  | _ => none

def parseCountOp : String → Option CountOp
  | "eq" => some .equal | "gt" => some .gt | "ge" => some .ge
  | "lt" => some .lt | "le" => some .le | "ne" => some .notEqual
  | _ => none

def parseCmpOp : String → Option CmpOp
  | "eq" => some .equal | "gt" => some .gt | "ge" => some .ge
  | "lt" => some .lt | "le" => some .le | "ne" => some .notEqual
  | "contains" => some .contains | "starts" => some .startsWith | "ends" => some .endsWith
  | _ => none

def parseLM (s : String) : Option (Logic × Modifier) :=
  match s.toList with
  | [l, m] => do
    let l ← (if l == '&' then some Logic.and else if l == '|' then some Logic.or else none)
    let m ← (if m == '.' then some Modifier.none else if m == '!' then some Modifier.not
      else if m == '>' then some Modifier.beyond else if m == '#' then some Modifier.notBeyond else none)
    pure (l, m)
  | _ => none

def takeN {α : Type} (f : String → Option α) (n : Nat) (toks : List String) : Option (List α × List String) :=
  if toks.length < n then none else do
    let xs ← (toks.take n).mapM f
    pure (xs, toks.drop n)

def parseCount (a b : String) : Option CountComparison := do
  let op ← parseCountOp a
  let n ← parseU64 b
  pure ⟨op, n⟩

/-- Parses `cond*`, stopping at end of input or before a `]`. -/
def parseConds : Nat → List String → Option (Conds × List String)
  | 0, _ => none
  | _ + 1, [] => some (.nil, [])
  | fuel + 1, tok :: rest =>
    if tok == "]" then some (.nil, tok :: rest) else do
      let (l, m) ← parseLM tok
      match rest with
      | "node" :: r => do
        let (cs, r') ← parseConds fuel r
        pure (.leaf l m .node cs, r')
      | "edge" :: r => do
        let (cs, r') ← parseConds fuel r
        pure (.leaf l m .edge cs, r')
      | "dist" :: a :: b :: r => do
        let c ← parseCount a b
        let (cs, r') ← parseConds fuel r
        pure (.leaf l m (.distance c) cs, r')
      | "ec" :: a :: b :: r => do
        let c ← parseCount a b
        let (cs, r') ← parseConds fuel r
        pure (.leaf l m (.edgeCount c) cs, r')
      | "ecf" :: a :: b :: r => do
        let c ← parseCount a b
        let (cs, r') ← parseConds fuel r
        pure (.leaf l m (.edgeCountFrom c) cs, r')
      | "ect" :: a :: b :: r => do
        let c ← parseCount a b
        let (cs, r') ← parseConds fuel r
        pure (.leaf l m (.edgeCountTo c) cs, r')
      | "ids" :: k :: r => do
        let k ← parseNat? k
        let (ids, r1) ← takeN parseI64 k r
        let (cs, r') ← parseConds fuel r1
        pure (.leaf l m (.ids ids) cs, r')
      | "keys" :: k :: r => do
        let k ← parseNat? k
        let (ks, r1) ← takeN parseValue k r
        let (cs, r') ← parseConds fuel r1
        pure (.leaf l m (.keys ks) cs, r')
      | "kv" :: key :: op :: v :: r => do
        let key ← parseValue key
        let op ← parseCmpOp op
        let v ← parseValue v
        let (cs, r') ← parseConds fuel r
        pure (.leaf l m (.keyValue key ⟨op, v⟩) cs, r')
      | "[" :: r => do
        let (inner, r1) ← parseConds fuel r
        match r1 with
        | "]" :: r2 => do
          let (cs, r') ← parseConds fuel r2
          pure (.group l m inner cs, r')
        | _ => none
      | _ => none

def parseOrd (s : String) : Option KeyOrder :=
  if s.startsWith "a:" then (parseValue (s.drop 2).toString).map (fun v => ⟨true, v⟩)
  else if s.startsWith "d:" then (parseValue (s.drop 2).toString).map (fun v => ⟨false, v⟩)
  else none

def parseSearch (toks : List String) : Option SearchQ :=
  match toks with
  | alg :: fr :: to :: lim :: off :: "order" :: k :: rest => do
    let alg ← (match alg with
      | "bfs" => some AlgQ.bfs | "dfs" => some AlgQ.dfs | "elements" => some AlgQ.elements | _ => none)
    let fr ← parseI64 fr
    let to ← parseI64 to
    let lim ← parseU64 lim
    let off ← parseU64 off
    let k ← parseNat? k
    let (ords, r1) ← takeN parseOrd k rest
    match r1 with
    | "where" :: ctoks => do
      let (cs, r2) ← parseConds (ctoks.length + 2) ctoks
      if r2.isEmpty then pure ⟨alg, fr, to, lim, off, ords, cs⟩ else none
    | _ => none
  | _ => none

def showIds (l : List Int) : String :=
  l.foldl (fun acc i => acc ++ " " ++ toString i) "ok"

def showOutcome (o : Outcome (List Int)) : String :=
  match o with
  | .ok l => showIds l
  | .err .notFound => "err:NotFound"
  | .err .invalidIndex => "err:InvalidIndex"
  | .err .other => "err:Other"
  | .panic "SearchQuery::slice" => "panic:search_query.rs"
  | .panic "LimitOffsetHandler::new" => "panic:db_search_handlers.rs"
  | .panic s => "panic:" ++ s
  | .hugeAlloc s => "hugealloc:" ++ s
  | .outOfFuel => "timeout"

def showOrd : Ordering → String
  | .lt => "lt" | .eq => "eq" | .gt => "gt"

def stepLine (legacy : Bool) (g : Graph) (line : String) : Graph × String :=
  let toks := (line.trimAscii.toString.splitOn " ").filter (fun t => !t.isEmpty)
  match toks with
  | ["case", n] => (Graph.empty, "case " ++ n)
  | ["node"] =>
    let (id, g') := g.insertNode
    (g', "ok " ++ toString id)
  | ["edge", a, b] =>
    match parseI64 a, parseI64 b with
    | some a, some b =>
      match g.insertEdge a b with
      | .ok (id, g') => (g', "ok " ++ toString id)
      | .err .invalidIndex => (g, "err:InvalidIndex")
      | _ => (g, "err:NotFound")
    | _, _ => (g, "bad-op")
  | ["remove", x] =>
    match parseI64 x with
    | some x =>
      let (n, g') := g.remove x
      (g', "ok " ++ toString n)
    | none => (g, "bad-op")
  | ["kv", x, k, v] =>
    match parseI64 x, parseValue k, parseValue v with
    | some x, some k, some v =>
      if x == 0 then (g, "bad-op") else
      match g.insertKv x k v with
      | .ok g' => (g', "ok")
      | _ => (g, "err:NotFound")
    | _, _, _ => (g, "bad-op")
  | ["cmp", a, b] =>
    match parseValue a, parseValue b with
    | some a, some b => (g, showOrd (a.cmp b))
    | _, _ => (g, "bad-op")
  | "search" :: rest =>
    match parseSearch rest with
    | some q => if g.wfB then (g, showOutcome (search legacy g q)) else (g, "model-wf-violated")
    | none => (g, "bad-op")
  | _ => (g, "bad-op")

partial def loop (legacy : Bool) (h : IO.FS.Stream) (out : IO.FS.Stream) (g : Graph) : IO Unit := do
  let line ← h.getLine
  if line.isEmpty then pure () else
    let (g', o) := stepLine legacy g line
    out.putStrLn o
    loop legacy h out g'

def main (args : List String) : IO Unit := do
  let stdin ← IO.getStdin
  let stdout ← IO.getStdout
  loop (args.contains "--legacy") stdin stdout Graph.empty
