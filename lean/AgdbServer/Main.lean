import AgdbServer.Model.Path
import AgdbServer.Model.Server
import AgdbServer.Model.Exec

/-! Line-protocol driver `servermodel` (streams: `c26 …`, `req …` for C24/C25, `c31 …`). -/
open AgdbServer AgdbServer.Server AgdbServer.Path

def hexVal (c : Char) : Option Nat :=
  if '0' ≤ c ∧ c ≤ '9' then some (c.toNat - '0'.toNat)
  else if 'a' ≤ c ∧ c ≤ 'f' then some (c.toNat - 'a'.toNat + 10)
  else none

def unhexBytes : List Char → Option (List UInt8)
  | [] => some []
  | a :: b :: rest => do
    let x ← hexVal a
    let y ← hexVal b
    let r ← unhexBytes rest
    pure (UInt8.ofNat (x * 16 + y) :: r)
  | _ => none

/-- hex → UTF-8 decoded name -/
def unhexName (s : String) : Option Str :=
  if s = "-" then some [] else
  match unhexBytes s.toList with
  | none => none
  | some bs =>
    match String.fromUTF8? (ByteArray.mk bs.toArray) with
    | some str => some str.toList
    | none => none

def hexDigit (n : Nat) : Char := "0123456789ABCDEF".toList.getD n '0'

/-- same escaping as the harness (`util::esc`): keep ASCII alphanumerics and . _ / - , else %XX per UTF-8 byte -/
def escStr (s : String) : String :=
  String.ofList (s.toUTF8.toList.flatMap (fun b =>
    let c := Char.ofNat b.toNat
    if c.isAlphanum ∨ c = '.' ∨ c = '_' ∨ c = '/' ∨ c = '-' then [c]
    else ['%', hexDigit (b.toNat / 16), hexDigit (b.toNat % 16)]))

def escName (n : Str) : String := escStr (String.ofList n)

def insertSorted (x : String) : List String → List String
  | [] => [x]
  | y :: ys => if x < y then x :: y :: ys else y :: insertSorted x ys

def sortStrings (l : List String) : List String := l.foldr insertSorted []

/-- the files the model says exist, through the C26 path functions with an empty data dir prefix -/
def listing (s : State) : String :=
  let files := s.stores.flatMap (fun st =>
    (if st.dbFile.isSome then [dbFileS [] st.owner st.name] else []) ++
    (if st.wal then [walFileS [] st.owner st.name] else []) ++
    (if st.bak.isSome then [dbBackupFileS [] st.owner st.name] else []) ++
    (if st.bakAudit.isSome then [dbBackupAuditFileS [] st.owner st.name] else []) ++
    (if st.audit.isSome then [dbAuditFileS [] st.owner st.name] else []))
  ",".intercalate (sortStrings (files.map escName))

def parseKind : String → Option Kind
  | "memory" => some .memory | "mapped" => some .mapped | "file" => some .file | _ => none

def parseRole : String → Option Role
  | "admin" => some .admin | "write" => some .write | "read" => some .read | _ => none

def parseCred (s : String) : Option Cred :=
  if s = "none" then some .none else if s = "junk" then some .junk
  else match s.toList with
    | 't' :: rest => (String.ofList rest).toNat?.map .tok
    | _ => none

def parseRef (s : String) : Option Ref :=
  match s.toList with
  | '@' :: rest => (unhexName (String.ofList rest)).map .alias
  | '#' :: rest => (String.ofList rest).toNat?.map .result
  | _ => none

def parseQuery (s : String) : Option Query :=
  match s.toList with
  | ['c'] => some .selectNodeCount
  | 'n' :: rest => (String.ofList rest).toNat?.map .insertNodes
  | 'a' :: rest => (unhexName (String.ofList rest)).map .insertAliased
  | 'x' :: ':' :: rest => (parseRef (String.ofList rest)).map .remove
  | 'r' :: 'a' :: rest => (unhexName (String.ofList rest)).map .removeAliases
  | 's' :: 'a' :: ':' :: rest => (parseRef (String.ofList rest)).map .selectAliases
  | 's' :: ':' :: rest => (parseRef (String.ofList rest)).map .selectIds
  | _ => none

def parseBatch (s : String) : Option (List Query) :=
  if s = "-" then some [] else (s.splitOn ",").mapM parseQuery

def kindName : Kind → String
  | .memory => "memory" | .mapped => "mapped" | .file => "file"
def roleName : Role → String
  | .admin => "admin" | .write => "write" | .read => "read"

def queryFp : Query → String
  | .insertNodes k => s!"InsertNodes{k}"
  | .insertAliased _ => "InsertNodes1"
  | .remove _ => "Remove"
  | .removeAliases _ => "RemoveAliases"
  | .selectIds _ => "SelectValues"
  | .selectNodeCount => "SelectNodeCount"
  | .selectAliases _ => "SelectAliases"

def bodyStr : Body → String
  | .none => ""
  | .token t => s!" t{t}"
  | .results rs => " r=" ++ ";".intercalate (rs.map (fun r => s!"{r.result}:{r.ids.length}"))
  | .audit a => " audit=" ++ ";".intercalate (a.map (fun r => s!"{escName r.user}:{queryFp r.query}"))
  | .dbs l => " dbs=" ++ ",".intercalate (sortStrings (l.map (fun (o, n, k, r) =>
      s!"{escName o}/{escName n}:{kindName k}:{roleName r}")))
  | .users l => " users=" ++ ",".intercalate (sortStrings (l.map (fun (n, r) => s!"{escName n}:{roleName r}")))
  | .names l => " names=" ++ ",".intercalate (sortStrings (l.map escName))

def respStr (r : Resp) : String := s!"{r.status}{bodyStr r.body}"

/-- `req <route> <cred> args…` -/
def parseReq (t : List String) : Option Req :=
  match t with
  | ["login", n, p] => do pure (.login (← unhexName n) (← unhexName p))
  | ["logout", c, all] => do pure (.logout (← parseCred c) (all = "all"))
  | ["chpw", c, o, n] => do pure (.changePassword (← parseCred c) (← unhexName o) (← unhexName n))
  | ["ustatus", c] => do pure (.userStatus (← parseCred c))
  | ["dbadd", c, o, d, k] => do pure (.dbAdd (← parseCred c) (← unhexName o) (← unhexName d) (← parseKind k))
  | ["dbaudit", c, o, d] => do pure (.dbAudit (← parseCred c) (← unhexName o) (← unhexName d))
  | ["dbbackup", c, o, d] => do pure (.dbBackup (← parseCred c) (← unhexName o) (← unhexName d))
  | ["dbclear", c, o, d, r] => do
    let res ← (match r with | "all" => some Resource.all | "db" => some .db | "audit" => some .audit
                            | "backup" => some .backup | _ => none)
    pure (.dbClear (← parseCred c) (← unhexName o) (← unhexName d) res)
  | ["dbcopy", c, o, d, n] => do pure (.dbCopy (← parseCred c) (← unhexName o) (← unhexName d) (← unhexName n))
  | ["dbdelete", c, o, d] => do pure (.dbDelete (← parseCred c) (← unhexName o) (← unhexName d))
  | ["dbexec", c, o, d, q] => do pure (.dbExec (← parseCred c) (← unhexName o) (← unhexName d) (← parseBatch q))
  | ["dbexecmut", c, o, d, q] => do pure (.dbExecMut (← parseCred c) (← unhexName o) (← unhexName d) (← parseBatch q))
  | ["dblist", c] => do pure (.dbList (← parseCred c))
  | ["dboptimize", c, o, d] => do pure (.dbOptimize (← parseCred c) (← unhexName o) (← unhexName d))
  | ["dbremove", c, o, d] => do pure (.dbRemove (← parseCred c) (← unhexName o) (← unhexName d))
  | ["dbrename", c, o, d, n] => do pure (.dbRename (← parseCred c) (← unhexName o) (← unhexName d) (← unhexName n))
  | ["dbrestore", c, o, d] => do pure (.dbRestore (← parseCred c) (← unhexName o) (← unhexName d))
  | ["dbuseradd", c, o, d, u, r] => do
    pure (.dbUserAdd (← parseCred c) (← unhexName o) (← unhexName d) (← unhexName u) (← parseRole r))
  | ["dbuserlist", c, o, d] => do pure (.dbUserList (← parseCred c) (← unhexName o) (← unhexName d))
  | ["dbuserremove", c, o, d, u] => do
    pure (.dbUserRemove (← parseCred c) (← unhexName o) (← unhexName d) (← unhexName u))
  | ["auseradd", c, n, p] => do pure (.aUserAdd (← parseCred c) (← unhexName n) (← unhexName p))
  | ["auserchpw", c, n, p] => do pure (.aUserChangePassword (← parseCred c) (← unhexName n) (← unhexName p))
  | ["auserdelete", c, n] => do pure (.aUserDelete (← parseCred c) (← unhexName n))
  | ["auserlist", c] => do pure (.aUserList (← parseCred c))
  | ["auserlogout", c, n] => do pure (.aUserLogout (← parseCred c) (← unhexName n))
  | ["alogoutall", c] => do pure (.aLogoutAll (← parseCred c))
  | ["adbadd", c, o, d, k] => do pure (.aDbAdd (← parseCred c) (← unhexName o) (← unhexName d) (← parseKind k))
  | ["adbaudit", c, o, d] => do pure (.aDbAudit (← parseCred c) (← unhexName o) (← unhexName d))
  | ["adbbackup", c, o, d] => do pure (.aDbBackup (← parseCred c) (← unhexName o) (← unhexName d))
  | ["adbclear", c, o, d, r] => do
    let res ← (match r with | "all" => some Resource.all | "db" => some .db | "audit" => some .audit
                            | "backup" => some .backup | _ => none)
    pure (.aDbClear (← parseCred c) (← unhexName o) (← unhexName d) res)
  | ["adbcopy", c, o, d, no, n] => do
    pure (.aDbCopy (← parseCred c) (← unhexName o) (← unhexName d) (← unhexName no) (← unhexName n))
  | ["adbdelete", c, o, d] => do pure (.aDbDelete (← parseCred c) (← unhexName o) (← unhexName d))
  | ["adbexec", c, o, d, q] => do pure (.aDbExec (← parseCred c) (← unhexName o) (← unhexName d) (← parseBatch q))
  | ["adbexecmut", c, o, d, q] => do pure (.aDbExecMut (← parseCred c) (← unhexName o) (← unhexName d) (← parseBatch q))
  | ["adblist", c] => do pure (.aDbList (← parseCred c))
  | ["adboptimize", c, o, d] => do pure (.aDbOptimize (← parseCred c) (← unhexName o) (← unhexName d))
  | ["adbremove", c, o, d] => do pure (.aDbRemove (← parseCred c) (← unhexName o) (← unhexName d))
  | ["adbrename", c, o, d, no, n] => do
    pure (.aDbRename (← parseCred c) (← unhexName o) (← unhexName d) (← unhexName no) (← unhexName n))
  | ["adbrestore", c, o, d] => do pure (.aDbRestore (← parseCred c) (← unhexName o) (← unhexName d))
  | ["adbuseradd", c, o, d, u, r] => do
    pure (.aDbUserAdd (← parseCred c) (← unhexName o) (← unhexName d) (← unhexName u) (← parseRole r))
  | ["adbuserlist", c, o, d] => do pure (.aDbUserList (← parseCred c) (← unhexName o) (← unhexName d))
  | ["adbuserremove", c, o, d, u] => do
    pure (.aDbUserRemove (← parseCred c) (← unhexName o) (← unhexName d) (← unhexName u))
  | _ => none

structure DState where
  s : State
  /-- C26: slot ↦ (user name, token) -/
  slots : List (Nat × Str × Nat) := []

/-- fresh case: a fresh server with the admin logged in (token 1) -/
def freshCase : DState := { s := (step State.init (.login "admin".toList "admin".toList)).1 }

def adminCred : Cred := .tok 1
def c26Password : Str := "password123".toList

def c26Op (d : DState) (t : List String) : DState × String :=
  match t with
  | ["user", slot, name] =>
    match slot.toNat?, unhexName name with
    | some sl, some n =>
      let (s1, r) := step d.s (.aUserAdd adminCred n c26Password)
      if r.status = 201 then
        let tok := s1.nextTok
        let (s2, _) := step s1 (.login n c26Password)
        ({ s := s2, slots := (sl, n, tok) :: d.slots.filter (·.1 ≠ sl) }, "201")
      else ({ d with s := s1 }, s!"{r.status}")
    | _, _ => (d, "bad-op")
  | ["userdel", slot] =>
    match slot.toNat? with
    | none => (d, "bad-op")
    | some sl =>
      match d.slots.find? (·.1 = sl) with
      | none => (d, "nouser")
      | some (_, n, _) =>
        let (s1, r) := step d.s (.aUserDelete adminCred n)
        let slots := if r.status = 204 then d.slots.filter (·.1 ≠ sl) else d.slots
        ({ s := s1, slots }, s!"{r.status} {listing s1}")
  | op :: slot :: rest =>
    match slot.toNat? with
    | none => (d, "bad-op")
    | some sl =>
      match d.slots.find? (·.1 = sl) with
      | none => (d, "nouser")
      | some (_, owner, tok) =>
        let c := Cred.tok tok
        let req : Option Req :=
          match op, rest with
          | "add", [db, k] => do pure (.dbAdd c owner (← unhexName db) (← parseKind k))
          | "mut", [db] => do pure (.dbExecMut c owner (← unhexName db) [.insertNodes 1])
          | "backup", [db] => do pure (.dbBackup c owner (← unhexName db))
          | "restore", [db] => do pure (.dbRestore c owner (← unhexName db))
          | "clear", [db] => do pure (.dbClear c owner (← unhexName db) .all)
          | "delete", [db] => do pure (.dbDelete c owner (← unhexName db))
          | "remove", [db] => do pure (.dbRemove c owner (← unhexName db))
          | "copy", [db, n] => do pure (.dbCopy c owner (← unhexName db) (← unhexName n))
          | "rename", [db, n] => do pure (.dbRename c owner (← unhexName db) (← unhexName n))
          | _, _ => none
        match req with
        | none => (d, "bad-op")
        | some rq =>
          let (s1, r) := step d.s rq
          ({ d with s := s1 }, s!"{r.status} {listing s1}")
  | _ => (d, "bad-op")

def handle (d : DState) (line : String) : DState × String :=
  let t := (line.trimAscii.toString.splitOn " ").filter (· ≠ "")
  match t with
  | ["case", n] => (freshCase, s!"case {n}")
  | "c26" :: rest => c26Op d rest
  | "req" :: rest =>
    match parseReq rest with
    | none => (d, "bad-op")
    | some r =>
      let (s1, resp) := step d.s r
      ({ d with s := s1 }, respStr resp)
  | "c31" :: rest => (d, Exec.c31Line rest)
  | _ => (d, "bad-op")

partial def loop (h : IO.FS.Stream) (out : IO.FS.Stream) (d : DState) : IO Unit := do
  let line ← h.getLine
  if line.isEmpty then return
  let (d', o) := handle d line
  out.putStrLn o
  loop h out d'

def main : IO Unit := do
  let stdin ← IO.getStdin
  let stdout ← IO.getStdout
  loop stdin stdout freshCase
