import AgdbServer.Model.Path
