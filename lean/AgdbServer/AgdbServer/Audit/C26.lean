import AgdbServer.Props.C26
open AgdbServer.Path
#print axioms C26_inside
#print axioms C26_disjoint
#print axioms C26_files_not_dirs
#print axioms C26_owner_dirs_apart
#print axioms C26_rejected
#print axioms C26_rejected_rename
#print axioms C26_only_valid_names_reach_the_pool
#print axioms C26_traversal_counterexample
#print axioms C26_escape_counterexample
#print axioms C26_wal_collision_counterexample
#print axioms C26_reserved_counterexample
#print axioms C26_rollback_temp_counterexample
#print axioms C26_absolute_counterexample
