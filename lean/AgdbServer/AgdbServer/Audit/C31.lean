import AgdbServer.Props.C31
open AgdbServer.Exec
#print axioms C31_once
#print axioms C31_in_order_sequential
#print axioms C31_in_order
#print axioms C31_nodes_agree
#print axioms C31_order_counterexample
#print axioms C31_nodes_diverge_counterexample
#print axioms C31_hook_order_seq
#print axioms C31_hook_order_legacy_example
