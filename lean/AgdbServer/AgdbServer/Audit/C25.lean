import AgdbServer.Props.C25
open AgdbServer.Server
#print axioms C25_batch_atomic
#print axioms C25_batch_all_or_nothing
#print axioms C25_audit
#print axioms C25_kind_table
#print axioms C25_read_batch_pure
#print axioms C25_rename_audit_dir
#print axioms C25_rename_audit_dir_counterexample
