import AgdbServer.Props.C24
open AgdbServer.Server
#print axioms C24_no_effect
#print axioms C24_authenticated
#print axioms C24_admin_only
#print axioms C24_authorized_token
#print axioms C24_read_role_immutable
#print axioms C24_db_admin_only
#print axioms C24_no_role_no_access
#print axioms C24_owner_only
#print axioms C24_revocation_logout
#print axioms C24_revocation_role
#print axioms C24_required_role_table
