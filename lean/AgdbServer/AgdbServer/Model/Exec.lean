/-!
  C31 model: how a node turns committed cluster-log entries into executed actions
  (`agdb_server/src/cluster.rs`, `ClusterStorage::{append, commit, execute_log}`).

  * `append`  : `Storage::append` — the log grows by one entry with the next index.
  * `commit i`: `Storage::commit(i)` — every not yet committed entry with index ≤ i, in index order
                (`logs_uncommitted` sorts by index), is marked committed and handed to `execute_log`.
  * legacy `execute_log` = `tokio::spawn` of one task per entry: the entry joins an unordered pool of
    runnable tasks, the scheduler (`run k`) picks ANY of them.
  * repaired `execute_log` (proposed_fixes/C31-sequential-executor.diff) = push on the queue of the single
    executor task: the scheduler can only run the head of the queue.
-/
namespace AgdbServer.Exec

structure Node where
  /-- number of appended entries; their indices are 1..logLen -/
  logLen : Nat := 0
  /-- highest committed index (entries 1..commitIdx are committed) -/
  commitIdx : Nat := 0
  /-- committed entries handed to `execute_log`, not yet executed (spawn order) -/
  pending : List Nat := []
  /-- executed entries in execution order -/
  executed : List Nat := []
deriving DecidableEq, Repr

inductive Event
  | append
  | commit (index : Nat)
  /-- the scheduler lets the k-th runnable task run to completion -/
  | run (k : Nat)
deriving DecidableEq, Repr

/-- indices `a+1 … a+n` -/
def range1 (a : Nat) : Nat → List Nat
  | 0 => []
  | n + 1 => (a + 1) :: range1 (a + 1) n

/-- `Storage::commit(index)`: the newly committed entries, in index order -/
def newlyCommitted (n : Node) (index : Nat) : List Nat :=
  range1 n.commitIdx (min index n.logLen - n.commitIdx)

def commit (n : Node) (index : Nat) : Node :=
  let newly := newlyCommitted n index
  { n with commitIdx := n.commitIdx + newly.length, pending := n.pending ++ newly }

/-- legacy: any runnable task may run next -/
def stepLegacy (n : Node) : Event → Node
  | .append => { n with logLen := n.logLen + 1 }
  | .commit i => commit n i
  | .run k =>
    match n.pending[k]? with
    | none => n
    | some i => { n with pending := n.pending.eraseIdx k, executed := n.executed ++ [i] }

/-- repaired: one executor task drains a FIFO queue -/
def stepSeq (n : Node) : Event → Node
  | .append => { n with logLen := n.logLen + 1 }
  | .commit i => commit n i
  | .run _ =>
    match n.pending with
    | [] => n
    | i :: rest => { n with pending := rest, executed := n.executed ++ [i] }

def runLegacy (n : Node) (es : List Event) : Node := es.foldl stepLegacy n
def runSeq (n : Node) (es : List Event) : Node := es.foldl stepSeq n

/-! ### the hook experiment (`--verif-exec`): N entries appended, ONE commit, task of entry i is
    delayed by `delays[i-1]` ms before it executes -/

def insertByDelay (x : Nat × Nat) : List (Nat × Nat) → List (Nat × Nat)
  | [] => [x]
  | y :: ys => if x.1 < y.1 then x :: y :: ys else y :: insertByDelay x ys

/-- legacy: tasks finish their delay independently, so execution order = stable order by delay -/
def orderLegacy (delays : List Nat) : List Nat :=
  ((delays.zip (range1 0 delays.length)).foldr insertByDelay []).map (·.2)

/-- repaired: the single executor waits out each entry's delay in turn: log order -/
def orderSeq (delays : List Nat) : List Nat := range1 0 delays.length

def showOrder (l : List Nat) : String := ",".intercalate (l.map toString)

/-- driver: `c31 run <delays comma separated>` → order of the repaired code -/
def c31Line : List String → String
  | ["run", ds] =>
    match (ds.splitOn ",").mapM String.toNat? with
    | some delays => "order=" ++ showOrder (orderSeq delays)
    | none => "bad-op"
  | _ => "bad-op"

end AgdbServer.Exec
