import AgdbServer.Model.Path

/-!
  Abstract model of the agdb server (L6): users, tokens, databases, role grants, the per-database
  on-disk artefacts, and the decision logic + effect of every modelled route.

  Structure (mirrors the code):
  * extractors `UserId` / `AdminId` (`user_id.rs`)                      → `authUser` / `authAdmin`
  * route handlers (`routes/**/*.rs`) up to `cluster.exec(action)`       → `decide : State → Req → Except Nat Action`
  * `Action::exec` (`action/*.rs`, `db_pool.rs`, `server_db.rs`)         → `applyAction`
  * `required_role` (`utilities.rs`)                                     → `requiredRole`
  * `UserDb::exec` / `exec_mut` (`db_pool/user_db.rs`)                   → `execBatch` / `execBatchMut`
  * name validation added by the C26 fix                                 → `Path.validDb` / `validUserName`

  Role lookups (`find_user_db_query`, `user_db_role`, `is_db_admin`) are graph searches over the
  server graph; here the graph is kept in its documented shape: user nodes, db nodes and at most one
  role edge per (user, db) — `grants`.
-/
namespace AgdbServer.Server
open AgdbServer.Path (Str validDb validName)

inductive Role | admin | write | read
deriving DecidableEq, Repr

inductive Kind | memory | mapped | file
deriving DecidableEq, Repr

def Kind.fileBacked : Kind → Bool
  | .memory => false
  | _ => true

/-! ### database content and queries (`QueryType`, 18 kinds) -/

/-- All `agdb::QueryType` variants, in declaration order. -/
inductive QKind
  | insertAlias | insertEdges | insertIndex | insertNodes | insertValues
  | remove | removeAliases | removeIndex | removeValues
  | search | selectAliases | selectAllAliases | selectEdgeCount | selectIndexes
  | selectKeys | selectKeyCount | selectNodeCount | selectValues
deriving DecidableEq, Repr

/-- `required_role`'s per-query classification (the `match` in `utilities.rs`). -/
def QKind.mutating : QKind → Bool
  | .insertAlias | .insertEdges | .insertIndex | .insertNodes | .insertValues
  | .remove | .removeAliases | .removeIndex | .removeValues => true
  | _ => false

/-- `t_exec` accepts exactly these (everything else is "mutable query not allowed"). -/
def QKind.readAllowed : QKind → Bool
  | .search | .selectAliases | .selectAllAliases | .selectEdgeCount | .selectIndexes
  | .selectKeys | .selectKeyCount | .selectNodeCount | .selectValues => true
  | _ => false

/-- `t_exec_mut` sets `do_audit` for exactly these. -/
def QKind.audited : QKind → Bool
  | .insertAlias | .insertEdges | .insertNodes | .insertValues | .remove
  | .insertIndex | .removeAliases | .removeIndex | .removeValues => true
  | _ => false

/-- a reference to an element: alias, or `":N"` = the ids of result N of the same batch -/
inductive Ref
  | alias (a : Str)
  | result (n : Nat)
deriving DecidableEq, Repr

/-- the queries the C24/C25/C26 streams use (a fragment of the query language, each mapped to its
    `QueryType` kind by `Query.kind`) -/
inductive Query
  | insertNodes (count : Nat)                 -- insert().nodes().count(k)
  | insertAliased (alias : Str)               -- insert().nodes().aliases(a)
  | remove (r : Ref)                          -- remove().ids(r)
  | removeAliases (alias : Str)               -- remove().aliases(a)
  | selectIds (r : Ref)                       -- select().ids(r)   (SelectValues)
  | selectNodeCount                           -- select().node_count()
  | selectAliases (r : Ref)                   -- select().aliases().ids(r)
deriving DecidableEq, Repr

def Query.kind : Query → QKind
  | .insertNodes _ => .insertNodes
  | .insertAliased _ => .insertNodes
  | .remove _ => .remove
  | .removeAliases _ => .removeAliases
  | .selectIds _ => .selectValues
  | .selectNodeCount => .selectNodeCount
  | .selectAliases _ => .selectAliases

/-- `utilities::required_role`: `Write` iff some query is mutating. -/
def requiredWrite (qs : List Query) : Bool := qs.any (·.kind.mutating)

/-- graph content: node handles + aliases (edges/values are not needed by the streams) -/
structure Content where
  nodes : List Nat := []
  aliases : List (Str × Nat) := []
  next : Nat := 1
deriving DecidableEq, Repr

/-- one query result: `result` count and the element ids -/
structure QResult where
  result : Int
  ids : List Nat
deriving DecidableEq, Repr

def Content.aliasId (c : Content) (a : Str) : Option Nat := (c.aliases.find? (·.1 = a)).map (·.2)

/-- `inject_results` / `id_or_result` for one reference: `":N"` out of bounds is an error -/
def resolveRef (c : Content) (results : List QResult) : Ref → Except Unit (List Nat)
  | .alias a => match c.aliasId a with
    | some i => .ok [i]
    | none => .error ()            -- "Alias 'a' not found"
  | .result n => match results[n]? with
    | some r => .ok r.ids
    | none => .error ()            -- "Results index out of bounds"

def freshIds (start : Nat) : Nat → List Nat
  | 0 => []
  | k + 1 => start :: freshIds (start + 1) k

/-- one query against the content (`t.exec` / `t.exec_mut` of the real database, abstracted) -/
def execQuery (c : Content) (results : List QResult) : Query → Except Unit (Content × QResult)
  | .insertNodes k =>
    let ids := freshIds c.next k
    .ok ({ c with nodes := c.nodes ++ ids, next := c.next + k }, ⟨k, ids⟩)
  | .insertAliased a =>
    if a = [] then .error () else
    match c.aliasId a with
    | some i => .ok (c, ⟨1, [i]⟩)      -- existing alias: the node is reused, still reported
    | none =>
      .ok ({ nodes := c.nodes ++ [c.next], aliases := c.aliases ++ [(a, c.next)], next := c.next + 1 },
            ⟨1, [c.next]⟩)
  | .remove r =>
    -- `DbImpl::remove`: an unknown alias / id is skipped (`Ok(false)`), only `":N"` injection can fail
    let ids? : Except Unit (List Nat) := match r with
      | .alias a => .ok (c.aliasId a).toList
      | .result n => resolveRef c results (.result n)
    match ids? with
    | .error e => .error e
    | .ok ids =>
      let hit := (ids.eraseDups).filter (c.nodes.contains ·)
      .ok ({ c with nodes := c.nodes.filter (!hit.contains ·),
                    aliases := c.aliases.filter (fun p => !hit.contains p.2) },
            ⟨(hit.length : Int), []⟩)
  | .removeAliases a =>
    match c.aliasId a with
    | some _ => .ok ({ c with aliases := c.aliases.filter (·.1 ≠ a) }, ⟨1, []⟩)
    | none => .ok (c, ⟨0, []⟩)
  | .selectIds r =>
    match resolveRef c results r with
    | .error e => .error e
    | .ok ids => if ids.all (c.nodes.contains ·) then .ok (c, ⟨ids.length, ids⟩) else .error ()
  | .selectNodeCount => .ok (c, ⟨c.nodes.length, []⟩)
  | .selectAliases r =>
    match resolveRef c results r with
    | .error e => .error e
    | .ok ids =>
      if ids.all (fun i => c.aliases.any (·.2 = i)) then .ok (c, ⟨ids.length, ids⟩) else .error ()

/-- an audit record: submitting user + the (already injected) mutating query -/
structure AuditRec where
  user : Str
  query : Query
deriving DecidableEq, Repr

/-- the loop of `UserDb::exec_mut` inside ONE `transaction_mut`: threads the working content, the
    results and the audit vector; any error aborts (the caller discards the working content). -/
def runMut (user : Str) : Content → List QResult → List AuditRec → List Query →
    Except Unit (Content × List QResult × List AuditRec)
  | c, rs, au, [] => .ok (c, rs, au)
  | c, rs, au, q :: qs =>
    match execQuery c rs q with
    | .error e => .error e
    | .ok (c', r) =>
      runMut user c' (rs ++ [r]) (if q.kind.audited then au ++ [⟨user, q⟩] else au) qs

/-- `UserDb::exec_mut`: all-or-nothing — on error the ORIGINAL content is kept (transaction rollback) -/
def execBatchMut (user : Str) (c : Content) (qs : List Query) :
    Except Unit (Content × List QResult × List AuditRec) :=
  runMut user c [] [] qs

/-- `UserDb::exec`: read transaction; a mutating query is an error ("mutable query not allowed") -/
def runRead : Content → List QResult → List Query → Except Unit (List QResult)
  | _, rs, [] => .ok rs
  | c, rs, q :: qs =>
    if !q.kind.readAllowed then .error () else
    match execQuery c rs q with
    | .error e => .error e
    | .ok (_, r) => runRead c (rs ++ [r]) qs

def execBatch (c : Content) (qs : List Query) : Except Unit (List QResult) := runRead c [] qs

/-! ### server state -/

structure User where
  id : Nat
  name : Str
  pwd : Str
deriving DecidableEq, Repr

structure Token where
  tok : Nat
  uid : Nat
  expires : Nat
deriving DecidableEq, Repr

structure Db where
  id : Nat
  owner : Str
  name : Str
  kind : Kind
  /-- in-memory content of a live database (for file-backed kinds always equal to the db file) -/
  content : Content
deriving DecidableEq, Repr

structure Grant where
  uid : Nat
  dbid : Nat
  role : Role
deriving DecidableEq, Repr

/-- what exists on disk for the NAME `owner/name` (survives `remove`, moves with `rename`) -/
structure Store where
  owner : Str
  name : Str
  dbFile : Option Content := none        -- data_dir/owner/name
  wal : Bool := false                    -- data_dir/owner/.name
  bak : Option Content := none           -- data_dir/owner/backups/name.bak
  audit : Option (List AuditRec) := none     -- data_dir/owner/audit/name.log
  bakAudit : Option (List AuditRec) := none  -- data_dir/owner/backups/name.log
deriving DecidableEq, Repr

structure State where
  users : List User
  tokens : List Token := []
  dbs : List Db := []
  grants : List Grant := []
  stores : List Store := []
  nextId : Nat := 2
  nextTok : Nat := 1
  now : Nat := 0
  expiry : Nat := 3600
  adminName : Str := "admin".toList
deriving Repr

/-- fresh server: only the admin user (`server_db::new`), password = name -/
def State.init : State := { users := [⟨1, "admin".toList, "admin".toList⟩] }

/-! ### lookups (`server_db.rs`) -/

def State.userByName (s : State) (n : Str) : Option User := s.users.find? (·.name = n)
def State.userById (s : State) (i : Nat) : Option User := s.users.find? (·.id = i)
def State.dbById (s : State) (i : Nat) : Option Db := s.dbs.find? (·.id = i)

/-- `find_user_db_query(user, owner, db)`: a database the user has a role edge to, with these names -/
def State.findUserDb (s : State) (uid : Nat) (owner db : Str) : Option Db :=
  s.dbs.find? (fun d => d.owner = owner ∧ d.name = db ∧ s.grants.any (fun g => g.uid = uid ∧ g.dbid = d.id))

/-- `user_db_role` -/
def State.roleOf (s : State) (uid dbid : Nat) : Option Role :=
  (s.grants.find? (fun g => g.uid = uid ∧ g.dbid = dbid)).map (·.role)

/-- `is_db_admin` -/
def State.isDbAdmin (s : State) (uid dbid : Nat) : Bool := s.roleOf uid dbid = some .admin

def State.store (s : State) (owner name : Str) : Store :=
  (s.stores.find? (fun x => x.owner = owner ∧ x.name = name)).getD { owner, name }

def State.setStore (s : State) (x : Store) : State :=
  { s with stores := x :: s.stores.filter (fun y => ¬ (y.owner = x.owner ∧ y.name = x.name)) }

def State.setDb (s : State) (d : Db) : State :=
  { s with dbs := s.dbs.map (fun e => if e.id = d.id then d else e) }

/-! ### credentials (`user_id.rs`) -/

inductive Cred
  | none                 -- no / malformed Authorization header
  | tok (t : Nat)        -- the t-th token the server issued
  | junk                 -- a bearer string the server never issued
deriving DecidableEq, Repr

/-- `user_id_from_token`: token exists, not expired → its user -/
def State.authUser (s : State) : Cred → Option Nat
  | .tok t =>
    match s.tokens.find? (·.tok = t) with
    | some k => if k.expires < s.now then none else some k.uid
    | none => none
  | _ => none

/-- `AdminId`: `is_admin(token)` -/
def State.authAdmin (s : State) (c : Cred) : Bool :=
  match s.authUser c with
  | some uid => (s.userById uid).any (·.name = s.adminName)
  | none => false

/-! ### requests -/

inductive Resource | all | db | audit | backup
deriving DecidableEq, Repr

inductive Req
  -- routes/user.rs
  | login (name pwd : Str)
  | logout (c : Cred) (allSessions : Bool)
  | changePassword (c : Cred) (old new : Str)
  | userStatus (c : Cred)
  -- routes/db.rs + routes/db/user.rs
  | dbAdd (c : Cred) (owner db : Str) (kind : Kind)
  | dbAudit (c : Cred) (owner db : Str)
  | dbBackup (c : Cred) (owner db : Str)
  | dbClear (c : Cred) (owner db : Str) (r : Resource)
  | dbCopy (c : Cred) (owner db new : Str)
  | dbDelete (c : Cred) (owner db : Str)
  | dbExec (c : Cred) (owner db : Str) (qs : List Query)
  | dbExecMut (c : Cred) (owner db : Str) (qs : List Query)
  | dbList (c : Cred)
  | dbOptimize (c : Cred) (owner db : Str)
  | dbRemove (c : Cred) (owner db : Str)
  | dbRename (c : Cred) (owner db new : Str)
  | dbRestore (c : Cred) (owner db : Str)
  | dbUserAdd (c : Cred) (owner db user : Str) (role : Role)
  | dbUserList (c : Cred) (owner db : Str)
  | dbUserRemove (c : Cred) (owner db user : Str)
  -- routes/admin/*.rs
  | aUserAdd (c : Cred) (name pwd : Str)
  | aUserChangePassword (c : Cred) (name pwd : Str)
  | aUserDelete (c : Cred) (name : Str)
  | aUserList (c : Cred)
  | aUserLogout (c : Cred) (name : Str)
  | aLogoutAll (c : Cred)
  | aDbAdd (c : Cred) (owner db : Str) (kind : Kind)
  | aDbAudit (c : Cred) (owner db : Str)
  | aDbBackup (c : Cred) (owner db : Str)
  | aDbClear (c : Cred) (owner db : Str) (r : Resource)
  | aDbCopy (c : Cred) (owner db newOwner new : Str)
  | aDbDelete (c : Cred) (owner db : Str)
  | aDbExec (c : Cred) (owner db : Str) (qs : List Query)
  | aDbExecMut (c : Cred) (owner db : Str) (qs : List Query)
  | aDbList (c : Cred)
  | aDbOptimize (c : Cred) (owner db : Str)
  | aDbRemove (c : Cred) (owner db : Str)
  | aDbRename (c : Cred) (owner db newOwner new : Str)
  | aDbRestore (c : Cred) (owner db : Str)
  | aDbUserAdd (c : Cred) (owner db user : Str) (role : Role)
  | aDbUserList (c : Cred) (owner db : Str)
  | aDbUserRemove (c : Cred) (owner db user : Str)
  -- time passes (no request)
  | tick (secs : Nat)
deriving Repr

/-- what a handler hands to `cluster.exec` (`action/*.rs`), or does directly on `ServerDb` -/
inductive Action
  | none                                        -- 2xx without any change (reads, no-op renames)
  | saveToken (uid : Nat)
  | removeToken (t : Nat)
  | removeTokens (uid : Nat)
  | removeAllTokens
  | changePassword (uid : Nat) (pwd : Str)
  | userAdd (name pwd : Str)
  | userDelete (uid : Nat)
  | dbAdd (ownerId : Nat) (owner db : Str) (kind : Kind)
  | dbBackup (dbid : Nat)
  | dbClear (dbid : Nat) (r : Resource)
  | dbCopy (dbid : Nat) (newOwnerId : Nat) (newOwner new : Str)
  | dbDelete (dbid : Nat)
  | dbExec (dbid : Nat) (user : Str) (qs : List Query)
  | dbRemove (dbid : Nat)
  | dbRename (dbid : Nat) (newOwnerId : Nat) (newOwner new : Str)
  | dbRestore (dbid : Nat)
  | dbUserAdd (dbid uid : Nat) (role : Role)
  | dbUserRemove (dbid uid : Nat)
  | advance (secs : Nat)
deriving Repr

/-- canonical response payload -/
inductive Body
  | none
  | token (t : Nat)
  | results (rs : List QResult)
  | audit (a : List AuditRec)
  | dbs (l : List (Str × Str × Kind × Role))
  | users (l : List (Str × Role))
  | names (l : List Str)
deriving Repr

/-- `password::validate_username` after the fix: length ≥ 3 (bytes), then file-name validity -/
def validUserName (utf8Len : Nat) (n : Str) : Except Nat Unit :=
  if utf8Len < 3 then .error 462 else if !validName n then .error 468 else .ok ()

def utf8Len (n : Str) : Nat := (String.ofList n).utf8ByteSize

def findDbOr404 (s : State) (uid : Nat) (owner db : Str) : Except Nat Db :=
  match s.findUserDb uid owner db with
  | some d => .ok d
  | none => .error 404

def userOr404 (s : State) (name : Str) : Except Nat User :=
  match s.userByName name with
  | some u => .ok u
  | none => .error 404

/-- success status of each route -/
def okStatus : Req → Nat
  | .login .. | .userStatus .. | .dbAudit .. | .dbClear .. | .dbExec .. | .dbExecMut .. | .dbList ..
  | .dbOptimize .. | .dbUserList .. | .aUserList .. | .aDbAudit .. | .aDbClear .. | .aDbExec ..
  | .aDbExecMut .. | .aDbList .. | .aDbOptimize .. | .aDbUserList .. | .tick .. => 200
  | .dbDelete .. | .dbRemove .. | .dbUserRemove .. | .aUserDelete .. | .aDbDelete .. | .aDbRemove ..
  | .aDbUserRemove .. => 204
  | _ => 201

/-- the backup a `restore` would use exists (`DbPool::restore_db`: "backup not found" = 404) -/
def State.hasBackup (s : State) (d : Db) : Bool :=
  let st := s.store d.owner d.name
  if d.kind.fileBacked then st.bak.isSome else st.dbFile.isSome

/-- the exec / exec_mut decision shared by user and admin routes -/
def decideExecMut (d : Db) (user : Str) (qs : List Query) : Except Nat Action :=
  if requiredWrite qs then
    match execBatchMut user d.content qs with
    | .ok _ => .ok (.dbExec d.id user qs)
    | .error _ => .error 470
  else
    match execBatch d.content qs with
    | .ok _ => .ok .none
    | .error _ => .error 470

def decideExec (d : Db) (qs : List Query) : Except Nat Action :=
  if requiredWrite qs then .error 403 else
  match execBatch d.content qs with
  | .ok _ => .ok .none
  | .error _ => .error 470

/-- Route handlers up to (and including the failure modes of) the action. `Except.error code`
    = rejected with that status and NO effect. -/
def decide (s : State) : Req → Except Nat Action
  | .tick n => .ok (.advance n)
  | .login name pwd =>
    match s.userByName name with
    | some u => if u.pwd = pwd then .ok (.saveToken u.id) else .error 401
    | none => .error 401
  | .logout c all =>
    match s.authUser c, c with
    | some uid, .tok t => .ok (if all then .removeTokens uid else .removeToken t)
    | _, _ => .error 401
  | .changePassword c old new =>
    match s.authUser c with
    | none => .error 401
    | some uid =>
      match s.userById uid with
      | none => .error 500
      | some u =>
        if u.pwd ≠ old then .error 403
        else if utf8Len new < 8 then .error 461
        else .ok (.changePassword uid new)
  | .userStatus c => if (s.authUser c).isSome then .ok .none else .error 401
  | .dbAdd c owner db kind =>
    match s.authUser c with
    | none => .error 401
    | some uid =>
      if ((s.userById uid).map (·.name)) ≠ some owner then .error 403
      else if !validDb db then .error 467
      else if (s.findUserDb uid owner db).isSome then .error 465
      else .ok (.dbAdd uid owner db kind)
  | .dbAudit c owner db =>
    match s.authUser c with
    | none => .error 401
    | some uid => do let _ ← findDbOr404 s uid owner db; pure .none
  | .dbBackup c owner db =>
    match s.authUser c with
    | none => .error 401
    | some uid => do
      let d ← findDbOr404 s uid owner db
      if !s.isDbAdmin uid d.id then .error 403 else pure (.dbBackup d.id)
  | .dbClear c owner db r =>
    match s.authUser c with
    | none => .error 401
    | some uid => do
      let d ← findDbOr404 s uid owner db
      if !s.isDbAdmin uid d.id then .error 403 else pure (.dbClear d.id r)
  | .dbCopy c owner db new =>
    match s.authUser c with
    | none => .error 401
    | some uid => do
      let d ← findDbOr404 s uid owner db
      match s.userById uid with
      | none => .error 500
      | some u =>
        if !validDb new then .error 467
        else if (s.findUserDb uid u.name new).isSome then .error 465
        else if (s.store u.name new).dbFile.isSome then .error 465
        else pure (.dbCopy d.id uid u.name new)
  | .dbDelete c owner db =>
    match s.authUser c with
    | none => .error 401
    | some uid =>
      if ((s.userById uid).map (·.name)) ≠ some owner then .error 403
      else do let d ← findDbOr404 s uid owner db; pure (.dbDelete d.id)
  | .dbExec c owner db qs =>
    match s.authUser c with
    | none => .error 401
    | some uid => do let d ← findDbOr404 s uid owner db; decideExec d qs
  | .dbExecMut c owner db qs =>
    match s.authUser c with
    | none => .error 401
    | some uid => do
      let d ← findDbOr404 s uid owner db
      match s.roleOf uid d.id, s.userById uid with
      | some .read, _ => .error 403
      | some _, some u => decideExecMut d u.name qs
      | _, _ => .error 500
  | .dbList c => if (s.authUser c).isSome then .ok .none else .error 401
  | .dbOptimize c owner db =>
    match s.authUser c with
    | none => .error 401
    | some uid => do
      let d ← findDbOr404 s uid owner db
      match s.roleOf uid d.id with
      | some .read => .error 403
      | some _ => pure .none
      | none => .error 500
  | .dbRemove c owner db =>
    match s.authUser c with
    | none => .error 401
    | some uid =>
      if ((s.userById uid).map (·.name)) ≠ some owner then .error 403
      else do let d ← findDbOr404 s uid owner db; pure (.dbRemove d.id)
  | .dbRename c owner db new =>
    match s.authUser c with
    | none => .error 401
    | some uid =>
      if ((s.userById uid).map (·.name)) ≠ some owner then .error 403
      else if new = db then .ok .none
      else if !validDb new then .error 467
      else if (s.findUserDb uid owner new).isSome then .error 465
      else do
        let d ← findDbOr404 s uid owner db
        if (s.store owner new).dbFile.isSome then .error 465 else pure (.dbRename d.id uid owner new)
  | .dbRestore c owner db =>
    match s.authUser c with
    | none => .error 401
    | some uid => do
      let d ← findDbOr404 s uid owner db
      if !s.isDbAdmin uid d.id then .error 403
      else if !s.hasBackup d then .error 404
      else pure (.dbRestore d.id)
  | .dbUserAdd c owner db user role =>
    match s.authUser c with
    | none => .error 401
    | some uid =>
      if owner = user then .error 403 else do
      let d ← findDbOr404 s uid owner db
      if !s.isDbAdmin uid d.id then .error 403 else do
      let u ← userOr404 s user
      pure (.dbUserAdd d.id u.id role)
  | .dbUserList c owner db =>
    match s.authUser c with
    | none => .error 401
    | some uid => do let _ ← findDbOr404 s uid owner db; pure .none
  | .dbUserRemove c owner db user =>
    match s.authUser c with
    | none => .error 401
    | some uid =>
      if owner = user then .error 403 else do
      let d ← findDbOr404 s uid owner db
      let u ← userOr404 s user
      if uid ≠ u.id ∧ !s.isDbAdmin uid d.id then .error 403 else pure (.dbUserRemove d.id u.id)
  -- admin routes: `AdminId` first
  | .aUserAdd c name pwd =>
    if !s.authAdmin c then .error 401 else do
    validUserName (utf8Len name) name
    if utf8Len pwd < 8 then .error 461
    else if (s.userByName name).isSome then .error 463
    else pure (.userAdd name pwd)
  | .aUserChangePassword c name pwd =>
    if !s.authAdmin c then .error 401 else do
    let u ← userOr404 s name
    pure (.changePassword u.id pwd)
  | .aUserDelete c name =>
    if !s.authAdmin c then .error 401 else do
    let u ← userOr404 s name
    pure (.userDelete u.id)
  | .aUserList c => if !s.authAdmin c then .error 401 else .ok .none
  | .aUserLogout c name =>
    if !s.authAdmin c then .error 401 else do
    let u ← userOr404 s name
    pure (.removeTokens u.id)
  | .aLogoutAll c => if !s.authAdmin c then .error 401 else .ok .removeAllTokens
  | .aDbAdd c owner db kind =>
    if !s.authAdmin c then .error 401 else do
    let o ← userOr404 s owner
    if !validDb db then .error 467
    else if (s.findUserDb o.id owner db).isSome then .error 465
    else pure (.dbAdd o.id owner db kind)
  | .aDbAudit c owner db =>
    if !s.authAdmin c then .error 401 else do
    let o ← userOr404 s owner
    let _ ← findDbOr404 s o.id owner db
    pure .none
  | .aDbBackup c owner db =>
    if !s.authAdmin c then .error 401 else do
    let o ← userOr404 s owner
    let d ← findDbOr404 s o.id owner db
    pure (.dbBackup d.id)
  | .aDbClear c owner db r =>
    if !s.authAdmin c then .error 401 else do
    let o ← userOr404 s owner
    let d ← findDbOr404 s o.id owner db
    pure (.dbClear d.id r)
  | .aDbCopy c owner db newOwner new =>
    if !s.authAdmin c then .error 401 else do
    let o ← userOr404 s owner
    let d ← findDbOr404 s o.id owner db
    let n ← userOr404 s newOwner
    if !validDb new then .error 467
    else if (s.findUserDb n.id newOwner new).isSome then .error 465
    else if (s.store newOwner new).dbFile.isSome then .error 465
    else pure (.dbCopy d.id n.id newOwner new)
  | .aDbDelete c owner db =>
    if !s.authAdmin c then .error 401 else do
    let o ← userOr404 s owner
    let d ← findDbOr404 s o.id owner db
    pure (.dbDelete d.id)
  | .aDbExec c owner db qs =>
    if !s.authAdmin c then .error 401
    else if requiredWrite qs then .error 403
    else
      match s.dbs.find? (fun d => d.owner = owner ∧ d.name = db) with
      | none => .error 404
      | some d => decideExec d qs
  | .aDbExecMut c owner db qs =>
    if !s.authAdmin c then .error 401 else
    match s.dbs.find? (fun d => d.owner = owner ∧ d.name = db) with
    | none => .error 404
    | some d => decideExecMut d s.adminName qs
  | .aDbList c => if !s.authAdmin c then .error 401 else .ok .none
  | .aDbOptimize c owner db =>
    if !s.authAdmin c then .error 401 else do
    let o ← userOr404 s owner
    let _ ← findDbOr404 s o.id owner db
    pure .none
  | .aDbRemove c owner db =>
    if !s.authAdmin c then .error 401 else do
    let o ← userOr404 s owner
    let d ← findDbOr404 s o.id owner db
    pure (.dbRemove d.id)
  | .aDbRename c owner db newOwner new =>
    if !s.authAdmin c then .error 401 else do
    let o ← userOr404 s owner
    let d ← findDbOr404 s o.id owner db
    if owner = newOwner ∧ db = new then pure .none else do
    let n ← userOr404 s newOwner
    if !validDb new then .error 467
    else if (s.findUserDb n.id newOwner new).isSome then .error 465
    else if (s.store newOwner new).dbFile.isSome then .error 465
    else pure (.dbRename d.id n.id newOwner new)
  | .aDbRestore c owner db =>
    if !s.authAdmin c then .error 401 else do
    let o ← userOr404 s owner
    let d ← findDbOr404 s o.id owner db
    if !s.hasBackup d then .error 404 else pure (.dbRestore d.id)
  | .aDbUserAdd c owner db user role =>
    if !s.authAdmin c then .error 401
    else if owner = user then .error 403 else do
    let o ← userOr404 s owner
    let d ← findDbOr404 s o.id owner db
    let u ← userOr404 s user
    pure (.dbUserAdd d.id u.id role)
  | .aDbUserList c owner db =>
    if !s.authAdmin c then .error 401 else do
    let o ← userOr404 s owner
    let _ ← findDbOr404 s o.id owner db
    pure .none
  | .aDbUserRemove c owner db user =>
    if !s.authAdmin c then .error 401
    else if owner = user then .error 403 else do
    let o ← userOr404 s owner
    let d ← findDbOr404 s o.id owner db
    let u ← userOr404 s user
    pure (.dbUserRemove d.id u.id)

/-! ### effects (`Action::exec`) -/

/-- `insert_db_user`: update the existing role edge or insert one -/
def setGrant (gs : List Grant) (uid dbid : Nat) (role : Role) : List Grant :=
  if gs.any (fun g => g.uid = uid ∧ g.dbid = dbid) then
    gs.map (fun g => if g.uid = uid ∧ g.dbid = dbid then { g with role } else g)
  else gs ++ [⟨uid, dbid, role⟩]

/-- keep the db file of a file-backed database in sync with its content -/
def State.syncFile (s : State) (d : Db) : State :=
  if d.kind.fileBacked then
    s.setStore { s.store d.owner d.name with dbFile := some d.content, wal := true }
  else s

def applyAction (s : State) : Action → State
  | .none => s
  | .advance n => { s with now := s.now + n }
  | .saveToken uid =>
    { s with tokens := s.tokens ++ [⟨s.nextTok, uid, s.now + s.expiry⟩], nextTok := s.nextTok + 1 }
  | .removeToken t => { s with tokens := s.tokens.filter (·.tok ≠ t) }
  | .removeTokens uid => { s with tokens := s.tokens.filter (·.uid ≠ uid) }
  | .removeAllTokens =>
    { s with tokens := s.tokens.filter (fun k => (s.userById k.uid).any (·.name = s.adminName)) }
  | .changePassword uid pwd =>
    { s with users := s.users.map (fun u => if u.id = uid then { u with pwd } else u) }
  | .userAdd name pwd => { s with users := s.users ++ [⟨s.nextId, name, pwd⟩], nextId := s.nextId + 1 }
  | .userDelete uid =>
    match s.userById uid with
    | none => s
    | some u =>
      -- `remove_user`: tokens, the user node, the databases the user owns (by name, with an edge)
      let owned := s.dbs.filter (fun d => d.owner = u.name ∧ s.grants.any (fun g => g.uid = uid ∧ g.dbid = d.id))
      let ownedIds := owned.map (·.id)
      { s with
        users := s.users.filter (·.id ≠ uid),
        tokens := s.tokens.filter (·.uid ≠ uid),
        dbs := s.dbs.filter (fun d => !ownedIds.contains d.id),
        grants := s.grants.filter (fun g => g.uid ≠ uid ∧ !ownedIds.contains g.dbid),
        -- `remove_user_dbs`: remove_dir_all(data_dir/username)
        stores := s.stores.filter (·.owner ≠ u.name) }
  | .dbAdd ownerId owner db kind =>
    let st := s.store owner db
    -- `UserDb::new`: every kind loads the existing file if there is one
    let content := st.dbFile.getD {}
    let d : Db := ⟨s.nextId, owner, db, kind, content⟩
    let s' := { s with dbs := s.dbs ++ [d], grants := s.grants ++ [Grant.mk ownerId s.nextId .admin],
                       nextId := s.nextId + 1 }
    s'.syncFile d
  | .dbBackup dbid =>
    match s.dbById dbid with
    | none => s
    | some d =>
      let st := s.store d.owner d.name
      let st := if d.kind.fileBacked then { st with bak := some d.content }
                else { st with dbFile := some d.content }
      s.setStore { st with bakAudit := st.audit }
  | .dbClear dbid r =>
    match s.dbById dbid with
    | none => s
    | some d =>
      let clearDb := r = .all ∨ r = .db
      let clearAudit := r = .all ∨ r = .audit
      let clearBackup := r = .all ∨ r = .backup
      let d' : Db := if clearDb then { d with content := {} } else d
      let st := s.store d.owner d.name
      let st := if clearDb ∧ d.kind.fileBacked then { st with dbFile := some {}, wal := true } else st
      let st := if clearAudit then { st with audit := none } else st
      let st := if clearBackup then
          (if d.kind.fileBacked then { st with bak := none, bakAudit := none }
           else { st with dbFile := none, bakAudit := none })
        else st
      (s.setDb d').setStore st
  | .dbCopy dbid newOwnerId newOwner new =>
    match s.dbById dbid with
    | none => s
    | some d =>
      let n : Db := ⟨s.nextId, newOwner, new, d.kind, d.content⟩
      let src := s.store d.owner d.name
      let dst := { s.store newOwner new with audit := src.audit }
      let s' := { s with dbs := s.dbs ++ [n], grants := s.grants ++ [Grant.mk newOwnerId s.nextId .admin],
                         nextId := s.nextId + 1 }
      (s'.setStore dst).syncFile n
  | .dbDelete dbid =>
    match s.dbById dbid with
    | none => s
    | some d =>
      { s with dbs := s.dbs.filter (·.id ≠ dbid), grants := s.grants.filter (·.dbid ≠ dbid),
               stores := s.stores.filter (fun x => ¬ (x.owner = d.owner ∧ x.name = d.name)) }
  | .dbExec dbid user qs =>
    match s.dbById dbid with
    | none => s
    | some d =>
      match execBatchMut user d.content qs with
      | .error _ => s
      | .ok (c, _, au) =>
        let d' := { d with content := c }
        let s' := (s.setDb d').syncFile d'
        if au.isEmpty then s'
        else
          let st := s'.store d.owner d.name
          s'.setStore { st with audit := some (st.audit.getD [] ++ au) }
  | .dbRemove dbid =>
    { s with dbs := s.dbs.filter (·.id ≠ dbid), grants := s.grants.filter (·.dbid ≠ dbid) }
  | .dbRename dbid newOwnerId newOwner new =>
    match s.dbById dbid with
    | none => s
    | some d =>
      let old := s.store d.owner d.name
      let d' := { d with owner := newOwner, name := new }
      -- file-backed: the db file, WAL, backup, backup audit and audit move; memory: the (backup)
      -- db file stays under the old name, the rest moves
      let moved : Store :=
        if d.kind.fileBacked then { old with owner := newOwner, name := new }
        else { old with owner := newOwner, name := new, dbFile := none, wal := false }
      let left : Store :=
        if d.kind.fileBacked then { owner := d.owner, name := d.name }
        else { owner := d.owner, name := d.name, dbFile := old.dbFile, wal := old.wal }
      let s1 := ((s.setDb d').setStore left).setStore moved
      if d.owner ≠ newOwner then { s1 with grants := setGrant s1.grants newOwnerId dbid .admin } else s1
  | .dbRestore dbid =>
    match s.dbById dbid with
    | none => s
    | some d =>
      let st := s.store d.owner d.name
      let c := (if d.kind.fileBacked then st.bak else st.dbFile).getD d.content
      let d' := { d with content := c }
      let st := { st with audit := st.bakAudit }
      ((s.setDb d').setStore st).syncFile d'
  | .dbUserAdd dbid uid role => { s with grants := setGrant s.grants uid dbid role }
  | .dbUserRemove dbid uid => { s with grants := s.grants.filter (fun g => ¬ (g.uid = uid ∧ g.dbid = dbid)) }

/-! ### the audit directory (defect found by the C24 stream, `proposed_fixes/C25-rename-audit-dir.diff`)

`DbPool::exec_mut` commits the batch and THEN opens `data_dir/<owner>/audit/<db>.log`; the open fails with
"No such file or directory" (HTTP 500) when the owner's `audit` directory does not exist. `add_db` and `copy_db`
create it; `rename_db` to another owner created only `data_dir/<new_owner>` before the fix. The main model above
mirrors the repaired code (the directory always exists once a database lives under an owner). -/

/-- directories `DbPool::rename_db` creates for a new owner (relative to the data dir) — repaired code -/
def renameCreatesDirs (newOwner : Str) : List Str :=
  [Path.ownerDirS [] newOwner, Path.dbAuditDirS [] newOwner]

/-- the same before the fix -/
def renameCreatesDirsLegacy (newOwner : Str) : List Str := [Path.ownerDirS [] newOwner]

/-- what `DbPool::exec_mut` answers after the transaction of a batch with audit records `au` committed:
    (status, batch applied, batch audited) -/
def execMutAfterCommit (auditDirExists : Bool) (au : List AuditRec) : Nat × Bool × Bool :=
  if au.isEmpty then (200, true, true)          -- nothing to audit, the file is not touched
  else if auditDirExists then (200, true, true)
  else (500, true, false)                        -- `OpenOptions::open` fails after the commit

/-- response payload of a successful request (computed on the state BEFORE the action for reads,
    which do not change it) -/
def respBody (s : State) (r : Req) (a : Action) : Body :=
  let resultsOf (d? : Option Db) (user : Str) (qs : List Query) : Body :=
    match d? with
    | none => .none
    | some d =>
      if requiredWrite qs then
        match execBatchMut user d.content qs with
        | .ok (_, rs, _) => .results rs
        | .error _ => .none
      else match execBatch d.content qs with
        | .ok rs => .results rs
        | .error _ => .none
  let auditOf (owner db : Str) : Body := .audit ((s.store owner db).audit.getD [])
  let usersOf (owner db : Str) : Body :=
    match s.dbs.find? (fun d => d.owner = owner ∧ d.name = db) with
    | none => .none
    | some d => .users ((s.grants.filter (·.dbid = d.id)).filterMap (fun g =>
        (s.userById g.uid).map (fun u => (u.name, g.role))))
  match r, a with
  | .login .., _ => .token s.nextTok
  | .dbExec c owner db qs, _ =>
    resultsOf ((s.authUser c).bind (fun u => s.findUserDb u owner db)) [] qs
  | .dbExecMut c owner db qs, _ =>
    match s.authUser c with
    | some uid => resultsOf (s.findUserDb uid owner db) (((s.userById uid).map (·.name)).getD []) qs
    | none => .none
  | .aDbExec _ owner db qs, _ | .aDbExecMut _ owner db qs, _ =>
    resultsOf (s.dbs.find? (fun d => d.owner = owner ∧ d.name = db)) s.adminName qs
  | .dbAudit _ owner db, _ | .aDbAudit _ owner db, _ => auditOf owner db
  | .dbUserList _ owner db, _ | .aDbUserList _ owner db, _ => usersOf owner db
  | .dbList c, _ =>
    match s.authUser c with
    | some uid => .dbs ((s.grants.filter (·.uid = uid)).filterMap (fun g =>
        (s.dbById g.dbid).map (fun d => (d.owner, d.name, d.kind, g.role))))
    | none => .none
  | .aDbList _, _ => .dbs (s.dbs.map (fun d => (d.owner, d.name, d.kind, Role.admin)))
  | .aUserList _, _ => .names (s.users.map (·.name))
  | _, _ => .none

structure Resp where
  status : Nat
  body : Body
deriving Repr

/-- one request -/
def step (s : State) (r : Req) : State × Resp :=
  match decide s r with
  | .error code => (s, ⟨code, .none⟩)
  | .ok a => (applyAction s a, ⟨okStatus r, respBody s r a⟩)

def run (s : State) : List Req → State
  | [] => s
  | r :: rs => run (step s r).1 rs

end AgdbServer.Server
