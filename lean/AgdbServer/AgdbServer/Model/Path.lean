/-
  C26 model: how `agdb_server/src/db_pool.rs` maps (owner, db) names to file paths.

  Strings are `List Char` (Rust `String`/`PathBuf` bytes; all separators are ASCII so the
  char view and the byte view split identically).

  * `push`      = `PathBuf::push` / `Path::join` on Unix (absolute argument replaces the buffer,
                  otherwise a separator is inserted when the buffer does not end with one).
  * `comps`     = splitting at '/', empty components dropped (what the kernel does).
  * `resolve`   = lexical resolution of "." and ".." (what the kernel does when no symlinks are
                  involved; the server never creates symlinks).
  * `dbFile`, `walFile`, `dbBackupFile`, `dbBackupAuditFile`, `dbAuditFile`, `rollbackTempFile`,
    `rollbackTempAuditFile` mirror the functions of the same names in `db_pool.rs`
    (+ `WriteAheadLog::wal_filename` of `agdb/src/storage/write_ahead_log.rs`).
  * `validName` mirrors the name validation added by `proposed_fixes/C26-db-name-validation.diff`
    (`utilities::validate_name`); the `…Legacy` functions are the code before the fix.
-/
namespace AgdbServer.Path

abbrev Str := List Char

def sep : Char := '/'

/-- `PathBuf::push` (Unix). -/
def push (buf p : Str) : Str :=
  if p.head? = some sep then p
  else if buf ≠ [] ∧ buf.getLast? ≠ some sep then buf ++ sep :: p
  else buf ++ p

/-- Right-to-left splitter. The flag says whether the head component is still "open"
    (no separator seen yet to its left). -/
def compsAux : Str → Bool × List Str
  | [] => (false, [])
  | c :: cs =>
    let r := compsAux cs
    if c = sep then (false, r.2)
    else if r.1 then
      match r.2 with
      | h :: t => (true, (c :: h) :: t)
      | [] => (true, [[c]])
    else (true, [c] :: r.2)

/-- Path components: split at '/', dropping empty components. -/
def comps (s : Str) : List Str := (compsAux s).2

def isAbs (s : Str) : Bool := s.head? = some sep

def dot : Str := ['.']
def dotdot : Str := ['.', '.']

/-- One step of lexical resolution; the stack is kept reversed (top first). -/
def resolveStep (abs : Bool) (st : List Str) (c : Str) : List Str :=
  if c = dot then st
  else if c = dotdot then
    match st with
    | top :: rest => if top = dotdot then c :: st else rest
    | [] => if abs then [] else [c]
  else c :: st

/-- A resolved path: absolute flag + normal components (outermost first). -/
structure RPath where
  abs : Bool
  comps : List Str
deriving DecidableEq, Repr

def resolve (s : Str) : RPath :=
  { abs := isAbs s, comps := ((comps s).foldl (resolveStep (isAbs s)) []).reverse }

/-! ### `db_pool.rs` path functions (string level, exactly as the Rust code builds them) -/

def backupsName : Str := "backups".toList
def auditName : Str := "audit".toList

/-- `Path::new(&config.data_dir).join(owner)` -/
def ownerDirS (dataDir owner : Str) : Str := push dataDir owner
/-- `db_file` -/
def dbFileS (dataDir owner db : Str) : Str := push (push dataDir owner) db
/-- `db_backup_dir` -/
def dbBackupDirS (dataDir owner : Str) : Str := push (push dataDir owner) backupsName
/-- `db_audit_dir` -/
def dbAuditDirS (dataDir owner : Str) : Str := push (push dataDir owner) auditName
/-- `db_backup_file` = `db_backup_dir(owner).join(format!("{db}.bak"))` -/
def dbBackupFileS (dataDir owner db : Str) : Str := push (dbBackupDirS dataDir owner) (db ++ ".bak".toList)
/-- `db_backup_audit_file` -/
def dbBackupAuditFileS (dataDir owner db : Str) : Str := push (dbBackupDirS dataDir owner) (db ++ ".log".toList)
/-- `db_audit_file` -/
def dbAuditFileS (dataDir owner db : Str) : Str := push (dbAuditDirS dataDir owner) (db ++ ".log".toList)
/-- the WAL of a file database as the server names it: `db_file(owner, &format!(".{db}"))`
    (`DbPool::delete_db`, `do_clear_db`) -/
def walFileS (dataDir owner db : Str) : Str := dbFileS dataDir owner ('.' :: db)

/-- position just after the last '/' (0 when there is none): `rfind('/') + 1`. -/
def lastSepEnd : Str → Nat
  | [] => 0
  | c :: cs =>
    if cs.contains sep then 1 + lastSepEnd cs
    else if c = sep then 1 else 0

/-- `WriteAheadLog::wal_filename` (the '\\' branch is unreachable on paths that contain '/'
    and irrelevant on names without '\\'; it is modelled for completeness). -/
def walFilename (filename : Str) : Str :=
  let pos :=
    if filename.contains sep then lastSepEnd filename
    else if filename.contains '\\' then
      -- rfind('\\') + 1
      (filename.length - (filename.reverse.takeWhile (· != '\\')).length)
    else 0
  filename.take pos ++ '.' :: filename.drop pos

/-- the WAL file the storage layer really opens for the database file -/
def walActualS (dataDir owner db : Str) : Str := walFilename (dbFileS dataDir owner db)

/-- rollback temp file after the fix: `db_backup_dir(owner).join(format!(".{db}.tmp"))` -/
def rollbackTempFileS (dataDir owner db : Str) : Str :=
  push (dbBackupDirS dataDir owner) ('.' :: db ++ ".tmp".toList)
/-- rollback temp audit file after the fix: `db_backup_dir(owner).join(format!(".{db}.audit"))` -/
def rollbackTempAuditFileS (dataDir owner db : Str) : Str :=
  push (dbBackupDirS dataDir owner) ('.' :: db ++ ".audit".toList)

/-- legacy rollback temp: `db_backup_dir(owner).join(db)` -/
def rollbackTempFileLegacyS (dataDir owner db : Str) : Str := push (dbBackupDirS dataDir owner) db
/-- legacy rollback temp audit: `db_backup_dir(owner).join(format!("{db}.audit"))` -/
def rollbackTempAuditFileLegacyS (dataDir owner db : Str) : Str :=
  push (dbBackupDirS dataDir owner) (db ++ ".audit".toList)

/-- Every file the server creates, overwrites or deletes for database `owner/db` (repaired code). -/
def filesS (dataDir owner db : Str) : List Str :=
  [ dbFileS dataDir owner db, walFileS dataDir owner db, walActualS dataDir owner db,
    dbBackupFileS dataDir owner db, dbBackupAuditFileS dataDir owner db,
    dbAuditFileS dataDir owner db,
    rollbackTempFileS dataDir owner db, rollbackTempAuditFileS dataDir owner db ]

/-- Same for the code before the fix. -/
def filesLegacyS (dataDir owner db : Str) : List Str :=
  [ dbFileS dataDir owner db, walFileS dataDir owner db, walActualS dataDir owner db,
    dbBackupFileS dataDir owner db, dbBackupAuditFileS dataDir owner db,
    dbAuditFileS dataDir owner db,
    rollbackTempFileLegacyS dataDir owner db, rollbackTempAuditFileLegacyS dataDir owner db ]

def files (dataDir owner db : Str) : List RPath := (filesS dataDir owner db).map resolve
def filesLegacy (dataDir owner db : Str) : List RPath := (filesLegacyS dataDir owner db).map resolve

/-- Directories the server creates inside an owner directory. -/
def dirs (dataDir owner : Str) : List RPath :=
  [resolve (dbBackupDirS dataDir owner), resolve (dbAuditDirS dataDir owner)]

def ownerDir (dataDir owner : Str) : RPath := resolve (ownerDirS dataDir owner)

/-! ### name validation (`utilities::validate_name`, added by the fix) -/

/-- characters never allowed in a name: `c == '/' || c == backslash || c.is_control()` (Unicode Cc = U+0000–U+001F, U+007F–U+009F) -/
def badChar (c : Char) : Bool :=
  c = '/' || c = '\\' || c.toNat < 32 || (127 ≤ c.toNat && c.toNat ≤ 159)

/-- common part: non-empty, no separators / control characters, no leading '.' -/
def validName (n : Str) : Bool :=
  match n with
  | [] => false
  | c :: _ => c != '.' && !n.any badChar

/-- reserved database names (sub-directories of the owner directory) -/
def reservedDb (n : Str) : Bool := n = backupsName || n = auditName

/-- `validate_db_name` -/
def validDb (n : Str) : Bool := validName n && !reservedDb n

/-- `validate_username` file-name part (the length ≥ 3 rule is kept separately in the server model) -/
def validOwner (n : Str) : Bool := validName n

/-- the validation before the fix: none -/
def validDbLegacy (_ : Str) : Bool := true

end AgdbServer.Path
