import AgdbServer.Lemmas.Path

/-! C26 helper lemmas: the file set of a database in closed form (`tails`) and a decoder that
    recovers (owner, db) from any of its files — which is what makes file sets disjoint. -/
namespace AgdbServer.Path

/-- facts extracted from `validName n = true` -/
structure VName (n : Str) : Prop where
  ne : n ≠ []
  nosep : sep ∉ n
  nodot : n.head? ≠ some '.'

theorem VName.of_valid {n : Str} (h : validName n = true) : VName n := by
  cases n with
  | nil => simp [validName] at h
  | cons c cs =>
    simp only [validName, Bool.and_eq_true, bne_iff_ne, ne_eq, Bool.not_eq_true',
      List.any_eq_false] at h
    refine ⟨by simp, ?_, by simpa using h.1⟩
    intro hm
    have := h.2 sep hm
    simp [badChar, sep] at this

theorem validDb_name {n : Str} (h : validDb n = true) : validName n = true := by
  simp only [validDb, Bool.and_eq_true] at h; exact h.1

theorem validDb_not_reserved {n : Str} (h : validDb n = true) : n ≠ backupsName ∧ n ≠ auditName := by
  simp only [validDb, reservedDb, Bool.and_eq_true, Bool.not_eq_true', Bool.or_eq_false_iff,
    decide_eq_false_iff_not] at h
  exact h.2

theorem VName.plain {n : Str} (h : VName n) : Plain n := by
  refine ⟨h.ne, h.nosep, ?_, ?_⟩
  · intro e; apply h.nodot; rw [e]; rfl
  · intro e; apply h.nodot; rw [e]; rfl

theorem VName.plain_dotted {n : Str} (h : VName n) (s : Str) (hs : sep ∉ s) : Plain ('.' :: n ++ s) := by
  obtain ⟨hne, hsep, hd⟩ := h
  cases n with
  | nil => exact absurd rfl hne
  | cons c cs =>
    have hc : c ≠ '.' := by simpa using hd
    refine ⟨by simp, ?_, ?_, ?_⟩
    · intro hm
      simp only [List.cons_append, List.mem_cons, List.mem_append] at hm
      rcases hm with h | h | h | h
      · simp [sep] at h
      · exact hsep (by simp [h])
      · exact hsep (by simp [h])
      · exact hs h
    · simp [dot]
    · simp only [dotdot, List.cons_append, ne_eq, List.cons.injEq, true_and, not_and]
      intro h; exact absurd h hc

theorem VName.plain_suffixed {n : Str} (h : VName n) (s : Str) (hs : sep ∉ s) (hl : 2 ≤ s.length) :
    Plain (n ++ s) := by
  refine ⟨by simp [h.ne], ?_, ?_, ?_⟩
  · intro hm
    rcases List.mem_append.mp hm with h' | h'
    · exact h.nosep h'
    · exact hs h'
  · intro e
    have := congrArg List.length e
    have hn : 0 < n.length := List.length_pos_iff.mpr h.ne
    simp [dot] at this; omega
  · intro e
    have := congrArg List.length e
    have hn : 0 < n.length := List.length_pos_iff.mpr h.ne
    simp [dotdot] at this; omega

def sBak : Str := ".bak".toList
def sLog : Str := ".log".toList
def sTmp : Str := ".tmp".toList
def sAudit : Str := ".audit".toList

/-- the files of `owner/db` relative to the resolved data directory -/
def tails (o d : Str) : List (List Str) :=
  [ [o, d], [o, '.' :: d], [o, '.' :: d],
    [o, backupsName, d ++ sBak], [o, backupsName, d ++ sLog], [o, auditName, d ++ sLog],
    [o, backupsName, '.' :: d ++ sTmp], [o, backupsName, '.' :: d ++ sAudit] ]

def under (D : Str) (t : List Str) : RPath := ⟨(resolve D).abs, (resolve D).comps ++ t⟩

theorem plain_backups : Plain backupsName := by
  refine ⟨by decide, by decide, by decide, by decide⟩
theorem plain_audit : Plain auditName := by
  refine ⟨by decide, by decide, by decide, by decide⟩

theorem resolve3 (D a b c : Str) (ha : Plain a) (hb : Plain b) (hc : Plain c) :
    resolve (push (push (push D a) b) c) = under D [a, b, c] := by
  rw [resolve_push_plain _ _ hc, resolve_push_plain _ _ hb, resolve_push_plain _ _ ha]
  simp [RPath.child, under]

theorem resolve2 (D a b : Str) (ha : Plain a) (hb : Plain b) :
    resolve (push (push D a) b) = under D [a, b] := by
  rw [resolve_push_plain _ _ hb, resolve_push_plain _ _ ha]
  simp [RPath.child, under]

theorem resolve1 (D a : Str) (ha : Plain a) : resolve (push D a) = under D [a] := by
  rw [resolve_push_plain _ _ ha]
  simp [RPath.child, under]

/-- under valid names the WAL the storage layer opens is the one the server deletes -/
theorem wal_agree (D o d : Str) (ho : VName o) (hd : VName d) :
    walActualS D o d = walFileS D o d := by
  unfold walActualS walFileS dbFileS
  obtain ⟨a, h1, _, _⟩ := push_form (push D o) (push_ne_nil D o ho.ne)
  have hd1 : d.head? ≠ some sep := hd.plain.head
  have hd2 : ('.' :: d).head? ≠ some sep := by simp [sep]
  rw [h1 d hd1, h1 _ hd2, walFilename_append a d hd.nosep]

theorem nosep_sBak : sep ∉ sBak := by decide
theorem nosep_sLog : sep ∉ sLog := by decide
theorem nosep_sTmp : sep ∉ sTmp := by decide
theorem nosep_sAudit : sep ∉ sAudit := by decide

theorem files_eq (D o d : Str) (ho : VName o) (hd : VName d) :
    files D o d = (tails o d).map (under D) := by
  have po := ho.plain
  have pd := hd.plain
  have pdot : Plain ('.' :: d) := by simpa using hd.plain_dotted [] (by simp)
  have pbak := hd.plain_suffixed sBak nosep_sBak (by decide)
  have plog := hd.plain_suffixed sLog nosep_sLog (by decide)
  have ptmp := hd.plain_dotted sTmp nosep_sTmp
  have paud := hd.plain_dotted sAudit nosep_sAudit
  simp only [files, filesS, wal_agree D o d ho hd, List.map_cons, List.map_nil, tails]
  simp only [dbFileS, walFileS, dbBackupFileS, dbBackupAuditFileS, dbAuditFileS, rollbackTempFileS,
    rollbackTempAuditFileS, dbBackupDirS, dbAuditDirS]
  have e1 : (".bak".toList : Str) = sBak := rfl
  have e2 : (".log".toList : Str) = sLog := rfl
  have e3 : (".tmp".toList : Str) = sTmp := rfl
  have e4 : (".audit".toList : Str) = sAudit := rfl
  rw [e1, e2, e3, e4]
  rw [resolve2 D o d po pd, resolve2 D o _ po pdot,
    resolve3 D o _ _ po plain_backups pbak, resolve3 D o _ _ po plain_backups plog,
    resolve3 D o _ _ po plain_audit plog]
  rw [resolve3 D o _ _ po plain_backups ptmp, resolve3 D o _ _ po plain_backups paud]

theorem dirs_eq (D o : Str) (ho : VName o) :
    dirs D o = [under D [o, backupsName], under D [o, auditName]] := by
  simp only [dirs, dbBackupDirS, dbAuditDirS]
  rw [resolve2 D o _ ho.plain plain_backups, resolve2 D o _ ho.plain plain_audit]

theorem ownerDir_eq (D o : Str) (ho : VName o) : ownerDir D o = under D [o] := by
  simp only [ownerDir, ownerDirS]
  exact resolve1 D o ho.plain

/-! ### decoding a file back to its database -/

def stripLast (k : Nat) (x : Str) : Str := x.take (x.length - k)

def decode : List Str → Option (Str × Str)
  | [o, x] => if x.head? = some '.' then some (o, x.tail) else some (o, x)
  | [o, _, x] =>
    if x.head? = some '.' then
      (if x.getLast? = some 'p' then some (o, stripLast 4 x.tail) else some (o, stripLast 6 x.tail))
    else some (o, stripLast 4 x)
  | _ => none

theorem stripLast_append (d s : Str) : stripLast s.length (d ++ s) = d := by
  unfold stripLast
  apply List.take_left'
  simp

theorem head_append_of_ne {d s : Str} (h : d ≠ []) : (d ++ s).head? = d.head? := by
  cases d with
  | nil => exact absurd rfl h
  | cons c cs => rfl

theorem decode_tails (o d : Str) (hd : VName d) : ∀ t ∈ tails o d, decode t = some (o, d) := by
  intro t ht
  have hh := hd.nodot
  have h4b : stripLast 4 (d ++ sBak) = d := stripLast_append d sBak
  have h4l : stripLast 4 (d ++ sLog) = d := stripLast_append d sLog
  have h4t : stripLast 4 (d ++ sTmp) = d := stripLast_append d sTmp
  have h6a : stripLast 6 (d ++ sAudit) = d := stripLast_append d sAudit
  simp only [tails, List.mem_cons, List.not_mem_nil, or_false] at ht
  rcases ht with rfl | rfl | rfl | rfl | rfl | rfl | rfl | rfl
  · simp [decode, hh]
  · simp [decode]
  · simp [decode]
  · simp [decode, head_append_of_ne hd.ne, hh, h4b]
  · simp [decode, head_append_of_ne hd.ne, hh, h4l]
  · simp [decode, head_append_of_ne hd.ne, hh, h4l]
  · have : ('.' :: (d ++ sTmp)).getLast? = some 'p' := by
      rw [← List.cons_append, List.getLast?_append]; simp [sTmp]
    simp only [decode, List.cons_append, List.head?_cons, if_true, List.tail_cons]
    rw [if_pos this, h4t]
  · have : ¬ ('.' :: (d ++ sAudit)).getLast? = some 'p' := by
      rw [← List.cons_append, List.getLast?_append]; simp [sAudit]
    simp only [decode, List.cons_append, List.head?_cons, if_true, List.tail_cons]
    rw [if_neg this, h6a]

theorem under_inj (D : Str) (t1 t2 : List Str) (h : under D t1 = under D t2) : t1 = t2 := by
  simp only [under, RPath.mk.injEq, true_and] at h
  exact List.append_cancel_left h

end AgdbServer.Path
