import AgdbServer.Model.Path

/-! Helper lemmas for C26 (path algebra). Core only. -/
namespace AgdbServer.Path

/-- a plain component: non-empty, separator free, not "." / ".." -/
def Plain (n : Str) : Prop := n ≠ [] ∧ sep ∉ n ∧ n ≠ dot ∧ n ≠ dotdot

theorem compsAux_open_ne_nil (s : Str) : (compsAux s).1 = true → (compsAux s).2 ≠ [] := by
  induction s with
  | nil => simp [compsAux]
  | cons c cs ih =>
    simp only [compsAux]
    split
    · simp
    · split
      · split <;> simp
      · simp

theorem compsAux_append_sep (a b : Str) :
    compsAux (a ++ sep :: b) = ((compsAux a).1, (compsAux a).2 ++ comps b) := by
  induction a with
  | nil => simp [compsAux, comps]
  | cons c a ih =>
    have hne := compsAux_open_ne_nil a
    simp only [List.cons_append, compsAux, ih]
    by_cases hc : c = sep
    · simp [hc]
    · simp only [hc, if_false]
      cases h1 : (compsAux a).1 with
      | false => simp
      | true =>
        simp only [if_true]
        have := hne h1
        cases h2 : (compsAux a).2 with
        | nil => exact absurd h2 this
        | cons h t => simp

theorem comps_append_sep (a b : Str) : comps (a ++ sep :: b) = comps a ++ comps b := by
  simp [comps, compsAux_append_sep]

theorem compsAux_sepfree (s : Str) (hne : s ≠ []) (hs : sep ∉ s) : compsAux s = (true, [s]) := by
  induction s with
  | nil => exact absurd rfl hne
  | cons c cs ih =>
    have hc : c ≠ sep := fun h => hs (by simp [h])
    have hcs : sep ∉ cs := fun h => hs (by simp [h])
    by_cases hn : cs = []
    · subst hn; simp [compsAux, hc]
    · have := ih hn hcs
      rw [compsAux, this]
      simp [hc]

theorem comps_sepfree (s : Str) (hne : s ≠ []) (hs : sep ∉ s) : comps s = [s] := by
  simp [comps, compsAux_sepfree s hne hs]

theorem comps_nil : comps [] = [] := rfl

/-- shape of `push` for an argument that does not start with a separator -/
theorem push_form (buf : Str) (hb : buf ≠ []) :
    ∃ a, (∀ q : Str, q.head? ≠ some sep → push buf q = a ++ sep :: q) ∧ comps a = comps buf ∧
      isAbs (a ++ [sep]) = isAbs buf := by
  by_cases hl : buf.getLast? = some sep
  · -- buf = a ++ [sep]
    obtain ⟨a, rfl⟩ : ∃ a, buf = a ++ [sep] := List.getLast?_eq_some_iff.mp hl
    refine ⟨a, ?_, ?_, rfl⟩
    · intro q hq
      simp [push, hq]
    · have := comps_append_sep a []
      simpa [comps_nil] using this.symm
  · refine ⟨buf, ?_, rfl, ?_⟩
    · intro q hq
      simp [push, hq, hb, hl]
    · cases buf with
      | nil => exact absurd rfl hb
      | cons c cs => simp [isAbs]

theorem comps_push (buf q : Str) (hq : q.head? ≠ some sep) :
    comps (push buf q) = comps buf ++ comps q := by
  by_cases hb : buf = []
  · subst hb; simp [push, hq, comps_nil]
  · obtain ⟨a, h1, h2, _⟩ := push_form buf hb
    rw [h1 q hq, comps_append_sep, h2]

theorem isAbs_push (buf q : Str) (hq : q.head? ≠ some sep) : isAbs (push buf q) = isAbs buf := by
  by_cases hb : buf = []
  · subst hb
    simp only [push, hq, if_false, List.nil_append]
    cases q with
    | nil => simp [isAbs]
    | cons c cs =>
      have : c ≠ sep := by simpa using hq
      simp [isAbs, this]
  · obtain ⟨a, h1, _, h3⟩ := push_form buf hb
    rw [h1 q hq, ← h3]
    cases a <;> simp [isAbs]

theorem Plain.head {n : Str} (h : Plain n) : n.head? ≠ some sep := by
  obtain ⟨hne, hs, _, _⟩ := h
  cases n with
  | nil => exact absurd rfl hne
  | cons c cs =>
    intro hc
    apply hs
    have : c = sep := by simpa using hc
    simp [this]

/-- append a plain component to a resolved path -/
def RPath.child (r : RPath) (n : Str) : RPath := { r with comps := r.comps ++ [n] }

theorem resolve_push_plain (buf n : Str) (h : Plain n) :
    resolve (push buf n) = (resolve buf).child n := by
  have hh := h.head
  obtain ⟨hne, hs, hd, hdd⟩ := h
  simp only [resolve, RPath.child, isAbs_push buf n hh, comps_push buf n hh,
    comps_sepfree n hne hs, List.foldl_append, List.foldl_cons, List.foldl_nil]
  simp [resolveStep, hd, hdd]

theorem push_ne_nil (buf n : Str) (hn : n ≠ []) : push buf n ≠ [] := by
  unfold push
  split
  · exact hn
  · split <;> simp [hn]

/-! ### `wal_filename` -/

theorem contains_sep_append (a b : Str) : (a ++ sep :: b).contains sep = true := by
  simp

theorem lastSepEnd_append (a b : Str) (hb : sep ∉ b) : lastSepEnd (a ++ sep :: b) = a.length + 1 := by
  induction a with
  | nil =>
    simp [lastSepEnd, hb]
  | cons c a ih =>
    simp only [List.cons_append, lastSepEnd, contains_sep_append, if_true, ih, List.length_cons]
    omega

theorem walFilename_append (a b : Str) (hb : sep ∉ b) :
    walFilename (a ++ sep :: b) = a ++ sep :: '.' :: b := by
  unfold walFilename
  simp only [contains_sep_append, if_true, lastSepEnd_append a b hb]
  have h1 : List.take (a.length + 1) (a ++ sep :: b) = a ++ [sep] := by
    have : a ++ sep :: b = (a ++ [sep]) ++ b := by simp
    rw [this]
    exact List.take_left' (by simp)
  have h2 : List.drop (a.length + 1) (a ++ sep :: b) = b := by
    have : a ++ sep :: b = (a ++ [sep]) ++ b := by simp
    rw [this]
    exact List.drop_left' (by simp)
  rw [h1, h2]
  simp

end AgdbServer.Path
