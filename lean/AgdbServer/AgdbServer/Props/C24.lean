import AgdbServer.Model.Server

/-!
# C24 — the server enforces authentication and per-database permissions

`step : State → Req → State × Resp` is the model of one request (42 routes; `decide` = handler
decision logic in the order of the Rust code, `applyAction` = the action's effect). Theorems are over
ALL states (no invariant needed unless stated), all requests, all credentials.
-/
namespace AgdbServer.Server
open AgdbServer.Path (Str)

/-- the credential a request presents (`login` carries name/password instead, `tick` is no request) -/
def Req.cred : Req → Option Cred
  | .login .. | .tick .. => none
  | .logout c _ | .changePassword c .. | .userStatus c | .dbAdd c .. | .dbAudit c .. | .dbBackup c ..
  | .dbClear c .. | .dbCopy c .. | .dbDelete c .. | .dbExec c .. | .dbExecMut c .. | .dbList c
  | .dbOptimize c .. | .dbRemove c .. | .dbRename c .. | .dbRestore c .. | .dbUserAdd c ..
  | .dbUserList c .. | .dbUserRemove c .. | .aUserAdd c .. | .aUserChangePassword c .. | .aUserDelete c ..
  | .aUserList c | .aUserLogout c .. | .aLogoutAll c | .aDbAdd c .. | .aDbAudit c .. | .aDbBackup c ..
  | .aDbClear c .. | .aDbCopy c .. | .aDbDelete c .. | .aDbExec c .. | .aDbExecMut c .. | .aDbList c
  | .aDbOptimize c .. | .aDbRemove c .. | .aDbRename c .. | .aDbRestore c .. | .aDbUserAdd c ..
  | .aDbUserList c .. | .aDbUserRemove c .. => some c

/-- routes behind the `AdminId` extractor -/
def Req.isAdminRoute : Req → Bool
  | .aUserAdd .. | .aUserChangePassword .. | .aUserDelete .. | .aUserList .. | .aUserLogout ..
  | .aLogoutAll .. | .aDbAdd .. | .aDbAudit .. | .aDbBackup .. | .aDbClear .. | .aDbCopy ..
  | .aDbDelete .. | .aDbExec .. | .aDbExecMut .. | .aDbList .. | .aDbOptimize .. | .aDbRemove ..
  | .aDbRename .. | .aDbRestore .. | .aDbUserAdd .. | .aDbUserList .. | .aDbUserRemove .. => true
  | _ => false

theorem authAdmin_false_of_authUser_none {s : State} {c : Cred} (h : s.authUser c = none) :
    s.authAdmin c = false := by simp [State.authAdmin, h]

/-- **C24_no_effect**: a rejected request (any 4xx/5xx answer) leaves the server state untouched. -/
theorem C24_no_effect (s : State) (r : Req) (h : 400 ≤ (step s r).2.status) : (step s r).1 = s := by
  cases hd : decide s r with
  | error code => simp [step, hd]
  | ok a =>
    simp only [step, hd] at h
    have : okStatus r < 400 := by cases r <;> simp [okStatus]
    omega

/-- **C24_authenticated** (first half of C24_authorized): whatever the route, a request whose
    credential is missing, was never issued, was logged out or has expired (`authUser = none`) is
    answered 401 and changes nothing. -/
theorem C24_authenticated (s : State) (r : Req) (c : Cred) (hc : r.cred = some c)
    (h : s.authUser c = none) : step s r = (s, ⟨401, .none⟩) := by
  have ha := authAdmin_false_of_authUser_none h
  cases r <;> simp only [Req.cred, Option.some.injEq, reduceCtorEq] at hc <;> subst hc <;>
    simp [step, decide, h, ha]

/-- **C24_admin_only**: every admin route is refused (401, no effect) unless the token belongs to the
    server admin. -/
theorem C24_admin_only (s : State) (r : Req) (c : Cred) (hr : r.isAdminRoute = true)
    (hc : r.cred = some c) (h : s.authAdmin c = false) : step s r = (s, ⟨401, .none⟩) := by
  cases r <;> simp only [Req.isAdminRoute, Bool.false_eq_true] at hr <;>
    simp only [Req.cred, Option.some.injEq] at hc <;> subst hc <;> simp [step, decide, h]

/-- a performed request (2xx) therefore always carried a valid token, and on admin routes the admin's -/
theorem C24_authorized_token (s : State) (r : Req) (c : Cred) (hc : r.cred = some c)
    (hp : (step s r).2.status < 300) :
    (s.authUser c).isSome ∧ (r.isAdminRoute = true → s.authAdmin c = true) := by
  constructor
  · cases h : s.authUser c with
    | some _ => rfl
    | none => rw [C24_authenticated s r c hc h] at hp; simp at hp
  · intro hr
    cases h : s.authAdmin c with
    | true => rfl
    | false => rw [C24_admin_only s r c hr hc h] at hp; simp at hp

/-- **C24_read_role_immutable**: a caller whose role on the database is `read` cannot run a batch
    through `exec_mut` at all — 403 and the state (content, audit, everything) is unchanged — whatever
    the batch; and the read endpoint refuses every batch that contains a mutating query. -/
theorem C24_read_role_immutable (s : State) (c : Cred) (uid : Nat) (o n : Str) (d : Db) (qs : List Query)
    (hu : s.authUser c = some uid) (hd : s.findUserDb uid o n = some d)
    (hr : s.roleOf uid d.id = some .read) :
    step s (.dbExecMut c o n qs) = (s, ⟨403, .none⟩) ∧
    (requiredWrite qs = true → step s (.dbExec c o n qs) = (s, ⟨403, .none⟩)) := by
  constructor
  · simp [step, decide, hu, findDbOr404, hd, bind, Except.bind, hr]
  · intro hw
    simp [step, decide, hu, findDbOr404, hd, bind, Except.bind, decideExec, hw]

/-- the other role-guarded routes: without the db-admin role backup / restore / clear / granting roles
    are refused with no effect; without write role optimize is refused -/
theorem C24_db_admin_only (s : State) (c : Cred) (uid : Nat) (o n : Str) (d : Db)
    (hu : s.authUser c = some uid) (hd : s.findUserDb uid o n = some d)
    (hr : s.isDbAdmin uid d.id = false) (res : Resource) (u : Str) (ro : Role) :
    step s (.dbBackup c o n) = (s, ⟨403, .none⟩) ∧
    step s (.dbRestore c o n) = (s, ⟨403, .none⟩) ∧
    step s (.dbClear c o n res) = (s, ⟨403, .none⟩) ∧
    (step s (.dbUserAdd c o n u ro)).1 = s ∧ 400 ≤ (step s (.dbUserAdd c o n u ro)).2.status := by
  refine ⟨?_, ?_, ?_, ?_, ?_⟩
  · simp [step, decide, hu, findDbOr404, hd, bind, Except.bind, hr]
  · simp [step, decide, hu, findDbOr404, hd, bind, Except.bind, hr]
  · simp [step, decide, hu, findDbOr404, hd, bind, Except.bind, hr]
  · by_cases hou : o = u <;> simp [step, decide, hu, findDbOr404, hd, bind, Except.bind, hr, hou]
  · by_cases hou : o = u <;> simp [step, decide, hu, findDbOr404, hd, bind, Except.bind, hr, hou]

/-- a database the caller has no role on is invisible: every db route answers 404 with no effect
    (shown for the routes that could change it) -/
theorem C24_no_role_no_access (s : State) (c : Cred) (uid : Nat) (o n : Str) (qs : List Query)
    (hu : s.authUser c = some uid) (hd : s.findUserDb uid o n = none) (res : Resource) :
    step s (.dbExecMut c o n qs) = (s, ⟨404, .none⟩) ∧
    step s (.dbExec c o n qs) = (s, ⟨404, .none⟩) ∧
    step s (.dbBackup c o n) = (s, ⟨404, .none⟩) ∧
    step s (.dbRestore c o n) = (s, ⟨404, .none⟩) ∧
    step s (.dbClear c o n res) = (s, ⟨404, .none⟩) ∧
    step s (.dbAudit c o n) = (s, ⟨404, .none⟩) ∧
    step s (.dbOptimize c o n) = (s, ⟨404, .none⟩) := by
  refine ⟨?_, ?_, ?_, ?_, ?_, ?_, ?_⟩ <;>
    simp [step, decide, hu, findDbOr404, hd, bind, Except.bind]

/-- owner-only routes: delete / remove / rename by anybody but the owner → 403, no effect -/
theorem C24_owner_only (s : State) (c : Cred) (uid : Nat) (o n new : Str)
    (hu : s.authUser c = some uid) (hn : ((s.userById uid).map (·.name)) ≠ some o) :
    step s (.dbDelete c o n) = (s, ⟨403, .none⟩) ∧
    step s (.dbRemove c o n) = (s, ⟨403, .none⟩) ∧
    step s (.dbRename c o n new) = (s, ⟨403, .none⟩) ∧
    step s (.dbAdd c o n .mapped) = (s, ⟨403, .none⟩) := by
  refine ⟨?_, ?_, ?_, ?_⟩ <;> simp [step, decide, hu, hn]

/-! ### revocation -/

theorem find_removed (ts : List Token) (t : Nat) :
    (ts.filter (·.tok ≠ t)).find? (·.tok = t) = none := by
  induction ts with
  | nil => rfl
  | cons x xs ih => by_cases h : x.tok = t <;> simp [List.filter_cons, h, ih]

/-- **C24_revocation (logout)**: after a successful logout the token authenticates nobody, hence
    (by `C24_authenticated`) every later request carrying it is answered 401 with no effect. -/
theorem C24_revocation_logout (s : State) (t : Nat) (h : (step s (.logout (.tok t) false)).2.status < 300) :
    let s' := (step s (.logout (.tok t) false)).1
    s'.authUser (.tok t) = none ∧
    ∀ r, r.cred = some (.tok t) → step s' r = (s', ⟨401, .none⟩) := by
  intro s'
  have key : s'.authUser (.tok t) = none := by
    cases hu : s.authUser (.tok t) with
    | none =>
      have := C24_authenticated s (.logout (.tok t) false) (.tok t) rfl hu
      rw [this] at h; simp at h
    | some uid =>
      have : s' = applyAction s (.removeToken t) := by
        simp [s', step, decide, hu]
      rw [this]
      simp only [applyAction, State.authUser, find_removed]
  exact ⟨key, fun r hr => C24_authenticated s' r (.tok t) hr key⟩

/-- **C24_revocation (role removal)**: once the role edge of `uid` on database `dbid` is removed
    (`DbUserRemove`), `find_user_db_query` no longer finds that database for the user — so by
    `C24_no_role_no_access` every request of that user on it is answered 404 with no effect —
    until somebody grants a role again. -/
theorem C24_revocation_role (s : State) (dbid uid : Nat) (o n : Str) :
    let s' := applyAction s (.dbUserRemove dbid uid)
    s'.roleOf uid dbid = none ∧ ∀ d, s'.findUserDb uid o n = some d → d.id ≠ dbid := by
  intro s'
  have hg : ∀ g ∈ s'.grants, ¬ (g.uid = uid ∧ g.dbid = dbid) := by
    intro g hg
    simp only [s', applyAction, List.mem_filter, decide_eq_true_eq] at hg
    exact hg.2
  constructor
  · simp only [State.roleOf, Option.map_eq_none_iff, List.find?_eq_none]
    intro g hm
    simpa using hg g hm
  · intro d hd hid
    simp only [State.findUserDb] at hd
    have hp := List.find?_some hd
    simp only [Bool.decide_and, Bool.and_eq_true, decide_eq_true_eq, List.any_eq_true] at hp
    obtain ⟨_, _, g, hm, hgu, hgd⟩ := hp
    exact hg g hm ⟨hgu, by rw [hgd, hid]⟩

/-! ### the finite table: `required_role` over all 18 query kinds -/

/-- exactly the nine `Insert*` / `Remove*` kinds require the write role -/
theorem C24_required_role_table (k : QKind) :
    k.mutating = true ↔ k ∈ [QKind.insertAlias, .insertEdges, .insertIndex, .insertNodes, .insertValues,
      .remove, .removeAliases, .removeIndex, .removeValues] := by
  cases k <;> decide

/-! ### non-vacuity: a state with an owner, a reader and a database -/

def demo : State :=
  run State.init
    [ .login "admin".toList "admin".toList,
      .aUserAdd (.tok 1) "alice".toList "password1".toList,
      .aUserAdd (.tok 1) "bob".toList "password2".toList,
      .login "alice".toList "password1".toList,
      .login "bob".toList "password2".toList,
      .dbAdd (.tok 2) "alice".toList "db".toList .memory,
      .dbUserAdd (.tok 2) "alice".toList "db".toList "bob".toList .read ]

example : (step demo (.dbExecMut (.tok 3) "alice".toList "db".toList [.insertNodes 1])).2.status = 403 := by decide
example : (step demo (.dbExec (.tok 3) "alice".toList "db".toList [.selectNodeCount])).2.status = 200 := by decide
example : (step demo (.dbExecMut (.tok 2) "alice".toList "db".toList [.insertNodes 1])).2.status = 200 := by decide
example : (step (step demo (.logout (.tok 3) false)).1
    (.dbExec (.tok 3) "alice".toList "db".toList [.selectNodeCount])).2.status = 401 := by decide
example : (step (step demo (.dbUserRemove (.tok 2) "alice".toList "db".toList "bob".toList)).1
    (.dbExec (.tok 3) "alice".toList "db".toList [.selectNodeCount])).2.status = 404 := by decide

end AgdbServer.Server
