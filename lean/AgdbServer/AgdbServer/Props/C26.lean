import AgdbServer.Lemmas.PathFiles
import AgdbServer.Model.Server

/-!
# C26 — database files stay inside their owner's directory and never collide

`files D o d` is every path the server creates, overwrites or deletes for database `o/d`
(db file, the WAL as the server names it, the WAL the storage layer really opens, backup, backup audit,
audit, the two rollback temp files), built with the model of `Path::join` exactly as `db_pool.rs`
builds them and resolved lexically (`.`/`..`), for an ARBITRARY configured data directory `D`
(relative or absolute, with or without `..`, trailing separators, …) and ARBITRARY names.
`validOwner`/`validDb` are the validation of the repaired code.
-/
namespace AgdbServer.Path

/-- C26 (inside): with validated names, the owner directory is a direct child of the resolved data
    directory and every file of the database lies strictly inside the owner directory: same root,
    owner-dir components as a proper prefix, and the remaining components are plain names
    (no `..`, `.`, empty). -/
theorem C26_inside (D o d : Str) (ho : validOwner o = true) (hd : validDb d = true) :
    ownerDir D o = ⟨(resolve D).abs, (resolve D).comps ++ [o]⟩ ∧
    ∀ f ∈ files D o d,
      f.abs = (ownerDir D o).abs ∧
      ∃ rest, rest ≠ [] ∧ f.comps = (ownerDir D o).comps ++ rest ∧
        ∀ c ∈ rest, c ≠ dotdot ∧ c ≠ dot ∧ c ≠ [] ∧ sep ∉ c := by
  have vo := VName.of_valid ho
  have vd := VName.of_valid (validDb_name hd)
  refine ⟨by rw [ownerDir_eq D o vo]; rfl, ?_⟩
  intro f hf
  rw [files_eq D o d vo vd] at hf
  rw [ownerDir_eq D o vo]
  have pdot : Plain ('.' :: d) := by simpa using vd.plain_dotted [] (by simp)
  have pbak := vd.plain_suffixed sBak nosep_sBak (by decide)
  have plog := vd.plain_suffixed sLog nosep_sLog (by decide)
  have ptmp := vd.plain_dotted sTmp nosep_sTmp
  have paud := vd.plain_dotted sAudit nosep_sAudit
  have pd := vd.plain
  have pb := plain_backups
  have pa := plain_audit
  have key : ∀ n : Str, Plain n → n ≠ dotdot ∧ n ≠ dot ∧ n ≠ [] ∧ sep ∉ n :=
    fun n h => ⟨h.2.2.2, h.2.2.1, h.1, h.2.1⟩
  have two : ∀ a b : Str, Plain a → Plain b →
      ∀ c ∈ [a, b], c ≠ dotdot ∧ c ≠ dot ∧ c ≠ [] ∧ sep ∉ c := by
    intro a b ha hb c hc
    simp only [List.mem_cons, List.not_mem_nil, or_false] at hc
    rcases hc with rfl | rfl
    · exact key _ ha
    · exact key _ hb
  simp only [tails, List.map_cons, List.map_nil, List.mem_cons, List.not_mem_nil, or_false] at hf
  rcases hf with rfl | rfl | rfl | rfl | rfl | rfl | rfl | rfl
  · exact ⟨rfl, [d], by simp, by simp [under], by simpa using key d pd⟩
  · exact ⟨rfl, ['.' :: d], by simp, by simp [under], by simpa using key _ pdot⟩
  · exact ⟨rfl, ['.' :: d], by simp, by simp [under], by simpa using key _ pdot⟩
  · exact ⟨rfl, [backupsName, d ++ sBak], by simp, by simp [under],
      two _ _ pb pbak⟩
  · exact ⟨rfl, [backupsName, d ++ sLog], by simp, by simp [under],
      two _ _ pb plog⟩
  · exact ⟨rfl, [auditName, d ++ sLog], by simp, by simp [under],
      two _ _ pa plog⟩
  · exact ⟨rfl, [backupsName, '.' :: d ++ sTmp], by simp, by simp [under],
      two _ _ pb ptmp⟩
  · exact ⟨rfl, [backupsName, '.' :: d ++ sAudit], by simp, by simp [under],
      two _ _ pb paud⟩

/-- C26 (disjoint): two different databases (validated names) never share a file, counting the
    recovery log, backup, backup audit, audit and rollback temp files of each. -/
theorem C26_disjoint (D o₁ d₁ o₂ d₂ : Str)
    (ho₁ : validOwner o₁ = true) (hd₁ : validDb d₁ = true)
    (ho₂ : validOwner o₂ = true) (hd₂ : validDb d₂ = true)
    (hne : (o₁, d₁) ≠ (o₂, d₂)) :
    ∀ f ∈ files D o₁ d₁, f ∉ files D o₂ d₂ := by
  intro f h1 h2
  have vo₁ := VName.of_valid ho₁
  have vd₁ := VName.of_valid (validDb_name hd₁)
  have vo₂ := VName.of_valid ho₂
  have vd₂ := VName.of_valid (validDb_name hd₂)
  rw [files_eq D o₁ d₁ vo₁ vd₁] at h1
  rw [files_eq D o₂ d₂ vo₂ vd₂] at h2
  obtain ⟨t1, ht1, rfl⟩ := List.mem_map.mp h1
  obtain ⟨t2, ht2, e⟩ := List.mem_map.mp h2
  have := under_inj D t2 t1 e
  subst this
  have a := decode_tails o₁ d₁ vd₁ t2 ht1
  have b := decode_tails o₂ d₂ vd₂ t2 ht2
  rw [a] at b
  exact hne (Option.some.inj b)

/-- C26 (no file/directory clash): no file of a valid database is one of the `backups` / `audit`
    directories of any owner. -/
theorem C26_files_not_dirs (D o₁ d₁ o₂ : Str)
    (ho₁ : validOwner o₁ = true) (hd₁ : validDb d₁ = true) (ho₂ : validOwner o₂ = true) :
    ∀ f ∈ files D o₁ d₁, f ∉ dirs D o₂ := by
  intro f h1 h2
  have vo₁ := VName.of_valid ho₁
  have vd₁ := VName.of_valid (validDb_name hd₁)
  have vo₂ := VName.of_valid ho₂
  rw [files_eq D o₁ d₁ vo₁ vd₁] at h1
  rw [dirs_eq D o₂ vo₂] at h2
  obtain ⟨t1, ht1, rfl⟩ := List.mem_map.mp h1
  have a := decode_tails o₁ d₁ vd₁ t1 ht1
  have nr := validDb_not_reserved hd₁
  simp only [List.mem_cons, List.not_mem_nil, or_false] at h2
  rcases h2 with e | e
  · have := under_inj D _ _ e
    subst this
    have : decode [o₂, backupsName] = some (o₂, backupsName) := by
      simp [decode, backupsName]
    rw [this] at a
    exact nr.1 (Prod.mk.inj (Option.some.inj a)).2.symm
  · have := under_inj D _ _ e
    subst this
    have : decode [o₂, auditName] = some (o₂, auditName) := by
      simp [decode, auditName]
    rw [this] at a
    exact nr.2 (Prod.mk.inj (Option.some.inj a)).2.symm

/-- owner directories of different users are different and not nested -/
theorem C26_owner_dirs_apart (D o₁ o₂ : Str) (ho₁ : validOwner o₁ = true) (ho₂ : validOwner o₂ = true)
    (hne : o₁ ≠ o₂) :
    ∀ rest, (ownerDir D o₁).comps ++ rest ≠ (ownerDir D o₂).comps := by
  intro rest h
  rw [ownerDir_eq D o₁ (VName.of_valid ho₁), ownerDir_eq D o₂ (VName.of_valid ho₂)] at h
  simp only [under, List.append_assoc] at h
  have := List.append_cancel_left h
  simp at this
  exact hne this.1

/-! ### rejection (server model, `Model/Server.lean`: the six routes that introduce a database name) -/

section Rejected
open AgdbServer.Server

theorem step_of_error {s : State} {r : Req} {code : Nat} (h : Server.decide s r = .error code) :
    step s r = (s, ⟨code, .none⟩) := by simp [step, h]

theorem rejected_of_never_ok {s : State} {r : Req} (h : ∀ a, Server.decide s r ≠ .ok a) :
    ∃ code, Server.decide s r = .error code ∧ step s r = (s, ⟨code, .none⟩) := by
  cases hd : Server.decide s r with
  | error code => exact ⟨code, rfl, step_of_error hd⟩
  | ok a => exact absurd hd (h a)

/-- **C26_rejected** (add, copy — user and admin routes): with a name that fails the validation the
    handler returns an error (401/403/404/467 depending on what is checked first) — never an action —
    and the whole server state (databases, grants, files) is unchanged. -/
theorem C26_rejected (s : State) (c : Cred) (o d bad no : Str) (k : Kind) (h : validDb bad = false) :
    (∃ code, Server.decide s (.dbAdd c o bad k) = .error code ∧ step s (.dbAdd c o bad k) = (s, ⟨code, .none⟩)) ∧
    (∃ code, Server.decide s (.aDbAdd c o bad k) = .error code ∧ step s (.aDbAdd c o bad k) = (s, ⟨code, .none⟩)) ∧
    (∃ code, Server.decide s (.dbCopy c o d bad) = .error code ∧ step s (.dbCopy c o d bad) = (s, ⟨code, .none⟩)) ∧
    (∃ code, Server.decide s (.aDbCopy c o d no bad) = .error code ∧
      step s (.aDbCopy c o d no bad) = (s, ⟨code, .none⟩)) := by
  refine ⟨rejected_of_never_ok ?_, rejected_of_never_ok ?_, rejected_of_never_ok ?_, rejected_of_never_ok ?_⟩
  · intro a ha
    simp only [Server.decide] at ha
    cases hu : s.authUser c with
    | none => simp [hu] at ha
    | some uid =>
      simp only [hu, h] at ha
      split at ha <;> simp at ha
  · intro a ha
    simp only [Server.decide, bind, Except.bind, userOr404] at ha
    split at ha
    · simp at ha
    · cases hu : s.userByName o with
      | none => simp [hu] at ha
      | some u => simp [hu, h] at ha
  · intro a ha
    simp only [Server.decide, bind, Except.bind, findDbOr404] at ha
    cases hu : s.authUser c with
    | none => simp [hu] at ha
    | some uid =>
      simp only [hu] at ha
      cases hf : s.findUserDb uid o d with
      | none => simp [hf] at ha
      | some dd =>
        simp only [hf] at ha
        cases hb : s.userById uid with
        | none => simp [hb] at ha
        | some u => simp [hb, h] at ha
  · intro a ha
    simp only [Server.decide, bind, Except.bind, findDbOr404, userOr404] at ha
    split at ha
    · simp at ha
    · cases hu : s.userByName o with
      | none => simp [hu] at ha
      | some u =>
        simp only [hu] at ha
        cases hf : s.findUserDb u.id o d with
        | none => simp [hf] at ha
        | some dd =>
          simp only [hf] at ha
          cases hn : s.userByName no with
          | none => simp [hn] at ha
          | some nu => simp [hn, h] at ha

/-- **C26_rejected** (rename): renaming to an invalid name never issues a rename action — the only
    accepted case is the documented no-op "rename to the current name", which touches nothing. -/
theorem C26_rejected_rename (s : State) (c : Cred) (o d bad : Str) (h : validDb bad = false) :
    (step s (.dbRename c o d bad)).1 = s := by
  cases hd : Server.decide s (.dbRename c o d bad) with
  | error code => simp [step, hd]
  | ok a =>
    have : a = .none := by
      simp only [Server.decide] at hd
      cases hu : s.authUser c with
      | none => simp [hu] at hd
      | some uid =>
        simp only [hu, h] at hd
        split at hd
        · simp at hd
        · split at hd
          · simpa using hd.symm
          · simp at hd
    subst this
    simp [step, hd, applyAction]

/-- every name that reaches the file layer was validated: whatever the request and the state, an
    add / copy / rename ACTION is only ever issued with a valid (new) database name -/
theorem C26_only_valid_names_reach_the_pool (s : State) (r : Req) (a : Action)
    (h : Server.decide s r = .ok a) :
    (∀ oid o n k, a = .dbAdd oid o n k → validDb n = true) ∧
    (∀ id oid o n, a = .dbCopy id oid o n → validDb n = true) ∧
    (∀ id oid o n, a = .dbRename id oid o n → validDb n = true) := by
  refine ⟨?_, ?_, ?_⟩ <;> intro _ _ _ _ ha <;> subst ha <;> cases r <;>
    simp only [Server.decide, bind, Except.bind, findDbOr404, userOr404, decideExec, decideExecMut,
      validUserName, pure, Except.pure] at h <;>
    (repeat' split at h) <;> simp_all

end Rejected

/-! ### the defects of the unrepaired code (no validation: `validDbLegacy = true`) -/

def dd : Str := "data".toList

/-- traversal: `../x` leaves the owner directory (it lands in the data directory itself) -/
theorem C26_traversal_counterexample :
    validDbLegacy "../x".toList = true ∧
    resolve (dbFileS dd "alice".toList "../x".toList) = ⟨false, ["data".toList, "x".toList]⟩ ∧
    ownerDir dd "alice".toList = ⟨false, ["data".toList, "alice".toList]⟩ := by
  decide

/-- deeper traversal leaves the data directory altogether -/
theorem C26_escape_counterexample :
    resolve (dbFileS dd "alice".toList "../../x".toList) = ⟨false, ["x".toList]⟩ := by
  decide

/-- collision: the database `.a` IS the recovery log of the database `a` -/
theorem C26_wal_collision_counterexample :
    resolve (dbFileS dd "alice".toList ".a".toList) ∈ filesLegacy dd "alice".toList "a".toList ∧
    ("alice".toList, ".a".toList) ≠ ("alice".toList, "a".toList) := by
  decide

/-- collision: a database called `backups` is the backup directory -/
theorem C26_reserved_counterexample :
    resolve (dbFileS dd "alice".toList "backups".toList) ∈ dirs dd "alice".toList := by
  decide

/-- collision (legacy rollback temp name): rolling back `a.bak` overwrites the backup of `a` -/
theorem C26_rollback_temp_counterexample :
    resolve (rollbackTempFileLegacyS dd "alice".toList "a.bak".toList) =
      resolve (dbBackupFileS dd "alice".toList "a".toList) := by
  decide

/-- absolute names replace the whole path -/
theorem C26_absolute_counterexample :
    resolve (dbFileS dd "alice".toList "/etc/x".toList) = ⟨true, ["etc".toList, "x".toList]⟩ := by
  decide

/-! ### non-vacuity -/

example : validOwner "alice".toList = true ∧ validDb "my db.v2".toList = true := by decide
example : files dd "alice".toList "db1".toList ≠ [] := by decide
example : validDb "../x".toList = false ∧ validDb ".a".toList = false ∧ validDb "backups".toList = false
    ∧ validDb "".toList = false ∧ validDb "a/b".toList = false ∧ validDb "a\\b".toList = false
    ∧ validDb "..".toList = false ∧ validDb "a\x00a".toList = false := by decide

end AgdbServer.Path
