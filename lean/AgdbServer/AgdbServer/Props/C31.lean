import AgdbServer.Model.Exec

/-!
# C31 — every node applies committed actions once each and in log order

Quantifier: ALL event sequences (appends, commits with arbitrary indexes — also stale or beyond the
log — and scheduler choices), any length. No crash/restart in the quantifier (a restart re-executes
committed-but-unmarked entries: `ClusterStorage::new` + `logs_unexecuted`; see notes).
The tokio scheduler itself is outside the model: `run k` is "the k-th runnable task runs to
completion", which is exactly the freedom `tokio::spawn` gives.
-/
namespace AgdbServer.Exec

theorem range1_append (a n m : Nat) : range1 a (n + m) = range1 a n ++ range1 (a + n) m := by
  induction n generalizing a with
  | zero => simp [range1]
  | succ n ih =>
    have : n + 1 + m = (n + m) + 1 := by omega
    rw [this]
    simp only [range1, List.cons_append]
    rw [ih (a + 1)]
    have : a + 1 + n = a + (n + 1) := by omega
    rw [this]

theorem range1_length (a n : Nat) : (range1 a n).length = n := by
  induction n generalizing a with
  | zero => rfl
  | succ n ih => simp [range1, ih]

theorem range1_lt (a n : Nat) : ∀ x ∈ range1 a n, a < x := by
  induction n generalizing a with
  | zero => simp [range1]
  | succ n ih =>
    intro x hx
    simp only [range1, List.mem_cons] at hx
    rcases hx with rfl | h
    · omega
    · have := ih (a + 1) x h; omega

theorem range1_pairwise (a n : Nat) : (range1 a n).Pairwise (· < ·) := by
  induction n generalizing a with
  | zero => simp [range1]
  | succ n ih =>
    simp only [range1, List.pairwise_cons]
    exact ⟨fun x hx => range1_lt (a + 1) n x hx, ih (a + 1)⟩

theorem range1_nodup (a n : Nat) : (range1 a n).Nodup :=
  (range1_pairwise a n).imp (fun h => Nat.ne_of_lt h)

theorem eraseIdx_perm {l : List Nat} {k i : Nat} (h : l[k]? = some i) :
    l.Perm (i :: l.eraseIdx k) := by
  induction l generalizing k with
  | nil => simp at h
  | cons x xs ih =>
    cases k with
    | zero =>
      simp at h; subst h; simp
    | succ k =>
      simp only [List.getElem?_cons_succ] at h
      simp only [List.eraseIdx_cons_succ]
      exact ((ih h).cons x).trans (List.Perm.swap i x _)

/-- what both designs maintain: the committed entries are 1..commitIdx, within the log -/
def Committed (n : Node) : List Nat := range1 0 n.commitIdx

theorem commit_range (n : Node) (index : Nat) :
    range1 0 (n.commitIdx + (newlyCommitted n index).length) =
      range1 0 n.commitIdx ++ newlyCommitted n index := by
  simp only [newlyCommitted, range1_length]
  rw [range1_append]
  simp

/-! ### exactly once (both designs) -/

/-- invariant of the spawn-per-entry design -/
def InvLegacy (n : Node) : Prop := (n.executed ++ n.pending).Perm (Committed n)

theorem stepLegacy_inv (n : Node) (e : Event) (h : InvLegacy n) : InvLegacy (stepLegacy n e) := by
  cases e with
  | append => exact h
  | commit i =>
    simp only [InvLegacy, stepLegacy, commit, Committed] at *
    rw [commit_range, ← List.append_assoc]
    exact h.append_right _
  | run k =>
    simp only [stepLegacy]
    cases hk : n.pending[k]? with
    | none => exact h
    | some i =>
      simp only [InvLegacy, Committed] at *
      refine List.Perm.trans ?_ h
      have p := eraseIdx_perm hk
      -- executed ++ [i] ++ erase ~ executed ++ (i :: erase) ~ executed ++ pending
      rw [List.append_assoc]
      exact (List.Perm.append_left n.executed p.symm)

theorem runLegacy_inv (es : List Event) (n : Node) (h : InvLegacy n) : InvLegacy (runLegacy n es) := by
  induction es generalizing n with
  | nil => exact h
  | cons e es ih => exact ih _ (stepLegacy_inv n e h)

/-- **C31_once** (code as it is, any schedule): at every moment each committed entry has been handed
    to the executor exactly once — executed ++ still-pending is a permutation of the committed
    entries 1..commitIdx, hence duplicate free; once nothing is pending every committed entry has been
    executed exactly once. -/
theorem C31_once (es : List Event) :
    let n := runLegacy {} es
    (n.executed ++ n.pending).Perm (range1 0 n.commitIdx) ∧
    (n.executed ++ n.pending).Nodup ∧
    (n.pending = [] → n.executed.Perm (range1 0 n.commitIdx) ∧ n.executed.Nodup) := by
  intro n
  have h : InvLegacy n := runLegacy_inv es {} (by simp [InvLegacy, Committed, range1])
  have nd : (n.executed ++ n.pending).Nodup := h.symm.nodup (range1_nodup 0 n.commitIdx)
  refine ⟨h, nd, ?_⟩
  intro hp
  have h' := h
  simp only [InvLegacy, hp, List.append_nil] at h'
  rw [hp, List.append_nil] at nd
  exact ⟨h', nd⟩

/-! ### in log order -/

def C31_in_order_statement (step : Node → Event → Node) : Prop :=
  ∀ es : List Event, (es.foldl step {}).executed.Pairwise (· < ·)

/-- the spawn-per-entry design does NOT execute in log order: two entries committed at once, the
    scheduler runs the second task first -/
theorem C31_order_counterexample :
    (runLegacy {} [.append, .append, .commit 2, .run 1, .run 0]).executed = [2, 1] ∧
    ¬ C31_in_order_statement stepLegacy := by
  refine ⟨by decide, ?_⟩
  intro h
  have := h [.append, .append, .commit 2, .run 1, .run 0]
  revert this
  decide

/-- invariant of the sequential executor: an exact list equality, not just a permutation -/
def InvSeq (n : Node) : Prop := n.executed ++ n.pending = Committed n

theorem stepSeq_inv (n : Node) (e : Event) (h : InvSeq n) : InvSeq (stepSeq n e) := by
  cases e with
  | append => exact h
  | commit i =>
    simp only [InvSeq, stepSeq, commit, Committed] at *
    rw [commit_range, ← List.append_assoc, h]
  | run k =>
    simp only [stepSeq]
    cases hp : n.pending with
    | nil => simpa [InvSeq, hp] using h
    | cons i rest =>
      simp only [InvSeq, Committed] at *
      rw [hp] at h
      simpa using h

theorem runSeq_inv (es : List Event) (n : Node) (h : InvSeq n) : InvSeq (runSeq n es) := by
  induction es generalizing n with
  | nil => exact h
  | cons e es ih => exact ih _ (stepSeq_inv n e h)

theorem prefix_range1 {l r : List Nat} {c : Nat} (h : l ++ r = range1 0 c) : l = range1 0 l.length := by
  have hl : l.length + r.length = c := by
    have := congrArg List.length h
    simpa [range1_length] using this
  have : range1 0 c = range1 0 l.length ++ range1 (0 + l.length) r.length := by
    rw [← range1_append, hl]
  rw [this] at h
  exact (List.append_inj h (by simp [range1_length])).1

/-- **C31_in_order_sequential** (repaired code, any schedule): the executed entries are exactly
    1, 2, …, k in this order — each once, increasing, no gaps; and a node with nothing pending has
    executed exactly the committed log. -/
theorem C31_in_order_sequential (es : List Event) :
    let n := runSeq {} es
    n.executed = range1 0 n.executed.length ∧
    n.executed.Pairwise (· < ·) ∧
    (n.pending = [] → n.executed = range1 0 n.commitIdx) := by
  intro n
  have h : InvSeq n := runSeq_inv es {} (by simp [InvSeq, Committed, range1])
  have e := prefix_range1 h
  refine ⟨e, ?_, ?_⟩
  · rw [e]; exact range1_pairwise 0 _
  · intro hp
    simpa [InvSeq, hp, Committed] using h

/-- full statement for the repaired design -/
theorem C31_in_order : C31_in_order_statement stepSeq := fun es => (C31_in_order_sequential es).2.1

/-- consequence: two nodes that committed the same log and are quiescent executed the same sequence
    (so they reach the same server and database state — actions are deterministic functions of the
    state, `Action::exec`) -/
theorem C31_nodes_agree (es₁ es₂ : List Event)
    (hc : (runSeq {} es₁).commitIdx = (runSeq {} es₂).commitIdx)
    (h₁ : (runSeq {} es₁).pending = []) (h₂ : (runSeq {} es₂).pending = []) :
    (runSeq {} es₁).executed = (runSeq {} es₂).executed := by
  rw [(C31_in_order_sequential es₁).2.2 h₁, (C31_in_order_sequential es₂).2.2 h₂, hc]

/-- the same is false of the spawn-per-entry design: same log, same commits, different orders -/
theorem C31_nodes_diverge_counterexample :
    (runLegacy {} [.append, .append, .commit 2, .run 0, .run 0]).executed ≠
    (runLegacy {} [.append, .append, .commit 2, .run 1, .run 0]).executed := by decide

/-! ### the hook experiment -/

/-- the order the repaired code prints under any delays is the log order -/
theorem C31_hook_order_seq (delays : List Nat) : orderSeq delays = range1 0 delays.length := rfl

/-- the order observed on the unrepaired code with delays 50,25,0 -/
theorem C31_hook_order_legacy_example : orderLegacy [50, 25, 0] = [3, 2, 1] := by decide

/-! ### non-vacuity -/

example : (runSeq {} [.append, .append, .append, .commit 2, .run 0, .commit 7, .run 3, .run 1]).executed
    = [1, 2, 3] := by decide
example : (runLegacy {} [.append, .append, .commit 5, .run 1]).pending = [1] := by decide

end AgdbServer.Exec
