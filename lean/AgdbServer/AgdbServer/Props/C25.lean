import AgdbServer.Model.Server

/-!
# C25 — a server query batch is all-or-nothing and audited exactly

`runMut` is the loop of `UserDb::exec_mut` inside ONE `transaction_mut` (result-reference injection
included: `resolveRef`); `step` is the whole request. Quantified over ALL states, users, batches.
The atomicity of `transaction_mut` itself (rollback on error) is C13 of the `db` group; here the
statement is that the server wraps the WHOLE batch in exactly one such transaction and appends to the
audit log only after success.
-/
namespace AgdbServer.Server
open AgdbServer.Path (Str)

/-- the audit records a successful batch produces: its audited (= mutating) queries, in order, with
    the submitting user -/
def auditOf (user : Str) (qs : List Query) : List AuditRec :=
  (qs.filter (·.kind.audited)).map (fun q => ⟨user, q⟩)

theorem runMut_audit (user : Str) (qs : List Query) :
    ∀ c rs au c' rs' au', runMut user c rs au qs = .ok (c', rs', au') →
      au' = au ++ auditOf user qs ∧ rs'.length = rs.length + qs.length := by
  induction qs with
  | nil =>
    intro c rs au c' rs' au' h
    simp only [runMut, Except.ok.injEq, Prod.mk.injEq] at h
    obtain ⟨_, h2, h3⟩ := h
    subst h2 h3
    simp [auditOf]
  | cons q qs ih =>
    intro c rs au c' rs' au' h
    simp only [runMut] at h
    split at h
    · simp at h
    · rename_i c1 r1 _
      have := ih _ _ _ _ _ _ h
      obtain ⟨h1, h2⟩ := this
      refine ⟨?_, by simp [h2]; omega⟩
      rw [h1]
      by_cases ha : q.kind.audited = true
      · simp [auditOf, ha]
      · simp [auditOf, ha]

/-- a failing query anywhere in the batch fails the whole batch (nothing is returned to apply) -/
theorem runMut_fail (user : Str) (qs₁ : List Query) (q : Query) (qs₂ : List Query) :
    ∀ c rs au c₁ rs₁ au₁, runMut user c rs au qs₁ = .ok (c₁, rs₁, au₁) →
      execQuery c₁ rs₁ q = .error () →
      runMut user c rs au (qs₁ ++ q :: qs₂) = .error () := by
  induction qs₁ with
  | nil =>
    intro c rs au c₁ rs₁ au₁ h he
    simp only [runMut, Except.ok.injEq, Prod.mk.injEq] at h
    obtain ⟨h1, h2, _⟩ := h
    subst h1 h2
    simp [runMut, he]
  | cons p ps ih =>
    intro c rs au c₁ rs₁ au₁ h he
    simp only [runMut, List.cons_append] at h ⊢
    split at h
    · simp at h
    · exact ih _ _ _ _ _ _ h he

/-- **C25_batch_atomic** (request level): a request that is answered with an error status leaves the
    WHOLE server state — every database, every audit log — exactly as it was. In particular a batch in
    which any query fails (470) changes nothing. -/
theorem C25_batch_atomic (s : State) (r : Req) (h : 400 ≤ (step s r).2.status) : (step s r).1 = s := by
  cases hd : decide s r with
  | error code => simp [step, hd]
  | ok a =>
    simp only [step, hd] at h
    have : okStatus r < 400 := by cases r <;> simp [okStatus]
    omega

/-- **C25_batch_all_or_nothing** (executor level): `exec_mut` either applies every query of the batch
    in order, or reports an error and hands back nothing to apply; the second case happens as soon as
    one query fails after any successfully executed prefix. -/
theorem C25_batch_all_or_nothing (user : Str) (c : Content) (qs₁ : List Query) (q : Query) (qs₂ : List Query)
    (c₁ : Content) (rs₁ : List QResult) (au₁ : List AuditRec)
    (hprefix : execBatchMut user c qs₁ = .ok (c₁, rs₁, au₁))
    (hfail : execQuery c₁ rs₁ q = .error ()) :
    execBatchMut user c (qs₁ ++ q :: qs₂) = .error () :=
  runMut_fail user qs₁ q qs₂ c [] [] c₁ rs₁ au₁ hprefix hfail

/-- **C25_audit** (executor level): a successful batch yields exactly its mutating queries, in order,
    attributed to the submitting user, and one result per query. -/
theorem C25_audit (user : Str) (c c' : Content) (qs : List Query) (rs : List QResult) (au : List AuditRec)
    (h : execBatchMut user c qs = .ok (c', rs, au)) :
    au = auditOf user qs ∧ rs.length = qs.length := by
  have := runMut_audit user qs c [] [] c' rs au h
  simpa using this

/-- the finite table tie: `required_role`, `t_exec` and the `do_audit` flag agree on all 18 query
    kinds — a query is audited iff it is mutating iff the read endpoint refuses it -/
theorem C25_kind_table (k : QKind) : k.audited = k.mutating ∧ k.readAllowed = !k.mutating := by
  cases k <;> decide

theorem decideExec_none {d : Db} {qs : List Query} {a : Action} (h : decideExec d qs = .ok a) :
    a = .none := by
  unfold decideExec at h
  split at h
  · simp at h
  · split at h
    · simpa using h.symm
    · simp at h

/-- a read batch (`exec`) never changes anything: it has no access to a mutable transaction -/
theorem C25_read_batch_pure (s : State) (c : Cred) (o d : Str) (qs : List Query) :
    (step s (.dbExec c o d qs)).1 = s := by
  cases hd : decide s (.dbExec c o d qs) with
  | error code => simp [step, hd]
  | ok a =>
    have : a = .none := by
      simp only [decide] at hd
      cases hu : s.authUser c with
      | none => simp [hu] at hd
      | some uid =>
        simp only [hu, bind, Except.bind, findDbOr404] at hd
        cases hf : s.findUserDb uid o d with
        | none => simp [hf] at hd
        | some dd =>
          simp only [hf] at hd
          exact decideExec_none hd
    subst this
    simp [step, hd, applyAction]

/-! ### defect of the unrepaired `DbPool::rename_db` (found by the C24 stream, seed 20260921) -/

/-- after an admin rename to an owner who never had a database, the owner's audit directory is not
    created by the unrepaired code; the next mutating batch is then APPLIED, answered 500 and NOT audited -/
theorem C25_rename_audit_dir_counterexample :
    Path.dbAuditDirS [] "amy".toList ∉ renameCreatesDirsLegacy "amy".toList ∧
    execMutAfterCommit (Decidable.decide (Path.dbAuditDirS [] "amy".toList ∈ renameCreatesDirsLegacy "amy".toList))
      [⟨"amy".toList, .insertNodes 1⟩] = (500, true, false) := by decide

/-- the repaired `rename_db` creates it, so every applied batch is audited and answered 200 -/
theorem C25_rename_audit_dir (o : Str) (au : List AuditRec) :
    Path.dbAuditDirS [] o ∈ renameCreatesDirs o ∧
    execMutAfterCommit (Decidable.decide (Path.dbAuditDirS [] o ∈ renameCreatesDirs o)) au = (200, true, true) := by
  have h : Path.dbAuditDirS [] o ∈ renameCreatesDirs o := by simp [renameCreatesDirs]
  refine ⟨h, ?_⟩
  simp only [h, decide_true, execMutAfterCommit]
  split <;> rfl

/-! non-vacuity -/
example : (execBatchMut "bob".toList {} [.insertNodes 2, .insertAliased "k".toList, .remove (.result 0)]).toOption
    = some ({ nodes := [3], aliases := [("k".toList, 3)], next := 4 },
           [⟨2, [1, 2]⟩, ⟨1, [3]⟩, ⟨2, []⟩],
           [⟨"bob".toList, .insertNodes 2⟩, ⟨"bob".toList, .insertAliased "k".toList⟩,
            ⟨"bob".toList, .remove (.result 0)⟩]) := by decide
example : (execBatchMut "bob".toList {} [.insertNodes 2, .remove (.result 7)]).toOption = none := by decide

end AgdbServer.Server
