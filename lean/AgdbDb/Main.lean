/-
  Line-protocol driver for the `db` model (protocol: notes/db.md).
-/
import AgdbDb.Model.Query
open AgdbDb

def valTok (v : Val) : String := String.ofList (Char.ofNat v.tag :: v.bytes.map Char.ofNat)

def parseVal (t : String) : Option Val :=
  match t.toList with
  | c :: rest => if c = 'i' ∨ c = 'u' ∨ c = 's' then
      (if rest.isEmpty then none else some ⟨c.toNat, rest.map Char.toNat⟩) else none
  | [] => none

def splitOn1 (s : String) (sep : String) : List String := s.splitOn sep

def allSome {α} : List (Option α) → Option (List α)
  | [] => some []
  | none :: _ => none
  | some a :: rest => (allSome rest).map (a :: ·)

def parseVals (t : String) : Option (List Val) :=
  if t = "-" then some [] else allSome ((t.splitOn ",").map parseVal)

def parseKv (t : String) : Option KV :=
  match t.splitOn "=" with
  | [k, v] => match parseVal k, parseVal v with
    | some k, some v => some (k, v)
    | _, _ => none
  | _ => none

def parseKvs (t : String) : Option (List KV) :=
  if t = "-" then some [] else allSome ((t.splitOn ",").map parseKv)

def parseValues (t : String) : Option QValues :=
  if t.startsWith "U:" then (parseKvs (t.drop 2).toString).map QValues.single
  else if t.startsWith "M:" then
    let r := (t.drop 2).toString
    if r = "" then some (QValues.multi []) else (allSome ((r.splitOn ";").map parseKvs)).map QValues.multi
  else none

def validName (n : String) : Bool :=
  match n.toList with
  | c :: rest => c.isLower && rest.all (fun x => x.isLower || x.isDigit)
  | [] => false

def parseName (t : String) : Option String :=
  if t = "~" then some "" else if validName t then some t else none

def parseNames (t : String) : Option (List String) :=
  if t = "-" then some [] else allSome ((t.splitOn ",").map parseName)

def parseId (t : String) : Option QId :=
  if t.startsWith "@" then (parseName (t.drop 1).toString).map QId.alias
  else t.toInt?.map QId.id

def parseIds (t : String) : Option (List QId) :=
  if t = "-" then some [] else allSome ((t.splitOn ",").map parseId)

def arg (name : String) (t : String) : Option String :=
  if t.startsWith (name ++ "=") then some (t.drop (name.length + 1)).toString else none

def parseBool (t : String) : Option Bool := if t = "0" then some false else if t = "1" then some true else none

def joinWith (sep : String) (l : List String) : String := sep.intercalate l

def kvTok (p : KV) : String := valTok p.1 ++ "=" ++ valTok p.2
def kvsTok (l : List KV) : String := if l.isEmpty then "-" else joinWith "," (l.map kvTok)

def elemTok (e : Elem) : String := s!"{e.id}:{e.src}:{e.dst}:{kvsTok e.values}"

def resTok (r : QResult) : String := s!"ok {r.result} [{joinWith "|" (r.elements.map elemTok)}]"

def sortStr (l : List String) : List String := l.mergeSort (fun a b => !(b < a))
def sortInt (l : List Int) : List Int := l.mergeSort (fun a b => a ≤ b)

def dedup {α} [BEq α] (l : List α) : List α := l.eraseDups

def dumpStr (s : Db) : String :=
  let elems := (List.range s.graph.slots.length).filterMap (fun i =>
    if i = 0 then none else
    let kvs := "{" ++ joinWith "," (sortStr ((kvGet s.values i).map kvTok)) ++ "}"
    match s.graph.slot i with
    | .free => none
    | .node _ _ => some s!"{i}:{kvs}"
    | .edge a b => some s!"-{i}:{a}:{b}:{kvs}")
  let al := (s.aliases.map (fun p => (p.1, s!"{if p.1 = "" then "~" else p.1}>{p.2}"))).mergeSort (fun a b => !(b.1 < a.1))
  let ix := (s.indexes.map (fun p =>
    let vs := sortStr (dedup (p.2.map (fun q => valTok q.1)))
    let groups := vs.map (fun v =>
      v ++ ">" ++ joinWith "," ((sortInt ((p.2.filter (fun q => valTok q.1 = v)).map (·.2))).map toString))
    (valTok p.1, s!"{valTok p.1}#{p.2.length}:({joinWith ";" groups})"))).mergeSort (fun a b => !(b.1 < a.1))
  s!"dump nodes={s.graph.nodeCount} elems=[{joinWith "|" elems}] aliases=[{joinWith "," (al.map (·.2))}] indexes=[{joinWith "|" (ix.map (·.2))}]"

inductive Parsed
  | mut (m : M QResult)
  | ro (f : Db → Except Err String)
  | bad

def exToStr (e : Except Err QResult) : Except Err String := e.map resTok

def parseOp (toks : List String) : Parsed :=
  match toks with
  | ["insert_nodes", c, a, i, v] =>
    match (arg "count" c).bind String.toNat?, (arg "aliases" a).bind parseNames, (arg "ids" i).bind parseIds,
          (arg "values" v).bind parseValues with
    | some c, some a, some i, some v => .mut (Db.insertNodes c v a i)
    | _, _, _, _ => .bad
  | ["insert_edges", f, t, i, e, v] =>
    match (arg "from" f).bind parseIds, (arg "to" t).bind parseIds, (arg "ids" i).bind parseIds,
          (arg "each" e).bind parseBool, (arg "values" v).bind parseValues with
    | some f, some t, some i, some e, some v => .mut (Db.insertEdges f t i v e)
    | _, _, _, _, _ => .bad
  | ["insert_values", i, v] =>
    match (arg "ids" i).bind parseIds, (arg "values" v).bind parseValues with
    | some i, some v => .mut (Db.insertValues i v)
    | _, _ => .bad
  | ["insert_aliases", i, a] =>
    match (arg "ids" i).bind parseIds, (arg "aliases" a).bind parseNames with
    | some i, some a => .mut (Db.insertAliases i a)
    | _, _ => .bad
  | ["remove", i] =>
    match (arg "ids" i).bind parseIds with
    | some i => .mut (Db.removeQuery i)
    | _ => .bad
  | ["remove_values", i, k] =>
    match (arg "ids" i).bind parseIds, (arg "keys" k).bind parseVals with
    | some i, some k => .mut (Db.removeValues i k)
    | _, _ => .bad
  | ["remove_aliases", a] =>
    match (arg "aliases" a).bind parseNames with
    | some a => .mut (Db.removeAliases a)
    | _ => .bad
  | ["insert_index", k] =>
    match parseVal k with
    | some k => .mut (Db.insertIndexQuery k)
    | _ => .bad
  | ["remove_index", k] =>
    match parseVal k with
    | some k => .mut (Db.removeIndexQuery k)
    | _ => .bad
  | ["select_values", i, k] =>
    match (arg "ids" i).bind parseIds, (arg "keys" k).bind parseVals with
    | some i, some k => .ro (fun s => exToStr (s.selectValues i k))
    | _, _ => .bad
  | ["select_keys", i] =>
    match (arg "ids" i).bind parseIds with
    | some i => .ro (fun s => exToStr (s.selectKeys i))
    | _ => .bad
  | ["select_key_count", i] =>
    match (arg "ids" i).bind parseIds with
    | some i => .ro (fun s => exToStr (s.selectKeyCount i))
    | _ => .bad
  | ["select_edge_count", i, f, t] =>
    match (arg "ids" i).bind parseIds, (arg "from" f).bind parseBool, (arg "to" t).bind parseBool with
    | some i, some f, some t => .ro (fun s => exToStr (s.selectEdgeCount i f t))
    | _, _, _ => .bad
  | ["select_node_count"] => .ro (fun s => .ok (resTok s.selectNodeCount))
  | ["select_indexes"] => .ro (fun s => .ok (resTok s.selectIndexes))
  | ["select_aliases", i] =>
    match (arg "ids" i).bind parseIds with
    | some i => .ro (fun s => exToStr ((s.selectAliases i).map (fun es => ⟨i.length, es⟩)))
    | _ => .bad
  | ["select_all_aliases"] =>
    .ro (fun s =>
      let al := s.aliases.mergeSort (fun a b => !(b.1 < a.1))
      .ok (resTok ⟨al.length, al.map (fun p => s.elemOf p.2 [(Db.valStr "alias", Db.valStr p.1)])⟩))
  | ["search_index", k, v] =>
    match parseVal k, parseVal v with
    | some k, some v => .ro (fun s => (s.searchIndex k v).map (fun ids =>
        s!"ok {ids.length} ids={if ids.isEmpty then "-" else joinWith "," ((sortInt ids).map toString)}"))
    | _, _ => .bad
  | ["dump"] => .ro (fun s => .ok (dumpStr s))
  | _ => .bad

/-- transaction state of the driver -/
inductive Txn
  | none      -- not inside a transaction
  | open_     -- inside, closure still running
  | aborted   -- inside, a query failed: already rolled back, remaining ops are skipped
deriving DecidableEq

structure St where
  db : Db
  txn : Txn

def strOf (e : Except Err String) : String :=
  match e with
  | .ok s => s
  | .error e => e.toString

def step (st : St) (line : String) : St × String :=
  let toks := (line.trimAscii.toString.splitOn " ").filter (· ≠ "")
  match toks with
  | ["case", n] => ({ db := Db.empty, txn := .none }, s!"case {n}")
  | ["txn_begin"] =>
    match st.txn with
    | .none => ({ st with txn := .open_ }, "ok")
    | .open_ => (st, "bad-op")
    | .aborted => (st, "skipped")
  | ["reopen"] =>
    -- close + reopen of a persistent variant: no observable effect (C06); not allowed inside a transaction
    match st.txn with
    | .none => (st, "ok")
    | .open_ => (st, "bad-op")
    | .aborted => (st, "skipped")
  | ["txn_fail"] =>
    match st.txn with
    | .none => (st, "bad-op")
    | .aborted => ({ st with txn := .none }, "aborted")
    | .open_ => match st.db.rollback with
      | some db => ({ db := db, txn := .none }, "rolled-back")
      | none => ({ st with txn := .none }, "panic:rollback")
  | ["txn_commit"] =>
    match st.txn with
    | .none => (st, "bad-op")
    | .aborted => ({ st with txn := .none }, "aborted")
    | .open_ => ({ db := st.db.commit, txn := .none }, "committed")
  | _ =>
    if st.txn = .aborted then (st, "skipped") else
    match parseOp toks with
    | .bad => (st, "bad-op")
    | .ro f =>
      match f st.db, st.txn with
      | .ok o, _ => (st, o)
      | .error e, .open_ =>
        (match st.db.rollback with
          | some db' => ({ db := db', txn := .aborted }, e.toString)
          | none => ({ st with txn := .aborted }, "panic:rollback"))
      | .error e, _ => (st, e.toString)
    | .mut m =>
      match st.txn with
      | .aborted => (st, "skipped")
      | .none =>
        match Db.execMut m st.db with
        | some (r, db) => ({ st with db := db }, strOf (exToStr r))
        | none => (st, "panic:rollback")
      | .open_ =>
        match m st.db with
        | (.ok r, db) => ({ st with db := db }, resTok r)
        | (.error e, db) =>
          match db.rollback with
          | some db' => ({ db := db', txn := .aborted }, e.toString)
          | none => ({ db := db, txn := .aborted }, "panic:rollback")

partial def loop (h : IO.FS.Stream) (out : IO.FS.Stream) (st : St) : IO Unit := do
  let line ← h.getLine
  if line.isEmpty then return ()
  let (st', o) := step st line
  out.putStrLn o
  loop h out st'

def main : IO Unit := do
  let stdin ← IO.getStdin
  let stdout ← IO.getStdout
  loop stdin stdout { db := Db.empty, txn := .none }
