/-
  The order-free abstract view of a database state (`ADb`), the abstract effect of every undo command,
  and the proof that each arm of `rollback` implements it (`undoCmd_refines`).
-/
import AgdbDb.Model.Db
import AgdbDb.Lemmas.Kv
import AgdbDb.Lemmas.Ix
import AgdbDb.Lemmas.Alias
import AgdbDb.Lemmas.Graph
namespace AgdbDb

/-- Observable content of a database, with every order the property leaves free quotiented away:
    slot kinds and endpoints, the future id allocation sequence, node count, per-element key ↦ value maps,
    alias ↦ id, and per indexed key the multiset of (value, id) as a counting function. -/
structure ADb where
  kind : Nat → Kind
  alloc : Nat → Nat
  nodeCount : Int
  kv : Nat → Val → Option Val
  alias : String → Option Int
  index : Val → Option (Val → Int → Nat)

theorem ADb.ext' {A B : ADb} (h1 : ∀ i, A.kind i = B.kind i) (h2 : ∀ n, A.alloc n = B.alloc n)
    (h3 : A.nodeCount = B.nodeCount) (h4 : ∀ i k, A.kv i k = B.kv i k) (h5 : ∀ a, A.alias a = B.alias a)
    (h6 : ∀ k, A.index k = B.index k) : A = B := by
  cases A; cases B
  simp only [ADb.mk.injEq]
  exact ⟨funext h1, funext h2, h3, funext fun i => funext fun k => h4 i k, funext h5, funext h6⟩

def countFn (l : IxMap) : Val → Int → Nat := fun v id => l.count (v, id)

def Db.abs (s : Db) : ADb where
  kind := s.graph.kind
  alloc := s.graph.alloc
  nodeCount := s.graph.nodeCount
  kv := fun i k => kvFind (kvGet s.values i) k
  alias := fun a => aliasValue s.aliases a
  index := fun k => (ixFind s.indexes k).map countFn

/-- structural invariant: holds between any two `DbImpl` calls and between any two undo commands -/
structure Db.SInv (s : Db) : Prop where
  wf : s.graph.WF
  kvNodup : ∀ i, (keysOf (kvGet s.values i)).Nodup
  aliasBij : AliasBij s.aliases
  ixNodup : (ixKeys s.indexes).Nodup

def bump (v : Val) (id : Int) (m : Val → Int → Nat) : Val → Int → Nat :=
  fun v' id' => m v' id' + if (v, id) = (v', id') then 1 else 0
def unbump (v : Val) (id : Int) (m : Val → Int → Nat) : Val → Int → Nat :=
  fun v' id' => m v' id' - if (v, id) = (v', id') then 1 else 0

theorem countFn_ixIns (l : IxMap) (v : Val) (id : Int) : countFn (ixIns v id l) = bump v id (countFn l) := by
  funext v' id'; exact count_ixIns l v v' id id'
theorem countFn_ixDel (l : IxMap) (v : Val) (id : Int) : countFn (ixDel v id l) = unbump v id (countFn l) := by
  funext v' id'; exact count_ixDel l v v' id id'

/-- abstract effect of one undo command -/
def aundo (c : Cmd) (A : ADb) : ADb :=
  match c with
  | .insertAlias a id =>
    { A with alias := fun x => if x = a then some id else if A.alias x = some id then none else A.alias x }
  | .removeAlias a => { A with alias := fun x => if x = a then none else A.alias x }
  | .insertEdge s d =>
    { A with kind := fun j => if j = A.alloc 0 then .edge s.natAbs d.natAbs else A.kind j,
             alloc := fun n => A.alloc (n + 1) }
  | .insertNode =>
    { A with kind := fun j => if j = A.alloc 0 then .node else A.kind j,
             alloc := fun n => A.alloc (n + 1), nodeCount := A.nodeCount + 1 }
  | .removeEdge e =>
    { A with kind := fun j => if j = e.natAbs then .free else A.kind j,
             alloc := fun n => match n with | 0 => e.natAbs | n + 1 => A.alloc n }
  | .removeNode n =>
    { A with kind := fun j => if j = n.natAbs then .free else A.kind j,
             alloc := fun m => match m with | 0 => n.natAbs | m + 1 => A.alloc m,
             nodeCount := A.nodeCount - 1 }
  | .insertIndex k => { A with index := fun k' => if k' = k then some (fun _ _ => 0) else A.index k' }
  | .removeIndex k => { A with index := fun k' => if k' = k then none else A.index k' }
  | .insertToIndex k v id =>
    { A with index := fun k' => if k' = k then (A.index k).map (bump v id) else A.index k' }
  | .insertKeyValue id kv =>
    { A with kv := fun i k' => if i = id.natAbs then (if k' = kv.1 then some kv.2 else A.kv i k') else A.kv i k',
             index := fun k' => if k' = kv.1 then (A.index kv.1).map (bump kv.2 id) else A.index k' }
  | .removeKeyValue id kv =>
    { A with kv := fun i k' => if i = id.natAbs then (if k' = kv.1 then none else A.kv i k') else A.kv i k',
             index := fun k' => if k' = kv.1 then (A.index kv.1).map (unbump kv.2 id) else A.index k' }
  | .replaceKeyValue id kv =>
    match A.kv id.natAbs kv.1 with
    | some cur =>
      { A with kv := fun i k' => if i = id.natAbs then (if k' = kv.1 then some kv.2 else A.kv i k') else A.kv i k',
               index := fun k' => if k' = kv.1 then (A.index kv.1).map (fun m => bump kv.2 id (unbump cur id m))
                                  else A.index k' }
    | none => A

/-- what an undo command needs from the (abstract) state to succeed and to have its abstract effect -/
def pre (c : Cmd) (A : ADb) : Prop :=
  match c with
  | .insertEdge s d => A.kind s.natAbs = .node ∧ A.kind d.natAbs = .node
  | .removeEdge e => ∃ s d, A.kind e.natAbs = .edge s d
  | .removeNode n => A.kind n.natAbs = .node ∧ ∀ e s d, A.kind e = .edge s d → s ≠ n.natAbs ∧ d ≠ n.natAbs
  | .insertToIndex k _ _ => A.index k ≠ none
  | .insertIndex k => A.index k = none
  | .insertKeyValue id kv => A.kv id.natAbs kv.1 = none
  | .replaceKeyValue id kv => A.kv id.natAbs kv.1 ≠ none
  | _ => True

theorem abs_alias_insert (al : Aliases) (hb : AliasBij al) (a x : String) (id : Int) :
    aliasValue (aliasInsert al a id) x =
      if x = a then some id else if aliasValue al x = some id then none else aliasValue al x := by
  have hb' := AliasBij.insert al a id hb
  by_cases hx : x = a
  · subst hx; simp only [if_true]
    rw [aliasValue_eq_some _ hb'.1, mem_aliasInsert]; exact Or.inl ⟨rfl, rfl⟩
  · simp only [hx, if_false]
    cases hv : aliasValue al x with
    | none =>
      simp only [reduceCtorEq, if_false]
      rw [aliasValue_eq_none] at hv ⊢
      intro j hm
      rcases (mem_aliasInsert al a x id j).mp hm with h | h
      · exact hx h.1
      · exact hv j h.1
    | some j =>
      have hm := (aliasValue_eq_some al hb.1 x j).mp hv
      by_cases hj : j = id
      · subst hj; simp only [if_true]
        rw [aliasValue_eq_none]
        intro j' hm'
        rcases (mem_aliasInsert al a x j j').mp hm' with h | h
        · exact hx h.1
        · have := (aliasValue_eq_some al hb.1 x j').mpr h.1
          rw [hv] at this; cases this; exact h.2.2 rfl
      · have : ¬ (some j = some id) := by intro h; cases h; exact hj rfl
        simp only [this, if_false]
        rw [aliasValue_eq_some _ hb'.1, mem_aliasInsert]
        exact Or.inr ⟨hm, hx, hj⟩

theorem abs_alias_removeKey (al : Aliases) (hb : AliasBij al) (a x : String) :
    aliasValue (aliasRemoveKey al a) x = if x = a then none else aliasValue al x := by
  have hb' := AliasBij.removeKey al a hb
  by_cases hx : x = a
  · subst hx; simp only [if_true]
    rw [aliasValue_eq_none]; intro j hm
    exact ((mem_aliasRemoveKey al x x j).mp hm).2 rfl
  · simp only [hx, if_false]
    cases hv : aliasValue al x with
    | none =>
      rw [aliasValue_eq_none] at hv ⊢
      intro j hm; exact hv j ((mem_aliasRemoveKey al a x j).mp hm).1
    | some j =>
      rw [aliasValue_eq_some _ hb'.1, mem_aliasRemoveKey]
      exact ⟨(aliasValue_eq_some al hb.1 x j).mp hv, hx⟩

end AgdbDb
