/-
  Forward direction: every `DbImpl` mutation keeps the invariant and records commands whose replay
  restores the abstract state it started from (`Fwd`).
-/
import AgdbDb.Lemmas.AStep
namespace AgdbDb
open Db

/-- the commands `s'` has on top of `s` undo the abstract difference between them -/
def Und (s s' : Db) : Prop :=
  (∃ cmds, s'.undo = cmds ++ s.undo ∧ UndoOk cmds s'.abs s.abs) ∧ GReach s.graph s'.graph

theorem Und.refl (s : Db) : Und s s := ⟨⟨[], rfl, rfl⟩, GReach.refl _⟩

theorem Und.trans {a b c : Db} (h1 : Und a b) (h2 : Und b c) : Und a c := by
  obtain ⟨⟨c1, e1, u1⟩, g1⟩ := h1
  obtain ⟨⟨c2, e2, u2⟩, g2⟩ := h2
  exact ⟨⟨c2 ++ c1, by rw [e2, e1, List.append_assoc], u2.append u1⟩, g1.trans g2⟩

/-- `Und` only looks at the undo stack, the abstract view and the graph of its second argument -/
theorem Und.congr {s a b : Db} (h : Und s a) (hu : b.undo = a.undo) (ha : b.abs = a.abs) (hg : b.graph = a.graph) :
    Und s b := by
  obtain ⟨⟨c, e, u⟩, g⟩ := h
  exact ⟨⟨c, by rw [hu, e], by rw [ha]; exact u⟩, by rw [hg]; exact g⟩

/-- full invariant at the boundaries of `DbImpl` calls -/
structure Db.Inv (s : Db) : Prop where
  sinv : s.SInv
  binv : BInv s.abs

def Fwd (s s' : Db) : Prop := s'.Inv ∧ Und s s'

theorem Fwd.refl {s : Db} (h : s.Inv) : Fwd s s := ⟨h, Und.refl s⟩
theorem Fwd.trans {a b c : Db} (h1 : Fwd a b) (h2 : Fwd b c) : Fwd a c := ⟨h2.1, h1.2.trans h2.2⟩

theorem alias_inj (al : Aliases) (hb : AliasBij al) (x y : String) (j : Int)
    (hx : aliasValue al x = some j) (hy : aliasValue al y = some j) : x = y := by
  have h1 := (aliasKey_eq_some al hb.2 x j).mpr ((aliasValue_eq_some al hb.1 x j).mp hx)
  have h2 := (aliasKey_eq_some al hb.2 y j).mpr ((aliasValue_eq_some al hb.1 y j).mp hy)
  rw [h1] at h2; cases h2; rfl

theorem ga_of_sinv {s : Db} (h : s.SInv) : GA s.abs := by
  have hs := Graph.getFreeIndex_spec s.graph h.wf
  simp only at hs
  obtain ⟨h1, h2, _, h4, _⟩ := hs
  refine ⟨h.wf.slot0, fun e a b he => ⟨h.wf.src_node he, h.wf.dst_node he⟩, ?_, ?_, ?_⟩
  · show s.graph.kind (s.graph.alloc 0) = .free; rw [← h1]; exact h4
  · show s.graph.alloc 0 ≠ 0; rw [← h1]; omega
  · intro x y j hx hy; exact alias_inj s.aliases h.aliasBij x y j hx hy

/-- a forward step whose state change is literally one `rollback` arm -/
theorem und_of_cmd (s u : Db) (c : Cmd) (cbar : List Cmd) (hs : s.SInv) (hp : pre c s.abs)
    (hu : Db.undoCmd c s = some u) (hok : UndoOk cbar (aundo c s.abs) s.abs) :
    ({ u with undo := cbar ++ s.undo } : Db).SInv ∧ ({ u with undo := cbar ++ s.undo } : Db).abs = aundo c s.abs ∧
    Und s { u with undo := cbar ++ s.undo } := by
  obtain ⟨u', hu', habs, hsi, _⟩ := undoCmd_refines c s hs hp
  have hgr := undoCmd_greach c s u hs hp hu
  rw [hu] at hu'; cases hu'
  have habs' : ({ u with undo := cbar ++ s.undo } : Db).abs = aundo c s.abs := habs
  refine ⟨⟨hsi.wf, hsi.kvNodup, hsi.aliasBij, hsi.ixNodup⟩, habs', ⟨⟨cbar, rfl, ?_⟩, hgr⟩⟩
  rw [habs']; exact hok

theorem IxInvG.congr {σ : Nat → Int} {A B : ADb} (h : IxInvG σ A) (h1 : B.index = A.index) (h2 : B.kv = A.kv) :
    IxInvG σ B := by
  intro k m hm v id
  rw [h1] at hm; rw [h2]; exact h k m hm v id

/-! ### nodes and edges -/

theorem fwd_insertNode (s : Db) (hi : s.Inv) : Fwd s (Db.insertNode s).2 := by
  have g := ga_of_sinv hi.sinv
  obtain ⟨h1, _, _, _, _, _, _⟩ := Graph.insertNode_spec s.graph hi.sinv.wf
  have hok := step_insertNode s.abs g
  have hc : (Db.insertNode s).2 = { ({ s with graph := s.graph.insertNode.2 } : Db) with
      undo := [Cmd.removeNode (s.abs.alloc 0 : Int)] ++ s.undo } := by
    show _ = ({ s with graph := s.graph.insertNode.2, undo := Cmd.removeNode (s.graph.alloc 0 : Int) :: s.undo } : Db)
    unfold Db.insertNode; simp only; rw [h1]
  obtain ⟨hsi, habs, hund⟩ := und_of_cmd s _ .insertNode _ hi.sinv trivial rfl hok
  rw [← hc] at hsi habs hund
  refine ⟨⟨hsi, ?_⟩, hund⟩
  rw [habs]
  have hb := hi.binv
  refine ⟨?_, ?_, ?_⟩
  · have h0 : IxInvG (aidOf s.abs) (aundo .insertNode s.abs) := hb.ix.congr rfl rfl
    refine h0.swap ?_
    intro i ⟨k, hk⟩
    have : i ≠ s.abs.alloc 0 := by
      intro h; subst h; exact hk (hb.k2 _ g.fresh k)
    simp [aidOf, aundo, this]
  · intro i hk k
    simp only [aundo] at hk ⊢
    by_cases h : i = s.abs.alloc 0
    · simp [h] at hk
    · simp only [h, if_false] at hk; exact hb.k2 i hk k
  · intro a id ha
    have := hb.a2 a id ha
    simp only [aundo]
    refine ⟨this.1, ?_⟩
    split
    · rfl
    · exact this.2

theorem fwd_insertEdge (s : Db) (hi : s.Inv) (f t : Int) : Fwd s (Db.insertEdge f t s).2 := by
  by_cases hk : s.graph.kind f.natAbs = .node ∧ s.graph.kind t.natAbs = .node
  · have g := ga_of_sinv hi.sinv
    obtain ⟨r, hr, h1, _, _, _, _, _, _⟩ := Graph.insertEdge_spec s.graph hi.sinv.wf f.natAbs t.natAbs hk.1 hk.2
    have hok := step_insertEdge s.abs g f t
    have hu : Db.undoCmd (.insertEdge f t) s = some { s with graph := r.2 } := by simp [Db.undoCmd, hr]
    have hc : (Db.insertEdge f t s).2 = { ({ s with graph := r.2 } : Db) with
        undo := [Cmd.removeEdge (-(s.abs.alloc 0 : Int))] ++ s.undo } := by
      show _ = ({ s with graph := r.2, undo := Cmd.removeEdge (-(s.graph.alloc 0 : Int)) :: s.undo } : Db)
      unfold Db.insertEdge; rw [hr]; simp only; rw [h1]
    obtain ⟨hsi, habs, hund⟩ := und_of_cmd s _ (.insertEdge f t) _ hi.sinv hk hu hok
    rw [← hc] at hsi habs hund
    refine ⟨⟨hsi, ?_⟩, hund⟩
    rw [habs]
    have hb := hi.binv
    have haid : ∀ i, aidOf (aundo (.insertEdge f t) s.abs) i = aidOf s.abs i := by
      intro i; simp only [aidOf, aundo]
      by_cases h : i = s.abs.alloc 0
      · subst h; simp [g.fresh]
      · simp [h]
    refine ⟨?_, ?_, ?_⟩
    · have h0 : IxInvG (aidOf s.abs) (aundo (.insertEdge f t) s.abs) := hb.ix.congr rfl rfl
      exact h0.swap (fun i _ => (haid i).symm)
    · intro i hk k
      simp only [aundo] at hk ⊢
      by_cases h : i = s.abs.alloc 0
      · simp [h] at hk
      · simp only [h, if_false] at hk; exact hb.k2 i hk k
    · intro a id ha
      have := hb.a2 a id ha
      simp only [aundo]
      refine ⟨this.1, ?_⟩
      split
      · rename_i h; rw [h, g.fresh] at this; simp at this
      · exact this.2
  · have : s.graph.insertEdge f.natAbs t.natAbs = .error Err.graphInvalidIndex := Graph.insertEdge_error _ _ _ hk
    unfold Db.insertEdge; rw [this]; exact Fwd.refl hi

/-! ### key-values -/

/-- `id` names a live element with the sign matching its kind -/
def Owns (A : ADb) (id : Int) : Prop := id ≠ 0 ∧ A.kind id.natAbs ≠ .free ∧ id = aidOf A id.natAbs

theorem binv_kv {A A' : ADb} (hb : BInv A) (hkind : A'.kind = A.kind) (halias : A'.alias = A.alias)
    (hix : IxInvG (aidOf A) A') (hkv : ∀ i k, A.kind i = .free → A'.kv i k = none) : BInv A' := by
  refine ⟨?_, ?_, ?_⟩
  · have : aidOf A' = aidOf A := by funext i; simp [aidOf, hkind]
    rw [this]; exact hix
  · intro i hk k; rw [hkind] at hk; exact hkv i k hk
  · intro a id ha; rw [halias] at ha; rw [hkind]; exact hb.a2 a id ha

theorem fwd_insertKeyValue (s : Db) (hi : s.Inv) (id : Int) (kv : KV) (hown : Owns s.abs id)
    (hnone : kvFind (kvGet s.values id.natAbs) kv.1 = none) : Fwd s (Db.insertKeyValue id kv s).2 := by
  obtain ⟨k, v⟩ := kv
  have hok := step_insertKV s.abs id k v hnone
  obtain ⟨hsi, habs, hund⟩ := und_of_cmd s _ (.insertKeyValue id (k, v)) _ hi.sinv hnone rfl hok
  have habs' : (Db.insertKeyValue id (k, v) s).2.abs = aundo (.insertKeyValue id (k, v)) s.abs := habs
  refine ⟨⟨hsi, ?_⟩, hund⟩
  rw [habs']
  refine binv_kv hi.binv rfl rfl (ixInvG_insertKV _ _ id k v hi.binv.ix hown.1 hown.2.2 hnone) ?_
  intro i k' hfree
  simp only [aundo]
  have : i ≠ id.natAbs := by intro h; subst h; exact hown.2.1 hfree
  simp only [this, if_false]; exact hi.binv.k2 i hfree k'

theorem fwd_insertOrReplace (s : Db) (hi : s.Inv) (id : Int) (kv : KV) (hown : Owns s.abs id) :
    Fwd s (Db.insertOrReplaceKeyValue id kv s).2 := by
  obtain ⟨k, v⟩ := kv
  cases hf : kvFind (kvGet s.values id.natAbs) k with
  | none =>
    have : (Db.insertOrReplaceKeyValue id (k, v) s).2 = (Db.insertKeyValue id (k, v) s).2 := by
      unfold Db.insertOrReplaceKeyValue Db.insertKeyValue; simp only [hf]
    rw [this]; exact fwd_insertKeyValue s hi id (k, v) hown hf
  | some old =>
    have hsome : s.abs.kv id.natAbs k = some old := hf
    have hcnt := count_of_ixInvG _ _ id k old hi.binv.ix hown.1 hown.2.2 hsome
    have hok := step_replaceKV s.abs id k v old hsome hcnt
    have hu : Db.undoCmd (.replaceKeyValue id (k, v)) s = some { s with
        values := kvSet s.values id.natAbs (kvReplace (kvGet s.values id.natAbs) k v)
        indexes := ixUpdate s.indexes k (fun l => ixIns v id (ixDel old id l)) } := by
      simp [Db.undoCmd, hf]
    have hp : pre (.replaceKeyValue id (k, v)) s.abs := by simp only [pre]; rw [hsome]; simp
    obtain ⟨hsi, habs, hund⟩ := und_of_cmd s _ (.replaceKeyValue id (k, v)) _ hi.sinv hp hu hok
    have hc : (Db.insertOrReplaceKeyValue id (k, v) s).2 = { ({ s with
        values := kvSet s.values id.natAbs (kvReplace (kvGet s.values id.natAbs) k v)
        indexes := ixUpdate s.indexes k (fun l => ixIns v id (ixDel old id l)) } : Db) with
        undo := [Cmd.replaceKeyValue id (k, old)] ++ s.undo } := by
      unfold Db.insertOrReplaceKeyValue; simp only [hf]; rfl
    rw [← hc] at hsi habs hund
    refine ⟨⟨hsi, ?_⟩, hund⟩
    rw [habs]
    refine binv_kv hi.binv ?_ ?_ (ixInvG_replaceKV _ _ id k v old hi.binv.ix hown.1 hown.2.2 hsome) ?_
    · simp only [aundo, hsome]
    · simp only [aundo, hsome]
    · intro i k' hfree
      simp only [aundo, hsome]
      have : i ≠ id.natAbs := by intro h; subst h; exact hown.2.1 hfree
      simp only [this, if_false]; exact hi.binv.k2 i hfree k'

/-- the loop body of `remove_keys` / `remove_all_values`, for a list of pairs that are all present -/
theorem und_removeKVs (σ : Nat → Int) (id : Int) (hid : id ≠ 0) (hs : id = σ id.natAbs) :
    ∀ (l : List KV) (s : Db), s.SInv → IxInvG σ s.abs → (keysOf l).Nodup →
      (∀ p ∈ l, kvFind (kvGet s.values id.natAbs) p.1 = some p.2) →
      (l.foldl (fun s kv => Db.removeKeyValue1 id kv s) s).SInv ∧
      IxInvG σ (l.foldl (fun s kv => Db.removeKeyValue1 id kv s) s).abs ∧
      Und s (l.foldl (fun s kv => Db.removeKeyValue1 id kv s) s) ∧
      (l.foldl (fun s kv => Db.removeKeyValue1 id kv s) s).graph = s.graph ∧
      (l.foldl (fun s kv => Db.removeKeyValue1 id kv s) s).aliases = s.aliases ∧
      (∀ j k, (l.foldl (fun s kv => Db.removeKeyValue1 id kv s) s).abs.kv j k =
        if j = id.natAbs ∧ k ∈ keysOf l then none else s.abs.kv j k) := by
  intro l
  induction l with
  | nil => intro s h1 h2 _ _; exact ⟨h1, h2, Und.refl s, rfl, rfl, by intro j k; simp [keysOf]⟩
  | cons p rest ih =>
    intro s h1 h2 hnd hall
    obtain ⟨k, v⟩ := p
    simp only [List.foldl_cons]
    have hsome : s.abs.kv id.natAbs k = some v := hall (k, v) (by simp)
    have hcnt := count_of_ixInvG σ _ id k v h2 hid hs hsome
    have hok := step_removeKV s.abs id k v hsome hcnt
    obtain ⟨hsi, habs, hund⟩ := und_of_cmd s _ (.removeKeyValue id (k, v)) _ h1 trivial rfl hok
    have hc : Db.removeKeyValue1 id (k, v) s = { ({ s with
        indexes := ixUpdate s.indexes k (ixDel v id)
        values := kvSet s.values id.natAbs (kvErase (kvGet s.values id.natAbs) k) } : Db) with
        undo := [Cmd.insertKeyValue id (k, v)] ++ s.undo } := rfl
    rw [← hc] at hsi habs hund
    simp only [keysOf, List.map_cons, List.nodup_cons] at hnd
    have hix1 : IxInvG σ (Db.removeKeyValue1 id (k, v) s).abs := by
      rw [habs]; exact ixInvG_removeKV σ _ id k v h2 hid hs hsome
    have hall1 : ∀ p ∈ rest, kvFind (kvGet (Db.removeKeyValue1 id (k, v) s).values id.natAbs) p.1 = some p.2 := by
      intro p hp
      have h0 := hall p (List.mem_cons_of_mem _ hp)
      have hne : p.1 ≠ k := by
        intro h; exact hnd.1 (by rw [← h]; exact List.mem_map.mpr ⟨p, hp, rfl⟩)
      show kvFind (kvGet (kvSet s.values id.natAbs _) id.natAbs) p.1 = _
      rw [kvGet_kvSet]; simp only [if_true]
      rw [kvFind_kvErase _ (h1.kvNodup _)]; simp [hne, h0]
    obtain ⟨r1, r2, r3, r4, r5, r6⟩ := ih (Db.removeKeyValue1 id (k, v) s) hsi hix1 hnd.2 hall1
    refine ⟨r1, r2, hund.trans r3, by rw [r4]; rfl, by rw [r5]; rfl, ?_⟩
    intro j k'
    rw [r6, habs]
    simp only [aundo, keysOf, List.map_cons, List.mem_cons]
    by_cases hj : j = id.natAbs
    · subst hj
      by_cases hk' : k' = k
      · subst hk'; simp
      · simp only [hk', if_false, false_or, true_and, if_true]
    · simp [hj]

theorem owns_cnt_facts {A : ADb} {id : Int} (h : Owns A id) : id ≠ 0 ∧ id = aidOf A id.natAbs := ⟨h.1, h.2.2⟩

/-- `remove_keys` -/
theorem fwd_removeKeys (s : Db) (hi : s.Inv) (id : Int) (keys : List Val) (hown : Owns s.abs id) :
    Fwd s (Db.removeKeys id keys s).2 := by
  unfold Db.removeKeys
  simp only
  have hnd : (keysOf ((kvGet s.values id.natAbs).filter (fun kv => decide (kv.1 ∈ keys)))).Nodup :=
    (List.Sublist.map _ List.filter_sublist).nodup (hi.sinv.kvNodup _)
  have hall : ∀ p ∈ (kvGet s.values id.natAbs).filter (fun kv => decide (kv.1 ∈ keys)),
      kvFind (kvGet s.values id.natAbs) p.1 = some p.2 := by
    intro p hp
    exact kvFind_of_mem _ (hi.sinv.kvNodup _) p.1 p.2 (List.mem_filter.mp hp).1
  obtain ⟨r1, r2, r3, r4, r5, r6⟩ := und_removeKVs (aidOf s.abs) id hown.1 hown.2.2 _ s hi.sinv hi.binv.ix hnd hall
  refine ⟨⟨r1, ?_⟩, r3⟩
  refine binv_kv hi.binv ?_ ?_ r2 ?_
  · show Graph.kind _ = Graph.kind _; rw [r4]
  · show (fun a => aliasValue _ a) = fun a => aliasValue _ a; rw [r5]
  · intro i k hfree
    rw [r6]; split
    · rfl
    · exact hi.binv.k2 i hfree k

theorem fold_removeKV_fields (id : Int) : ∀ (l : List KV) (s : Db),
    (l.foldl (fun s kv => Db.removeKeyValue1 id kv s) s).undo = (l.map (Cmd.insertKeyValue id)).reverse ++ s.undo ∧
    (l.foldl (fun s kv => Db.removeKeyValue1 id kv s) s).indexes =
      l.foldl (fun ix kv => ixUpdate ix kv.1 (ixDel kv.2 id)) s.indexes := by
  intro l
  induction l with
  | nil => intro s; simp
  | cons p rest ih =>
    intro s
    simp only [List.foldl_cons, List.map_cons, List.reverse_cons, List.append_assoc]
    obtain ⟨h1, h2⟩ := ih (Db.removeKeyValue1 id p s)
    exact ⟨by rw [h1]; rfl, by rw [h2]; rfl⟩

/-- `remove_all_values` as the loop of single removals -/
theorem und_removeAllValues (σ : Nat → Int) (id : Int) (hid : id ≠ 0) (hs : id = σ id.natAbs)
    (s : Db) (h1 : s.SInv) (h2 : IxInvG σ s.abs) :
    (Db.removeAllValues id s).SInv ∧ IxInvG σ (Db.removeAllValues id s).abs ∧ Und s (Db.removeAllValues id s) ∧
    (Db.removeAllValues id s).graph = s.graph ∧ (Db.removeAllValues id s).aliases = s.aliases ∧
    (∀ j k, (Db.removeAllValues id s).abs.kv j k = if j = id.natAbs then none else s.abs.kv j k) := by
  have hall : ∀ p ∈ kvGet s.values id.natAbs, kvFind (kvGet s.values id.natAbs) p.1 = some p.2 :=
    fun p hp => kvFind_of_mem _ (h1.kvNodup _) p.1 p.2 hp
  obtain ⟨r1, r2, r3, r4, r5, r6⟩ := und_removeKVs σ id hid hs _ s h1 h2 (h1.kvNodup _) hall
  obtain ⟨f1, f2⟩ := fold_removeKV_fields id (kvGet s.values id.natAbs) s
  have hkv : ∀ j k, (Db.removeAllValues id s).abs.kv j k = if j = id.natAbs then none else s.abs.kv j k := by
    intro j k
    show kvFind (kvGet (kvSet s.values id.natAbs []) j) k = _
    rw [kvGet_kvSet]; split
    · rfl
    · rfl
  have habs : (Db.removeAllValues id s).abs =
      ((kvGet s.values id.natAbs).foldl (fun s kv => Db.removeKeyValue1 id kv s) s).abs := by
    refine ADb.ext' ?_ ?_ ?_ ?_ ?_ ?_
    · intro i; show s.graph.kind i = Graph.kind _ i; rw [r4]
    · intro n; show s.graph.alloc n = Graph.alloc _ n; rw [r4]
    · show s.graph.nodeCount = Graph.nodeCount _; rw [r4]
    · intro j k
      rw [hkv, r6]
      by_cases hj : j = id.natAbs
      · subst hj; simp only [if_true, true_and]
        split
        · rfl
        · rename_i hk; exact ((kvFind_none_iff _ _).mpr hk).symm
      · simp [hj]
    · intro a; show aliasValue s.aliases a = aliasValue _ a; rw [r5]
    · intro k; show (ixFind _ k).map countFn = (ixFind _ k).map countFn; rw [f2]; rfl
  have hundo : (Db.removeAllValues id s).undo =
      ((kvGet s.values id.natAbs).foldl (fun s kv => Db.removeKeyValue1 id kv s) s).undo := by rw [f1]; rfl
  refine ⟨⟨h1.wf, ?_, h1.aliasBij, ?_⟩, by rw [habs]; exact r2, r3.congr hundo habs (by rw [r4]; rfl), rfl, rfl, hkv⟩
  · intro j; show (keysOf (kvGet (kvSet s.values id.natAbs []) j)).Nodup
    rw [kvGet_kvSet]; split
    · simp [keysOf]
    · exact h1.kvNodup j
  · have : (Db.removeAllValues id s).indexes =
        ((kvGet s.values id.natAbs).foldl (fun s kv => Db.removeKeyValue1 id kv s) s).indexes := by rw [f2]; rfl
    rw [this]; exact r1.ixNodup

/-- `remove_edge` + values of the edge -/
theorem fwd_removeEdgeFull (s : Db) (hi : s.Inv) (e a b : Nat) (he : s.graph.kind e = .edge a b) :
    Fwd s (Db.removeEdgeFull e s) ∧
    (∀ j, (Db.removeEdgeFull e s).graph.kind j = if j = e then .free else s.graph.kind j) ∧
    (Db.removeEdgeFull e s).aliases = s.aliases := by
  have g := ga_of_sinv hi.sinv
  have hok := step_removeEdge s.abs g e a b he
  have hp : pre (.removeEdge (-(e : Int))) s.abs := by
    simp only [pre, Int.natAbs_neg, Int.natAbs_natCast]; exact ⟨a, b, he⟩
  have hu : Db.undoCmd (.removeEdge (-(e : Int))) s = some { s with graph := s.graph.removeEdge e } := by
    simp [Db.undoCmd]
  obtain ⟨hsi, habs, hund⟩ := und_of_cmd s _ (.removeEdge (-(e : Int))) _ hi.sinv hp hu hok
  have hsrc := Graph.srcOf_of_kind s.graph e a b he
  have hdst := Graph.dstOf_of_kind s.graph e a b he
  -- the state after the graph step
  let s1 : Db := { s with graph := s.graph.removeEdge e, undo := Cmd.insertEdge (s.graph.srcOf e) (s.graph.dstOf e) :: s.undo }
  have hs1 : s1 = { ({ s with graph := s.graph.removeEdge e } : Db) with undo := [Cmd.insertEdge (a : Int) (b : Int)] ++ s.undo } := by
    simp only [s1, hsrc, hdst]; rfl
  rw [← hs1] at hsi habs hund
  have he0 : e ≠ 0 := by intro h; subst h; rw [hi.sinv.wf.slot0] at he; simp at he
  have hid : (-(e : Int)) ≠ 0 := by omega
  have hsig : (-(e : Int)) = aidOf s.abs (-(e : Int)).natAbs := by
    simp only [Int.natAbs_neg, Int.natAbs_natCast, aidOf]
    have : s.abs.kind e ≠ .node := by show s.graph.kind e ≠ _; rw [he]; simp
    simp [this]
  have hix1 : IxInvG (aidOf s.abs) s1.abs := hi.binv.ix.congr (by rw [habs]; simp [aundo]) (by rw [habs]; simp [aundo])
  obtain ⟨r1, r2, r3, r4, r5, r6⟩ := und_removeAllValues (aidOf s.abs) (-(e : Int)) hid hsig s1 hsi hix1
  have hK : ∀ j, (Db.removeEdgeFull e s).graph.kind j = if j = e then .free else s.graph.kind j := by
    intro j
    show (Db.removeAllValues (-(e : Int)) s1).graph.kind j = _
    rw [r4]
    have := congrArg (fun A => A.kind j) habs
    simp only [aundo, Int.natAbs_neg, Int.natAbs_natCast] at this
    exact this
  refine ⟨⟨⟨r1, ?_⟩, hund.trans r3⟩, hK, by show (Db.removeAllValues (-(e : Int)) s1).aliases = _; rw [r5]⟩
  show BInv (Db.removeAllValues (-(e : Int)) s1).abs
  have hkv : ∀ j k, (Db.removeAllValues (-(e : Int)) s1).abs.kv j k = if j = e then none else s.abs.kv j k := by
    intro j k; rw [r6]; simp only [Int.natAbs_neg, Int.natAbs_natCast]
    split
    · rfl
    · have := congrArg (fun A => A.kv j k) habs; simp only [aundo] at this; exact this
  have hkind : ∀ j, (Db.removeAllValues (-(e : Int)) s1).abs.kind j = if j = e then .free else s.abs.kind j := hK
  have halias : (Db.removeAllValues (-(e : Int)) s1).abs.alias = s.abs.alias := by
    funext x; show aliasValue (Db.removeAllValues (-(e : Int)) s1).aliases x = aliasValue s.aliases x; rw [r5]
  refine ⟨?_, ?_, ?_⟩
  · refine r2.swap ?_
    intro i _
    simp only [aidOf, hkind]
    by_cases h : i = e
    · subst h
      have : s.abs.kind i ≠ .node := by show s.graph.kind i ≠ _; rw [he]; simp
      simp [this]
    · simp [h]
  · intro i hk k
    rw [hkv]; rw [hkind] at hk
    by_cases h : i = e
    · simp [h]
    · simp only [h, if_false] at hk ⊢; exact hi.binv.k2 i hk k
  · intro x id hx
    rw [halias] at hx
    have := hi.binv.a2 x id hx
    refine ⟨this.1, ?_⟩
    rw [hkind]
    have hne : id.natAbs ≠ e := by
      intro h; rw [h] at this
      have h2 : s.graph.kind e = .node := this.2
      rw [he] at h2; simp at h2
    simp [hne, this.2]

/-- `graph.remove_node` + values of a node that has no edges and no alias left -/
theorem fwd_removeBareNode (s : Db) (hi : s.Inv) (n : Nat) (hn : s.graph.kind n = .node)
    (hne : ∀ e a b, s.graph.kind e = .edge a b → a ≠ n ∧ b ≠ n)
    (hna : ∀ x, aliasValue s.aliases x ≠ some (n : Int)) :
    Fwd s (Db.removeBareNode n s) ∧ (Db.removeBareNode n s).graph.kind n = .free := by
  have hok := step_removeNode s.abs n hn
  have hp : pre (.removeNode (n : Int)) s.abs := by
    simp only [pre, Int.natAbs_natCast]; exact ⟨hn, hne⟩
  have hu : Db.undoCmd (.removeNode (n : Int)) s = some { s with graph := s.graph.removeNode n } := by
    simp [Db.undoCmd]
  obtain ⟨hsi, habs, hund⟩ := und_of_cmd s _ (.removeNode (n : Int)) _ hi.sinv hp hu hok
  let s1 : Db := { s with graph := s.graph.removeNode n, undo := Cmd.insertNode :: s.undo }
  have hs1 : s1 = { ({ s with graph := s.graph.removeNode n } : Db) with undo := [Cmd.insertNode] ++ s.undo } := rfl
  rw [← hs1] at hsi habs hund
  have hn0 : n ≠ 0 := by intro h; subst h; rw [hi.sinv.wf.slot0] at hn; simp at hn
  have hid : ((n : Nat) : Int) ≠ 0 := by omega
  have hsig : ((n : Nat) : Int) = aidOf s.abs ((n : Nat) : Int).natAbs := by
    simp only [Int.natAbs_natCast, aidOf]
    have : s.abs.kind n = .node := hn
    simp [this]
  have hix1 : IxInvG (aidOf s.abs) s1.abs := hi.binv.ix.congr (by rw [habs]; simp [aundo]) (by rw [habs]; simp [aundo])
  obtain ⟨r1, r2, r3, r4, r5, r6⟩ := und_removeAllValues (aidOf s.abs) (n : Int) hid hsig s1 hsi hix1
  refine ⟨⟨⟨r1, ?_⟩, hund.trans r3⟩, ?_⟩
  rotate_left
  · show (Db.removeAllValues (n : Int) s1).graph.kind n = .free
    rw [r4]
    have := congrArg (fun A => A.kind n) habs
    simp only [aundo, Int.natAbs_natCast, if_true] at this
    exact this
  show BInv (Db.removeAllValues (n : Int) s1).abs
  have hkind : ∀ j, (Db.removeAllValues (n : Int) s1).abs.kind j = if j = n then .free else s.abs.kind j := by
    intro j
    show (Db.removeAllValues (n : Int) s1).graph.kind j = _
    rw [r4]
    have := congrArg (fun A => A.kind j) habs
    simp only [aundo, Int.natAbs_natCast] at this
    exact this
  have hkv : ∀ j k, (Db.removeAllValues (n : Int) s1).abs.kv j k = if j = n then none else s.abs.kv j k := by
    intro j k; rw [r6]; simp only [Int.natAbs_natCast]
    split
    · rfl
    · have := congrArg (fun A => A.kv j k) habs; simp only [aundo] at this; exact this
  have halias : (Db.removeAllValues (n : Int) s1).abs.alias = s.abs.alias := by
    funext x; show aliasValue (Db.removeAllValues (n : Int) s1).aliases x = aliasValue s.aliases x; rw [r5]
  refine ⟨?_, ?_, ?_⟩
  · refine r2.swap ?_
    intro i ⟨k, hk⟩
    rw [hkv] at hk
    have h : i ≠ n := by intro h; simp [h] at hk
    simp [aidOf, hkind, h]
  · intro i hk k
    rw [hkv]; rw [hkind] at hk
    by_cases h : i = n
    · simp [h]
    · simp only [h, if_false] at hk ⊢; exact hi.binv.k2 i hk k
  · intro x id hx
    rw [halias] at hx
    have := hi.binv.a2 x id hx
    refine ⟨this.1, ?_⟩
    rw [hkind]
    have hne' : id.natAbs ≠ n := by
      intro h
      have : id = (n : Int) := by omega
      rw [this] at hx; exact hna x hx
    simp [hne', this.2]

/-- removal of an alias (also the alias part of `remove_node`) -/
theorem fwd_dropAlias (s : Db) (hi : s.Inv) (a : String) (id : Int) (ha : aliasValue s.aliases a = some id) :
    Fwd s { s with aliases := aliasRemoveKey s.aliases a, undo := Cmd.insertAlias a id :: s.undo } := by
  have g := ga_of_sinv hi.sinv
  have hok := step_removeAlias s.abs g a id ha
  obtain ⟨hsi, habs, hund⟩ := und_of_cmd s _ (.removeAlias a) _ hi.sinv trivial rfl hok
  refine ⟨⟨hsi, ?_⟩, hund⟩
  have habs' : ({ s with aliases := aliasRemoveKey s.aliases a, undo := Cmd.insertAlias a id :: s.undo } : Db).abs
      = aundo (.removeAlias a) s.abs := habs
  rw [habs']
  refine ⟨hi.binv.ix.congr rfl rfl, hi.binv.k2, ?_⟩
  intro x j hx
  simp only [aundo] at hx
  by_cases h : x = a
  · simp [h] at hx
  · simp only [h, if_false] at hx; exact hi.binv.a2 x j hx

theorem fwd_removeAlias (s : Db) (hi : s.Inv) (a : String) : Fwd s (Db.removeAlias a s).2 := by
  unfold Db.removeAlias
  cases h : aliasValue s.aliases a with
  | none => exact Fwd.refl hi
  | some id => exact fwd_dropAlias s hi a id h

/-- `insert_new_alias` on an unused alias for an element without alias -/
theorem fwd_insertNewAlias (s : Db) (hi : s.Inv) (id : Int) (a : String) (hpos : 0 < id)
    (hnode : s.graph.kind id.natAbs = .node) (hnone : aliasValue s.aliases a = none)
    (hno : ∀ x, aliasValue s.aliases x ≠ some id) : Fwd s (Db.insertNewAlias id a s).2 := by
  have hok := step_newAlias s.abs a id hnone hno
  obtain ⟨hsi, habs, hund⟩ := und_of_cmd s _ (.insertAlias a id) _ hi.sinv trivial rfl hok
  have habs' : (Db.insertNewAlias id a s).2.abs = aundo (.insertAlias a id) s.abs := habs
  refine ⟨⟨hsi, ?_⟩, hund⟩
  rw [habs']
  refine ⟨hi.binv.ix.congr rfl rfl, hi.binv.k2, ?_⟩
  intro x j hx
  simp only [aundo] at hx
  by_cases h : x = a
  · simp [h] at hx; subst hx; exact ⟨hpos, hnode⟩
  · simp only [h, if_false] at hx
    split at hx
    · simp at hx
    · exact hi.binv.a2 x j hx

theorem aliasInsert_removeKey (al : Aliases) (a : String) (id : Int) :
    aliasInsert (aliasRemoveKey al a) a id = aliasInsert al a id := by
  unfold aliasInsert aliasRemoveKey
  rw [List.filter_filter]
  congr 1
  apply List.filter_congr
  intro p _
  by_cases h1 : p.1 = a <;> by_cases h2 : p.2 = id <;> simp [h1, h2]

theorem no_alias_after_drop (al : Aliases) (hb : AliasBij al) (old : String) (id : Int)
    (h : aliasKey al id = some old) : ∀ x, aliasValue (aliasRemoveKey al old) x ≠ some id := by
  intro x hx
  have hb' := AliasBij.removeKey al old hb
  have hm := (aliasValue_eq_some _ hb'.1 x id).mp hx
  obtain ⟨hm1, hne⟩ := (mem_aliasRemoveKey al old x id).mp hm
  have h1 := (aliasKey_eq_some al hb.2 x id).mpr hm1
  rw [h] at h1; cases h1; exact hne rfl

theorem no_alias_of_key_none (al : Aliases) (hb : AliasBij al) (id : Int)
    (h : aliasKey al id = none) : ∀ x, aliasValue al x ≠ some id := by
  intro x hx
  exact (aliasKey_eq_none al id).mp h x ((aliasValue_eq_some al hb.1 x id).mp hx)

/-- `insert_alias` (with the owner record) -/
theorem fwd_insertAlias (s : Db) (hi : s.Inv) (id : Int) (a : String) (hpos : 0 < id)
    (hnode : s.graph.kind id.natAbs = .node) : Fwd s (Db.insertAlias id a s).2 := by
  -- step 1: drop the element's previous alias
  have step1 : ∃ s1 : Db, Fwd s s1 ∧ s1.graph = s.graph ∧ (∀ x, aliasValue s1.aliases x ≠ some id) ∧
      (match aliasKey s.aliases id with
        | some old => (aliasRemoveKey s.aliases old, Cmd.insertAlias old id :: s.undo)
        | none => (s.aliases, s.undo)) = (s1.aliases, s1.undo) ∧
      s1.indexes = s.indexes ∧ s1.values = s.values := by
    cases hk : aliasKey s.aliases id with
    | none => exact ⟨s, Fwd.refl hi, rfl, no_alias_of_key_none _ hi.sinv.aliasBij id hk, rfl, rfl, rfl⟩
    | some old =>
      have hv : aliasValue s.aliases old = some id :=
        (aliasValue_eq_some _ hi.sinv.aliasBij.1 old id).mpr ((aliasKey_eq_some _ hi.sinv.aliasBij.2 old id).mp hk)
      exact ⟨_, fwd_dropAlias s hi old id hv, rfl, no_alias_after_drop _ hi.sinv.aliasBij old id hk, rfl, rfl, rfl⟩
  obtain ⟨s1, f1, g1, hno1, e1, i1, v1⟩ := step1
  -- step 2: take the alias away from its previous owner
  have step2 : ∃ s2 : Db, Fwd s1 s2 ∧ s2.graph = s1.graph ∧ (∀ x, aliasValue s2.aliases x ≠ some id) ∧
      aliasValue s2.aliases a = none ∧ aliasInsert s2.aliases a id = aliasInsert s1.aliases a id ∧
      s2.undo = (match aliasValue s1.aliases a with
        | some owner => Cmd.insertAlias a owner :: s1.undo
        | none => s1.undo) ∧ s2.indexes = s1.indexes ∧ s2.values = s1.values := by
    cases hv : aliasValue s1.aliases a with
    | none => exact ⟨s1, Fwd.refl f1.1, rfl, hno1, hv, rfl, rfl, rfl, rfl⟩
    | some owner =>
      refine ⟨_, fwd_dropAlias s1 f1.1 a owner hv, rfl, ?_, ?_, aliasInsert_removeKey _ _ _, rfl, rfl, rfl⟩
      · intro x hx
        rw [abs_alias_removeKey _ f1.1.sinv.aliasBij] at hx
        split at hx
        · simp at hx
        · exact hno1 x hx
      · rw [abs_alias_removeKey _ f1.1.sinv.aliasBij]; simp
  obtain ⟨s2, f2, g2, hno2, hnone2, e2, u2, i2, v2⟩ := step2
  have hnode2 : s2.graph.kind id.natAbs = .node := by rw [g2, g1]; exact hnode
  have f3 := fwd_insertNewAlias s2 f2.1 id a hpos hnode2 hnone2 hno2
  have hfinal : (Db.insertAlias id a s).2 = (Db.insertNewAlias id a s2).2 := by
    unfold Db.insertAlias Db.insertNewAlias
    simp only
    have ea : s1.aliases = (match aliasKey s.aliases id with
        | some old => (aliasRemoveKey s.aliases old, Cmd.insertAlias old id :: s.undo)
        | none => (s.aliases, s.undo)).1 := by rw [e1]
    have eu : s1.undo = (match aliasKey s.aliases id with
        | some old => (aliasRemoveKey s.aliases old, Cmd.insertAlias old id :: s.undo)
        | none => (s.aliases, s.undo)).2 := by rw [e1]
    cases s2 with
    | mk g2' a2' i2' v2' u2' =>
      simp only at g2 e2 u2 i2 v2 ⊢
      subst g2 i2 v2
      rw [e2, u2, ea, eu, g1, i1, v1]
      cases aliasKey s.aliases id <;> rfl
  rw [hfinal]
  exact (f1.trans f2).trans f3

/-! ### indexes -/

theorem filter_key_eq (l : List KV) (hn : (keysOf l).Nodup) (k : Val) :
    l.filter (fun kv => decide (kv.1 = k)) = match kvFind l k with
      | some v => [(k, v)]
      | none => [] := by
  induction l with
  | nil => simp [kvFind]
  | cons p rest ih =>
    obtain ⟨a, b⟩ := p
    simp only [keysOf, List.map_cons, List.nodup_cons] at hn
    simp only [List.filter_cons, kvFind]
    by_cases h : a = k
    · subst h
      simp only [decide_true, if_true]
      have : kvFind rest a = none := (kvFind_none_iff _ _).mpr hn.1
      rw [ih hn.2, this]
    · simp only [h, decide_false, if_false]
      exact ih hn.2

theorem idOfSlot_natAbs (g : Graph) (i : Nat) : (Db.idOfSlot g i).natAbs = i := by
  unfold Db.idOfSlot; split <;> simp

theorem count_backfill_piece (s : Db) (hn : ∀ i, (keysOf (kvGet s.values i)).Nodup) (k v : Val) (id : Int) (i : Nat) :
    (if i = 0 then [] else
      ((kvGet s.values i).filter (fun kv => decide (kv.1 = k))).map (fun kv => (kv.2, Db.idOfSlot s.graph i))).count (v, id)
    = if (i ≠ 0 ∧ kvFind (kvGet s.values i) k = some v ∧ id = Db.idOfSlot s.graph i) then 1 else 0 := by
  by_cases hi : i = 0
  · simp [hi]
  · simp only [hi, if_false, ne_eq, not_false_eq_true, true_and]
    rw [filter_key_eq _ (hn i)]
    cases hf : kvFind (kvGet s.values i) k with
    | none => simp
    | some v' =>
      simp only [List.map_cons, List.map_nil, List.count_cons, List.count_nil, Option.some.injEq]
      by_cases hv : v' = v
      · subst hv
        by_cases hid : id = Db.idOfSlot s.graph i
        · subst hid; simp
        · have : ((v', Db.idOfSlot s.graph i) == (v', id)) = false := by
            simp; intro h; exact hid h.symm
          simp [hid, this]
      · have : ((v', Db.idOfSlot s.graph i) == (v, id)) = false := by
          simp; intro h; exact absurd h hv
        simp [hv, this]

theorem count_backfill_upto (s : Db) (hn : ∀ i, (keysOf (kvGet s.values i)).Nodup) (k v : Val) (id : Int) (n : Nat) :
    ((List.range n).flatMap (fun i => if i = 0 then [] else
      ((kvGet s.values i).filter (fun kv => decide (kv.1 = k))).map (fun kv => (kv.2, Db.idOfSlot s.graph i)))).count (v, id)
    = if (id ≠ 0 ∧ id.natAbs < n ∧ kvFind (kvGet s.values id.natAbs) k = some v ∧ id = Db.idOfSlot s.graph id.natAbs)
      then 1 else 0 := by
  induction n with
  | zero => simp
  | succ n ih =>
    rw [List.range_succ, List.flatMap_append, List.count_append, ih]
    simp only [List.flatMap_cons, List.flatMap_nil, List.append_nil]
    rw [count_backfill_piece s hn k v id n]
    by_cases hid : id = Db.idOfSlot s.graph n
    · have hna : id.natAbs = n := by rw [hid]; exact idOfSlot_natAbs _ _
      have h0 : id ≠ 0 ↔ n ≠ 0 := by rw [← hna]; omega
      by_cases hn0 : n = 0
      · have : id = 0 := by omega
        simp [hn0, this]
      · have : id ≠ 0 := h0.mpr hn0
        simp only [hna, Nat.lt_irrefl, false_and, and_false, if_false, Nat.zero_add, hn0, ne_eq,
          not_false_eq_true, true_and, this, Nat.lt_succ_self, ← hid]
    · have hne : id.natAbs = n → id ≠ Db.idOfSlot s.graph id.natAbs := by intro h; rw [h]; exact hid
      by_cases hlt : id.natAbs < n
      · have : id.natAbs < n + 1 := by omega
        simp [hid, hlt, this]
      · by_cases heq : id.natAbs = n
        · have := hne heq
          simp [hid, hlt, this]
        · have : ¬ id.natAbs < n + 1 := by omega
          simp [hid, hlt, this]

theorem countFn_backfill (s : Db) (hi : s.SInv) (k v : Val) (id : Int) :
    countFn (Db.backfill s k) v id =
      if (id ≠ 0 ∧ s.abs.kv id.natAbs k = some v ∧ id = aidOf s.abs id.natAbs) then 1 else 0 := by
  unfold countFn Db.backfill
  rw [count_backfill_upto s hi.kvNodup k v id s.values.length]
  have haid : Db.idOfSlot s.graph id.natAbs = aidOf s.abs id.natAbs := by
    unfold Db.idOfSlot aidOf
    by_cases h : s.graph.isNode id.natAbs = true
    · have := (Graph.isNode_iff _ _).mp h
      have h2 : s.abs.kind id.natAbs = .node := this
      simp [h, h2]
    · have h2 : s.abs.kind id.natAbs ≠ .node := fun hh => h ((Graph.isNode_iff _ _).mpr hh)
      simp [h, h2]
  rw [haid]
  show _ = if (id ≠ 0 ∧ kvFind (kvGet s.values id.natAbs) k = some v ∧ id = aidOf s.abs id.natAbs) then 1 else 0
  by_cases hlt : id.natAbs < s.values.length
  · simp [hlt]
  · have : kvGet s.values id.natAbs = [] := by
      unfold kvGet; simp [List.getD_eq_getElem?_getD, List.getElem?_eq_none (Nat.le_of_not_lt hlt)]
    simp [hlt, this, kvFind]

theorem fwd_insertIndex (s : Db) (hi : s.Inv) (k : Val) : Fwd s (Db.insertIndex k s).2 := by
  unfold Db.insertIndex
  cases hf : ixFind s.indexes k with
  | some l => exact Fwd.refl hi
  | none =>
    simp only
    have hidx : ∀ k', ({ s with indexes := s.indexes ++ [(k, Db.backfill s k)], undo := Cmd.removeIndex k :: s.undo } : Db).abs.index k'
        = if k' = k then some (countFn (Db.backfill s k)) else s.abs.index k' := by
      intro k'
      show (ixFind (s.indexes ++ [(k, Db.backfill s k)]) k').map countFn = _
      rw [ixFind_append]
      by_cases hk : k' = k
      · subst hk; simp [hf]
      · cases h : ixFind s.indexes k' with
        | none => simp [hk, Ne.symm hk, Db.abs, h]
        | some l => simp [hk, Db.abs, h]
    have hnone : s.abs.index k = none := by show (ixFind s.indexes k).map countFn = none; rw [hf]; rfl
    refine ⟨⟨⟨hi.sinv.wf, hi.sinv.kvNodup, hi.sinv.aliasBij, nodup_ixKeys_append _ k _ hi.sinv.ixNodup hf⟩, ?_⟩,
      ⟨⟨[Cmd.removeIndex k], rfl, step_insertIndex s.abs _ k _ hnone rfl rfl rfl rfl rfl hidx⟩, GReach.refl _⟩⟩
    refine ⟨?_, hi.binv.k2, hi.binv.a2⟩
    intro k' m hm v id
    rw [hidx] at hm
    by_cases hk : k' = k
    · subst hk; simp only [if_true, Option.some.injEq] at hm; subst hm
      exact countFn_backfill s hi.sinv k' v id
    · simp only [hk, if_false] at hm; exact hi.binv.ix k' m hm v id

theorem fwd_removeIndex (s : Db) (hi : s.Inv) (k : Val) : Fwd s (Db.removeIndex k s).2 := by
  unfold Db.removeIndex
  cases hf : ixFind s.indexes k with
  | none => exact Fwd.refl hi
  | some l =>
    simp only
    have hl : s.abs.index k = some (countFn l) := by show (ixFind s.indexes k).map countFn = _; rw [hf]; rfl
    have hok := step_removeIndex s.abs k l hl
    obtain ⟨hsi, habs, hund⟩ := und_of_cmd s _ (.removeIndex k) _ hi.sinv trivial rfl hok
    have hc : ({ s with
          indexes := ixRemove s.indexes k
          undo := Cmd.insertIndex k :: ((l.map (fun p => Cmd.insertToIndex k p.1 p.2)).reverse ++ s.undo) } : Db)
        = { ({ s with indexes := ixRemove s.indexes k } : Db) with
            undo := (Cmd.insertIndex k :: (l.map (fun p => Cmd.insertToIndex k p.1 p.2)).reverse) ++ s.undo } := rfl
    rw [hc]
    refine ⟨⟨hsi, ?_⟩, hund⟩
    rw [habs]
    refine ⟨?_, hi.binv.k2, hi.binv.a2⟩
    intro k' m hm v id
    simp only [aundo] at hm ⊢
    by_cases hk : k' = k
    · simp [hk] at hm
    · simp only [hk, if_false] at hm; exact hi.binv.ix k' m hm v id

/-! ### element removal -/

theorem mem_nodeEdges (g : Graph) (w : g.WF) (n e : Nat) :
    e ∈ Db.nodeEdges g n ↔ ∃ a b, g.kind e = .edge a b ∧ (a = n ∨ b = n) := by
  unfold Db.nodeEdges
  rw [List.mem_append, List.mem_filter, w.out_iff, w.in_iff]
  constructor
  · rintro (⟨d, hd⟩ | ⟨⟨a, ha⟩, _⟩)
    · exact ⟨n, d, hd, Or.inl rfl⟩
    · exact ⟨a, n, ha, Or.inr rfl⟩
  · rintro ⟨a, b, hk, hab⟩
    by_cases ha : a = n
    · subst ha; exact Or.inl ⟨b, hk⟩
    · rcases hab with h | h
      · exact absurd h ha
      · subst h
        refine Or.inr ⟨⟨a, hk⟩, ?_⟩
        rw [Graph.srcOf_of_kind g e a b hk]; simp [ha]

theorem nodup_nodeEdges (g : Graph) (w : g.WF) (n : Nat) : (Db.nodeEdges g n).Nodup := by
  unfold Db.nodeEdges
  rw [List.nodup_append]
  refine ⟨w.out_nodup n, (w.in_nodup n).filter _, ?_⟩
  intro a ha b hb hab
  subst hab
  obtain ⟨d, hd⟩ := (w.out_iff n a).mp ha
  have := (List.mem_filter.mp hb).2
  rw [Graph.srcOf_of_kind g a n d hd] at this
  simp at this

theorem fwd_removeEdges : ∀ (l : List Nat) (s : Db), s.Inv → l.Nodup →
    (∀ e ∈ l, ∃ a b, s.graph.kind e = .edge a b) →
    Fwd s (l.foldl (fun s e => Db.removeEdgeFull e s) s) ∧
    (∀ j, (l.foldl (fun s e => Db.removeEdgeFull e s) s).graph.kind j = if j ∈ l then .free else s.graph.kind j) ∧
    (l.foldl (fun s e => Db.removeEdgeFull e s) s).aliases = s.aliases := by
  intro l
  induction l with
  | nil => intro s hi _ _; exact ⟨Fwd.refl hi, by simp, rfl⟩
  | cons e rest ih =>
    intro s hi hnd hall
    simp only [List.foldl_cons]
    obtain ⟨a, b, he⟩ := hall e (by simp)
    obtain ⟨f1, k1, a1⟩ := fwd_removeEdgeFull s hi e a b he
    have hnd' := List.nodup_cons.mp hnd
    have hall' : ∀ e' ∈ rest, ∃ a b, (Db.removeEdgeFull e s).graph.kind e' = .edge a b := by
      intro e' he'
      have : e' ≠ e := by intro h; subst h; exact hnd'.1 he'
      rw [k1]; simp only [this, if_false]
      exact hall e' (List.mem_cons_of_mem _ he')
    obtain ⟨f2, k2, a2⟩ := ih (Db.removeEdgeFull e s) f1.1 hnd'.2 hall'
    refine ⟨f1.trans f2, ?_, by rw [a2, a1]⟩
    intro j; rw [k2, k1]
    by_cases hj : j = e
    · subst hj; simp
    · simp only [List.mem_cons, hj, false_or, if_false]

/-- `DbImpl::remove_node` + `remove_all_values` (the alias handed in is the node's alias, if it has one) -/
theorem fwd_removeNodeFull (s : Db) (hi : s.Inv) (id : Int) (alias : Option String) (hpos : 0 < id)
    (hal : match alias with
      | some a => aliasValue s.aliases a = some id
      | none => ∀ x, aliasValue s.aliases x ≠ some id) :
    Fwd s (Db.removeNodeFull id alias s).2 ∧
    ((Db.removeNodeFull id alias s).1 = .ok () → (Db.removeNodeFull id alias s).2.graph.kind id.natAbs = .free) := by
  -- alias part
  have step1 : Fwd s (Db.dropAlias id alias s) ∧ (Db.dropAlias id alias s).graph = s.graph ∧
      (∀ x, aliasValue (Db.dropAlias id alias s).aliases x ≠ some id) := by
    cases alias with
    | none => exact ⟨Fwd.refl hi, rfl, hal⟩
    | some a =>
      refine ⟨fwd_dropAlias s hi a id hal, rfl, ?_⟩
      intro x hx
      have hx' : aliasValue (aliasRemoveKey s.aliases a) x = some id := hx
      rw [abs_alias_removeKey _ hi.sinv.aliasBij] at hx'
      split at hx'
      · simp at hx'
      · rename_i hne
        exact hne (alias_inj _ hi.sinv.aliasBij x a id hx' hal)
  obtain ⟨f1, g1, hno⟩ := step1
  unfold Db.removeNodeFull
  simp only
  generalize Db.dropAlias id alias s = s1 at *
  by_cases hnode : s1.graph.isNode id.natAbs = true
  · simp only [hnode, if_true]
    have hk : s1.graph.kind id.natAbs = .node := (Graph.isNode_iff _ _).mp hnode
    have w := f1.1.sinv.wf
    obtain ⟨f2, k2, a2⟩ := fwd_removeEdges (Db.nodeEdges s1.graph id.natAbs) s1 f1.1 (nodup_nodeEdges _ w _)
      (fun e he => by
        obtain ⟨a, b, h, _⟩ := (mem_nodeEdges _ w _ e).mp he
        exact ⟨a, b, h⟩)
    generalize hs2 : (Db.nodeEdges s1.graph id.natAbs).foldl (fun s e => Db.removeEdgeFull e s) s1 = s2 at *
    have hn2 : s2.graph.kind id.natAbs = .node := by
      rw [k2]
      have : id.natAbs ∉ Db.nodeEdges s1.graph id.natAbs := by
        intro hm
        obtain ⟨a, b, h, _⟩ := (mem_nodeEdges _ w _ _).mp hm
        rw [hk] at h; simp at h
      simp [this, hk]
    have hne2 : ∀ e a b, s2.graph.kind e = .edge a b → a ≠ id.natAbs ∧ b ≠ id.natAbs := by
      intro e a b h
      rw [k2] at h
      by_cases hm : e ∈ Db.nodeEdges s1.graph id.natAbs
      · simp [hm] at h
      · simp only [hm, if_false] at h
        constructor
        · intro ha; exact hm ((mem_nodeEdges _ w _ e).mpr ⟨a, b, h, Or.inl ha⟩)
        · intro hb; exact hm ((mem_nodeEdges _ w _ e).mpr ⟨a, b, h, Or.inr hb⟩)
    have hna2 : ∀ x, aliasValue s2.aliases x ≠ some ((id.natAbs : Nat) : Int) := by
      intro x; rw [a2]
      have : ((id.natAbs : Nat) : Int) = id := by omega
      rw [this]; exact hno x
    have f3 := fwd_removeBareNode s2 f2.1 id.natAbs hn2 hne2 hna2
    exact ⟨(f1.trans f2).trans f3.1, fun _ => f3.2⟩
  · simp only [hnode]
    exact ⟨f1, fun h => by simp at h⟩

theorem fwd_removeId (s : Db) (hi : s.Inv) (id : Int) : Fwd s (Db.removeId id s).2 := by
  unfold Db.removeId
  cases hg : s.graphIndex id with
  | error e => exact Fwd.refl hi
  | ok x =>
    simp only
    by_cases hpos : 0 < id
    · simp only [hpos, if_true]
      have hal : match aliasKey s.aliases id with
          | some a => aliasValue s.aliases a = some id
          | none => ∀ x, aliasValue s.aliases x ≠ some id := by
        cases hk : aliasKey s.aliases id with
        | none => exact no_alias_of_key_none _ hi.sinv.aliasBij id hk
        | some a =>
          exact (aliasValue_eq_some _ hi.sinv.aliasBij.1 a id).mpr ((aliasKey_eq_some _ hi.sinv.aliasBij.2 a id).mp hk)
      have := (fwd_removeNodeFull s hi id (aliasKey s.aliases id) hpos hal).1
      generalize Db.removeNodeFull id (aliasKey s.aliases id) s = r at *
      obtain ⟨r1, r2⟩ := r
      cases r1 <;> exact this
    · simp only [hpos, if_false]
      have hneg : id < 0 := by
        unfold Db.graphIndex at hg
        by_cases h : id < 0
        · exact h
        · simp [h, hpos] at hg
      have hedge : s.graph.isEdge id.natAbs = true := by
        unfold Db.graphIndex at hg
        simp only [hneg, if_true] at hg
        by_cases h : s.graph.isEdge id.natAbs = true
        · exact h
        · simp [h] at hg
      obtain ⟨a, b, he⟩ := (Graph.isEdge_iff _ _).mp hedge
      exact (fwd_removeEdgeFull s hi id.natAbs a b he).1

theorem fwd_remove (s : Db) (hi : s.Inv) (q : QId) : Fwd s (Db.remove q s).2 := by
  cases q with
  | id i => exact fwd_removeId s hi i
  | alias a =>
    cases hv : aliasValue s.aliases a with
    | none => simp only [Db.remove, hv]; exact Fwd.refl hi
    | some id =>
      simp only [Db.remove, hv]
      have hpos := (hi.binv.a2 a id hv).1
      have := (fwd_removeNodeFull s hi id (some a) hpos hv).1
      generalize Db.removeNodeFull id (some a) s = r at *
      obtain ⟨r1, r2⟩ := r
      cases r1 <;> exact this

end AgdbDb
