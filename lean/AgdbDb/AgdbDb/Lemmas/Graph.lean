import AgdbDb.Model.Graph
namespace AgdbDb

/-- what a slot holds, without the adjacency chains -/
inductive Kind
  | free
  | node
  | edge (s d : Nat)
deriving DecidableEq, Repr

def Slot.kind : Slot → Kind
  | .free => .free
  | .node _ _ => .node
  | .edge s d => .edge s d

def Slot.outs : Slot → List Nat
  | .node o _ => o
  | _ => []

def Slot.inns : Slot → List Nat
  | .node _ i => i
  | _ => []

namespace Graph

def kind (g : Graph) (i : Nat) : Kind := (g.slot i).kind

/-- the sequence of indexes the next `get_free_index` calls will return -/
def alloc (g : Graph) (n : Nat) : Nat := g.free.getD n (g.slots.length + (n - g.free.length))

theorem outOf_eq (g : Graph) (n : Nat) : g.outOf n = (g.slot n).outs := by
  unfold outOf Slot.outs; cases g.slot n <;> rfl

theorem inOf_eq (g : Graph) (n : Nat) : g.inOf n = (g.slot n).inns := by
  unfold inOf Slot.inns; cases g.slot n <;> rfl

theorem isNode_iff (g : Graph) (n : Nat) : g.isNode n = true ↔ g.kind n = .node := by
  unfold isNode kind Slot.kind; cases g.slot n <;> simp

theorem isEdge_iff (g : Graph) (n : Nat) : g.isEdge n = true ↔ ∃ s d, g.kind n = .edge s d := by
  unfold isEdge kind Slot.kind; cases g.slot n <;> simp

theorem srcOf_of_kind (g : Graph) (e s d : Nat) (h : g.kind e = .edge s d) : g.srcOf e = s := by
  unfold kind Slot.kind at h; unfold srcOf; cases hs : g.slot e <;> simp_all

theorem dstOf_of_kind (g : Graph) (e s d : Nat) (h : g.kind e = .edge s d) : g.dstOf e = d := by
  unfold kind Slot.kind at h; unfold dstOf; cases hs : g.slot e <;> simp_all

theorem slot_of_kind_edge (g : Graph) (e s d : Nat) (h : g.kind e = .edge s d) : g.slot e = .edge s d := by
  unfold kind Slot.kind at h; cases hs : g.slot e <;> simp_all

theorem slot_of_kind_free (g : Graph) (e : Nat) (h : g.kind e = .free) : g.slot e = .free := by
  unfold kind Slot.kind at h; cases hs : g.slot e <;> simp_all

theorem slot_of_kind_node (g : Graph) (n : Nat) (h : g.kind n = .node) : g.slot n = .node (g.outOf n) (g.inOf n) := by
  unfold kind Slot.kind at h; unfold outOf inOf; cases hs : g.slot n <;> simp_all

theorem kind_free_of_ge (g : Graph) (i : Nat) (h : g.slots.length ≤ i) : g.kind i = .free := by
  unfold kind slot; simp [List.getD_eq_getElem?_getD, List.getElem?_eq_none h, Slot.kind]

theorem lt_of_kind_ne_free (g : Graph) (i : Nat) (h : g.kind i ≠ .free) : i < g.slots.length := by
  apply Classical.byContradiction; intro hn; exact h (kind_free_of_ge g i (Nat.le_of_not_lt hn))

theorem outOf_nil_of_not_node (g : Graph) (n : Nat) (h : g.kind n ≠ .node) : g.outOf n = [] := by
  unfold kind Slot.kind at h; unfold outOf; cases hs : g.slot n <;> simp_all

theorem inOf_nil_of_not_node (g : Graph) (n : Nat) (h : g.kind n ≠ .node) : g.inOf n = [] := by
  unfold kind Slot.kind at h; unfold inOf; cases hs : g.slot n <;> simp_all

/-! ### `setSlot` -/

@[simp] theorem setSlot_free (g : Graph) (i : Nat) (s : Slot) : (g.setSlot i s).free = g.free := rfl
@[simp] theorem setSlot_nodeCount (g : Graph) (i : Nat) (s : Slot) : (g.setSlot i s).nodeCount = g.nodeCount := rfl
@[simp] theorem setSlot_length (g : Graph) (i : Nat) (s : Slot) : (g.setSlot i s).slots.length = g.slots.length := by
  simp [setSlot]

theorem slot_setSlot (g : Graph) (i j : Nat) (s : Slot) (h : i < g.slots.length) :
    (g.setSlot i s).slot j = if j = i then s else g.slot j := by
  unfold slot setSlot
  by_cases hj : j = i
  · subst hj; simp [List.getD_eq_getElem?_getD, h]
  · simp [List.getD_eq_getElem?_getD, hj, Ne.symm hj]

theorem kind_setSlot (g : Graph) (i j : Nat) (s : Slot) (h : i < g.slots.length) :
    (g.setSlot i s).kind j = if j = i then s.kind else g.kind j := by
  unfold kind; rw [slot_setSlot g i j s h]; split <;> rfl

theorem outOf_setSlot (g : Graph) (i j : Nat) (s : Slot) (h : i < g.slots.length) :
    (g.setSlot i s).outOf j = if j = i then s.outs else g.outOf j := by
  rw [outOf_eq, outOf_eq, slot_setSlot g i j s h]; split <;> rfl

theorem inOf_setSlot (g : Graph) (i j : Nat) (s : Slot) (h : i < g.slots.length) :
    (g.setSlot i s).inOf j = if j = i then s.inns else g.inOf j := by
  rw [inOf_eq, inOf_eq, slot_setSlot g i j s h]; split <;> rfl

/-! ### counting node slots -/

/-- number of slots that hold a node -/
def nodeSlots (g : Graph) : Nat := (List.range g.slots.length).countP (fun i => g.isNode i)

theorem countP_range_agree (p q : Nat → Bool) : ∀ n, (∀ j, j < n → q j = p j) →
    (List.range n).countP q = (List.range n).countP p := by
  intro n
  induction n with
  | zero => intro _; rfl
  | succ n ih =>
    intro h
    rw [List.range_succ, List.countP_append, List.countP_append, ih (fun j hj => h j (by omega))]
    simp [List.countP_cons, h n (by omega)]

theorem countP_range_update (p q : Nat → Bool) (i : Nat) : ∀ n, (∀ j, j < n → j ≠ i → q j = p j) → i < n →
    (List.range n).countP q + (if p i then 1 else 0) = (List.range n).countP p + (if q i then 1 else 0) := by
  intro n
  induction n with
  | zero => intro _ h; omega
  | succ n ih =>
    intro h hi
    rw [List.range_succ, List.countP_append, List.countP_append]
    by_cases hin : i = n
    · subst hin
      rw [countP_range_agree p q i (fun j hj => h j (by omega) (by omega))]
      simp only [List.countP_cons, List.countP_nil]
      cases p i <;> cases q i <;> simp
    · have hlt : i < n := by omega
      have := ih (fun j hj hne => h j (by omega) hne) hlt
      have hn : q n = p n := h n (by omega) (fun h' => hin h'.symm)
      simp only [List.countP_cons, List.countP_nil, hn]
      omega

theorem countP_range_extend (p : Nat → Bool) (n : Nat) : ∀ m, n ≤ m → (∀ j, n ≤ j → j < m → p j = false) →
    (List.range m).countP p = (List.range n).countP p := by
  intro m
  induction m with
  | zero => intro h _; have : n = 0 := by omega
            subst this; rfl
  | succ m ih =>
    intro h hf
    by_cases hnm : n = m + 1
    · subst hnm; rfl
    · rw [List.range_succ, List.countP_append, ih (by omega) (fun j h1 h2 => hf j h1 (by omega))]
      simp [List.countP_cons, hf m (by omega) (by omega)]

theorem isNode_eq_of_kind {g g' : Graph} {j : Nat} (h : g'.kind j = g.kind j) : g'.isNode j = g.isNode j := by
  cases h1 : g.isNode j
  · cases h2 : g'.isNode j
    · rfl
    · have := (isNode_iff g' j).mp h2; rw [h] at this
      have := (isNode_iff g j).mpr this; rw [h1] at this; cases this
  · have := (isNode_iff g j).mp h1; rw [← h] at this
    exact (isNode_iff g' j).mpr this

/-- the node-slot count of `g'`, which differs from `g` in slot `i` only (and may be longer by free slots) -/
theorem nodeSlots_update (g g' : Graph) (i : Nat) (hlen : g.slots.length ≤ g'.slots.length) (hi : i < g'.slots.length)
    (hk : ∀ j, j ≠ i → g'.kind j = g.kind j) :
    nodeSlots g' + (if g.kind i = .node then 1 else 0) = nodeSlots g + (if g'.kind i = .node then 1 else 0) := by
  unfold nodeSlots
  have hext : (List.range g'.slots.length).countP (fun j => g.isNode j) = (List.range g.slots.length).countP (fun j => g.isNode j) :=
    countP_range_extend _ _ _ hlen (fun j h1 _ => by
      cases h : g.isNode j
      · rfl
      · have := (isNode_iff g j).mp h; rw [kind_free_of_ge g j h1] at this; cases this)
  have := countP_range_update (fun j => g.isNode j) (fun j => g'.isNode j) i g'.slots.length
    (fun j _ hne => isNode_eq_of_kind (hk j hne)) hi
  rw [hext] at this
  have e1 : (if g.isNode i = true then 1 else 0) = (if g.kind i = .node then 1 else 0) := by
    by_cases h : g.kind i = .node
    · simp [h, (isNode_iff g i).mpr h]
    · have : g.isNode i = false := by
        cases h2 : g.isNode i
        · rfl
        · exact absurd ((isNode_iff g i).mp h2) h
      simp [h, this]
  have e2 : (if g'.isNode i = true then 1 else 0) = (if g'.kind i = .node then 1 else 0) := by
    by_cases h : g'.kind i = .node
    · simp [h, (isNode_iff g' i).mpr h]
    · have : g'.isNode i = false := by
        cases h2 : g'.isNode i
        · rfl
        · exact absurd ((isNode_iff g' i).mp h2) h
      simp [h, this]
  rw [← e1, ← e2]; exact this

/-! ### well-formedness -/

structure WF (g : Graph) : Prop where
  len_pos : 0 < g.slots.length
  slot0 : g.kind 0 = .free
  out_iff : ∀ n e, e ∈ g.outOf n ↔ ∃ d, g.kind e = .edge n d
  in_iff : ∀ n e, e ∈ g.inOf n ↔ ∃ s, g.kind e = .edge s n
  out_nodup : ∀ n, (g.outOf n).Nodup
  in_nodup : ∀ n, (g.inOf n).Nodup
  free_nodup : g.free.Nodup
  free_iff : ∀ i, i ∈ g.free ↔ (0 < i ∧ i < g.slots.length ∧ g.kind i = .free)
  count : g.nodeCount = (nodeSlots g : Int)

theorem wf_empty : WF Graph.empty := by
  refine ⟨by decide, by decide, ?_, ?_, ?_, ?_, by simp [Graph.empty], ?_, by decide⟩
  · intro n e
    have h1 : Graph.empty.outOf n = [] := by
      unfold outOf slot Graph.empty; cases n <;> simp [List.getD_eq_getElem?_getD]
    have h2 : ∀ e, Graph.empty.kind e = .free := by
      intro e; unfold kind slot Graph.empty; cases e <;> simp [List.getD_eq_getElem?_getD, Slot.kind]
    simp [h1, h2]
  · intro n e
    have h1 : Graph.empty.inOf n = [] := by
      unfold inOf slot Graph.empty; cases n <;> simp [List.getD_eq_getElem?_getD]
    have h2 : ∀ e, Graph.empty.kind e = .free := by
      intro e; unfold kind slot Graph.empty; cases e <;> simp [List.getD_eq_getElem?_getD, Slot.kind]
    simp [h1, h2]
  · intro n
    have h1 : Graph.empty.outOf n = [] := by
      unfold outOf slot Graph.empty; cases n <;> simp [List.getD_eq_getElem?_getD]
    simp [h1]
  · intro n
    have h1 : Graph.empty.inOf n = [] := by
      unfold inOf slot Graph.empty; cases n <;> simp [List.getD_eq_getElem?_getD]
    simp [h1]
  · intro i; simp [Graph.empty]; omega

/-- an endpoint of an edge is a node -/
theorem WF.src_node {g : Graph} (w : WF g) {e s d : Nat} (h : g.kind e = .edge s d) : g.kind s = .node := by
  apply Classical.byContradiction; intro hn
  have := (w.out_iff s e).mpr ⟨d, h⟩
  rw [outOf_nil_of_not_node g s hn] at this; simp at this

theorem WF.dst_node {g : Graph} (w : WF g) {e s d : Nat} (h : g.kind e = .edge s d) : g.kind d = .node := by
  apply Classical.byContradiction; intro hn
  have := (w.in_iff d e).mpr ⟨s, h⟩
  rw [inOf_nil_of_not_node g d hn] at this; simp at this

/-! ### `get_free_index` -/

/-- observations of the graph after `getFreeIndex` -/
theorem getFreeIndex_spec (g : Graph) (w : WF g) :
    let r := g.getFreeIndex
    r.1 = g.alloc 0 ∧ 0 < r.1 ∧ r.1 < r.2.slots.length ∧ g.kind r.1 = .free ∧
    (∀ j, r.2.slot j = g.slot j) ∧ (∀ n, r.2.alloc n = g.alloc (n + 1)) ∧ r.2.nodeCount = g.nodeCount ∧
    r.1 ∉ r.2.free ∧ (∀ i, i ∈ r.2.free ↔ i ≠ r.1 ∧ (0 < i ∧ i < g.slots.length ∧ g.kind i = .free)) ∧
    r.2.free.Nodup ∧ g.slots.length ≤ r.2.slots.length ∧ (∀ j, j < r.2.slots.length → j ≠ r.1 → j < g.slots.length) := by
  unfold getFreeIndex
  cases hf : g.free with
  | nil =>
    simp only
    have hnofree : ∀ i, ¬ (0 < i ∧ i < g.slots.length ∧ g.kind i = .free) := by
      intro i hi; have := (w.free_iff i).mpr hi; simp [hf] at this
    refine ⟨by simp [alloc, hf], w.len_pos, by simp, kind_free_of_ge g _ (Nat.le_refl _), ?_, ?_, trivial, by simp, ?_, by simp, by simp, ?_⟩
    · intro j
      unfold slot
      by_cases hj : j < g.slots.length
      · simp [List.getD_eq_getElem?_getD, List.getElem?_append, hj]
      · have : g.slots.length ≤ j := Nat.le_of_not_lt hj
        simp only [List.getD_eq_getElem?_getD, List.getElem?_eq_none this]
        by_cases hj2 : j = g.slots.length
        · subst hj2; simp
        · rw [List.getElem?_eq_none (by simp; omega)]
    · intro n; simp [alloc, hf]; omega
    · intro i; simp only [List.not_mem_nil, false_iff]; intro h; exact hnofree i h.2
    · intro j h1 h2; simp at h1; omega
  | cons i rest =>
    simp only
    have hi := (w.free_iff i).mp (by simp [hf])
    have hnd := w.free_nodup; rw [hf] at hnd
    refine ⟨by simp [alloc, hf], hi.1, hi.2.1, hi.2.2, fun _ => rfl, ?_, trivial, (List.nodup_cons.mp hnd).1, ?_, (List.nodup_cons.mp hnd).2, Nat.le_refl _, fun _ h _ => h⟩
    · intro n; simp [alloc, hf]
    · intro j
      have := w.free_iff j; rw [hf] at this
      constructor
      · intro hj
        refine ⟨?_, this.mp (List.mem_cons_of_mem _ hj)⟩
        intro h; subst h; exact (List.nodup_cons.mp hnd).1 hj
      · intro ⟨h1, h2⟩
        rcases List.mem_cons.mp (this.mpr h2) with h | h
        · exact absurd h h1
        · exact h

/-! ### `insert_node` -/

theorem insertNode_spec (g : Graph) (w : WF g) :
    let r := g.insertNode
    r.1 = g.alloc 0 ∧ 0 < r.1 ∧ g.kind r.1 = .free ∧
    (∀ j, r.2.kind j = if j = r.1 then .node else g.kind j) ∧
    (∀ n, r.2.alloc n = g.alloc (n + 1)) ∧ r.2.nodeCount = g.nodeCount + 1 ∧ WF r.2 := by
  have hs := getFreeIndex_spec g w
  simp only at hs
  obtain ⟨h1, h2, h3, h4, h5, h6, h7, h8, h9, h10, h11, h12⟩ := hs
  generalize hr : g.getFreeIndex = r at *
  obtain ⟨i, g1⟩ := r
  simp only at *
  have hk1 : ∀ j, g1.kind j = g.kind j := fun j => by unfold kind; rw [h5]
  have ho1 : ∀ j, g1.outOf j = g.outOf j := fun j => by rw [outOf_eq, outOf_eq, h5]
  have hi1 : ∀ j, g1.inOf j = g.inOf j := fun j => by rw [inOf_eq, inOf_eq, h5]
  have hk : ∀ j, ({ (g1.setSlot i (Slot.node [] [])) with nodeCount := g1.nodeCount + 1 } : Graph).kind j
      = if j = i then .node else g.kind j := by
    intro j
    show (g1.setSlot i (Slot.node [] [])).kind j = _
    rw [kind_setSlot g1 i j _ h3, hk1]; rfl
  have ho : ∀ j, ({ (g1.setSlot i (Slot.node [] [])) with nodeCount := g1.nodeCount + 1 } : Graph).outOf j
      = if j = i then [] else g.outOf j := by
    intro j
    show (g1.setSlot i (Slot.node [] [])).outOf j = _
    rw [outOf_setSlot g1 i j _ h3, ho1]; rfl
  have hin : ∀ j, ({ (g1.setSlot i (Slot.node [] [])) with nodeCount := g1.nodeCount + 1 } : Graph).inOf j
      = if j = i then [] else g.inOf j := by
    intro j
    show (g1.setSlot i (Slot.node [] [])).inOf j = _
    rw [inOf_setSlot g1 i j _ h3, hi1]; rfl
  unfold insertNode
  rw [hr]
  simp only
  refine ⟨h1, h2, h4, hk, ?_, by rw [h7], ?_⟩
  · intro n; rw [← h6 n]; unfold alloc; simp [setSlot]
  · have hoi : g.outOf i = [] := outOf_nil_of_not_node g i (by rw [h4]; simp)
    have hii : g.inOf i = [] := inOf_nil_of_not_node g i (by rw [h4]; simp)
    refine ⟨?_, ?_, ?_, ?_, ?_, ?_, h10, ?_, ?_⟩
    · show 0 < (g1.setSlot i _).slots.length
      rw [setSlot_length]; omega
    · rw [hk]; have : (0:Nat) ≠ i := by omega
      simp [this, w.slot0]
    · intro n e
      rw [ho, hk]
      by_cases hn : n = i
      · subst hn
        simp only [if_true, List.not_mem_nil, false_iff]
        rintro ⟨d, hd⟩
        by_cases he : e = n
        · simp [he] at hd
        · simp only [he, if_false] at hd
          have := (w.out_iff n e).mpr ⟨d, hd⟩
          rw [hoi] at this; simp at this
      · simp only [hn, if_false]
        by_cases he : e = i
        · subst he
          simp only [if_true]
          constructor
          · intro hm
            obtain ⟨d, hd⟩ := (w.out_iff n e).mp hm
            rw [h4] at hd; simp at hd
          · rintro ⟨d, hd⟩; simp at hd
        · simp only [he, if_false]; exact w.out_iff n e
    · intro n e
      rw [hin, hk]
      by_cases hn : n = i
      · subst hn
        simp only [if_true, List.not_mem_nil, false_iff]
        rintro ⟨d, hd⟩
        by_cases he : e = n
        · simp [he] at hd
        · simp only [he, if_false] at hd
          have := (w.in_iff n e).mpr ⟨d, hd⟩
          rw [hii] at this; simp at this
      · simp only [hn, if_false]
        by_cases he : e = i
        · subst he
          simp only [if_true]
          constructor
          · intro hm
            obtain ⟨d, hd⟩ := (w.in_iff n e).mp hm
            rw [h4] at hd; simp at hd
          · rintro ⟨d, hd⟩; simp at hd
        · simp only [he, if_false]; exact w.in_iff n e
    · intro n; rw [ho]; split
      · simp
      · exact w.out_nodup n
    · intro n; rw [hin]; split
      · simp
      · exact w.in_nodup n
    · intro j
      show j ∈ g1.free ↔ 0 < j ∧ j < (g1.setSlot i _).slots.length ∧ _
      rw [hk, h9, setSlot_length]
      by_cases hj : j = i
      · subst hj; simp
      · simp only [hj, if_false, ne_eq, not_false_eq_true, true_and]
        constructor
        · intro ⟨a, b, c⟩; exact ⟨a, by omega, c⟩
        · intro ⟨a, b, c⟩; exact ⟨a, h12 j b hj, c⟩
    · have hu := nodeSlots_update g ({ (g1.setSlot i (Slot.node [] [])) with nodeCount := g1.nodeCount + 1 } : Graph) i
        (by show g.slots.length ≤ (g1.setSlot i _).slots.length; rw [setSlot_length]; exact h11)
        (by show i < (g1.setSlot i _).slots.length; rw [setSlot_length]; exact h3)
        (fun j hj => by rw [hk]; simp [hj])
      rw [hk, h4] at hu
      simp only [if_true, reduceCtorEq, if_false, Nat.add_zero] at hu
      show g1.nodeCount + 1 = ((nodeSlots _ : Nat) : Int)
      rw [hu, h7, w.count]; simp

/-! ### chain updates -/

section chains
variable (g : Graph) (n e : Nat)

theorem addOut_eq (h : g.kind n = .node) : g.addOut n e = g.setSlot n (.node (e :: g.outOf n) (g.inOf n)) := by
  unfold addOut; rw [slot_of_kind_node g n h]
theorem addIn_eq (h : g.kind n = .node) : g.addIn n e = g.setSlot n (.node (g.outOf n) (e :: g.inOf n)) := by
  unfold addIn; rw [slot_of_kind_node g n h]
theorem eraseOut_eq (h : g.kind n = .node) : g.eraseOut n e = g.setSlot n (.node ((g.outOf n).erase e) (g.inOf n)) := by
  unfold eraseOut; rw [slot_of_kind_node g n h]
theorem eraseIn_eq (h : g.kind n = .node) : g.eraseIn n e = g.setSlot n (.node (g.outOf n) ((g.inOf n).erase e)) := by
  unfold eraseIn; rw [slot_of_kind_node g n h]

end chains

/-- observations after replacing the chains of node `n` -/
theorem setChains_obs (g : Graph) (n : Nat) (o i : List Nat) (h : g.kind n = .node) :
    let g' := g.setSlot n (.node o i)
    (∀ j, g'.kind j = g.kind j) ∧ (∀ j, g'.outOf j = if j = n then o else g.outOf j) ∧
    (∀ j, g'.inOf j = if j = n then i else g.inOf j) ∧ g'.free = g.free ∧ g'.slots.length = g.slots.length ∧
    g'.nodeCount = g.nodeCount := by
  have hl : n < g.slots.length := lt_of_kind_ne_free g n (by rw [h]; simp)
  refine ⟨?_, ?_, ?_, rfl, setSlot_length _ _ _, rfl⟩
  · intro j; rw [kind_setSlot g n j _ hl]; split
    · rename_i hj; subst hj; rw [h]; rfl
    · rfl
  · intro j; rw [outOf_setSlot g n j _ hl]; rfl
  · intro j; rw [inOf_setSlot g n j _ hl]; rfl

/-! ### `insert_edge` -/

theorem insertEdge_spec (g : Graph) (w : WF g) (s d : Nat) (hs : g.kind s = .node) (hd : g.kind d = .node) :
    ∃ r, g.insertEdge s d = .ok r ∧ r.1 = g.alloc 0 ∧ 0 < r.1 ∧ g.kind r.1 = .free ∧
    (∀ j, r.2.kind j = if j = r.1 then .edge s d else g.kind j) ∧
    (∀ n, r.2.alloc n = g.alloc (n + 1)) ∧ r.2.nodeCount = g.nodeCount ∧ WF r.2 := by
  have hsp := getFreeIndex_spec g w
  simp only at hsp
  obtain ⟨h1, h2, h3, h4, h5, h6, h7, h8, h9, h10, h11, h12⟩ := hsp
  unfold insertEdge
  rw [(isNode_iff g s).mpr hs, (isNode_iff g d).mpr hd]
  simp only [Bool.and_self, if_true]
  generalize hr : g.getFreeIndex = r at *
  obtain ⟨i, g1⟩ := r
  simp only at *
  have hk1 : ∀ j, g1.kind j = g.kind j := fun j => by unfold kind; rw [h5]
  have ho1 : ∀ j, g1.outOf j = g.outOf j := fun j => by rw [outOf_eq, outOf_eq, h5]
  have hi1 : ∀ j, g1.inOf j = g.inOf j := fun j => by rw [inOf_eq, inOf_eq, h5]
  have hsi : s ≠ i := by intro h; subst h; rw [h4] at hs; simp at hs
  have hdi : d ≠ i := by intro h; subst h; rw [h4] at hd; simp at hd
  -- g2
  let g2 := g1.setSlot i (Slot.edge s d)
  have hk2 : ∀ j, g2.kind j = if j = i then .edge s d else g.kind j := by
    intro j; rw [kind_setSlot g1 i j _ h3, hk1]; rfl
  have ho2 : ∀ j, g2.outOf j = g.outOf j := by
    intro j; rw [outOf_setSlot g1 i j _ h3, ho1]; split
    · rename_i h; subst h; rw [outOf_nil_of_not_node g j (by rw [h4]; simp)]; rfl
    · rfl
  have hi2 : ∀ j, g2.inOf j = g.inOf j := by
    intro j; rw [inOf_setSlot g1 i j _ h3, hi1]; split
    · rename_i h; subst h; rw [inOf_nil_of_not_node g j (by rw [h4]; simp)]; rfl
    · rfl
  have hs2 : g2.kind s = .node := by rw [hk2]; simp [hsi, hs]
  have e3 := addOut_eq g2 s i hs2
  obtain ⟨hk3, ho3, hi3, hf3, hl3, hc3⟩ := setChains_obs g2 s (i :: g2.outOf s) (g2.inOf s) hs2
  rw [← e3] at hk3 ho3 hi3 hf3 hl3 hc3
  have hd3 : (g2.addOut s i).kind d = .node := by rw [hk3, hk2]; simp [hdi, hd]
  have e4 := addIn_eq (g2.addOut s i) d i hd3
  obtain ⟨hk4, ho4, hi4, hf4, hl4, hc4⟩ := setChains_obs (g2.addOut s i) d ((g2.addOut s i).outOf d) (i :: (g2.addOut s i).inOf d) hd3
  rw [← e4] at hk4 ho4 hi4 hf4 hl4 hc4
  refine ⟨(i, (g2.addOut s i).addIn d i), rfl, h1, h2, h4, ?_, ?_, ?_, ?_⟩
  · intro j; simp only; rw [hk4, hk3, hk2]
  · intro n; simp only; rw [← h6 n]; unfold alloc; rw [hf4, hf3, hl4, hl3]; simp [g2]
  · simp only; rw [hc4, hc3]; simp [g2, h7]
  · simp only
    have hK : ∀ j, ((g2.addOut s i).addIn d i).kind j = if j = i then .edge s d else g.kind j := by
      intro j; rw [hk4, hk3, hk2]
    have hO : ∀ j, ((g2.addOut s i).addIn d i).outOf j = if j = s then i :: g.outOf s else g.outOf j := by
      intro j; rw [ho4]
      by_cases hjd : j = d
      · subst hjd; simp only [if_true]; rw [ho3]; simp only [ho2]
      · simp only [hjd, if_false]; rw [ho3]; simp only [ho2]
    have hI : ∀ j, ((g2.addOut s i).addIn d i).inOf j = if j = d then i :: g.inOf d else g.inOf j := by
      intro j; rw [hi4]
      have hx : ∀ x, (if x = s then g.inOf s else g.inOf x) = g.inOf x := by
        intro x; split
        · rename_i h; rw [h]
        · rfl
      by_cases hjd : j = d
      · subst hjd; simp only [if_true]; rw [hi3]; simp only [hi2, hx]
      · simp only [hjd, if_false]; rw [hi3]; simp only [hi2, hx]
    have hino : ∀ n, i ∉ g.outOf n := by
      intro n hm; obtain ⟨d', hd'⟩ := (w.out_iff n i).mp hm; rw [h4] at hd'; simp at hd'
    have hini : ∀ n, i ∉ g.inOf n := by
      intro n hm; obtain ⟨d', hd'⟩ := (w.in_iff n i).mp hm; rw [h4] at hd'; simp at hd'
    refine ⟨?_, ?_, ?_, ?_, ?_, ?_, ?_, ?_, ?_⟩
    · rw [hl4, hl3]; simp [g2]; omega
    · rw [hK]; have : (0:Nat) ≠ i := by omega
      simp [this, w.slot0]
    · intro n e
      rw [hO, hK]
      have := w.out_iff n e
      by_cases he : e = i
      · subst he
        by_cases hn : n = s
        · subst hn; simp
        · simp [hn, hino n, Ne.symm hn]
      · by_cases hn : n = s
        · subst hn; simp [he, this]
        · simp [he, hn, this]
    · intro n e
      rw [hI, hK]
      have := w.in_iff n e
      by_cases he : e = i
      · subst he
        by_cases hn : n = d
        · subst hn; simp
        · simp [hn, hini n, Ne.symm hn]
      · by_cases hn : n = d
        · subst hn; simp [he, this]
        · simp [he, hn, this]
    · intro n; rw [hO]; split
      · exact List.nodup_cons.mpr ⟨hino s, w.out_nodup s⟩
      · exact w.out_nodup n
    · intro n; rw [hI]; split
      · exact List.nodup_cons.mpr ⟨hini d, w.in_nodup d⟩
      · exact w.in_nodup n
    · rw [hf4, hf3]; exact h10
    · intro j
      rw [hf4, hf3, hl4, hl3, hK]
      show j ∈ g1.free ↔ _
      rw [h9]; simp only [g2, setSlot_length]
      by_cases hj : j = i
      · subst hj; simp
      · simp only [hj, if_false, ne_eq, not_false_eq_true, true_and]
        constructor
        · intro ⟨a, b, c⟩; exact ⟨a, by omega, c⟩
        · intro ⟨a, b, c⟩; exact ⟨a, h12 j b hj, c⟩
    · have hu := nodeSlots_update g ((g2.addOut s i).addIn d i) i
        (by rw [hl4, hl3]; simp only [g2, setSlot_length]; exact h11)
        (by rw [hl4, hl3]; simp only [g2, setSlot_length]; exact h3)
        (fun j hj => by rw [hK]; simp [hj])
      rw [hK, h4] at hu
      simp only [if_true, reduceCtorEq, if_false, Nat.add_zero] at hu
      rw [hc4, hc3]; show g1.nodeCount = _
      rw [h7, w.count, hu]

theorem insertEdge_error (g : Graph) (s d : Nat) (h : ¬ (g.kind s = .node ∧ g.kind d = .node)) :
    g.insertEdge s d = .error Err.graphInvalidIndex := by
  unfold insertEdge
  rw [← isNode_iff, ← isNode_iff] at h
  have : (g.isNode s && g.isNode d) = false := by
    cases h1 : g.isNode s <;> cases h2 : g.isNode d <;> simp_all
  simp [this]

/-! ### `free_index`, `remove_edge`, `remove_node` -/

theorem freeSlot_obs (g : Graph) (i : Nat) (h : i < g.slots.length) :
    let g' := g.freeSlot i
    (∀ j, g'.kind j = if j = i then .free else g.kind j) ∧ (∀ j, g'.outOf j = if j = i then [] else g.outOf j) ∧
    (∀ j, g'.inOf j = if j = i then [] else g.inOf j) ∧ g'.free = i :: g.free ∧ g'.slots.length = g.slots.length ∧
    g'.nodeCount = g.nodeCount := by
  refine ⟨?_, ?_, ?_, rfl, ?_, rfl⟩
  · intro j; show (g.setSlot i Slot.free).kind j = _; rw [kind_setSlot g i j _ h]; rfl
  · intro j; show (g.setSlot i Slot.free).outOf j = _; rw [outOf_setSlot g i j _ h]; rfl
  · intro j; show (g.setSlot i Slot.free).inOf j = _; rw [inOf_setSlot g i j _ h]; rfl
  · show (g.setSlot i Slot.free).slots.length = _; simp

theorem alloc_cons (g g' : Graph) (i : Nat) (hf : g'.free = i :: g.free) (hl : g'.slots.length = g.slots.length) :
    ∀ n, g'.alloc n = match n with | 0 => i | n + 1 => g.alloc n := by
  intro n; unfold alloc; rw [hf, hl]
  cases n with
  | zero => simp
  | succ m => simp

/-- freeing a live slot that no chain mentions keeps the graph well formed -/
theorem WF.free_of_obs {g g' : Graph} (w : WF g) (i : Nat)
    (hlive : g.kind i ≠ .free)
    (hk : ∀ j, g'.kind j = if j = i then .free else g.kind j)
    (ho : ∀ n, (g'.outOf n).Nodup ∧ ∀ e, e ∈ g'.outOf n ↔ (e ≠ i ∧ e ∈ g.outOf n))
    (hi : ∀ n, (g'.inOf n).Nodup ∧ ∀ e, e ∈ g'.inOf n ↔ (e ≠ i ∧ e ∈ g.inOf n))
    (hf : g'.free = i :: g.free) (hl : g'.slots.length = g.slots.length)
    (hc : g'.nodeCount = g.nodeCount - (if g.kind i = .node then 1 else 0)) : WF g' := by
  have hi0 : i ≠ 0 := by intro h; subst h; exact hlive w.slot0
  have hil : i < g.slots.length := lt_of_kind_ne_free g i hlive
  refine ⟨by rw [hl]; exact w.len_pos, ?_, ?_, ?_, fun n => (ho n).1, fun n => (hi n).1, ?_, ?_, ?_⟩
  · rw [hk]; simp [Ne.symm hi0, w.slot0]
  · intro n e
    rw [(ho n).2 e, hk, w.out_iff n e]
    by_cases he : e = i
    · subst he; simp
    · simp [he]
  · intro n e
    rw [(hi n).2 e, hk, w.in_iff n e]
    by_cases he : e = i
    · subst he; simp
    · simp [he]
  · rw [hf]; refine List.nodup_cons.mpr ⟨?_, w.free_nodup⟩
    intro hm; exact hlive ((w.free_iff i).mp hm).2.2
  · intro j
    rw [hf, hl, hk, List.mem_cons, w.free_iff j]
    by_cases hj : j = i
    · subst hj; simp; omega
    · simp [hj]
  · have hu := nodeSlots_update g g' i (by omega) (by omega) (fun j hj => by rw [hk]; simp [hj])
    rw [hk] at hu
    simp only [if_true, reduceCtorEq, if_false, Nat.add_zero] at hu
    rw [hc, w.count]
    by_cases hn : g.kind i = .node
    · simp only [hn, if_true] at hu ⊢; omega
    · simp only [hn, if_false] at hu ⊢; omega

theorem removeEdge_spec (g : Graph) (w : WF g) (e s d : Nat) (he : g.kind e = .edge s d) :
    let g' := g.removeEdge e
    (∀ j, g'.kind j = if j = e then .free else g.kind j) ∧
    (∀ n, g'.alloc n = match n with | 0 => e | n + 1 => g.alloc n) ∧
    g'.nodeCount = g.nodeCount ∧ WF g' := by
  have hsn := w.src_node he
  have hdn := w.dst_node he
  have hel : e < g.slots.length := lt_of_kind_ne_free g e (by rw [he]; simp)
  simp only
  unfold removeEdge
  rw [slot_of_kind_edge g e s d he]
  simp only
  have e1 := eraseOut_eq g s e hsn
  obtain ⟨hk1, ho1, hi1, hf1, hl1, hc1⟩ := setChains_obs g s ((g.outOf s).erase e) (g.inOf s) hsn
  rw [← e1] at hk1 ho1 hi1 hf1 hl1 hc1
  have hd1 : (g.eraseOut s e).kind d = .node := by rw [hk1]; exact hdn
  have e2 := eraseIn_eq (g.eraseOut s e) d e hd1
  obtain ⟨hk2, ho2, hi2, hf2, hl2, hc2⟩ := setChains_obs (g.eraseOut s e) d ((g.eraseOut s e).outOf d) (((g.eraseOut s e).inOf d).erase e) hd1
  rw [← e2] at hk2 ho2 hi2 hf2 hl2 hc2
  obtain ⟨hk3, ho3, hi3, hf3, hl3, hc3⟩ := freeSlot_obs ((g.eraseOut s e).eraseIn d e) e (by rw [hl2, hl1]; exact hel)
  have hK : ∀ j, (((g.eraseOut s e).eraseIn d e).freeSlot e).kind j = if j = e then .free else g.kind j := by
    intro j; rw [hk3, hk2, hk1]
  have hF : (((g.eraseOut s e).eraseIn d e).freeSlot e).free = e :: g.free := by rw [hf3, hf2, hf1]
  have hL : (((g.eraseOut s e).eraseIn d e).freeSlot e).slots.length = g.slots.length := by rw [hl3, hl2, hl1]
  have hes : e ≠ s := by intro h; subst h; rw [he] at hsn; simp at hsn
  have hed : e ≠ d := by intro h; subst h; rw [he] at hdn; simp at hdn
  have hoe : g.outOf e = [] := outOf_nil_of_not_node g e (by rw [he]; simp)
  have hie : g.inOf e = [] := inOf_nil_of_not_node g e (by rw [he]; simp)
  have hO : ∀ j, (((g.eraseOut s e).eraseIn d e).freeSlot e).outOf j = if j = s then (g.outOf s).erase e else g.outOf j := by
    intro j; rw [ho3]
    by_cases hje : j = e
    · subst hje; simp [hes, hoe]
    · simp only [hje, if_false]; rw [ho2]
      by_cases hjd : j = d
      · subst hjd; simp only [if_true]; rw [ho1]
      · simp only [hjd, if_false]; rw [ho1]
  have hI : ∀ j, (((g.eraseOut s e).eraseIn d e).freeSlot e).inOf j = if j = d then (g.inOf d).erase e else g.inOf j := by
    intro j; rw [hi3]
    by_cases hje : j = e
    · subst hje; simp [hed, hie]
    · simp only [hje, if_false]; rw [hi2]
      have hx : ∀ x, (if x = s then g.inOf s else g.inOf x) = g.inOf x := by
        intro x; split
        · rename_i h; rw [h]
        · rfl
      by_cases hjd : j = d
      · subst hjd; simp only [if_true]; rw [hi1]; simp only [hx]
      · simp only [hjd, if_false]; rw [hi1]; simp only [hx]
  refine ⟨hK, alloc_cons g _ e hF hL, by rw [hc3, hc2, hc1], ?_⟩
  refine WF.free_of_obs w e (by rw [he]; simp) hK ?_ ?_ hF hL (by rw [hc3, hc2, hc1, he]; simp)
  · intro n; rw [hO]
    by_cases hn : n = s
    · subst hn; simp only [if_true]
      refine ⟨(w.out_nodup n).erase e, fun e' => ?_⟩
      rw [(w.out_nodup n).mem_erase_iff]
    · simp only [hn, if_false]
      refine ⟨w.out_nodup n, fun e' => ⟨fun hm => ⟨?_, hm⟩, fun hm => hm.2⟩⟩
      intro h; subst h
      obtain ⟨d', hd'⟩ := (w.out_iff n e').mp hm
      rw [he] at hd'; cases hd'; exact hn rfl
  · intro n; rw [hI]
    by_cases hn : n = d
    · subst hn; simp only [if_true]
      refine ⟨(w.in_nodup n).erase e, fun e' => ?_⟩
      rw [(w.in_nodup n).mem_erase_iff]
    · simp only [hn, if_false]
      refine ⟨w.in_nodup n, fun e' => ⟨fun hm => ⟨?_, hm⟩, fun hm => hm.2⟩⟩
      intro h; subst h
      obtain ⟨d', hd'⟩ := (w.in_iff n e').mp hm
      rw [he] at hd'; cases hd'; exact hn rfl

theorem removeEdge_noop (g : Graph) (e : Nat) (h : ∀ s d, g.kind e ≠ .edge s d) : g.removeEdge e = g := by
  unfold removeEdge
  cases hs : g.slot e with
  | edge s d => exact absurd (by unfold kind; rw [hs]; rfl) (h s d)
  | _ => rfl

/-- `remove_node` of a node without incident edges -/
theorem removeNode_spec (g : Graph) (w : WF g) (n : Nat) (hn : g.kind n = .node)
    (hne : ∀ e s d, g.kind e = .edge s d → s ≠ n ∧ d ≠ n) :
    let g' := g.removeNode n
    (∀ j, g'.kind j = if j = n then .free else g.kind j) ∧
    (∀ m, g'.alloc m = match m with | 0 => n | m + 1 => g.alloc m) ∧
    g'.nodeCount = g.nodeCount - 1 ∧ WF g' := by
  have ho : g.outOf n = [] := by
    cases h : g.outOf n with
    | nil => rfl
    | cons e rest =>
      obtain ⟨d, hd⟩ := (w.out_iff n e).mp (by rw [h]; simp)
      exact absurd rfl (hne e n d hd).1
  have hi : g.inOf n = [] := by
    cases h : g.inOf n with
    | nil => rfl
    | cons e rest =>
      obtain ⟨s, hs⟩ := (w.in_iff n e).mp (by rw [h]; simp)
      exact absurd rfl (hne e s n hs).2
  have hnl : n < g.slots.length := lt_of_kind_ne_free g n (by rw [hn]; simp)
  have hslot := slot_of_kind_node g n hn
  rw [ho, hi] at hslot
  simp only
  unfold removeNode
  rw [hslot]
  simp only [List.foldl_nil, hslot]
  obtain ⟨hk3, ho3, hi3, hf3, hl3, hc3⟩ := freeSlot_obs g n hnl
  refine ⟨hk3, alloc_cons g _ n hf3 hl3, by simp [hc3], ?_⟩
  refine WF.free_of_obs w n (by rw [hn]; simp) hk3 ?_ ?_ hf3 hl3 (by simp [hc3, hn])
  · intro m
    show ((g.freeSlot n).outOf m).Nodup ∧ ∀ e, e ∈ (g.freeSlot n).outOf m ↔ _
    rw [ho3]
    by_cases hm : m = n
    · subst hm; simp [ho]
    · simp only [hm, if_false]
      refine ⟨w.out_nodup m, fun e => ⟨fun h => ⟨?_, h⟩, fun h => h.2⟩⟩
      intro hen; subst hen
      obtain ⟨d, hd⟩ := (w.out_iff m e).mp h
      rw [hn] at hd; simp at hd
  · intro m
    show ((g.freeSlot n).inOf m).Nodup ∧ ∀ e, e ∈ (g.freeSlot n).inOf m ↔ _
    rw [hi3]
    by_cases hm : m = n
    · subst hm; simp [hi]
    · simp only [hm, if_false]
      refine ⟨w.in_nodup m, fun e => ⟨fun h => ⟨?_, h⟩, fun h => h.2⟩⟩
      intro hen; subst hen
      obtain ⟨d, hd⟩ := (w.in_iff m e).mp h
      rw [hn] at hd; simp at hd

end Graph
end AgdbDb
