import AgdbDb.Lemmas.Safe
namespace AgdbDb
open Db

theorem undoAll_refines : ∀ (cs : List Cmd) (u : Db) (B : ADb), u.SInv → UndoOk cs u.abs B →
    ∃ r, Db.undoAll cs u = some r ∧ r.abs = B ∧ r.SInv ∧ r.undo = u.undo ∧ GReach u.graph r.graph := by
  intro cs
  induction cs with
  | nil => intro u B hi h; exact ⟨u, rfl, h, hi, rfl, GReach.refl _⟩
  | cons c rest ih =>
    intro u B hi h
    obtain ⟨hp, hrest⟩ := h
    obtain ⟨u', hu', habs, hsi, hundo⟩ := undoCmd_refines c u hi hp
    have hg := undoCmd_greach c u u' hi hp hu'
    rw [← habs] at hrest
    obtain ⟨r, hr, hra, hrs, hru, hrg⟩ := ih u' B hsi hrest
    exact ⟨r, by simp only [Db.undoAll, hu', hr], hra, hrs, by rw [hru, hundo], hg.trans hrg⟩

/-- rollback of any state reached by `Fwd` steps from a committed state restores its abstract view -/
theorem rollback_of_fwd (s s' : Db) (hu : s.undo = []) (hs : s.Inv) (h : Fwd s s') :
    ∃ r, s'.rollback = some r ∧ r.abs = s.abs ∧ r.Inv ∧ r.undo = [] ∧ GReach s'.graph r.graph := by
  obtain ⟨hi', ⟨cmds, hc, hok⟩, _⟩ := h
  rw [hu, List.append_nil] at hc
  have hsi : ({ s' with undo := [] } : Db).SInv := ⟨hi'.sinv.wf, hi'.sinv.kvNodup, hi'.sinv.aliasBij, hi'.sinv.ixNodup⟩
  obtain ⟨r, hr, hra, hrs, hru, hrg⟩ := undoAll_refines cmds { s' with undo := [] } s.abs hsi hok
  refine ⟨r, by unfold Db.rollback; rw [hc]; exact hr, hra, ⟨hrs, by rw [hra]; exact hs.binv⟩, hru, hrg⟩

theorem safe_run (q : MQuery) (hd : match q with
    | .insertNodes _ v _ _ => v.distinct
    | .insertEdges _ _ _ v _ => v.distinct
    | .insertValues _ v => v.distinct
    | _ => True) : Safe q.run := by
  cases q with
  | insertNodes c v a i => exact safe_insertNodes c v a i hd
  | insertEdges f t i v e => exact safe_insertEdges f t i v e hd
  | insertValues i v => exact safe_insertValues i v hd
  | insertAliases i a => exact safe_insertAliases i a
  | remove i => exact safe_removeQuery i
  | removeValues i k => exact safe_removeValues i k
  | removeAliases a => exact safe_removeAliases a
  | insertIndex k => exact safe_insertIndexQuery k
  | removeIndex k => exact safe_removeIndexQuery k

theorem inv_empty : Db.empty.Inv := by
  refine ⟨⟨Graph.wf_empty, ?_, ⟨by simp [Db.empty], by simp [Db.empty]⟩, by simp [Db.empty, ixKeys]⟩, ⟨?_, ?_, ?_⟩⟩
  · intro i; simp [Db.empty, kvGet, keysOf]
  · intro k m hm; simp [Db.abs, Db.empty, ixFind] at hm
  · intro i _ k; simp [Db.abs, Db.empty, kvGet, kvFind]
  · intro a id h; simp [Db.abs, Db.empty, aliasValue] at h

theorem inv_commit {s : Db} (h : s.Inv) : s.commit.Inv :=
  ⟨⟨h.sinv.wf, h.sinv.kvNodup, h.sinv.aliasBij, h.sinv.ixNodup⟩, h.binv⟩

end AgdbDb
