import AgdbDb.Lemmas.Abs
import AgdbDb.Lemmas.GReach
namespace AgdbDb
open Db

theorem kv_view_set (vs : List (List KV)) (i j : Nat) (l : List KV) (k : Val) :
    kvFind (kvGet (kvSet vs i l) j) k = if j = i then kvFind l k else kvFind (kvGet vs j) k := by
  rw [kvGet_kvSet]; split <;> rfl

theorem keys_view_set (vs : List (List KV)) (i : Nat) (l : List KV)
    (h : ∀ j, (keysOf (kvGet vs j)).Nodup) (hl : (keysOf l).Nodup) : ∀ j, (keysOf (kvGet (kvSet vs i l) j)).Nodup := by
  intro j; rw [kvGet_kvSet]; split
  · exact hl
  · exact h j

theorem ix_view_update (ix : Indexes) (k k' : Val) (f : IxMap → IxMap) (F : (Val → Int → Nat) → (Val → Int → Nat))
    (hf : ∀ l, countFn (f l) = F (countFn l)) :
    (ixFind (ixUpdate ix k f) k').map countFn =
      if k' = k then ((ixFind ix k).map countFn).map F else (ixFind ix k').map countFn := by
  rw [ixFind_ixUpdate]
  split
  · cases ixFind ix k <;> simp [hf]
  · rfl

theorem undoCmd_refines (c : Cmd) (u : Db) (hi : u.SInv) (hp : pre c u.abs) :
    ∃ u', Db.undoCmd c u = some u' ∧ u'.abs = aundo c u.abs ∧ u'.SInv ∧ u'.undo = u.undo := by
  cases c with
  | insertAlias a id =>
    refine ⟨_, rfl, ?_, ⟨hi.wf, hi.kvNodup, AliasBij.insert _ a id hi.aliasBij, hi.ixNodup⟩, rfl⟩
    refine ADb.ext' (fun _ => rfl) (fun _ => rfl) rfl (fun _ _ => rfl) ?_ (fun _ => rfl)
    intro x; exact abs_alias_insert u.aliases hi.aliasBij a x id
  | removeAlias a =>
    refine ⟨_, rfl, ?_, ⟨hi.wf, hi.kvNodup, AliasBij.removeKey _ a hi.aliasBij, hi.ixNodup⟩, rfl⟩
    refine ADb.ext' (fun _ => rfl) (fun _ => rfl) rfl (fun _ _ => rfl) ?_ (fun _ => rfl)
    intro x; exact abs_alias_removeKey u.aliases hi.aliasBij a x
  | insertEdge f t =>
    obtain ⟨hf, ht⟩ := hp
    obtain ⟨r, hr, h1, _, _, hk, ha, hc, hw⟩ := Graph.insertEdge_spec u.graph hi.wf f.natAbs t.natAbs hf ht
    refine ⟨{ u with graph := r.2 }, by simp [Db.undoCmd, hr], ?_, ⟨hw, hi.kvNodup, hi.aliasBij, hi.ixNodup⟩, rfl⟩
    refine ADb.ext' ?_ ?_ hc (fun _ _ => rfl) (fun _ => rfl) (fun _ => rfl)
    · intro j; show r.2.kind j = _; rw [hk, h1]; rfl
    · intro n; exact ha n
  | insertNode =>
    obtain ⟨h1, _, _, hk, ha, hc, hw⟩ := Graph.insertNode_spec u.graph hi.wf
    refine ⟨_, rfl, ?_, ⟨hw, hi.kvNodup, hi.aliasBij, hi.ixNodup⟩, rfl⟩
    refine ADb.ext' ?_ ?_ hc (fun _ _ => rfl) (fun _ => rfl) (fun _ => rfl)
    · intro j; show u.graph.insertNode.2.kind j = _; rw [hk, h1]; rfl
    · intro n; exact ha n
  | removeEdge e =>
    obtain ⟨s, d, he⟩ := hp
    obtain ⟨hk, ha, hc, hw⟩ := Graph.removeEdge_spec u.graph hi.wf e.natAbs s d he
    refine ⟨_, rfl, ?_, ⟨hw, hi.kvNodup, hi.aliasBij, hi.ixNodup⟩, rfl⟩
    refine ADb.ext' ?_ ?_ hc (fun _ _ => rfl) (fun _ => rfl) (fun _ => rfl)
    · intro j; show (u.graph.removeEdge e.natAbs).kind j = _; rw [hk]; rfl
    · intro n; exact ha n
  | removeNode n =>
    obtain ⟨hn, hne⟩ := hp
    obtain ⟨hk, ha, hc, hw⟩ := Graph.removeNode_spec u.graph hi.wf n.natAbs hn hne
    refine ⟨_, rfl, ?_, ⟨hw, hi.kvNodup, hi.aliasBij, hi.ixNodup⟩, rfl⟩
    refine ADb.ext' ?_ ?_ hc (fun _ _ => rfl) (fun _ => rfl) (fun _ => rfl)
    · intro j; show (u.graph.removeNode n.natAbs).kind j = _; rw [hk]; rfl
    · intro m; exact ha m
  | insertIndex k =>
    have hnone : ixFind u.indexes k = none := by
      have : (ixFind u.indexes k).map countFn = none := hp
      cases h : ixFind u.indexes k <;> simp_all
    refine ⟨_, rfl, ?_, ⟨hi.wf, hi.kvNodup, hi.aliasBij, nodup_ixKeys_append _ k [] hi.ixNodup hnone⟩, rfl⟩
    refine ADb.ext' (fun _ => rfl) (fun _ => rfl) rfl (fun _ _ => rfl) (fun _ => rfl) ?_
    intro k'
    show (ixFind (u.indexes ++ [(k, [])]) k').map countFn = if k' = k then some (fun _ _ => 0) else (ixFind u.indexes k').map countFn
    rw [ixFind_append]
    by_cases hk : k' = k
    · subst hk; simp only [hnone, if_true, Option.map_some]; congr 1
    · cases h : ixFind u.indexes k' with
      | none => simp [hk, Ne.symm hk, Db.abs, h]
      | some l => simp [hk, Db.abs, h]
  | removeIndex k =>
    refine ⟨_, rfl, ?_, ⟨hi.wf, hi.kvNodup, hi.aliasBij, (ixKeys_ixRemove_sublist _ k).nodup hi.ixNodup⟩, rfl⟩
    refine ADb.ext' (fun _ => rfl) (fun _ => rfl) rfl (fun _ _ => rfl) (fun _ => rfl) ?_
    intro k'
    show (ixFind (ixRemove u.indexes k) k').map countFn = if k' = k then none else (ixFind u.indexes k').map countFn
    rw [ixFind_ixRemove _ hi.ixNodup]
    by_cases hk : k' = k
    · simp [hk]
    · simp [hk, Db.abs]
  | insertToIndex k v id =>
    have hsome : ∃ l, ixFind u.indexes k = some l := by
      have : (ixFind u.indexes k).map countFn ≠ none := hp
      cases h : ixFind u.indexes k <;> simp_all
    obtain ⟨l, hl⟩ := hsome
    refine ⟨{ u with indexes := ixUpdate u.indexes k (ixIns v id) }, by simp [Db.undoCmd, hl], ?_,
      ⟨hi.wf, hi.kvNodup, hi.aliasBij, by rw [ixKeys_ixUpdate]; exact hi.ixNodup⟩, rfl⟩
    refine ADb.ext' (fun _ => rfl) (fun _ => rfl) rfl (fun _ _ => rfl) (fun _ => rfl) ?_
    intro k'
    exact ix_view_update u.indexes k k' (ixIns v id) (bump v id) (fun l => countFn_ixIns l v id)
  | insertKeyValue id kv =>
    obtain ⟨k, v⟩ := kv
    have hnone : kvFind (kvGet u.values id.natAbs) k = none := hp
    refine ⟨_, rfl, ?_, ⟨hi.wf, ?_, hi.aliasBij, by rw [ixKeys_ixUpdate]; exact hi.ixNodup⟩, rfl⟩
    · refine ADb.ext' (fun _ => rfl) (fun _ => rfl) rfl ?_ (fun _ => rfl) ?_
      · intro j k'
        show kvFind (kvGet (kvSet u.values id.natAbs _) j) k' = if j = id.natAbs then (if k' = k then _ else u.abs.kv j k') else u.abs.kv j k'
        rw [kv_view_set]
        by_cases hj : j = id.natAbs
        · subst hj; simp only [if_true]
          rw [kvFind_append]
          by_cases hk : k' = k
          · subst hk; simp [hnone]
          · cases h : kvFind (kvGet u.values id.natAbs) k' with
            | none => simp [hk, Ne.symm hk, Db.abs, h]
            | some x => simp [hk, Db.abs, h]
        · simp [hj, Db.abs]
      · intro k'
        exact ix_view_update u.indexes k k' (ixIns v id) (bump v id) (fun l => countFn_ixIns l v id)
    · exact keys_view_set _ _ _ hi.kvNodup (nodup_keys_append _ k v (hi.kvNodup _) hnone)
  | removeKeyValue id kv =>
    obtain ⟨k, v⟩ := kv
    refine ⟨_, rfl, ?_, ⟨hi.wf, ?_, hi.aliasBij, by rw [ixKeys_ixUpdate]; exact hi.ixNodup⟩, rfl⟩
    · refine ADb.ext' (fun _ => rfl) (fun _ => rfl) rfl ?_ (fun _ => rfl) ?_
      · intro j k'
        show kvFind (kvGet (kvSet u.values id.natAbs _) j) k' = if j = id.natAbs then (if k' = k then _ else u.abs.kv j k') else u.abs.kv j k'
        rw [kv_view_set]
        by_cases hj : j = id.natAbs
        · subst hj; simp only [if_true]
          rw [kvFind_kvErase _ (hi.kvNodup _)]
          by_cases hk : k' = k
          · simp [hk]
          · simp [hk, Db.abs]
        · simp [hj, Db.abs]
      · intro k'
        exact ix_view_update u.indexes k k' (ixDel v id) (unbump v id) (fun l => countFn_ixDel l v id)
    · exact keys_view_set _ _ _ hi.kvNodup ((keysOf_kvErase_sublist _ k).nodup (hi.kvNodup _))
  | replaceKeyValue id kv =>
    obtain ⟨k, v⟩ := kv
    have hsome : ∃ cur, kvFind (kvGet u.values id.natAbs) k = some cur := by
      have : kvFind (kvGet u.values id.natAbs) k ≠ none := hp
      cases h : kvFind (kvGet u.values id.natAbs) k <;> simp_all
    obtain ⟨cur, hcur⟩ := hsome
    refine ⟨{ u with
        values := kvSet u.values id.natAbs (kvReplace (kvGet u.values id.natAbs) k v)
        indexes := ixUpdate u.indexes k (fun l => ixIns v id (ixDel cur id l)) },
      by simp [Db.undoCmd, hcur], ?_, ⟨hi.wf, ?_, hi.aliasBij, by rw [ixKeys_ixUpdate]; exact hi.ixNodup⟩, rfl⟩
    · have hA : u.abs.kv id.natAbs k = some cur := hcur
      unfold aundo; simp only [hA]
      refine ADb.ext' (fun _ => rfl) (fun _ => rfl) rfl ?_ (fun _ => rfl) ?_
      · intro j k'
        show kvFind (kvGet (kvSet u.values id.natAbs _) j) k' = if j = id.natAbs then (if k' = k then _ else u.abs.kv j k') else u.abs.kv j k'
        rw [kv_view_set]
        by_cases hj : j = id.natAbs
        · subst hj; simp only [if_true]
          rw [kvFind_kvReplace _ _ _ _ (by rw [hcur]; simp)]
          by_cases hk : k' = k
          · simp [hk]
          · simp [hk, Db.abs]
        · simp [hj, Db.abs]
      · intro k'
        exact ix_view_update u.indexes k k' (fun l => ixIns v id (ixDel cur id l)) (fun m => bump v id (unbump cur id m))
          (fun l => by rw [countFn_ixIns, countFn_ixDel])
    · exact keys_view_set _ _ _ hi.kvNodup (by rw [keysOf_kvReplace]; exact hi.kvNodup _)

/-- every arm of `rollback` changes the graph by at most one admissible graph mutation -/
theorem undoCmd_greach (c : Cmd) (u u' : Db) (hi : u.SInv) (hp : pre c u.abs) (h : Db.undoCmd c u = some u') :
    GReach u.graph u'.graph := by
  cases c with
  | insertEdge f t =>
    simp only [Db.undoCmd] at h
    cases hr : u.graph.insertEdge f.natAbs t.natAbs with
    | error e => rw [hr] at h; cases h
    | ok r =>
      rw [hr] at h; cases h
      have := GReach.step u.graph (.insertEdge f.natAbs t.natAbs) trivial
      simp only [GOp.runG, hr] at this; exact this
  | insertNode =>
    simp only [Db.undoCmd] at h; cases h
    exact GReach.step u.graph .insertNode trivial
  | removeEdge e =>
    simp only [Db.undoCmd] at h; cases h
    exact GReach.step u.graph (.removeEdge e.natAbs) trivial
  | removeNode n =>
    simp only [Db.undoCmd] at h; cases h
    obtain ⟨_, hne⟩ := hp
    exact GReach.step u.graph (.removeNode n.natAbs) (fun _ => chains_empty_of_no_edges hi.wf n.natAbs hne)
  | insertAlias a id => simp only [Db.undoCmd] at h; cases h; exact GReach.refl _
  | removeAlias a => simp only [Db.undoCmd] at h; cases h; exact GReach.refl _
  | insertIndex k => simp only [Db.undoCmd] at h; cases h; exact GReach.refl _
  | removeIndex k => simp only [Db.undoCmd] at h; cases h; exact GReach.refl _
  | insertKeyValue id kv => simp only [Db.undoCmd] at h; cases h; exact GReach.refl _
  | removeKeyValue id kv => simp only [Db.undoCmd] at h; cases h; exact GReach.refl _
  | insertToIndex k v id =>
    simp only [Db.undoCmd] at h
    cases hf : ixFind u.indexes k with
    | none => rw [hf] at h; cases h
    | some l => rw [hf] at h; cases h; exact GReach.refl _
  | replaceKeyValue id kv =>
    simp only [Db.undoCmd] at h
    cases hf : kvFind (kvGet u.values id.natAbs) kv.1 with
    | none => rw [hf] at h; cases h
    | some cur => rw [hf] at h; cases h; exact GReach.refl _

end AgdbDb
