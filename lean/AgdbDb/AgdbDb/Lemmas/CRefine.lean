/-
  Each array-level mutation of `graph.rs` refines the list-level mutation (`Rep` is a simulation).
-/
import AgdbDb.Lemmas.CRep
namespace AgdbDb
open Graph

def i64Bound : Nat := 9223372036854775808

/-- everything `get_free_index` does, on both levels -/
theorem rep_getFreeIndex (c : CGraph) (g : Graph) (r : Rep c g) (w : g.WF) (hb : g.slots.length < i64Bound) :
    let i := g.getFreeIndex.1
    let g1 := g.getFreeIndex.2
    let c1 := c.getFreeIndex.2
    c.getFreeIndex.1 = i ∧
    c1.from_.length = g1.slots.length ∧ c1.to_.length = g1.slots.length ∧
    c1.fromMeta.length = g1.slots.length ∧ c1.toMeta.length = g1.slots.length ∧
    (∀ j, j < g.slots.length → rd c1.from_ j = rd c.from_ j ∧ rd c1.to_ j = rd c.to_ j ∧ rd c1.toMeta j = rd c.toMeta j) ∧
    (∀ j, j < g.slots.length → j ≠ i → j ≠ 0 → rd c1.fromMeta j = rd c.fromMeta j) ∧
    rd c1.from_ i = 0 ∧ rd c1.to_ i = 0 ∧ rd c1.fromMeta i = 0 ∧ rd c1.toMeta i = 0 ∧
    FreeLinked (rd c1.fromMeta) (rd c1.fromMeta 0) g1.free := by
  have hlen := w.len_pos
  rcases getFreeIndex_cases g with ⟨hf, hg⟩ | ⟨f, rest, hf, hg⟩
  · -- grow
    have hfl := r.free_list; rw [hf] at hfl
    have hmin : rd c.fromMeta 0 = minI := hfl
    have hc : c.getFreeIndex = (c.capacity, c.grow) := by unfold CGraph.getFreeIndex; simp [hmin]
    rw [hg, hc]
    simp only [CGraph.capacity, CGraph.grow, List.length_append, List.length_cons, List.length_nil]
    refine ⟨r.lf, by rw [r.lf], by rw [r.lt], by rw [r.lfm], by rw [r.ltm], ?_, ?_, ?_, ?_, ?_, ?_, ?_⟩
    · intro j hj
      exact ⟨rd_append_lt _ _ _ (by rw [r.lf]; exact hj), rd_append_lt _ _ _ (by rw [r.lt]; exact hj),
        rd_append_lt _ _ _ (by rw [r.ltm]; exact hj)⟩
    · intro j hj _ _; exact rd_append_lt _ _ _ (by rw [r.lfm]; exact hj)
    · rw [← r.lf]; exact rd_append_len _ _
    · rw [← r.lt]; exact rd_append_len _ _
    · rw [← r.lfm]; exact rd_append_len _ _
    · rw [← r.ltm]; exact rd_append_len _ _
    · show FreeLinked _ _ g.free
      rw [hf]; show rd (c.fromMeta ++ [0]) 0 = minI
      rw [rd_append_lt _ _ _ (by rw [r.lfm]; exact hlen)]; exact hmin
  · -- pop
    have hfl := r.free_list; rw [hf] at hfl
    obtain ⟨hhead, htail⟩ := hfl
    have hfi := (w.free_iff f).mp (by rw [hf]; simp)
    have hnd := w.free_nodup; rw [hf] at hnd
    have hne : rd c.fromMeta 0 ≠ minI := by
      rw [hhead]; unfold minI; unfold i64Bound at hb; omega
    have htn : (-(rd c.fromMeta 0)).toNat = f := by rw [hhead]; simp
    have hc : c.getFreeIndex = (f, { c with fromMeta := wr (wr c.fromMeta 0 (rd c.fromMeta f)) f 0 }) := by
      unfold CGraph.getFreeIndex; simp only [hne, if_false, htn]
    rw [hg, hc]
    simp only
    have hf0 : f ≠ 0 := by omega
    have hl0 : 0 < c.fromMeta.length := by rw [r.lfm]; exact hlen
    have hlf : f < (wr c.fromMeta 0 (rd c.fromMeta f)).length := by rw [len_wr, r.lfm]; exact hfi.2.1
    obtain ⟨_, z1, z2, z3⟩ := r.free_slot f hfi.1 hfi.2.2 hfi.2.1
    refine ⟨trivial, r.lf, r.lt, by rw [len_wr, len_wr, r.lfm], r.ltm, fun j _ => ⟨trivial, trivial, trivial⟩, ?_, z1, z2, ?_, z3, ?_⟩
    · intro j _ hj1 hj0
      rw [rd_wr_ne _ _ _ _ hj1, rd_wr_ne _ _ _ _ hj0]
    · rw [rd_wr _ _ _ _ hlf]; simp
    · have h0 : rd (wr (wr c.fromMeta 0 (rd c.fromMeta f)) f 0) 0 = rd c.fromMeta f := by
        rw [rd_wr_ne _ _ _ _ (Ne.symm hf0), rd_wr _ _ _ _ hl0]; simp
      rw [h0]
      refine htail.frame ?_
      intro e he
      have hef : e ≠ f := by intro h; subst h; exact (List.nodup_cons.mp hnd).1 he
      have he0 : e ≠ 0 := by
        have := (w.free_iff e).mp (by rw [hf]; exact List.mem_cons_of_mem _ he); omega
      rw [rd_wr_ne _ _ _ _ hef, rd_wr_ne _ _ _ _ he0]

theorem edge_facts {g : Graph} (w : g.WF) {e s d : Nat} (h : g.kind e = .edge s d) :
    e ≠ 0 ∧ e < g.slots.length := by
  refine ⟨?_, lt_of_kind_ne_free g e (by rw [h]; simp)⟩
  intro h0; subst h0; rw [w.slot0] at h; cases h

theorem out_elem {g : Graph} (w : g.WF) {n e : Nat} (h : e ∈ g.outOf n) : ∃ d, g.kind e = .edge n d := (w.out_iff n e).mp h
theorem in_elem {g : Graph} (w : g.WF) {n e : Nat} (h : e ∈ g.inOf n) : ∃ s, g.kind e = .edge s n := (w.in_iff n e).mp h

/-- `insert_node` on the arrays refines `insert_node` on the list-level graph -/
theorem rep_insertNode (c : CGraph) (g : Graph) (r : Rep c g) (w : g.WF) (hb : g.slots.length < i64Bound) :
    c.insertNode.1 = g.insertNode.1 ∧ Rep c.insertNode.2 g.insertNode.2 := by
  obtain ⟨f1, f2, f3, f4, f5, f6, f7, f8, f9, f10, f11, f12⟩ := rep_getFreeIndex c g r w hb
  obtain ⟨_, hpos, hfree, hk, _, hcnt, _⟩ := insertNode_spec g w
  obtain ⟨hi, ho, hin, hlen, hfr⟩ := insertNode_chains g w
  have hsp := getFreeIndex_spec g w
  obtain ⟨_, _, s3, _, _, _, _, _, _, _, s11, s12⟩ := hsp
  have hlen0 := w.len_pos
  generalize hgi : g.insertNode = gi at *
  obtain ⟨i, g'⟩ := gi
  simp only at *
  subst hi
  generalize hcf : c.getFreeIndex = cf at *
  obtain ⟨ci, c1⟩ := cf
  simp only at *
  subst f1
  have hci : c.insertNode = (g.getFreeIndex.1, { c1 with toMeta := wr c1.toMeta 0 (rd c1.toMeta 0 + 1) }) := by
    unfold CGraph.insertNode; rw [hcf]
  rw [hci]
  refine ⟨rfl, ?_⟩
  simp only
  have hi0 : g.getFreeIndex.1 ≠ 0 := by omega
  have htm : ∀ j, j ≠ 0 → rd (wr c1.toMeta 0 (rd c1.toMeta 0 + 1)) j = rd c1.toMeta j := fun j hj => rd_wr_ne _ _ _ _ hj
  have old_lt : ∀ j, g.kind j ≠ .free → j < g.slots.length := fun j h => lt_of_kind_ne_free g j h
  have fm_same : ∀ e, e ≠ 0 → g.kind e ≠ .free → rd c1.fromMeta e = rd c.fromMeta e := by
    intro e h0 hk'
    exact f7 e (old_lt e hk') (by intro h; rw [h] at hk'; exact hk' hfree) h0
  have tm_same : ∀ e, e ≠ 0 → g.kind e ≠ .free → rd (wr c1.toMeta 0 (rd c1.toMeta 0 + 1)) e = rd c.toMeta e := by
    intro e h0 hk'; rw [htm e h0]; exact (f6 e (old_lt e hk')).2.2
  refine ⟨by rw [f2, hlen], by rw [f3, hlen], by rw [f4, hlen], by rw [len_wr, f5, hlen], ?_, ?_, ?_, ?_, ?_⟩
  · intro j hj0 hkj hjl
    rw [hk] at hkj
    by_cases hji : j = g.getFreeIndex.1
    · simp [hji] at hkj
    · simp only [hji, if_false] at hkj
      have hjl' : j < g.slots.length := s12 j (by rw [← hlen]; exact hjl) hji
      obtain ⟨a1, a2, a3, a4⟩ := r.free_slot j hj0 hkj hjl'
      have hj0' : j ≠ 0 := by omega
      refine ⟨by rw [f7 j hjl' hji hj0']; exact a1, by rw [(f6 j hjl').1]; exact a2, by rw [(f6 j hjl').2.1]; exact a3, ?_⟩
      rw [htm j hj0', (f6 j hjl').2.2]; exact a4
  · intro j hkj
    rw [hk] at hkj
    rw [ho, hin]
    by_cases hji : j = g.getFreeIndex.1
    · subst hji
      simp only [if_true, List.length_nil]
      refine ⟨f8, f9, f10, ?_⟩
      rw [htm _ hi0]; exact f11
    · simp only [hji, if_false] at hkj ⊢
      have hjl' : j < g.slots.length := old_lt j (by rw [hkj]; simp)
      have hj0' : j ≠ 0 := by intro h; subst h; rw [w.slot0] at hkj; cases hkj
      obtain ⟨a1, a2, a3, a4⟩ := r.node_slot j hkj
      refine ⟨?_, ?_, by rw [f7 j hjl' hji hj0']; exact a3, by rw [htm j hj0', (f6 j hjl').2.2]; exact a4⟩
      · rw [(f6 j hjl').1]
        refine a1.frame ?_
        intro e he
        obtain ⟨d, hd⟩ := out_elem w he
        exact fm_same e (edge_facts w hd).1 (by rw [hd]; simp)
      · rw [(f6 j hjl').2.1]
        refine a2.frame ?_
        intro e he
        obtain ⟨d, hd⟩ := in_elem w he
        exact tm_same e (edge_facts w hd).1 (by rw [hd]; simp)
  · intro e s d hke
    rw [hk] at hke
    by_cases hei : e = g.getFreeIndex.1
    · simp [hei] at hke
    · simp only [hei, if_false] at hke
      obtain ⟨a1, a2, a3⟩ := r.edge_slot e s d hke
      obtain ⟨e0, el⟩ := edge_facts w hke
      exact ⟨by rw [(f6 e el).1]; exact a1, by rw [(f6 e el).2.1]; exact a2, by rw [f7 e el hei e0]; exact a3⟩
  · rw [hfr]; exact f12
  · rw [rd_wr _ _ _ _ (by rw [f5]; omega)]
    simp only [if_true]
    rw [(f6 0 hlen0).2.2, r.count, hcnt]

/-- the arrays after `set_edge` for the new edge `i` from `s` to `d` (on the state `c1` after `get_free_index`) -/
theorem insertEdge_arrays (c1 : CGraph) (i s d n : Nat) (hl1 : c1.from_.length = n) (hl2 : c1.to_.length = n)
    (hl3 : c1.fromMeta.length = n) (hl4 : c1.toMeta.length = n) (hi : i < n) (hs : s < n) (hd : d < n)
    (his : i ≠ s) (hid : i ≠ d) :
    let c4 := (({ c1 with from_ := wr c1.from_ i (-(s : Int)), to_ := wr c1.to_ i (-(d : Int)) } : CGraph).updateFromEdge s i).updateToEdge d i
    (∀ j, rd c4.from_ j = if j = s then (i : Int) else if j = i then -(s : Int) else rd c1.from_ j) ∧
    (∀ j, rd c4.to_ j = if j = d then (i : Int) else if j = i then -(d : Int) else rd c1.to_ j) ∧
    (∀ j, rd c4.fromMeta j = if j = s then rd c1.fromMeta s + 1 else if j = i then rd c1.from_ s else rd c1.fromMeta j) ∧
    (∀ j, rd c4.toMeta j = if j = d then rd c1.toMeta d + 1 else if j = i then rd c1.to_ d else rd c1.toMeta j) ∧
    c4.from_.length = n ∧ c4.to_.length = n ∧ c4.fromMeta.length = n ∧ c4.toMeta.length = n := by
  simp only [CGraph.updateFromEdge, CGraph.updateToEdge]
  have e1 : rd (wr c1.from_ i (-(s : Int))) s = rd c1.from_ s := rd_wr_ne _ _ _ _ (Ne.symm his)
  have e2 : rd (wr c1.to_ i (-(d : Int))) d = rd c1.to_ d := rd_wr_ne _ _ _ _ (Ne.symm hid)
  refine ⟨?_, ?_, ?_, ?_, by simp [hl1], by simp [hl2], by simp [hl3], by simp [hl4]⟩
  · intro j
    rw [rd_wr _ _ _ _ (by rw [len_wr, hl1]; exact hs)]
    split
    · rfl
    · rw [rd_wr _ _ _ _ (by rw [hl1]; exact hi)]
  · intro j
    rw [rd_wr _ _ _ _ (by rw [len_wr, hl2]; exact hd)]
    split
    · rfl
    · rw [rd_wr _ _ _ _ (by rw [hl2]; exact hi)]
  · intro j
    rw [rd_wr _ _ _ _ (by rw [len_wr, hl3]; exact hs)]
    split
    · rw [rd_wr_ne _ _ _ _ (Ne.symm his)]
    · rw [rd_wr _ _ _ _ (by rw [hl3]; exact hi), e1]
  · intro j
    rw [rd_wr _ _ _ _ (by rw [len_wr, hl4]; exact hd)]
    split
    · rw [rd_wr_ne _ _ _ _ (Ne.symm hid)]
    · rw [rd_wr _ _ _ _ (by rw [hl4]; exact hi), e2]

/-- `insert_edge` on the arrays refines `insert_edge` on the list-level graph (success and failure) -/
theorem rep_insertEdge (c : CGraph) (g : Graph) (r : Rep c g) (w : g.WF) (hb : g.slots.length < i64Bound) (s d : Nat) :
    match g.insertEdge s d with
    | .ok gr => ∃ cr, c.insertEdge s d = .ok cr ∧ cr.1 = gr.1 ∧ Rep cr.2 gr.2
    | .error _ => c.insertEdge s d = .error CErr.invalidIndex := by
  by_cases hkk : g.kind s = .node ∧ g.kind d = .node
  · obtain ⟨hs, hd⟩ := hkk
    obtain ⟨gr, hgr, _, hpos, hfree, hk, _, hcnt, _⟩ := insertEdge_spec g w s d hs hd
    obtain ⟨hi, ho, hin, hlen, hfr⟩ := insertEdge_chains g w s d hs hd gr hgr
    rw [hgr]; simp only
    obtain ⟨f1, f2, f3, f4, f5, f6, f7, f8, f9, f10, f11, f12⟩ := rep_getFreeIndex c g r w hb
    have hsp := getFreeIndex_spec g w
    obtain ⟨_, _, s3, _, _, _, _, s8, s9, _, s11, s12⟩ := hsp
    have hlen0 := w.len_pos
    have hvs : c.validNode s = true := (r.validNode w s).mpr hs
    have hvd : c.validNode d = true := (r.validNode w d).mpr hd
    obtain ⟨i, g'⟩ := gr
    simp only at hpos hfree hk hcnt hi ho hin hlen hfr
    subst hi
    generalize hcf : c.getFreeIndex = cf at *
    obtain ⟨ci, c1⟩ := cf
    simp only at f1 f2 f3 f4 f5 f6 f7 f8 f9 f10 f11 f12
    subst f1
    have his : g.getFreeIndex.1 ≠ s := by intro h; rw [h] at hfree; rw [hfree] at hs; cases hs
    have hid : g.getFreeIndex.1 ≠ d := by intro h; rw [h] at hfree; rw [hfree] at hd; cases hd
    have hsl : s < g.slots.length := lt_of_kind_ne_free g s (by rw [hs]; simp)
    have hdl : d < g.slots.length := lt_of_kind_ne_free g d (by rw [hd]; simp)
    have hs0 : s ≠ 0 := by intro h; subst h; rw [w.slot0] at hs; cases hs
    have hd0 : d ≠ 0 := by intro h; subst h; rw [w.slot0] at hd; cases hd
    have hi0 : g.getFreeIndex.1 ≠ 0 := by omega
    obtain ⟨a1, a2, a3, a4, l1, l2, l3, l4⟩ := insertEdge_arrays c1 g.getFreeIndex.1 s d g.getFreeIndex.2.slots.length
      f2 f3 f4 f5 s3 (by omega) (by omega) his hid
    refine ⟨(g.getFreeIndex.1, _), by unfold CGraph.insertEdge; rw [hvs, hvd, hcf]; rfl, rfl, ?_⟩
    simp only
    have old_lt : ∀ j, g.kind j ≠ .free → j < g.slots.length := fun j h => lt_of_kind_ne_free g j h
    -- old live slots other than s, d keep their cells
    have fm_same : ∀ e, e ≠ 0 → e ≠ s → g.kind e ≠ .free → rd c1.fromMeta e = rd c.fromMeta e := by
      intro e h0 _ hk'
      exact f7 e (old_lt e hk') (by intro h; rw [h] at hk'; exact hk' hfree) h0
    have ne_i : ∀ e, g.kind e ≠ .free → e ≠ g.getFreeIndex.1 := by
      intro e hk' h; rw [h] at hk'; exact hk' hfree
    refine ⟨by rw [l1, hlen], by rw [l2, hlen], by rw [l3, hlen], by rw [l4, hlen], ?_, ?_, ?_, ?_, ?_⟩
    · intro j hj0 hkj hjl
      rw [hk] at hkj
      by_cases hji : j = g.getFreeIndex.1
      · simp [hji] at hkj
      · simp only [hji, if_false] at hkj
        have hjl' : j < g.slots.length := s12 j (by rw [← hlen]; exact hjl) hji
        have hjs : j ≠ s := by intro h; rw [h, hs] at hkj; cases hkj
        have hjd : j ≠ d := by intro h; rw [h, hd] at hkj; cases hkj
        have hj0' : j ≠ 0 := by omega
        obtain ⟨b1, b2, b3, b4⟩ := r.free_slot j hj0 hkj hjl'
        rw [a1, a2, a3, a4]
        simp only [hjs, hjd, hji, if_false]
        exact ⟨by rw [f7 j hjl' hji hj0']; exact b1, by rw [(f6 j hjl').1]; exact b2,
          by rw [(f6 j hjl').2.1]; exact b3, by rw [(f6 j hjl').2.2]; exact b4⟩
    · intro j hkj
      rw [hk] at hkj
      have hji : j ≠ g.getFreeIndex.1 := by intro h; simp [h] at hkj
      simp only [hji, if_false] at hkj
      have hjl' : j < g.slots.length := old_lt j (by rw [hkj]; simp)
      have hj0' : j ≠ 0 := by intro h; subst h; rw [w.slot0] at hkj; cases hkj
      obtain ⟨b1, b2, b3, b4⟩ := r.node_slot j hkj
      have frame_fm : ∀ l : List Nat, (∀ e ∈ l, ∃ a b, g.kind e = .edge a b) →
          ∀ e ∈ l, rd (((({ c1 with from_ := wr c1.from_ g.getFreeIndex.1 (-(s : Int)), to_ := wr c1.to_ g.getFreeIndex.1 (-(d : Int)) } : CGraph).updateFromEdge s g.getFreeIndex.1).updateToEdge d g.getFreeIndex.1).fromMeta) e = rd c.fromMeta e := by
        intro l hl e he
        obtain ⟨a, b, hab⟩ := hl e he
        have hes : e ≠ s := by intro h; rw [h, hs] at hab; cases hab
        rw [a3]; simp only [hes, ne_i e (by rw [hab]; simp), if_false]
        exact fm_same e (edge_facts w hab).1 hes (by rw [hab]; simp)
      have frame_tm : ∀ l : List Nat, (∀ e ∈ l, ∃ a b, g.kind e = .edge a b) →
          ∀ e ∈ l, rd (((({ c1 with from_ := wr c1.from_ g.getFreeIndex.1 (-(s : Int)), to_ := wr c1.to_ g.getFreeIndex.1 (-(d : Int)) } : CGraph).updateFromEdge s g.getFreeIndex.1).updateToEdge d g.getFreeIndex.1).toMeta) e = rd c.toMeta e := by
        intro l hl e he
        obtain ⟨a, b, hab⟩ := hl e he
        have hed : e ≠ d := by intro h; rw [h, hd] at hab; cases hab
        rw [a4]; simp only [hed, ne_i e (by rw [hab]; simp), if_false]
        exact (f6 e (edge_facts w hab).2).2.2
      rw [ho, hin, a1, a2, a3, a4]
      refine ⟨?_, ?_, ?_, ?_⟩
      · by_cases hjs : j = s
        · subst hjs
          simp only [if_true]
          refine ⟨rfl, ?_⟩
          rw [a3]; simp only [his, hi0, if_false, if_true]
          rw [(f6 j hjl').1]
          exact b1.frame (frame_fm _ (fun e he => by obtain ⟨x, hx⟩ := out_elem w he; exact ⟨_, _, hx⟩))
        · simp only [hjs, hji, if_false]
          rw [(f6 j hjl').1]
          exact b1.frame (frame_fm _ (fun e he => by obtain ⟨x, hx⟩ := out_elem w he; exact ⟨_, _, hx⟩))
      · by_cases hjd : j = d
        · subst hjd
          simp only [if_true]
          refine ⟨rfl, ?_⟩
          rw [a4]; simp only [hid, if_false, if_true]
          rw [(f6 j hjl').2.1]
          exact b2.frame (frame_tm _ (fun e he => by obtain ⟨x, hx⟩ := in_elem w he; exact ⟨_, _, hx⟩))
        · simp only [hjd, hji, if_false]
          rw [(f6 j hjl').2.1]
          exact b2.frame (frame_tm _ (fun e he => by obtain ⟨x, hx⟩ := in_elem w he; exact ⟨_, _, hx⟩))
      · by_cases hjs : j = s
        · subst hjs; simp only [if_true, List.length_cons]
          rw [f7 j hjl' hji hj0', b3]; omega
        · simp only [hjs, hji, if_false]; rw [f7 j hjl' hji hj0']; exact b3
      · by_cases hjd : j = d
        · subst hjd; simp only [if_true, List.length_cons]
          rw [(f6 j hjl').2.2, b4]; omega
        · simp only [hjd, hji, if_false]; rw [(f6 j hjl').2.2]; exact b4
    · intro e a b hke
      rw [hk] at hke
      rw [a1, a2, a3]
      by_cases hei : e = g.getFreeIndex.1
      · subst hei
        simp only [if_true, Kind.edge.injEq] at hke
        obtain ⟨rfl, rfl⟩ := hke
        simp only [his, hid, if_false, if_true]
        refine ⟨trivial, trivial, ?_⟩
        rw [(f6 s hsl).1]; exact (r.node_slot s hs).1.head_nonneg
      · simp only [hei, if_false] at hke
        obtain ⟨e0, el⟩ := edge_facts w hke
        have hes : e ≠ s := by intro h; rw [h, hs] at hke; cases hke
        have hed : e ≠ d := by intro h; rw [h, hd] at hke; cases hke
        obtain ⟨b1, b2, b3⟩ := r.edge_slot e a b hke
        simp only [hes, hed, hei, if_false]
        exact ⟨by rw [(f6 e el).1]; exact b1, by rw [(f6 e el).2.1]; exact b2, by rw [f7 e el hei e0]; exact b3⟩
    · rw [hfr]
      have h0 : rd ((({ c1 with from_ := wr c1.from_ g.getFreeIndex.1 (-(s : Int)), to_ := wr c1.to_ g.getFreeIndex.1 (-(d : Int)) } : CGraph).updateFromEdge s g.getFreeIndex.1).updateToEdge d g.getFreeIndex.1).fromMeta 0 = rd c1.fromMeta 0 := by
        rw [a3]; simp only [Ne.symm hs0, Ne.symm hi0, if_false]
      rw [h0]
      refine f12.frame ?_
      intro e he
      obtain ⟨hei, _, _, hkf⟩ := (s9 e).mp he
      have hes : e ≠ s := by intro h; rw [h, hs] at hkf; cases hkf
      rw [a3]; simp only [hes, hei, if_false]
    · rw [a4]; simp only [Ne.symm hd0, Ne.symm hi0, if_false]
      rw [(f6 0 hlen0).2.2, r.count, hcnt]
  · have := insertEdge_error g s d hkk
    rw [this]; simp only
    unfold CGraph.insertEdge
    have : (c.validNode s && c.validNode d) = false := by
      cases h1 : c.validNode s <;> cases h2 : c.validNode d <;> simp
      exact hkk ⟨(r.validNode w s).mp h1, (r.validNode w d).mp h2⟩
    rw [this]; rfl

end AgdbDb
