/-
  Each array-level mutation of `graph.rs` refines the list-level mutation (`Rep` is a simulation).
-/
import AgdbDb.Lemmas.CRep
import AgdbDb.Lemmas.CUnlink
namespace AgdbDb
open Graph

def i64Bound : Nat := 9223372036854775808

/-- everything `get_free_index` does, on both levels -/
theorem rep_getFreeIndex (c : CGraph) (g : Graph) (r : Rep c g) (w : g.WF) (hb : g.slots.length < i64Bound) :
    let i := g.getFreeIndex.1
    let g1 := g.getFreeIndex.2
    let c1 := c.getFreeIndex.2
    c.getFreeIndex.1 = i ∧
    c1.from_.length = g1.slots.length ∧ c1.to_.length = g1.slots.length ∧
    c1.fromMeta.length = g1.slots.length ∧ c1.toMeta.length = g1.slots.length ∧
    (∀ j, j < g.slots.length → rd c1.from_ j = rd c.from_ j ∧ rd c1.to_ j = rd c.to_ j ∧ rd c1.toMeta j = rd c.toMeta j) ∧
    (∀ j, j < g.slots.length → j ≠ i → j ≠ 0 → rd c1.fromMeta j = rd c.fromMeta j) ∧
    rd c1.from_ i = 0 ∧ rd c1.to_ i = 0 ∧ rd c1.fromMeta i = 0 ∧ rd c1.toMeta i = 0 ∧
    FreeLinked (rd c1.fromMeta) (rd c1.fromMeta 0) g1.free := by
  have hlen := w.len_pos
  rcases getFreeIndex_cases g with ⟨hf, hg⟩ | ⟨f, rest, hf, hg⟩
  · -- grow
    have hfl := r.free_list; rw [hf] at hfl
    have hmin : rd c.fromMeta 0 = minI := hfl
    have hc : c.getFreeIndex = (c.capacity, c.grow) := by unfold CGraph.getFreeIndex; simp [hmin]
    rw [hg, hc]
    simp only [CGraph.capacity, CGraph.grow, List.length_append, List.length_cons, List.length_nil]
    refine ⟨r.lf, by rw [r.lf], by rw [r.lt], by rw [r.lfm], by rw [r.ltm], ?_, ?_, ?_, ?_, ?_, ?_, ?_⟩
    · intro j hj
      exact ⟨rd_append_lt _ _ _ (by rw [r.lf]; exact hj), rd_append_lt _ _ _ (by rw [r.lt]; exact hj),
        rd_append_lt _ _ _ (by rw [r.ltm]; exact hj)⟩
    · intro j hj _ _; exact rd_append_lt _ _ _ (by rw [r.lfm]; exact hj)
    · rw [← r.lf]; exact rd_append_len _ _
    · rw [← r.lt]; exact rd_append_len _ _
    · rw [← r.lfm]; exact rd_append_len _ _
    · rw [← r.ltm]; exact rd_append_len _ _
    · show FreeLinked _ _ g.free
      rw [hf]; show rd (c.fromMeta ++ [0]) 0 = minI
      rw [rd_append_lt _ _ _ (by rw [r.lfm]; exact hlen)]; exact hmin
  · -- pop
    have hfl := r.free_list; rw [hf] at hfl
    obtain ⟨hhead, htail⟩ := hfl
    have hfi := (w.free_iff f).mp (by rw [hf]; simp)
    have hnd := w.free_nodup; rw [hf] at hnd
    have hne : rd c.fromMeta 0 ≠ minI := by
      rw [hhead]; unfold minI; unfold i64Bound at hb; omega
    have htn : (-(rd c.fromMeta 0)).toNat = f := by rw [hhead]; simp
    have hc : c.getFreeIndex = (f, { c with fromMeta := wr (wr c.fromMeta 0 (rd c.fromMeta f)) f 0 }) := by
      unfold CGraph.getFreeIndex; simp only [hne, if_false, htn]
    rw [hg, hc]
    simp only
    have hf0 : f ≠ 0 := by omega
    have hl0 : 0 < c.fromMeta.length := by rw [r.lfm]; exact hlen
    have hlf : f < (wr c.fromMeta 0 (rd c.fromMeta f)).length := by rw [len_wr, r.lfm]; exact hfi.2.1
    obtain ⟨_, z1, z2, z3⟩ := r.free_slot f hfi.1 hfi.2.2 hfi.2.1
    refine ⟨trivial, r.lf, r.lt, by rw [len_wr, len_wr, r.lfm], r.ltm, fun j _ => ⟨trivial, trivial, trivial⟩, ?_, z1, z2, ?_, z3, ?_⟩
    · intro j _ hj1 hj0
      rw [rd_wr_ne _ _ _ _ hj1, rd_wr_ne _ _ _ _ hj0]
    · rw [rd_wr _ _ _ _ hlf]; simp
    · have h0 : rd (wr (wr c.fromMeta 0 (rd c.fromMeta f)) f 0) 0 = rd c.fromMeta f := by
        rw [rd_wr_ne _ _ _ _ (Ne.symm hf0), rd_wr _ _ _ _ hl0]; simp
      rw [h0]
      refine htail.frame ?_
      intro e he
      have hef : e ≠ f := by intro h; subst h; exact (List.nodup_cons.mp hnd).1 he
      have he0 : e ≠ 0 := by
        have := (w.free_iff e).mp (by rw [hf]; exact List.mem_cons_of_mem _ he); omega
      rw [rd_wr_ne _ _ _ _ hef, rd_wr_ne _ _ _ _ he0]

theorem edge_facts {g : Graph} (w : g.WF) {e s d : Nat} (h : g.kind e = .edge s d) :
    e ≠ 0 ∧ e < g.slots.length := by
  refine ⟨?_, lt_of_kind_ne_free g e (by rw [h]; simp)⟩
  intro h0; subst h0; rw [w.slot0] at h; cases h

theorem out_elem {g : Graph} (w : g.WF) {n e : Nat} (h : e ∈ g.outOf n) : ∃ d, g.kind e = .edge n d := (w.out_iff n e).mp h
theorem in_elem {g : Graph} (w : g.WF) {n e : Nat} (h : e ∈ g.inOf n) : ∃ s, g.kind e = .edge s n := (w.in_iff n e).mp h

/-- `insert_node` on the arrays refines `insert_node` on the list-level graph -/
theorem rep_insertNode (c : CGraph) (g : Graph) (r : Rep c g) (w : g.WF) (hb : g.slots.length < i64Bound) :
    c.insertNode.1 = g.insertNode.1 ∧ Rep c.insertNode.2 g.insertNode.2 := by
  obtain ⟨f1, f2, f3, f4, f5, f6, f7, f8, f9, f10, f11, f12⟩ := rep_getFreeIndex c g r w hb
  obtain ⟨_, hpos, hfree, hk, _, hcnt, _⟩ := insertNode_spec g w
  obtain ⟨hi, ho, hin, hlen, hfr⟩ := insertNode_chains g w
  have hsp := getFreeIndex_spec g w
  obtain ⟨_, _, s3, _, _, _, _, _, _, _, s11, s12⟩ := hsp
  have hlen0 := w.len_pos
  generalize hgi : g.insertNode = gi at *
  obtain ⟨i, g'⟩ := gi
  simp only at *
  subst hi
  generalize hcf : c.getFreeIndex = cf at *
  obtain ⟨ci, c1⟩ := cf
  simp only at *
  subst f1
  have hci : c.insertNode = (g.getFreeIndex.1, { c1 with toMeta := wr c1.toMeta 0 (rd c1.toMeta 0 + 1) }) := by
    unfold CGraph.insertNode; rw [hcf]
  rw [hci]
  refine ⟨rfl, ?_⟩
  simp only
  have hi0 : g.getFreeIndex.1 ≠ 0 := by omega
  have htm : ∀ j, j ≠ 0 → rd (wr c1.toMeta 0 (rd c1.toMeta 0 + 1)) j = rd c1.toMeta j := fun j hj => rd_wr_ne _ _ _ _ hj
  have old_lt : ∀ j, g.kind j ≠ .free → j < g.slots.length := fun j h => lt_of_kind_ne_free g j h
  have fm_same : ∀ e, e ≠ 0 → g.kind e ≠ .free → rd c1.fromMeta e = rd c.fromMeta e := by
    intro e h0 hk'
    exact f7 e (old_lt e hk') (by intro h; rw [h] at hk'; exact hk' hfree) h0
  have tm_same : ∀ e, e ≠ 0 → g.kind e ≠ .free → rd (wr c1.toMeta 0 (rd c1.toMeta 0 + 1)) e = rd c.toMeta e := by
    intro e h0 hk'; rw [htm e h0]; exact (f6 e (old_lt e hk')).2.2
  refine ⟨by rw [f2, hlen], by rw [f3, hlen], by rw [f4, hlen], by rw [len_wr, f5, hlen], ?_, ?_, ?_, ?_, ?_⟩
  · intro j hj0 hkj hjl
    rw [hk] at hkj
    by_cases hji : j = g.getFreeIndex.1
    · simp [hji] at hkj
    · simp only [hji, if_false] at hkj
      have hjl' : j < g.slots.length := s12 j (by rw [← hlen]; exact hjl) hji
      obtain ⟨a1, a2, a3, a4⟩ := r.free_slot j hj0 hkj hjl'
      have hj0' : j ≠ 0 := by omega
      refine ⟨by rw [f7 j hjl' hji hj0']; exact a1, by rw [(f6 j hjl').1]; exact a2, by rw [(f6 j hjl').2.1]; exact a3, ?_⟩
      rw [htm j hj0', (f6 j hjl').2.2]; exact a4
  · intro j hkj
    rw [hk] at hkj
    rw [ho, hin]
    by_cases hji : j = g.getFreeIndex.1
    · subst hji
      simp only [if_true, List.length_nil]
      refine ⟨f8, f9, f10, ?_⟩
      rw [htm _ hi0]; exact f11
    · simp only [hji, if_false] at hkj ⊢
      have hjl' : j < g.slots.length := old_lt j (by rw [hkj]; simp)
      have hj0' : j ≠ 0 := by intro h; subst h; rw [w.slot0] at hkj; cases hkj
      obtain ⟨a1, a2, a3, a4⟩ := r.node_slot j hkj
      refine ⟨?_, ?_, by rw [f7 j hjl' hji hj0']; exact a3, by rw [htm j hj0', (f6 j hjl').2.2]; exact a4⟩
      · rw [(f6 j hjl').1]
        refine a1.frame ?_
        intro e he
        obtain ⟨d, hd⟩ := out_elem w he
        exact fm_same e (edge_facts w hd).1 (by rw [hd]; simp)
      · rw [(f6 j hjl').2.1]
        refine a2.frame ?_
        intro e he
        obtain ⟨d, hd⟩ := in_elem w he
        exact tm_same e (edge_facts w hd).1 (by rw [hd]; simp)
  · intro e s d hke
    rw [hk] at hke
    by_cases hei : e = g.getFreeIndex.1
    · simp [hei] at hke
    · simp only [hei, if_false] at hke
      obtain ⟨a1, a2, a3⟩ := r.edge_slot e s d hke
      obtain ⟨e0, el⟩ := edge_facts w hke
      exact ⟨by rw [(f6 e el).1]; exact a1, by rw [(f6 e el).2.1]; exact a2, by rw [f7 e el hei e0]; exact a3⟩
  · rw [hfr]; exact f12
  · rw [rd_wr _ _ _ _ (by rw [f5]; omega)]
    simp only [if_true]
    rw [(f6 0 hlen0).2.2, r.count, hcnt]

/-- the arrays after `set_edge` for the new edge `i` from `s` to `d` (on the state `c1` after `get_free_index`) -/
theorem insertEdge_arrays (c1 : CGraph) (i s d n : Nat) (hl1 : c1.from_.length = n) (hl2 : c1.to_.length = n)
    (hl3 : c1.fromMeta.length = n) (hl4 : c1.toMeta.length = n) (hi : i < n) (hs : s < n) (hd : d < n)
    (his : i ≠ s) (hid : i ≠ d) :
    let c4 := (({ c1 with from_ := wr c1.from_ i (-(s : Int)), to_ := wr c1.to_ i (-(d : Int)) } : CGraph).updateFromEdge s i).updateToEdge d i
    (∀ j, rd c4.from_ j = if j = s then (i : Int) else if j = i then -(s : Int) else rd c1.from_ j) ∧
    (∀ j, rd c4.to_ j = if j = d then (i : Int) else if j = i then -(d : Int) else rd c1.to_ j) ∧
    (∀ j, rd c4.fromMeta j = if j = s then rd c1.fromMeta s + 1 else if j = i then rd c1.from_ s else rd c1.fromMeta j) ∧
    (∀ j, rd c4.toMeta j = if j = d then rd c1.toMeta d + 1 else if j = i then rd c1.to_ d else rd c1.toMeta j) ∧
    c4.from_.length = n ∧ c4.to_.length = n ∧ c4.fromMeta.length = n ∧ c4.toMeta.length = n := by
  simp only [CGraph.updateFromEdge, CGraph.updateToEdge]
  have e1 : rd (wr c1.from_ i (-(s : Int))) s = rd c1.from_ s := rd_wr_ne _ _ _ _ (Ne.symm his)
  have e2 : rd (wr c1.to_ i (-(d : Int))) d = rd c1.to_ d := rd_wr_ne _ _ _ _ (Ne.symm hid)
  refine ⟨?_, ?_, ?_, ?_, by simp [hl1], by simp [hl2], by simp [hl3], by simp [hl4]⟩
  · intro j
    rw [rd_wr _ _ _ _ (by rw [len_wr, hl1]; exact hs)]
    split
    · rfl
    · rw [rd_wr _ _ _ _ (by rw [hl1]; exact hi)]
  · intro j
    rw [rd_wr _ _ _ _ (by rw [len_wr, hl2]; exact hd)]
    split
    · rfl
    · rw [rd_wr _ _ _ _ (by rw [hl2]; exact hi)]
  · intro j
    rw [rd_wr _ _ _ _ (by rw [len_wr, hl3]; exact hs)]
    split
    · rw [rd_wr_ne _ _ _ _ (Ne.symm his)]
    · rw [rd_wr _ _ _ _ (by rw [hl3]; exact hi), e1]
  · intro j
    rw [rd_wr _ _ _ _ (by rw [len_wr, hl4]; exact hd)]
    split
    · rw [rd_wr_ne _ _ _ _ (Ne.symm hid)]
    · rw [rd_wr _ _ _ _ (by rw [hl4]; exact hi), e2]

/-- `insert_edge` on the arrays refines `insert_edge` on the list-level graph (success and failure) -/
theorem rep_insertEdge (c : CGraph) (g : Graph) (r : Rep c g) (w : g.WF) (hb : g.slots.length < i64Bound) (s d : Nat) :
    match g.insertEdge s d with
    | .ok gr => ∃ cr, c.insertEdge s d = .ok cr ∧ cr.1 = gr.1 ∧ Rep cr.2 gr.2
    | .error _ => c.insertEdge s d = .error CErr.invalidIndex := by
  by_cases hkk : g.kind s = .node ∧ g.kind d = .node
  · obtain ⟨hs, hd⟩ := hkk
    obtain ⟨gr, hgr, _, hpos, hfree, hk, _, hcnt, _⟩ := insertEdge_spec g w s d hs hd
    obtain ⟨hi, ho, hin, hlen, hfr⟩ := insertEdge_chains g w s d hs hd gr hgr
    rw [hgr]; simp only
    obtain ⟨f1, f2, f3, f4, f5, f6, f7, f8, f9, f10, f11, f12⟩ := rep_getFreeIndex c g r w hb
    have hsp := getFreeIndex_spec g w
    obtain ⟨_, _, s3, _, _, _, _, s8, s9, _, s11, s12⟩ := hsp
    have hlen0 := w.len_pos
    have hvs : c.validNode s = true := (r.validNode w s).mpr hs
    have hvd : c.validNode d = true := (r.validNode w d).mpr hd
    obtain ⟨i, g'⟩ := gr
    simp only at hpos hfree hk hcnt hi ho hin hlen hfr
    subst hi
    generalize hcf : c.getFreeIndex = cf at *
    obtain ⟨ci, c1⟩ := cf
    simp only at f1 f2 f3 f4 f5 f6 f7 f8 f9 f10 f11 f12
    subst f1
    have his : g.getFreeIndex.1 ≠ s := by intro h; rw [h] at hfree; rw [hfree] at hs; cases hs
    have hid : g.getFreeIndex.1 ≠ d := by intro h; rw [h] at hfree; rw [hfree] at hd; cases hd
    have hsl : s < g.slots.length := lt_of_kind_ne_free g s (by rw [hs]; simp)
    have hdl : d < g.slots.length := lt_of_kind_ne_free g d (by rw [hd]; simp)
    have hs0 : s ≠ 0 := by intro h; subst h; rw [w.slot0] at hs; cases hs
    have hd0 : d ≠ 0 := by intro h; subst h; rw [w.slot0] at hd; cases hd
    have hi0 : g.getFreeIndex.1 ≠ 0 := by omega
    obtain ⟨a1, a2, a3, a4, l1, l2, l3, l4⟩ := insertEdge_arrays c1 g.getFreeIndex.1 s d g.getFreeIndex.2.slots.length
      f2 f3 f4 f5 s3 (by omega) (by omega) his hid
    refine ⟨(g.getFreeIndex.1, _), by unfold CGraph.insertEdge; rw [hvs, hvd, hcf]; rfl, rfl, ?_⟩
    simp only
    have old_lt : ∀ j, g.kind j ≠ .free → j < g.slots.length := fun j h => lt_of_kind_ne_free g j h
    -- old live slots other than s, d keep their cells
    have fm_same : ∀ e, e ≠ 0 → e ≠ s → g.kind e ≠ .free → rd c1.fromMeta e = rd c.fromMeta e := by
      intro e h0 _ hk'
      exact f7 e (old_lt e hk') (by intro h; rw [h] at hk'; exact hk' hfree) h0
    have ne_i : ∀ e, g.kind e ≠ .free → e ≠ g.getFreeIndex.1 := by
      intro e hk' h; rw [h] at hk'; exact hk' hfree
    refine ⟨by rw [l1, hlen], by rw [l2, hlen], by rw [l3, hlen], by rw [l4, hlen], ?_, ?_, ?_, ?_, ?_⟩
    · intro j hj0 hkj hjl
      rw [hk] at hkj
      by_cases hji : j = g.getFreeIndex.1
      · simp [hji] at hkj
      · simp only [hji, if_false] at hkj
        have hjl' : j < g.slots.length := s12 j (by rw [← hlen]; exact hjl) hji
        have hjs : j ≠ s := by intro h; rw [h, hs] at hkj; cases hkj
        have hjd : j ≠ d := by intro h; rw [h, hd] at hkj; cases hkj
        have hj0' : j ≠ 0 := by omega
        obtain ⟨b1, b2, b3, b4⟩ := r.free_slot j hj0 hkj hjl'
        rw [a1, a2, a3, a4]
        simp only [hjs, hjd, hji, if_false]
        exact ⟨by rw [f7 j hjl' hji hj0']; exact b1, by rw [(f6 j hjl').1]; exact b2,
          by rw [(f6 j hjl').2.1]; exact b3, by rw [(f6 j hjl').2.2]; exact b4⟩
    · intro j hkj
      rw [hk] at hkj
      have hji : j ≠ g.getFreeIndex.1 := by intro h; simp [h] at hkj
      simp only [hji, if_false] at hkj
      have hjl' : j < g.slots.length := old_lt j (by rw [hkj]; simp)
      have hj0' : j ≠ 0 := by intro h; subst h; rw [w.slot0] at hkj; cases hkj
      obtain ⟨b1, b2, b3, b4⟩ := r.node_slot j hkj
      have frame_fm : ∀ l : List Nat, (∀ e ∈ l, ∃ a b, g.kind e = .edge a b) →
          ∀ e ∈ l, rd (((({ c1 with from_ := wr c1.from_ g.getFreeIndex.1 (-(s : Int)), to_ := wr c1.to_ g.getFreeIndex.1 (-(d : Int)) } : CGraph).updateFromEdge s g.getFreeIndex.1).updateToEdge d g.getFreeIndex.1).fromMeta) e = rd c.fromMeta e := by
        intro l hl e he
        obtain ⟨a, b, hab⟩ := hl e he
        have hes : e ≠ s := by intro h; rw [h, hs] at hab; cases hab
        rw [a3]; simp only [hes, ne_i e (by rw [hab]; simp), if_false]
        exact fm_same e (edge_facts w hab).1 hes (by rw [hab]; simp)
      have frame_tm : ∀ l : List Nat, (∀ e ∈ l, ∃ a b, g.kind e = .edge a b) →
          ∀ e ∈ l, rd (((({ c1 with from_ := wr c1.from_ g.getFreeIndex.1 (-(s : Int)), to_ := wr c1.to_ g.getFreeIndex.1 (-(d : Int)) } : CGraph).updateFromEdge s g.getFreeIndex.1).updateToEdge d g.getFreeIndex.1).toMeta) e = rd c.toMeta e := by
        intro l hl e he
        obtain ⟨a, b, hab⟩ := hl e he
        have hed : e ≠ d := by intro h; rw [h, hd] at hab; cases hab
        rw [a4]; simp only [hed, ne_i e (by rw [hab]; simp), if_false]
        exact (f6 e (edge_facts w hab).2).2.2
      rw [ho, hin, a1, a2, a3, a4]
      refine ⟨?_, ?_, ?_, ?_⟩
      · by_cases hjs : j = s
        · subst hjs
          simp only [if_true]
          refine ⟨rfl, ?_⟩
          rw [a3]; simp only [his, hi0, if_false, if_true]
          rw [(f6 j hjl').1]
          exact b1.frame (frame_fm _ (fun e he => by obtain ⟨x, hx⟩ := out_elem w he; exact ⟨_, _, hx⟩))
        · simp only [hjs, hji, if_false]
          rw [(f6 j hjl').1]
          exact b1.frame (frame_fm _ (fun e he => by obtain ⟨x, hx⟩ := out_elem w he; exact ⟨_, _, hx⟩))
      · by_cases hjd : j = d
        · subst hjd
          simp only [if_true]
          refine ⟨rfl, ?_⟩
          rw [a4]; simp only [hid, if_false, if_true]
          rw [(f6 j hjl').2.1]
          exact b2.frame (frame_tm _ (fun e he => by obtain ⟨x, hx⟩ := in_elem w he; exact ⟨_, _, hx⟩))
        · simp only [hjd, hji, if_false]
          rw [(f6 j hjl').2.1]
          exact b2.frame (frame_tm _ (fun e he => by obtain ⟨x, hx⟩ := in_elem w he; exact ⟨_, _, hx⟩))
      · by_cases hjs : j = s
        · subst hjs; simp only [if_true, List.length_cons]
          rw [f7 j hjl' hji hj0', b3]; omega
        · simp only [hjs, hji, if_false]; rw [f7 j hjl' hji hj0']; exact b3
      · by_cases hjd : j = d
        · subst hjd; simp only [if_true, List.length_cons]
          rw [(f6 j hjl').2.2, b4]; omega
        · simp only [hjd, hji, if_false]; rw [(f6 j hjl').2.2]; exact b4
    · intro e a b hke
      rw [hk] at hke
      rw [a1, a2, a3]
      by_cases hei : e = g.getFreeIndex.1
      · subst hei
        simp only [if_true, Kind.edge.injEq] at hke
        obtain ⟨rfl, rfl⟩ := hke
        simp only [his, hid, if_false, if_true]
        refine ⟨trivial, trivial, ?_⟩
        rw [(f6 s hsl).1]; exact (r.node_slot s hs).1.head_nonneg
      · simp only [hei, if_false] at hke
        obtain ⟨e0, el⟩ := edge_facts w hke
        have hes : e ≠ s := by intro h; rw [h, hs] at hke; cases hke
        have hed : e ≠ d := by intro h; rw [h, hd] at hke; cases hke
        obtain ⟨b1, b2, b3⟩ := r.edge_slot e a b hke
        simp only [hes, hed, hei, if_false]
        exact ⟨by rw [(f6 e el).1]; exact b1, by rw [(f6 e el).2.1]; exact b2, by rw [f7 e el hei e0]; exact b3⟩
    · rw [hfr]
      have h0 : rd ((({ c1 with from_ := wr c1.from_ g.getFreeIndex.1 (-(s : Int)), to_ := wr c1.to_ g.getFreeIndex.1 (-(d : Int)) } : CGraph).updateFromEdge s g.getFreeIndex.1).updateToEdge d g.getFreeIndex.1).fromMeta 0 = rd c1.fromMeta 0 := by
        rw [a3]; simp only [Ne.symm hs0, Ne.symm hi0, if_false]
      rw [h0]
      refine f12.frame ?_
      intro e he
      obtain ⟨hei, _, _, hkf⟩ := (s9 e).mp he
      have hes : e ≠ s := by intro h; rw [h, hs] at hkf; cases hkf
      rw [a3]; simp only [hes, hei, if_false]
    · rw [a4]; simp only [Ne.symm hd0, Ne.symm hi0, if_false]
      rw [(f6 0 hlen0).2.2, r.count, hcnt]
  · have := insertEdge_error g s d hkk
    rw [this]; simp only
    unfold CGraph.insertEdge
    have : (c.validNode s && c.validNode d) = false := by
      cases h1 : c.validNode s <;> cases h2 : c.validNode d <;> simp
      exact hkk ⟨(r.validNode w s).mp h1, (r.validNode w d).mp h2⟩
    rw [this]; rfl

theorem free_head_neg {c : CGraph} {g : Graph} (r : Rep c g) (w : g.WF) : rd c.fromMeta 0 < 0 := by
  have h := r.free_list
  cases hf : g.free with
  | nil => rw [hf] at h; have : rd c.fromMeta 0 = minI := h; rw [this]; unfold minI; omega
  | cons f rest =>
    rw [hf] at h
    have hpos := ((w.free_iff f).mp (by rw [hf]; simp)).1
    rw [h.1]; omega

/-- `remove_edge` on the arrays refines `remove_edge` on the list-level graph -/
theorem rep_removeEdge (c : CGraph) (g : Graph) (r : Rep c g) (w : g.WF) (e s d : Nat) (he : g.kind e = .edge s d) :
    ∃ c', c.removeEdge e = .ok c' ∧ Rep c' (g.removeEdge e) := by
  have hs := w.src_node he
  have hd := w.dst_node he
  obtain ⟨e0, el⟩ := edge_facts w he
  have hsl : s < g.slots.length := lt_of_kind_ne_free g s (by rw [hs]; simp)
  have hdl : d < g.slots.length := lt_of_kind_ne_free g d (by rw [hd]; simp)
  have hs0 : s ≠ 0 := by intro h; subst h; rw [w.slot0] at hs; cases hs
  have hd0 : d ≠ 0 := by intro h; subst h; rw [w.slot0] at hd; cases hd
  have hes : e ≠ s := by intro h; rw [h, hs] at he; cases he
  have hed : e ≠ d := by intro h; rw [h, hd] at he; cases he
  obtain ⟨E1, E2, E3⟩ := r.edge_slot e s d he
  obtain ⟨N1, _, N3, _⟩ := r.node_slot s hs
  obtain ⟨_, M2, _, M4⟩ := r.node_slot d hd
  have hsn : (-(rd c.from_ e)).toNat = s := by rw [E1]; simp
  have hdn : (-(rd c.to_ e)).toNat = d := by rw [E2]; simp
  have heo : e ∈ g.outOf s := (w.out_iff s e).mpr ⟨d, he⟩
  have hei : e ∈ g.inOf d := (w.in_iff d e).mpr ⟨s, he⟩
  have out_edge : ∀ n x, x ∈ g.outOf n → ∃ b, g.kind x = .edge n b := fun n x hx => out_elem w hx
  have in_edge : ∀ n x, x ∈ g.inOf n → ∃ a, g.kind x = .edge a n := fun n x hx => in_elem w hx
  -- first unlink
  obtain ⟨h1, n1, hu1, U1, U2, U3, U4, U5, U6, U7⟩ := unlink_spec c.from_ c.fromMeta c.capacity s e (g.outOf s) N1
    (w.out_nodup s) heo
    (fun x hx => by obtain ⟨b, hb⟩ := out_edge s x hx; rw [r.lfm]; exact (edge_facts w hb).2)
    (by unfold CGraph.capacity; rw [r.lf, r.lfm]; exact Nat.le_refl _)
    (by rw [r.lf]; exact hsl) (by rw [r.lfm]; exact hsl)
    (fun hx => by obtain ⟨b, hb⟩ := out_edge s s hx; rw [hs] at hb; cases hb)
  have hc1 : c.removeFromEdge e = .ok { c with from_ := h1, fromMeta := n1 } := by
    unfold CGraph.removeFromEdge; rw [hsn, hu1]
  -- second unlink
  obtain ⟨h2, n2, hu2, V1, V2, V3, V4, V5, V6, V7⟩ := unlink_spec c.to_ c.toMeta c.capacity d e (g.inOf d) M2
    (w.in_nodup d) hei
    (fun x hx => by obtain ⟨b, hb⟩ := in_edge d x hx; rw [r.ltm]; exact (edge_facts w hb).2)
    (by unfold CGraph.capacity; rw [r.lf, r.ltm]; exact Nat.le_refl _)
    (by rw [r.lt]; exact hdl) (by rw [r.ltm]; exact hdl)
    (fun hx => by obtain ⟨b, hb⟩ := in_edge d d hx; rw [hd] at hb; cases hb)
  have hc2 : ({ c with from_ := h1, fromMeta := n1 } : CGraph).removeToEdge e
      = .ok { c with from_ := h1, fromMeta := n1, to_ := h2, toMeta := n2 } := by
    unfold CGraph.removeToEdge
    have hcap : ({ c with from_ := h1, fromMeta := n1 } : CGraph).capacity = c.capacity := by
      unfold CGraph.capacity; exact U1
    simp only [hcap, hdn, hu2]
  have hve : c.validEdge e = true := (r.validEdge w e).mpr ⟨s, d, he⟩
  refine ⟨({ c with from_ := h1, fromMeta := n1, to_ := h2, toMeta := n2 } : CGraph).freeIndex e, ?_, ?_⟩
  · unfold CGraph.removeEdge; rw [hve]; simp only [if_true]; rw [hc1]; simp only; rw [hc2]
  -- the list-level result
  obtain ⟨hk, _, hcnt, _⟩ := removeEdge_spec g w e s d he
  obtain ⟨ho, hin, hlen, hfr⟩ := removeEdge_chains g w e s d he
  -- reads of the final arrays
  have hel1 : e < h1.length := by rw [U1, r.lf]; exact el
  have hel2 : e < h2.length := by rw [V1, r.lt]; exact el
  have heln1 : e < n1.length := by rw [U2, r.lfm]; exact el
  have heln2 : e < n2.length := by rw [V2, r.ltm]; exact el
  have h0n1 : 0 < (wr n1 e (rd n1 0)).length := by rw [len_wr, U2, r.lfm]; exact w.len_pos
  have rf : ∀ j, rd (wr h1 e 0) j = if j = e then 0 else rd h1 j := fun j => rd_wr _ _ _ _ hel1
  have rt : ∀ j, rd (wr h2 e 0) j = if j = e then 0 else rd h2 j := fun j => rd_wr _ _ _ _ hel2
  have rtm : ∀ j, rd (wr n2 e 0) j = if j = e then 0 else rd n2 j := fun j => rd_wr _ _ _ _ heln2
  have rfm : ∀ j, rd (wr (wr n1 e (rd n1 0)) 0 (-(e : Int))) j
      = if j = 0 then -(e : Int) else if j = e then rd n1 0 else rd n1 j := by
    intro j; rw [rd_wr _ _ _ _ h0n1]; split
    · rfl
    · rw [rd_wr _ _ _ _ heln1]
  have hn10 : rd n1 0 = rd c.fromMeta 0 := U6 0 (fun hx => by obtain ⟨b, hb⟩ := out_edge s 0 hx; rw [w.slot0] at hb; cases hb) (Ne.symm hs0)
  have hn20 : rd n2 0 = rd c.toMeta 0 := V6 0 (fun hx => by obtain ⟨b, hb⟩ := in_edge d 0 hx; rw [w.slot0] at hb; cases hb) (Ne.symm hd0)
  have not_out : ∀ j, (∀ b, g.kind j ≠ .edge s b) → j ∉ g.outOf s := fun j h hx => by
    obtain ⟨b, hb⟩ := out_edge s j hx; exact h b hb
  have not_in : ∀ j, (∀ a, g.kind j ≠ .edge a d) → j ∉ g.inOf d := fun j h hx => by
    obtain ⟨b, hb⟩ := in_edge d j hx; exact h b hb
  show Rep ⟨wr h1 e 0, wr h2 e 0, wr (wr n1 e (rd n1 0)) 0 (-(e : Int)), wr n2 e 0⟩ (g.removeEdge e)
  refine ⟨by simp only [len_wr]; rw [U1, r.lf, hlen], by simp only [len_wr]; rw [V1, r.lt, hlen],
    by simp only [len_wr]; rw [U2, r.lfm, hlen], by simp only [len_wr]; rw [V2, r.ltm, hlen], ?_, ?_, ?_, ?_, ?_⟩
  · -- free slots
    intro j hj0 hkj hjl
    rw [hk] at hkj
    have hj0' : j ≠ 0 := by omega
    simp only
    rw [rf, rt, rtm, rfm]
    by_cases hje : j = e
    · subst hje
      simp only [if_true, hj0', if_false]
      exact ⟨by rw [hn10]; exact free_head_neg r w, trivial, trivial, trivial⟩
    · simp only [hje, if_false, hj0'] at hkj ⊢
      have hjs : j ≠ s := by intro h; rw [h, hs] at hkj; cases hkj
      have hjd : j ≠ d := by intro h; rw [h, hd] at hkj; cases hkj
      obtain ⟨b1, b2, b3, b4⟩ := r.free_slot j hj0 hkj (by rw [← hlen]; exact hjl)
      refine ⟨?_, by rw [U3 j hjs]; exact b2, by rw [V3 j hjd]; exact b3, ?_⟩
      · rw [U6 j (not_out j (fun b h => by rw [hkj] at h; cases h)) hjs]; exact b1
      · rw [V6 j (not_in j (fun b h => by rw [hkj] at h; cases h)) hjd]; exact b4
  · -- node slots
    intro j hkj
    rw [hk] at hkj
    have hje : j ≠ e := by intro h; simp [h] at hkj
    simp only [hje, if_false] at hkj
    have hj0' : j ≠ 0 := by intro h; subst h; rw [w.slot0] at hkj; cases hkj
    obtain ⟨b1, b2, b3, b4⟩ := r.node_slot j hkj
    simp only
    rw [ho, hin, rf, rt, rtm, rfm]
    simp only [hje, hj0', if_false]
    have fm_frame : ∀ l : List Nat, (∀ x ∈ l, x ≠ e ∧ x ≠ 0) →
        ∀ x ∈ l, rd (wr (wr n1 e (rd n1 0)) 0 (-(e : Int))) x = rd n1 x := by
      intro l hl x hx; rw [rfm]; simp only [(hl x hx).2, (hl x hx).1, if_false]
    have tm_frame : ∀ l : List Nat, (∀ x ∈ l, x ≠ e) → ∀ x ∈ l, rd (wr n2 e 0) x = rd n2 x := by
      intro l hl x hx; rw [rtm]; simp only [hl x hx, if_false]
    refine ⟨?_, ?_, ?_, ?_⟩
    · by_cases hjs : j = s
      · subst hjs; simp only [if_true]
        refine U4.frame (fm_frame _ ?_)
        intro x hx
        have hxl := List.mem_of_mem_erase hx
        obtain ⟨b, hb⟩ := out_edge j x hxl
        exact ⟨fun h => by subst h; exact ((w.out_nodup j).mem_erase_iff.mp hx).1 rfl, (edge_facts w hb).1⟩
      · simp only [hjs, if_false]
        rw [U3 j hjs]
        have hfr1 : ∀ x ∈ g.outOf j, rd n1 x = rd c.fromMeta x := by
          intro x hx
          obtain ⟨b, hb⟩ := out_edge j x hx
          refine U6 x (not_out x (fun b' h => ?_)) (fun h => by rw [h, hs] at hb; cases hb)
          rw [hb] at h; cases h; exact hjs rfl
        refine (b1.frame hfr1).frame (fm_frame _ ?_)
        intro x hx
        obtain ⟨b, hb⟩ := out_edge j x hx
        exact ⟨fun h => by rw [h, he] at hb; cases hb; exact hjs rfl, (edge_facts w hb).1⟩
    · by_cases hjd : j = d
      · subst hjd; simp only [if_true]
        refine V4.frame (tm_frame _ ?_)
        intro x hx h; subst h
        exact ((w.in_nodup j).mem_erase_iff.mp hx).1 rfl
      · simp only [hjd, if_false]
        rw [V3 j hjd]
        have hfr1 : ∀ x ∈ g.inOf j, rd n2 x = rd c.toMeta x := by
          intro x hx
          obtain ⟨b, hb⟩ := in_edge j x hx
          refine V6 x (not_in x (fun b' h => ?_)) (fun h => by rw [h, hd] at hb; cases hb)
          rw [hb] at h; cases h; exact hjd rfl
        refine (b2.frame hfr1).frame (tm_frame _ ?_)
        intro x hx h
        obtain ⟨b, hb⟩ := in_edge j x hx
        rw [h, he] at hb; cases hb; exact hjd rfl
    · by_cases hjs : j = s
      · subst hjs; simp only [if_true]
        rw [U5, b3, List.length_erase_of_mem heo]
        have : 0 < (g.outOf j).length := List.length_pos_of_mem heo
        omega
      · simp only [hjs, if_false]
        rw [U6 j (not_out j (fun b h => by rw [hkj] at h; cases h)) hjs]; exact b3
    · by_cases hjd : j = d
      · subst hjd; simp only [if_true]
        rw [V5, b4, List.length_erase_of_mem hei]
        have : 0 < (g.inOf j).length := List.length_pos_of_mem hei
        omega
      · simp only [hjd, if_false]
        rw [V6 j (not_in j (fun b h => by rw [hkj] at h; cases h)) hjd]; exact b4
  · -- edge slots
    intro x a b hkx
    rw [hk] at hkx
    have hxe : x ≠ e := by intro h; simp [h] at hkx
    simp only [hxe, if_false] at hkx
    obtain ⟨x0, xl⟩ := edge_facts w hkx
    have hxs : x ≠ s := by intro h; rw [h, hs] at hkx; cases hkx
    have hxd : x ≠ d := by intro h; rw [h, hd] at hkx; cases hkx
    obtain ⟨b1, b2, b3⟩ := r.edge_slot x a b hkx
    simp only
    rw [rf, rt, rfm]
    simp only [hxe, x0, if_false]
    refine ⟨by rw [U3 x hxs]; exact b1, by rw [V3 x hxd]; exact b2, ?_⟩
    by_cases hxo : x ∈ g.outOf s
    · have : x ∈ (g.outOf s).erase e := (w.out_nodup s).mem_erase_iff.mpr ⟨hxe, hxo⟩
      exact U4.next_nonneg x this
    · rw [U6 x hxo hxs]; exact b3
  · -- free list
    rw [hfr]
    simp only
    refine ⟨by rw [rfm]; simp, ?_⟩
    rw [rfm]; simp only [e0, if_false, if_true]
    have hfl := r.free_list
    rw [← hn10] at hfl
    refine hfl.frame ?_
    intro f hf
    obtain ⟨fpos, _, fk⟩ := (w.free_iff f).mp hf
    have hf0 : f ≠ 0 := by omega
    have hfe : f ≠ e := by intro h; rw [h, he] at fk; cases fk
    have hfs : f ≠ s := by intro h; rw [h, hs] at fk; cases fk
    rw [rfm]; simp only [hf0, hfe, if_false]
    exact U6 f (not_out f (fun b h => by rw [fk] at h; cases h)) hfs
  · simp only
    rw [rtm]; simp only [Ne.symm e0, if_false]
    rw [hn20, r.count, hcnt]

theorem rep_removeEdge_noop (c : CGraph) (g : Graph) (r : Rep c g) (w : g.WF) (e : Nat)
    (h : ∀ s d, g.kind e ≠ .edge s d) : c.removeEdge e = .ok c ∧ g.removeEdge e = g := by
  refine ⟨?_, removeEdge_noop g e h⟩
  unfold CGraph.removeEdge
  have : c.validEdge e = false := by
    cases hv : c.validEdge e
    · rfl
    · obtain ⟨s, d, hk⟩ := (r.validEdge w e).mp hv; exact absurd hk (h s d)
  rw [this]; rfl

/-- `remove_node` on the arrays refines `remove_node` on the list-level graph, for a node whose edges were already
    removed (the only way `DbImpl::remove_node` calls it) -/
theorem rep_removeNode (c : CGraph) (g : Graph) (r : Rep c g) (w : g.WF) (n : Nat) (hn : g.kind n = .node)
    (ho : g.outOf n = []) (hi : g.inOf n = []) :
    ∃ c', c.removeNode n = .ok c' ∧ Rep c' (g.removeNode n) := by
  have hnl : n < g.slots.length := lt_of_kind_ne_free g n (by rw [hn]; simp)
  have hn0 : n ≠ 0 := by intro h; subst h; rw [w.slot0] at hn; cases hn
  obtain ⟨N1, N2, N3, N4⟩ := r.node_slot n hn
  rw [ho] at N1 N3; rw [hi] at N2 N4
  have hf0 : rd c.from_ n = 0 := N1
  have ht0 : rd c.to_ n = 0 := N2
  have hvn : c.validNode n = true := (r.validNode w n).mpr hn
  obtain ⟨hco, hci, hlen, hfr, hk, hcnt⟩ := removeNode_chains g n hn ho hi
  have hcr : c.removeNode n = .ok ({ (c.freeIndex n) with toMeta := wr (c.freeIndex n).toMeta 0 (rd (c.freeIndex n).toMeta 0 - 1) }) := by
    unfold CGraph.removeNode
    rw [hvn]; simp only [if_true, hf0, ht0, Int.toNat_zero]
    simp [CGraph.removeFromEdges, CGraph.removeToEdges, ht0]
  refine ⟨_, hcr, ?_⟩
  have hnf : n < c.from_.length := by rw [r.lf]; exact hnl
  have hnt : n < c.to_.length := by rw [r.lt]; exact hnl
  have hnfm : n < c.fromMeta.length := by rw [r.lfm]; exact hnl
  have hntm : n < c.toMeta.length := by rw [r.ltm]; exact hnl
  have h0 : 0 < g.slots.length := w.len_pos
  have rf : ∀ j, rd (wr c.from_ n 0) j = if j = n then 0 else rd c.from_ j := fun j => rd_wr _ _ _ _ hnf
  have rt : ∀ j, rd (wr c.to_ n 0) j = if j = n then 0 else rd c.to_ j := fun j => rd_wr _ _ _ _ hnt
  have rfm : ∀ j, rd (wr (wr c.fromMeta n (rd c.fromMeta 0)) 0 (-(n : Int))) j
      = if j = 0 then -(n : Int) else if j = n then rd c.fromMeta 0 else rd c.fromMeta j := by
    intro j; rw [rd_wr _ _ _ _ (by rw [len_wr, r.lfm]; exact h0)]; split
    · rfl
    · rw [rd_wr _ _ _ _ hnfm]
  have rtm : ∀ j, rd (wr (wr c.toMeta n 0) 0 (rd (wr c.toMeta n 0) 0 - 1)) j
      = if j = 0 then rd c.toMeta 0 - 1 else if j = n then 0 else rd c.toMeta j := by
    intro j; rw [rd_wr _ _ _ _ (by rw [len_wr, r.ltm]; exact h0)]; split
    · rw [rd_wr_ne _ _ _ _ (Ne.symm hn0)]
    · rw [rd_wr _ _ _ _ hntm]
  show Rep ⟨wr c.from_ n 0, wr c.to_ n 0, wr (wr c.fromMeta n (rd c.fromMeta 0)) 0 (-(n : Int)),
    wr (wr c.toMeta n 0) 0 (rd (wr c.toMeta n 0) 0 - 1)⟩ (g.removeNode n)
  refine ⟨by simp only [len_wr]; rw [r.lf, hlen], by simp only [len_wr]; rw [r.lt, hlen],
    by simp only [len_wr]; rw [r.lfm, hlen], by simp only [len_wr]; rw [r.ltm, hlen], ?_, ?_, ?_, ?_, ?_⟩
  · intro j hj0 hkj hjl
    rw [hk] at hkj
    have hj0' : j ≠ 0 := by omega
    simp only
    rw [rf, rt, rfm, rtm]
    by_cases hjn : j = n
    · subst hjn; simp only [if_true, hj0', if_false]
      exact ⟨free_head_neg r w, trivial, trivial, trivial⟩
    · simp only [hjn, hj0', if_false] at hkj ⊢
      exact r.free_slot j hj0 hkj (by rw [← hlen]; exact hjl)
  · intro j hkj
    rw [hk] at hkj
    have hjn : j ≠ n := by intro h; simp [h] at hkj
    simp only [hjn, if_false] at hkj
    have hj0' : j ≠ 0 := by intro h; subst h; rw [w.slot0] at hkj; cases hkj
    obtain ⟨b1, b2, b3, b4⟩ := r.node_slot j hkj
    simp only
    rw [hco, hci, rf, rt, rfm, rtm]
    simp only [hjn, hj0', if_false]
    refine ⟨b1.frame ?_, b2.frame ?_, b3, b4⟩
    · intro x hx
      obtain ⟨b, hb⟩ := out_elem w hx
      have hxn : x ≠ n := by intro h; rw [h, hn] at hb; cases hb
      rw [rfm]; simp only [(edge_facts w hb).1, hxn, if_false]
    · intro x hx
      obtain ⟨b, hb⟩ := in_elem w hx
      have hxn : x ≠ n := by intro h; rw [h, hn] at hb; cases hb
      rw [rtm]; simp only [(edge_facts w hb).1, hxn, if_false]
  · intro x a b hkx
    rw [hk] at hkx
    have hxn : x ≠ n := by intro h; simp [h] at hkx
    simp only [hxn, if_false] at hkx
    obtain ⟨x0, _⟩ := edge_facts w hkx
    simp only
    rw [rf, rt, rfm]; simp only [hxn, x0, if_false]
    exact r.edge_slot x a b hkx
  · rw [hfr]
    simp only
    refine ⟨by rw [rfm]; simp, ?_⟩
    rw [rfm]; simp only [hn0, if_false, if_true]
    refine r.free_list.frame ?_
    intro f hf
    obtain ⟨fpos, _, fk⟩ := (w.free_iff f).mp hf
    have hf0' : f ≠ 0 := by omega
    have hfn : f ≠ n := by intro h; rw [h, hn] at fk; cases fk
    rw [rfm]; simp only [hf0', hfn, if_false]
  · simp only
    rw [rtm]; simp only [if_true]
    rw [r.count, hcnt]

end AgdbDb
