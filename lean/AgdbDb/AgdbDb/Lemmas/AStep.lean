/-
  Pure calculations on the abstract state: every forward mutation step is inverted by the undo
  command(s) the code records for it (`UndoOk`), and the index invariant is maintained.
-/
import AgdbDb.Lemmas.Undo
namespace AgdbDb

/-- replaying `cmds` (newest first) from `A` succeeds at every step and ends in `B` -/
def UndoOk : List Cmd → ADb → ADb → Prop
  | [], A, B => A = B
  | c :: cs, A, B => pre c A ∧ UndoOk cs (aundo c A) B

theorem UndoOk.append {c1 c2 : List Cmd} {A B C : ADb} (h1 : UndoOk c1 A B) (h2 : UndoOk c2 B C) :
    UndoOk (c1 ++ c2) A C := by
  induction c1 generalizing A with
  | nil => simp only [UndoOk] at h1; subst h1; exact h2
  | cons c cs ih => exact ⟨h1.1, ih h1.2⟩

theorem UndoOk.single {c : Cmd} {A B : ADb} (hp : pre c A) (h : aundo c A = B) : UndoOk [c] A B := ⟨hp, h⟩

/-- sign `insert_index` gives to the element in slot `i` -/
def aidOf (A : ADb) (i : Nat) : Int := if A.kind i = .node then (i : Int) else -(i : Int)

/-- index contents = exactly the (value, id) pairs of the elements having the key, ids signed by `σ` -/
def IxInvG (σ : Nat → Int) (A : ADb) : Prop :=
  ∀ k m, A.index k = some m → ∀ v id,
    m v id = if (id ≠ 0 ∧ A.kv id.natAbs k = some v ∧ id = σ id.natAbs) then 1 else 0

/-- a free slot has no properties -/
def K2 (A : ADb) : Prop := ∀ i, A.kind i = .free → ∀ k, A.kv i k = none
/-- aliases name live nodes -/
def A2 (A : ADb) : Prop := ∀ a id, A.alias a = some id → 0 < id ∧ A.kind id.natAbs = .node

/-- invariant at the boundaries of `DbImpl` calls -/
structure BInv (A : ADb) : Prop where
  ix : IxInvG (aidOf A) A
  k2 : K2 A
  a2 : A2 A

/-- graph facts of the abstract view that follow from `Graph.WF` -/
structure GA (A : ADb) : Prop where
  k0 : A.kind 0 = .free
  ends : ∀ e s d, A.kind e = .edge s d → A.kind s = .node ∧ A.kind d = .node
  fresh : A.kind (A.alloc 0) = .free
  fresh_pos : A.alloc 0 ≠ 0
  aliasInj : ∀ x y j, A.alias x = some j → A.alias y = some j → x = y

theorem IxInvG.swap {σ σ' : Nat → Int} {A : ADb} (h : IxInvG σ A)
    (hs : ∀ i, (∃ k, A.kv i k ≠ none) → σ i = σ' i) : IxInvG σ' A := by
  intro k m hm v id
  rw [h k m hm v id]
  by_cases hkv : A.kv id.natAbs k = some v
  · have := hs id.natAbs ⟨k, by rw [hkv]; simp⟩
    rw [this]
  · simp [hkv]

/-! ### graph steps -/

theorem step_insertNode (A : ADb) (g : GA A) :
    UndoOk [Cmd.removeNode (A.alloc 0 : Int)] (aundo .insertNode A) A := by
  refine UndoOk.single ?_ ?_
  · simp only [pre, aundo, Int.natAbs_natCast, if_true, true_and]
    intro e s d h
    by_cases he : e = A.alloc 0
    · simp [he] at h
    · simp only [he, if_false] at h
      have := g.ends e s d h
      constructor
      · intro hs; subst hs; rw [g.fresh] at this; simp at this
      · intro hd; subst hd; rw [g.fresh] at this; simp at this
  · refine ADb.ext' ?_ ?_ ?_ (fun _ _ => rfl) (fun _ => rfl) (fun _ => rfl)
    · intro j; simp only [aundo, Int.natAbs_natCast]
      by_cases hj : j = A.alloc 0
      · subst hj; simp [g.fresh]
      · simp [hj]
    · intro n; simp only [aundo, Int.natAbs_natCast]; cases n <;> rfl
    · simp only [aundo]; omega

theorem step_insertEdge (A : ADb) (g : GA A) (f t : Int) :
    UndoOk [Cmd.removeEdge (-(A.alloc 0 : Int))] (aundo (.insertEdge f t) A) A := by
  refine UndoOk.single ?_ ?_
  · simp only [pre, aundo, Int.natAbs_neg, Int.natAbs_natCast, if_true]
    exact ⟨_, _, rfl⟩
  · refine ADb.ext' ?_ ?_ rfl (fun _ _ => rfl) (fun _ => rfl) (fun _ => rfl)
    · intro j; simp only [aundo, Int.natAbs_neg, Int.natAbs_natCast]
      by_cases hj : j = A.alloc 0
      · subst hj; simp [g.fresh]
      · simp [hj]
    · intro n; simp only [aundo, Int.natAbs_neg, Int.natAbs_natCast]; cases n <;> rfl

theorem step_removeEdge (A : ADb) (g : GA A) (e s d : Nat) (he : A.kind e = .edge s d) :
    UndoOk [Cmd.insertEdge (s : Int) (d : Int)] (aundo (.removeEdge (-(e : Int))) A) A := by
  have hn := g.ends e s d he
  have hse : s ≠ e := by intro h; subst h; rw [he] at hn; simp at hn
  have hde : d ≠ e := by intro h; subst h; rw [he] at hn; simp at hn
  refine UndoOk.single ?_ ?_
  · simp only [pre, aundo, Int.natAbs_neg, Int.natAbs_natCast, hse, hde, if_false]
    exact hn
  · refine ADb.ext' ?_ ?_ rfl (fun _ _ => rfl) (fun _ => rfl) (fun _ => rfl)
    · intro j; simp only [aundo, Int.natAbs_neg, Int.natAbs_natCast]
      by_cases hj : j = e
      · subst hj; simp [he]
      · simp [hj]
    · intro n; simp only [aundo, Int.natAbs_neg, Int.natAbs_natCast]

theorem step_removeNode (A : ADb) (n : Nat) (hn : A.kind n = .node) :
    UndoOk [Cmd.insertNode] (aundo (.removeNode (n : Int)) A) A := by
  refine UndoOk.single trivial ?_
  refine ADb.ext' ?_ ?_ ?_ (fun _ _ => rfl) (fun _ => rfl) (fun _ => rfl)
  · intro j; simp only [aundo, Int.natAbs_natCast]
    by_cases hj : j = n
    · subst hj; simp [hn]
    · simp [hj]
  · intro m; simp only [aundo, Int.natAbs_natCast]
  · simp only [aundo]; omega

/-! ### key-value steps -/

theorem map_map_id {α} (o : Option α) (f : α → α) (h : ∀ x, f x = x) : o.map f = o := by
  cases o <;> simp [h]

theorem step_insertKV (A : ADb) (id : Int) (k v : Val) (hnone : A.kv id.natAbs k = none) :
    UndoOk [Cmd.removeKeyValue id (k, v)] (aundo (.insertKeyValue id (k, v)) A) A := by
  refine UndoOk.single trivial ?_
  refine ADb.ext' (fun _ => rfl) (fun _ => rfl) rfl ?_ (fun _ => rfl) ?_
  · intro i k'; simp only [aundo]; grind
  · intro k'; simp only [aundo]
    by_cases hk : k' = k
    · subst hk; simp only [if_true, Option.map_map]
      apply map_map_id; intro m; funext v' id'; simp [Function.comp, bump, unbump]
    · simp [hk]

theorem ixInvG_insertKV (σ : Nat → Int) (A : ADb) (id : Int) (k v : Val) (h : IxInvG σ A)
    (hid : id ≠ 0) (hs : id = σ id.natAbs) (hnone : A.kv id.natAbs k = none) :
    IxInvG σ (aundo (.insertKeyValue id (k, v)) A) := by
  intro k' m' hm' v' id'
  simp only [aundo] at hm' ⊢
  by_cases hk : k' = k
  · subst hk
    simp only [if_true] at hm'
    cases hm : A.index k' with
    | none => simp [hm] at hm'
    | some m =>
      simp [hm] at hm'; subst hm'
      have := h k' m hm v' id'
      simp only [bump]
      grind
  · simp only [hk, if_false] at hm'
    have := h k' m' hm' v' id'
    grind

theorem step_removeKV (A : ADb) (id : Int) (k v : Val) (hsome : A.kv id.natAbs k = some v)
    (hcnt : ∀ m, A.index k = some m → 1 ≤ m v id) :
    UndoOk [Cmd.insertKeyValue id (k, v)] (aundo (.removeKeyValue id (k, v)) A) A := by
  refine UndoOk.single ?_ ?_
  · simp only [pre, aundo]; simp
  · refine ADb.ext' (fun _ => rfl) (fun _ => rfl) rfl ?_ (fun _ => rfl) ?_
    · intro i k'; simp only [aundo]; grind
    · intro k'; simp only [aundo]
      by_cases hk : k' = k
      · subst hk; simp only [if_true, Option.map_map]
        cases hm : A.index k' with
        | none => rfl
        | some m =>
          simp only [Option.map_some, Function.comp, Option.some.injEq]
          have := hcnt m hm
          funext v' id'; simp only [bump, unbump]
          by_cases hx : (v, id) = (v', id')
          · cases hx; simp; omega
          · simp [hx]
      · simp [hk]

theorem ixInvG_removeKV (σ : Nat → Int) (A : ADb) (id : Int) (k v : Val) (h : IxInvG σ A)
    (hid : id ≠ 0) (hs : id = σ id.natAbs) (hsome : A.kv id.natAbs k = some v) :
    IxInvG σ (aundo (.removeKeyValue id (k, v)) A) := by
  intro k' m' hm' v' id'
  simp only [aundo] at hm' ⊢
  by_cases hk : k' = k
  · subst hk
    simp only [if_true] at hm'
    cases hm : A.index k' with
    | none => simp [hm] at hm'
    | some m =>
      simp [hm] at hm'; subst hm'
      have := h k' m hm v' id'
      simp only [unbump]
      grind
  · simp only [hk, if_false] at hm'
    have := h k' m' hm' v' id'
    grind

theorem count_of_ixInvG (σ : Nat → Int) (A : ADb) (id : Int) (k v : Val) (h : IxInvG σ A)
    (hid : id ≠ 0) (hs : id = σ id.natAbs) (hsome : A.kv id.natAbs k = some v) :
    ∀ m, A.index k = some m → 1 ≤ m v id := by
  intro m hm
  rw [h k m hm v id]
  simp [hid, hsome, ← hs]

theorem step_replaceKV (A : ADb) (id : Int) (k vnew old : Val) (hsome : A.kv id.natAbs k = some old)
    (hcnt : ∀ m, A.index k = some m → 1 ≤ m old id) :
    UndoOk [Cmd.replaceKeyValue id (k, old)] (aundo (.replaceKeyValue id (k, vnew)) A) A := by
  have hA : (aundo (.replaceKeyValue id (k, vnew)) A).kv id.natAbs k = some vnew := by
    simp only [aundo, hsome]; simp
  refine UndoOk.single ?_ ?_
  · simp only [pre]; rw [hA]; simp
  · refine ADb.ext' ?_ ?_ ?_ ?_ ?_ ?_
    · intro j; simp only [aundo, hsome]; simp only [if_true]
    · intro j; simp only [aundo, hsome]; simp only [if_true]
    · simp only [aundo, hsome]; simp only [if_true]
    · intro i k'; simp only [aundo, hsome]; simp only [if_true]; grind
    · intro a; simp only [aundo, hsome]; simp only [if_true]
    · intro k'; simp only [aundo, hsome]; simp only [if_true]
      by_cases hk : k' = k
      · subst hk; simp only [if_true, Option.map_map]
        cases hm : A.index k' with
        | none => rfl
        | some m =>
          simp only [Option.map_some, Function.comp, Option.some.injEq]
          have := hcnt m hm
          funext v' id'; simp only [bump, unbump]
          by_cases hx : (old, id) = (v', id')
          · cases hx; by_cases hy : vnew = old
            · subst hy; simp; omega
            · simp [hy]; omega
          · by_cases hy : (vnew, id) = (v', id')
            · cases hy; simp [hx]
            · simp [hx, hy]
      · simp [hk]

theorem ixInvG_replaceKV (σ : Nat → Int) (A : ADb) (id : Int) (k vnew old : Val) (h : IxInvG σ A)
    (hid : id ≠ 0) (hs : id = σ id.natAbs) (hsome : A.kv id.natAbs k = some old) :
    IxInvG σ (aundo (.replaceKeyValue id (k, vnew)) A) := by
  intro k' m' hm' v' id'
  simp only [aundo, hsome] at hm' ⊢
  by_cases hk : k' = k
  · subst hk
    simp only [if_true] at hm'
    cases hm : A.index k' with
    | none => simp [hm] at hm'
    | some m =>
      simp [hm] at hm'; subst hm'
      have h1 := h k' m hm v' id'
      have h2 := h k' m hm old id
      simp only [bump, unbump]
      grind
  · simp only [hk, if_false] at hm'
    have := h k' m' hm' v' id'
    grind

/-! ### alias steps -/

theorem step_removeAlias (A : ADb) (g : GA A) (a : String) (id : Int) (h : A.alias a = some id) :
    UndoOk [Cmd.insertAlias a id] (aundo (.removeAlias a) A) A := by
  refine UndoOk.single trivial ?_
  refine ADb.ext' (fun _ => rfl) (fun _ => rfl) rfl (fun _ _ => rfl) ?_ (fun _ => rfl)
  intro x; simp only [aundo]
  have := g.aliasInj x a id
  grind

theorem step_newAlias (A : ADb) (a : String) (id : Int) (hnone : A.alias a = none) (hno : ∀ x, A.alias x ≠ some id) :
    UndoOk [Cmd.removeAlias a] (aundo (.insertAlias a id) A) A := by
  refine UndoOk.single trivial ?_
  refine ADb.ext' (fun _ => rfl) (fun _ => rfl) rfl (fun _ _ => rfl) ?_ (fun _ => rfl)
  intro x; simp only [aundo]
  have := hno x
  grind

/-! ### index steps -/

theorem step_insertIndex (A A' : ADb) (k : Val) (m0 : Val → Int → Nat) (hnone : A.index k = none)
    (h1 : A'.kind = A.kind) (h2 : A'.alloc = A.alloc) (h3 : A'.nodeCount = A.nodeCount) (h4 : A'.kv = A.kv)
    (h5 : A'.alias = A.alias) (h6 : ∀ k', A'.index k' = if k' = k then some m0 else A.index k') :
    UndoOk [Cmd.removeIndex k] A' A := by
  refine UndoOk.single trivial ?_
  refine ADb.ext' (fun i => by simp only [aundo]; rw [h1]) (fun i => by simp only [aundo]; rw [h2])
    (by simp only [aundo]; exact h3) (fun i k' => by simp only [aundo]; rw [h4]) (fun a => by simp only [aundo]; rw [h5]) ?_
  intro k'; simp only [aundo]; rw [h6]
  by_cases hk : k' = k
  · subst hk; simp [hnone]
  · simp [hk]

/-- replaying `InsertToIndex` for every pair of `ps` adds exactly those pairs -/
theorem undoOk_insertToIndex (k : Val) (ps : IxMap) (A : ADb) (m : Val → Int → Nat) (hm : A.index k = some m) :
    ∃ B, UndoOk (ps.map (fun p => Cmd.insertToIndex k p.1 p.2)) A B ∧
      B.kind = A.kind ∧ B.alloc = A.alloc ∧ B.nodeCount = A.nodeCount ∧ B.kv = A.kv ∧ B.alias = A.alias ∧
      (∀ k', B.index k' = if k' = k then some (fun v id => m v id + ps.count (v, id)) else A.index k') := by
  induction ps generalizing A m with
  | nil =>
    refine ⟨A, rfl, rfl, rfl, rfl, rfl, rfl, ?_⟩
    intro k'; by_cases hk : k' = k
    · subst hk; simp [hm]
    · simp [hk]
  | cons p rest ih =>
    obtain ⟨v, id⟩ := p
    have hA1 : (aundo (.insertToIndex k v id) A).index k = some (bump v id m) := by simp [aundo, hm]
    obtain ⟨B, hB, b1, b2, b3, b4, b5, b6⟩ := ih (aundo (.insertToIndex k v id) A) (bump v id m) hA1
    refine ⟨B, ⟨by simp [pre, hm], hB⟩, b1, b2, b3, b4, b5, ?_⟩
    intro k'; rw [b6]
    by_cases hk : k' = k
    · subst hk; simp only [if_true, Option.some.injEq]
      funext v' id'; simp only [bump, List.count_cons]
      by_cases hx : (v, id) = (v', id')
      · cases hx; simp; omega
      · have : ((v, id) == (v', id')) = false := by simp; intro a b; exact hx (by rw [a, b])
        simp [hx, this]
    · simp [hk, aundo]

theorem step_removeIndex (A : ADb) (k : Val) (l : IxMap) (hl : A.index k = some (countFn l)) :
    UndoOk (Cmd.insertIndex k :: (l.map (fun p => Cmd.insertToIndex k p.1 p.2)).reverse) (aundo (.removeIndex k) A) A := by
  refine ⟨by simp [pre, aundo], ?_⟩
  have hA1 : (aundo (.insertIndex k) (aundo (.removeIndex k) A)).index k = some (fun _ _ => 0) := by simp [aundo]
  obtain ⟨B, hB, b1, b2, b3, b4, b5, b6⟩ := undoOk_insertToIndex k l.reverse _ _ hA1
  rw [List.map_reverse] at hB
  have : B = A := by
    refine ADb.ext' (fun i => by rw [b1]; rfl) (fun i => by rw [b2]; rfl) (by rw [b3]; rfl)
      (fun i k' => by rw [b4]; rfl) (fun a => by rw [b5]; rfl) ?_
    intro k'; rw [b6]
    by_cases hk : k' = k
    · subst hk; simp only [if_true, hl, Option.some.injEq]
      funext v id; simp [countFn]
    · simp [hk, aundo]
  rw [this] at hB; exact hB

end AgdbDb
