import AgdbDb.Model.Basic
namespace AgdbDb

/-- the alias list is a bijection -/
def AliasBij (al : Aliases) : Prop := (al.map Prod.fst).Nodup ∧ (al.map Prod.snd).Nodup

theorem aliasValue_eq_some (al : Aliases) (h : (al.map Prod.fst).Nodup) (a : String) (id : Int) :
    aliasValue al a = some id ↔ (a, id) ∈ al := by
  unfold aliasValue
  induction al with
  | nil => simp
  | cons p rest ih =>
    obtain ⟨b, j⟩ := p
    simp only [List.map_cons, List.nodup_cons] at h
    simp only [List.lookup_cons, List.mem_cons, Prod.mk.injEq]
    by_cases hb : a = b
    · subst hb
      simp only [beq_self_eq_true, Option.some.injEq, true_and]
      constructor
      · intro h1; exact Or.inl h1.symm
      · rintro (h1 | h1)
        · exact h1.symm
        · exact absurd (List.mem_map.mpr ⟨(a, id), h1, rfl⟩) h.1
    · have : (a == b) = false := by simp [hb]
      simp only [this, hb, false_and, false_or]
      exact ih h.2

theorem aliasKey_eq_some (al : Aliases) (h : (al.map Prod.snd).Nodup) (a : String) (id : Int) :
    aliasKey al id = some a ↔ (a, id) ∈ al := by
  induction al with
  | nil => simp [aliasKey]
  | cons p rest ih =>
    obtain ⟨b, j⟩ := p
    simp only [List.map_cons, List.nodup_cons] at h
    simp only [aliasKey, List.mem_cons, Prod.mk.injEq]
    by_cases hj : j = id
    · subst hj
      simp only [if_true, Option.some.injEq, and_true]
      constructor
      · intro h1; exact Or.inl h1.symm
      · rintro (h1 | h1)
        · exact h1.symm
        · exact absurd (List.mem_map.mpr ⟨(a, j), h1, rfl⟩) h.1
    · simp only [hj, if_false]
      have : ¬ (a = b ∧ id = j) := fun hh => hj hh.2.symm
      simp only [this, false_or]
      exact ih h.2

theorem aliasValue_eq_none (al : Aliases) (a : String) :
    aliasValue al a = none ↔ ∀ id, (a, id) ∉ al := by
  unfold aliasValue
  induction al with
  | nil => simp
  | cons p rest ih =>
    obtain ⟨b, j⟩ := p
    simp only [List.lookup_cons, List.mem_cons, Prod.mk.injEq, not_or, not_and]
    by_cases hb : a = b
    · subst hb; simp only [beq_self_eq_true, reduceCtorEq, false_iff]
      intro h; exact (h j).1 trivial rfl
    · have : (a == b) = false := by simp [hb]
      simp only [this, ih]
      constructor
      · intro h id; exact ⟨fun h1 => absurd h1 hb, h id⟩
      · intro h id; exact (h id).2

theorem aliasKey_eq_none (al : Aliases) (id : Int) :
    aliasKey al id = none ↔ ∀ a, (a, id) ∉ al := by
  induction al with
  | nil => simp [aliasKey]
  | cons p rest ih =>
    obtain ⟨b, j⟩ := p
    simp only [aliasKey, List.mem_cons, Prod.mk.injEq, not_or, not_and]
    by_cases hj : j = id
    · subst hj; simp only [if_true, reduceCtorEq, false_iff]
      intro h; exact (h b).1 rfl trivial
    · simp only [hj, if_false, ih]
      constructor
      · intro h a; exact ⟨fun _ h2 => hj h2.symm, h a⟩
      · intro h a; exact (h a).2

theorem AliasBij.filter (al : Aliases) (p : String × Int → Bool) (h : AliasBij al) : AliasBij (al.filter p) :=
  ⟨(List.Sublist.map _ List.filter_sublist).nodup h.1, (List.Sublist.map _ List.filter_sublist).nodup h.2⟩

theorem AliasBij.insert (al : Aliases) (a : String) (id : Int) (h : AliasBij al) : AliasBij (aliasInsert al a id) := by
  unfold aliasInsert
  have hf := AliasBij.filter al (fun p => decide (p.1 ≠ a ∧ p.2 ≠ id)) h
  refine ⟨?_, ?_⟩
  · simp only [List.map_cons, List.nodup_cons]
    refine ⟨?_, hf.1⟩
    intro hm
    obtain ⟨q, hq, hqa⟩ := List.mem_map.mp hm
    simp at hq
    exact hq.2.1 hqa
  · simp only [List.map_cons, List.nodup_cons]
    refine ⟨?_, hf.2⟩
    intro hm
    obtain ⟨q, hq, hqa⟩ := List.mem_map.mp hm
    simp at hq
    exact hq.2.2 hqa

theorem AliasBij.removeKey (al : Aliases) (a : String) (h : AliasBij al) : AliasBij (aliasRemoveKey al a) :=
  AliasBij.filter al _ h

theorem mem_aliasInsert (al : Aliases) (a b : String) (id j : Int) :
    (b, j) ∈ aliasInsert al a id ↔ (b = a ∧ j = id) ∨ ((b, j) ∈ al ∧ b ≠ a ∧ j ≠ id) := by
  unfold aliasInsert; simp

theorem mem_aliasRemoveKey (al : Aliases) (a b : String) (j : Int) :
    (b, j) ∈ aliasRemoveKey al a ↔ (b, j) ∈ al ∧ b ≠ a := by
  unfold aliasRemoveKey; simp

end AgdbDb
