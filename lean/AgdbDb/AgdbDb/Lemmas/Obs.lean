import AgdbDb.Lemmas.Rollback
namespace AgdbDb
open Db

/-- The equivalence of property C13, stated on the model state:
    same elements with the same ids and endpoints, the same set of properties per element, the same aliases,
    the same indexes with the same contents (as multisets), the same node count.
    Order of an element's properties, of a node's edge chains and of the index list is not compared. -/
structure ObsEq (a b : Db) : Prop where
  elems : ∀ i, a.graph.kind i = b.graph.kind i
  props : ∀ i p, p ∈ kvGet a.values i ↔ p ∈ kvGet b.values i
  aliases : ∀ p, p ∈ a.aliases ↔ p ∈ b.aliases
  indexes : ∀ k, match ixFind a.indexes k, ixFind b.indexes k with
    | some l1, some l2 => l1.Perm l2
    | none, none => True
    | _, _ => False
  nodeCount : a.graph.nodeCount = b.graph.nodeCount

theorem obsEq_of_abs {a b : Db} (ha : a.SInv) (hb : b.SInv) (h : a.abs = b.abs) : ObsEq a b := by
  have hk : ∀ i, a.graph.kind i = b.graph.kind i := fun i => congrFun (congrArg ADb.kind h) i
  have hkv : ∀ i k, kvFind (kvGet a.values i) k = kvFind (kvGet b.values i) k :=
    fun i k => congrFun (congrFun (congrArg ADb.kv h) i) k
  have hal : ∀ x, aliasValue a.aliases x = aliasValue b.aliases x := fun x => congrFun (congrArg ADb.alias h) x
  have hix : ∀ k, (ixFind a.indexes k).map countFn = (ixFind b.indexes k).map countFn :=
    fun k => congrFun (congrArg ADb.index h) k
  refine ⟨hk, ?_, ?_, ?_, congrArg ADb.nodeCount h⟩
  · intro i p
    obtain ⟨k, v⟩ := p
    constructor
    · intro hm
      have := kvFind_of_mem _ (ha.kvNodup i) k v hm
      rw [hkv] at this; exact kvFind_some_mem _ _ _ this
    · intro hm
      have := kvFind_of_mem _ (hb.kvNodup i) k v hm
      rw [← hkv] at this; exact kvFind_some_mem _ _ _ this
  · intro p
    obtain ⟨x, id⟩ := p
    rw [← aliasValue_eq_some _ ha.aliasBij.1, ← aliasValue_eq_some _ hb.aliasBij.1, hal]
  · intro k
    have := hix k
    cases h1 : ixFind a.indexes k with
    | none =>
      cases h2 : ixFind b.indexes k with
      | none => trivial
      | some l2 => rw [h1, h2] at this; simp at this
    | some l1 =>
      cases h2 : ixFind b.indexes k with
      | none => rw [h1, h2] at this; simp at this
      | some l2 =>
        rw [h1, h2] at this
        simp only [Option.map_some, Option.some.injEq] at this
        show l1.Perm l2
        rw [List.perm_iff_count]
        intro p; obtain ⟨v, id⟩ := p
        exact congrFun (congrFun this v) id

theorem count_ixValues (l : IxMap) (v : Val) (id : Int) : (ixValues l v).count id = l.count (v, id) := by
  unfold ixValues
  induction l with
  | nil => simp
  | cons p rest ih =>
    obtain ⟨a, b⟩ := p
    by_cases ha : a = v
    · subst ha
      simp only [List.filterMap_cons, if_true, List.count_cons, ih]
      by_cases hb : b = id
      · subst hb; simp
      · have : ((a, b) == (a, id)) = false := by simp [hb]
        simp [hb, this]
    · have : ((a, b) == (v, id)) = false := by simp [ha]
      simp only [List.filterMap_cons, ha, if_false, List.count_cons, ih, this]
      simp

end AgdbDb
