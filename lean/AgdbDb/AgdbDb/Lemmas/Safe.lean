/-
  Lifting `Fwd` from the `DbImpl` mutations to the queries of `Model/Query.lean`.
-/
import AgdbDb.Model.Query
import AgdbDb.Lemmas.Fwd
namespace AgdbDb
open Db

/-- from every state satisfying the invariant the computation ends (ok or error) in a `Fwd` state -/
def Safe {α} (m : M α) : Prop := ∀ s, s.Inv → Fwd s (m s).2

theorem fwd_bind {α β} (m : M α) (f : α → M β) (s : Db) (hm : Fwd s (m s).2)
    (hf : ∀ a s', m s = (.ok a, s') → s'.Inv → Fwd s' (f a s').2) : Fwd s (M.bind m f s).2 := by
  unfold M.bind
  cases h : m s with
  | mk r s' =>
    rw [h] at hm
    cases r with
    | ok a => exact hm.trans (hf a s' h hm.1)
    | error e => exact hm

theorem Safe.pure {α} (a : α) : Safe (M.pure a) := fun _ hi => Fwd.refl hi
theorem Safe.bind {α β} {m : M α} {f : α → M β} (hm : Safe m) (hf : ∀ a, Safe (f a)) : Safe (M.bind m f) :=
  fun s hi => fwd_bind m f s (hm s hi) (fun a s' _ hi' => hf a s' hi')

/-! ### ownership facts -/

theorem Owns.congr {s s' : Db} {id : Int} (h : Owns s.abs id) (hg : s'.graph = s.graph) : Owns s'.abs id := by
  unfold Owns aidOf at *
  have : s'.abs.kind = s.abs.kind := by show s'.graph.kind = s.graph.kind; rw [hg]
  rw [this]; exact h

theorem owns_of_node {s : Db} {id : Int} (hpos : 0 < id) (hk : s.graph.kind id.natAbs = .node) : Owns s.abs id := by
  refine ⟨by omega, ?_, ?_⟩
  · show s.graph.kind id.natAbs ≠ _; rw [hk]; simp
  · have : s.abs.kind id.natAbs = .node := hk
    simp only [aidOf, this, if_true]; omega

theorem owns_of_edge {s : Db} {id : Int} (hneg : id < 0) (a b : Nat) (hk : s.graph.kind id.natAbs = .edge a b) :
    Owns s.abs id := by
  refine ⟨by omega, ?_, ?_⟩
  · show s.graph.kind id.natAbs ≠ _; rw [hk]; simp
  · have : s.abs.kind id.natAbs ≠ .node := by show s.graph.kind id.natAbs ≠ _; rw [hk]; simp
    simp only [aidOf, this, if_false]; omega

theorem graphIndex_ok {s : Db} {id x : Int} (h : s.graphIndex id = .ok x) :
    x = id ∧ ((0 < id ∧ s.graph.kind id.natAbs = .node) ∨ (id < 0 ∧ ∃ a b, s.graph.kind id.natAbs = .edge a b)) := by
  unfold Db.graphIndex at h
  by_cases h1 : id < 0
  · simp only [h1, if_true] at h
    by_cases h2 : s.graph.isEdge id.natAbs = true
    · simp only [h2, if_true] at h; cases h
      exact ⟨rfl, Or.inr ⟨h1, (Graph.isEdge_iff _ _).mp h2⟩⟩
    · simp [h2] at h
  · simp only [h1, if_false] at h
    by_cases h3 : 0 < id
    · simp only [h3, if_true] at h
      by_cases h2 : s.graph.isNode id.natAbs = true
      · simp only [h2, if_true] at h; cases h
        exact ⟨rfl, Or.inl ⟨h3, (Graph.isNode_iff _ _).mp h2⟩⟩
      · simp [h2] at h
    · simp [h3] at h

theorem dbId_ok {s : Db} (hi : s.Inv) {q : QId} {id : Int} (h : s.dbId q = .ok id) :
    (0 < id ∧ s.graph.kind id.natAbs = .node) ∨ (id < 0 ∧ ∃ a b, s.graph.kind id.natAbs = .edge a b) := by
  cases q with
  | id i =>
    obtain ⟨h1, h2⟩ := graphIndex_ok (s := s) (id := i) (x := id) h
    subst h1; exact h2
  | alias a =>
    simp only [Db.dbId] at h
    cases hv : aliasValue s.aliases a with
    | none => simp [hv] at h
    | some j =>
      simp only [hv] at h; cases h
      exact Or.inl (hi.binv.a2 a id hv)

theorem owns_of_dbId {s : Db} (hi : s.Inv) {q : QId} {id : Int} (h : s.dbId q = .ok id) : Owns s.abs id := by
  rcases dbId_ok hi h with ⟨h1, h2⟩ | ⟨h1, a, b, h2⟩
  · exact owns_of_node h1 h2
  · exact owns_of_edge h1 a b h2

theorem mem_dbIds {s : Db} : ∀ {qs : List QId} {ids : List Int}, s.dbIds qs = .ok ids →
    ∀ id ∈ ids, ∃ q, s.dbId q = .ok id := by
  intro qs
  induction qs with
  | nil => intro ids h id hm; simp [Db.dbIds] at h; subst h; simp at hm
  | cons q rest ih =>
    intro ids h id hm
    simp only [Db.dbIds] at h
    cases h1 : s.dbId q with
    | error e => simp [h1] at h
    | ok i =>
      simp only [h1] at h
      cases h2 : s.dbIds rest with
      | error e => simp [h2] at h
      | ok is =>
        simp only [h2] at h; cases h
        rcases List.mem_cons.mp hm with h3 | h3
        · subst h3; exact ⟨q, h1⟩
        · exact ih h2 id h3

/-! ### value loops -/

theorem insertOrReplace_graph (id : Int) (kv : KV) (s : Db) :
    (Db.insertOrReplaceKeyValue id kv s).2.graph = s.graph ∧ (Db.insertOrReplaceKeyValue id kv s).2.aliases = s.aliases := by
  unfold Db.insertOrReplaceKeyValue
  cases kvFind (kvGet s.values id.natAbs) kv.1 <;> exact ⟨rfl, rfl⟩

theorem forEach_ok_unit {α} (l : List α) (f : α → M Unit) (s : Db) (h : ∀ a s, ∃ s', f a s = (.ok (), s')) :
    ∃ s', M.forEach l f s = (.ok (), s') := by
  induction l generalizing s with
  | nil => exact ⟨s, rfl⟩
  | cons a rest ih =>
    obtain ⟨s1, h1⟩ := h a s
    obtain ⟨s2, h2⟩ := ih s1
    exact ⟨s2, by simp only [M.forEach, M.bind, h1, h2]⟩

theorem fwd_insertValuesId (id : Int) : ∀ (kvs : List KV) (s : Db), s.Inv → Owns s.abs id →
    Fwd s (Db.insertValuesId id kvs s).2 ∧ (Db.insertValuesId id kvs s).2.graph = s.graph ∧
    (Db.insertValuesId id kvs s).2.aliases = s.aliases := by
  intro kvs
  induction kvs with
  | nil => intro s hi _; exact ⟨Fwd.refl hi, rfl, rfl⟩
  | cons kv rest ih =>
    intro s hi ho
    have f1 := fwd_insertOrReplace s hi id kv ho
    obtain ⟨g1, a1⟩ := insertOrReplace_graph id kv s
    have hok : (Db.insertOrReplaceKeyValue id kv s) = (.ok (), (Db.insertOrReplaceKeyValue id kv s).2) := by
      unfold Db.insertOrReplaceKeyValue
      cases kvFind (kvGet s.values id.natAbs) kv.1 <;> rfl
    obtain ⟨f2, g2, a2⟩ := ih (Db.insertOrReplaceKeyValue id kv s).2 f1.1 (ho.congr g1)
    have : (Db.insertValuesId id (kv :: rest) s).2 = (Db.insertValuesId id rest (Db.insertOrReplaceKeyValue id kv s).2).2 := by
      show (M.bind (Db.insertOrReplaceKeyValue id kv) (fun _ => M.forEach rest (Db.insertOrReplaceKeyValue id)) s).2 = _
      unfold M.bind; rw [hok]; rfl
    rw [this]
    exact ⟨f1.trans f2, by rw [g2, g1], by rw [a2, a1]⟩

theorem fwd_insertKVs (id : Int) : ∀ (kvs : List KV) (s : Db), s.Inv → Owns s.abs id → (keysOf kvs).Nodup →
    (∀ k ∈ keysOf kvs, kvFind (kvGet s.values id.natAbs) k = none) →
    Fwd s (M.forEach kvs (Db.insertKeyValue id) s).2 ∧ (M.forEach kvs (Db.insertKeyValue id) s).2.graph = s.graph ∧
    (M.forEach kvs (Db.insertKeyValue id) s).2.aliases = s.aliases ∧
    (M.forEach kvs (Db.insertKeyValue id) s).1 = .ok () := by
  intro kvs
  induction kvs with
  | nil => intro s hi _ _ _; exact ⟨Fwd.refl hi, rfl, rfl, rfl⟩
  | cons kv rest ih =>
    intro s hi ho hnd hnone
    obtain ⟨k, v⟩ := kv
    simp only [keysOf, List.map_cons, List.nodup_cons] at hnd
    have f1 := fwd_insertKeyValue s hi id (k, v) ho (hnone k (by simp [keysOf]))
    have hnone' : ∀ k' ∈ keysOf rest, kvFind (kvGet (Db.insertKeyValue id (k, v) s).2.values id.natAbs) k' = none := by
      intro k' hk'
      show kvFind (kvGet (kvSet s.values id.natAbs _) id.natAbs) k' = none
      rw [kvGet_kvSet]; simp only [if_true]
      rw [kvFind_append, hnone k' (by simp only [keysOf, List.map_cons, List.mem_cons]; exact Or.inr hk')]
      have : k ≠ k' := by intro h; subst h; exact hnd.1 hk'
      simp [this]
    obtain ⟨f2, g2, a2, r2⟩ := ih (Db.insertKeyValue id (k, v) s).2 f1.1 (ho.congr rfl) hnd.2 hnone'
    have : M.forEach ((k, v) :: rest) (Db.insertKeyValue id) s
        = M.forEach rest (Db.insertKeyValue id) (Db.insertKeyValue id (k, v) s).2 := rfl
    rw [this]
    exact ⟨f1.trans f2, by rw [g2]; rfl, by rw [a2]; rfl, r2⟩

/-- `insert_values_new`: fresh node, optional (unused) alias, values with distinct keys -/
theorem fwd_insertValuesNew (alias : Option String) (kvs : List KV) (s : Db) (hi : s.Inv) (hnd : (keysOf kvs).Nodup)
    (ha : ∀ a, alias = some a → aliasValue s.aliases a = none) : Fwd s (Db.insertValuesNew alias kvs s).2 := by
  have g := ga_of_sinv hi.sinv
  obtain ⟨h1, hpos, hfree, hk, _, _, _⟩ := Graph.insertNode_spec s.graph hi.sinv.wf
  have f1 := fwd_insertNode s hi
  let i := s.graph.insertNode.1
  let s1 := (Db.insertNode s).2
  have hkind1 : s1.graph.kind i = .node := by
    show s.graph.insertNode.2.kind i = _; rw [hk]; simp [i]
  have hnat : ((i : Nat) : Int).natAbs = i := Int.natAbs_natCast i
  have hown1 : Owns s1.abs (i : Int) := owns_of_node (by omega) (by rw [hnat]; exact hkind1)
  have hkv1 : ∀ k, kvFind (kvGet s1.values i) k = none := fun k => hi.binv.k2 i hfree k
  have hnoal : ∀ x, aliasValue s1.aliases x ≠ some (i : Int) := by
    intro x hx
    have := (hi.binv.a2 x _ hx).2
    rw [hnat] at this
    have h2 : s.graph.kind i = .node := this
    rw [hfree] at h2; simp at h2
  have hn : Db.insertNode s = (.ok (i : Int), s1) := rfl
  have tail : ∀ s2 : Db, Fwd s1 s2 → s2.graph = s1.graph → s2.values = s1.values →
      Fwd s2 (M.bind (M.forEach kvs (Db.insertKeyValue (i : Int))) (fun _ => M.pure (i : Int)) s2).2 := by
    intro s2 f2 g2 v2
    have hown2 : Owns s2.abs (i : Int) := hown1.congr g2
    obtain ⟨f3, _, _, _⟩ := fwd_insertKVs (i : Int) kvs s2 f2.1 hown2 hnd (by
      intro k _; rw [hnat, v2]; exact hkv1 k)
    refine fwd_bind _ _ s2 f3 ?_
    intro _ s3 _ hi3; exact Fwd.refl hi3
  unfold Db.insertValuesNew
  refine fwd_bind _ _ s f1 ?_
  intro id s1' he _
  rw [hn] at he; cases he
  cases alias with
  | none =>
    refine fwd_bind (M.pure ()) _ s1 (Fwd.refl f1.1) ?_
    intro u s2' he2 _
    cases he2
    exact tail s1 (Fwd.refl f1.1) rfl rfl
  | some a =>
    have f2 := fwd_insertNewAlias s1 f1.1 (i : Int) a (by omega) (by rw [hnat]; exact hkind1) (ha a rfl) hnoal
    refine fwd_bind (Db.insertNewAlias (i : Int) a) _ s1 f2 ?_
    intro u s2' he2 _
    cases he2
    exact tail _ f2 rfl rfl

/-- `insert_edge` + values with distinct keys -/
theorem fwd_insertEdgeWithValues (f t : Int) (kvs : List KV) (s : Db) (hi : s.Inv) (hnd : (keysOf kvs).Nodup) :
    Fwd s (Db.insertEdgeWithValues f t kvs s).2 := by
  unfold Db.insertEdgeWithValues
  refine fwd_bind _ _ s (fwd_insertEdge s hi f t) ?_
  intro id s1 he hi1
  -- the edge was created
  by_cases hkk : s.graph.kind f.natAbs = .node ∧ s.graph.kind t.natAbs = .node
  · obtain ⟨r, hr, h1, hpos, hfree, hk, _, _, _⟩ := Graph.insertEdge_spec s.graph hi.sinv.wf f.natAbs t.natAbs hkk.1 hkk.2
    have he' : Db.insertEdge f t s = (.ok (-(r.1 : Int)), { s with graph := r.2, undo := Cmd.removeEdge (-(r.1 : Int)) :: s.undo }) := by
      unfold Db.insertEdge; rw [hr]
    rw [he'] at he; cases he
    have hnat : (-(r.1 : Int)).natAbs = r.1 := by simp
    have hkind : r.2.kind r.1 = .edge f.natAbs t.natAbs := by rw [hk]; simp
    have hown : Owns ({ s with graph := r.2, undo := Cmd.removeEdge (-(r.1 : Int)) :: s.undo } : Db).abs (-(r.1 : Int)) :=
      owns_of_edge (by omega) f.natAbs t.natAbs (by rw [hnat]; exact hkind)
    obtain ⟨f3, _, _, r3⟩ := fwd_insertKVs (-(r.1 : Int)) kvs _ hi1 hown hnd (by
      intro k _; rw [hnat]; exact hi.binv.k2 r.1 hfree k)
    refine fwd_bind _ _ _ f3 ?_
    intro _ s3 _ hi3; exact Fwd.refl hi3
  · have : s.graph.insertEdge f.natAbs t.natAbs = .error Err.graphInvalidIndex := Graph.insertEdge_error _ _ _ hkk
    unfold Db.insertEdge at he; rw [this] at he; cases he

/-! ### the queries -/

def QValues.distinct : QValues → Prop
  | .single v => (keysOf v).Nodup
  | .multi l => ∀ v ∈ l, (keysOf v).Nodup

theorem safe_removeLoop : ∀ ids, Safe (Db.removeLoop ids) := by
  intro ids
  induction ids with
  | nil => exact Safe.pure 0
  | cons q rest ih =>
    exact Safe.bind (fun s hi => fwd_remove s hi q) (fun b => Safe.bind ih (fun n => Safe.pure _))

theorem safe_removeQuery (ids : List QId) : Safe (Db.removeQuery ids) :=
  Safe.bind (safe_removeLoop ids) (fun n => Safe.pure _)

theorem safe_removeAliasesLoop : ∀ l, Safe (Db.removeAliasesLoop l) := by
  intro l
  induction l with
  | nil => exact Safe.pure 0
  | cons a rest ih =>
    exact Safe.bind (fun s hi => fwd_removeAlias s hi a) (fun b => Safe.bind ih (fun n => Safe.pure _))

theorem safe_removeAliases (l : List String) : Safe (Db.removeAliases l) :=
  Safe.bind (safe_removeAliasesLoop l) (fun n => Safe.pure _)

theorem safe_insertIndexQuery (k : Val) : Safe (Db.insertIndexQuery k) :=
  Safe.bind (fun s hi => fwd_insertIndex s hi k) (fun n => Safe.pure _)

theorem safe_removeIndexQuery (k : Val) : Safe (Db.removeIndexQuery k) :=
  Safe.bind (fun s hi => fwd_removeIndex s hi k) (fun n => Safe.pure _)

theorem safe_removeValuesLoop (keys : List Val) : ∀ ids, Safe (Db.removeValuesLoop keys ids) := by
  intro ids
  induction ids with
  | nil => exact Safe.pure 0
  | cons q rest ih =>
    intro s hi
    unfold Db.removeValuesLoop
    cases hd : s.dbId q with
    | error e => exact Fwd.refl hi
    | ok id =>
      simp only
      exact fwd_bind _ _ s (fwd_removeKeys s hi id keys (owns_of_dbId hi hd))
          (fun c s' _ hi' => Safe.bind ih (fun n => Safe.pure _) s' hi')

theorem safe_removeValues (ids : List QId) (keys : List Val) : Safe (Db.removeValues ids keys) :=
  Safe.bind (safe_removeValuesLoop keys ids) (fun n => Safe.pure _)

theorem insertAlias_graph (id : Int) (a : String) (s : Db) : (Db.insertAlias id a s).2.graph = s.graph := by
  unfold Db.insertAlias
  cases aliasKey s.aliases id <;> rfl

theorem safe_insertAliasesLoop : ∀ l, Safe (Db.insertAliasesLoop false l) := by
  intro l
  induction l with
  | nil => exact Safe.pure 0
  | cons p rest ih =>
    obtain ⟨q, a⟩ := p
    intro s hi
    unfold Db.insertAliasesLoop
    by_cases ha : a = ""
    · simp only [ha, if_true]; exact Fwd.refl hi
    · simp only [ha, if_false]
      cases hd : s.dbId q with
      | error e => exact Fwd.refl hi
      | ok id =>
        simp only
        by_cases hneg : id < 0
        · simp only [hneg, if_true]; exact Fwd.refl hi
        · simp only [hneg, if_false, Bool.false_eq_true]
          rcases dbId_ok hi hd with ⟨h1, h2⟩ | ⟨h1, _⟩
          · exact fwd_bind _ _ s (fwd_insertAlias s hi id a h1 h2)
              (fun _ s' _ hi' => Safe.bind ih (fun n => Safe.pure _) s' hi')
          · exact absurd h1 hneg

theorem safe_insertAliases (ids : List QId) (aliases : List String) : Safe (Db.insertAliases ids aliases) := by
  intro s hi
  unfold Db.insertAliases Db.insertAliasesGen
  by_cases h : ids.length ≠ aliases.length
  · rw [if_pos h]; exact Fwd.refl hi
  · rw [if_neg h]
    split
    · exact Fwd.refl hi
    · exact Safe.bind (safe_insertAliasesLoop _) (fun n => Safe.pure _) s hi

/-! insert values -/

theorem safe_insertValues1 (q : QId) (kvs : List KV) (hnd : (keysOf kvs).Nodup) : Safe (Db.insertValues1 q kvs) := by
  intro s hi
  unfold Db.insertValues1
  cases hd : s.dbId q with
  | ok id =>
    simp only
    exact fwd_bind _ _ s (fwd_insertValuesId id kvs s hi (owns_of_dbId hi hd)).1 (fun _ s' _ hi' => Fwd.refl hi')
  | error e =>
    cases q with
    | id i =>
      simp only
      by_cases h0 : i = 0
      · simp only [h0, if_true]
        exact fwd_bind _ _ s (fwd_insertValuesNew none kvs s hi hnd (by intro a h; cases h)) (fun _ s' _ hi' => Fwd.refl hi')
      · simp only [h0, if_false]; exact Fwd.refl hi
    | alias a =>
      simp only
      have hnone : aliasValue s.aliases a = none := by
        simp only [Db.dbId] at hd
        cases hv : aliasValue s.aliases a with
        | none => rfl
        | some j => simp [hv] at hd
      exact fwd_bind _ _ s (fwd_insertValuesNew (some a) kvs s hi hnd (by intro b h; cases h; exact hnone))
        (fun _ s' _ hi' => Fwd.refl hi')

theorem safe_insertValuesLoop : ∀ (l : List (QId × List KV)), (∀ p ∈ l, (keysOf p.2).Nodup) → Safe (Db.insertValuesLoop l) := by
  intro l
  induction l with
  | nil => intro _; exact Safe.pure _
  | cons p rest ih =>
    intro h
    obtain ⟨q, kvs⟩ := p
    exact Safe.bind (safe_insertValues1 q kvs (h (q, kvs) (by simp)))
      (fun r => Safe.bind (ih (fun p hp => h p (List.mem_cons_of_mem _ hp))) (fun rs => Safe.pure _))

theorem safe_insertValues (ids : List QId) (values : QValues) (hd : values.distinct) : Safe (Db.insertValues ids values) := by
  intro s hi
  unfold Db.insertValues
  split
  · exact Fwd.refl hi
  cases values with
  | single v =>
    simp only
    refine fwd_bind _ _ s (safe_insertValuesLoop _ ?_ s hi) (fun _ s' _ hi' => Fwd.refl hi')
    intro p hp
    obtain ⟨q, hq, rfl⟩ := List.mem_map.mp hp
    exact hd
  | multi vs =>
    simp only
    by_cases h : ids.length ≠ vs.length
    · rw [if_pos h]; exact Fwd.refl hi
    · rw [if_neg h]
      refine fwd_bind _ _ s (safe_insertValuesLoop _ ?_ s hi) (fun _ s' _ hi' => Fwd.refl hi')
      intro p hp
      exact hd p.2 (List.of_mem_zip hp).2

/-! insert edges -/

theorem edgeValues_distinct {values : QValues} {n : Nat} {vals : List (List KV)} (hd : values.distinct)
    (h : Db.edgeValues values n = .ok vals) : ∀ v ∈ vals, (keysOf v).Nodup := by
  unfold Db.edgeValues at h
  cases values with
  | single v =>
    simp only at h
    split at h
    · cases h
    · cases h; intro v' hv'; rw [List.eq_of_mem_replicate hv']; exact hd
  | multi l =>
    simp only at h
    split at h
    · cases h
    · cases h; exact hd

theorem fwd_insertEdgesUpdate (s0 : Db) : ∀ (l : List (Int × List KV)) (s : Db), s.Inv → s.graph = s0.graph →
    (∀ p ∈ l, Owns s0.abs p.1) → Fwd s (Db.insertEdgesUpdate l s).2 := by
  intro l
  induction l with
  | nil => intro s hi _ _; exact Fwd.refl hi
  | cons p rest ih =>
    intro s hi hg ho
    obtain ⟨id, kvs⟩ := p
    unfold Db.insertEdgesUpdate
    have hown : Owns s.abs id := (ho (id, kvs) (by simp)).congr hg
    obtain ⟨f1, g1, _⟩ := fwd_insertValuesId id kvs s hi hown
    refine fwd_bind _ _ s f1 ?_
    intro _ s' he hi'
    have : s' = (Db.insertValuesId id kvs s).2 := by rw [he]
    subst this
    exact ih _ hi' (by rw [g1, hg]) (fun p hp => ho p (List.mem_cons_of_mem _ hp))

theorem safe_insertEdgesList : ∀ (l : List ((Int × Int) × List KV)), (∀ p ∈ l, (keysOf p.2).Nodup) →
    Safe (Db.insertEdgesList l) := by
  intro l
  induction l with
  | nil => intro _; exact Safe.pure _
  | cons p rest ih =>
    intro h
    obtain ⟨⟨f, t⟩, kvs⟩ := p
    exact Safe.bind (fun s hi => fwd_insertEdgeWithValues f t kvs s hi (h ((f, t), kvs) (by simp)))
      (fun id => Safe.bind (ih (fun p hp => h p (List.mem_cons_of_mem _ hp))) (fun ids => Safe.pure _))

theorem safe_mkResult (ids : List Int) : Safe (Db.mkResult ids) := fun _ hi => Fwd.refl hi

theorem safe_insertEdges (from_ to_ ids : List QId) (values : QValues) (each : Bool) (hd : values.distinct) :
    Safe (Db.insertEdges from_ to_ ids values each) := by
  intro s hi
  unfold Db.insertEdges
  cases hq : s.dbIds ids with
  | error e => exact Fwd.refl hi
  | ok qids =>
    simp only
    by_cases hne : (!qids.isEmpty) = true
    · rw [if_pos hne]
      by_cases hany : qids.any (fun i => decide (0 < i)) = true
      · rw [if_pos hany]; exact Fwd.refl hi
      · rw [if_neg hany]
        cases hv : Db.edgeValues values qids.length with
        | error e => exact Fwd.refl hi
        | ok vals =>
          simp only
          refine fwd_bind _ _ s (fwd_insertEdgesUpdate s _ s hi rfl ?_) (fun _ s' _ hi' => Fwd.refl hi')
          intro p hp
          obtain ⟨q, hq'⟩ := mem_dbIds hq p.1 (List.of_mem_zip hp).1
          exact owns_of_dbId hi hq'
    · rw [if_neg hne]
      cases hf : s.dbIds from_ with
      | error e => exact Fwd.refl hi
      | ok fs =>
        simp only
        cases ht : s.dbIds to_ with
        | error e => exact Fwd.refl hi
        | ok ts =>
          simp only
          generalize (if (each || decide (fs.length ≠ ts.length)) = true
            then fs.flatMap (fun f => ts.map (fun t => (f, t))) else fs.zip ts) = pairs
          cases hv : Db.edgeValues values pairs.length with
          | error e => exact Fwd.refl hi
          | ok vals =>
            simp only
            have hdv := edgeValues_distinct hd hv
            refine fwd_bind _ _ s (safe_insertEdgesList _ ?_ s hi) (fun _ s' _ hi' => Fwd.refl hi')
            intro p hp; exact hdv p.2 (List.of_mem_zip hp).2

/-! insert nodes -/

theorem fwd_insertNodesUpdate (s0 : Db) : ∀ (l : List (Int × List KV)) (aliases : List String) (s : Db), s.Inv →
    s.graph = s0.graph → (∀ p ∈ l, 0 < p.1 ∧ s0.graph.kind p.1.natAbs = .node) →
    Fwd s (Db.insertNodesUpdate l aliases s).2 := by
  intro l
  induction l with
  | nil => intro _ s hi _ _; exact Fwd.refl hi
  | cons p rest ih =>
    intro aliases s hi hg ho
    obtain ⟨id, kvs⟩ := p
    unfold Db.insertNodesUpdate
    obtain ⟨hpos, hnode⟩ := ho (id, kvs) (by simp)
    have hnode' : s.graph.kind id.natAbs = .node := by rw [hg]; exact hnode
    obtain ⟨f1, g1, _⟩ := fwd_insertValuesId id kvs s hi (owns_of_node hpos hnode')
    refine fwd_bind _ _ s f1 ?_
    intro _ s1 he hi1
    have e1 : s1 = (Db.insertValuesId id kvs s).2 := by rw [he]
    have g1' : s1.graph = s0.graph := by rw [e1, g1, hg]
    cases hh : aliases.head? with
    | none =>
      refine fwd_bind (M.pure ()) _ s1 (Fwd.refl hi1) ?_
      intro _ s2 he2 hi2; cases he2
      exact ih _ _ hi2 g1' (fun p hp => ho p (List.mem_cons_of_mem _ hp))
    | some a =>
      have hn1 : s1.graph.kind id.natAbs = .node := by rw [g1']; exact hnode
      refine fwd_bind (Db.insertAlias id a) _ s1 (fwd_insertAlias s1 hi1 id a hpos hn1) ?_
      intro _ s2 he2 hi2
      have e2 : s2 = (Db.insertAlias id a s1).2 := by rw [he2]
      exact ih _ _ hi2 (by rw [e2, insertAlias_graph, g1']) (fun p hp => ho p (List.mem_cons_of_mem _ hp))

theorem safe_insertNodesNew : ∀ (vals : List (List KV)) (aliases : List String), (∀ v ∈ vals, (keysOf v).Nodup) →
    Safe (Db.insertNodesNew vals aliases) := by
  intro vals
  induction vals with
  | nil => intro _ _; exact Safe.pure _
  | cons kvs rest ih =>
    intro aliases h s hi
    unfold Db.insertNodesNew
    have hrest : ∀ al, Safe (Db.insertNodesNew rest al) := fun al => ih al (fun v hv => h v (List.mem_cons_of_mem _ hv))
    cases hb : aliases.head?.bind (aliasValue s.aliases) with
    | some id =>
      simp only
      obtain ⟨a, ha1, ha2⟩ := Option.bind_eq_some_iff.mp hb
      obtain ⟨hpos, hnode⟩ := hi.binv.a2 a id ha2
      refine fwd_bind _ _ s (fwd_insertValuesId id kvs s hi (owns_of_node hpos hnode)).1 ?_
      intro _ s' _ hi'
      exact Safe.bind (hrest _) (fun ids => Safe.pure _) s' hi'
    | none =>
      simp only
      refine fwd_bind _ _ s (fwd_insertValuesNew aliases.head? kvs s hi (h kvs (by simp)) ?_) ?_
      · intro a ha
        rw [ha] at hb; simpa using hb
      · intro _ s' _ hi'
        exact Safe.bind (hrest _) (fun ids => Safe.pure _) s' hi'

theorem safe_insertNodes_core (aliases : List String) (ids : List QId) (s : Db) (hi : s.Inv) (qids : List Int)
    (hq : s.dbIds ids = .ok qids) (vals : List (List KV)) (hdv : ∀ v ∈ vals, (keysOf v).Nodup) :
    Fwd s ((if vals.length < aliases.length then (.error Err.queryNotEnoughData, s)
      else if !qids.isEmpty then
        if qids.any (fun i => i < 0) then (.error Err.queryNotAllowed, s)
        else if vals.length ≠ qids.length then (.error Err.queryNotEnoughData, s)
        else (M.bind ((if false then Db.insertNodesUpdateLegacy else Db.insertNodesUpdate) (qids.zip vals) aliases)
                fun _ => Db.mkResult qids) s
      else (M.bind (Db.insertNodesNew vals aliases) Db.mkResult) s : Except Err QResult × Db)).2 := by
  by_cases h1 : vals.length < aliases.length
  · rw [if_pos h1]; exact Fwd.refl hi
  · rw [if_neg h1]
    by_cases hne : (!qids.isEmpty) = true
    · rw [if_pos hne]
      by_cases hany : qids.any (fun i => decide (i < 0)) = true
      · rw [if_pos hany]; exact Fwd.refl hi
      · rw [if_neg hany]
        by_cases hl : vals.length ≠ qids.length
        · rw [if_pos hl]; exact Fwd.refl hi
        · rw [if_neg hl]
          simp only [Bool.false_eq_true, if_false]
          refine fwd_bind _ _ s (fwd_insertNodesUpdate s _ _ s hi rfl ?_) (fun _ s' _ hi' => Fwd.refl hi')
          intro p hp
          have hm := (List.of_mem_zip hp).1
          obtain ⟨q, hq'⟩ := mem_dbIds hq p.1 hm
          rcases dbId_ok hi hq' with h | ⟨hneg, _⟩
          · exact h
          · exfalso; apply hany
            rw [List.any_eq_true]; exact ⟨p.1, hm, by simp [hneg]⟩
    · rw [if_neg hne]
      exact Safe.bind (safe_insertNodesNew vals aliases hdv) (fun ids => safe_mkResult ids) s hi

theorem safe_insertNodes (count : Nat) (values : QValues) (aliases : List String) (ids : List QId)
    (hd : values.distinct) : Safe (Db.insertNodes count values aliases ids) := by
  intro s hi
  unfold Db.insertNodes Db.insertNodesGen
  split
  · exact Fwd.refl hi
  cases hq : s.dbIds ids with
  | error e => exact Fwd.refl hi
  | ok qids =>
    cases values with
    | single v =>
      exact safe_insertNodes_core aliases ids s hi qids hq _
        (fun v' hv' => by rw [List.eq_of_mem_replicate hv']; exact hd)
    | multi l => exact safe_insertNodes_core aliases ids s hi qids hq l hd

end AgdbDb
