import AgdbDb.Model.Basic
namespace AgdbDb

/-! ### outer vector -/

theorem kvGet_kvSet (vs : List (List KV)) (i j : Nat) (l : List KV) :
    kvGet (kvSet vs i l) j = if j = i then l else kvGet vs j := by
  unfold kvGet kvSet
  by_cases h : i < vs.length
  · simp only [h, if_true]
    by_cases hj : j = i
    · subst hj; simp [List.getD_eq_getElem?_getD, h]
    · simp [List.getD_eq_getElem?_getD, hj, Ne.symm hj]
  · simp only [h, if_false]
    have hle : vs.length ≤ i := Nat.le_of_not_lt h
    simp only [List.getD_eq_getElem?_getD]
    by_cases hj : j = i
    · subst hj
      simp [List.getElem?_append, hle, h]
    · simp only [hj, if_false]
      by_cases h1 : j < vs.length
      · simp [List.getElem?_append, h1]
      · have h2 : vs.length ≤ j := Nat.le_of_not_lt h1
        by_cases h3 : j < i
        · have : j - vs.length < i - vs.length := by omega
          simp [List.getElem?_append, h1, this]
        · have h4 : i < j := by omega
          rw [List.getElem?_eq_none (by simp; omega), List.getElem?_eq_none (by omega)]

def keysOf (l : List KV) : List Val := l.map Prod.fst

/-! ### inner vector as a map -/

theorem kvFind_append (l : List KV) (k v k' : Val) :
    kvFind (l ++ [(k, v)]) k' =
      match kvFind l k' with
      | some x => some x
      | none => if k = k' then some v else none := by
  induction l with
  | nil => simp [kvFind]
  | cons p rest ih =>
    obtain ⟨a, b⟩ := p
    simp only [List.cons_append, kvFind]
    by_cases h : a = k' <;> simp [h, ih]

theorem kvFind_none_iff (l : List KV) (k : Val) : kvFind l k = none ↔ k ∉ keysOf l := by
  induction l with
  | nil => simp [kvFind, keysOf]
  | cons p rest ih =>
    obtain ⟨a, b⟩ := p
    simp only [kvFind, keysOf, List.map_cons, List.mem_cons]
    by_cases h : a = k
    · simp [h]
    · simp only [h, if_false]
      rw [ih]; simp [keysOf, Ne.symm h]

theorem kvFind_some_mem (l : List KV) (k v : Val) (h : kvFind l k = some v) : (k, v) ∈ l := by
  induction l with
  | nil => simp [kvFind] at h
  | cons p rest ih =>
    obtain ⟨a, b⟩ := p
    simp only [kvFind] at h
    by_cases h1 : a = k
    · simp [h1] at h; simp [h1, h]
    · simp [h1] at h; exact List.mem_cons_of_mem _ (ih h)

theorem kvFind_of_mem (l : List KV) (hn : (keysOf l).Nodup) (k v : Val) (h : (k, v) ∈ l) : kvFind l k = some v := by
  induction l with
  | nil => simp at h
  | cons p rest ih =>
    obtain ⟨a, b⟩ := p
    simp only [keysOf, List.map_cons, List.nodup_cons] at hn
    simp only [kvFind]
    rcases List.mem_cons.mp h with h1 | h1
    · cases h1; simp
    · have : a ≠ k := by
        intro hak; subst hak
        exact hn.1 (List.mem_map.mpr ⟨(a, v), h1, rfl⟩)
      simp [this]; exact ih hn.2 h1

theorem keysOf_kvReplace (l : List KV) (k v : Val) : keysOf (kvReplace l k v) = keysOf l := by
  induction l with
  | nil => simp [kvReplace]
  | cons p rest ih =>
    obtain ⟨a, b⟩ := p
    simp only [kvReplace]
    by_cases h : a = k
    · simp [h, keysOf]
    · simp only [h, if_false, keysOf, List.map_cons]; simp only [keysOf] at ih; rw [ih]

theorem kvFind_kvReplace (l : List KV) (k v k' : Val) (h : kvFind l k ≠ none) :
    kvFind (kvReplace l k v) k' = if k' = k then some v else kvFind l k' := by
  induction l with
  | nil => simp [kvFind] at h
  | cons p rest ih =>
    obtain ⟨a, b⟩ := p
    simp only [kvReplace, kvFind] at h ⊢
    by_cases h1 : a = k
    · subst h1
      simp only [if_true, kvFind]
      by_cases h2 : k' = a
      · simp [h2]
      · simp [h2, Ne.symm h2]
    · simp only [h1, if_false, kvFind] at h ⊢
      by_cases h2 : a = k'
      · have : k' ≠ k := by rw [← h2]; exact h1
        simp [h2, this]
      · simp only [h2, if_false]; exact ih h

theorem keysOf_kvErase_sublist (l : List KV) (k : Val) : (keysOf (kvErase l k)).Sublist (keysOf l) := by
  induction l with
  | nil => simp [kvErase]
  | cons p rest ih =>
    obtain ⟨a, b⟩ := p
    simp only [kvErase]
    by_cases h : a = k
    · simp [h, keysOf]
    · simp only [h, if_false, keysOf, List.map_cons]; exact List.Sublist.cons₂ _ ih

theorem kvFind_kvErase (l : List KV) (hn : (keysOf l).Nodup) (k k' : Val) :
    kvFind (kvErase l k) k' = if k' = k then none else kvFind l k' := by
  induction l with
  | nil => simp [kvErase, kvFind]
  | cons p rest ih =>
    obtain ⟨a, b⟩ := p
    simp only [keysOf, List.map_cons, List.nodup_cons] at hn
    simp only [kvErase, kvFind]
    by_cases h1 : a = k
    · subst h1
      simp only [if_true]
      by_cases h2 : k' = a
      · subst h2; simp; exact (kvFind_none_iff _ _).mpr hn.1
      · simp [h2, Ne.symm h2]
    · simp only [h1, if_false, kvFind]
      by_cases h2 : a = k'
      · have : k' ≠ k := by rw [← h2]; exact h1
        simp [h2, this]
      · simp only [h2, if_false]; exact ih hn.2

theorem keysOf_append (l : List KV) (p : KV) : keysOf (l ++ [p]) = keysOf l ++ [p.1] := by simp [keysOf]

theorem nodup_keys_append (l : List KV) (k v : Val) (hn : (keysOf l).Nodup) (h : kvFind l k = none) :
    (keysOf (l ++ [(k, v)])).Nodup := by
  rw [keysOf_append]
  have := (kvFind_none_iff l k).mp h
  rw [List.nodup_append]
  refine ⟨hn, by simp, ?_⟩
  intro a ha b hb
  simp at hb; subst hb
  intro hab; subst hab; exact this ha

end AgdbDb
