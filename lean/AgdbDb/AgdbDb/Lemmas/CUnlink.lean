/- unlinking an element from a pointer-linked chain (`remove_from_edge` / `remove_to_edge`) -/
import AgdbDb.Lemmas.CRep
namespace AgdbDb
open CGraph

/-- pigeonhole: a duplicate-free list of numbers below `n` has at most `n` elements -/
theorem nodup_length_le : ∀ (n : Nat) (l : List Nat), l.Nodup → (∀ x ∈ l, x < n) → l.length ≤ n := by
  intro n
  induction n with
  | zero =>
    intro l _ h
    cases l with
    | nil => simp
    | cons a _ => exact absurd (h a (by simp)) (Nat.not_lt_zero a)
  | succ n ih =>
    intro l hnd h
    by_cases hm : n ∈ l
    · have h1 := ih (l.erase n) (hnd.erase n) (by
        intro x hx
        have hxl := List.mem_of_mem_erase hx
        have hne : x ≠ n := fun hh => by subst hh; exact (hnd.mem_erase_iff.mp hx).1 rfl
        have := h x hxl; omega)
      rw [List.length_erase_of_mem hm] at h1; omega
    · have h1 := ih l hnd (by
        intro x hx
        have hne : x ≠ n := fun hh => hm (hh ▸ hx)
        have := h x hx; omega)
      omega

theorem Linked.next_nonneg {next : Nat → Int} : ∀ {l : List Nat} {h : Int}, Linked next h l → ∀ x ∈ l, 0 ≤ next x := by
  intro l
  induction l with
  | nil => intro h _ x hx; simp at hx
  | cons a rest ih =>
    intro h hl x hx
    rcases List.mem_cons.mp hx with rfl | hx'
    · exact hl.2.head_nonneg
    · exact ih hl.2 x hx'

theorem Linked.head_eq {next : Nat → Int} {a : Nat} {rest : List Nat} {h : Int} (hl : Linked next h (a :: rest)) :
    h = (a : Int) := hl.1

/-- the `while` loop finds the predecessor of `e`, and redirecting it past `e` yields the chain without `e` -/
theorem findPrev_unlink (next : List Int) (e : Nat) : ∀ (rest : List Nat) (a : Nat) (fuel : Nat),
    Linked (rd next) (a : Int) (a :: rest) → (a :: rest).Nodup → a ≠ e → e ∈ rest →
    (∀ x ∈ a :: rest, x < next.length) → (a :: rest).length ≤ fuel →
    ∃ p, findPrev next (e : Int) fuel a = some p ∧ p ∈ a :: rest ∧ p ≠ e ∧
      Linked (rd (wr next p (rd next e))) (a : Int) ((a :: rest).erase e) := by
  intro rest
  induction rest with
  | nil => intro a fuel _ _ _ he; simp at he
  | cons b rest' ih =>
    intro a fuel hl hnd hae he hlt hfuel
    obtain ⟨_, hl2⟩ := hl
    have hab : rd next a = (b : Int) := hl2.1
    have hnd' := List.nodup_cons.mp hnd
    cases fuel with
    | zero => simp at hfuel
    | succ fuel =>
      have herase : (a :: b :: rest').erase e = a :: (b :: rest').erase e := by
        rw [List.erase_cons_tail]; simp [hae]
      by_cases hbe : b = e
      · subst hbe
        refine ⟨a, by simp [findPrev, hab], by simp, hae, ?_⟩
        rw [herase, List.erase_cons_head]
        have hal : a < next.length := hlt a (by simp)
        refine ⟨rfl, ?_⟩
        rw [rd_wr _ _ _ _ hal]; simp only [if_true]
        refine hl2.2.frame ?_
        intro x hx
        have : x ≠ a := by intro h; subst h; exact hnd'.1 (List.mem_cons_of_mem _ hx)
        exact rd_wr_ne _ _ _ _ this
      · have he' : e ∈ rest' := by
          rcases List.mem_cons.mp he with h | h
          · exact absurd h.symm hbe
          · exact h
        have hbI : (b : Int) ≠ (e : Int) := by omega
        obtain ⟨p, hp1, hp2, hp3, hp4⟩ := ih b fuel ⟨rfl, hl2.2⟩ hnd'.2 hbe he'
          (fun x hx => hlt x (List.mem_cons_of_mem _ hx)) (by simp at hfuel ⊢; omega)
        refine ⟨p, ?_, List.mem_cons_of_mem _ hp2, hp3, ?_⟩
        · simp only [findPrev, hab, hbI, if_false]
          simpa using hp1
        · rw [herase]
          have hpa : p ≠ a := by intro h; subst h; exact hnd'.1 hp2
          refine ⟨rfl, ?_⟩
          rw [rd_wr_ne _ _ _ _ (Ne.symm hpa), hab]
          exact hp4

/-- `unlink` on a well-formed chain: succeeds, removes exactly `e`, decrements the count, touches only the head
    cell of `node`, the count cell of `node`, and one link cell inside the chain -/
theorem unlink_spec (head next : List Int) (cap node e : Nat) (l : List Nat)
    (hl : Linked (rd next) (rd head node) l) (hnd : l.Nodup) (he : e ∈ l)
    (hlt : ∀ x ∈ l, x < next.length) (hcap : next.length ≤ cap) (hnode : node < head.length) (hnode2 : node < next.length)
    (hnl : node ∉ l) :
    ∃ h' n', unlink head next cap node e = .ok (h', n') ∧ h'.length = head.length ∧ n'.length = next.length ∧
      (∀ j, j ≠ node → rd h' j = rd head j) ∧
      Linked (rd n') (rd h' node) (l.erase e) ∧ rd n' node = rd next node - 1 ∧
      (∀ j, j ∉ l → j ≠ node → rd n' j = rd next j) ∧ rd n' e = rd next e := by
  have hen : e ≠ node := fun h => hnl (h ▸ he)
  cases l with
  | nil => simp at he
  | cons a rest =>
    have hhead : rd head node = (a : Int) := hl.1
    by_cases hae : a = e
    · subst hae
      have hu : unlink head next cap node a = .ok (wr head node (rd next a), wr next node (rd next node - 1)) := by
        unfold unlink; simp [hhead]
      refine ⟨_, _, hu, by simp, by simp, fun j hj => rd_wr_ne _ _ _ _ hj, ?_, ?_, ?_, ?_⟩
      · rw [List.erase_cons_head, rd_wr _ _ _ _ hnode]; simp only [if_true]
        refine hl.2.frame ?_
        intro x hx
        have : x ≠ node := fun h => hnl (h ▸ List.mem_cons_of_mem _ hx)
        exact rd_wr_ne _ _ _ _ this
      · rw [rd_wr _ _ _ _ hnode2]; simp
      · intro j _ hj; exact rd_wr_ne _ _ _ _ hj
      · exact rd_wr_ne _ _ _ _ hen
    · have he' : e ∈ rest := by
        rcases List.mem_cons.mp he with h | h
        · exact absurd h.symm hae
        · exact h
      have hlen : (a :: rest).length ≤ cap :=
        Nat.le_trans (nodup_length_le next.length (a :: rest) hnd hlt) hcap
      obtain ⟨p, hp1, hp2, hp3, hp4⟩ := findPrev_unlink next e rest a cap (by rw [← hhead]; exact hl) hnd hae he' hlt hlen
      have hpn : p ≠ node := fun h => hnl (h ▸ hp2)
      have haI : (a : Int) ≠ (e : Int) := by omega
      have hu : unlink head next cap node e
          = .ok (head, wr (wr next p (rd next e)) node (rd (wr next p (rd next e)) node - 1)) := by
        unfold unlink; simp [hhead, haI, hp1]
      refine ⟨_, _, hu, rfl, by simp, fun _ _ => rfl, ?_, ?_, ?_, ?_⟩
      · rw [hhead]
        refine hp4.frame ?_
        intro x hx
        have hxl : x ∈ a :: rest := List.mem_of_mem_erase hx
        have : x ≠ node := fun h => hnl (h ▸ hxl)
        exact rd_wr_ne _ _ _ _ this
      · rw [rd_wr _ _ _ _ (by rw [len_wr]; exact hnode2)]; simp only [if_true]
        rw [rd_wr_ne _ _ _ _ (Ne.symm hpn)]
      · intro j hj hjn
        rw [rd_wr_ne _ _ _ _ hjn]
        have : j ≠ p := fun h => hj (h ▸ hp2)
        exact rd_wr_ne _ _ _ _ this
      · rw [rd_wr_ne _ _ _ _ hen, rd_wr_ne _ _ _ _ (Ne.symm hp3)]

end AgdbDb
