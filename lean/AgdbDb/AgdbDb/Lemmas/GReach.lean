/-
  Graph-mutation histories: `GReach g g'` = `g'` is obtained from `g` by a sequence of the four graph mutations in
  which `remove_node` is only applied to nodes without edges.
-/
import AgdbDb.Lemmas.GraphObs
namespace AgdbDb
open Graph

/-- the graph mutations `DbImpl` performs -/
inductive GOp
  | insertNode
  | insertEdge (s d : Nat)
  | removeEdge (e : Nat)
  | removeNode (n : Nat)

def GOp.runG (g : Graph) : GOp → Graph
  | .insertNode => g.insertNode.2
  | .insertEdge s d => match g.insertEdge s d with
    | .ok r => r.2
    | .error _ => g
  | .removeEdge e => g.removeEdge e
  | .removeNode n => g.removeNode n

/-- `remove_node` is only ever applied to a node with empty chains -/
def GOp.admissible (g : Graph) : GOp → Prop
  | .removeNode n => g.kind n = .node → g.outOf n = [] ∧ g.inOf n = []
  | _ => True

def runAllG : List GOp → Graph → Graph
  | [], g => g
  | op :: ops, g => runAllG ops (op.runG g)

def admissibleAll : List GOp → Graph → Prop
  | [], _ => True
  | op :: ops, g => op.admissible g ∧ admissibleAll ops (op.runG g)

theorem runAllG_append (o1 o2 : List GOp) (g : Graph) : runAllG (o1 ++ o2) g = runAllG o2 (runAllG o1 g) := by
  induction o1 generalizing g with
  | nil => rfl
  | cons op rest ih => exact ih (op.runG g)

theorem admissibleAll_append (o1 o2 : List GOp) (g : Graph) :
    admissibleAll (o1 ++ o2) g ↔ admissibleAll o1 g ∧ admissibleAll o2 (runAllG o1 g) := by
  induction o1 generalizing g with
  | nil => simp [admissibleAll, runAllG]
  | cons op rest ih =>
    simp only [List.cons_append, admissibleAll, runAllG, ih (op.runG g)]
    exact and_assoc.symm

def GReach (g g' : Graph) : Prop := ∃ ops, admissibleAll ops g ∧ g' = runAllG ops g

theorem GReach.refl (g : Graph) : GReach g g := ⟨[], trivial, rfl⟩
theorem GReach.of_eq {g g' : Graph} (h : g' = g) : GReach g g' := ⟨[], trivial, h⟩
theorem GReach.trans {a b c : Graph} (h1 : GReach a b) (h2 : GReach b c) : GReach a c := by
  obtain ⟨o1, a1, e1⟩ := h1
  obtain ⟨o2, a2, e2⟩ := h2
  refine ⟨o1 ++ o2, (admissibleAll_append o1 o2 a).mpr ⟨a1, by rw [← e1]; exact a2⟩, ?_⟩
  rw [runAllG_append, ← e1]; exact e2
theorem GReach.step (g : Graph) (op : GOp) (h : op.admissible g) : GReach g (op.runG g) :=
  ⟨[op], ⟨h, trivial⟩, rfl⟩

/-- a node no edge points to or from has empty chains -/
theorem chains_empty_of_no_edges {g : Graph} (w : g.WF) (n : Nat)
    (hne : ∀ e s d, g.kind e = .edge s d → s ≠ n ∧ d ≠ n) : g.outOf n = [] ∧ g.inOf n = [] := by
  constructor
  · cases h : g.outOf n with
    | nil => rfl
    | cons e rest =>
      obtain ⟨d, hd⟩ := (w.out_iff n e).mp (by rw [h]; simp)
      exact absurd rfl (hne e n d hd).1
  · cases h : g.inOf n with
    | nil => rfl
    | cons e rest =>
      obtain ⟨s, hs⟩ := (w.in_iff n e).mp (by rw [h]; simp)
      exact absurd rfl (hne e s n hs).2

end AgdbDb
