/-
  The representation relation between the four `i64` arrays (`Model/CGraph.lean`) and the list-level graph
  (`Model/Graph.lean`), and basic facts about array reads / writes and pointer-linked chains.
-/
import AgdbDb.Model.CGraph
import AgdbDb.Lemmas.GraphObs
namespace AgdbDb

theorem rd_wr (a : List Int) (i j : Nat) (v : Int) (h : i < a.length) : rd (wr a i v) j = if j = i then v else rd a j := by
  unfold rd wr
  by_cases hj : j = i
  · subst hj; simp [List.getD_eq_getElem?_getD, h]
  · simp [List.getD_eq_getElem?_getD, hj, Ne.symm hj]

theorem rd_wr_ne (a : List Int) (i j : Nat) (v : Int) (hj : j ≠ i) : rd (wr a i v) j = rd a j := by
  unfold rd wr; simp [List.getD_eq_getElem?_getD, Ne.symm hj]

@[simp] theorem len_wr (a : List Int) (i : Nat) (v : Int) : (wr a i v).length = a.length := by simp [wr]

theorem rd_append_lt (a : List Int) (j : Nat) (v : Int) (h : j < a.length) : rd (a ++ [v]) j = rd a j := by
  unfold rd; simp [List.getD_eq_getElem?_getD, List.getElem?_append, h]

theorem rd_append_len (a : List Int) (v : Int) : rd (a ++ [v]) a.length = v := by
  unfold rd; simp [List.getD_eq_getElem?_getD]

/-- the chain starting at `h`, following `next`, is exactly `l` and ends with 0 -/
def Linked (next : Nat → Int) : Int → List Nat → Prop
  | h, [] => h = 0
  | h, e :: rest => h = (e : Int) ∧ Linked next (next e) rest

/-- the free list starting at `h` (negated indexes, `i64::MIN` terminated) is exactly `l` -/
def FreeLinked (next : Nat → Int) : Int → List Nat → Prop
  | h, [] => h = minI
  | h, f :: rest => h = -(f : Int) ∧ FreeLinked next (next f) rest

theorem Linked.frame {next next' : Nat → Int} : ∀ {l : List Nat} {h : Int}, Linked next h l →
    (∀ e ∈ l, next' e = next e) → Linked next' h l := by
  intro l
  induction l with
  | nil => intro h hl _; exact hl
  | cons e rest ih =>
    intro h hl hf
    refine ⟨hl.1, ?_⟩
    rw [hf e (by simp)]
    exact ih hl.2 (fun x hx => hf x (List.mem_cons_of_mem _ hx))

theorem FreeLinked.frame {next next' : Nat → Int} : ∀ {l : List Nat} {h : Int}, FreeLinked next h l →
    (∀ e ∈ l, next' e = next e) → FreeLinked next' h l := by
  intro l
  induction l with
  | nil => intro h hl _; exact hl
  | cons e rest ih =>
    intro h hl hf
    refine ⟨hl.1, ?_⟩
    rw [hf e (by simp)]
    exact ih hl.2 (fun x hx => hf x (List.mem_cons_of_mem _ hx))

theorem Linked.head_nonneg {next : Nat → Int} {l : List Nat} {h : Int} (hl : Linked next h l) : 0 ≤ h := by
  cases l with
  | nil => rw [hl]; exact Int.le_refl 0
  | cons e rest => rw [hl.1]; exact Int.natCast_nonneg e

/-- `c` represents `g` -/
structure Rep (c : CGraph) (g : Graph) : Prop where
  lf : c.from_.length = g.slots.length
  lt : c.to_.length = g.slots.length
  lfm : c.fromMeta.length = g.slots.length
  ltm : c.toMeta.length = g.slots.length
  free_slot : ∀ i, 0 < i → g.kind i = .free → i < g.slots.length →
    rd c.fromMeta i < 0 ∧ rd c.from_ i = 0 ∧ rd c.to_ i = 0 ∧ rd c.toMeta i = 0
  node_slot : ∀ i, g.kind i = .node →
    Linked (rd c.fromMeta) (rd c.from_ i) (g.outOf i) ∧ Linked (rd c.toMeta) (rd c.to_ i) (g.inOf i) ∧
    rd c.fromMeta i = ((g.outOf i).length : Int) ∧ rd c.toMeta i = ((g.inOf i).length : Int)
  edge_slot : ∀ e s d, g.kind e = .edge s d →
    rd c.from_ e = -(s : Int) ∧ rd c.to_ e = -(d : Int) ∧ 0 ≤ rd c.fromMeta e
  free_list : FreeLinked (rd c.fromMeta) (rd c.fromMeta 0) g.free
  count : rd c.toMeta 0 = g.nodeCount

theorem rep_empty : Rep CGraph.empty Graph.empty := by
  have hk : ∀ i, Graph.empty.kind i = .free := by
    intro e; unfold Graph.kind Graph.slot Graph.empty; cases e <;> simp [List.getD_eq_getElem?_getD, Slot.kind]
  refine ⟨rfl, rfl, rfl, rfl, ?_, ?_, ?_, ?_, rfl⟩
  · intro i h0 _ hl; simp [Graph.empty] at hl; omega
  · intro i h; rw [hk] at h; cases h
  · intro e s d h; rw [hk] at h; cases h
  · show FreeLinked _ _ []; rfl

/-! validity tests agree -/

theorem Rep.validNode {c : CGraph} {g : Graph} (r : Rep c g) (w : g.WF) (i : Nat) :
    c.validNode i = true ↔ g.kind i = .node := by
  unfold CGraph.validNode CGraph.capacity
  simp only [Bool.and_eq_true, decide_eq_true_eq, Bool.not_eq_true', decide_eq_false_iff_not, ne_eq,
    decide_not, Bool.not_eq_eq_eq_not, Bool.not_true]
  constructor
  · rintro ⟨⟨⟨h0, hl⟩, hnr⟩, hfrom⟩
    rw [r.lf] at hl
    have hpos : 0 < i := Nat.pos_of_ne_zero (by simpa using h0)
    cases hk : g.kind i with
    | node => rfl
    | free => exact absurd (r.free_slot i hpos hk hl).1 (by simpa using hnr)
    | edge s d =>
      have := (r.edge_slot i s d hk).1
      have hs : g.kind s = .node := w.src_node hk
      have hs0 : s ≠ 0 := by intro h; subst h; rw [w.slot0] at hs; cases hs
      rw [this] at hfrom; omega
  · intro hk
    have hl : i < g.slots.length := Graph.lt_of_kind_ne_free g i (by rw [hk]; simp)
    have h0 : i ≠ 0 := by intro h; subst h; rw [w.slot0] at hk; cases hk
    obtain ⟨l1, _, l3, _⟩ := r.node_slot i hk
    refine ⟨⟨⟨by simpa using h0, by rw [r.lf]; exact hl⟩, ?_⟩, l1.head_nonneg⟩
    rw [l3]; simp

theorem Rep.validEdge {c : CGraph} {g : Graph} (r : Rep c g) (w : g.WF) (i : Nat) :
    c.validEdge i = true ↔ ∃ s d, g.kind i = .edge s d := by
  unfold CGraph.validEdge CGraph.capacity
  simp only [Bool.and_eq_true, decide_eq_true_eq, Bool.not_eq_true', decide_eq_false_iff_not, ne_eq,
    decide_not, Bool.not_eq_eq_eq_not, Bool.not_true]
  constructor
  · rintro ⟨⟨⟨h0, hl⟩, hnr⟩, hfrom⟩
    rw [r.lf] at hl
    have hpos : 0 < i := Nat.pos_of_ne_zero (by simpa using h0)
    cases hk : g.kind i with
    | edge s d => exact ⟨s, d, rfl⟩
    | free => exact absurd (r.free_slot i hpos hk hl).1 (by simpa using hnr)
    | node =>
      have := (r.node_slot i hk).1.head_nonneg
      omega
  · rintro ⟨s, d, hk⟩
    have hl : i < g.slots.length := Graph.lt_of_kind_ne_free g i (by rw [hk]; simp)
    have h0 : i ≠ 0 := by intro h; subst h; rw [w.slot0] at hk; cases hk
    obtain ⟨l1, _, l3⟩ := r.edge_slot i s d hk
    have hs : g.kind s = .node := w.src_node hk
    have hs0 : s ≠ 0 := by intro h; subst h; rw [w.slot0] at hs; cases hs
    refine ⟨⟨⟨by simpa using h0, by rw [r.lf]; exact hl⟩, ?_⟩, by rw [l1]; omega⟩
    simp; omega

end AgdbDb
