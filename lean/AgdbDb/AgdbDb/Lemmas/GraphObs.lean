/- chain / free-list observations of the list-level graph operations (used by the array refinement) -/
import AgdbDb.Lemmas.Graph
namespace AgdbDb
namespace Graph

theorem getFreeIndex_cases (g : Graph) :
    (g.free = [] ∧ g.getFreeIndex = (g.slots.length, { g with slots := g.slots ++ [Slot.free] })) ∨
    (∃ i rest, g.free = i :: rest ∧ g.getFreeIndex = (i, { g with free := rest })) := by
  unfold getFreeIndex
  cases h : g.free with
  | nil => exact Or.inl ⟨rfl, rfl⟩
  | cons i rest => exact Or.inr ⟨i, rest, rfl, rfl⟩

/-- observations of `getFreeIndex`'s graph: slots unchanged pointwise -/
theorem getFreeIndex_obs (g : Graph) (w : WF g) :
    let r := g.getFreeIndex
    (∀ j, r.2.kind j = g.kind j) ∧ (∀ j, r.2.outOf j = g.outOf j) ∧ (∀ j, r.2.inOf j = g.inOf j) ∧
    r.1 < r.2.slots.length ∧ g.kind r.1 = .free ∧ 0 < r.1 := by
  have hs := getFreeIndex_spec g w
  simp only at hs
  obtain ⟨_, h2, h3, h4, h5, _⟩ := hs
  simp only
  exact ⟨fun j => by unfold kind; rw [h5], fun j => by rw [outOf_eq, outOf_eq, h5],
    fun j => by rw [inOf_eq, inOf_eq, h5], h3, h4, h2⟩

theorem insertNode_chains (g : Graph) (w : WF g) :
    let r := g.insertNode
    r.1 = g.getFreeIndex.1 ∧
    (∀ j, r.2.outOf j = if j = r.1 then [] else g.outOf j) ∧
    (∀ j, r.2.inOf j = if j = r.1 then [] else g.inOf j) ∧
    r.2.slots.length = g.getFreeIndex.2.slots.length ∧ r.2.free = g.getFreeIndex.2.free := by
  obtain ⟨_, ho, hi, h3, _, _⟩ := getFreeIndex_obs g w
  unfold insertNode
  refine ⟨rfl, ?_, ?_, ?_, rfl⟩
  · intro j
    show (g.getFreeIndex.2.setSlot g.getFreeIndex.1 (Slot.node [] [])).outOf j = _
    rw [outOf_setSlot _ _ _ _ h3, ho]; rfl
  · intro j
    show (g.getFreeIndex.2.setSlot g.getFreeIndex.1 (Slot.node [] [])).inOf j = _
    rw [inOf_setSlot _ _ _ _ h3, hi]; rfl
  · show (g.getFreeIndex.2.setSlot _ _).slots.length = _
    rw [setSlot_length]

theorem insertEdge_chains (g : Graph) (w : WF g) (s d : Nat) (hs : g.kind s = .node) (hd : g.kind d = .node)
    (r : Nat × Graph) (hr : g.insertEdge s d = .ok r) :
    r.1 = g.getFreeIndex.1 ∧
    (∀ j, r.2.outOf j = if j = s then r.1 :: g.outOf s else g.outOf j) ∧
    (∀ j, r.2.inOf j = if j = d then r.1 :: g.inOf d else g.inOf j) ∧
    r.2.slots.length = g.getFreeIndex.2.slots.length ∧ r.2.free = g.getFreeIndex.2.free := by
  obtain ⟨hk1, ho1, hi1, h3, h4, _⟩ := getFreeIndex_obs g w
  unfold insertEdge at hr
  rw [(isNode_iff g s).mpr hs, (isNode_iff g d).mpr hd] at hr
  simp only [Bool.and_self, if_true] at hr
  cases hr
  generalize hgf : g.getFreeIndex = gf at *
  obtain ⟨i, g1⟩ := gf
  simp only at *
  have hsi : s ≠ i := by intro h; subst h; rw [h4] at hs; simp at hs
  have hdi : d ≠ i := by intro h; subst h; rw [h4] at hd; simp at hd
  let g2 := g1.setSlot i (Slot.edge s d)
  have hk2 : ∀ j, g2.kind j = if j = i then .edge s d else g.kind j := by
    intro j; rw [kind_setSlot g1 i j _ h3, hk1]; rfl
  have ho2 : ∀ j, g2.outOf j = g.outOf j := by
    intro j; rw [outOf_setSlot g1 i j _ h3, ho1]; split
    · rename_i h; subst h; rw [outOf_nil_of_not_node g j (by rw [h4]; simp)]; rfl
    · rfl
  have hi2 : ∀ j, g2.inOf j = g.inOf j := by
    intro j; rw [inOf_setSlot g1 i j _ h3, hi1]; split
    · rename_i h; subst h; rw [inOf_nil_of_not_node g j (by rw [h4]; simp)]; rfl
    · rfl
  have hs2 : g2.kind s = .node := by rw [hk2]; simp [hsi, hs]
  have e3 := addOut_eq g2 s i hs2
  obtain ⟨hk3, ho3, hi3, hf3, hl3, _⟩ := setChains_obs g2 s (i :: g2.outOf s) (g2.inOf s) hs2
  rw [← e3] at hk3 ho3 hi3 hf3 hl3
  have hd3 : (g2.addOut s i).kind d = .node := by rw [hk3, hk2]; simp [hdi, hd]
  have e4 := addIn_eq (g2.addOut s i) d i hd3
  obtain ⟨_, ho4, hi4, hf4, hl4, _⟩ := setChains_obs (g2.addOut s i) d ((g2.addOut s i).outOf d) (i :: (g2.addOut s i).inOf d) hd3
  rw [← e4] at ho4 hi4 hf4 hl4
  refine ⟨trivial, ?_, ?_, ?_, ?_⟩
  · intro j; rw [ho4]
    by_cases hjd : j = d
    · subst hjd; simp only [if_true]; rw [ho3]; simp only [ho2]
    · simp only [hjd, if_false]; rw [ho3]; simp only [ho2]
  · intro j; rw [hi4]
    have hx : ∀ x, (if x = s then g.inOf s else g.inOf x) = g.inOf x := by
      intro x; split
      · rename_i h; rw [h]
      · rfl
    by_cases hjd : j = d
    · subst hjd; simp only [if_true]; rw [hi3]; simp only [hi2, hx]
    · simp only [hjd, if_false]; rw [hi3]; simp only [hi2, hx]
  · rw [hl4, hl3]; simp [g2]
  · rw [hf4, hf3]; rfl

theorem removeEdge_chains (g : Graph) (w : WF g) (e s d : Nat) (he : g.kind e = .edge s d) :
    (∀ j, (g.removeEdge e).outOf j = if j = s then (g.outOf s).erase e else g.outOf j) ∧
    (∀ j, (g.removeEdge e).inOf j = if j = d then (g.inOf d).erase e else g.inOf j) ∧
    (g.removeEdge e).slots.length = g.slots.length ∧ (g.removeEdge e).free = e :: g.free := by
  have hsn := w.src_node he
  have hdn := w.dst_node he
  have hel : e < g.slots.length := lt_of_kind_ne_free g e (by rw [he]; simp)
  unfold removeEdge
  rw [slot_of_kind_edge g e s d he]
  simp only
  have e1 := eraseOut_eq g s e hsn
  obtain ⟨hk1, ho1, hi1, hf1, hl1, _⟩ := setChains_obs g s ((g.outOf s).erase e) (g.inOf s) hsn
  rw [← e1] at hk1 ho1 hi1 hf1 hl1
  have hd1 : (g.eraseOut s e).kind d = .node := by rw [hk1]; exact hdn
  have e2 := eraseIn_eq (g.eraseOut s e) d e hd1
  obtain ⟨_, ho2, hi2, hf2, hl2, _⟩ := setChains_obs (g.eraseOut s e) d ((g.eraseOut s e).outOf d) (((g.eraseOut s e).inOf d).erase e) hd1
  rw [← e2] at ho2 hi2 hf2 hl2
  obtain ⟨_, ho3, hi3, hf3, hl3, _⟩ := freeSlot_obs ((g.eraseOut s e).eraseIn d e) e (by rw [hl2, hl1]; exact hel)
  have hes : e ≠ s := by intro h; subst h; rw [he] at hsn; simp at hsn
  have hed : e ≠ d := by intro h; subst h; rw [he] at hdn; simp at hdn
  have hoe : g.outOf e = [] := outOf_nil_of_not_node g e (by rw [he]; simp)
  have hie : g.inOf e = [] := inOf_nil_of_not_node g e (by rw [he]; simp)
  refine ⟨?_, ?_, by rw [hl3, hl2, hl1], by rw [hf3, hf2, hf1]⟩
  · intro j; rw [ho3]
    by_cases hje : j = e
    · subst hje; simp [hes, hoe]
    · simp only [hje, if_false]; rw [ho2]
      by_cases hjd : j = d
      · subst hjd; simp only [if_true]; rw [ho1]
      · simp only [hjd, if_false]; rw [ho1]
  · intro j; rw [hi3]
    by_cases hje : j = e
    · subst hje; simp [hed, hie]
    · simp only [hje, if_false]; rw [hi2]
      have hx : ∀ x, (if x = s then g.inOf s else g.inOf x) = g.inOf x := by
        intro x; split
        · rename_i h; rw [h]
        · rfl
      by_cases hjd : j = d
      · subst hjd; simp only [if_true]; rw [hi1]; simp only [hx]
      · simp only [hjd, if_false]; rw [hi1]; simp only [hx]

/-- `remove_node` of a node with empty chains -/
theorem removeNode_chains (g : Graph) (n : Nat) (hn : g.kind n = .node) (ho : g.outOf n = []) (hi : g.inOf n = []) :
    (∀ j, (g.removeNode n).outOf j = g.outOf j) ∧ (∀ j, (g.removeNode n).inOf j = g.inOf j) ∧
    (g.removeNode n).slots.length = g.slots.length ∧ (g.removeNode n).free = n :: g.free ∧
    (∀ j, (g.removeNode n).kind j = if j = n then .free else g.kind j) ∧
    (g.removeNode n).nodeCount = g.nodeCount - 1 := by
  have hnl : n < g.slots.length := lt_of_kind_ne_free g n (by rw [hn]; simp)
  have hslot := slot_of_kind_node g n hn
  rw [ho, hi] at hslot
  unfold removeNode
  rw [hslot]
  simp only [List.foldl_nil, hslot]
  obtain ⟨hk3, ho3, hi3, hf3, hl3, hc3⟩ := freeSlot_obs g n hnl
  refine ⟨?_, ?_, hl3, hf3, hk3, by simp [hc3]⟩
  · intro j; show (g.freeSlot n).outOf j = _; rw [ho3]; split
    · rename_i h; rw [h, ho]
    · rfl
  · intro j; show (g.freeSlot n).inOf j = _; rw [hi3]; split
    · rename_i h; rw [h, hi]
    · rfl

end Graph
end AgdbDb
