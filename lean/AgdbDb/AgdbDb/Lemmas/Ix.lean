import AgdbDb.Model.Basic
namespace AgdbDb

def ixKeys (ix : Indexes) : List Val := ix.map Prod.fst

theorem ixFind_ixUpdate (ix : Indexes) (k k' : Val) (f : IxMap → IxMap) :
    ixFind (ixUpdate ix k f) k' = if k' = k then (ixFind ix k).map f else ixFind ix k' := by
  induction ix with
  | nil => simp [ixUpdate, ixFind]
  | cons p rest ih =>
    obtain ⟨a, l⟩ := p
    simp only [ixUpdate]
    by_cases h : a = k
    · subst h
      by_cases h2 : k' = a
      · subst h2; simp [ixFind]
      · simp [ixFind, h2, Ne.symm h2]
    · simp only [h, if_false, ixFind]
      by_cases h2 : a = k'
      · have : k' ≠ k := by rw [← h2]; exact h
        simp [h2, this]
      · simp only [h2, if_false, ih]

theorem ixKeys_ixUpdate (ix : Indexes) (k : Val) (f : IxMap → IxMap) : ixKeys (ixUpdate ix k f) = ixKeys ix := by
  induction ix with
  | nil => simp [ixUpdate]
  | cons p rest ih =>
    obtain ⟨a, l⟩ := p
    simp only [ixUpdate]
    by_cases h : a = k
    · simp [h, ixKeys]
    · simp only [h, if_false, ixKeys, List.map_cons]; simp only [ixKeys] at ih; rw [ih]

theorem ixFind_none_iff (ix : Indexes) (k : Val) : ixFind ix k = none ↔ k ∉ ixKeys ix := by
  induction ix with
  | nil => simp [ixFind, ixKeys]
  | cons p rest ih =>
    obtain ⟨a, l⟩ := p
    simp only [ixFind, ixKeys, List.map_cons, List.mem_cons]
    by_cases h : a = k
    · simp [h]
    · simp only [h, if_false]; rw [ih]; simp [ixKeys, Ne.symm h]

theorem ixFind_append (ix : Indexes) (k k' : Val) (l : IxMap) :
    ixFind (ix ++ [(k, l)]) k' =
      match ixFind ix k' with
      | some x => some x
      | none => if k = k' then some l else none := by
  induction ix with
  | nil => simp [ixFind]
  | cons p rest ih =>
    obtain ⟨a, b⟩ := p
    simp only [List.cons_append, ixFind]
    by_cases h : a = k' <;> simp [h, ih]

theorem ixKeys_append (ix : Indexes) (p : Val × IxMap) : ixKeys (ix ++ [p]) = ixKeys ix ++ [p.1] := by simp [ixKeys]

theorem ixKeys_ixRemove_sublist (ix : Indexes) (k : Val) : (ixKeys (ixRemove ix k)).Sublist (ixKeys ix) := by
  induction ix with
  | nil => simp [ixRemove]
  | cons p rest ih =>
    obtain ⟨a, b⟩ := p
    simp only [ixRemove]
    by_cases h : a = k
    · simp [h, ixKeys]
    · simp only [h, if_false, ixKeys, List.map_cons]; exact List.Sublist.cons_cons _ ih

theorem ixFind_ixRemove (ix : Indexes) (hn : (ixKeys ix).Nodup) (k k' : Val) :
    ixFind (ixRemove ix k) k' = if k' = k then none else ixFind ix k' := by
  induction ix with
  | nil => simp [ixRemove, ixFind]
  | cons p rest ih =>
    obtain ⟨a, b⟩ := p
    simp only [ixKeys, List.map_cons, List.nodup_cons] at hn
    simp only [ixRemove, ixFind]
    by_cases h1 : a = k
    · subst h1
      simp only [if_true]
      by_cases h2 : k' = a
      · subst h2; simp; exact (ixFind_none_iff _ _).mpr hn.1
      · simp [h2, Ne.symm h2]
    · simp only [h1, if_false, ixFind]
      by_cases h2 : a = k'
      · have : k' ≠ k := by rw [← h2]; exact h1
        simp [h2, this]
      · simp only [h2, if_false]; exact ih hn.2

theorem nodup_ixKeys_append (ix : Indexes) (k : Val) (l : IxMap) (hn : (ixKeys ix).Nodup) (h : ixFind ix k = none) :
    (ixKeys (ix ++ [(k, l)])).Nodup := by
  rw [ixKeys_append]
  have := (ixFind_none_iff ix k).mp h
  rw [List.nodup_append]
  refine ⟨hn, by simp, ?_⟩
  intro a ha b hb
  simp at hb; subst hb
  intro hab; subst hab; exact this ha

/-! multiset view of one multimap -/

theorem count_ixIns (l : IxMap) (v v' : Val) (id id' : Int) :
    (ixIns v id l).count (v', id') = l.count (v', id') + if (v, id) = (v', id') then 1 else 0 := by
  unfold ixIns
  rw [List.count_append]
  by_cases h : (v, id) = (v', id')
  · simp [h]
  · simp only [h, if_false]
    rw [List.count_singleton]
    simp [h]

theorem count_ixDel (l : IxMap) (v v' : Val) (id id' : Int) :
    (ixDel v id l).count (v', id') = l.count (v', id') - if (v, id) = (v', id') then 1 else 0 := by
  unfold ixDel
  rw [List.count_erase]
  by_cases h : (v, id) = (v', id')
  · simp [h]
  · have : ((v', id') == (v, id)) = false := by simp; intro h1 h2; exact h (by simp [h1, h2])
    simp [h, this]

theorem mem_ixValues (l : IxMap) (v : Val) (id : Int) : id ∈ ixValues l v ↔ (v, id) ∈ l := by
  unfold ixValues
  simp only [List.mem_filterMap]
  constructor
  · rintro ⟨p, hp, h⟩
    obtain ⟨a, b⟩ := p
    by_cases h1 : a = v
    · simp [h1] at h; subst h; subst h1; exact hp
    · simp [h1] at h
  · intro h; exact ⟨(v, id), h, by simp⟩

end AgdbDb
