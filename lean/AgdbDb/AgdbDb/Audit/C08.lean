import AgdbDb.Props.C08
import AgdbDb.Props.C08Arrays
open AgdbDb
#print axioms C08_refines
#print axioms C08_wf_invariant
#print axioms C08_id_signs_fresh
#print axioms C08_insert_edge_missing
#print axioms C08_insert_edges_unresolved
#print axioms C08_remove_node_cascade
#print axioms C08_counts
#print axioms C08_node_count
#print axioms C08_arrays_init
#print axioms C08_arrays_refine_step
#print axioms C08_arrays_refine
#print axioms C08_arrays_history
