import AgdbDb.Props.C11
open AgdbDb
#print axioms C11_index_exact_invariant
#print axioms C11_search_index
#print axioms C11_listing
#print axioms C11_backfill
#print axioms C11_duplicate_index_error
