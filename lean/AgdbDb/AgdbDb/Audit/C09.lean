import AgdbDb.Props.C09
open AgdbDb
#print axioms C09_map_invariant
#print axioms C09_insert_or_replace
#print axioms C09_remove_keys
#print axioms C09_no_leak_on_id_reuse
#print axioms C09_select_all
#print axioms C09_select_by_keys
#print axioms C09_missing_key
