import AgdbDb.Props.C13
open AgdbDb
#print axioms C13_rollback
#print axioms C13_failed_query
#print axioms C13_reachable
#print axioms C13_replace_counterexample
#print axioms C13_alias_steal_counterexample
#print axioms C13_insert_nodes_alias_counterexample
