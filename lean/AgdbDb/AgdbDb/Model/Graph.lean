/-
  The directed multigraph of `graph.rs` at list level: one slot per index, a node carries its outgoing and
  incoming edge chains in the order of the intrusive lists (most recently linked first), an edge its endpoints;
  freed slots form a LIFO stack.  `Model/CGraph.lean` has the four `i64` arrays; `Props/C08.lean` relates the two.
-/
import AgdbDb.Model.Basic
namespace AgdbDb

inductive Slot
  | free
  | node (out inn : List Nat)
  | edge (src dst : Nat)
deriving DecidableEq, Repr, Inhabited

structure Graph where
  slots : List Slot
  free : List Nat
  nodeCount : Int
deriving Repr

namespace Graph

/-- `GraphDataStorage::new`: slot 0 is reserved -/
def empty : Graph := ⟨[Slot.free], [], 0⟩

def slot (g : Graph) (i : Nat) : Slot := g.slots.getD i Slot.free

def setSlot (g : Graph) (i : Nat) (s : Slot) : Graph := { g with slots := g.slots.set i s }

def isNode (g : Graph) (i : Nat) : Bool :=
  match g.slot i with
  | .node _ _ => true
  | _ => false

def isEdge (g : Graph) (i : Nat) : Bool :=
  match g.slot i with
  | .edge _ _ => true
  | _ => false

/-- `get_free_index` -/
def getFreeIndex (g : Graph) : Nat × Graph :=
  match g.free with
  | [] => (g.slots.length, { g with slots := g.slots ++ [Slot.free] })
  | i :: rest => (i, { g with free := rest })

/-- `insert_node` -/
def insertNode (g : Graph) : Nat × Graph :=
  let r := g.getFreeIndex
  (r.1, { (r.2.setSlot r.1 (Slot.node [] [])) with nodeCount := r.2.nodeCount + 1 })

def addOut (g : Graph) (n e : Nat) : Graph :=
  match g.slot n with
  | .node o i => g.setSlot n (.node (e :: o) i)
  | _ => g

def addIn (g : Graph) (n e : Nat) : Graph :=
  match g.slot n with
  | .node o i => g.setSlot n (.node o (e :: i))
  | _ => g

/-- `insert_edge` (both endpoints validated first; `set_edge` links at the chain heads) -/
def insertEdge (g : Graph) (s d : Nat) : Except Err (Nat × Graph) :=
  if g.isNode s && g.isNode d then
    let r := g.getFreeIndex
    .ok (r.1, ((r.2.setSlot r.1 (Slot.edge s d)).addOut s r.1).addIn d r.1)
  else .error Err.graphInvalidIndex

def eraseOut (g : Graph) (n e : Nat) : Graph :=
  match g.slot n with
  | .node o i => g.setSlot n (.node (o.erase e) i)
  | _ => g

def eraseIn (g : Graph) (n e : Nat) : Graph :=
  match g.slot n with
  | .node o i => g.setSlot n (.node o (i.erase e))
  | _ => g

/-- `free_index` -/
def freeSlot (g : Graph) (i : Nat) : Graph := { (g.setSlot i Slot.free) with free := i :: g.free }

/-- `remove_edge` (no-op on anything that is not a live edge) -/
def removeEdge (g : Graph) (e : Nat) : Graph :=
  match g.slot e with
  | .edge s d => ((g.eraseOut s e).eraseIn d e).freeSlot e
  | _ => g

def dropOutEdge (g : Graph) (e : Nat) : Graph :=
  match g.slot e with
  | .edge _ d => (g.eraseIn d e).freeSlot e
  | _ => g

def dropInEdge (g : Graph) (e : Nat) : Graph :=
  match g.slot e with
  | .edge s _ => (g.eraseOut s e).freeSlot e
  | _ => g

/-- `remove_node`: `remove_from_edges`, `remove_to_edges`, `free_index`, node count -/
def removeNode (g : Graph) (n : Nat) : Graph :=
  match g.slot n with
  | .node out _ =>
    let g1 := out.foldl dropOutEdge g
    let inn1 := match g1.slot n with
      | .node _ i => i
      | _ => []
    let g2 := inn1.foldl dropInEdge g1
    { (g2.freeSlot n) with nodeCount := g2.nodeCount - 1 }
  | _ => g

def outOf (g : Graph) (n : Nat) : List Nat :=
  match g.slot n with
  | .node o _ => o
  | _ => []

def inOf (g : Graph) (n : Nat) : List Nat :=
  match g.slot n with
  | .node _ i => i
  | _ => []

def srcOf (g : Graph) (e : Nat) : Nat :=
  match g.slot e with
  | .edge s _ => s
  | _ => 0

def dstOf (g : Graph) (e : Nat) : Nat :=
  match g.slot e with
  | .edge _ d => d
  | _ => 0

end Graph
end AgdbDb
