/-
  The query layer (`query/*.rs`): every mutating query as a program over the `DbImpl` mutations, the
  read-only queries, and `exec_mut` / `transaction_mut`.
-/
import AgdbDb.Model.Db
namespace AgdbDb

inductive QValues
  | single (kvs : List KV)
  | multi (l : List (List KV))
deriving Repr

structure Elem where
  id : Int
  src : Int
  dst : Int
  values : List KV
deriving Repr

structure QResult where
  result : Nat
  elements : List Elem
deriving Repr

namespace Db

def elemOf (s : Db) (id : Int) (values : List KV) : Elem := ⟨id, s.fromId id, s.toId id, values⟩

/-- `ids.iter().map(|q| db.db_id(q)).collect::<Result<Vec<_>,_>>()` -/
def dbIds (s : Db) : List QId → Except Err (List Int)
  | [] => .ok []
  | q :: qs => match s.dbId q with
    | .ok i => (match dbIds s qs with
      | .ok is => .ok (i :: is)
      | .error e => .error e)
    | .error e => .error e

def liftE {α} (e : Except Err α) : M α := fun s => (e, s)
def getS : M Db := fun s => (.ok s, s)

/-! ### shared helpers -/

/-- `insert_values_id` -/
def insertValuesId (id : Int) (kvs : List KV) : M Unit := M.forEach kvs (insertOrReplaceKeyValue id)

/-- `insert_values_new` -/
def insertValuesNew (alias : Option String) (kvs : List KV) : M Int :=
  M.bind insertNode fun id =>
  M.bind (match alias with
    | some a => insertNewAlias id a
    | none => M.pure ()) fun _ =>
  M.bind (M.forEach kvs (insertKeyValue id)) fun _ => M.pure id

/-- `insert_edge` followed by the new edge's values -/
def insertEdgeWithValues (f t : Int) (kvs : List KV) : M Int :=
  M.bind (insertEdge f t) fun id =>
  M.bind (M.forEach kvs (insertKeyValue id)) fun _ => M.pure id

/-! ### insert nodes -/

/-- insert-or-update branch of `InsertNodesQuery::process` (fixed: `insert_alias`) -/
def insertNodesUpdate : List (Int × List KV) → List String → M Unit
  | [], _ => M.pure ()
  | (id, kvs) :: rest, aliases =>
    M.bind (insertValuesId id kvs) fun _ =>
    M.bind (match aliases.head? with
      | some a => insertAlias id a
      | none => M.pure ()) fun _ =>
    insertNodesUpdate rest aliases.tail

/-- the same with `insert_new_alias` as in the unchanged code -/
def insertNodesUpdateLegacy : List (Int × List KV) → List String → M Unit
  | [], _ => M.pure ()
  | (id, kvs) :: rest, aliases =>
    M.bind (insertValuesId id kvs) fun _ =>
    M.bind (match aliases.head? with
      | some a => insertNewAlias id a
      | none => M.pure ()) fun _ =>
    insertNodesUpdateLegacy rest aliases.tail

/-- new-node branch; returns the ids in order -/
def insertNodesNew : List (List KV) → List String → M (List Int)
  | [], _ => M.pure []
  | kvs :: rest, aliases => fun s =>
    match aliases.head?.bind (aliasValue s.aliases) with
    | some id =>
      (M.bind (insertValuesId id kvs) fun _ =>
       M.bind (insertNodesNew rest aliases.tail) fun ids => M.pure (id :: ids)) s
    | none =>
      (M.bind (insertValuesNew aliases.head? kvs) fun id =>
       M.bind (insertNodesNew rest aliases.tail) fun ids => M.pure (id :: ids)) s

def mkResult (ids : List Int) : M QResult := fun s =>
  (.ok ⟨ids.length, ids.map (fun id => s.elemOf id [])⟩, s)

def insertNodesGen (legacy : Bool) (count : Nat) (values : QValues) (aliases : List String) (ids : List QId) : M QResult :=
  fun s =>
  if !legacy && aliases.any (fun a => a = "") then (.error Err.queryNotAllowed, s) else
  let count' := max count aliases.length
  match s.dbIds ids with
  | .error e => (.error e, s)
  | .ok qids =>
    let vals := match values with
      | .single v => List.replicate (max qids.length count') v
      | .multi v => v
    if vals.length < aliases.length then (.error Err.queryNotEnoughData, s)
    else if !qids.isEmpty then
      if qids.any (fun i => i < 0) then (.error Err.queryNotAllowed, s)
      else if vals.length ≠ qids.length then (.error Err.queryNotEnoughData, s)
      else (M.bind ((if legacy then insertNodesUpdateLegacy else insertNodesUpdate) (qids.zip vals) aliases)
              fun _ => mkResult qids) s
    else (M.bind (insertNodesNew vals aliases) mkResult) s

def insertNodes := insertNodesGen false
def insertNodesLegacy := insertNodesGen true

/-! ### insert edges -/

/-- `InsertEdgesQuery::values` -/
def edgeValues (values : QValues) (count : Nat) : Except Err (List (List KV)) :=
  let vals := match values with
    | .single v => List.replicate (max 1 count) v
    | .multi v => v
  if vals.length ≠ count then .error Err.queryNotEnoughData else .ok vals

def insertEdgesUpdate : List (Int × List KV) → M Unit
  | [] => M.pure ()
  | (id, kvs) :: rest => M.bind (insertValuesId id kvs) fun _ => insertEdgesUpdate rest

/-- one `insert_edge` + its values for every (from, to, kvs) triple -/
def insertEdgesList : List ((Int × Int) × List KV) → M (List Int)
  | [] => M.pure []
  | ((f, t), kvs) :: rest =>
    M.bind (insertEdgeWithValues f t kvs) fun id =>
    M.bind (insertEdgesList rest) fun ids => M.pure (id :: ids)

def insertEdges (from_ to_ ids : List QId) (values : QValues) (each : Bool) : M QResult := fun s =>
  match s.dbIds ids with
  | .error e => (.error e, s)
  | .ok qids =>
    if !qids.isEmpty then
      if qids.any (fun i => 0 < i) then (.error Err.queryNotAllowed, s)
      else match edgeValues values qids.length with
        | .error e => (.error e, s)
        | .ok vals => (M.bind (insertEdgesUpdate (qids.zip vals)) fun _ => mkResult qids) s
    else
      match s.dbIds from_ with
      | .error e => (.error e, s)
      | .ok fs =>
      match s.dbIds to_ with
      | .error e => (.error e, s)
      | .ok ts =>
        let pairs := if each || fs.length ≠ ts.length
          then fs.flatMap (fun f => ts.map (fun t => (f, t)))
          else fs.zip ts
        match edgeValues values pairs.length with
        | .error e => (.error e, s)
        | .ok vals => (M.bind (insertEdgesList (pairs.zip vals)) mkResult) s

/-! ### insert values -/

/-- `insert_values` for one id; returns (count added to `result`, new element if any) -/
def insertValues1 (q : QId) (kvs : List KV) : M (Nat × Option Int) := fun s =>
  match s.dbId q with
  | .ok id => (M.bind (insertValuesId id kvs) fun _ => M.pure (kvs.length, none)) s
  | .error e =>
    match q with
    | .id i => if i = 0 then (M.bind (insertValuesNew none kvs) fun id => M.pure (kvs.length, some id)) s
               else (.error e, s)
    | .alias a => (M.bind (insertValuesNew (some a) kvs) fun id => M.pure (kvs.length, some id)) s

def insertValuesLoop : List (QId × List KV) → M (Nat × List Int)
  | [] => M.pure (0, [])
  | (q, kvs) :: rest =>
    M.bind (insertValues1 q kvs) fun r =>
    M.bind (insertValuesLoop rest) fun rs =>
    M.pure (r.1 + rs.1, (match r.2 with | some i => [i] | none => []) ++ rs.2)

def insertValues (ids : List QId) (values : QValues) : M QResult := fun s =>
  if ids.any (fun q => q = QId.alias "") then (.error Err.queryNotAllowed, s) else
  match values with
  | .single v =>
    (M.bind (insertValuesLoop (ids.map (fun q => (q, v)))) fun r => fun s' =>
      (.ok ⟨r.1, r.2.map (fun id => s'.elemOf id [])⟩, s')) s
  | .multi vs =>
    if ids.length ≠ vs.length then (.error Err.queryNotEnoughData, s)
    else (M.bind (insertValuesLoop (ids.zip vs)) fun r => fun s' =>
      (.ok ⟨r.1, r.2.map (fun id => s'.elemOf id [])⟩, s')) s

/-! ### aliases -/

/-- `InsertAliasesQuery::process` (with the C10 repair: edge ids and empty aliases are rejected, the whole query is
    validated before the first change). -/
def insertAliasesLoop (legacy : Bool) : List (QId × String) → M Nat
  | [] => M.pure 0
  | (q, a) :: rest => fun s =>
    if a = "" then (.error Err.queryNotAllowed, s)
    else match s.dbId q with
      | .error e => (.error e, s)
      | .ok id =>
        if id < 0 then (.error Err.queryNotAllowed, s)
        else (M.bind ((if legacy then insertAliasLegacy else insertAlias) id a) fun _ =>
              M.bind (insertAliasesLoop legacy rest) fun n => M.pure (n + 1)) s

def insertAliasesGen (legacy : Bool) (ids : List QId) (aliases : List String) : M QResult := fun s =>
  if ids.length ≠ aliases.length then (.error Err.queryNotEnoughData, s)
  else if !legacy && (ids.zip aliases).any (fun p => p.2 = "" || (match p.1 with
      | .id i => decide (i < 0)
      | .alias _ => false)) then (.error Err.queryNotAllowed, s)   -- validation of the whole query first (C10 repair)
  else (M.bind (insertAliasesLoop legacy (ids.zip aliases)) fun n => M.pure ⟨n, []⟩) s

def insertAliases := insertAliasesGen false
def insertAliasesLegacy := insertAliasesGen true

def removeAliasesLoop : List String → M Nat
  | [] => M.pure 0
  | a :: rest => M.bind (removeAlias a) fun b => M.bind (removeAliasesLoop rest) fun n => M.pure (n + (if b then 1 else 0))

def removeAliases (aliases : List String) : M QResult :=
  M.bind (removeAliasesLoop aliases) fun n => M.pure ⟨n, []⟩

/-! ### remove -/

def removeLoop : List QId → M Nat
  | [] => M.pure 0
  | q :: rest => M.bind (remove q) fun b => M.bind (removeLoop rest) fun n => M.pure (n + (if b then 1 else 0))

def removeQuery (ids : List QId) : M QResult := M.bind (removeLoop ids) fun n => M.pure ⟨n, []⟩

def removeValuesLoop (keys : List Val) : List QId → M Nat
  | [] => M.pure 0
  | q :: rest => fun s =>
    match s.dbId q with
    | .error e => (.error e, s)
    | .ok id => (M.bind (removeKeys id keys) fun c => M.bind (removeValuesLoop keys rest) fun n => M.pure (c + n)) s

def removeValues (ids : List QId) (keys : List Val) : M QResult :=
  M.bind (removeValuesLoop keys ids) fun n => M.pure ⟨n, []⟩

def insertIndexQuery (k : Val) : M QResult := M.bind (insertIndex k) fun n => M.pure ⟨n, []⟩
def removeIndexQuery (k : Val) : M QResult := M.bind (removeIndex k) fun n => M.pure ⟨n, []⟩

/-! ### read-only queries -/

def selectValues (s : Db) (ids : List QId) (keys : List Val) : Except Err QResult :=
  match s.dbIds ids with
  | .error e => .error e
  | .ok dids =>
    let rec go : List Int → Except Err (List Elem)
      | [] => .ok []
      | id :: rest =>
        let values := if keys.isEmpty then s.kvOf id else valuesByKeys (s.kvOf id) keys
        if values.length ≠ keys.length ∧ keys.any (fun k => !(values.any (fun p => p.1 = k))) then
          .error Err.queryNotFound
        else match go rest with
          | .ok es => .ok (s.elemOf id values :: es)
          | .error e => .error e
    match go dids with
    | .ok es => .ok ⟨dids.length, es⟩
    | .error e => .error e

def valI64 (n : Nat) : Val := ⟨105, (toString n).toList.map Char.toNat⟩   -- token `i<n>`
def valU64 (n : Nat) : Val := ⟨117, (toString n).toList.map Char.toNat⟩   -- token `u<n>`
def hexDigits (n : Nat) : List Nat :=
  let d := fun (x : Nat) => if x < 10 then 48 + x else 87 + x
  [d (n / 16), d (n % 16)]
def valStr (str : String) : Val := ⟨115, match str.toUTF8.toList.flatMap (fun b => hexDigits b.toNat) with
  | [] => [45]
  | l => l⟩

def selectKeys (s : Db) (ids : List QId) : Except Err QResult :=
  match s.dbIds ids with
  | .error e => .error e
  | .ok dids => .ok ⟨dids.length, dids.map (fun id => s.elemOf id ((s.kvOf id).map (fun p => (p.1, valI64 0))))⟩

def selectKeyCount (s : Db) (ids : List QId) : Except Err QResult :=
  match s.dbIds ids with
  | .error e => .error e
  | .ok dids =>
    .ok ⟨(dids.map (fun id => (s.kvOf id).length)).foldl (· + ·) 0,
         dids.map (fun id => s.elemOf id [(valStr "key_count", valU64 (s.kvOf id).length)])⟩

def selectEdgeCount (s : Db) (ids : List QId) (from_ to_ : Bool) : Except Err QResult :=
  match s.dbIds ids with
  | .error e => .error e
  | .ok dids =>
    .ok ⟨(dids.map (fun id => s.edgeCount id from_ to_)).foldl (· + ·) 0,
         dids.map (fun id => s.elemOf id [(valStr "edge_count", valU64 (s.edgeCount id from_ to_))])⟩

def selectNodeCount (s : Db) : QResult := ⟨s.graph.nodeCount.toNat, []⟩

def selectIndexes (s : Db) : QResult :=
  ⟨s.indexes.length, [⟨0, 0, 0, s.indexes.map (fun p => (p.1, valU64 p.2.length))⟩]⟩

/-- `db.alias(id)` -/
def aliasOf (s : Db) (id : Int) : Except Err String :=
  match aliasKey s.aliases id with
  | some a => .ok a
  | none => .error Err.dbNotFound

def selectAliases (s : Db) : List QId → Except Err (List Elem)
  | [] => .ok []
  | q :: rest =>
    let e : Except Err Elem := match q with
      | .id i => (match s.aliasOf i with
        | .ok a => .ok (s.elemOf i [(valStr "alias", valStr a)])
        | .error e => .error e)
      | .alias a => (match s.dbId q with
        | .ok i => .ok (s.elemOf i [(valStr "alias", valStr a)])
        | .error e => .error e)
    match e with
    | .error e => .error e
    | .ok el => match selectAliases s rest with
      | .ok es => .ok (el :: es)
      | .error e => .error e

/-! ### the mutating queries as data, and a transaction body -/

inductive MQuery
  | insertNodes (count : Nat) (values : QValues) (aliases : List String) (ids : List QId)
  | insertEdges (from_ to_ ids : List QId) (values : QValues) (each : Bool)
  | insertValues (ids : List QId) (values : QValues)
  | insertAliases (ids : List QId) (aliases : List String)
  | remove (ids : List QId)
  | removeValues (ids : List QId) (keys : List Val)
  | removeAliases (aliases : List String)
  | insertIndex (k : Val)
  | removeIndex (k : Val)

def MQuery.run : MQuery → M QResult
  | .insertNodes c v a i => Db.insertNodes c v a i
  | .insertEdges f t i v e => Db.insertEdges f t i v e
  | .insertValues i v => Db.insertValues i v
  | .insertAliases i a => Db.insertAliases i a
  | .remove i => Db.removeQuery i
  | .removeValues i k => Db.removeValues i k
  | .removeAliases a => Db.removeAliases a
  | .insertIndex k => Db.insertIndexQuery k
  | .removeIndex k => Db.removeIndexQuery k

/-- the same queries on the unchanged code (legacy `insert_alias` / `insert_new_alias` paths) -/
def MQuery.runLegacy : MQuery → M QResult
  | .insertNodes c v a i => Db.insertNodesLegacy c v a i
  | .insertAliases i a => Db.insertAliasesLegacy i a
  | q => q.run

/-- a transaction closure running the queries with `?` -/
def runAll : List MQuery → M Unit
  | [] => M.pure ()
  | q :: qs => M.bind q.run fun _ => runAll qs

def runAllLegacy : List MQuery → M Unit
  | [] => M.pure ()
  | q :: qs => M.bind q.runLegacy fun _ => runAllLegacy qs

/-! ### transactions -/

/-- `transaction_mut` around a closure that yields `r`: commit on `Ok`, rollback on `Err`.
    `none` = `rollback` itself failed or panicked. -/
def finish {α} (r : Except Err α × Db) : Option (Except Err α × Db) :=
  match r with
  | (.ok a, s) => some (.ok a, s.commit)
  | (.error e, s) => match s.rollback with
    | some s' => some (.error e, s')
    | none => none

/-- `exec_mut` -/
def execMut {α} (m : M α) (s : Db) : Option (Except Err α × Db) := finish (m s)

end Db
end AgdbDb
