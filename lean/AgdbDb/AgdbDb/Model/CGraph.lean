/-
  `graph.rs` with its real data representation: four `i64` vectors `from`, `to`, `from_meta`, `to_meta`
  (`GraphDataStorage`), slot 0 reserved:
    node slot i : from[i] / to[i] = index of the first outgoing / incoming edge (0 = none),
                  from_meta[i] / to_meta[i] = number of outgoing / incoming edges
    edge slot e : from[e] = -origin, to[e] = -destination,
                  from_meta[e] / to_meta[e] = next edge in the origin's outgoing / destination's incoming chain (0 = end)
    free slot f : from_meta[f] = -(next free slot) or i64::MIN at the end of the free list, other three 0
    from_meta[0] = -(first free slot) or i64::MIN;  to_meta[0] = node count.
  Every function mirrors the Rust function of the same name; data dependent loops take fuel.
-/
import AgdbDb.Model.Basic
namespace AgdbDb

def minI : Int := -9223372036854775808

def rd (a : List Int) (i : Nat) : Int := a.getD i 0
def wr (a : List Int) (i : Nat) (v : Int) : List Int := a.set i v

structure CGraph where
  from_ : List Int
  to_ : List Int
  fromMeta : List Int
  toMeta : List Int
deriving Repr, DecidableEq

inductive CErr
  | invalidIndex
  | outOfFuel
deriving Repr, DecidableEq

namespace CGraph

/-- `GraphDataStorage::new` -/
def empty : CGraph := ⟨[0], [0], [minI], [0]⟩

def capacity (c : CGraph) : Nat := c.from_.length

/-- `grow` -/
def grow (c : CGraph) : CGraph := ⟨c.from_ ++ [0], c.to_ ++ [0], c.fromMeta ++ [0], c.toMeta ++ [0]⟩

/-- `get_free_index` -/
def getFreeIndex (c : CGraph) : Nat × CGraph :=
  let index := rd c.fromMeta 0
  if index = minI then (c.capacity, c.grow)
  else
    let i := (-index).toNat
    let next := rd c.fromMeta i
    (i, { c with fromMeta := wr (wr c.fromMeta 0 next) i 0 })

/-- `free_index` -/
def freeIndex (c : CGraph) (i : Nat) : CGraph :=
  let nextFree := rd c.fromMeta 0
  { from_ := wr c.from_ i 0
    to_ := wr c.to_ i 0
    fromMeta := wr (wr c.fromMeta i nextFree) 0 (-(i : Int))
    toMeta := wr c.toMeta i 0 }

/-- `is_valid_index && is_valid_node` -/
def validNode (c : CGraph) (i : Nat) : Bool :=
  i ≠ 0 && decide (i < c.capacity) && !(decide (rd c.fromMeta i < 0)) && decide (0 ≤ rd c.from_ i)

/-- `is_valid_index && is_valid_edge` -/
def validEdge (c : CGraph) (i : Nat) : Bool :=
  i ≠ 0 && decide (i < c.capacity) && !(decide (rd c.fromMeta i < 0)) && decide (rd c.from_ i < 0)

/-- `insert_node` -/
def insertNode (c : CGraph) : Nat × CGraph :=
  let r := c.getFreeIndex
  let count := rd r.2.toMeta 0
  (r.1, { r.2 with toMeta := wr r.2.toMeta 0 (count + 1) })

/-- `update_from_edge` -/
def updateFromEdge (c : CGraph) (node edge : Nat) : CGraph :=
  let next := rd c.from_ node
  let fm := wr c.fromMeta edge next
  let fr := wr c.from_ node (edge : Int)
  { c with fromMeta := wr fm node (rd fm node + 1), from_ := fr }

/-- `update_to_edge` -/
def updateToEdge (c : CGraph) (node edge : Nat) : CGraph :=
  let next := rd c.to_ node
  let tm := wr c.toMeta edge next
  let t := wr c.to_ node (edge : Int)
  { c with toMeta := wr tm node (rd tm node + 1), to_ := t }

/-- `insert_edge` (with `set_edge`) -/
def insertEdge (c : CGraph) (s d : Nat) : Except CErr (Nat × CGraph) :=
  if c.validNode s && c.validNode d then
    let r := c.getFreeIndex
    let c1 := { r.2 with from_ := wr r.2.from_ r.1 (-(s : Int)), to_ := wr r.2.to_ r.1 (-(d : Int)) }
    .ok (r.1, (c1.updateFromEdge s r.1).updateToEdge d r.1)
  else .error CErr.invalidIndex

/-- the `while` loop of `remove_from_edge` / `remove_to_edge`: walk the chain from `prev` until the element whose
    successor is `target` -/
def findPrev (next : List Int) (target : Int) : Nat → Nat → Option Nat
  | 0, _ => none
  | fuel + 1, prev => if rd next prev = target then some prev else findPrev next target fuel (rd next prev).toNat

/-- the common body of `remove_from_edge` / `remove_to_edge`: unlink `e` from the chain of `node` whose head is in
    `head[node]` and whose links are in `next`; the count in `next[node]` goes down by one -/
def unlink (head next : List Int) (cap node e : Nat) : Except CErr (List Int × List Int) :=
  let first := rd head node
  let nx := rd next e
  let r : Except CErr (List Int × List Int) :=
    if first = (e : Int) then .ok (wr head node nx, next)
    else match findPrev next (e : Int) cap first.toNat with
      | some prev => .ok (head, wr next prev nx)
      | none => .error CErr.outOfFuel
  match r with
  | .ok (h, n) => .ok (h, wr n node (rd n node - 1))
  | .error x => .error x

/-- `remove_from_edge` -/
def removeFromEdge (c : CGraph) (e : Nat) : Except CErr CGraph :=
  match unlink c.from_ c.fromMeta c.capacity (-(rd c.from_ e)).toNat e with
  | .ok (h, n) => .ok { c with from_ := h, fromMeta := n }
  | .error x => .error x

/-- `remove_to_edge` -/
def removeToEdge (c : CGraph) (e : Nat) : Except CErr CGraph :=
  match unlink c.to_ c.toMeta c.capacity (-(rd c.to_ e)).toNat e with
  | .ok (h, n) => .ok { c with to_ := h, toMeta := n }
  | .error x => .error x

/-- `remove_edge` -/
def removeEdge (c : CGraph) (e : Nat) : Except CErr CGraph :=
  if c.validEdge e then
    match c.removeFromEdge e with
    | .error x => .error x
    | .ok c1 => match c1.removeToEdge e with
      | .error x => .error x
      | .ok c2 => .ok (c2.freeIndex e)
  else .ok c

/-- `remove_from_edges`: unlink every outgoing edge from its destination's incoming chain and free it -/
def removeFromEdges (c : CGraph) : Nat → Nat → Except CErr CGraph
  | 0, _ => .error CErr.outOfFuel
  | fuel + 1, e =>
    if e = 0 then .ok c
    else match c.removeToEdge e with
      | .error x => .error x
      | .ok c1 =>
        let next := (rd c1.fromMeta e).toNat
        removeFromEdges (c1.freeIndex e) fuel next

/-- `remove_to_edges` -/
def removeToEdges (c : CGraph) : Nat → Nat → Except CErr CGraph
  | 0, _ => .error CErr.outOfFuel
  | fuel + 1, e =>
    if e = 0 then .ok c
    else match c.removeFromEdge e with
      | .error x => .error x
      | .ok c1 =>
        let next := (rd c1.toMeta e).toNat
        removeToEdges (c1.freeIndex e) fuel next

/-- `remove_node` -/
def removeNode (c : CGraph) (n : Nat) : Except CErr CGraph :=
  if c.validNode n then
    match c.removeFromEdges (c.capacity + 1) (rd c.from_ n).toNat with
    | .error x => .error x
    | .ok c1 => match c1.removeToEdges (c1.capacity + 1) (rd c1.to_ n).toNat with
      | .error x => .error x
      | .ok c2 =>
        let c3 := c2.freeIndex n
        .ok { c3 with toMeta := wr c3.toMeta 0 (rd c3.toMeta 0 - 1) }
  else .ok c

end CGraph
end AgdbDb
