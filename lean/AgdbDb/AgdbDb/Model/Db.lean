/-
  `DbImpl` (db.rs): graph + aliases + indexes + key-values + undo stack, the mutations that record
  `Command`s, `commit` and `rollback`.  The model mirrors the code with the two proposed C13 fixes applied
  (`rollback` does not return early after `ReplaceKeyValue`; `insert_alias` records the previous owner of a
  re-assigned alias).  The unfixed functions are kept as `…Legacy`.
-/
import AgdbDb.Model.Graph
namespace AgdbDb

/-- `command.rs` -/
inductive Cmd
  | insertAlias (alias : String) (id : Int)
  | insertEdge (src dst : Int)
  | insertIndex (key : Val)
  | insertToIndex (key value : Val) (id : Int)
  | insertNode
  | insertKeyValue (id : Int) (kv : KV)
  | removeAlias (alias : String)
  | removeEdge (index : Int)
  | removeIndex (key : Val)
  | removeKeyValue (id : Int) (kv : KV)
  | removeNode (index : Int)
  | replaceKeyValue (id : Int) (kv : KV)
deriving DecidableEq, Repr

/-- `DbImpl`; `undo` holds the undo stack with the most recent command FIRST. -/
structure Db where
  graph : Graph
  aliases : Aliases
  indexes : Indexes
  values : List (List KV)
  undo : List Cmd
deriving Repr

def Db.empty : Db := ⟨Graph.empty, [], [], [], []⟩

/-- a query-level computation: the state survives an error (`?` leaves partial effects behind) -/
abbrev M (α : Type) := Db → Except Err α × Db

@[inline] def M.pure {α} (a : α) : M α := fun s => (.ok a, s)
@[inline] def M.bind {α β} (m : M α) (f : α → M β) : M β := fun s =>
  match m s with
  | (.ok a, s') => f a s'
  | (.error e, s') => (.error e, s')
@[inline] def M.fail {α} (e : Err) : M α := fun s => (.error e, s)

instance : Monad M where
  pure := M.pure
  bind := M.bind

/-- run `f` on every element, stopping at the first error -/
def M.forEach {α} : List α → (α → M Unit) → M Unit
  | [], _ => M.pure ()
  | a :: as, f => M.bind (f a) (fun _ => M.forEach as f)

inductive QId
  | id (i : Int)
  | alias (a : String)
deriving DecidableEq, Repr

namespace Db

/-! ### read accessors -/

/-- `graph_index` -/
def graphIndex (s : Db) (id : Int) : Except Err Int :=
  if id < 0 then (if s.graph.isEdge id.natAbs then .ok id else .error Err.dbNotFound)
  else if 0 < id then (if s.graph.isNode id.natAbs then .ok id else .error Err.dbNotFound)
  else .error Err.dbNotFound

/-- `db_id` -/
def dbId (s : Db) : QId → Except Err Int
  | .id i => s.graphIndex i
  | .alias a => match aliasValue s.aliases a with
    | some id => .ok id
    | none => .error Err.dbNotFound

/-- `from_id`: an edge's origin; for a node the first edge of its outgoing chain (0 if none) -/
def fromId (s : Db) (id : Int) : Int :=
  if id < 0 then (s.graph.srcOf id.natAbs : Int)
  else match s.graph.outOf id.natAbs with
    | [] => 0
    | e :: _ => -(e : Int)

def toId (s : Db) (id : Int) : Int :=
  if id < 0 then (s.graph.dstOf id.natAbs : Int)
  else match s.graph.inOf id.natAbs with
    | [] => 0
    | e :: _ => -(e : Int)

def kvOf (s : Db) (id : Int) : List KV := kvGet s.values id.natAbs

/-- `edge_count` -/
def edgeCount (s : Db) (id : Int) (from_ to_ : Bool) : Nat :=
  if s.graph.isNode id.natAbs then
    (if from_ then (s.graph.outOf id.natAbs).length else 0) + (if to_ then (s.graph.inOf id.natAbs).length else 0)
  else 0

/-- sign that `insert_index` gives to the element living in slot `i` -/
def idOfSlot (g : Graph) (i : Nat) : Int := if g.isNode i then (i : Int) else -(i : Int)

/-! ### mutations (each records its undo commands) -/

/-- `insert_node` -/
def insertNode : M Int := fun s =>
  let r := s.graph.insertNode
  (.ok (r.1 : Int), { s with graph := r.2, undo := Cmd.removeNode r.1 :: s.undo })

/-- `insert_edge` -/
def insertEdge (f t : Int) : M Int := fun s =>
  match s.graph.insertEdge f.natAbs t.natAbs with
  | .ok r => (.ok (-(r.1 : Int)), { s with graph := r.2, undo := Cmd.removeEdge (-(r.1 : Int)) :: s.undo })
  | .error e => (.error e, s)

/-- `insert_alias` with the C13b fix: the previous owner of `a` gets an `InsertAlias` undo record -/
def insertAlias (id : Int) (a : String) : M Unit := fun s =>
  let (al1, u1) := match aliasKey s.aliases id with
    | some old => (aliasRemoveKey s.aliases old, Cmd.insertAlias old id :: s.undo)
    | none => (s.aliases, s.undo)
  let u2 := match aliasValue al1 a with
    | some owner => Cmd.insertAlias a owner :: u1
    | none => u1
  (.ok (), { s with aliases := aliasInsert al1 a id, undo := Cmd.removeAlias a :: u2 })

/-- `insert_alias` as in the unchanged code (no record for the previous owner) -/
def insertAliasLegacy (id : Int) (a : String) : M Unit := fun s =>
  let (al1, u1) := match aliasKey s.aliases id with
    | some old => (aliasRemoveKey s.aliases old, Cmd.insertAlias old id :: s.undo)
    | none => (s.aliases, s.undo)
  (.ok (), { s with aliases := aliasInsert al1 a id, undo := Cmd.removeAlias a :: u1 })

/-- `insert_new_alias` -/
def insertNewAlias (id : Int) (a : String) : M Unit := fun s =>
  (.ok (), { s with aliases := aliasInsert s.aliases a id, undo := Cmd.removeAlias a :: s.undo })

/-- `insert_key_value` -/
def insertKeyValue (id : Int) (kv : KV) : M Unit := fun s =>
  (.ok (), { s with
      indexes := ixUpdate s.indexes kv.1 (ixIns kv.2 id)
      undo := Cmd.removeKeyValue id kv :: s.undo
      values := kvSet s.values id.natAbs (kvGet s.values id.natAbs ++ [kv]) })

/-- `insert_or_replace_key_value` -/
def insertOrReplaceKeyValue (id : Int) (kv : KV) : M Unit := fun s =>
  match kvFind (kvGet s.values id.natAbs) kv.1 with
  | some old =>
    (.ok (), { s with
        values := kvSet s.values id.natAbs (kvReplace (kvGet s.values id.natAbs) kv.1 kv.2)
        indexes := ixUpdate s.indexes kv.1 (fun l => ixIns kv.2 id (ixDel old id l))
        undo := Cmd.replaceKeyValue id (kv.1, old) :: s.undo })
  | none =>
    (.ok (), { s with
        values := kvSet s.values id.natAbs (kvGet s.values id.natAbs ++ [kv])
        indexes := ixUpdate s.indexes kv.1 (ixIns kv.2 id)
        undo := Cmd.removeKeyValue id kv :: s.undo })

/-- one iteration of the loop of `remove_keys` -/
def removeKeyValue1 (id : Int) (kv : KV) (s : Db) : Db :=
  { s with
      indexes := ixUpdate s.indexes kv.1 (ixDel kv.2 id)
      values := kvSet s.values id.natAbs (kvErase (kvGet s.values id.natAbs) kv.1)
      undo := Cmd.insertKeyValue id kv :: s.undo }

/-- `remove_keys` (iterates over a snapshot of the element's pairs) -/
def removeKeys (id : Int) (keys : List Val) : M Nat := fun s =>
  let hit := (kvGet s.values id.natAbs).filter (fun kv => kv.1 ∈ keys)
  (.ok hit.length, hit.foldl (fun s kv => removeKeyValue1 id kv s) s)

/-- `remove_all_values` -/
def removeAllValues (id : Int) (s : Db) : Db :=
  let kvs := kvGet s.values id.natAbs
  { s with
      indexes := kvs.foldl (fun ix kv => ixUpdate ix kv.1 (ixDel kv.2 id)) s.indexes
      undo := (kvs.map (Cmd.insertKeyValue id)).reverse ++ s.undo
      values := kvSet s.values id.natAbs [] }

/-- `DbImpl::remove_edge` followed by `remove_all_values` of the edge (also one iteration of `remove_node`'s loop) -/
def removeEdgeFull (e : Nat) (s : Db) : Db :=
  let s1 := { s with
      graph := s.graph.removeEdge e
      undo := Cmd.insertEdge (s.graph.srcOf e) (s.graph.dstOf e) :: s.undo }
  removeAllValues (-(e : Int)) s1

/-- `node_edges`: outgoing chain, then the incoming chain without self-loops -/
def nodeEdges (g : Graph) (n : Nat) : List Nat :=
  g.outOf n ++ (g.inOf n).filter (fun e => g.srcOf e ≠ n)

/-- removal of the alias inside `remove_node` -/
def dropAlias (id : Int) (alias : Option String) (s : Db) : Db :=
  match alias with
  | some a => { s with aliases := aliasRemoveKey s.aliases a, undo := Cmd.insertAlias a id :: s.undo }
  | none => s

/-- `graph.remove_node` + `InsertNode` record + `remove_all_values` of the node -/
def removeBareNode (n : Nat) (s : Db) : Db :=
  removeAllValues (n : Int) { s with graph := s.graph.removeNode n, undo := Cmd.insertNode :: s.undo }

/-- `DbImpl::remove_node` + `remove_all_values(db_id)`.
    `node_edges` fails with `Db.NotFound` when the slot is not a node (after the alias was already dropped). -/
def removeNodeFull (id : Int) (alias : Option String) : M Unit := fun s =>
  let s1 := dropAlias id alias s
  if s1.graph.isNode id.natAbs then
    let s2 := (nodeEdges s1.graph id.natAbs).foldl (fun s e => removeEdgeFull e s) s1
    (.ok (), removeBareNode id.natAbs s2)
  else (.error Err.dbNotFound, s1)

/-- `remove_id` -/
def removeId (id : Int) : M Bool := fun s =>
  match s.graphIndex id with
  | .ok _ =>
    if 0 < id then
      match removeNodeFull id (aliasKey s.aliases id) s with
      | (.ok _, s') => (.ok true, s')
      | (.error e, s') => (.error e, s')
    else (.ok true, removeEdgeFull id.natAbs s)
  | .error _ => (.ok false, s)

/-- `remove` -/
def remove : QId → M Bool
  | .id i => removeId i
  | .alias a => fun s =>
    match aliasValue s.aliases a with
    | some id =>
      match removeNodeFull id (some a) s with
      | (.ok _, s') => (.ok true, s')
      | (.error e, s') => (.error e, s')
    | none => (.ok false, s)

/-- `remove_alias` -/
def removeAlias (a : String) : M Bool := fun s =>
  match aliasValue s.aliases a with
  | some id => (.ok true, { s with aliases := aliasRemoveKey s.aliases a, undo := Cmd.insertAlias a id :: s.undo })
  | none => (.ok false, s)

/-- the pairs `insert_index` back-fills for key `k`: every element slot `1 ≤ i < values.len()`, sign from the graph -/
def backfill (s : Db) (k : Val) : IxMap :=
  (List.range s.values.length).flatMap (fun i =>
    if i = 0 then [] else
      ((kvGet s.values i).filter (fun kv => kv.1 = k)).map (fun kv => (kv.2, idOfSlot s.graph i)))

/-- `insert_index` -/
def insertIndex (k : Val) : M Nat := fun s =>
  match ixFind s.indexes k with
  | some _ => (.error Err.dbNotAllowed, s)
  | none =>
    let l := backfill s k
    (.ok l.length, { s with indexes := s.indexes ++ [(k, l)], undo := Cmd.removeIndex k :: s.undo })

/-- `remove_index` -/
def removeIndex (k : Val) : M Nat := fun s =>
  match ixFind s.indexes k with
  | some l =>
    (.ok l.length, { s with
        indexes := ixRemove s.indexes k
        undo := Cmd.insertIndex k :: ((l.map (fun p => Cmd.insertToIndex k p.1 p.2)).reverse ++ s.undo) })
  | none => (.ok 0, s)

/-- `search_index` -/
def searchIndex (s : Db) (k v : Val) : Except Err (List Int) :=
  match ixFind s.indexes k with
  | some l => .ok (ixValues l v)
  | none => .error Err.dbNotFound

/-! ### commit / rollback -/

/-- one arm of the `match` in `rollback`; `none` = the arm fails (`?`) or panics (`expect`) -/
def undoCmd (c : Cmd) (s : Db) : Option Db :=
  match c with
  | .insertAlias a id => some { s with aliases := aliasInsert s.aliases a id }
  | .insertEdge f t =>
    match s.graph.insertEdge f.natAbs t.natAbs with
    | .ok r => some { s with graph := r.2 }
    | .error _ => none
  | .insertIndex k => some { s with indexes := s.indexes ++ [(k, [])] }
  | .insertToIndex k v id =>
    match ixFind s.indexes k with
    | some _ => some { s with indexes := ixUpdate s.indexes k (ixIns v id) }
    | none => none
  | .insertKeyValue id kv =>
    some { s with
      indexes := ixUpdate s.indexes kv.1 (ixIns kv.2 id)
      values := kvSet s.values id.natAbs (kvGet s.values id.natAbs ++ [kv]) }
  | .insertNode => some { s with graph := s.graph.insertNode.2 }
  | .removeAlias a => some { s with aliases := aliasRemoveKey s.aliases a }
  | .removeEdge e => some { s with graph := s.graph.removeEdge e.natAbs }
  | .removeIndex k => some { s with indexes := ixRemove s.indexes k }
  | .removeKeyValue id kv =>
    some { s with
      indexes := ixUpdate s.indexes kv.1 (ixDel kv.2 id)
      values := kvSet s.values id.natAbs (kvErase (kvGet s.values id.natAbs) kv.1) }
  | .removeNode n => some { s with graph := s.graph.removeNode n.natAbs }
  | .replaceKeyValue id kv =>
    match kvFind (kvGet s.values id.natAbs) kv.1 with
    | some cur =>
      some { s with
        values := kvSet s.values id.natAbs (kvReplace (kvGet s.values id.natAbs) kv.1 kv.2)
        indexes := ixUpdate s.indexes kv.1 (fun l => ixIns kv.2 id (ixDel cur id l)) }
    | none => none

def undoAll : List Cmd → Db → Option Db
  | [], s => some s
  | c :: cs, s => match undoCmd c s with
    | some s' => undoAll cs s'
    | none => none

/-- `rollback` (fixed): replay the whole undo stack, newest first -/
def rollback (s : Db) : Option Db := undoAll s.undo { s with undo := [] }

/-- `rollback` of the unchanged code: `return Ok(())` inside the `ReplaceKeyValue` arm ends the replay -/
def undoAllLegacy : List Cmd → Db → Option Db
  | [], s => some s
  | c :: cs, s => match undoCmd c s with
    | some s' => (match c with
      | .replaceKeyValue _ _ => some s'
      | _ => undoAllLegacy cs s')
    | none => none

def rollbackLegacy (s : Db) : Option Db := undoAllLegacy s.undo { s with undo := [] }

/-- `commit` -/
def commit (s : Db) : Db := { s with undo := [] }

end Db
end AgdbDb
