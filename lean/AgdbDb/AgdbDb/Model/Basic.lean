/-
  Basic data of the `db` model: values, errors, the per-element key-value store,
  the alias bijection and the index multimaps, each with the operations of the Rust code
  (`db/db_key_value.rs`, `collections/indexed_map.rs`, `db/db_index.rs`, `collections/multi_map.rs`)
  at the level of abstraction stated in notes/db.md.
-/
namespace AgdbDb

/-- `DbValue`, simplified to (type tag, payload).  The model only ever compares values for equality. -/
structure Val where
  tag : Nat
  bytes : List Nat
deriving DecidableEq, Repr, Inhabited

abbrev KV := Val × Val

/-- `DbError` reduced to category + type. -/
inductive Err
  | dbNotFound
  | dbNotAllowed
  | graphInvalidIndex
  | queryNotEnoughData
  | queryNotAllowed
  | queryNotFound
deriving DecidableEq, Repr

def Err.toString : Err → String
  | .dbNotFound => "err:Db.NotFound"
  | .dbNotAllowed => "err:Db.NotAllowed"
  | .graphInvalidIndex => "err:Graph.InvalidIndex"
  | .queryNotEnoughData => "err:Query.NotEnoughData"
  | .queryNotAllowed => "err:Query.NotAllowed"
  | .queryNotFound => "err:Query.NotFound"

/-! ## `DbKeyValues`: a vector indexed by `|id|` of key-value vectors.
    The outer vector is modelled as a total map with default `[]` (an absent inner vector and an empty one
    are not distinguishable through any query). -/

def kvGet (vs : List (List KV)) (i : Nat) : List KV := vs.getD i []

def kvSet (vs : List (List KV)) (i : Nat) (l : List KV) : List (List KV) :=
  if i < vs.length then vs.set i l else vs ++ List.replicate (i - vs.length) [] ++ [l]

/-- `DbVec::replace` at the position of the first pair with key `k`. -/
def kvReplace : List KV → Val → Val → List KV
  | [], _, _ => []
  | (k', v') :: rest, k, v => if k' = k then (k, v) :: rest else (k', v') :: kvReplace rest k v

/-- first pair with key `k` (`iter().find(|kv| kv.key == k)`) -/
def kvFind : List KV → Val → Option Val
  | [], _ => none
  | (k', v') :: rest, k => if k' = k then some v' else kvFind rest k

/-- `DbVec::remove` of the first pair with key `k` (order of the others kept). -/
def kvErase : List KV → Val → List KV
  | [], _ => []
  | (k', v') :: rest, k => if k' = k then rest else (k', v') :: kvErase rest k

/-- `DbKeyValues::values_by_keys`: pairs whose key is requested, ordered by the position of the key's
    first occurrence in the request (stable). -/
def valuesByKeysAux (kvs : List KV) : List Val → List Val → List KV
  | [], _ => []
  | k :: ks, seen =>
    (if k ∈ seen then [] else kvs.filter (fun p => p.1 = k)) ++ valuesByKeysAux kvs ks (k :: seen)

def valuesByKeys (kvs : List KV) (keys : List Val) : List KV := valuesByKeysAux kvs keys []

/-! ## aliases: `DbIndexedMap<String, DbId>` as an association list kept bijective by `insert` -/

abbrev Aliases := List (String × Int)

def aliasValue (al : Aliases) (a : String) : Option Int := al.lookup a

def aliasKey : Aliases → Int → Option String
  | [], _ => none
  | (a, i) :: rest, id => if i = id then some a else aliasKey rest id

/-- `IndexedMapImpl::insert`: the previous holder of the key and the previous key of the value both go. -/
def aliasInsert (al : Aliases) (a : String) (id : Int) : Aliases :=
  (a, id) :: al.filter (fun p => p.1 ≠ a ∧ p.2 ≠ id)

/-- `IndexedMapImpl::remove_key` -/
def aliasRemoveKey (al : Aliases) (a : String) : Aliases := al.filter (fun p => p.1 ≠ a)

/-! ## indexes: `DbIndexes` = vector of (key, multimap value ↦ ids); the multimap through its multiset semantics -/

abbrev IxMap := List (Val × Int)
abbrev Indexes := List (Val × IxMap)

def ixFind : Indexes → Val → Option IxMap
  | [], _ => none
  | (k', l) :: rest, k => if k' = k then some l else ixFind rest k

/-- apply `f` to the multimap of the first index with key `k` (`index_mut(k)`), nothing if absent -/
def ixUpdate : Indexes → Val → (IxMap → IxMap) → Indexes
  | [], _, _ => []
  | (k', l) :: rest, k, f => if k' = k then (k', f l) :: rest else (k', l) :: ixUpdate rest k f

/-- `DbIndexes::remove`: the first index with that key -/
def ixRemove : Indexes → Val → Indexes
  | [], _ => []
  | (k', l) :: rest, k => if k' = k then rest else (k', l) :: ixRemove rest k

def ixIns (v : Val) (id : Int) (l : IxMap) : IxMap := l ++ [(v, id)]
def ixDel (v : Val) (id : Int) (l : IxMap) : IxMap := l.erase (v, id)
def ixValues (l : IxMap) (v : Val) : List Int := l.filterMap (fun p => if p.1 = v then some p.2 else none)

end AgdbDb
