/-
  C08 — graph mutations behave like an abstract directed multigraph.

  Model: `Model/Graph.lean` renders `graph.rs` at list level: one slot per index (free / node with its outgoing and
  incoming chains in list order / edge with endpoints), the LIFO free stack and the node count; `Model/Db.lean` has the
  `DbImpl` cascade.  The abstract multigraph is the function `Graph.kind : index ↦ free | node | edge s d`
  together with the id allocation sequence `Graph.alloc`.
  What is NOT proved here: the step from the four `i64` arrays (`from/to/from_meta/to_meta`, pointer-linked
  chains) to `Model/Graph.lean`; see `C08_arrays_note`.
-/
import AgdbDb.Props.C13
namespace AgdbDb
open Db

/-- Refinement: each graph mutation, on a well-formed graph, acts on the abstract multigraph as the
    corresponding multigraph operation, draws its id from the allocation sequence, and keeps the representation
    invariant (chains duplicate-free and containing exactly the edges with that origin / destination — so chain
    lengths are the out/in degrees with self-loops on both sides —, free stack = exactly the free slots). -/
theorem C08_refines (g : Graph) (w : g.WF) :
    -- insert_node
    (let r := g.insertNode
     r.1 = g.alloc 0 ∧ (∀ j, r.2.kind j = if j = r.1 then .node else g.kind j) ∧
     (∀ n, r.2.alloc n = g.alloc (n + 1)) ∧ r.2.nodeCount = g.nodeCount + 1 ∧ r.2.WF) ∧
    -- insert_edge between two nodes
    (∀ s d, g.kind s = .node → g.kind d = .node → ∃ r, g.insertEdge s d = .ok r ∧ r.1 = g.alloc 0 ∧
      (∀ j, r.2.kind j = if j = r.1 then .edge s d else g.kind j) ∧ (∀ n, r.2.alloc n = g.alloc (n + 1)) ∧
      r.2.nodeCount = g.nodeCount ∧ r.2.WF) ∧
    -- remove_edge
    (∀ e s d, g.kind e = .edge s d →
      (∀ j, (g.removeEdge e).kind j = if j = e then .free else g.kind j) ∧
      (g.removeEdge e).alloc 0 = e ∧ (∀ n, (g.removeEdge e).alloc (n + 1) = g.alloc n) ∧
      (g.removeEdge e).nodeCount = g.nodeCount ∧ (g.removeEdge e).WF) ∧
    -- remove_node (after the `DbImpl` cascade has removed the incident edges)
    (∀ n, g.kind n = .node → (∀ e s d, g.kind e = .edge s d → s ≠ n ∧ d ≠ n) →
      (∀ j, (g.removeNode n).kind j = if j = n then .free else g.kind j) ∧
      (g.removeNode n).alloc 0 = n ∧ (∀ m, (g.removeNode n).alloc (m + 1) = g.alloc m) ∧
      (g.removeNode n).nodeCount = g.nodeCount - 1 ∧ (g.removeNode n).WF) := by
  refine ⟨?_, ?_, ?_, ?_⟩
  · obtain ⟨h1, _, _, h4, h5, h6, h7⟩ := Graph.insertNode_spec g w
    exact ⟨h1, h4, h5, h6, h7⟩
  · intro s d hs hd
    obtain ⟨r, hr, h1, _, _, h4, h5, h6, h7⟩ := Graph.insertEdge_spec g w s d hs hd
    exact ⟨r, hr, h1, h4, h5, h6, h7⟩
  · intro e s d he
    obtain ⟨h1, h2, h3, h4⟩ := Graph.removeEdge_spec g w e s d he
    exact ⟨h1, h2 0, fun n => h2 (n + 1), h3, h4⟩
  · intro n hn hne
    obtain ⟨h1, h2, h3, h4⟩ := Graph.removeNode_spec g w n hn hne
    exact ⟨h1, h2 0, fun m => h2 (m + 1), h3, h4⟩

/-- The representation invariant holds after any history of queries (also failing ones) and after rollback. -/
theorem C08_wf_invariant (qs : List MQuery) (hd : ∀ q ∈ qs, q.distinctKeys) (s : Db) (hi : s.Inv) :
    (runAll qs s).2.graph.WF := by
  have hsafe : ∀ (qs : List MQuery), (∀ q ∈ qs, q.distinctKeys) → Safe (runAll qs) := by
    intro qs
    induction qs with
    | nil => intro _; exact Safe.pure ()
    | cons q rest ih =>
      intro h
      refine Safe.bind (safe_run q ?_) (fun _ => ih (fun q' hq' => h q' (List.mem_cons_of_mem _ hq')))
      have := h q (by simp)
      cases q <;> first | exact this | trivial
  exact (hsafe qs hd s hi).1.sinv.wf

/-- Nodes carry positive ids, edges negative ids, and a new element never receives an id currently in use. -/
theorem C08_id_signs_fresh (s : Db) (hi : s.Inv) :
    (∀ id s', Db.insertNode s = (.ok id, s') → 0 < id ∧ s.graph.kind id.natAbs = .free ∧ s'.graph.kind id.natAbs = .node) ∧
    (∀ f t id s', Db.insertEdge f t s = (.ok id, s') → id < 0 ∧ s.graph.kind id.natAbs = .free ∧
        s'.graph.kind id.natAbs = .edge f.natAbs t.natAbs) := by
  constructor
  · intro id s' h
    obtain ⟨_, hpos, hfree, hk, _⟩ := Graph.insertNode_spec s.graph hi.sinv.wf
    have : id = (s.graph.insertNode.1 : Int) ∧ s'.graph = s.graph.insertNode.2 := by
      unfold Db.insertNode at h; cases h; exact ⟨rfl, rfl⟩
    obtain ⟨h1, h2⟩ := this
    subst h1
    refine ⟨by omega, by simpa using hfree, ?_⟩
    rw [h2, Int.natAbs_natCast, hk]; simp
  · intro f t id s' h
    by_cases hkk : s.graph.kind f.natAbs = .node ∧ s.graph.kind t.natAbs = .node
    · obtain ⟨r, hr, _, hpos, hfree, hk, _⟩ := Graph.insertEdge_spec s.graph hi.sinv.wf f.natAbs t.natAbs hkk.1 hkk.2
      unfold Db.insertEdge at h; rw [hr] at h; cases h
      refine ⟨by omega, by simpa using hfree, ?_⟩
      show r.2.kind (-(r.1 : Int)).natAbs = _
      rw [Int.natAbs_neg, Int.natAbs_natCast, hk]; simp
    · have := Graph.insertEdge_error s.graph f.natAbs t.natAbs hkk
      unfold Db.insertEdge at h; rw [this] at h; cases h

/-- Inserting an edge from or to a missing node fails without effect (graph level, and the whole query when an
    origin / destination id does not resolve). -/
theorem C08_insert_edge_missing (s : Db) (f t : Int)
    (h : ¬ (s.graph.kind f.natAbs = .node ∧ s.graph.kind t.natAbs = .node)) :
    Db.insertEdge f t s = (.error Err.graphInvalidIndex, s) := by
  unfold Db.insertEdge; rw [Graph.insertEdge_error _ _ _ h]

theorem C08_insert_edges_unresolved (s : Db) (from_ to_ : List QId) (values : QValues) (each : Bool) (e : Err)
    (h : s.dbIds from_ = .error e ∨ (∃ fs, s.dbIds from_ = .ok fs ∧ s.dbIds to_ = .error e)) :
    Db.insertEdges from_ to_ [] values each s = (.error e, s) := by
  unfold Db.insertEdges
  simp only [Db.dbIds, List.isEmpty_nil, Bool.not_true, Bool.false_eq_true, if_false]
  rcases h with h | ⟨fs, h1, h2⟩
  · rw [h]
  · rw [h1]; simp only; rw [h2]

/-- Removing a node also removes all its incoming and outgoing edges together with their properties:
    after a successful removal the node's slot is free, no live edge has a free endpoint, and free slots
    carry no properties (so every edge that was incident to the node is gone with its values). -/
theorem C08_remove_node_cascade (s : Db) (hi : s.Inv) (id : Int) (hpos : 0 < id)
    (hok : (Db.removeId id s).1 = .ok true) :
    let s' := (Db.removeId id s).2
    s'.graph.kind id.natAbs = .free ∧
    (∀ e a b, s'.graph.kind e = .edge a b → s'.graph.kind a = .node ∧ s'.graph.kind b = .node) ∧
    (∀ i, s'.graph.kind i = .free → kvGet s'.values i = []) := by
  have hfwd := fwd_removeId s hi id
  have hinv := hfwd.1
  simp only
  refine ⟨?_, fun e a b h => ⟨hinv.sinv.wf.src_node h, hinv.sinv.wf.dst_node h⟩, ?_⟩
  · unfold Db.removeId at hok ⊢
    cases hg : s.graphIndex id with
    | error e => rw [hg] at hok; simp at hok
    | ok x =>
      rw [hg] at hok
      simp only [hpos, if_true] at hok ⊢
      have hal : match aliasKey s.aliases id with
          | some a => aliasValue s.aliases a = some id
          | none => ∀ x, aliasValue s.aliases x ≠ some id := by
        cases hk : aliasKey s.aliases id with
        | none => exact no_alias_of_key_none _ hi.sinv.aliasBij id hk
        | some a =>
          exact (aliasValue_eq_some _ hi.sinv.aliasBij.1 a id).mpr ((aliasKey_eq_some _ hi.sinv.aliasBij.2 a id).mp hk)
      have h2 := (fwd_removeNodeFull s hi id (aliasKey s.aliases id) hpos hal).2
      generalize Db.removeNodeFull id (aliasKey s.aliases id) s = r at *
      obtain ⟨r1, r2⟩ := r
      cases r1 with
      | error e => simp at hok
      | ok u => exact h2 rfl
  · intro i hfree
    have hk2 := hinv.binv.k2 i hfree
    cases hl : kvGet (Db.removeId id s).2.values i with
    | nil => rfl
    | cons p rest =>
      have := hk2 p.1
      have h3 : kvFind (kvGet (Db.removeId id s).2.values i) p.1 = none := this
      rw [hl] at h3; simp [kvFind] at h3

/-- Per-node incoming / outgoing edge counts (self-loops on both sides): the chains the counts are the lengths of
    are duplicate-free and contain exactly the edges with that origin / destination. -/
theorem C08_counts (s : Db) (hi : s.Inv) (n : Nat) :
    (s.graph.outOf n).Nodup ∧ (s.graph.inOf n).Nodup ∧
    (∀ e, e ∈ s.graph.outOf n ↔ ∃ d, s.graph.kind e = .edge n d) ∧
    (∀ e, e ∈ s.graph.inOf n ↔ ∃ a, s.graph.kind e = .edge a n) ∧
    (s.graph.kind n = .node → s.edgeCount n true true = (s.graph.outOf n).length + (s.graph.inOf n).length) := by
  have w := hi.sinv.wf
  refine ⟨w.out_nodup n, w.in_nodup n, w.out_iff n, w.in_iff n, ?_⟩
  intro hn
  unfold Db.edgeCount
  simp [(Graph.isNode_iff _ _).mpr hn]

/-- The node count (`to_meta[0]`, returned by `select().node_count()`) is the number of node slots, after any
    history of queries (also failing ones); by `C13_rollback` (`r.Inv`) also after a rollback. -/
theorem C08_node_count (qs : List MQuery) (hd : ∀ q ∈ qs, q.distinctKeys) (s : Db) (hi : s.Inv) :
    let g := (runAll qs s).2.graph
    g.nodeCount = (((List.range g.slots.length).countP (fun i => g.isNode i) : Nat) : Int) ∧
    (s.selectNodeCount).result = (List.range s.graph.slots.length).countP (fun i => s.graph.isNode i) := by
  refine ⟨(C08_wf_invariant qs hd s hi).count, ?_⟩
  show s.graph.nodeCount.toNat = _
  rw [hi.sinv.wf.count]; rfl

/-- Not proved, and not statable in this file: the four `i64` arrays of `GraphDataStorage`
    (`from/to/from_meta/to_meta`, chains linked through slot indexes, free list threaded through `from_meta`)
    refine `Model/Graph.lean`.  See `Props/C08Arrays.lean` for the array model and what is proved about it. -/
def C08_arrays_note : Prop := True

/-! non-vacuity -/
example : exState.graph.kind 3 = .edge 1 2 ∧ exState.graph.outOf 1 = [3] ∧ exState.graph.nodeCount = 2 := by decide +kernel
example : ((Db.removeId 1 exState).1 matches .ok true) = true := by decide +kernel

end AgdbDb
