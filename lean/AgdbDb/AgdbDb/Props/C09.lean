/-
  C09 — element properties behave as a per-element ordered key-value map.
  Model: `DbKeyValues` (`Model/Basic.lean`: `kvGet/kvSet/kvFind/kvReplace/kvErase/valuesByKeys`) and the
  `DbImpl` / query functions using it.  Spec: per element a list of pairs with distinct keys; insert-or-replace
  replaces in place or appends, removal deletes exactly the named keys, element removal empties the list.
-/
import AgdbDb.Props.C08
namespace AgdbDb
open Db

/-- Keys of every element stay distinct (so the list is a map) after any history, and a free slot has no
    properties (`no leak on id reuse`). -/
theorem C09_map_invariant (qs : List MQuery) (hd : ∀ q ∈ qs, q.distinctKeys) (s : Db) (hi : s.Inv) :
    let s' := (runAll qs s).2
    (∀ i, (keysOf (kvGet s'.values i)).Nodup) ∧ (∀ i, s'.graph.kind i = .free → kvGet s'.values i = []) := by
  have hsafe : ∀ (qs : List MQuery), (∀ q ∈ qs, q.distinctKeys) → Safe (runAll qs) := by
    intro qs
    induction qs with
    | nil => intro _; exact Safe.pure ()
    | cons q rest ih =>
      intro h
      refine Safe.bind (safe_run q ?_) (fun _ => ih (fun q' hq' => h q' (List.mem_cons_of_mem _ hq')))
      have := h q (by simp)
      cases q <;> first | exact this | trivial
  have hinv := (hsafe qs hd s hi).1
  refine ⟨hinv.sinv.kvNodup, ?_⟩
  intro i hfree
  cases hl : kvGet (runAll qs s).2.values i with
  | nil => rfl
  | cons p rest =>
    have h3 : kvFind (kvGet (runAll qs s).2.values i) p.1 = none := hinv.binv.k2 i hfree p.1
    rw [hl] at h3; simp [kvFind] at h3

/-- Inserting a value replaces the value of an existing key in place and appends a new key; no other element
    and no other key changes, the key order of the element is kept. -/
theorem C09_insert_or_replace (s : Db) (id : Int) (k v : Val) :
    let s' := (Db.insertOrReplaceKeyValue id (k, v) s).2
    let l := kvGet s.values id.natAbs
    (∀ j, j ≠ id.natAbs → kvGet s'.values j = kvGet s.values j) ∧
    (kvFind l k ≠ none → kvGet s'.values id.natAbs = kvReplace l k v ∧ keysOf (kvGet s'.values id.natAbs) = keysOf l) ∧
    (kvFind l k = none → kvGet s'.values id.natAbs = l ++ [(k, v)]) ∧
    (∀ k', kvFind (kvGet s'.values id.natAbs) k' = if k' = k then some v else kvFind l k') := by
  simp only
  unfold Db.insertOrReplaceKeyValue
  cases hf : kvFind (kvGet s.values id.natAbs) k with
  | none =>
    simp only [hf]
    refine ⟨fun j hj => by rw [kvGet_kvSet]; simp [hj], fun h => absurd rfl h, fun _ => by rw [kvGet_kvSet]; simp, ?_⟩
    intro k'
    rw [kvGet_kvSet]; simp only [if_true]
    rw [kvFind_append]
    by_cases hk : k' = k
    · subst hk; simp [hf]
    · cases h : kvFind (kvGet s.values id.natAbs) k' <;> simp [hk, Ne.symm hk]
  | some old =>
    simp only [hf]
    refine ⟨fun j hj => by rw [kvGet_kvSet]; simp [hj], fun _ => ⟨by rw [kvGet_kvSet]; simp, by rw [kvGet_kvSet]; simp [keysOf_kvReplace]⟩,
      fun h => by simp at h, ?_⟩
    intro k'
    rw [kvGet_kvSet]; simp only [if_true]
    exact kvFind_kvReplace _ k v k' (by rw [hf]; simp)

theorem kvErase_eq_filter (l : List KV) (hn : (keysOf l).Nodup) (k : Val) :
    kvErase l k = l.filter (fun p => decide (p.1 ≠ k)) := by
  induction l with
  | nil => rfl
  | cons p rest ih =>
    obtain ⟨a, b⟩ := p
    simp only [keysOf, List.map_cons, List.nodup_cons] at hn
    simp only [kvErase, List.filter_cons]
    by_cases h : a = k
    · subst h
      simp only [if_true, ne_eq, not_true_eq_false, decide_false, Bool.false_eq_true, if_false]
      symm; rw [List.filter_eq_self]
      intro p hp; simp only [ne_eq, decide_eq_true_eq]
      intro hpa; exact hn.1 (List.mem_map.mpr ⟨p, hp, hpa⟩)
    · simp only [h, if_false, ne_eq, not_false_eq_true, decide_true, if_true]
      rw [ih hn.2]

/-- Removing keys deletes exactly those keys (order of the others kept). -/
theorem C09_remove_keys (s : Db) (hi : s.Inv) (id : Int) (keys : List Val) :
    let s' := (Db.removeKeys id keys s).2
    kvGet s'.values id.natAbs = (kvGet s.values id.natAbs).filter (fun p => decide (p.1 ∉ keys)) ∧
    (∀ j, j ≠ id.natAbs → kvGet s'.values j = kvGet s.values j) := by
  simp only
  unfold Db.removeKeys
  simp only
  have key : ∀ (hit : List KV) (s : Db), (keysOf (kvGet s.values id.natAbs)).Nodup →
      kvGet (hit.foldl (fun s kv => Db.removeKeyValue1 id kv s) s).values id.natAbs =
        (kvGet s.values id.natAbs).filter (fun p => decide (p.1 ∉ keysOf hit)) ∧
      (∀ j, j ≠ id.natAbs → kvGet (hit.foldl (fun s kv => Db.removeKeyValue1 id kv s) s).values j = kvGet s.values j) := by
    intro hit
    induction hit with
    | nil => intro s _; exact ⟨by simp only [List.foldl_nil, keysOf, List.map_nil, List.not_mem_nil, not_false_eq_true, decide_true]; exact (List.filter_eq_self.mpr (fun _ _ => rfl)).symm, fun _ _ => rfl⟩
    | cons p rest ih =>
      intro s hn
      simp only [List.foldl_cons]
      have h1 : kvGet (Db.removeKeyValue1 id p s).values id.natAbs = kvErase (kvGet s.values id.natAbs) p.1 := by
        show kvGet (kvSet s.values id.natAbs _) id.natAbs = _; rw [kvGet_kvSet]; simp
      have hn1 : (keysOf (kvGet (Db.removeKeyValue1 id p s).values id.natAbs)).Nodup := by
        rw [h1]; exact (keysOf_kvErase_sublist _ _).nodup hn
      obtain ⟨a1, a2⟩ := ih (Db.removeKeyValue1 id p s) hn1
      constructor
      · rw [a1, h1, kvErase_eq_filter _ hn, List.filter_filter]
        apply List.filter_congr
        intro q _
        simp only [keysOf, List.map_cons, List.mem_cons, not_or]
        by_cases hq : q.1 = p.1
        · simp [hq]
        · simp only [hq, false_or, ne_eq, not_false_eq_true, decide_true, Bool.and_true, Bool.true_and]
          by_cases hm : q.1 ∈ List.map Prod.fst rest <;> simp [hm]
      · intro j hj
        rw [a2 j hj]
        show kvGet (kvSet s.values id.natAbs _) j = _; rw [kvGet_kvSet]; simp [hj]
  obtain ⟨k1, k2⟩ := key ((kvGet s.values id.natAbs).filter (fun kv => decide (kv.1 ∈ keys))) s (hi.sinv.kvNodup _)
  refine ⟨?_, k2⟩
  rw [k1]
  apply List.filter_congr
  intro q hq
  have : q.1 ∈ keysOf ((kvGet s.values id.natAbs).filter (fun kv => decide (kv.1 ∈ keys))) ↔ q.1 ∈ keys := by
    constructor
    · intro h
      obtain ⟨r, hr, hrq⟩ := List.mem_map.mp h
      have := (List.mem_filter.mp hr).2
      simp only [decide_eq_true_eq] at this; rw [← hrq]; exact this
    · intro h
      exact List.mem_map.mpr ⟨q, List.mem_filter.mpr ⟨hq, by simp [h]⟩, rfl⟩
  simp [this]

/-- Removing an element removes all its properties; a reused id starts with none. -/
theorem C09_no_leak_on_id_reuse (s : Db) (hi : s.Inv) :
    (∀ id s', Db.insertNode s = (.ok id, s') → kvGet s'.values id.natAbs = []) ∧
    (∀ id, (Db.removeId id s).1 = .ok true → kvGet (Db.removeId id s).2.values id.natAbs = []) := by
  constructor
  · intro id s' h
    obtain ⟨hpos, hfree, _⟩ := (C08_id_signs_fresh s hi).1 id s' h
    have hv : s'.values = s.values := by unfold Db.insertNode at h; cases h; rfl
    rw [hv]
    cases hl : kvGet s.values id.natAbs with
    | nil => rfl
    | cons p rest =>
      have h3 : kvFind (kvGet s.values id.natAbs) p.1 = none := hi.binv.k2 _ hfree p.1
      rw [hl] at h3; simp [kvFind] at h3
  · intro id hok
    unfold Db.removeId at hok ⊢
    cases hg : s.graphIndex id with
    | error e => rw [hg] at hok; simp at hok
    | ok x =>
      simp only
      by_cases hpos : 0 < id
      · simp only [hpos, if_true]
        generalize hr : Db.removeNodeFull id (aliasKey s.aliases id) s = r
        have hdef : (Db.removeNodeFull id (aliasKey s.aliases id) s).1 = .ok () →
            kvGet (Db.removeNodeFull id (aliasKey s.aliases id) s).2.values id.natAbs = [] := by
          intro h1
          unfold Db.removeNodeFull at h1 ⊢
          simp only at h1 ⊢
          split
          · show kvGet (Db.removeAllValues ((id.natAbs : Nat) : Int) _).values id.natAbs = []
            show kvGet (kvSet _ ((id.natAbs : Nat) : Int).natAbs []) id.natAbs = []
            rw [kvGet_kvSet]; simp
          · rename_i hn; simp [hn] at h1
        rw [hr] at hdef
        obtain ⟨r1, r2⟩ := r
        rw [hg] at hok
        simp only [hpos, if_true, hr] at hok
        cases r1 with
        | error e => simp at hok
        | ok u => exact hdef rfl
      · simp only [hpos, if_false]
        show kvGet (Db.removeAllValues (-(id.natAbs : Int)) _).values id.natAbs = []
        show kvGet (kvSet _ (-(id.natAbs : Int)).natAbs []) id.natAbs = []
        rw [kvGet_kvSet]; simp

/-- Full selection returns the current pairs in map order. -/
theorem C09_select_all (s : Db) (q : QId) (id : Int) (h : s.dbId q = .ok id) :
    s.selectValues [q] [] = .ok ⟨1, [s.elemOf id (kvGet s.values id.natAbs)]⟩ := by
  unfold Db.selectValues
  simp only [Db.dbIds, h]
  simp [Db.selectValues.go, Db.kvOf]

theorem valuesByKeysAux_eq (l : List KV) (hn : (keysOf l).Nodup) : ∀ (ks seen : List Val), ks.Nodup → (∀ k ∈ ks, k ∉ seen) →
    valuesByKeysAux l ks seen = ks.filterMap (fun k => (kvFind l k).map (fun v => (k, v))) := by
  intro ks
  induction ks with
  | nil => intro _ _ _; rfl
  | cons k rest ih =>
    intro seen hnd hs
    have hnd' := List.nodup_cons.mp hnd
    simp only [valuesByKeysAux, hs k (by simp), if_false, List.filterMap_cons]
    rw [ih (k :: seen) hnd'.2 (by
      intro k' hk'; simp only [List.mem_cons, not_or]
      exact ⟨fun h => hnd'.1 (h ▸ hk'), hs k' (List.mem_cons_of_mem _ hk')⟩)]
    rw [filter_key_eq l hn k]
    cases kvFind l k <;> simp

/-- Selection by keys returns the pairs in the requested key order. -/
theorem C09_select_by_keys (l : List KV) (hn : (keysOf l).Nodup) (keys : List Val) (hk : keys.Nodup) :
    valuesByKeys l keys = keys.filterMap (fun k => (kvFind l k).map (fun v => (k, v))) :=
  valuesByKeysAux_eq l hn keys [] hk (by simp)

theorem length_filterMap_lt {α β} (f : α → Option β) : ∀ (l : List α), (∃ a ∈ l, f a = none) →
    (l.filterMap f).length < l.length := by
  intro l
  induction l with
  | nil => intro ⟨a, ha, _⟩; simp at ha
  | cons x rest ih =>
    intro ⟨a, ha, hf⟩
    have hle : (rest.filterMap f).length ≤ rest.length := List.length_filterMap_le f rest
    rcases List.mem_cons.mp ha with h | h
    · subst h; rw [List.filterMap_cons_none hf, List.length_cons]; omega
    · have := ih ⟨a, h, hf⟩
      cases hfx : f x with
      | none => rw [List.filterMap_cons_none hfx, List.length_cons]; omega
      | some b => rw [List.filterMap_cons_some hfx, List.length_cons, List.length_cons]; omega

/-- Selecting a missing key of an explicitly named element is an error (any request with distinct keys one of
    which the element does not have). -/
theorem C09_missing_key (s : Db) (hi : s.Inv) (q : QId) (id : Int) (keys : List Val) (k : Val)
    (h : s.dbId q = .ok id) (hk : keys.Nodup) (hmem : k ∈ keys)
    (hnone : kvFind (kvGet s.values id.natAbs) k = none) : s.selectValues [q] keys = .error Err.queryNotFound := by
  unfold Db.selectValues
  simp only [Db.dbIds, h]
  have hne : keys.isEmpty = false := by cases keys <;> simp at hmem ⊢
  have hv := C09_select_by_keys (kvGet s.values id.natAbs) (hi.sinv.kvNodup _) keys hk
  have hlen : (valuesByKeys (kvGet s.values id.natAbs) keys).length ≠ keys.length := by
    rw [hv]
    exact Nat.ne_of_lt (length_filterMap_lt _ keys ⟨k, hmem, by simp [hnone]⟩)
  have hany : keys.any (fun k' => !((valuesByKeys (kvGet s.values id.natAbs) keys).any (fun p => decide (p.1 = k')))) = true := by
    rw [List.any_eq_true]
    refine ⟨k, hmem, ?_⟩
    simp only [Bool.not_eq_true', List.any_eq_false, decide_eq_true_eq]
    intro p hp
    rw [hv] at hp
    obtain ⟨k', _, hk'⟩ := List.mem_filterMap.mp hp
    cases hf : kvFind (kvGet s.values id.natAbs) k' with
    | none => simp [hf] at hk'
    | some v =>
      simp [hf] at hk'; subst hk'
      intro h2; subst h2; rw [hnone] at hf; cases hf
  simp only [Db.selectValues.go, Db.kvOf, hne, Bool.false_eq_true, if_false]
  rw [if_pos ⟨hlen, hany⟩]

/-! non-vacuity -/
example : (match exState.selectValues [.alias "a", .id (-3)] [] with
    | .ok r => r.elements.map (fun e => (e.id, e.values.length))
    | .error _ => []) = [(1, 1), (-3, 1)] := by decide +kernel

end AgdbDb
