/-
  C11 — indexes always reflect current property values exactly.
  Model: `DbIndexes` as a list of (key, multimap) with the multimap through its multiset semantics
  (`Model/Basic.lean`), maintenance inside every mutation of `Model/Db.lean`, back-fill in `insertIndex`.
-/
import AgdbDb.Props.C13
namespace AgdbDb
open Db

/-- every index holds exactly one entry `(v, id)` per element `id` whose current value of the key is `v`
    (ids signed as `insert_index` signs them: node slots positive, edge slots negative) and nothing else -/
def IndexExact (s : Db) : Prop :=
  ∀ k l, ixFind s.indexes k = some l → ∀ v id,
    l.count (v, id) = if (id ≠ 0 ∧ kvFind (kvGet s.values id.natAbs) k = some v ∧ id = Db.idOfSlot s.graph id.natAbs)
      then 1 else 0

theorem idOfSlot_eq_aidOf (s : Db) (i : Nat) : Db.idOfSlot s.graph i = aidOf s.abs i := by
  unfold Db.idOfSlot aidOf
  by_cases h : s.graph.isNode i = true
  · have h2 : s.abs.kind i = .node := (Graph.isNode_iff _ _).mp h
    simp [h, h2]
  · have h2 : s.abs.kind i ≠ .node := fun hh => h ((Graph.isNode_iff _ _).mpr hh)
    simp [h, h2]

theorem indexExact_of_inv {s : Db} (h : s.Inv) : IndexExact s := by
  intro k l hl v id
  have hm : s.abs.index k = some (countFn l) := by show (ixFind s.indexes k).map countFn = _; rw [hl]; rfl
  have := h.binv.ix k _ hm v id
  rw [idOfSlot_eq_aidOf]; exact this

/-- `IndexInv` is an invariant of every history: it holds in the empty database, after any list of mutating
    queries (also when one of them fails part-way), after `commit`, and after `rollback` of a failed transaction. -/
theorem C11_index_exact_invariant :
    IndexExact Db.empty ∧
    (∀ (qs : List MQuery) (s : Db), (∀ q ∈ qs, q.distinctKeys) → s.Inv → IndexExact (runAll qs s).2 ∧ IndexExact (runAll qs s).2.commit) ∧
    (∀ (qs : List MQuery) (s : Db), (∀ q ∈ qs, q.distinctKeys) → s.Inv → s.undo = [] →
        ∃ r, (runAll qs s).2.rollback = some r ∧ IndexExact r) := by
  refine ⟨indexExact_of_inv inv_empty, ?_, ?_⟩
  · intro qs s hd hi
    have hsafe : ∀ (qs : List MQuery), (∀ q ∈ qs, q.distinctKeys) → Safe (runAll qs) := by
      intro qs
      induction qs with
      | nil => intro _; exact Safe.pure ()
      | cons q rest ih =>
        intro h
        refine Safe.bind (safe_run q ?_) (fun _ => ih (fun q' hq' => h q' (List.mem_cons_of_mem _ hq')))
        have := h q (by simp)
        cases q <;> first | exact this | trivial
    have := (hsafe qs hd s hi).1
    exact ⟨indexExact_of_inv this, indexExact_of_inv (inv_commit this)⟩
  · intro qs s hd hi hu
    obtain ⟨r, hr, _, hri, _, _⟩ := C13_rollback qs hd s hi hu
    exact ⟨r, hr, indexExact_of_inv hri⟩

/-- An index search for key `k` and value `v` returns exactly the elements whose current value of `k` is `v`,
    each once. -/
theorem C11_search_index (s : Db) (h : IndexExact s) (k v : Val) (ids : List Int) (hs : s.searchIndex k v = .ok ids) :
    ids.Nodup ∧ ∀ id, id ∈ ids ↔
      (id ≠ 0 ∧ kvFind (kvGet s.values id.natAbs) k = some v ∧ id = Db.idOfSlot s.graph id.natAbs) := by
  unfold Db.searchIndex at hs
  cases hl : ixFind s.indexes k with
  | none => rw [hl] at hs; cases hs
  | some l =>
    rw [hl] at hs; cases hs
    have hcount : ∀ id, (ixValues l v).count id = l.count (v, id) := fun id => count_ixValues l v id
    constructor
    · rw [List.nodup_iff_count]
      intro id; rw [hcount, h k l hl v id]; split <;> omega
    · intro id
      rw [← List.count_pos_iff, hcount, h k l hl v id]
      split
      · rename_i hc; exact ⟨fun _ => hc, fun _ => Nat.one_pos⟩
      · rename_i hc; exact ⟨fun h0 => absurd h0 (Nat.lt_irrefl 0), fun h1 => absurd h1 hc⟩

/-- The listing count of an index = the number of elements having the key: the stored multimap is a permutation
    of what back-filling the index now would produce. -/
theorem C11_listing (s : Db) (hi : s.Inv) (k : Val) (l : IxMap) (hl : ixFind s.indexes k = some l) :
    l.Perm (Db.backfill s k) ∧ l.length = (Db.backfill s k).length := by
  have hp : l.Perm (Db.backfill s k) := by
    rw [List.perm_iff_count]
    intro p; obtain ⟨v, id⟩ := p
    have h1 := indexExact_of_inv hi k l hl v id
    have h2 := countFn_backfill s hi.sinv k v id
    unfold countFn at h2
    rw [h1, h2, idOfSlot_eq_aidOf]; rfl
  exact ⟨hp, hp.length_eq⟩

/-- Creating an index covers the data inserted before it. -/
theorem C11_backfill (s : Db) (hi : s.Inv) (k : Val) (hnone : ixFind s.indexes k = none) :
    ∃ n, Db.insertIndex k s = (.ok n, (Db.insertIndex k s).2) ∧ n = (Db.backfill s k).length ∧
      ixFind (Db.insertIndex k s).2.indexes k = some (Db.backfill s k) ∧ IndexExact (Db.insertIndex k s).2 := by
  have hinv := (fwd_insertIndex s hi k).1
  refine ⟨(Db.backfill s k).length, ?_, rfl, ?_, indexExact_of_inv hinv⟩
  · unfold Db.insertIndex; rw [hnone]
  · unfold Db.insertIndex; rw [hnone]
    show ixFind (s.indexes ++ [(k, Db.backfill s k)]) k = _
    rw [ixFind_append, hnone]; simp

/-- Creating an index that already exists is an error without effect. -/
theorem C11_duplicate_index_error (s : Db) (k : Val) (l : IxMap) (h : ixFind s.indexes k = some l) :
    Db.insertIndex k s = (.error Err.dbNotAllowed, s) := by
  unfold Db.insertIndex; rw [h]

/-! non-vacuity: an indexed key with three entries, a replacement and a cascade removal -/
example : (match ((runAll [.insertValues [.id 1] (.single [(exK, exV2)]), .remove [.id 2]] exState).2).searchIndex exK exV2 with
    | .ok ids => ids
    | .error _ => []) = [1] := by decide +kernel
example : IndexExact exState := indexExact_of_inv
  (C13_reachable.2.2 _ Db.empty (by intro q hq; simp at hq; rcases hq with h | h | h <;> subst h <;> simp [Db.MQuery.distinctKeys, QValues.distinct, keysOf]) inv_empty rfl).1

end AgdbDb
