/-
  C08, representation level: the four `i64` arrays of `graph.rs` (`Model/CGraph.lean`: `from`, `to`, `from_meta`,
  `to_meta`; adjacency chains linked through slot indexes, free list threaded through `from_meta`, node count in
  `to_meta[0]`, the `while` loops of `remove_from_edge` / `remove_to_edge` with fuel = capacity) refine the
  list-level graph of `Model/Graph.lean`, on which `Props/C08.lean` proves the multigraph behaviour.
-/
import AgdbDb.Lemmas.CRefine
import AgdbDb.Props.C08
namespace AgdbDb
open Graph

/-- the same on the arrays; `none` = a loop ran out of fuel -/
def GOp.runC (c : CGraph) : GOp → Option CGraph
  | .insertNode => some c.insertNode.2
  | .insertEdge s d => match c.insertEdge s d with
    | .ok r => some r.2
    | .error CErr.invalidIndex => some c
    | .error CErr.outOfFuel => none
  | .removeEdge e => match c.removeEdge e with
    | .ok c' => some c'
    | .error _ => none
  | .removeNode n => match c.removeNode n with
    | .ok c' => some c'
    | .error _ => none

def runAllC : List GOp → CGraph → Option CGraph
  | [], c => some c
  | op :: ops, c => match op.runC c with
    | some c' => runAllC ops c'
    | none => none

/-- One step: every array-level mutation terminates (never out of fuel), returns the same index, reports the same
    failure, and ends in a state that represents the list-level result. -/
theorem C08_arrays_refine_step (c : CGraph) (g : Graph) (r : Rep c g) (w : g.WF) (hb : g.slots.length < i64Bound) :
    (c.insertNode.1 = g.insertNode.1 ∧ Rep c.insertNode.2 g.insertNode.2) ∧
    (∀ s d, match g.insertEdge s d with
      | .ok gr => ∃ cr, c.insertEdge s d = .ok cr ∧ cr.1 = gr.1 ∧ Rep cr.2 gr.2
      | .error _ => c.insertEdge s d = .error CErr.invalidIndex) ∧
    (∀ e, ∃ c', c.removeEdge e = .ok c' ∧ Rep c' (g.removeEdge e)) ∧
    (∀ n, (g.kind n = .node → g.outOf n = [] ∧ g.inOf n = []) → ∃ c', c.removeNode n = .ok c' ∧ Rep c' (g.removeNode n)) := by
  refine ⟨rep_insertNode c g r w hb, fun s d => rep_insertEdge c g r w hb s d, ?_, ?_⟩
  · intro e
    by_cases h : ∃ s d, g.kind e = .edge s d
    · obtain ⟨s, d, he⟩ := h; exact rep_removeEdge c g r w e s d he
    · have h' : ∀ s d, g.kind e ≠ .edge s d := fun s d hk => h ⟨s, d, hk⟩
      obtain ⟨h1, h2⟩ := rep_removeEdge_noop c g r w e h'
      exact ⟨c, h1, by rw [h2]; exact r⟩
  · intro n hadm
    by_cases hn : g.kind n = .node
    · exact rep_removeNode c g r w n hn (hadm hn).1 (hadm hn).2
    · refine ⟨c, ?_, ?_⟩
      · unfold CGraph.removeNode
        have : c.validNode n = false := by
          cases hv : c.validNode n
          · rfl
          · exact absurd ((r.validNode w n).mp hv) hn
        rw [this]; rfl
      · have : g.removeNode n = g := by
          unfold Graph.removeNode
          cases hs : g.slot n with
          | node o i => exact absurd (by unfold Graph.kind; rw [hs]; rfl) hn
          | _ => rfl
        rw [this]; exact r

theorem runG_wf_len (g : Graph) (w : g.WF) (op : GOp) (hadm : op.admissible g) :
    (op.runG g).WF ∧ (op.runG g).slots.length ≤ g.slots.length + 1 := by
  have hgl : g.getFreeIndex.2.slots.length ≤ g.slots.length + 1 := by
    rcases getFreeIndex_cases g with ⟨_, h⟩ | ⟨i, rest, _, h⟩ <;> rw [h] <;> simp
  cases op with
  | insertNode =>
    obtain ⟨_, _, _, _, _, _, h7⟩ := insertNode_spec g w
    obtain ⟨_, _, _, hl, _⟩ := insertNode_chains g w
    exact ⟨h7, by show g.insertNode.2.slots.length ≤ _; rw [hl]; exact hgl⟩
  | insertEdge s d =>
    by_cases hkk : g.kind s = .node ∧ g.kind d = .node
    · obtain ⟨gr, hgr, _, _, _, _, _, _, h7⟩ := insertEdge_spec g w s d hkk.1 hkk.2
      obtain ⟨_, _, _, hl, _⟩ := insertEdge_chains g w s d hkk.1 hkk.2 gr hgr
      simp only [GOp.runG, hgr]
      exact ⟨h7, by rw [hl]; exact hgl⟩
    · simp only [GOp.runG, insertEdge_error g s d hkk]
      exact ⟨w, Nat.le_succ _⟩
  | removeEdge e =>
    by_cases h : ∃ s d, g.kind e = .edge s d
    · obtain ⟨s, d, he⟩ := h
      obtain ⟨_, _, _, h4⟩ := removeEdge_spec g w e s d he
      obtain ⟨_, _, hl, _⟩ := removeEdge_chains g w e s d he
      exact ⟨h4, by show (g.removeEdge e).slots.length ≤ _; rw [hl]; exact Nat.le_succ _⟩
    · have : g.removeEdge e = g := removeEdge_noop g e (fun s d hk => h ⟨s, d, hk⟩)
      simp only [GOp.runG, this]; exact ⟨w, Nat.le_succ _⟩
  | removeNode n =>
    by_cases hn : g.kind n = .node
    · obtain ⟨ho, hi⟩ := hadm hn
      have hne : ∀ e s d, g.kind e = .edge s d → s ≠ n ∧ d ≠ n := by
        intro e s d he
        constructor
        · intro h; subst h; have := (w.out_iff s e).mpr ⟨d, he⟩; rw [ho] at this; simp at this
        · intro h; subst h; have := (w.in_iff d e).mpr ⟨s, he⟩; rw [hi] at this; simp at this
      obtain ⟨_, _, _, h4⟩ := removeNode_spec g w n hn hne
      obtain ⟨_, _, hl, _⟩ := removeNode_chains g n hn ho hi
      exact ⟨h4, by show (g.removeNode n).slots.length ≤ _; rw [hl]; exact Nat.le_succ _⟩
    · have : g.removeNode n = g := by
        unfold Graph.removeNode
        cases hs : g.slot n with
        | node o i => exact absurd (by unfold Graph.kind; rw [hs]; rfl) hn
        | _ => rfl
      simp only [GOp.runG, this]; exact ⟨w, Nat.le_succ _⟩

/-- Any history of graph mutations (of any length, as long as the slot count stays below 2^63): the arrays never run
    out of fuel and always represent the list-level graph. -/
theorem C08_arrays_refine : ∀ (ops : List GOp) (c : CGraph) (g : Graph), Rep c g → g.WF →
    g.slots.length + ops.length < i64Bound → admissibleAll ops g →
    ∃ c', runAllC ops c = some c' ∧ Rep c' (runAllG ops g) ∧ (runAllG ops g).WF := by
  intro ops
  induction ops with
  | nil => intro c g r w _ _; exact ⟨c, rfl, r, w⟩
  | cons op rest ih =>
    intro c g r w hb hadm
    obtain ⟨hadm1, hadm2⟩ := hadm
    have hb1 : g.slots.length < i64Bound := by simp at hb; omega
    obtain ⟨s1, s2, s3, s4⟩ := C08_arrays_refine_step c g r w hb1
    obtain ⟨w', hl'⟩ := runG_wf_len g w op hadm1
    have hb' : (op.runG g).slots.length + rest.length < i64Bound := by simp at hb; omega
    have step : ∃ c1, op.runC c = some c1 ∧ Rep c1 (op.runG g) := by
      cases op with
      | insertNode => exact ⟨_, rfl, s1.2⟩
      | insertEdge s d =>
        have := s2 s d
        cases hg : g.insertEdge s d with
        | ok gr =>
          rw [hg] at this
          obtain ⟨cr, hc, _, hr⟩ := this
          exact ⟨cr.2, by simp only [GOp.runC, hc], by simp only [GOp.runG, hg]; exact hr⟩
        | error x =>
          rw [hg] at this
          exact ⟨c, by simp only [GOp.runC, this], by simp only [GOp.runG, hg]; exact r⟩
      | removeEdge e =>
        obtain ⟨c', hc, hr⟩ := s3 e
        exact ⟨c', by simp only [GOp.runC, hc], hr⟩
      | removeNode n =>
        obtain ⟨c', hc, hr⟩ := s4 n hadm1
        exact ⟨c', by simp only [GOp.runC, hc], hr⟩
    obtain ⟨c1, hc1, r1⟩ := step
    obtain ⟨c', hc', r', wf'⟩ := ih c1 (op.runG g) r1 w' hb' hadm2
    exact ⟨c', by simp only [runAllC, hc1]; exact hc', r', wf'⟩

/-- End to end: along ANY history of mutating queries (also failing ones) the model's graph is reached from the start
    graph by a sequence of admissible graph mutations (`DbImpl` never calls `remove_node` on a node that still has edges),
    so arrays driven through the same mutations keep representing it; the same holds for the graph after a rollback. -/
theorem C08_arrays_history (qs : List Db.MQuery) (hd : ∀ q ∈ qs, q.distinctKeys) (s : Db) (hi : s.Inv) (hu : s.undo = [])
    (c : CGraph) (hr : Rep c s.graph) :
    (∃ ops, admissibleAll ops s.graph ∧ (Db.runAll qs s).2.graph = runAllG ops s.graph ∧
      (s.graph.slots.length + ops.length < i64Bound →
        ∃ c', runAllC ops c = some c' ∧ Rep c' (Db.runAll qs s).2.graph)) ∧
    (∃ r ops, (Db.runAll qs s).2.rollback = some r ∧ admissibleAll ops s.graph ∧ r.graph = runAllG ops s.graph ∧
      (s.graph.slots.length + ops.length < i64Bound → ∃ c', runAllC ops c = some c' ∧ Rep c' r.graph)) := by
  have hsafe : ∀ (qs : List Db.MQuery), (∀ q ∈ qs, q.distinctKeys) → Safe (Db.runAll qs) := by
    intro qs
    induction qs with
    | nil => intro _; exact Safe.pure ()
    | cons q rest ih =>
      intro h
      refine Safe.bind (safe_run q ?_) (fun _ => ih (fun q' hq' => h q' (List.mem_cons_of_mem _ hq')))
      have := h q (by simp)
      cases q <;> first | exact this | trivial
  have hf := hsafe qs hd s hi
  obtain ⟨ops, ha, he⟩ := hf.2.2
  obtain ⟨r, hro, _, _, _, hrg⟩ := rollback_of_fwd s _ hu hi hf
  obtain ⟨ops2, ha2, he2⟩ := (hf.2.2).trans hrg
  refine ⟨⟨ops, ha, he, ?_⟩, ⟨r, ops2, hro, ha2, he2, ?_⟩⟩
  · intro hb
    obtain ⟨c', h1, h2, _⟩ := C08_arrays_refine ops c s.graph hr hi.sinv.wf hb ha
    exact ⟨c', h1, by rw [he]; exact h2⟩
  · intro hb
    obtain ⟨c', h1, h2, _⟩ := C08_arrays_refine ops2 c s.graph hr hi.sinv.wf hb ha2
    exact ⟨c', h1, by rw [he2]; exact h2⟩

/-- the empty arrays of `GraphDataStorage::new` represent the empty graph -/
theorem C08_arrays_init : Rep CGraph.empty Graph.empty ∧ Graph.empty.WF := ⟨rep_empty, wf_empty⟩

/-! non-vacuity: a small history with id reuse (edge slot 4 becomes node 4), a self-loop, parallel edges, an unlink from
    the middle of a chain (edge 4 between 5 and 3 in node 1's outgoing chain) and a three-element free list -/
def exOps : List GOp :=
  [.insertNode, .insertNode, .insertEdge 1 2, .insertEdge 1 2, .insertEdge 1 1, .insertEdge 2 1,
   .removeEdge 4, .insertNode, .removeEdge 3, .removeEdge 5, .removeEdge 6, .removeNode 1, .insertEdge 2 2]

example : (runAllC exOps CGraph.empty).map (fun c => (c.from_, c.to_, c.fromMeta, c.toMeta)) =
    some ([0, -2, 1, 0, 0, 0, 0], [0, -2, 1, 0, 0, 0, 0], [-6, 0, 1, minI, 0, -3, -5], [2, 0, 1, 0, 0, 0, 0]) := by
  decide +kernel

end AgdbDb
