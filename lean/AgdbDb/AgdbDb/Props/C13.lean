/-
  C13 — a failed transaction or query leaves no observable effect.

  Model: `Model/Db.lean` (`DbImpl` mutations recording `Command`s, `rollback`), `Model/Query.lean` (query layer,
  `transaction_mut` = run the closure, `rollback` on `Err`).  The model mirrors the code WITH the two proposed
  fixes (proposed_fixes/C13-*.diff); the unchanged functions are `rollbackLegacy`, `insertAliasLegacy`,
  `insertNodesLegacy` and the three counterexample theorems show the property is false for them.
-/
import AgdbDb.Lemmas.Obs
namespace AgdbDb
open Db

/-- hypothesis of the property: keys within one insert list are distinct -/
def Db.MQuery.distinctKeys : MQuery → Prop
  | .insertNodes _ v _ _ => v.distinct
  | .insertEdges _ _ _ v _ => v.distinct
  | .insertValues _ v => v.distinct
  | _ => True

/-- Full statement.  `s` is any state satisfying the database invariant with an empty undo stack (every state
    reachable from the empty database by committed / rolled-back transactions is one: `C13_reachable`).  A mutable
    transaction runs ANY list of mutating queries; it may stop with an error inside any query (the state then
    carries that query's partial effects) or the closure may return `Err` after the last one — in both cases the state
    handed to `rollback` is `(runAll qs s).2` for the list `qs` of queries started so far.  Then `rollback` succeeds
    (no `?` error, no `expect` panic) and the result is observably equal to `s` in exactly the sense of the property;
    in addition the invariant holds again, the undo stack is empty and future id allocation is unchanged. -/
theorem C13_rollback (qs : List MQuery) (hd : ∀ q ∈ qs, q.distinctKeys) (s : Db) (hi : s.Inv) (hu : s.undo = []) :
    ∃ r, ((runAll qs s).2).rollback = some r ∧ ObsEq r s ∧ r.Inv ∧ r.undo = [] ∧
      (∀ n, r.graph.alloc n = s.graph.alloc n) := by
  have hsafe : ∀ (qs : List MQuery), (∀ q ∈ qs, q.distinctKeys) → Safe (runAll qs) := by
    intro qs
    induction qs with
    | nil => intro _; exact Safe.pure ()
    | cons q rest ih =>
      intro h
      refine Safe.bind (safe_run q ?_) (fun _ => ih (fun q' hq' => h q' (List.mem_cons_of_mem _ hq')))
      have := h q (by simp)
      cases q <;> first | exact this | trivial
  obtain ⟨r, hr, hra, hri, hru, _⟩ := rollback_of_fwd s _ hu hi (hsafe qs hd s hi)
  exact ⟨r, hr, obsEq_of_abs hri.sinv hi.sinv hra, hri, hru, fun n => congrFun (congrArg ADb.alloc hra) n⟩

/-- A single mutating query that fails part-way (`exec_mut` = one-query transaction). -/
theorem C13_failed_query (q : MQuery) (hd : q.distinctKeys) (s : Db) (hi : s.Inv) (hu : s.undo = []) :
    ∃ r, ((q.run s).2).rollback = some r ∧ ObsEq r s ∧ r.Inv := by
  obtain ⟨r, hr, ho, hri, _, _⟩ := C13_rollback [q] (by intro q' hq'; simp at hq'; subst hq'; exact hd) s hi hu
  refine ⟨r, ?_, ho, hri⟩
  have : (runAll [q] s).2 = (q.run s).2 := by
    simp only [runAll, M.bind]
    cases h : q.run s with
    | mk res s' => cases res <;> rfl
  rw [← this]; exact hr

/-- The hypotheses of `C13_rollback` hold in every reachable state: the empty database, and the state after any
    committed or rolled-back transaction. -/
theorem C13_reachable :
    Db.empty.Inv ∧ Db.empty.undo = [] ∧
    (∀ (qs : List MQuery) (s : Db), (∀ q ∈ qs, q.distinctKeys) → s.Inv → s.undo = [] →
      ((runAll qs s).2.commit).Inv ∧ ((runAll qs s).2.commit).undo = []) := by
  refine ⟨inv_empty, rfl, ?_⟩
  intro qs s hd hi _
  have hsafe : ∀ (qs : List MQuery), (∀ q ∈ qs, q.distinctKeys) → Safe (runAll qs) := by
    intro qs
    induction qs with
    | nil => intro _; exact Safe.pure ()
    | cons q rest ih =>
      intro h
      refine Safe.bind (safe_run q ?_) (fun _ => ih (fun q' hq' => h q' (List.mem_cons_of_mem _ hq')))
      have := h q (by simp)
      cases q <;> first | exact this | trivial
  exact ⟨inv_commit (hsafe qs hd s hi).1, rfl⟩

/-! ### non-vacuity -/

def exK : Val := ⟨115, [107]⟩
def exV1 : Val := ⟨105, [49]⟩
def exV2 : Val := ⟨105, [50]⟩

/-- a non-trivial reachable state: two aliased nodes with a value on an indexed key and an edge -/
def exState : Db :=
  ((runAll [.insertNodes 0 (.single [(exK, exV1)]) ["a", "b"] [],
            .insertEdges [.id 1] [.id 2] [] (.single [(exK, exV2)]) false,
            .insertIndex exK] Db.empty).2).commit

example : exState.Inv ∧ exState.undo = [] :=
  (C13_reachable.2.2 _ Db.empty (by intro q hq; simp at hq; rcases hq with h | h | h <;> subst h <;> simp [Db.MQuery.distinctKeys, QValues.distinct, keysOf]) inv_empty rfl)

/-- the failing transaction of the defect reports, on the fixed model: everything is restored -/
example : (((runAll [.insertNodes 1 (.single []) [] [], .insertValues [.id 1] (.single [(exK, exV2)]),
                     .insertAliases [.id 2] ["a"], .remove [.id 1]] exState).2).rollback.map
            (fun r => (r.graph.nodeCount, r.aliases.length, r.graph.slots.length))) = some (2, 2, 5) := by decide +kernel

/-! ### the unchanged code violates the property -/

/-- C13a: with `return Ok(())` in the `ReplaceKeyValue` arm the node inserted before a value replacement
    survives the failed transaction (`txn { insert node; replace value of node 1 } -> Err`):
    node count 3 instead of 2, slot 4 still a node. -/
theorem C13_replace_counterexample :
    (((runAll [.insertNodes 1 (.single []) [] [], .insertValues [.id 1] (.single [(exK, exV2)])] exState).2).rollbackLegacy.map
        (fun r => (r.graph.nodeCount, r.graph.kind 4))) = some (3, Kind.node) ∧
    (exState.graph.nodeCount, exState.graph.kind 4) = (2, Kind.free) := by decide +kernel

/-- C13b: `insert().aliases("a").ids(2)` takes `a` from node 1; the unchanged `insert_alias` records nothing
    for node 1, so after rollback node 1 has no alias. -/
theorem C13_alias_steal_counterexample :
    (((runAllLegacy [.insertAliases [.id 2] ["a"]] exState).2).rollback.map (fun r => aliasValue r.aliases "a")) = some none ∧
    aliasValue exState.aliases "a" = some 1 := by decide +kernel

/-- third gap found while modelling: `insert().nodes().ids(2).aliases("a")` uses `insert_new_alias`, which records
    neither node 2's previous alias `b` nor the previous owner of `a`: both are lost on rollback. -/
theorem C13_insert_nodes_alias_counterexample :
    (((runAllLegacy [.insertNodes 0 (.multi [[]]) ["a"] [.id 2]] exState).2).rollback.map (fun r => r.aliases.length)) = some 0 ∧
    exState.aliases.length = 2 := by decide +kernel

end AgdbDb
