import AgdbDb.Props.C08
import AgdbDb.Props.C08Arrays
import AgdbDb.Props.C09
import AgdbDb.Props.C11
import AgdbDb.Props.C13
