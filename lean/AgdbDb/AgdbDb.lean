import AgdbDb.Model.Query
