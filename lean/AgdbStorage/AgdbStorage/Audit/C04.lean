import AgdbStorage.Props.C04
open AgdbStorage
#print axioms C04_refines
#print axioms C04_read_back
#print axioms C04_removed_unreadable
#print axioms C04_frame
#print axioms C04_optimize
#print axioms C04_reopen
#print axioms C04_invariant
#print axioms C04_calls_wellformed
#print axioms C04_reopen_unbounded_counterexample
