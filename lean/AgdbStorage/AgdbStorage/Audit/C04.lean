import AgdbStorage.Props.C04
open AgdbStorage
