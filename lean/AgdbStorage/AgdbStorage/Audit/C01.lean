import AgdbStorage.Props.C01
import AgdbStorage.Props.C01b
import AgdbStorage.Props.C04
open AgdbStorage
#print axioms C01_recover_every_crash_point
#print axioms C01_drop
#print axioms C01_recovered_length
#print axioms C01_flush_commits
#print axioms C01_replay_order_counterexample
#print axioms C01_zero_len_counterexample
#print axioms C01_grow_counterexample
#print axioms C01_zero_len_counterexample_newest_first
-- nested transactions (Props/C01b.lean) and the link from Storage operations to well-formed calls (Props/C04.lean)
#print axioms C01b_txn_balanced
#print axioms C01b_flush_outermost
#print axioms C01b_commit
#print axioms C01b_begin
#print axioms C01b_error_unchanged
#print axioms C01b_never_fails
#print axioms C01b_replace_missing
#print axioms C01b_replace_error_txn
#print axioms C01b_replace_stuck_txn_counterexample
#print axioms C01b_moveAt_early_error
#print axioms C01b_moveAt_error_txn
#print axioms C04_calls_wellformed
