import AgdbStorage.Props.C01
open AgdbStorage
#print axioms C01_recover_every_crash_point
#print axioms C01_drop
#print axioms C01_recovered_length
#print axioms C01_flush_commits
#print axioms C01_replay_order_counterexample
#print axioms C01_zero_len_counterexample
#print axioms C01_grow_counterexample
#print axioms C01_zero_len_counterexample_newest_first
