import AgdbStorage.Props.C01b
open AgdbStorage

#print axioms C01b_txn_balanced
#print axioms C01b_flush_outermost
#print axioms C01b_commit
#print axioms C01b_begin
#print axioms C01b_error_unchanged
#print axioms C01b_never_fails
#print axioms C01b_replace_missing
#print axioms C01b_replace_error_txn
#print axioms C01b_replace_stuck_txn_counterexample
#print axioms C01b_moveAt_early_error
#print axioms C01b_moveAt_error_txn
