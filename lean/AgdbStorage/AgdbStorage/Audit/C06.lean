import AgdbStorage.Props.C06
open AgdbStorage
#print axioms C06_backends_equiv
#print axioms C06_past_end_differs
#print axioms C06_past_end_panics
