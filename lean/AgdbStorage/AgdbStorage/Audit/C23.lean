import AgdbStorage.Props.C23
open AgdbStorage
#print axioms C23_reads_correct
#print axioms C23_mutual_exclusion
#print axioms C23_without_lock_counterexample
