import AgdbStorage.Model.Backends
import AgdbStorage.Lemmas.RecoveryOps
/-
C06 — All storage variants give identical query results (storage-layer core).

`Storage<D>` and everything above it is generic code that observes its back-end only through
`len()` and `read()` and changes it only through `write/resize/flush`.  The theorems below show
that on every sequence of calls whose writes do not start past the end (the calls `Storage`
issues — checked on the real `Storage` by the `st` stream and stated as C04_calls_wellformed) the
three back-ends hold the same bytes, report the same length and answer every in-range read
identically; none of them panics or fails.
-/
namespace AgdbStorage

theorem execOp_data (d : Disk) (op : FsOp) : (execOp d op).data = dataAfter d.data op := by
  obtain ⟨data, wal⟩ := d
  cases op with
  | flush => simp [execOp, FsOp.sys, applyAll, Sys.apply, dataAfter]
  | resize n =>
    simp only [execOp, FsOp.sys, dataAfter]
    split <;> simp [applyAll, walInsert, Sys.apply]
  | write pos bs =>
    simp only [execOp, FsOp.sys, dataAfter]
    split <;> simp [applyAll, walInsert, Sys.apply]

/-- One call: the in-memory buffer follows the reference semantics. -/
theorem mem_call_sem (m : MemSt) (c : DCall) (h : c.wf m.buf.length) :
    m.call c = .ok ⟨c.sem m.buf⟩ := by
  cases c with
  | flush => rfl
  | resize n => rfl
  | write pos bs =>
    simp only [DCall.wf] at h
    simp only [MemSt.call, MemSt.write, DCall.sem]
    by_cases hb : bs.isEmpty
    · have : bs = [] := by cases bs <;> simp_all
      subst this
      simp only [List.length_nil, Nat.add_zero, List.append_nil, List.isEmpty_nil, if_true]
      split
      · simp
      · have : pos = m.buf.length := by omega
        subst this
        simp [setLen_self]
    · simp only [hb, Bool.false_eq_true, if_false]
      split
      · rw [writeAt_inrange _ _ _ h]
      · rename_i hlt
        have : m.buf.drop (pos + bs.length) = [] := List.drop_of_length_le (by omega)
        rw [writeAt_inrange _ _ _ h, this]
        simp [setLen, Nat.sub_eq_zero_of_le h]

/-- One call: the data file follows the reference semantics. -/
theorem file_call_sem (f : FileSt) (c : DCall) (h : c.wf f.disk.data.length) :
    ∃ f', f.call c = .ok f' ∧ f'.disk.data = c.sem f.disk.data := by
  cases c with
  | flush => exact ⟨_, rfl, by simp [FileSt.flush, execOp_data, dataAfter, DCall.sem]⟩
  | resize n => exact ⟨_, rfl, by simp [execOp_data, dataAfter, DCall.sem]⟩
  | write pos bs =>
    simp only [DCall.wf] at h
    simp only [FileSt.call, FileSt.write, DCall.sem]
    by_cases hb : bs.isEmpty
    · simp [hb]
    · simp only [hb, Bool.false_eq_true, if_false, Nat.not_lt.mpr h]
      exact ⟨_, rfl, by simp [execOp_data, dataAfter, hb]⟩

def runCalls (d : Bytes) : List DCall → Bytes
  | [] => d
  | c :: cs => runCalls (c.sem d) cs

def wfCalls (d : Bytes) : List DCall → Prop
  | [] => True
  | c :: cs => c.wf d.length ∧ wfCalls (c.sem d) cs

def MemSt.run (m : MemSt) : List DCall → BOut MemSt
  | [] => .ok m
  | c :: cs => match m.call c with
    | .ok m' => m'.run cs
    | .err => .err
    | .panic => .panic

def FileSt.run (f : FileSt) : List DCall → BOut FileSt
  | [] => .ok f
  | c :: cs => match f.call c with
    | .ok f' => f'.run cs
    | .err => .err
    | .panic => .panic

def MapSt.run (x : MapSt) : List DCall → BOut MapSt
  | [] => .ok x
  | c :: cs => match x.call c with
    | .ok x' => x'.run cs
    | .err => .err
    | .panic => .panic

theorem mem_run (cs : List DCall) : ∀ (m : MemSt), wfCalls m.buf cs →
    m.run cs = .ok ⟨runCalls m.buf cs⟩ := by
  induction cs with
  | nil => intro m _; rfl
  | cons c cs ih =>
    intro m h
    simp only [MemSt.run, mem_call_sem m c h.1]
    exact ih ⟨c.sem m.buf⟩ h.2

theorem file_run (cs : List DCall) : ∀ (f : FileSt), wfCalls f.disk.data cs →
    ∃ f', f.run cs = .ok f' ∧ f'.disk.data = runCalls f.disk.data cs := by
  induction cs with
  | nil => intro f _; exact ⟨f, rfl, rfl⟩
  | cons c cs ih =>
    intro f h
    obtain ⟨f1, h1, h2⟩ := file_call_sem f c h.1
    simp only [FileSt.run, h1]
    have := ih f1 (by rw [h2]; exact h.2)
    rw [h2] at this
    exact this

theorem map_call_sem (x : MapSt) (c : DCall) (hs : x.mem.buf = x.file.disk.data)
    (h : c.wf x.mem.buf.length) :
    ∃ x', x.call c = .ok x' ∧ x'.mem.buf = c.sem x.mem.buf ∧ x'.mem.buf = x'.file.disk.data := by
  obtain ⟨f1, h1, h2⟩ := file_call_sem x.file c (by rw [← hs]; exact h)
  have hm := mem_call_sem x.mem c h
  cases c with
  | flush =>
    refine ⟨⟨x.file.flush, x.mem⟩, rfl, by simp [DCall.sem], ?_⟩
    simp [FileSt.flush, execOp_data, dataAfter, hs]
  | resize n =>
    simp only [MemSt.call] at hm
    simp only [FileSt.call] at h1
    refine ⟨⟨f1, ⟨DCall.sem x.mem.buf (.resize n)⟩⟩, by simp [MapSt.call, MapSt.resize, hm, h1], rfl, ?_⟩
    simp [h2, hs]
  | write pos bs =>
    simp only [MemSt.call] at hm
    simp only [FileSt.call] at h1
    refine ⟨⟨f1, ⟨DCall.sem x.mem.buf (.write pos bs)⟩⟩, by simp [MapSt.call, MapSt.write, hm, h1], rfl, ?_⟩
    simp [h2, hs]

theorem map_run (cs : List DCall) : ∀ (x : MapSt), x.mem.buf = x.file.disk.data → wfCalls x.mem.buf cs →
    ∃ x', x.run cs = .ok x' ∧ x'.mem.buf = runCalls x.mem.buf cs ∧ x'.mem.buf = x'.file.disk.data := by
  induction cs with
  | nil => intro x hs _; exact ⟨x, rfl, rfl, hs⟩
  | cons c cs ih =>
    intro x hs h
    obtain ⟨x1, h1, h2, h3⟩ := map_call_sem x c hs h.1
    simp only [MapSt.run, h1]
    have := ih x1 h3 (by rw [h2]; exact h.2)
    rw [h2] at this
    exact this

/-- **C06 (storage core).** Started from the same bytes, after any sequence of calls whose writes
do not start past the end, the in-memory, file and memory-mapped back-ends all succeed (no error,
no panic), hold the same bytes (hence report the same `len`), and every in-range read returns the
same bytes on all three. -/
theorem C06_backends_equiv (d : Bytes) (wal : Bytes) (cs : List DCall) (h : wfCalls d cs) :
    ∃ (m : MemSt) (f : FileSt) (x : MapSt),
      (MemSt.mk d).run cs = .ok m ∧ (FileSt.mk ⟨d, wal⟩).run cs = .ok f ∧
      (MapSt.mk ⟨⟨d, wal⟩⟩ ⟨d⟩).run cs = .ok x ∧
      m.buf = runCalls d cs ∧ f.disk.data = runCalls d cs ∧ x.mem.buf = runCalls d cs ∧
      x.file.disk.data = runCalls d cs ∧
      ∀ pos n, pos + n ≤ (runCalls d cs).length →
        m.read pos n = .ok (readAt (runCalls d cs) pos n) ∧
        f.read pos n = .ok (readAt (runCalls d cs) pos n) ∧
        x.read pos n = .ok (readAt (runCalls d cs) pos n) := by
  have hm := mem_run cs ⟨d⟩ h
  obtain ⟨f, hf1, hf2⟩ := file_run cs ⟨⟨d, wal⟩⟩ h
  obtain ⟨x, hx1, hx2, hx3⟩ := map_run cs ⟨⟨⟨d, wal⟩⟩, ⟨d⟩⟩ rfl h
  refine ⟨_, f, x, hm, hf1, hx1, rfl, hf2, hx2, by rw [← hx3, hx2], ?_⟩
  intro pos n hn
  simp only at hf2 hx2
  refine ⟨by simp [MemSt.read, hn], by simp [FileSt.read, hf2, hn], by simp [MapSt.read, MemSt.read, hx2, hn]⟩

/-- Outside the hypothesis the back-ends really differ (so the hypothesis is not decoration): an
empty write past the end grows the in-memory buffer but leaves the file alone. -/
theorem C06_past_end_differs :
    (MemSt.mk [1]).call (.write 3 []) = .ok ⟨[1, 0, 0]⟩ ∧
    (FileSt.mk ⟨[1], []⟩).call (.write 3 []) = .ok ⟨⟨[1], []⟩⟩ := by decide

/-- and a non-empty one panics in the file back-end only. -/
theorem C06_past_end_panics :
    (FileSt.mk ⟨[1], []⟩).call (.write 3 [7]) = .panic ∧
    (MemSt.mk [1]).call (.write 3 [7]) = .ok ⟨[1, 0, 0, 7]⟩ := by decide

example : wfCalls [1, 2, 3] [.write 3 [4, 5], .write 1 [9], .resize 2, .write 2 [], .flush, .resize 6] := by
  simp [wfCalls, DCall.wf, DCall.sem, writeAt, setLen]

end AgdbStorage
