import AgdbStorage.Lemmas.RecoveryOps
/-
C01 — Log recovery restores the last committed storage content at every crash point.

Model: `AgdbStorage/Model/Wal.lean` (`FileStorage` + `WriteAheadLog`, after the repair commit
"fix: replay the recovery log newest-first…").  A crash point is a proper prefix of the mutating
file-system calls of the run, optionally followed by a *torn* write (any strict byte prefix of a
`write_all`), on the data file or on the log.  `recover` is `FileStorage::new` on the two files
(and `Drop for FileStorage`).
-/
namespace AgdbStorage

theorem C01_general (ops : List FsOp) : ∀ (s : St), Inv s.committed s.disk → wfOps s.disk.data ops →
    ∀ dc ∈ allCrashes s ops, recover dc.1 = ⟨dc.2, []⟩ := by
  induction ops with
  | nil =>
    intro s hinv _ dc hdc
    simp only [allCrashes, List.mem_singleton] at hdc
    subst hdc
    exact good_of_inv _ _ hinv
  | cons op ops ih =>
    intro s hinv hwf dc hdc
    obtain ⟨⟨data, wal⟩, c⟩ := s
    obtain ⟨rs, hok, hw, hu⟩ := hinv
    simp only at hw hu
    subst hw
    obtain ⟨hwf1, hwf2⟩ := hwf
    obtain ⟨h1, h2, h3⟩ := op_crash data c rs op hok hu hwf1
    simp only [allCrashes, List.mem_append, List.mem_map] at hdc
    rcases hdc with ⟨d, hd, rfl⟩ | hdc
    · exact h1 d hd
    · apply ih (stepOp ⟨⟨data, serAll rs⟩, c⟩ op) ?_ ?_ dc hdc
      · simp only [stepOp, execOp]
        rw [h3]
        exact h2
      · simp only [stepOp, execOp]
        rw [h3]
        exact hwf2

/-- **C01.** From any file content `d0` with an empty log, for every well-formed sequence of
`write`/`resize`/`flush` calls and every crash point of it (between any two file-system calls or
inside a `write_all` on either file), reopening yields exactly the content at the last completed
`flush` (`d0` if none) and an empty log. -/
theorem C01_recover_every_crash_point (d0 : Bytes) (ops : List FsOp) (h : wfOps d0 ops) :
    ∀ dc ∈ allCrashes ⟨⟨d0, []⟩, d0⟩ ops, recover dc.1 = ⟨dc.2, []⟩ :=
  C01_general ops ⟨⟨d0, []⟩, d0⟩ ⟨[], by intro r hr; simp at hr, rfl, rfl⟩ h

def run (s : St) (ops : List FsOp) : St := ops.foldl stepOp s

theorem allCrashes_last (ops : List FsOp) : ∀ s : St,
    ((run s ops).disk, (run s ops).committed) ∈ allCrashes s ops := by
  induction ops with
  | nil => intro s; simp [run, allCrashes]
  | cons op ops ih =>
    intro s
    simp only [run, List.foldl_cons, allCrashes, List.mem_append]
    exact Or.inr (ih (stepOp s op))

/-- Dropping the storage with an unfinished transaction (`Drop` runs `apply_wal` then clears the
log) has the same effect: the content at the last completed flush. -/
theorem C01_drop (d0 : Bytes) (ops : List FsOp) (h : wfOps d0 ops) :
    recover (run ⟨⟨d0, []⟩, d0⟩ ops).disk = ⟨(run ⟨⟨d0, []⟩, d0⟩ ops).committed, []⟩ :=
  C01_recover_every_crash_point d0 ops h _ (allCrashes_last ops _)

/-- The recovered length is the committed length (stated separately because the property names it). -/
theorem C01_recovered_length (d0 : Bytes) (ops : List FsOp) (h : wfOps d0 ops) :
    ∀ dc ∈ allCrashes ⟨⟨d0, []⟩, d0⟩ ops, (recover dc.1).data.length = dc.2.length := by
  intro dc hdc
  rw [C01_recover_every_crash_point d0 ops h dc hdc]

/-- A completed flush makes the current content the committed one. -/
theorem C01_flush_commits (s : St) : (stepOp s .flush).committed = (stepOp s .flush).disk.data := by
  simp [stepOp, isFlush]

/- Non-vacuity: a trace that writes the same region twice, appends, shrinks, grows and commits in
the middle is well-formed and has 100+ crash states, each of which recovers. -/
def exampleOps : List FsOp :=
  [.write 0 [2, 2, 2, 2], .write 0 [3, 3, 3, 3], .write 4 [7, 7], .flush, .resize 3, .write 1 [9],
   .resize 5, .write 5 [4]]

example : wfOps [1, 1, 1, 1] exampleOps := by
  simp [wfOps, exampleOps, FsOp.wf, dataAfter, writeAt, setLen]

example : (allCrashes ⟨⟨[1, 1, 1, 1], []⟩, [1, 1, 1, 1]⟩ exampleOps).length = 166 := by decide +kernel

/-! ### The unrepaired code (witnesses; each was replayed on the real `FileStorage`) -/

def runLegacy (d : Disk) (ops : List FsOp) : Disk := ops.foldl execOpLegacy d

/-- C01a: two writes to one region in a transaction; the old `apply_wal` replays oldest-first and
leaves the intermediate content. -/
theorem C01_replay_order_counterexample :
    (recoverLegacy (runLegacy ⟨[1, 1, 1, 1], []⟩ [.write 0 [2, 2, 2, 2], .write 0 [3, 3, 3, 3]])).data
      = [2, 2, 2, 2] := by decide

/-- C01b: a zero-length write inside the file was logged as "the file ended here". -/
theorem C01_zero_len_counterexample :
    (recoverLegacy (runLegacy ⟨[1, 1, 1, 1, 1, 1, 1, 1], []⟩ [.write 4 []])).data = [1, 1, 1, 1] := by
  decide

/-- C01c: growth by `resize` was logged as "truncate to the new length", i.e. not undone. -/
theorem C01_grow_counterexample :
    (recoverLegacy (runLegacy ⟨[1], []⟩ [.resize 3])).data = [1, 0, 0] := by decide

/-- The repaired replay order alone does not cure C01b/C01c: the records themselves were wrong. -/
theorem C01_zero_len_counterexample_newest_first :
    (recover (runLegacy ⟨[1, 1, 1, 1, 1, 1, 1, 1], []⟩ [.write 4 []])).data = [1, 1, 1, 1] := by
  decide

end AgdbStorage
