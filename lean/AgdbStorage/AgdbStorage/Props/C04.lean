import AgdbStorage.Model.StorageSpec
import AgdbStorage.Lemmas.AllocReach
import AgdbStorage.Lemmas.AllocWfAll
import AgdbStorage.Lemmas.AllocUnbounded
/-
C04 — Stored data survives any pattern of space reuse and defragmentation.

Full-strength statements over every reachable state of the record-allocator model
(`Model/Storage.lean`), as a refinement to the map `index ↦ bytes` (`Model/StorageSpec.lean`).

Explicit `u64` hypothesis.  The model computes with unbounded naturals while the file format stores
indices and sizes as `u64` (`le8` wraps).  Decoding a header (`reopen`) is therefore only faithful
when the file length and the slot-table length fit `u64` — `Fits s` (`Lemmas/AllocDefs.lean`):
`s.data.length < 2^64 ∧ s.records.recs.length ≤ 2^64`, which always holds in reality.
`ReachableF` is `Reachable` where, in addition, every `reopen` of the history happens in a state
with `Fits` (`ReachableF.reachable : ReachableF s → Reachable s`).  No other operation needs a bound.

The representation invariant behind all theorems is `SInv` (`Lemmas/AllocDefs.lean`): slot table
well formed, the blocks (live records and free regions) tile `[24, len)` without overlap, every block
header is on disk; `ReachableF.inv : ReachableF s → SInv s`.
-/
namespace AgdbStorage

/-- **Refinement.** Every operation, from every reachable state, has exactly the effect of the
specification step on the observable map, fails exactly when the specification says so, and an
`insert` returns an index that was not readable before. -/
def C04_refines_statement : Prop :=
  ∀ (s : Storage) (op : SOp), ReachableF s → (op = .reopen → s.txn = 0 ∧ Fits s) →
    let r := s.step op
    r.1.abs = specStep s.abs op r.2 ∧
    ((∃ e, r.2 = .error e) ↔ specFails s.abs s.txn op) ∧
    (∀ b i, op = .insert b → r.2 = .ok (some i) → s.abs i = none ∧ i ≠ 0)

theorem C04_refines : C04_refines_statement := by
  intro s op hr hop
  have h := stepOK allSpecs s hr.inv op (fun e => (hop e).2)
  exact ⟨h.abs, h.fails, h.fresh⟩

/-- Every live value reads back exactly as last written, after any history. -/
def C04_read_back_statement : Prop :=
  ∀ (s : Storage) (i : Nat) (b : Bytes), ReachableF s →
    ((s.step (.insert b)).2 = .ok (some i) → (s.step (.insert b)).1.abs i = some b) ∧
    (s.abs i ≠ none → (s.step (.replace i b)).1.abs i = some b)

theorem C04_read_back : C04_read_back_statement := by
  intro s i b hr
  constructor
  · intro hok
    have h := stepOK allSpecs s hr.inv (.insert b) (fun e => by cases e)
    rw [h.abs, hok]
    show Spec.set s.abs i (some b) i = _
    simp [Spec.set]
  · intro hne
    have h := stepOK allSpecs s hr.inv (.replace i b) (fun e => by cases e)
    rw [h.abs]
    cases hres : (s.step (.replace i b)).2 with
    | error e =>
      have : specFails s.abs s.txn (.replace i b) := h.fails.mp ⟨e, hres⟩
      exact absurd this hne
    | ok res =>
      show Spec.set s.abs i (some b) i = _
      simp [Spec.set]

/-- Deleted values are no longer readable. -/
def C04_removed_unreadable_statement : Prop :=
  ∀ (s : Storage) (i : Nat), ReachableF s → (s.step (.remove i)).1.abs i = none

theorem C04_removed_unreadable : C04_removed_unreadable_statement := by
  intro s i hr
  have h := stepOK allSpecs s hr.inv (.remove i) (fun e => by cases e)
  rw [h.abs]
  cases hres : (s.step (.remove i)).2 with
  | error e => exact h.fails.mp ⟨e, hres⟩
  | ok res =>
    show Spec.set s.abs i none i = _
    simp [Spec.set]

/-- Operations on one index never change another index's value (space reuse is invisible). -/
def C04_frame_statement : Prop :=
  ∀ (s : Storage) (op : SOp) (j : Nat), ReachableF s → (op = .reopen → s.txn = 0 ∧ Fits s) →
    (∀ b, op ≠ .insert b) →
    (match op with
      | .insertAt i _ _ | .moveAt i _ _ _ | .remove i | .replace i _ | .resize i _ => j ≠ i
      | _ => True) →
    (s.step op).1.abs j = s.abs j

theorem Spec.set_ne (m : Spec) (i j : Nat) (v : Option Bytes) (h : j ≠ i) : Spec.set m i v j = m j := by
  simp [Spec.set, h]

theorem C04_frame : C04_frame_statement := by
  intro s op j hr hop hni hj
  have h := stepOK allSpecs s hr.inv op (fun e => (hop e).2)
  rw [h.abs]
  cases (s.step op).2 with
  | error e => rfl
  | ok res =>
    cases op with
    | insert b => exact absurd rfl (hni b)
    | insertAt i off b =>
      dsimp only [specStep]
      cases s.abs i with
      | none => rfl
      | some v => exact Spec.set_ne _ _ _ _ hj
    | moveAt i f t n =>
      dsimp only [specStep]
      cases s.abs i with
      | none => rfl
      | some v => exact Spec.set_ne _ _ _ _ hj
    | remove i => exact Spec.set_ne _ _ _ _ hj
    | replace i b => exact Spec.set_ne _ _ _ _ hj
    | resize i n =>
      dsimp only [specStep]
      cases s.abs i with
      | none => rfl
      | some v => exact Spec.set_ne _ _ _ _ hj
    | optimize => rfl
    | reopen => rfl
    | begin => rfl
    | commit id => rfl

/-- Defragmenting preserves every value and leaves no unused space:
`len = 24 + Σ (16 + size)` over live values, no free regions. -/
def C04_optimize_statement : Prop :=
  ∀ (s : Storage), ReachableF s →
    let s' := (s.step .optimize).1
    s'.abs = s.abs ∧ s'.records.free = [] ∧
    s'.len = 24 + ((s'.records.recs.filter s'.records.isValid).map fun r => 16 + r.size).sum

theorem C04_optimize : C04_optimize_statement := by
  intro s hr
  have h := stepOK allSpecs s hr.inv .optimize (fun e => by cases e)
  obtain ⟨o1, _, _, _, _, o6, o7⟩ := optimize_spec s hr.inv
  refine ⟨?_, o6, o7⟩
  rw [h.abs]
  cases (s.step .optimize).2 <;> rfl

/-- Reopening (re-reading the record table from the bytes) succeeds and preserves every value. -/
def C04_reopen_statement : Prop :=
  ∀ (s : Storage), ReachableF s → s.txn = 0 → Fits s →
    (s.step .reopen).2 = .ok none ∧ (s.step .reopen).1.abs = s.abs

theorem C04_reopen : C04_reopen_statement := by
  intro s hr _ hf
  obtain ⟨h, hok⟩ := stepOK_reopen allSpecs s hr.inv hf
  refine ⟨hok, ?_⟩
  rw [h.abs, hok]
  rfl

/-- The reopen statement as first written — plain `Reachable`, no `u64` hypothesis.  It is FALSE of
the model (not of the Rust code): the model's naturals are unbounded, so a value of `2^64` bytes can
be inserted, its header stores the size modulo `2^64`, and after `reopen` no value can be that long.
This is why `Fits` / `ReachableF` appear in the theorems above. -/
def C04_reopen_unbounded_statement : Prop :=
  ∀ (s : Storage), Reachable s → s.txn = 0 →
    (s.step .reopen).2 = .ok none ∧ (s.step .reopen).1.abs = s.abs

theorem C04_reopen_unbounded_counterexample : ¬ C04_reopen_unbounded_statement :=
  reopen_unbounded_counterexample

/-- Link to C01: every `StorageData::write` call a storage operation issues lies inside the file
or starts exactly at its end, and every offset fits `u64` (`wfOps`, `FsOp.wf` of `Model/Wal.lean`),
so the C01 theorem applies to every history of storage operations.  Explicit `u64` hypothesis: the
file may grow by at most `2 * op.size + 32` bytes, where `op.size` (`SOp.size`, `Lemmas/AllocWf.lean`)
is the length of the value written (`insert`, `replace`: `|b|`; `insertAt`: `off + |b|`; `moveAt`:
`to + n`; `resize`: `n`; otherwise 0).  (That `flush` is issued exactly when the outermost
transaction completes is `C01b_flush_outermost`, `Props/C01b.lean`.) -/
def C04_calls_wellformed_statement : Prop :=
  ∀ (s : Storage) (op : SOp), ReachableF s → op ≠ .reopen →
    s.len + 2 * op.size + 32 < 2 ^ 64 →
    wfOps s.data ((s.step op).1.trace.drop s.trace.length)

theorem C04_calls_wellformed : C04_calls_wellformed_statement :=
  fun _ op hr hop hb => hr.step_wf op hop hb

/-- The representation invariant holds after any history (exported for other properties). -/
theorem C04_invariant : ∀ s, ReachableF s → SInv s := fun _ h => h.inv

/-! ### non-vacuity -/

/-- a non-trivial reachable state: two values inserted, the first removed (a free region exists) -/
def exState : Storage :=
  (((Storage.create.step (.insert [1, 2, 3])).1.step (.insert [4, 5])).1.step (.remove 1)).1

theorem exState_reachable : ReachableF exState :=
  .step _ _ (.step _ _ (.step _ _ .create (fun e => by cases e)) (fun e => by cases e))
    (fun e => by cases e)

example : exState.abs 2 = some [4, 5] ∧ exState.abs 1 = none ∧ exState.records.free ≠ [] := by
  decide

example : exState.txn = 0 ∧ Fits exState := by
  refine ⟨rfl, ?_, ?_⟩
  · show exState.data.length < 2 ^ 64; decide
  · show exState.records.recs.length ≤ 2 ^ 64; decide

/-- the hypotheses of `C04_refines` / `C04_frame` are satisfiable (including for `reopen`) -/
example : ∃ s op, ReachableF s ∧ (op = SOp.reopen → s.txn = 0 ∧ Fits s) ∧ op = .reopen :=
  ⟨exState, .reopen, exState_reachable, fun _ => ⟨rfl, by
    refine ⟨?_, ?_⟩
    · show exState.data.length < 2 ^ 64; decide
    · show exState.records.recs.length ≤ 2 ^ 64; decide⟩, rfl⟩

/-- `read_back`: an insert into the example state reuses the free region and slot 1 -/
example : (exState.step (.insert [9])).2 = .ok (some 1) ∧
    (exState.step (.insert [9])).1.abs 1 = some [9] := ⟨rfl, by decide⟩

example : exState.abs 2 ≠ none := by decide

/-- `calls_wellformed`: the bound is satisfiable and the operation issues calls (2 writes + flush) -/
example : exState.len + 2 * (SOp.insert [9]).size + 32 < 2 ^ 64 ∧
    ((exState.step (.insert [9])).1.trace.drop exState.trace.length).length = 3 := by decide

end AgdbStorage
