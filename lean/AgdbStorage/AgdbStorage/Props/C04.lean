import AgdbStorage.Model.StorageSpec
/-
C04 — Stored data survives any pattern of space reuse and defragmentation.

Full-strength statements over every reachable state of the record-allocator model
(`Model/Storage.lean`), as a refinement to the map `index ↦ bytes` (`Model/StorageSpec.lean`).
Statements not yet proved are kept here as `def …_statement : Prop`; proved ones are theorems.
-/
namespace AgdbStorage

/-- **Refinement.** Every operation, from every reachable state, has exactly the effect of the
specification step on the observable map, fails exactly when the specification says so, and an
`insert` returns an index that was not readable before. -/
def C04_refines_statement : Prop :=
  ∀ (s : Storage) (op : SOp), Reachable s → (op = .reopen → s.txn = 0) →
    let r := s.step op
    r.1.abs = specStep s.abs op r.2 ∧
    ((∃ e, r.2 = .error e) ↔ specFails s.abs s.txn op) ∧
    (∀ b i, op = .insert b → r.2 = .ok (some i) → s.abs i = none ∧ i ≠ 0)

/-- Every live value reads back exactly as last written, after any history. -/
def C04_read_back_statement : Prop :=
  ∀ (s : Storage) (i : Nat) (b : Bytes), Reachable s →
    ((s.step (.insert b)).2 = .ok (some i) → (s.step (.insert b)).1.abs i = some b) ∧
    (s.abs i ≠ none → (s.step (.replace i b)).1.abs i = some b)

/-- Deleted values are no longer readable. -/
def C04_removed_unreadable_statement : Prop :=
  ∀ (s : Storage) (i : Nat), Reachable s → (s.step (.remove i)).1.abs i = none

/-- Operations on one index never change another index's value (space reuse is invisible). -/
def C04_frame_statement : Prop :=
  ∀ (s : Storage) (op : SOp) (j : Nat), Reachable s → (op = .reopen → s.txn = 0) →
    (∀ b, op ≠ .insert b) →
    (match op with
      | .insertAt i _ _ | .moveAt i _ _ _ | .remove i | .replace i _ | .resize i _ => j ≠ i
      | _ => True) →
    (s.step op).1.abs j = s.abs j

/-- Defragmenting preserves every value and leaves no unused space:
`len = 24 + Σ (16 + size)` over live values, no free regions. -/
def C04_optimize_statement : Prop :=
  ∀ (s : Storage), Reachable s →
    let s' := (s.step .optimize).1
    s'.abs = s.abs ∧ s'.records.free = [] ∧
    s'.len = 24 + ((s'.records.recs.filter s'.records.isValid).map fun r => 16 + r.size).sum

/-- Reopening (re-reading the record table from the bytes) preserves every value. -/
def C04_reopen_statement : Prop :=
  ∀ (s : Storage), Reachable s → s.txn = 0 →
    (s.step .reopen).2 = .ok none ∧ (s.step .reopen).1.abs = s.abs

/-- Link to C01: every `StorageData::write` call a storage operation issues lies inside the file
or starts exactly at its end (so the C01 theorem applies to every history of storage operations),
and `flush` is issued exactly when the outermost transaction completes. -/
def C04_calls_wellformed_statement : Prop :=
  ∀ (s : Storage) (op : SOp), Reachable s → op ≠ .reopen →
    wfOps s.data ((s.step op).1.trace.drop s.trace.length) ∨ s.len ≥ 2 ^ 64

end AgdbStorage
