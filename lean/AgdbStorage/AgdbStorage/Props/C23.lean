import AgdbStorage.Model.Readers
/-
C23 — Concurrent reads see the same results as sequential reads (storage core).

For ANY number of reader threads and ANY interleaving of their atomic steps, every completed
`FileStorage::read(pos, n)` returns exactly what the same read returns when run alone:
the bytes `[pos, pos+n)` of the (unchanging) file, or the same error past the end.
Everything above `read` is a pure function of read results, so every query returns its
sequential result.
-/
namespace AgdbStorage

/-- the lock holder is exactly the thread inside the critical section; a positioned shared handle
belongs to its holder's request; the log is correct so far -/
structure RInv (s : RState) : Prop where
  holder : ∀ t, (∃ r, s.pcs t = .lseek r ∨ s.pcs t = .lread r) ↔ s.lock = some t
  positioned : ∀ t r, s.pcs t = .lread r → s.cursor = r.pos
  private_pos : ∀ t r cur, s.pcs t = .fread r cur → cur = r.pos
  log_ok : ∀ e ∈ s.log, e.2.2 = readExact s.file e.2.1.pos e.2.1.n

theorem rinv_init (file : Bytes) (c : Nat) : RInv (RState.init file c) := by
  constructor
  · intro t; simp [RState.init]
  · intro t r h; simp [RState.init] at h
  · intro t r cur h; simp [RState.init] at h
  · intro e h; simp [RState.init] at h

theorem rinv_step (s : RState) (ev : REv) (h : RInv s) : RInv (s.step ev) := by
  obtain ⟨hh, hp, hf, hl⟩ := h
  cases ev with
  | start t r =>
    simp only [RState.step]
    cases hpc : s.pcs t with
    | idle =>
      by_cases hr : r.pos + r.n > s.file.length
      · simp only [hr, if_true]
        refine ⟨hh, hp, hf, ?_⟩
        intro e he
        simp only [List.mem_cons] at he
        rcases he with rfl | he
        · simp [readExact]; omega
        · exact hl e he
      simp only [hr, if_false]
      cases hlk : s.lock with
      | none =>
        constructor
        · intro u
          simp only [setPc]
          by_cases hu : u = t
          · subst hu; simp
          · simp only [hu, if_false]
            constructor
            · intro hx
              have := (hh u).mp hx
              rw [hlk] at this; cases this
            · intro hx
              simp at hx; exact absurd hx.symm hu
        · intro u q hq
          simp only [setPc] at hq
          by_cases hu : u = t
          · subst hu; simp at hq
          · simp only [hu, if_false] at hq; exact hp u q hq
        · intro u q cur hq
          simp only [setPc] at hq
          by_cases hu : u = t
          · subst hu; simp at hq
          · simp only [hu, if_false] at hq; exact hf u q cur hq
        · exact hl
      | some w =>
        constructor
        · intro u
          simp only [setPc]
          by_cases hu : u = t
          · subst hu
            simp only [if_true]
            constructor
            · rintro ⟨q, hq | hq⟩ <;> cases hq
            · intro hx
              have := (hh u).mpr (by rw [hlk]; exact hx)
              rw [hpc] at this
              obtain ⟨q, hq | hq⟩ := this <;> cases hq
          · simp only [hu, if_false]; rw [← hlk]; exact hh u
        · intro u q hq
          simp only [setPc] at hq
          by_cases hu : u = t
          · subst hu; simp at hq
          · simp only [hu, if_false] at hq; exact hp u q hq
        · intro u q cur hq
          simp only [setPc] at hq
          by_cases hu : u = t
          · subst hu; simp at hq
          · simp only [hu, if_false] at hq; exact hf u q cur hq
        · exact hl
    | lseek q => exact ⟨hh, hp, hf, hl⟩
    | lread q => exact ⟨hh, hp, hf, hl⟩
    | fseek q => exact ⟨hh, hp, hf, hl⟩
    | fread q c => exact ⟨hh, hp, hf, hl⟩
  | step t =>
    simp only [RState.step]
    cases hpc : s.pcs t with
    | idle => exact ⟨hh, hp, hf, hl⟩
    | lseek r =>
      have hlock : s.lock = some t := (hh t).mp ⟨r, Or.inl hpc⟩
      constructor
      · intro u
        simp only [setPc]
        by_cases hu : u = t
        · subst hu; simp [hlock]
        · simp only [hu, if_false]; exact hh u
      · intro u q hq
        simp only [setPc] at hq
        by_cases hu : u = t
        · subst hu; simp at hq; subst hq; rfl
        · simp only [hu, if_false] at hq
          -- another thread in `lread` would hold the lock too
          have := (hh u).mp ⟨q, Or.inr hq⟩
          rw [hlock] at this
          exact absurd (Option.some.inj this).symm hu
      · intro u q cur hq
        simp only [setPc] at hq
        by_cases hu : u = t
        · subst hu; simp at hq
        · simp only [hu, if_false] at hq; exact hf u q cur hq
      · exact hl
    | lread r =>
      have hlock : s.lock = some t := (hh t).mp ⟨r, Or.inr hpc⟩
      have hcur : s.cursor = r.pos := hp t r hpc
      constructor
      · intro u
        simp only [setPc]
        by_cases hu : u = t
        · subst hu; simp
        · simp only [hu, if_false]
          constructor
          · intro hx
            have := (hh u).mp hx
            rw [hlock] at this
            exact absurd (Option.some.inj this).symm hu
          · intro hx; cases hx
      · intro u q hq
        simp only [setPc] at hq
        by_cases hu : u = t
        · subst hu; simp at hq
        · simp only [hu, if_false] at hq
          have := (hh u).mp ⟨q, Or.inr hq⟩
          rw [hlock] at this
          exact absurd (Option.some.inj this).symm hu
      · intro u q cur hq
        simp only [setPc] at hq
        by_cases hu : u = t
        · subst hu; simp at hq
        · simp only [hu, if_false] at hq; exact hf u q cur hq
      · intro e he
        simp only [List.mem_cons] at he
        rcases he with rfl | he
        · simp [hcur]
        · exact hl e he
    | fseek r =>
      constructor
      · intro u
        simp only [setPc]
        by_cases hu : u = t
        · subst hu
          simp only [if_true]
          constructor
          · rintro ⟨q, hq | hq⟩ <;> cases hq
          · intro hx
            have := (hh u).mpr hx
            rw [hpc] at this
            obtain ⟨q, hq | hq⟩ := this <;> cases hq
        · simp only [hu, if_false]; exact hh u
      · intro u q hq
        simp only [setPc] at hq
        by_cases hu : u = t
        · subst hu; simp at hq
        · simp only [hu, if_false] at hq; exact hp u q hq
      · intro u q cur hq
        simp only [setPc] at hq
        by_cases hu : u = t
        · subst hu; simp at hq; obtain ⟨rfl, rfl⟩ := hq; rfl
        · simp only [hu, if_false] at hq; exact hf u q cur hq
      · exact hl
    | fread r cur =>
      have hc : cur = r.pos := hf t r cur hpc
      constructor
      · intro u
        simp only [setPc]
        by_cases hu : u = t
        · subst hu
          simp only [if_true]
          constructor
          · rintro ⟨q, hq | hq⟩ <;> cases hq
          · intro hx
            have := (hh u).mpr hx
            rw [hpc] at this
            obtain ⟨q, hq | hq⟩ := this <;> cases hq
        · simp only [hu, if_false]; exact hh u
      · intro u q hq
        simp only [setPc] at hq
        by_cases hu : u = t
        · subst hu; simp at hq
        · simp only [hu, if_false] at hq; exact hp u q hq
      · intro u q c2 hq
        simp only [setPc] at hq
        by_cases hu : u = t
        · subst hu; simp at hq
        · simp only [hu, if_false] at hq; exact hf u q c2 hq
      · intro e he
        simp only [List.mem_cons] at he
        rcases he with rfl | he
        · simp [hc]
        · exact hl e he

theorem rinv_run (evs : List REv) : ∀ s, RInv s → RInv (s.run evs) := by
  induction evs with
  | nil => intro s h; exact h
  | cons e es ih => intro s h; exact ih _ (rinv_step s e h)

theorem run_file (evs : List REv) : ∀ s : RState, (s.run evs).file = s.file := by
  induction evs with
  | nil => intro s; rfl
  | cons e es ih =>
    intro s
    simp only [RState.run, List.foldl_cons] at ih ⊢
    rw [ih]
    cases e with
    | start t r =>
      simp only [RState.step]
      split <;> try rfl
      split <;> try rfl
      split <;> rfl
    | step t =>
      simp only [RState.step]
      split <;> rfl

/-- **C23 (storage core).** For every file, every initial position of the shared handle, and every
schedule of any number of threads, each completed read `(pos, n)` returned exactly the bytes
`[pos, pos+n)` of the file (or the end-of-file error), i.e. its sequential result. -/
theorem C23_reads_correct (file : Bytes) (c : Nat) (evs : List REv) :
    ∀ e ∈ ((RState.init file c).run evs).log, e.2.2 = readExact file e.2.1.pos e.2.1.n := by
  have h := rinv_run evs _ (rinv_init file c)
  have hf := run_file evs (RState.init file c)
  intro e he
  have := h.log_ok e he
  rw [hf] at this
  exact this

/-- Mutual exclusion on the shared handle, in every reachable state. -/
theorem C23_mutual_exclusion (file : Bytes) (c : Nat) (evs : List REv) (t u : Nat) (r q : Req)
    (ht : ((RState.init file c).run evs).pcs t = .lread r ∨ ((RState.init file c).run evs).pcs t = .lseek r)
    (hu : ((RState.init file c).run evs).pcs u = .lread q ∨ ((RState.init file c).run evs).pcs u = .lseek q) :
    t = u := by
  have h := rinv_run evs _ (rinv_init file c)
  have a := (h.holder t).mp ⟨r, ht.symm⟩
  have b := (h.holder u).mp ⟨q, hu.symm⟩
  rw [a] at b
  exact Option.some.inj b

def runNoLock (s : RState) (evs : List REv) : RState := evs.foldl RState.stepNoLock s

/-- Non-vacuity / the lock matters: without the mutex two readers interleaving seek and read on
the shared handle get the wrong bytes. -/
theorem C23_without_lock_counterexample :
    (runNoLock (RState.init [10, 11, 12, 13] 0)
      [.start 0 ⟨0, 2⟩, .start 1 ⟨2, 2⟩, .step 0, .step 1, .step 0, .step 1]).log
      = [(1, ⟨2, 2⟩, none), (0, ⟨0, 2⟩, some [12, 13])] := by decide

/-- The same schedule with the mutex: thread 1 falls back to a private handle, both correct. -/
example :
    ((RState.init [10, 11, 12, 13] 0).run
      [.start 0 ⟨0, 2⟩, .start 1 ⟨2, 2⟩, .step 0, .step 1, .step 0, .step 1]).log
      = [(1, ⟨2, 2⟩, some [12, 13]), (0, ⟨0, 2⟩, some [10, 11])] := by decide

end AgdbStorage
