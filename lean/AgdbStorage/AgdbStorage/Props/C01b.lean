import AgdbStorage.Lemmas.AllocTxnOps
/-
C01b — arbitrarily nested transactions.

`Storage.txn` is the nesting depth; `begin` increments it, `commit id` decrements it and issues
`FsOp.flush` (= the recovery log is cleared) exactly when the depth reaches 0.  The statements hold
of EVERY state (no reachability / layout invariant is needed): they follow from the structure of
the model functions alone (`Lemmas/AllocTxn.lean`, `Lemmas/AllocTxnOps.lean`).

Every theorem is followed by a non-vacuity `example` on the non-trivial state
`(Storage.create.step (.insert [1,2,3])).1` (one live value, depth 0).
-/
namespace AgdbStorage

/-- **1. Balanced.** Every successful operation other than `begin`/`commit` leaves the nesting
depth unchanged (its own `begin`/`commit` pairs match, at any outer depth). -/
theorem C01b_txn_balanced : ∀ (s : Storage) (op : SOp), op ≠ .begin → (∀ id, op ≠ .commit id) →
    (op = .reopen → s.txn = 0) → (∃ r, (s.step op).2 = .ok r) → (s.step op).1.txn = s.txn := by
  intro s op hb hc hre ⟨r, hok⟩
  by_cases hr : op = .reopen
  · subst hr
    have h0 := hre rfl
    change (liftUnit s.reopen).2 = .ok r at hok
    show (liftUnit s.reopen).1.txn = s.txn
    unfold Storage.reopen at hok ⊢
    cases ho : Storage.openImage s.data with
    | error e => rw [ho] at hok; cases hok
    | ok s' => exact (Storage.openImage_txn ho).trans h0.symm
  · cases Storage.step_sum s op hb hc hr with
    | ok r' _ h => exact h.txn
    | err e he _ => rw [he] at hok; cases hok

example : let s := (Storage.create.step (.insert [1,2,3])).1; let op := SOp.replace 1 [9]
    op ≠ .begin ∧ (∀ id, op ≠ .commit id) ∧ (op = .reopen → s.txn = 0) ∧
    (∃ r, (s.step op).2 = .ok r) ∧ s.txn = 0 :=
  ⟨nofun, fun _ => nofun, nofun, ⟨_, rfl⟩, rfl⟩

/-- also at depth 2 (inside two user transactions) -/
example : let s := (((Storage.create.step (.insert [1,2,3])).1.step .begin).1.step .begin).1
    (∃ r, (s.step (.moveAt 1 0 2 2)).2 = .ok r) ∧ s.txn = 2 ∧ (s.step (.moveAt 1 0 2 2)).1.txn = 2 :=
  ⟨⟨_, rfl⟩, rfl, rfl⟩

/-- **2. The recovery log is cleared only when the OUTERMOST transaction completes**, exactly
once, as the last call: the calls issued by a step contain `flush` iff the step was entered at
depth 0 and succeeded; then `flush` is the last call and occurs nowhere else. -/
theorem C01b_flush_outermost : ∀ (s : Storage) (op : SOp), op ≠ .begin → (∀ id, op ≠ .commit id) →
    op ≠ .reopen →
    let calls := (s.step op).1.trace.drop s.trace.length
    (FsOp.flush ∈ calls ↔ (s.txn = 0 ∧ ∃ r, (s.step op).2 = .ok r)) ∧
    (FsOp.flush ∈ calls → ∃ pre, calls = pre ++ [FsOp.flush] ∧ FsOp.flush ∉ pre) := by
  intro s op hb hc hr calls
  cases Storage.step_sum s op hb hc hr with
  | ok r hok h =>
    obtain ⟨h1, h2⟩ := h.calls
    exact ⟨⟨fun hm => ⟨h1.1 hm, r, hok⟩, fun hh => h1.2 hh.1⟩, h2⟩
  | err e he h =>
    have hn := h.calls
    refine ⟨⟨fun hm => absurd hm hn, fun hh => ?_⟩, fun hm => absurd hm hn⟩
    obtain ⟨_, r, hok⟩ := hh
    rw [he] at hok; cases hok

/-- depth 0, success: writes then one final flush -/
example : let s := (Storage.create.step (.insert [1,2,3])).1
    (s.step (.replace 1 [9])).1.trace.drop s.trace.length =
      [.write 40 [9], .write 32 [1, 0, 0, 0, 0, 0, 0, 0], .resize 41, .flush] := rfl
/-- `resize` to the same size and `optimize` of a compact file: the flush alone -/
example : let s := (Storage.create.step (.insert [1,2,3])).1
    (s.step (.resize 1 3)).1.trace.drop s.trace.length = [.flush] ∧
    (s.step .optimize).1.trace.drop s.trace.length = [.flush] := ⟨rfl, rfl⟩
/-- depth 1 (inside a user transaction), success: no flush -/
example : let s := ((Storage.create.step (.insert [1,2,3])).1.step .begin).1
    (s.step (.moveAt 1 0 2 2)).2 = .ok none ∧
    (s.step (.moveAt 1 0 2 2)).1.trace.drop s.trace.length =
      [.write 32 [4, 0, 0, 0, 0, 0, 0, 0], .write 43 [0], .write 42 [1, 2], .write 40 [0, 0]] :=
  ⟨rfl, rfl⟩
/-- depth 0, failure: no call at all -/
example : let s := (Storage.create.step (.insert [1,2,3])).1
    (s.step (.remove 5)).2 = .error .notFound ∧
    (s.step (.remove 5)).1.trace.drop s.trace.length = [] := ⟨rfl, rfl⟩

/-- **3. `commit`.** `commit id` succeeds iff `id` is the current depth; then the depth decreases
(saturating: `commit 0` at depth 0 succeeds and does nothing), data and record table are
untouched, and `flush` is issued iff the depth goes from 1 to 0.  Otherwise nothing happens. -/
theorem C01b_commit : ∀ (s : Storage) (id : Nat),
    ((∃ u, (s.commit id).2 = .ok u) ↔ s.txn = id) ∧
    (s.txn = id → (s.commit id).1.txn = s.txn - 1 ∧ (s.commit id).1.data = s.data ∧
      (s.commit id).1.records = s.records ∧
      (s.commit id).1.trace = s.trace ++ (if s.txn = 1 then [FsOp.flush] else [])) ∧
    (s.txn ≠ id → s.commit id = (s, .error .notAllowed)) := by
  intro s id
  have hok : s.txn = id → (∃ u, (s.commit id).2 = .ok u) ∧
      (s.commit id).1.txn = s.txn - 1 ∧ (s.commit id).1.data = s.data ∧
      (s.commit id).1.records = s.records ∧
      (s.commit id).1.trace = s.trace ++ (if s.txn = 1 then [FsOp.flush] else []) := by
    intro h
    subst h
    cases ht : s.txn with
    | zero =>
      rw [Storage.commit_zero s ht]
      exact ⟨⟨_, rfl⟩, ht.trans rfl, rfl, rfl, by simp⟩
    | succ t =>
      cases t with
      | zero =>
        rw [Storage.commit_one s ht]
        exact ⟨⟨_, rfl⟩, rfl, rfl, rfl, rfl⟩
      | succ t =>
        rw [Storage.commit_succ_succ s t ht]
        exact ⟨⟨_, rfl⟩, rfl, rfl, rfl, by simp⟩
  refine ⟨⟨fun ⟨u, hu⟩ => ?_, fun h => (hok h).1⟩, fun h => (hok h).2, Storage.commit_mismatch s id⟩
  apply Classical.byContradiction
  intro hne
  rw [Storage.commit_mismatch s id hne] at hu
  cases hu

/-- depth 2 → 1: no flush; depth 1 → 0: flush; wrong id: refused -/
example : let s := (((Storage.create.step (.insert [1,2,3])).1.step .begin).1.step .begin).1
    s.txn = 2 ∧ (s.commit 2).1.trace = s.trace ∧ (s.commit 2).1.txn = 1 ∧
    ((s.commit 2).1.commit 1).1.trace = s.trace ++ [.flush] ∧ ((s.commit 2).1.commit 1).1.txn = 0 ∧
    (s.commit 1).2 = .error .notAllowed :=
  ⟨rfl, rfl, rfl, rfl, rfl, rfl⟩

/-- **4. `begin`.** -/
theorem C01b_begin : ∀ s : Storage, (s.step .begin).1.txn = s.txn + 1 ∧
    (s.step .begin).2 = .ok (some (s.txn + 1)) ∧ (s.step .begin).1.trace = s.trace :=
  fun _ => ⟨rfl, rfl, rfl⟩

example : ((Storage.create.step (.insert [1,2,3])).1.step .begin).2 = .ok (some 1) := rfl

/-! ### 5. Error paths -/

/-- `insertAt`, `remove`, `resize` fail only at the initial record lookup, before their `begin`:
a failure changes nothing (depth, data, record table, trace). -/
theorem C01b_error_unchanged : ∀ (s : Storage) (op : SOp),
    (match op with | .insertAt .. | .remove .. | .resize .. => True | _ => False) →
    (∃ e, (s.step op).2 = .error e) → (s.step op).1 = s := by
  intro s op hop ⟨e, he⟩
  have key : ∀ (i : Nat) (x : Res Unit), RecTxn s i x → (liftUnit x).2 = .error e →
      (liftUnit x).1 = s := by
    intro i x hx hxe
    rcases hx with ⟨e', _, h1⟩ | ⟨r, s', _, h1, _⟩
    · subst h1; rfl
    · subst h1; cases hxe
  cases op with
  | insertAt i off b => exact key i _ (Storage.insertBytesAt_sum s i off b) he
  | remove i => exact key i _ (Storage.remove_sum s i) he
  | resize i n => exact key i _ (Storage.resizeValue_sum s i n) he
  | insert _ => exact hop.elim
  | moveAt _ _ _ _ => exact hop.elim
  | replace _ _ => exact hop.elim
  | optimize => exact hop.elim
  | reopen => exact hop.elim
  | begin => exact hop.elim
  | commit _ => exact hop.elim

example : let s := (Storage.create.step (.insert [1,2,3])).1
    (∃ e, (s.step (.remove 5)).2 = .error e) ∧ (∃ e, (s.step (.insertAt 5 0 [1])).2 = .error e) ∧
    (∃ e, (s.step (.resize 5 9)).2 = .error e) := ⟨⟨_, rfl⟩, ⟨_, rfl⟩, ⟨_, rfl⟩⟩

/-- `insert` and `optimize` never fail (at any depth). -/
theorem C01b_never_fails : ∀ (s : Storage) (b : Bytes),
    (∃ i, (s.step (.insert b)).2 = .ok (some i)) ∧ (s.step .optimize).2 = .ok none := by
  intro s b
  obtain ⟨s', i, h, _⟩ := Storage.insertBytes_sum s b
  obtain ⟨s'', h', _⟩ := Storage.optimize_sum s
  refine ⟨⟨i, ?_⟩, ?_⟩
  · show (s.insertBytes b).2.map some = _
    rw [h]; rfl
  · show (liftUnit s.optimize).2 = _
    rw [h']; rfl

example : (Storage.create.step (.insert [1,2,3])).2 = .ok (some 1) := rfl

/-- DEFECT CANDIDATE (mirrors Rust `replace_with_bytes`: `begin` before the failing
`insert_bytes_at`, early `?` return without `commit`/rollback): `replace` on a missing index fails
and leaves the nesting depth ONE TOO HIGH; nothing else changes. -/
theorem C01b_replace_missing : ∀ (s : Storage) (i : Nat) (b : Bytes),
    s.records.record i = .error .notFound →
    s.step (.replace i b) = ({ s with txn := s.txn + 1 }, .error .notFound) := by
  intro s i b h
  show liftUnit (s.replace i b) = _
  rw [Storage.replace_missing s i b h]
  rfl

example : (Storage.create.step (.insert [1,2,3])).1.records.record 7 = .error .notFound := rfl

/-- The same, for every failure of `replace`: the depth is stuck exactly one too high, and no
flush was issued (so with a file back-end the recovery log is never cleared again until the
depth is brought back by an unmatched `commit`). -/
theorem C01b_replace_error_txn : ∀ (s : Storage) (i : Nat) (b : Bytes),
    (∃ e, (s.step (.replace i b)).2 = .error e) →
    (s.step (.replace i b)).1.txn = s.txn + 1 ∧
    FsOp.flush ∉ (s.step (.replace i b)).1.trace.drop s.trace.length := by
  intro s i b ⟨e, he⟩
  change (liftUnit (s.replace i b)).2 = .error e at he
  show (liftUnit (s.replace i b)).1.txn = s.txn + 1 ∧
    FsOp.flush ∉ (liftUnit (s.replace i b)).1.trace.drop s.trace.length
  rcases Storage.replace_sum s i b with ⟨s', h, _⟩ | ⟨s', e', h, hst⟩
  · rw [h] at he; cases he
  · rw [h]
    exact ⟨hst.txn, hst.txnErr.calls⟩

theorem C01b_replace_stuck_txn_counterexample :
    (Storage.create.step (.replace 7 [1])).1.txn = 1 ∧ Storage.create.txn = 0 ∧
    ∃ e, (Storage.create.step (.replace 7 [1])).2 = .error e :=
  ⟨rfl, rfl, _, rfl⟩

/-- the same on a state with a live value -/
example : let s := (Storage.create.step (.insert [1,2,3])).1
    s.txn = 0 ∧ (s.step (.replace 7 [1])).2 = .error .notFound ∧ (s.step (.replace 7 [1])).1.txn = 1 :=
  ⟨rfl, rfl, rfl⟩

/-- `moveAt` validates the source range before its `begin`: that failure changes nothing. -/
theorem C01b_moveAt_early_error : ∀ (s : Storage) (i f t n : Nat) (e : Err),
    s.valueAtSize i f n = .error e → s.step (.moveAt i f t n) = (s, .error e) := by
  intro s i f t n e h
  show liftUnit (s.moveAt i f t n) = _
  unfold Storage.moveAt
  rw [h]
  rfl

example : (Storage.create.step (.insert [1,2,3])).1.valueAtSize 1 0 9 = .error .outOfBounds := rfl

/-- Any other failure of `moveAt` (after its `begin`) leaves the depth one too high, without a
flush.  (Structural fact; on reachable states these later failures do not occur.) -/
theorem C01b_moveAt_error_txn : ∀ (s : Storage) (i f t n : Nat),
    (∃ e, (s.step (.moveAt i f t n)).2 = .error e) →
    (s.step (.moveAt i f t n)).1 = s ∨
    ((s.step (.moveAt i f t n)).1.txn = s.txn + 1 ∧
      FsOp.flush ∉ (s.step (.moveAt i f t n)).1.trace.drop s.trace.length) := by
  intro s i f t n ⟨e, he⟩
  change (liftUnit (s.moveAt i f t n)).2 = .error e at he
  show (liftUnit (s.moveAt i f t n)).1 = s ∨
    ((liftUnit (s.moveAt i f t n)).1.txn = s.txn + 1 ∧
      FsOp.flush ∉ (liftUnit (s.moveAt i f t n)).1.trace.drop s.trace.length)
  rcases Storage.moveAt_sum s i f t n with ⟨e', _, hm⟩ | ⟨s', hm, _⟩ | ⟨s', e', hm, hst⟩
  · rw [hm]; exact Or.inl rfl
  · rw [hm] at he; cases he
  · rw [hm]; exact Or.inr ⟨hst.txn, hst.txnErr.calls⟩

end AgdbStorage
