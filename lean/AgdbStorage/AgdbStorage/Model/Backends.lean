import AgdbStorage.Model.Wal
/-
L0: the three `StorageData` back-ends as separate models (agdb/src/storage/memory_storage.rs,
file_storage.rs, file_storage_memory_mapped.rs), with explicit outcomes for the calls that panic
or fail, so that their equivalence on the calls `Storage` issues is a theorem and not a definition.
-/
namespace AgdbStorage

inductive BOut (α : Type) where
  | ok (a : α)
  | err        -- `Err(DbError)`
  | panic      -- debug-build panic (slice out of range / arithmetic overflow)
deriving Repr, DecidableEq

/-- `MemoryStorage` = a `Vec<u8>`. -/
structure MemSt where
  buf : Bytes
deriving Repr, DecidableEq

/-- `MemoryStorage::write`: in place if it ends before the end, otherwise `resize(pos)` + `extend`. -/
def MemSt.write (m : MemSt) (pos : Nat) (bs : Bytes) : BOut MemSt :=
  if pos + bs.length < m.buf.length then
    .ok ⟨m.buf.take pos ++ bs ++ m.buf.drop (pos + bs.length)⟩
  else .ok ⟨setLen m.buf pos ++ bs⟩

def MemSt.resize (m : MemSt) (n : Nat) : BOut MemSt := .ok ⟨setLen m.buf n⟩

/-- `MemoryStorage::read` checks the range (an error since the bound-check repair; it used to panic). -/
def MemSt.read (m : MemSt) (pos n : Nat) : BOut Bytes :=
  if pos + n ≤ m.buf.length then .ok (readAt m.buf pos n) else .err

/-- `FileStorage` (after the C01 repair): the disk plus the cached length. -/
structure FileSt where
  disk : Disk
deriving Repr, DecidableEq

def FileSt.write (f : FileSt) (pos : Nat) (bs : Bytes) : BOut FileSt :=
  if bs.isEmpty then .ok f
  else if pos > f.disk.data.length then .panic   -- `min(len, end) - pos` underflows
  else .ok ⟨execOp f.disk (.write pos bs)⟩

def FileSt.resize (f : FileSt) (n : Nat) : BOut FileSt := .ok ⟨execOp f.disk (.resize n)⟩

def FileSt.flush (f : FileSt) : FileSt := ⟨execOp f.disk .flush⟩

/-- `read_exact` fails with an error past the end of the file. -/
def FileSt.read (f : FileSt) (pos n : Nat) : BOut Bytes :=
  if pos + n ≤ f.disk.data.length then .ok (readAt f.disk.data pos n) else .err

/-- `FileStorageMemoryMapped`: both, memory first; reads from memory, `len` from the file. -/
structure MapSt where
  file : FileSt
  mem : MemSt
deriving Repr, DecidableEq

def MapSt.write (x : MapSt) (pos : Nat) (bs : Bytes) : BOut MapSt :=
  match x.mem.write pos bs with
  | .ok m =>
    match x.file.write pos bs with
    | .ok f => .ok ⟨f, m⟩
    | .err => .err
    | .panic => .panic
  | .err => .err
  | .panic => .panic

def MapSt.resize (x : MapSt) (n : Nat) : BOut MapSt :=
  match x.mem.resize n, x.file.resize n with
  | .ok m, .ok f => .ok ⟨f, m⟩
  | _, _ => .err

def MapSt.read (x : MapSt) (pos n : Nat) : BOut Bytes := x.mem.read pos n

/-- The `StorageData` calls that change content. -/
inductive DCall where
  | write (pos : Nat) (bs : Bytes)
  | resize (n : Nat)
  | flush
deriving Repr, DecidableEq

/-- The calls `Storage` issues: writes never start past the end. -/
def DCall.wf (len : Nat) : DCall → Prop
  | .write pos _ => pos ≤ len
  | _ => True

/-- Reference semantics shared by all three (what `Model/Storage.lean` is written against). -/
def DCall.sem (d : Bytes) : DCall → Bytes
  | .write pos bs => if bs.isEmpty then d else writeAt d pos bs
  | .resize n => setLen d n
  | .flush => d

def MemSt.call (m : MemSt) : DCall → BOut MemSt
  | .write pos bs => m.write pos bs
  | .resize n => m.resize n
  | .flush => .ok m

def FileSt.call (f : FileSt) : DCall → BOut FileSt
  | .write pos bs => f.write pos bs
  | .resize n => f.resize n
  | .flush => .ok f.flush

def MapSt.call (x : MapSt) : DCall → BOut MapSt
  | .write pos bs => x.write pos bs
  | .resize n => x.resize n
  | .flush => .ok ⟨x.file.flush, x.mem⟩

end AgdbStorage
