import AgdbStorage.Model.Storage
/-
The abstract specification the record allocator refines: a finite map index ↦ bytes, and the
operation alphabet of `Storage`.
-/
namespace AgdbStorage

inductive SOp where
  | insert (b : Bytes)
  | insertAt (i off : Nat) (b : Bytes)
  | moveAt (i offFrom offTo size : Nat)
  | remove (i : Nat)
  | replace (i : Nat) (b : Bytes)
  | resize (i size : Nat)
  | optimize
  | reopen
  | begin
  | commit (id : Nat)
deriving Repr, DecidableEq

/-- result of a step: the allocated index for `insert`, the id for `begin` -/
abbrev SRes := Except Err (Option Nat)

def Storage.reopen (s : Storage) : Res Unit :=
  match Storage.openImage s.data with
  | .ok s' => ({ s' with trace := s.trace }, .ok ())
  | .error e => (s, .error e)

def liftUnit (x : Res Unit) : Storage × SRes := (x.1, x.2.map fun _ => none)

def Storage.step (s : Storage) : SOp → Storage × SRes
  | .insert b => let r := s.insertBytes b; (r.1, r.2.map some)
  | .insertAt i off b => liftUnit (s.insertBytesAt i off b)
  | .moveAt i f t n => liftUnit (s.moveAt i f t n)
  | .remove i => liftUnit (s.remove i)
  | .replace i b => liftUnit (s.replace i b)
  | .resize i n => liftUnit (s.resizeValue i n)
  | .optimize => liftUnit s.optimize
  | .reopen => liftUnit s.reopen
  | .begin => let r := s.begin; (r.1, .ok (some r.2))
  | .commit id => liftUnit (s.commit id)

/-- What a query can observe: the bytes of every readable index. -/
def Storage.abs (s : Storage) (i : Nat) : Option Bytes :=
  match s.value i with
  | .ok b => some b
  | .error _ => none

abbrev Spec := Nat → Option Bytes

def padTo (v : Bytes) (n : Nat) : Bytes := v ++ List.replicate (n - v.length) 0

/-- `insert_at`: extend with zeros up to `off + |b|` if needed, then overwrite. -/
def specInsertAt (v : Bytes) (off : Nat) (b : Bytes) : Bytes :=
  writeAt (padTo v (off + b.length)) off b

/-- `move_at`: copy `[from, from+n)` to `to` (extending with zeros), zero the vacated source bytes
that the destination does not cover. -/
def specMove (v : Bytes) (f t n : Nat) : Bytes :=
  let src := readAt v f n
  let v1 := padTo v (t + n)
  let v2 := (List.range v1.length).map fun k =>
    if f ≤ k ∧ k < f + n ∧ ¬ (t ≤ k ∧ k < t + n) then (0 : UInt8) else v1.getD k 0
  writeAt v2 t src

def Spec.set (m : Spec) (i : Nat) (v : Option Bytes) : Spec := fun j => if j = i then v else m j

/-- The specification step, given the implementation's result (which names the index chosen by
`insert`).  Failed operations change nothing. -/
def specStep (m : Spec) (op : SOp) (r : SRes) : Spec :=
  match r with
  | .error _ => m
  | .ok res =>
    match op with
    | .insert b => match res with | some i => m.set i (some b) | none => m
    | .insertAt i off b => match m i with | some v => m.set i (some (specInsertAt v off b)) | none => m
    | .moveAt i f t n => match m i with | some v => m.set i (some (specMove v f t n)) | none => m
    | .remove i => m.set i none
    | .replace i b => m.set i (some b)
    | .resize i n => match m i with | some v => m.set i (some (v.take n ++ List.replicate (n - v.length) 0)) | none => m
    | .optimize => m
    | .reopen => m
    | .begin => m
    | .commit _ => m

/-- When the specification says an operation must fail (and then the implementation must, too). -/
def specFails (m : Spec) (txn : Nat) : SOp → Prop
  | .insert _ => False
  | .insertAt i _ _ => m i = none
  | .moveAt i f _ n => match m i with | none => True | some v => f + n > v.length
  | .remove i => m i = none
  | .replace i _ => m i = none
  | .resize i _ => m i = none
  | .optimize => False
  | .reopen => False
  | .begin => False
  | .commit id => txn ≠ id

def Storage.run (s : Storage) : List SOp → Storage
  | [] => s
  | op :: ops => (s.step op).1.run ops

/-- States reachable from a freshly created storage by any history.  `reopen` only between
transactions (with an open transaction a file-backed reopen rolls back: that is C01's subject). -/
inductive Reachable : Storage → Prop where
  | create : Reachable Storage.create
  | step (s : Storage) (op : SOp) : Reachable s → (op = .reopen → s.txn = 0) → Reachable (s.step op).1

end AgdbStorage
