import AgdbStorage.Model.Bytes
/-
L0: `WriteAheadLog` + `FileStorage` (agdb/src/storage/write_ahead_log.rs, file_storage.rs).

A disk is the content of the data file and of the recovery-log file.  Every `StorageData` call
(`write`, `resize`, `flush`) is a list of mutating file-system calls (`Sys`); a crash point is a
proper prefix of that list, optionally followed by a *torn* (partially performed) write.
-/
namespace AgdbStorage

structure Disk where
  data : Bytes
  wal : Bytes
deriving Repr, DecidableEq

/-- One record of the recovery log: "the bytes `value` were at `pos`" or, if `value` is empty,
"the file ended at `pos`". -/
structure Rec where
  pos : Nat
  value : Bytes
deriving Repr, DecidableEq

/-- `WriteAheadLog::insert`: `pos`, `len`, `value`. -/
def Rec.ser (r : Rec) : Bytes := le8 r.pos ++ le8 r.value.length ++ r.value

def serAll : List Rec → Bytes
  | [] => []
  | r :: rs => r.ser ++ serAll rs

/-- `WriteAheadLog::repair` followed by `WriteAheadLog::records`: the maximal prefix of complete
records (a trailing torn record is cut off).  Sizes are read as written (`< 2^64`); the
`as i64` cast in `skip_record` is outside this model (see DESIGN.md C07). -/
def parseAux : Nat → Bytes → List Rec
  | 0, _ => []
  | fuel + 1, w =>
    if w.length < 16 then []
    else
      let n := unle8 (w.drop 8)
      if w.length < 16 + n then []
      else ⟨unle8 w, (w.drop 16).take n⟩ :: parseAux fuel (w.drop (16 + n))

def parse (w : Bytes) : List Rec := parseAux (w.length + 1) w

/-- `FileStorage::apply_wal_record`. -/
def applyRec (d : Bytes) (r : Rec) : Bytes :=
  if r.value.isEmpty then setLen d r.pos else writeAt d r.pos r.value

/-- `FileStorage::apply_wal` on the repaired code: newest record first. -/
def undoAll (d : Bytes) (rs : List Rec) : Bytes := rs.reverse.foldl applyRec d

/-- `FileStorage::apply_wal` as it was before the repair (commit "fix: replay the recovery log
newest-first…"): oldest record first. -/
def undoAllLegacy (d : Bytes) (rs : List Rec) : Bytes := rs.foldl applyRec d

/-- `FileStorage::new` on an existing pair of files, and `Drop for FileStorage`. -/
def recover (d : Disk) : Disk := { data := undoAll d.data (parse d.wal), wal := [] }

def recoverLegacy (d : Disk) : Disk := { data := undoAllLegacy d.data (parse d.wal), wal := [] }

/-- Mutating file-system calls. -/
inductive Sys where
  | walAppend (b : Bytes)            -- seek(End) + write_all on the log
  | walSetLen (n : Nat)              -- set_len on the log (clear = 0)
  | dataWrite (pos : Nat) (b : Bytes) -- seek(Start pos) + write_all on the data file
  | dataSetLen (n : Nat)             -- set_len on the data file
deriving Repr, DecidableEq

def Sys.apply (d : Disk) : Sys → Disk
  | .walAppend b => { d with wal := d.wal ++ b }
  | .walSetLen n => { d with wal := setLen d.wal n }
  | .dataWrite pos b => { d with data := writeAt d.data pos b }
  | .dataSetLen n => { d with data := setLen d.data n }

/-- What a call may leave behind when the process dies inside it: a strict prefix of the bytes
(`set_len` is atomic). -/
def Sys.partials : Sys → List Sys
  | .walAppend b => (List.range b.length).map fun k => .walAppend (b.take k)
  | .dataWrite pos b => (List.range b.length).map fun k => .dataWrite pos (b.take k)
  | _ => []

/-- `StorageData` calls on a `FileStorage`. -/
inductive FsOp where
  | write (pos : Nat) (bs : Bytes)
  | resize (n : Nat)
  | flush
deriving Repr, DecidableEq

/-- `WriteAheadLog::insert` = three `write_all`s. -/
def walInsert (pos : Nat) (value : Bytes) : List Sys :=
  [.walAppend (le8 pos), .walAppend (le8 value.length), .walAppend value]

/-- The calls issued by one operation, as a function of the data file at its start
(`FileStorage::{write,resize,flush}` after the repair). -/
def FsOp.sys (data : Bytes) : FsOp → List Sys
  | .write pos bs =>
    if bs.isEmpty then []
    else
      let e := pos + bs.length
      walInsert pos (readAt data pos (min data.length e - pos)) ++ [.dataWrite pos bs]
  | .resize n =>
    (if n < data.length then walInsert n (readAt data n (data.length - n))
     else walInsert data.length []) ++ [.dataSetLen n]
  | .flush => [.walSetLen 0]

/-- The same before the repair: a zero-length write is logged (as a truncation), and growth is
logged as "truncate to the *new* length". -/
def FsOp.sysLegacy (data : Bytes) : FsOp → List Sys
  | .write pos bs =>
    let e := pos + bs.length
    walInsert pos (readAt data pos (min data.length e - pos)) ++ [.dataWrite pos bs]
  | .resize n =>
    (if n < data.length then walInsert n (readAt data n (data.length - n))
     else walInsert n []) ++ [.dataSetLen n]
  | .flush => [.walSetLen 0]

def applyAll (d : Disk) (ss : List Sys) : Disk := ss.foldl Sys.apply d

def execOp (d : Disk) (op : FsOp) : Disk := applyAll d (op.sys d.data)
def execOpLegacy (d : Disk) (op : FsOp) : Disk := applyAll d (op.sysLegacy d.data)

/-- Every disk state a crash inside `ss` (started from `d`) can leave: before each call, and each
torn version of each call.  The state after the last call is not included (it is the first crash
state of whatever follows). -/
def crashStates (d : Disk) : List Sys → List Disk
  | [] => []
  | s :: ss => d :: (s.partials.map fun p => p.apply d) ++ crashStates (s.apply d) ss

structure St where
  disk : Disk
  committed : Bytes
deriving Repr

def isFlush : FsOp → Bool
  | .flush => true
  | _ => false

def stepOp (s : St) (op : FsOp) : St :=
  let d := execOp s.disk op
  { disk := d, committed := if isFlush op then d.data else s.committed }

/-- All (crash disk, content at the last completed flush) pairs of a run. -/
def allCrashes (s : St) : List FsOp → List (Disk × Bytes)
  | [] => [(s.disk, s.committed)]
  | op :: ops =>
    (crashStates s.disk (op.sys s.disk.data)).map (fun d => (d, s.committed)) ++
      allCrashes (stepOp s op) ops

/-- The calls `FileStorage` accepts (others panic in a debug build: `pos > len` underflows) and
that `Storage` issues: inside the file, or starting exactly at its end; all offsets are `u64`. -/
def FsOp.wf (len : Nat) : FsOp → Prop
  | .write pos bs => (pos + bs.length ≤ len ∨ pos = len) ∧ pos + bs.length < 2 ^ 64
  | .resize n => n < 2 ^ 64 ∧ len < 2 ^ 64
  | .flush => True

/-- The data file after an operation (independent of the log). -/
def dataAfter (d : Bytes) : FsOp → Bytes
  | .write pos bs => if bs.isEmpty then d else writeAt d pos bs
  | .resize n => setLen d n
  | .flush => d

def wfOps (d : Bytes) : List FsOp → Prop
  | [] => True
  | op :: ops => op.wf d.length ∧ wfOps (dataAfter d op) ops

end AgdbStorage
