import AgdbStorage.Model.Wal
import AgdbStorage.Generated.Constants
/-
L1: the record allocator — `StorageRecords` (agdb/src/storage/storage_records.rs) and
`Storage<D>` (agdb/src/storage.rs), function for function, over an abstract byte store with the
semantics shared by all three back-ends for the calls `Storage` issues (`writeAt`, `setLen`).
Every `StorageData::write/resize/flush` call issued is appended to `trace` (this is the link to
C01's `FsOp` and to C06).
-/
namespace AgdbStorage

def U64_MAX : Nat := 18446744073709551615

structure SRec where
  index : Nat
  pos : Nat
  size : Nat
deriving Repr, DecidableEq, Inhabited

def SRec.valueStart (r : SRec) : Nat := r.pos + RECORD_SIZE
def SRec.fin (r : SRec) : Nat := r.pos + RECORD_SIZE + r.size

inductive Err where
  | notFound | outOfBounds | notAllowed | notEnoughData
deriving Repr, DecidableEq

def Err.str : Err → String
  | .notFound => "err:NotFound"
  | .outOfBounds => "err:OutOfBounds"
  | .notAllowed => "err:NotAllowed"
  | .notEnoughData => "err:NotEnoughData"

/-! ### StorageRecords -/

/-- free regions `(pos, size)` sorted by `pos` (the `free_pos_size` BTreeMap; `free_size_pos` is its
inverse index and `free_size` its sum, both derived). -/
abbrev FreeMap := List (Nat × Nat)

def FreeMap.lookup (f : FreeMap) (pos : Nat) : Option Nat :=
  (f.find? fun e => e.1 == pos).map (·.2)

def FreeMap.remove (f : FreeMap) (pos : Nat) : FreeMap := f.filter fun e => e.1 != pos

def FreeMap.insert : FreeMap → Nat → Nat → FreeMap
  | [], p, s => [(p, s)]
  | (q, t) :: rest, p, s =>
    if p < q then (p, s) :: (q, t) :: rest
    else if p == q then (p, s) :: rest
    else (q, t) :: FreeMap.insert rest p s

/-- `take_free`: smallest size `≥ min` that is either exact or leaves room for a header; among
those the smallest position. -/
def FreeMap.pick (f : FreeMap) (min : Nat) : Option (Nat × Nat) :=
  let cands := f.filter fun e => e.2 == min || e.2 ≥ min + RECORD_SIZE
  cands.foldl (fun best e =>
    match best with
    | none => some e
    | some b => if e.2 < b.2 || (e.2 == b.2 && e.1 < b.1) then some e else some b) none

/-- greatest key `< pos` -/
def FreeMap.prev (f : FreeMap) (pos : Nat) : Option (Nat × Nat) :=
  (f.filter fun e => e.1 < pos).getLast?

structure Records where
  recs : List SRec
  free : FreeMap
deriving Repr, DecidableEq

def Records.new : Records := { recs := [default], free := [] }

def Records.get (r : Records) (i : Nat) : SRec := r.recs.getD i default

def Records.isValid (r : Records) (x : SRec) : Bool :=
  x.index != 0 && (r.get x.index).index == x.index

def Records.newRecord (r : Records) (pos size : Nat) : Records × SRec :=
  let head := (r.get 0).index
  if head != 0 then
    let nxt := (r.get head).index
    let x : SRec := ⟨head, pos, size⟩
    ({ r with recs := (r.recs.set 0 { r.get 0 with index := nxt }).set head x }, x)
  else
    let x : SRec := ⟨r.recs.length, pos, size⟩
    ({ r with recs := r.recs ++ [x] }, x)

def Records.setPos (r : Records) (i pos : Nat) : Records :=
  if i < r.recs.length then { r with recs := r.recs.set i { r.get i with pos := pos } } else r

def Records.setSize (r : Records) (i size : Nat) : Records :=
  if i < r.recs.length then { r with recs := r.recs.set i { r.get i with size := size } } else r

def Records.record (r : Records) (i : Nat) : Except Err SRec :=
  match r.recs[i]? with
  | some x => if r.isValid x then .ok x else .error .notFound
  | none => .error .notFound

def Records.removeIndex (r : Records) (i : Nat) : Records :=
  if i < r.recs.length then
    let nf := (r.get 0).index
    let recs1 := r.recs.set i { r.get i with index := nf, pos := U64_MAX }
    { r with recs := recs1.set 0 { recs1.getD 0 default with index := i } }
  else r

def Records.markFree (r : Records) (pos size : Nat) : Records :=
  { r with free := r.free.insert pos size }

def Records.removeFree (r : Records) (pos : Nat) : Records :=
  { r with free := r.free.remove pos }

def Records.takeFree (r : Records) (min : Nat) : Option (Records × Nat × Nat) :=
  match r.free.pick min with
  | some (p, s) => some (r.removeFree p, p, s)
  | none => none

def Records.takeFreeAfter (r : Records) (endPos min : Nat) : Option (Records × Nat × Nat) :=
  match r.free.lookup endPos with
  | some s => if RECORD_SIZE + s == min || s ≥ min then some (r.removeFree endPos, endPos, s) else none
  | none => none

def mergeNext : Nat → FreeMap → Nat → FreeMap × Nat
  | 0, f, e => (f, e)
  | fuel + 1, f, e =>
    match f.lookup e with
    | some ns => mergeNext fuel (f.remove e) (e + RECORD_SIZE + ns)
    | none => (f, e)

def mergePrev : Nat → FreeMap → Nat → FreeMap × Nat
  | 0, f, p => (f, p)
  | fuel + 1, f, p =>
    match f.prev p with
    | some (pp, ps) => if pp + RECORD_SIZE + ps == p then mergePrev fuel (f.remove pp) pp else (f, p)
    | none => (f, p)

/-- `mark_free_compact`: coalesce with the free regions that follow and precede. -/
def Records.markFreeCompact (r : Records) (pos size : Nat) : Records × Nat × Nat :=
  let (f1, e) := mergeNext (r.free.length + 1) r.free (pos + RECORD_SIZE + size)
  let (f2, p) := mergePrev (f1.length + 1) f1 pos
  let sz := e - p - RECORD_SIZE
  ({ r with free := f2.insert p sz }, p, sz)

/-- `records()`: valid records sorted by position (stable). -/
def insertByPos (x : SRec) : List SRec → List SRec
  | [] => [x]
  | y :: ys => if x.pos < y.pos then x :: y :: ys else y :: insertByPos x ys

def Records.validSorted (r : Records) : List SRec :=
  (r.recs.filter r.isValid).foldl (fun acc x => insertByPos x acc) []

/-! ### Storage -/

structure Storage where
  data : Bytes
  records : Records
  txn : Nat
  version : Nat
  trace : List FsOp
deriving Repr

abbrev Res (α : Type) := Storage × Except Err α

def Storage.dataWrite (s : Storage) (pos : Nat) (bs : Bytes) : Storage :=
  { s with data := writeAt s.data pos bs, trace := s.trace ++ [.write pos bs] }

def Storage.dataResize (s : Storage) (n : Nat) : Storage :=
  { s with data := setLen s.data n, trace := s.trace ++ [.resize n] }

def Storage.dataFlush (s : Storage) : Storage := { s with trace := s.trace ++ [.flush] }

def Storage.len (s : Storage) : Nat := s.data.length

def Storage.begin (s : Storage) : Storage × Nat := ({ s with txn := s.txn + 1 }, s.txn + 1)

/-- `end_transaction` -/
def Storage.commit (s : Storage) (id : Nat) : Res Unit :=
  if s.txn != id then (s, .error .notAllowed)
  else if s.txn != 0 then
    let s1 := { s with txn := s.txn - 1 }
    if s1.txn == 0 then (s1.dataFlush, .ok ()) else (s1, .ok ())
  else (s, .ok ())

def Storage.writeRecord (s : Storage) (r : SRec) : Storage :=
  s.dataWrite r.pos (le8 r.index ++ le8 r.size)

def Storage.append (s : Storage) (bs : Bytes) : Storage := s.dataWrite s.len bs

def Storage.truncate (s : Storage) (size : Nat) : Storage :=
  if size < s.len then s.dataResize size else s

def Storage.freeARegion (s : Storage) (pos size : Nat) : Storage :=
  let (r, p, sz) := s.records.markFreeCompact pos size
  ({ s with records := r }).writeRecord ⟨0, p, sz⟩

def Storage.isAtEnd (s : Storage) (r : SRec) : Bool := s.len == r.fin

def Storage.updateRecord (s : Storage) (r : SRec) (newPos newSize : Nat) : Storage × SRec :=
  let r' : SRec := { r with pos := newPos, size := newSize }
  let recs := (s.records.setPos r.index newPos).setSize r.index newSize
  (({ s with records := recs }).writeRecord r', r')

def Storage.moveToEnd (s : Storage) (r : SRec) (newSize : Nat) : Storage × SRec :=
  let bytes := readAt s.data r.valueStart r.size
  let bytes := bytes.take newSize ++ List.replicate (newSize - bytes.length) 0
  let len := s.len
  let s1 := s.freeARegion r.pos r.size
  let (s2, r') := s1.updateRecord r len newSize
  (s2.append bytes, r')

def Storage.enlargeAtEnd (s : Storage) (r : SRec) (newSize : Nat) : Storage × SRec :=
  let r' := { r with size := newSize }
  let s1 := { s with records := s.records.setSize r.index newSize }
  let s2 := s1.dataWrite (r.pos + 8) (le8 newSize)
  (s2.append (List.replicate (newSize - r.size) 0), r')

def Storage.enlargeInPlace (s : Storage) (r : SRec) (newSize freeSize : Nat) : Storage × SRec :=
  let oldSize := r.size
  let oldEnd := r.fin
  let remainder := (oldSize + RECORD_SIZE + freeSize) - newSize
  let r' := { r with size := newSize }
  let s1 := { s with records := s.records.setSize r.index newSize }
  let s2 := s1.dataWrite (r.pos + 8) (le8 newSize)
  let s3 := s2.dataWrite oldEnd (List.replicate (newSize - oldSize) 0)
  if remainder != 0 then (s3.freeARegion r'.fin (remainder - RECORD_SIZE), r') else (s3, r')

def Storage.enlargeMoveTo (s : Storage) (r : SRec) (newSize freePos freeSize : Nat) : Storage × SRec :=
  let bytes := readAt s.data r.valueStart r.size
  let bytes := bytes.take newSize ++ List.replicate (newSize - bytes.length) 0
  let s1 := s.freeARegion r.pos r.size
  let (s2, r') := s1.updateRecord r freePos newSize
  let s3 := s2.dataWrite r'.valueStart bytes
  if freeSize > newSize then (s3.freeARegion r'.fin (freeSize - newSize - RECORD_SIZE), r') else (s3, r')

def Storage.enlargeValue (s : Storage) (r : SRec) (newSize : Nat) : Storage × SRec :=
  if s.isAtEnd r then s.enlargeAtEnd r newSize
  else
    match s.records.takeFreeAfter r.fin (newSize - r.size) with
    | some (recs, _, fsz) => ({ s with records := recs }).enlargeInPlace r newSize fsz
    | none =>
      match s.records.takeFree newSize with
      | some (recs, fp, fsz) => ({ s with records := recs }).enlargeMoveTo r newSize fp fsz
      | none => s.moveToEnd r newSize

def Storage.shrinkValue (s : Storage) (r : SRec) (newSize : Nat) : Storage × SRec :=
  if s.isAtEnd r then
    let r' := { r with size := newSize }
    let s1 := { s with records := s.records.setSize r.index newSize }
    let s2 := s1.dataWrite (r.pos + 8) (le8 newSize)
    (s2.truncate r'.fin, r')
  else
    let freeSize := r.size - newSize
    if freeSize ≥ RECORD_SIZE then
      let r' := { r with size := newSize }
      let s1 := { s with records := s.records.setSize r.index newSize }
      let s2 := s1.dataWrite (r.pos + 8) (le8 newSize)
      (s2.freeARegion r'.fin (freeSize - RECORD_SIZE), r')
    else s.moveToEnd r newSize

def Storage.ensureSize (s : Storage) (r : SRec) (offset size : Nat) : Storage × SRec :=
  if offset + size > r.size then s.enlargeValue r (offset + size) else (s, r)

/-- propagate an error keeping the state reached so far (an early `?` return) -/
def bindRes {α β : Type} (x : Res α) (f : Storage → α → Res β) : Res β :=
  match x with
  | (s, .ok a) => f s a
  | (s, .error e) => (s, .error e)

def Storage.insertBytes (s : Storage) (bs : Bytes) : Res Nat :=
  match s.records.takeFree bs.length with
  | some (recs, fp, fsz) =>
    let (recs2, r) := recs.newRecord fp bs.length
    let (s1, id) := ({ s with records := recs2 }).begin
    let s2 := s1.writeRecord r
    let s3 := s2.dataWrite r.valueStart bs
    let s4 := if fsz > bs.length then s3.freeARegion r.fin (fsz - RECORD_SIZE - bs.length) else s3
    bindRes (s4.commit id) fun s5 _ => (s5, .ok r.index)
  | none =>
    let len := s.len
    let (recs2, r) := s.records.newRecord len bs.length
    let (s1, id) := ({ s with records := recs2 }).begin
    let s2 := s1.writeRecord r
    let s3 := s2.append bs
    bindRes (s3.commit id) fun s4 _ => (s4, .ok r.index)

def Storage.insertBytesAt (s : Storage) (index offset : Nat) (bs : Bytes) : Res Unit :=
  match s.records.record index with
  | .error e => (s, .error e)
  | .ok r =>
    let (s1, id) := s.begin
    let (s2, r') := s1.ensureSize r offset bs.length
    let s3 := s2.dataWrite (r'.valueStart + offset) bs
    s3.commit id

def validateReadSize (offset readSize valueSize : Nat) : Except Err Unit :=
  if offset > valueSize then .error .outOfBounds
  else if offset + readSize > valueSize then .error .outOfBounds
  else .ok ()

def Storage.valueAtSize (s : Storage) (index offset size : Nat) : Except Err Bytes :=
  match s.records.record index with
  | .error e => .error e
  | .ok r =>
    match validateReadSize offset size r.size with
    | .error e => .error e
    | .ok _ => .ok (readAt s.data (r.valueStart + offset) size)

def Storage.valueSize (s : Storage) (index : Nat) : Except Err Nat :=
  (s.records.record index).map (·.size)

def Storage.valueAt (s : Storage) (index offset : Nat) : Except Err Bytes :=
  match s.valueSize index with
  | .error e => .error e
  | .ok size => s.valueAtSize index offset (size - min size offset)

def Storage.value (s : Storage) (index : Nat) : Except Err Bytes := s.valueAt index 0

def Storage.eraseBytes (s : Storage) (pos offFrom offTo size : Nat) : Storage :=
  if offFrom < offTo then s.dataWrite (pos + offFrom) (List.replicate (min size (offTo - offFrom)) 0)
  else if offFrom > offTo then
    let position := max (offTo + size) offFrom
    s.dataWrite (pos + position) (List.replicate (offFrom + size - position) 0)
  else s

def Storage.moveAt (s : Storage) (index offFrom offTo size : Nat) : Res Unit :=
  match s.valueAtSize index offFrom size with
  | .error e => (s, .error e)
  | .ok bytes =>
    let (s1, id) := s.begin
    bindRes (s1.insertBytesAt index offTo bytes) fun s2 _ =>
      match s2.records.record index with
      | .error e => (s2, .error e)
      | .ok r =>
        let s3 := s2.eraseBytes r.valueStart offFrom offTo size
        s3.commit id

def Storage.remove (s : Storage) (index : Nat) : Res Unit :=
  match s.records.record index with
  | .error e => (s, .error e)
  | .ok r =>
    let (s1, id) := s.begin
    let s2 := { s1 with records := s1.records.removeIndex index }
    let s3 := if s2.isAtEnd r then s2.truncate r.pos else s2.freeARegion r.pos r.size
    s3.commit id

def Storage.resizeValue (s : Storage) (index newSize : Nat) : Res Unit :=
  match s.records.record index with
  | .error e => (s, .error e)
  | .ok r =>
    let (s1, id) := s.begin
    let s2 :=
      if newSize > r.size then (s1.enlargeValue r newSize).1
      else if newSize < r.size then (s1.shrinkValue r newSize).1
      else s1
    s2.commit id

def Storage.replace (s : Storage) (index : Nat) (bs : Bytes) : Res Unit :=
  let (s1, id) := s.begin
  bindRes (s1.insertBytesAt index 0 bs) fun s2 _ =>
    bindRes (s2.resizeValue index bs.length) fun s3 _ => s3.commit id

def Storage.shrinkIndex (s : Storage) (r : SRec) (cur : Nat) : Storage × Nat :=
  if r.pos != cur then
    let bytes := readAt s.data r.valueStart r.size
    let r' := { r with pos := cur }
    let s1 := { s with records := s.records.setPos r.index cur }
    let s2 := s1.writeRecord r'
    (s2.dataWrite (cur + RECORD_SIZE) bytes, cur + RECORD_SIZE + r.size)
  else (s, cur + RECORD_SIZE + r.size)

def Storage.optimize (s : Storage) : Res Unit :=
  let (s1, id) := s.begin
  let (s2, cur) := s1.records.validSorted.foldl (fun (acc : Storage × Nat) r => acc.1.shrinkIndex r acc.2)
    (s1, RECORD_SIZE + 8)
  let s3 := s2.truncate cur
  let s4 := { s3 with records := { s3.records with free := [] } }
  s4.commit id

/-! ### Opening (`Storage::with_data` → `read_records`) for files this code wrote -/

def readRecordAt (d : Bytes) (pos : Nat) : SRec :=
  ⟨unle8 (d.drop pos), pos, unle8 (d.drop (pos + 8))⟩

def Records.setRecord (r : Records) (x : SRec) : Records :=
  if x.index == 0 then r.markFree x.pos x.size
  else
    let recs := if r.recs.length ≤ x.index then r.recs ++ List.replicate (x.index + 1 - r.recs.length) default else r.recs
    { r with recs := recs.set x.index x }

def Records.rebuildFreeIndex (r : Records) : Records :=
  (List.range r.recs.length).foldl (fun acc i => if i != 0 && (acc.get i).index == 0 then acc.removeIndex i else acc) r

def scanRecords : Nat → Bytes → Nat → Records → Except Err Records
  | 0, _, _, r => .ok r
  | fuel + 1, d, cur, r =>
    if cur < d.length then
      let x := readRecordAt d cur
      if (d.length - cur + RECORD_SIZE) < x.size then .error .outOfBounds
      else scanRecords fuel d x.fin (r.setRecord x)
    else .ok r

/-- `Storage::new` on an empty store: version record written in one transaction. -/
def Storage.create : Storage :=
  let s0 : Storage := { data := [], records := Records.new, txn := 0, version := CURRENT_VERSION, trace := [] }
  let (s1, id) := s0.begin
  let s2 := s1.dataResize (RECORD_SIZE + 8)
  let s3 := s2.writeRecord ⟨0, 0, 8⟩
  let s4 := s3.dataWrite RECORD_SIZE (le8 CURRENT_VERSION)
  (s4.commit id).1

/-- `Storage::with_data` on a version-1 image (the version-0 upgrade path is not modelled). -/
def Storage.openImage (d : Bytes) : Except Err Storage :=
  if d.length < RECORD_SIZE then .error .notAllowed
  else
    let v := readRecordAt d 0
    if v.index != 0 then .error .notAllowed
    else if v.size < 8 then .error .notEnoughData
    else
      let version := unle8 (d.drop RECORD_SIZE)
      if version != CURRENT_VERSION then .error .notAllowed
      else
        match scanRecords (d.length + 1) d (RECORD_SIZE + 8) Records.new with
        | .error e => .error e
        | .ok r => .ok { data := d, records := r.rebuildFreeIndex, txn := 0, version := version, trace := [] }

end AgdbStorage
