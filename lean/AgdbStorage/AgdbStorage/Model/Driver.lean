import AgdbStorage.Model.Wal
/-
Line-protocol driver helpers shared by the streams of this project.
-/
namespace AgdbStorage

def fnvByte (h : UInt64) (b : UInt8) : UInt64 := (h ^^^ b.toUInt64) * 0x100000001b3

def fnvBytes (h : UInt64) (b : Bytes) : UInt64 := b.foldl fnvByte h

/-- length-prefixed chunk (8 bytes LE), as in the harness -/
def fnvChunk (h : UInt64) (b : Bytes) : UInt64 := fnvBytes (fnvBytes h (le8 b.length)) b

def fnvInit : UInt64 := 0xcbf29ce484222325

def hex16 (x : UInt64) : String :=
  let n := x.toNat
  String.ofList ((List.range 16).map fun i => hexDigit (n / 16 ^ (15 - i) % 16))

/-- Pre-call states of a syscall list (whole calls only; torn states are the oracle's business). -/
def preStates (d : Disk) : List Sys → List Disk
  | [] => []
  | s :: ss => d :: preStates (s.apply d) ss

structure WalDrv where
  disk : Option Disk := none

def walDigest (d : Disk) (ss : List Sys) : String :=
  let pre := preStates d ss
  let fin := applyAll d ss
  let h := (pre ++ [fin]).foldl (fun h x => fnvChunk (fnvChunk h x.data) x.wal) fnvInit
  s!"pts={ss.length} h={hex16 h} len={fin.data.length}"

def walStep (st : WalDrv) (toks : List String) : WalDrv × String :=
  match toks, st.disk with
  | ["init", hx], _ =>
    match ofHex hx with
    | some b => ({ disk := some ⟨b, []⟩ }, s!"ok len={b.length}")
    | none => (st, "bad-op")
  | _, none => (st, "bad-op")
  | ["write", p, hx], some d =>
    match p.toNat?, ofHex hx with
    | some pos, some b =>
      -- `min(current_len, end) - pos` underflows (debug build) when a non-empty write starts past the end
      if !b.isEmpty && pos > d.data.length then (st, "panic")
      else
        let ss := (FsOp.write pos b).sys d.data
        ({ disk := some (applyAll d ss) }, walDigest d ss)
    | _, _ => (st, "bad-op")
  | ["resize", n], some d =>
    match n.toNat? with
    | some n =>
      let ss := (FsOp.resize n).sys d.data
      ({ disk := some (applyAll d ss) }, walDigest d ss)
    | none => (st, "bad-op")
  | ["flush"], some d =>
    let ss := FsOp.flush.sys d.data
    ({ disk := some (applyAll d ss) }, walDigest d ss)
  | ["dump"], some d => (st, s!"data={toHex d.data} wal={toHex d.wal}")
  | ["drop"], some d =>
    let r := recover d
    ({ disk := some r }, s!"data={toHex r.data} wal={toHex r.wal}")
  | _, _ => (st, "bad-op")

end AgdbStorage
