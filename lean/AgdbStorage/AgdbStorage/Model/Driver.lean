import AgdbStorage.Model.Wal
import AgdbStorage.Model.Storage
import AgdbStorage.Model.Readers
/-
Line-protocol driver helpers shared by the streams of this project.
-/
namespace AgdbStorage

def fnvByte (h : UInt64) (b : UInt8) : UInt64 := (h ^^^ b.toUInt64) * 0x100000001b3

def fnvBytes (h : UInt64) (b : Bytes) : UInt64 := b.foldl fnvByte h

/-- length-prefixed chunk (8 bytes LE), as in the harness -/
def fnvChunk (h : UInt64) (b : Bytes) : UInt64 := fnvBytes (fnvBytes h (le8 b.length)) b

def fnvInit : UInt64 := 0xcbf29ce484222325

def hex16 (x : UInt64) : String :=
  let n := x.toNat
  String.ofList ((List.range 16).map fun i => hexDigit (n / 16 ^ (15 - i) % 16))

/-- Pre-call states of a syscall list (whole calls only; torn states are the oracle's business). -/
def preStates (d : Disk) : List Sys → List Disk
  | [] => []
  | s :: ss => d :: preStates (s.apply d) ss

structure WalDrv where
  disk : Option Disk := none

def walDigest (d : Disk) (ss : List Sys) : String :=
  let pre := preStates d ss
  let fin := applyAll d ss
  let h := (pre ++ [fin]).foldl (fun h x => fnvChunk (fnvChunk h x.data) x.wal) fnvInit
  s!"pts={ss.length} h={hex16 h} len={fin.data.length}"

def walStep (st : WalDrv) (toks : List String) : WalDrv × String :=
  match toks, st.disk with
  | ["init", hx], _ =>
    match ofHex hx with
    | some b => ({ disk := some ⟨b, []⟩ }, s!"ok len={b.length}")
    | none => (st, "bad-op")
  | _, none => (st, "bad-op")
  | ["write", p, hx], some d =>
    match p.toNat?, ofHex hx with
    | some pos, some b =>
      -- `min(current_len, end) - pos` underflows (debug build) when a non-empty write starts past the end
      if !b.isEmpty && pos > d.data.length then (st, "panic")
      else
        let ss := (FsOp.write pos b).sys d.data
        ({ disk := some (applyAll d ss) }, walDigest d ss)
    | _, _ => (st, "bad-op")
  | ["resize", n], some d =>
    match n.toNat? with
    | some n =>
      let ss := (FsOp.resize n).sys d.data
      ({ disk := some (applyAll d ss) }, walDigest d ss)
    | none => (st, "bad-op")
  | ["flush"], some d =>
    let ss := FsOp.flush.sys d.data
    ({ disk := some (applyAll d ss) }, walDigest d ss)
  | ["dump"], some d => (st, s!"data={toHex d.data} wal={toHex d.wal}")
  | ["drop"], some d =>
    let r := recover d
    ({ disk := some r }, s!"data={toHex r.data} wal={toHex r.wal}")
  | _, _ => (st, "bad-op")

end AgdbStorage

namespace AgdbStorage

/-! ### stream `st`: the record allocator -/

def fnvNat (h : UInt64) (n : Nat) : UInt64 := fnvBytes h (le8 n)

def fnvCall (h : UInt64) : FsOp → UInt64
  | .write pos bs => fnvChunk (fnvNat (fnvByte h 1) pos) bs
  | .resize n => fnvNat (fnvByte h 2) n
  | .flush => fnvByte h 3

def callsDigest (calls : List FsOp) : String :=
  s!"calls={calls.length} h={hex16 (calls.foldl fnvCall fnvInit)}"

def resStr {α : Type} (f : α → String) : Except Err α → String
  | .ok a => f a
  | .error e => e.str

def stTail (before after : Storage) : String :=
  let calls := after.trace.drop before.trace.length
  s!" len={after.len} txn={after.txn} {callsDigest calls}"

def joinWith (sep : String) (xs : List String) : String := sep.intercalate xs

def stDump (s : Storage) : String :=
  let recs := joinWith "," (s.records.recs.map fun r => s!"{r.index}:{r.pos}:{r.size}")
  let free := joinWith "," (s.records.free.map fun e => s!"{e.1}:{e.2}")
  s!"len={s.len} txn={s.txn} recs={recs} free={free} dh={hex16 (fnvChunk fnvInit s.data)}"

structure StDrv where
  st : Option Storage := none

def stStep (d : StDrv) (toks : List String) : StDrv × String :=
  match toks, d.st with
  | ["new"], _ =>
    let s := Storage.create
    ({ st := some s }, "ok" ++ stTail { s with trace := [] } s)
  | _, none => (d, "bad-op")
  | ["insert", hx], some s =>
    match ofHex hx with
    | some b =>
      let (s', r) := s.insertBytes b
      ({ st := some s' }, resStr (fun i => s!"ok idx={i}") r ++ stTail s s')
    | none => (d, "bad-op")
  | ["insert_at", i, off, hx], some s =>
    match i.toNat?, off.toNat?, ofHex hx with
    | some i, some off, some b =>
      let (s', r) := s.insertBytesAt i off b
      ({ st := some s' }, resStr (fun _ => "ok") r ++ stTail s s')
    | _, _, _ => (d, "bad-op")
  | ["move", i, f, t, n], some s =>
    match i.toNat?, f.toNat?, t.toNat?, n.toNat? with
    | some i, some f, some t, some n =>
      let (s', r) := s.moveAt i f t n
      ({ st := some s' }, resStr (fun _ => "ok") r ++ stTail s s')
    | _, _, _, _ => (d, "bad-op")
  | ["remove", i], some s =>
    match i.toNat? with
    | some i =>
      let (s', r) := s.remove i
      ({ st := some s' }, resStr (fun _ => "ok") r ++ stTail s s')
    | none => (d, "bad-op")
  | ["replace", i, hx], some s =>
    match i.toNat?, ofHex hx with
    | some i, some b =>
      let (s', r) := s.replace i b
      ({ st := some s' }, resStr (fun _ => "ok") r ++ stTail s s')
    | _, _ => (d, "bad-op")
  | ["resize", i, n], some s =>
    match i.toNat?, n.toNat? with
    | some i, some n =>
      let (s', r) := s.resizeValue i n
      ({ st := some s' }, resStr (fun _ => "ok") r ++ stTail s s')
    | _, _ => (d, "bad-op")
  | ["optimize"], some s =>
    let (s', r) := s.optimize
    ({ st := some s' }, resStr (fun _ => "ok") r ++ stTail s s')
  | ["begin"], some s =>
    let (s', id) := s.begin
    ({ st := some s' }, s!"ok id={id}" ++ stTail s s')
  | ["commit", id], some s =>
    match id.toNat? with
    | some id =>
      let (s', r) := s.commit id
      ({ st := some s' }, resStr (fun _ => "ok") r ++ stTail s s')
    | none => (d, "bad-op")
  | ["read", i], some s =>
    match i.toNat? with
    | some i => (d, resStr (fun b => s!"ok {toHex b}") (s.value i))
    | none => (d, "bad-op")
  | ["read_at", i, off, n], some s =>
    match i.toNat?, off.toNat?, n.toNat? with
    | some i, some off, some n => (d, resStr (fun b => s!"ok {toHex b}") (s.valueAtSize i off n))
    | _, _, _ => (d, "bad-op")
  | ["size", i], some s =>
    match i.toNat? with
    | some i => (d, resStr (fun n => s!"ok {n}") (s.valueSize i))
    | none => (d, "bad-op")
  | ["dump"], some s => (d, stDump s)
  | ["data"], some s => (d, s!"data={toHex s.data}")
  | ["reopen"], some s =>
    if s.txn != 0 then (d, "bad-op")
    else
      match Storage.openImage s.data with
      | .ok s' => ({ st := some s' }, "ok " ++ stDump s')
      | .error e => (d, e.str)
  | _, _ => (d, "bad-op")

end AgdbStorage

namespace AgdbStorage

/-! ### stream `rd`: concurrent readers -/

structure RdDrv where
  st : Option RState := none

def rdRes : Option Bytes → String
  | some b => toHex b
  | none => "err"

def rdStep (d : RdDrv) (toks : List String) : RdDrv × String :=
  match toks, d.st with
  | ["file", hx], _ =>
    match ofHex hx with
    | some b => ({ st := some (RState.init b 0) }, "ok")
    | none => (d, "bad-op")
  | _, none => (d, "bad-op")
  | ["start", t, p, n], some s =>
    match t.toNat?, p.toNat?, n.toNat? with
    | some t, some p, some n =>
      let s' := s.step (.start t ⟨p, n⟩)
      if s'.log.length > s.log.length then
        match s'.log.head? with
        | some (u, _, res) => ({ st := some s' }, s!"done {u} {rdRes res}")
        | none => ({ st := some s' }, "ok")
      else ({ st := some s' }, "ok")
    | _, _, _ => (d, "bad-op")
  | ["step", t], some s =>
    match t.toNat? with
    | some t =>
      let s' := s.step (.step t)
      if s'.log.length > s.log.length then
        match s'.log.head? with
        | some (u, _, res) => ({ st := some s' }, s!"done {u} {rdRes res}")
        | none => ({ st := some s' }, "ok")
      else ({ st := some s' }, "ok")
    | none => (d, "bad-op")
  | _, _ => (d, "bad-op")

end AgdbStorage
