/-
L0: bytes, little-endian u64 encoding, file-content primitives.
Mirrors: `u64::serialize` (agdb/src/utilities/serialize.rs: `to_le_bytes`), POSIX `pwrite`
(zero-fills a gap when writing past the end) and `ftruncate` (`File::set_len`, zero-fills on growth).
-/
namespace AgdbStorage

abbrev Bytes := List UInt8

/-- `u64::to_le_bytes` (for `n < 2^64`; larger values wrap like an `as u64` cast). -/
def le8 (n : Nat) : Bytes :=
  [UInt8.ofNat (n % 256), UInt8.ofNat (n / 256 % 256), UInt8.ofNat (n / 65536 % 256),
   UInt8.ofNat (n / 16777216 % 256), UInt8.ofNat (n / 4294967296 % 256),
   UInt8.ofNat (n / 1099511627776 % 256), UInt8.ofNat (n / 281474976710656 % 256),
   UInt8.ofNat (n / 72057594037927936 % 256)]

/-- `u64::from_le_bytes` of the first 8 bytes (0 if fewer: callers check the length first). -/
def unle8 : Bytes → Nat
  | b0 :: b1 :: b2 :: b3 :: b4 :: b5 :: b6 :: b7 :: _ =>
    b0.toNat + 256 * b1.toNat + 65536 * b2.toNat + 16777216 * b3.toNat + 4294967296 * b4.toNat +
      1099511627776 * b5.toNat + 281474976710656 * b6.toNat + 72057594037927936 * b7.toNat
  | _ => 0

/-- `pwrite(pos, bs)` on a file with content `d`. -/
def writeAt (d : Bytes) (pos : Nat) (bs : Bytes) : Bytes :=
  d.take pos ++ List.replicate (pos - d.length) 0 ++ bs ++ d.drop (pos + bs.length)

/-- `ftruncate(n)`. -/
def setLen (d : Bytes) (n : Nat) : Bytes :=
  d.take n ++ List.replicate (n - d.length) 0

/-- `read_exact` of `n` bytes at `pos` (callers guarantee the range). -/
def readAt (d : Bytes) (pos n : Nat) : Bytes := (d.drop pos).take n

def hexDigit (n : Nat) : Char :=
  if n < 10 then Char.ofNat (48 + n) else Char.ofNat (87 + n)

def toHex (b : Bytes) : String :=
  if b.isEmpty then "-" else
  String.ofList (b.flatMap fun x => [hexDigit (x.toNat / 16), hexDigit (x.toNat % 16)])

def hexVal (c : Char) : Option Nat :=
  if '0' ≤ c ∧ c ≤ '9' then some (c.toNat - 48)
  else if 'a' ≤ c ∧ c ≤ 'f' then some (c.toNat - 87)
  else none

def ofHexChars : List Char → Option Bytes
  | [] => some []
  | a :: b :: rest =>
    match hexVal a, hexVal b, ofHexChars rest with
    | some x, some y, some r => some (UInt8.ofNat (x * 16 + y) :: r)
    | _, _, _ => none
  | _ => none

def ofHex (s : String) : Option Bytes :=
  if s == "-" then some [] else ofHexChars s.toList

end AgdbStorage
