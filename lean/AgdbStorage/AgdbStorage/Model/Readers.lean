import AgdbStorage.Model.Bytes
/-
C23 model: `FileStorage::read` under concurrent readers (agdb/src/storage/file_storage.rs).

```
let mut buffer = vec![0; len];
if let Ok(_guard) = self.lock.try_lock() { seek(&self.file, pos); read_exact(&self.file, buf) }
else { let f = File::open(name); seek(&f, pos); read_exact(&f, buf) }
```
One shared handle with ONE cursor, guarded by a `try_lock`; a thread that does not get the lock
opens a private handle.  The file content does not change while readers hold the database's
read lock.  Small-step semantics: each seek and each read is a separate atomic step, threads
interleave arbitrarily.
-/
namespace AgdbStorage

structure Req where
  pos : Nat
  n : Nat
deriving Repr, DecidableEq

inductive Pc where
  | idle
  | lseek (r : Req)               -- holds the lock, about to seek the shared handle
  | lread (r : Req)               -- holds the lock, shared handle positioned, about to read
  | fseek (r : Req)               -- private handle opened, about to seek it
  | fread (r : Req) (cur : Nat)   -- private handle positioned at `cur`, about to read
deriving Repr, DecidableEq

/-- `FileStorage::read` (after commit "fix: bound checks when opening damaged files"): a read that
does not lie inside the file is an error (also a zero-length read that starts past the end). -/
def readExact (file : Bytes) (cur n : Nat) : Option Bytes :=
  if cur + n ≤ file.length then some (readAt file cur n) else none

structure RState where
  file : Bytes
  cursor : Nat                        -- position of the shared handle
  lock : Option Nat                   -- holder of the mutex
  pcs : Nat → Pc                      -- per thread
  log : List (Nat × Req × Option Bytes)   -- completed reads: (thread, request, result)

inductive REv where
  | start (t : Nat) (r : Req)   -- thread `t` (if idle) calls `read(r.pos, r.n)`: try_lock or open
  | step (t : Nat)              -- thread `t` performs its next atomic step

def setPc (pcs : Nat → Pc) (t : Nat) (p : Pc) : Nat → Pc := fun u => if u = t then p else pcs u

def RState.step (s : RState) : REv → RState
  | .start t r =>
    match s.pcs t with
    | .idle =>
      -- the range check comes first (before `try_lock`): an out-of-range read fails at once
      if r.pos + r.n > s.file.length then { s with log := (t, r, none) :: s.log }
      else
        match s.lock with
        | none => { s with lock := some t, pcs := setPc s.pcs t (.lseek r) }
        | some _ => { s with pcs := setPc s.pcs t (.fseek r) }
    | _ => s
  | .step t =>
    match s.pcs t with
    | .idle => s
    | .lseek r => { s with cursor := r.pos, pcs := setPc s.pcs t (.lread r) }
    | .lread r =>
      { s with cursor := s.cursor + r.n, lock := none, pcs := setPc s.pcs t .idle,
               log := (t, r, readExact s.file s.cursor r.n) :: s.log }
    | .fseek r => { s with pcs := setPc s.pcs t (.fread r r.pos) }
    | .fread r cur =>
      { s with pcs := setPc s.pcs t .idle, log := (t, r, readExact s.file cur r.n) :: s.log }

def RState.init (file : Bytes) (cursor : Nat) : RState :=
  { file := file, cursor := cursor, lock := none, pcs := fun _ => .idle, log := [] }

def RState.run (s : RState) (evs : List REv) : RState := evs.foldl RState.step s

/-- A variant WITHOUT the mutex (every reader uses the shared handle): used to show that the
theorem is about the lock and not vacuous. -/
def RState.stepNoLock (s : RState) : REv → RState
  | .start t r =>
    match s.pcs t with
    | .idle => { s with pcs := setPc s.pcs t (.lseek r) }
    | _ => s
  | ev => s.step ev

end AgdbStorage
