import AgdbStorage.Lemmas.AllocOptimizeA
/-
`Storage::shrink_to_fit` (`Storage.optimize`), part B: the loop.  `OInv s0 st cur l H` is the
invariant of the fold over the suffix `l` of the sorted record list, in state `st` with write
cursor `cur`; `H` is the set of bytes owned by nobody (free regions, vacated blocks).
-/
namespace AgdbStorage

/-! ### step lemmas in a convenient shape -/

/-- a write that stays inside the file and inside the hole -/
theorem RG.writeIn {r : Records} {X H : Nat → Prop} {d : Bytes} {V : Nat → Bytes}
    (h : RG r X H d V) (pos : Nat) (bs : Bytes) (n : Nat) (hn : bs.length = n)
    (hp : pos + n ≤ d.length) (hin : ∀ y, pos ≤ y → y < pos + n → H y) :
    RG r X H (writeAt d pos bs) V ∧ (writeAt d pos bs).length = d.length := by
  subst hn
  constructor
  · refine (h.write pos bs (by omega) (fun y a b _ => hin y a b)).congr (fun _ => Iff.rfl) ?_
    intro y
    constructor
    · intro c; exact Or.inl c
    · rintro (c | c)
      · exact c
      · omega
  · rw [length_writeAt d bs pos (by omega)]; omega

theorem RG.resume' {r : Records} {X H : Nat → Prop} {d : Bytes} {V : Nat → Bytes}
    (h : RG r X H d V) (k p z : Nat) (hk : r.live k) (hp : (r.get k).pos = p)
    (hz : (r.get k).size = z) (hin : ∀ y, p ≤ y → y < p + 16 + z → H y)
    (hh : readAt d p 16 = le8 k ++ le8 z) (hv : readAt d (p + 16) z = V k) :
    RG r (fun j => X j ∧ j ≠ k) (fun y => H y ∧ ¬ (p ≤ y ∧ y < p + 16 + z)) d V := by
  subst hp hz
  exact h.resume k hk hin hh hv

/-! ### `shrinkIndex` -/

theorem Storage.shrinkIndex_eq (s : Storage) (x : SRec) (cur : Nat) (h : x.pos = cur) :
    s.shrinkIndex x cur = (s, cur + 16 + x.size) := by
  simp [Storage.shrinkIndex, h, RECORD_SIZE]

theorem Storage.shrinkIndex_ne (s : Storage) (x : SRec) (cur : Nat) (h : x.pos ≠ cur) :
    s.shrinkIndex x cur =
      ((({ s with records := s.records.setPos x.index cur } : Storage).writeRecord
          { x with pos := cur }).dataWrite (cur + 16) (readAt s.data (x.pos + 16) x.size),
        cur + 16 + x.size) := by
  simp [Storage.shrinkIndex, h, RECORD_SIZE, SRec.valueStart]

theorem Storage.shrinkIndex_snd (s : Storage) (x : SRec) (cur : Nat) :
    (s.shrinkIndex x cur).2 = cur + 16 + x.size := by
  by_cases h : x.pos = cur
  · rw [Storage.shrinkIndex_eq s x cur h]
  · rw [Storage.shrinkIndex_ne s x cur h]

/-! ### the loop invariant -/

structure OInv (s0 st : Storage) (cur : Nat) (l : List SRec) (H : Nat → Prop) : Prop where
  rg : RG st.records (fun j => j = 0) H st.data s0.val
  len : st.data.length = s0.data.length
  cur24 : 24 ≤ cur
  curle : cur ≤ st.data.length
  done : ∀ j, st.records.live j →
    (st.records.get j).pos + 16 + (st.records.get j).size ≤ cur ∨ st.records.get j ∈ l
  todo : ∀ x ∈ l, st.records.live x.index ∧ st.records.get x.index = x ∧ cur ≤ x.pos
  sorted : l.Pairwise (fun a b => a.pos ≤ b.pos)
  nodup : l.Pairwise (fun a b => a.index ≠ b.index)
  nohole : ∀ y, y < cur → ¬ H y
  idx : ∀ j, (st.records.get j).index = (s0.records.get j).index
  sizes : st.records.recs.map idxSize = s0.records.recs.map idxSize
  txn : st.txn = s0.txn

theorem OInv.init (s : Storage) (hs : SInv s) :
    OInv s s 24 s.records.validSorted
      (fun y => ∃ x ∈ s.records.free, x.1 ≤ y ∧ y < x.1 + 16 + x.2) := by
  refine ⟨(RG.intro hs).suspendFree, rfl, Nat.le_refl _, hs.lay.len24, ?_, ?_,
    s.records.validSorted_sorted, s.records.validSorted_nodup hs.idx, ?_, fun _ => rfl, rfl, rfl⟩
  · intro j hj
    right
    exact (Records.mem_validSorted_iff _ hs.idx _).mpr ⟨by rw [hj.2]; exact hj, by rw [hj.2]⟩
  · intro x hx
    obtain ⟨a, b⟩ := (Records.mem_validSorted_iff _ hs.idx _).mp hx
    refine ⟨a, b, ?_⟩
    exact (hs.lay.bnd x.index x.pos x.size (Or.inl ⟨a, by rw [b], by rw [b]⟩)).1
  · rintro y hy ⟨x, hx, c1, c2⟩
    have := hs.lay.bnd 0 x.1 x.2 (Records.Blk_zero.mpr hx)
    omega

theorem OInv.head {s0 st : Storage} {cur : Nat} {x : SRec} {l : List SRec} {H : Nat → Prop}
    (h : OInv s0 st cur (x :: l) H) :
    st.records.live x.index ∧ st.records.get x.index = x ∧ cur ≤ x.pos ∧
      st.records.B (fun j => j = 0) x.index x.pos x.size ∧
      x.pos + 16 + x.size ≤ st.data.length ∧
      (∀ y ∈ l, x.pos + 16 + x.size ≤ y.pos ∧ y.index ≠ x.index) := by
  obtain ⟨hk, hget, hcur⟩ := h.todo x (List.mem_cons.mpr (Or.inl rfl))
  have hbk : st.records.B (fun j => j = 0) x.index x.pos x.size :=
    ⟨Or.inl ⟨hk, by rw [hget], by rw [hget]⟩, hk.1⟩
  have hbnd := h.rg.lay.bnd _ _ _ hbk
  refine ⟨hk, hget, hcur, hbk, hbnd.2, ?_⟩
  intro y hy
  obtain ⟨hyk, hyget, _⟩ := h.todo y (List.mem_cons_of_mem _ hy)
  have hby : st.records.B (fun j => j = 0) y.index y.pos y.size :=
    ⟨Or.inl ⟨hyk, by rw [hyget], by rw [hyget]⟩, hyk.1⟩
  have hs := (List.pairwise_cons.mp h.sorted).1 y hy
  have hn := (List.pairwise_cons.mp h.nodup).1 y hy
  rcases h.rg.lay.disj _ _ _ _ _ _ hbk hby with e | e | e
  · exact absurd e.1 hn
  · exact ⟨e, Ne.symm hn⟩
  · omega

/-- the record is already in place -/
theorem OInv.keep {s0 st : Storage} {cur : Nat} {x : SRec} {l : List SRec} {H : Nat → Prop}
    (h : OInv s0 st cur (x :: l) H) (he : x.pos = cur) :
    OInv s0 st (cur + 16 + x.size) l H := by
  obtain ⟨hk, hget, hcur, hbk, hle, hsep⟩ := h.head
  have h24 := h.cur24
  refine ⟨h.rg, h.len, by omega, by omega, ?_, ?_, (List.pairwise_cons.mp h.sorted).2,
    (List.pairwise_cons.mp h.nodup).2, ?_, h.idx, h.sizes, h.txn⟩
  · intro j hj
    rcases h.done j hj with c | c
    · left; omega
    · rcases List.mem_cons.mp c with e | e
      · left; rw [e]; omega
      · right; exact e
  · intro y hy
    obtain ⟨a, b, _⟩ := h.todo y (List.mem_cons_of_mem _ hy)
    exact ⟨a, b, by have := (hsep y hy).1; omega⟩
  · intro y hy hh
    by_cases c : y < cur
    · exact h.nohole y c hh
    · exact h.rg.lay.hfree _ _ _ y hbk (by omega) (by omega) hh

/-- the record is moved left to `cur` -/
theorem OInv.move {s0 st : Storage} {cur : Nat} {x : SRec} {l : List SRec} {H : Nat → Prop}
    (h : OInv s0 st cur (x :: l) H) (hne : x.pos ≠ cur) (st' : Storage)
    (hr : st'.records = st.records.setPos x.index cur)
    (hd : st'.data = writeAt (writeAt st.data cur (le8 x.index ++ le8 x.size)) (cur + 16)
      (readAt st.data (x.pos + 16) x.size))
    (ht : st'.txn = st.txn) :
    OInv s0 st' (cur + 16 + x.size) l
      (fun y => (H y ∨ (x.pos ≤ y ∧ y < x.pos + 16 + x.size)) ∧
        ¬ (cur ≤ y ∧ y < cur + 16 + x.size)) := by
  obtain ⟨hk, hget, hcur, hbk, hle, hsep⟩ := h.head
  have hlt : cur < x.pos := by omega
  have h24 := h.cur24
  have hklt := Records.live_lt hk
  have hget' : ∀ j, (st.records.setPos x.index cur).get j =
      if j = x.index then { x with pos := cur } else st.records.get j := by
    intro j; rw [Records.setPos_get _ _ _ _ hklt, hget]
  have hidxeq := Records.setPos_index st.records x.index cur
  have hlive' : ∀ j, (st.records.setPos x.index cur).live j ↔ st.records.live j :=
    Records.live_congr hidxeq
  have hidx' : IdxInv (st.records.setPos x.index cur) :=
    IdxInv.congr h.rg.idx (Records.setPos_length _ _ _) hidxeq
  have hval : readAt st.data (x.pos + 16) x.size = s0.val x.index :=
    h.rg.dat.val _ _ _ hbk hk.1
  -- the bytes between the cursor and the record are owned by nobody
  have hgap : ∀ y, cur ≤ y → y < x.pos → H y := by
    intro y h1 h2
    rcases h.rg.lay.cover y (by omega) (by omega) with c | ⟨i, p, z, hb, c1, c2⟩
    · exact c
    · exfalso
      obtain ⟨hil, e1, e2⟩ := Records.Blk_live hb.1 hb.2
      rcases h.done i hil with c | c
      · omega
      · rcases List.mem_cons.mp c with e | e
        · rw [e] at e1; omega
        · have := (hsep _ e).1; omega
  have hin : ∀ y, cur ≤ y → y < x.pos + 16 + x.size →
      H y ∨ (x.pos ≤ y ∧ y < x.pos + 16 + x.size) := by
    intro y h1 h2
    by_cases c : y < x.pos
    · exact Or.inl (hgap y h1 c)
    · exact Or.inr ⟨by omega, h2⟩
  have G1 := h.rg.suspend x.index hk hk.1
  rw [hget] at G1
  have G2 := G1.modify (r' := st.records.setPos x.index cur) (Records.setPos_free _ _ _) hidx'
    (fun j _ hxj => by rw [hget', if_neg (fun e => hxj (Or.inr e))])
  obtain ⟨G3, hl3⟩ := G2.writeIn cur (le8 x.index ++ le8 x.size) 16 (by simp) (by omega)
    (fun y h1 h2 => hin y h1 (by omega))
  have hbl : (readAt st.data (x.pos + 16) x.size).length = x.size := by
    rw [length_readAt]; omega
  obtain ⟨G4, hl4⟩ := G3.writeIn (cur + 16) (readAt st.data (x.pos + 16) x.size) x.size hbl
    (by rw [hl3]; omega) (fun y h1 h2 => hin y (by omega) (by omega))
  have hgk : (st.records.setPos x.index cur).get x.index = { x with pos := cur } := by
    rw [hget', if_pos rfl]
  have hh : readAt (writeAt (writeAt st.data cur (le8 x.index ++ le8 x.size)) (cur + 16)
      (readAt st.data (x.pos + 16) x.size)) cur 16 = le8 x.index ++ le8 x.size := by
    rw [readAt_writeAt_before _ _ (cur + 16) cur 16 (by rw [hl3]; omega) (by omega)]
    have := readAt_writeAt_self st.data (le8 x.index ++ le8 x.size) cur (by omega)
    simpa using this
  have hv : readAt (writeAt (writeAt st.data cur (le8 x.index ++ le8 x.size)) (cur + 16)
      (readAt st.data (x.pos + 16) x.size)) (cur + 16) x.size = s0.val x.index := by
    have := readAt_writeAt_self (writeAt st.data cur (le8 x.index ++ le8 x.size))
      (readAt st.data (x.pos + 16) x.size) (cur + 16) (by rw [hl3]; omega)
    rw [hbl] at this
    rw [this, hval]
  have G5 := G4.resume' x.index cur x.size ((hlive' _).mpr hk) (by rw [hgk]) (by rw [hgk])
    (fun y h1 h2 => hin y h1 (by omega)) hh hv
  have G6 := G5.congr (X' := fun j => j = 0)
    (H' := fun y => (H y ∨ (x.pos ≤ y ∧ y < x.pos + 16 + x.size)) ∧
        ¬ (cur ≤ y ∧ y < cur + 16 + x.size))
    (fun j => ⟨fun e => ⟨Or.inl e, fun c => hk.1 (c ▸ e)⟩, fun c => c.1.resolve_right c.2⟩)
    (fun y => Iff.rfl)
  refine ⟨by rw [hr, hd]; exact G6, by rw [hd, hl4, hl3]; exact h.len, by omega,
    by rw [hd, hl4, hl3]; omega, ?_, ?_, (List.pairwise_cons.mp h.sorted).2,
    (List.pairwise_cons.mp h.nodup).2, ?_, ?_, ?_, by rw [ht]; exact h.txn⟩
  · intro j hj
    rw [hr] at hj ⊢
    have hj' := (hlive' j).mp hj
    rw [hget']
    by_cases e : j = x.index
    · rw [if_pos e]; left; exact Nat.le_refl _
    · rw [if_neg e]
      rcases h.done j hj' with c | c
      · left; omega
      · rcases List.mem_cons.mp c with e' | e'
        · exfalso; apply e; rw [← e']; exact hj'.2.symm
        · right; exact e'
  · intro y hy
    obtain ⟨a, b, _⟩ := h.todo y (List.mem_cons_of_mem _ hy)
    have := hsep y hy
    rw [hr, hlive', hget', if_neg this.2]
    exact ⟨a, b, by omega⟩
  · rintro y hy ⟨c, n⟩
    by_cases c1 : y < cur
    · rcases c with c | c
      · exact h.nohole y c1 c
      · omega
    · exact n ⟨by omega, hy⟩
  · intro j; rw [hr, hidxeq]; exact h.idx j
  · rw [hr, Records.setPos_idxSize]; exact h.sizes

theorem OInv.step {s0 st : Storage} {cur : Nat} {x : SRec} {l : List SRec} {H : Nat → Prop}
    (h : OInv s0 st cur (x :: l) H) :
    ∃ H', OInv s0 (st.shrinkIndex x cur).1 (st.shrinkIndex x cur).2 l H' := by
  by_cases he : x.pos = cur
  · rw [Storage.shrinkIndex_eq st x cur he]
    exact ⟨H, h.keep he⟩
  · rw [Storage.shrinkIndex_ne st x cur he]
    exact ⟨_, h.move he _ rfl rfl rfl⟩

theorem OInv.fold {s0 : Storage} (l : List SRec) : ∀ (acc : Storage × Nat) (H : Nat → Prop),
    OInv s0 acc.1 acc.2 l H →
    ∃ H', OInv s0 (l.foldl (fun (acc : Storage × Nat) r => acc.1.shrinkIndex r acc.2) acc).1
      (l.foldl (fun (acc : Storage × Nat) r => acc.1.shrinkIndex r acc.2) acc).2 [] H' := by
  induction l with
  | nil => intro acc H h; exact ⟨H, h⟩
  | cons x xs ih =>
    intro acc H h
    obtain ⟨H1, h1⟩ := h.step
    exact ih _ H1 h1

theorem shrink_fold_cur (l : List SRec) : ∀ (acc : Storage × Nat),
    (l.foldl (fun (acc : Storage × Nat) r => acc.1.shrinkIndex r acc.2) acc).2 =
      acc.2 + (l.map fun x => 16 + x.size).sum := by
  induction l with
  | nil => intro acc; simp
  | cons x xs ih =>
    intro acc
    rw [List.foldl_cons, ih, Storage.shrinkIndex_snd]
    simp only [List.map_cons, List.sum_cons]
    omega

/-- after the loop: cut the file at the cursor and drop the free map -/
theorem OInv.finish {s0 st : Storage} {cur : Nat} {H : Nat → Prop} (h : OInv s0 st cur [] H) :
    RInv { st.records with free := [] } (setLen st.data cur) ∧
      ∀ j, st.records.live j →
        readAt (setLen st.data cur) ((st.records.get j).pos + 16) (st.records.get j).size =
          s0.val j := by
  have hend : ∀ y, cur ≤ y → y < st.data.length → H y := by
    intro y h1 h2
    have h24 := h.cur24
    rcases h.rg.lay.cover y (by omega) h2 with c | ⟨i, p, z, hb, c1, c2⟩
    · exact c
    · exfalso
      obtain ⟨hil, e1, e2⟩ := Records.Blk_live hb.1 hb.2
      rcases h.done i hil with c | c
      · omega
      · exact absurd c List.not_mem_nil
  have G1 := h.rg.truncate cur h.cur24 h.curle hend
  have G2 := G1.clearFree
  exact G2.elim (fun _ c => c) (fun y c => h.nohole y c.2 c.1)

end AgdbStorage
