import AgdbStorage.Lemmas.AllocTxn
/-
C01b helper lemmas, part 2: `begin`/`commit` and the transactional functions
(`insertBytes`, `insertBytesAt`, `resizeValue`, `remove`, `moveAt`, `replace`, `optimize`).
-/
namespace AgdbStorage

/-- a completed transactional function entered at depth `s.txn` -/
structure TxnOK (s s' : Storage) : Prop where
  txn : s'.txn = s.txn
  trace : ∃ cs, NoFlush cs ∧
    s'.trace = s.trace ++ cs ++ (if s.txn = 0 then [FsOp.flush] else [])

/-- a failed transactional function entered at depth `s.txn` -/
structure TxnErr (s s' : Storage) : Prop where
  txn : s'.txn = s.txn ∨ s'.txn = s.txn + 1
  trace : ∃ cs, NoFlush cs ∧ s'.trace = s.trace ++ cs

theorem TxnErr.refl (s : Storage) : TxnErr s s := ⟨Or.inl rfl, [], NoFlush.nil, by simp⟩

/-- a transactional function that completed at depth ≥ 1 is an inner step -/
theorem TxnOK.quiet {s s' : Storage} (h : TxnOK s s') (hpos : s.txn ≠ 0) : Quiet s s' := by
  obtain ⟨ht, cs, hn, htr⟩ := h
  refine ⟨ht, cs, ?_, hn⟩
  rw [htr, if_neg hpos, List.append_nil]

/-! ### `commit` -/

theorem Storage.commit_mismatch (s : Storage) (id : Nat) (h : s.txn ≠ id) :
    s.commit id = (s, .error .notAllowed) := by
  unfold Storage.commit
  have : (s.txn != id) = true := by simp [h]
  rw [if_pos this]

theorem Storage.commit_zero (s : Storage) (h : s.txn = 0) : s.commit 0 = (s, .ok ()) := by
  unfold Storage.commit
  have h1 : (s.txn != 0) = false := by simp [h]
  simp [h1]

theorem Storage.commit_one (s : Storage) (h : s.txn = 1) :
    s.commit 1 = ({ s with txn := 0, trace := s.trace ++ [FsOp.flush] }, .ok ()) := by
  unfold Storage.commit
  simp [h, Storage.dataFlush]

theorem Storage.commit_succ_succ (s : Storage) (t : Nat) (h : s.txn = t + 2) :
    s.commit (t + 2) = ({ s with txn := t + 1 }, .ok ()) := by
  unfold Storage.commit
  simp [h]

/-- the `commit id` that closes a `begin` issued at depth `s.txn`, after inner steps only -/
theorem Storage.commit_close (s s1 s3 : Storage) (h1t : s1.txn = s.txn + 1)
    (h1tr : s1.trace = s.trace) (h : Quiet s1 s3) :
    ∃ s4, s3.commit (s.txn + 1) = (s4, .ok ()) ∧ TxnOK s s4 := by
  obtain ⟨ht, cs, htr, hn⟩ := h
  rw [h1t] at ht
  rw [h1tr] at htr
  cases hs : s.txn with
  | zero =>
    rw [hs] at ht
    refine ⟨_, Storage.commit_one s3 ht, ⟨rfl.trans hs.symm, cs, hn, ?_⟩⟩
    simp [htr, hs]
  | succ t =>
    rw [hs] at ht
    refine ⟨_, Storage.commit_succ_succ s3 t ht, ⟨rfl.trans hs.symm, cs, hn, ?_⟩⟩
    simp [htr, hs]

theorem bindRes_ok_txn {α β : Type} {x : Res α} {s' : Storage} {a : α} (f : Storage → α → Res β)
    (h : x = (s', .ok a)) : bindRes x f = f s' a := by subst h; rfl

theorem bindRes_error_txn {α β : Type} {x : Res α} {s' : Storage} {e : Err} (f : Storage → α → Res β)
    (h : x = (s', .error e)) : bindRes x f = (s', .error e) := by subst h; rfl

/-! ### the transactional functions -/

theorem Storage.insertBytes_sum (s : Storage) (bs : Bytes) :
    ∃ s' i, s.insertBytes bs = (s', .ok i) ∧ TxnOK s s' := by
  unfold Storage.insertBytes
  split
  · rename_i recs fp fsz _
    obtain ⟨s4, hc, hok⟩ := Storage.commit_close s
      ({ s with records := (recs.newRecord fp bs.length).1 } : Storage).begin.1 _ rfl rfl
      ((Quiet.writeRecord _ (recs.newRecord fp bs.length).2).trans
        ((Quiet.dataWrite _ (recs.newRecord fp bs.length).2.valueStart bs).trans
          (Quiet.ite (c := fsz > bs.length)
            (Quiet.freeARegion _ (recs.newRecord fp bs.length).2.fin (fsz - RECORD_SIZE - bs.length))
            (Quiet.refl _))))
    exact ⟨s4, (recs.newRecord fp bs.length).2.index, bindRes_ok_txn _ hc, hok⟩
  · obtain ⟨s4, hc, hok⟩ := Storage.commit_close s
      ({ s with records := (s.records.newRecord s.len bs.length).1 } : Storage).begin.1 _ rfl rfl
      ((Quiet.writeRecord _ (s.records.newRecord s.len bs.length).2).trans (Quiet.append _ bs))
    exact ⟨s4, (s.records.newRecord s.len bs.length).2.index, bindRes_ok_txn _ hc, hok⟩

/-- shape of the functions that look the record up first and fail only there -/
def RecTxn (s : Storage) (i : Nat) (res : Res Unit) : Prop :=
  (∃ e, s.records.record i = .error e ∧ res = (s, .error e)) ∨
  (∃ r s', s.records.record i = .ok r ∧ res = (s', .ok ()) ∧ TxnOK s s')

theorem Storage.insertBytesAt_sum (s : Storage) (i off : Nat) (bs : Bytes) :
    RecTxn s i (s.insertBytesAt i off bs) := by
  unfold RecTxn Storage.insertBytesAt
  cases h : s.records.record i with
  | error e => exact Or.inl ⟨e, rfl, rfl⟩
  | ok r =>
    obtain ⟨s4, hc, hok⟩ := Storage.commit_close s s.begin.1 _ rfl rfl
      ((Quiet.ensureSize s.begin.1 r off bs.length).trans
        (Quiet.dataWrite _ ((s.begin.1.ensureSize r off bs.length).2.valueStart + off) bs))
    exact Or.inr ⟨r, s4, rfl, hc, hok⟩

theorem Storage.remove_sum (s : Storage) (i : Nat) : RecTxn s i (s.remove i) := by
  unfold RecTxn Storage.remove
  cases h : s.records.record i with
  | error e => exact Or.inl ⟨e, rfl, rfl⟩
  | ok r =>
    obtain ⟨s4, hc, hok⟩ := Storage.commit_close s s.begin.1 _ rfl rfl
      ((Quiet.records s.begin.1 (s.begin.1.records.removeIndex i)).trans
        (Quiet.ite (c := ({ s.begin.1 with records := s.begin.1.records.removeIndex i } : Storage).isAtEnd r = true)
          (Quiet.truncate _ r.pos) (Quiet.freeARegion _ r.pos r.size)))
    exact Or.inr ⟨r, s4, rfl, hc, hok⟩

theorem Storage.resizeValue_sum (s : Storage) (i n : Nat) : RecTxn s i (s.resizeValue i n) := by
  unfold RecTxn Storage.resizeValue
  cases h : s.records.record i with
  | error e => exact Or.inl ⟨e, rfl, rfl⟩
  | ok r =>
    obtain ⟨s4, hc, hok⟩ := Storage.commit_close s s.begin.1 _ rfl rfl
      (Quiet.ite (c := n > r.size) (Quiet.enlargeValue s.begin.1 r n)
        (Quiet.ite (c := n < r.size) (Quiet.shrinkValue s.begin.1 r n) (Quiet.refl _)))
    exact Or.inr ⟨r, s4, rfl, hc, hok⟩

theorem Storage.optimize_sum (s : Storage) : ∃ s', s.optimize = (s', .ok ()) ∧ TxnOK s s' := by
  unfold Storage.optimize
  exact Storage.commit_close s s.begin.1 _ rfl rfl
    ((Quiet.foldl_shrinkIndex s.begin.1.records.validSorted (s.begin.1, RECORD_SIZE + 8)).trans
      ((Quiet.truncate _ _).trans (Quiet.records _ _)))

/-- a failure after the function's own `begin`: the depth stays one too high, no flush -/
structure Stuck (s s' : Storage) : Prop where
  txn : s'.txn = s.txn + 1
  trace : ∃ cs, NoFlush cs ∧ s'.trace = s.trace ++ cs

theorem Stuck.of_quiet {s s1 s' : Storage} (h1t : s1.txn = s.txn + 1) (h1tr : s1.trace = s.trace)
    (h : Quiet s1 s') : Stuck s s' := by
  obtain ⟨ht, cs, htr, hn⟩ := h
  exact ⟨ht.trans h1t, cs, hn, by rw [htr, h1tr]⟩

theorem Stuck.txnErr {s s' : Storage} (h : Stuck s s') : TxnErr s s' := ⟨Or.inr h.txn, h.trace⟩

/-- `replace`: succeeds as a transaction, or fails with the depth stuck one too high. -/
theorem Storage.replace_sum (s : Storage) (i : Nat) (bs : Bytes) :
    (∃ s', s.replace i bs = (s', .ok ()) ∧ TxnOK s s') ∨
    (∃ s' e, s.replace i bs = (s', .error e) ∧ Stuck s s') := by
  unfold Storage.replace
  have hpos : s.begin.1.txn ≠ 0 := Nat.succ_ne_zero _
  rcases Storage.insertBytesAt_sum s.begin.1 i 0 bs with ⟨e, _, h1⟩ | ⟨r, s2, _, h1, ok1⟩
  · exact Or.inr ⟨_, e, bindRes_error_txn _ h1, Stuck.of_quiet (s1 := s.begin.1) rfl rfl (Quiet.refl _)⟩
  · have q1 : Quiet s.begin.1 s2 := ok1.quiet hpos
    have hpos2 : s2.txn ≠ 0 := by rw [ok1.txn]; exact hpos
    rcases Storage.resizeValue_sum s2 i bs.length with ⟨e, _, h2⟩ | ⟨r2, s3, _, h2, ok2⟩
    · exact Or.inr ⟨_, e, (bindRes_ok_txn _ h1).trans (bindRes_error_txn _ h2), Stuck.of_quiet (s1 := s.begin.1) rfl rfl q1⟩
    · have q2 : Quiet s.begin.1 s3 := q1.trans (ok2.quiet hpos2)
      obtain ⟨s4, hc, hok⟩ := Storage.commit_close s s.begin.1 s3 rfl rfl q2
      exact Or.inl ⟨s4, (bindRes_ok_txn _ h1).trans ((bindRes_ok_txn _ h2).trans hc), hok⟩

/-- `moveAt`: fails early (nothing happened), succeeds as a transaction, or fails with the depth
stuck one too high. -/
theorem Storage.moveAt_sum (s : Storage) (i f t n : Nat) :
    (∃ e, s.valueAtSize i f n = .error e ∧ s.moveAt i f t n = (s, .error e)) ∨
    (∃ s', s.moveAt i f t n = (s', .ok ()) ∧ TxnOK s s') ∨
    (∃ s' e, s.moveAt i f t n = (s', .error e) ∧ Stuck s s') := by
  unfold Storage.moveAt
  cases hv : s.valueAtSize i f n with
  | error e => exact Or.inl ⟨e, rfl, rfl⟩
  | ok bytes =>
    refine Or.inr ?_
    have hpos : s.begin.1.txn ≠ 0 := Nat.succ_ne_zero _
    rcases Storage.insertBytesAt_sum s.begin.1 i t bytes with ⟨e, _, h1⟩ | ⟨r, s2, _, h1, ok1⟩
    · exact Or.inr ⟨_, e, bindRes_error_txn _ h1, Stuck.of_quiet (s1 := s.begin.1) rfl rfl (Quiet.refl _)⟩
    · have q1 : Quiet s.begin.1 s2 := ok1.quiet hpos
      cases hr : s2.records.record i with
      | error e =>
        refine Or.inr ⟨s2, e, (bindRes_ok_txn _ h1).trans ?_, Stuck.of_quiet (s1 := s.begin.1) rfl rfl q1⟩
        simp only [hr]
      | ok r2 =>
        obtain ⟨s4, hc, hok⟩ := Storage.commit_close s s.begin.1 _ rfl rfl
          (q1.trans (Quiet.eraseBytes s2 r2.valueStart f t n))
        refine Or.inl ⟨s4, (bindRes_ok_txn _ h1).trans ?_, hok⟩
        simp only [hr]
        exact hc

/-! ### `reopen` -/

theorem Storage.openImage_txn {d : Bytes} {s' : Storage} (h : Storage.openImage d = .ok s') :
    s'.txn = 0 := by
  unfold Storage.openImage at h
  dsimp only at h
  split at h
  · cases h
  · split at h
    · cases h
    · split at h
      · cases h
      · split at h
        · cases h
        · split at h
          · cases h
          · cases h; rfl

/-! ### `replace` on a missing index -/

theorem Storage.replace_missing (s : Storage) (i : Nat) (bs : Bytes)
    (h : s.records.record i = .error .notFound) :
    s.replace i bs = ({ s with txn := s.txn + 1 }, .error .notFound) := by
  unfold Storage.replace
  have h1 : s.begin.1.insertBytesAt i 0 bs = (s.begin.1, .error .notFound) := by
    unfold Storage.insertBytesAt
    have h' : s.begin.1.records.record i = .error .notFound := h
    rw [h']
  exact bindRes_error_txn _ h1

/-! ### the step function -/

/-- summary of `Storage.step` for every operation other than `begin`, `commit`, `reopen` -/
inductive StepSum (s : Storage) (res : Storage × SRes) : Prop where
  | ok (r : Option Nat) : res.2 = .ok r → TxnOK s res.1 → StepSum s res
  | err (e : Err) : res.2 = .error e → TxnErr s res.1 → StepSum s res

theorem StepSum.liftUnit_ok {s s' : Storage} {x : Res Unit} (h : x = (s', .ok ()))
    (hok : TxnOK s s') : StepSum s (liftUnit x) := by
  subst h; exact .ok none rfl hok

theorem StepSum.liftUnit_err {s s' : Storage} {x : Res Unit} {e : Err} (h : x = (s', .error e))
    (herr : TxnErr s s') : StepSum s (liftUnit x) := by
  subst h; exact .err e rfl herr

theorem StepSum.of_recTxn {s : Storage} {i : Nat} {x : Res Unit} (h : RecTxn s i x) :
    StepSum s (liftUnit x) := by
  rcases h with ⟨e, _, h1⟩ | ⟨r, s', _, h1, hok⟩
  · exact StepSum.liftUnit_err h1 (TxnErr.refl s)
  · exact StepSum.liftUnit_ok h1 hok

theorem Storage.step_sum (s : Storage) (op : SOp) (hb : op ≠ .begin) (hc : ∀ id, op ≠ .commit id)
    (hr : op ≠ .reopen) : StepSum s (s.step op) := by
  cases op with
  | insert b =>
    obtain ⟨s', i, h, hok⟩ := Storage.insertBytes_sum s b
    show StepSum s ((s.insertBytes b).1, (s.insertBytes b).2.map some)
    rw [h]
    exact .ok (some i) rfl hok
  | insertAt i off b => exact StepSum.of_recTxn (Storage.insertBytesAt_sum s i off b)
  | moveAt i f t n =>
    show StepSum s (liftUnit (s.moveAt i f t n))
    rcases Storage.moveAt_sum s i f t n with ⟨e, _, h⟩ | ⟨s', h, hok⟩ | ⟨s', e, h, hst⟩
    · exact StepSum.liftUnit_err h (TxnErr.refl s)
    · exact StepSum.liftUnit_ok h hok
    · exact StepSum.liftUnit_err h hst.txnErr
  | remove i => exact StepSum.of_recTxn (Storage.remove_sum s i)
  | replace i b =>
    show StepSum s (liftUnit (s.replace i b))
    rcases Storage.replace_sum s i b with ⟨s', h, hok⟩ | ⟨s', e, h, hst⟩
    · exact StepSum.liftUnit_ok h hok
    · exact StepSum.liftUnit_err h hst.txnErr
  | resize i n => exact StepSum.of_recTxn (Storage.resizeValue_sum s i n)
  | optimize =>
    obtain ⟨s', h, hok⟩ := Storage.optimize_sum s
    exact StepSum.liftUnit_ok h hok
  | reopen => exact absurd rfl hr
  | begin => exact absurd rfl hb
  | commit id => exact absurd rfl (hc id)

/-! ### the calls of one step: `trace'.drop trace.length` -/

theorem TxnOK.calls {s s' : Storage} (h : TxnOK s s') :
    (FsOp.flush ∈ s'.trace.drop s.trace.length ↔ s.txn = 0) ∧
    (FsOp.flush ∈ s'.trace.drop s.trace.length →
      ∃ pre, s'.trace.drop s.trace.length = pre ++ [FsOp.flush] ∧ FsOp.flush ∉ pre) := by
  obtain ⟨_, cs, hn, htr⟩ := h
  rw [htr, List.append_assoc, List.drop_left]
  by_cases h0 : s.txn = 0
  · rw [if_pos h0]
    exact ⟨⟨fun _ => h0, fun _ => List.mem_append.2 (Or.inr (List.mem_singleton.2 rfl))⟩,
      fun _ => ⟨cs, rfl, hn.not_mem⟩⟩
  · rw [if_neg h0, List.append_nil]
    exact ⟨⟨fun hm => absurd hm hn.not_mem, fun h => absurd h h0⟩, fun hm => absurd hm hn.not_mem⟩

theorem TxnErr.calls {s s' : Storage} (h : TxnErr s s') :
    FsOp.flush ∉ s'.trace.drop s.trace.length := by
  obtain ⟨_, cs, hn, htr⟩ := h
  rw [htr, List.drop_left]
  exact hn.not_mem

end AgdbStorage
