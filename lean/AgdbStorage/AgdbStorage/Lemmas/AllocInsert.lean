import AgdbStorage.Lemmas.AllocSpecs
/-
`Storage::insert_bytes` (`InsertSpec`).

The part between `begin` and `commit` is analysed on the level of `(records, data)` pairs
(`InsOK`); the wrapper (`insertBytes_some`/`insertBytes_none`) relates `Storage.insertBytes` to it.
-/
namespace AgdbStorage

/-- The effect of an insertion on `(records, data)`: `k` is the new slot. -/
structure InsOK (r : Records) (d : Bytes) (bs : Bytes) (k : Nat) (r' : Records) (d' : Bytes) :
    Prop where
  inv : RInv r' d'
  k_ne : k ≠ 0
  k_nl : ¬ r.live k
  live : ∀ j, r'.live j ↔ r.live j ∨ j = k
  valk : readAt d' ((r'.get k).pos + 16) (r'.get k).size = bs
  valo : ∀ j, r.live j →
    readAt d' ((r'.get j).pos + 16) (r'.get j).size = readAt d ((r.get j).pos + 16) (r.get j).size

/-- common tail of both branches: from the final `RG` to `InsOK` -/
theorem InsOK.of_RG {r r' : Records} {d d' : Bytes} {bs : Bytes} {k : Nat} {X H : Nat → Prop}
    (G : RG r' X H d'
      (fun j => if j = k then bs else readAt d ((r.get j).pos + 16) (r.get j).size))
    (hX : ∀ i, ¬ X i) (hH : ∀ y, ¬ H y) (k_ne : k ≠ 0) (k_nl : ¬ r.live k)
    (live : ∀ j, r'.live j ↔ r.live j ∨ j = k) : InsOK r d bs k r' d' := by
  obtain ⟨h1, h2⟩ := RG.elim G hX hH
  refine ⟨h1, k_ne, k_nl, live, ?_, ?_⟩
  · have := h2 k ((live k).mpr (Or.inr rfl))
    simpa using this
  · intro j hj
    have hjk : j ≠ k := fun e => k_nl (e ▸ hj)
    have := h2 j ((live j).mpr (Or.inl hj))
    simpa [hjk] using this

/-! ### reuse of a free region -/

/-- the state after the header and the value have been written into the free region `(fp, fsz)`:
the tail `[fp + 16 + |bs|, fp + 16 + fsz)` of the region is still a hole -/
theorem insert_free_G (r : Records) (d : Bytes) (h : RInv r d) (bs : Bytes) (fp fsz : Nat)
    (hm : (fp, fsz) ∈ r.free) (hsz : bs.length ≤ fsz)
    (r2 : Records) (x : SRec) (hnr : NewRec (r.removeFree fp) r2 x fp bs.length) :
    RG r2 (fun _ => False) (fun y => fp + 16 + bs.length ≤ y ∧ y < fp + 16 + fsz)
      (writeAt (writeAt d fp (le8 x.index ++ le8 x.size)) (fp + 16) bs)
      (fun j => if j = x.index then bs else readAt d ((r.get j).pos + 16) (r.get j).size) := by
  obtain ⟨k, p, z⟩ := x
  have e1 := hnr.x_pos
  have e2 := hnr.x_size
  simp only at e1 e2
  subst e1 e2
  have k_ne : k ≠ 0 := hnr.k_ne
  have k_nl : ¬ (r.removeFree p).live k := hnr.k_nl
  have get_k : r2.get k = ⟨k, p, bs.length⟩ := hnr.get_k
  have hbnd := h.lay.bnd 0 p fsz (Records.Blk_zero.mpr hm)
  have hlen16 : (le8 k ++ le8 bs.length).length = 16 := by simp
  have G0 := RG.intro h
  have G1 := G0.takeFree (fun h => h) p fsz hm
  have G2 := G1.congrX (X' := fun j => j = k) (fun j => by
    by_cases hj : j = k
    · subst hj; right; exact ⟨k_nl, k_ne⟩
    · left; simp [hj])
  have G3 := G2.modify (r' := r2) hnr.free_eq hnr.idx (fun j hj0 hx => hnr.get_o j hx hj0)
  have G4 := G3.write p (le8 k ++ le8 bs.length) (by omega) (fun y h1 h2 _ => by
    rw [hlen16] at h2; right; omega)
  have hl1 : (writeAt d p (le8 k ++ le8 bs.length)).length = d.length := by
    rw [length_writeAt d _ p (by omega), hlen16]; omega
  have G5 := G4.write (p + 16) bs (by rw [hl1]; omega) (fun y h1 h2 _ => by
    left; right; omega)
  have hl2 : (writeAt (writeAt d p (le8 k ++ le8 bs.length)) (p + 16) bs).length = d.length := by
    rw [length_writeAt _ _ _ (by rw [hl1]; omega), hl1]; omega
  have G6 := G5.congrV
    (V' := fun j => if j = k then bs else readAt d ((r.get j).pos + 16) (r.get j).size)
    (fun j _ hx => by simp only [if_neg hx])
  have hk : r2.live k := (hnr.live_iff k).mpr (Or.inr rfl)
  have G7 := G6.resume k hk
    (by rw [get_k]; intro y h1 h2; left; left; right; simp only at h1 h2; omega)
    (by
      rw [get_k]
      show readAt (writeAt (writeAt d p (le8 k ++ le8 bs.length)) (p + 16) bs) p 16 = _
      rw [readAt_writeAt_before _ _ _ _ _ (by rw [hl1]; omega) (by omega)]
      have := readAt_writeAt_self d (le8 k ++ le8 bs.length) p (by omega)
      rwa [hlen16] at this)
    (by
      rw [get_k]
      show readAt (writeAt (writeAt d p (le8 k ++ le8 bs.length)) (p + 16) bs) (p + 16) bs.length
        = _
      rw [readAt_writeAt_self _ _ _ (by rw [hl1]; omega)]
      simp)
  rw [get_k] at G7
  refine G7.congr (fun i => ?_) (fun y => ?_)
  · simp only [false_iff, not_and, Decidable.not_not]; exact fun e => e
  · simp only [hl1, hlen16, false_or]; omega

theorem insert_free_spec (r : Records) (d : Bytes) (h : RInv r d) (bs : Bytes) (fp fsz : Nat)
    (hm : (fp, fsz) ∈ r.free) (hsz : fsz = bs.length ∨ bs.length + 16 ≤ fsz)
    (r2 : Records) (x : SRec) (hnr : NewRec (r.removeFree fp) r2 x fp bs.length) :
    (¬ bs.length < fsz → InsOK r d bs x.index r2
      (writeAt (writeAt d fp (le8 x.index ++ le8 x.size)) (fp + 16) bs)) ∧
    (bs.length < fsz → InsOK r d bs x.index
      (r2.markFreeCompact (fp + 16 + bs.length) (fsz - 16 - bs.length)).1
      (writeAt (writeAt (writeAt d fp (le8 x.index ++ le8 x.size)) (fp + 16) bs)
        (r2.markFreeCompact (fp + 16 + bs.length) (fsz - 16 - bs.length)).2.1
        (le8 0 ++ le8 (r2.markFreeCompact (fp + 16 + bs.length) (fsz - 16 - bs.length)).2.2))) := by
  have G := insert_free_G r d h bs fp fsz hm (by omega) r2 x hnr
  have k_nl : ¬ r.live x.index := fun c =>
    hnr.k_nl ((Records.live_of_recs_eq (Records.removeFree_recs r fp) _).mpr c)
  have live : ∀ j, r2.live j ↔ r.live j ∨ j = x.index := fun j => by
    rw [hnr.live_iff j, Records.live_of_recs_eq (Records.removeFree_recs r fp)]
  constructor
  · intro hlt
    exact InsOK.of_RG G (fun _ c => c) (fun y c => by omega) hnr.k_ne k_nl live
  · intro hlt
    have G' := G.freeRegion (fun c => c) (fp + 16 + bs.length) (fsz - 16 - bs.length)
      (fun y h1 h2 => by omega)
    refine InsOK.of_RG G' (fun _ c => c) (fun y c => by omega) hnr.k_ne k_nl (fun j => ?_)
    rw [Records.live_of_recs_eq (Records.markFreeCompact_recs r2 _ _), live]

/-! ### appending at the end of the file -/

theorem insert_end_spec (r : Records) (d : Bytes) (h : RInv r d) (bs : Bytes)
    (r2 : Records) (x : SRec) (hnr : NewRec r r2 x d.length bs.length) :
    InsOK r d bs x.index r2
      (writeAt (writeAt d d.length (le8 x.index ++ le8 x.size)) (d.length + 16) bs) := by
  obtain ⟨k, p, z⟩ := x
  have e1 := hnr.x_pos
  have e2 := hnr.x_size
  simp only at e1 e2
  subst e1 e2
  have k_ne : k ≠ 0 := hnr.k_ne
  have k_nl : ¬ r.live k := hnr.k_nl
  have get_k : r2.get k = ⟨k, d.length, bs.length⟩ := hnr.get_k
  have h24 := h.lay.len24
  have hlen16 : (le8 k ++ le8 bs.length).length = 16 := by simp
  show InsOK r d bs k r2 (writeAt (writeAt d d.length (le8 k ++ le8 bs.length)) (d.length + 16) bs)
  have G0 := RG.intro h
  have G2 := G0.congrX (X' := fun j => j = k) (fun j => by
    by_cases hj : j = k
    · subst hj; right; exact ⟨k_nl, k_ne⟩
    · left; simp [hj])
  have G3 := G2.modify (r' := r2) hnr.free_eq hnr.idx (fun j hj0 hx => hnr.get_o j hx hj0)
  have G4 := G3.write d.length (le8 k ++ le8 bs.length) (Nat.le_refl _) (fun y h1 _ h3 => by
    omega)
  have hl1 : (writeAt d d.length (le8 k ++ le8 bs.length)).length = d.length + 16 := by
    rw [length_writeAt d _ _ (Nat.le_refl _), hlen16]; omega
  have G5 := G4.write (d.length + 16) bs (by rw [hl1]; omega) (fun y h1 _ h3 => by
    rw [hl1] at h3; omega)
  have G6 := G5.congrV
    (V' := fun j => if j = k then bs else readAt d ((r.get j).pos + 16) (r.get j).size)
    (fun j _ hx => by simp only [if_neg hx])
  have hk : r2.live k := (hnr.live_iff k).mpr (Or.inr rfl)
  have G7 := G6.resume k hk
    (by
      rw [get_k]; intro y h1 h2
      simp only [hl1, hlen16] at h1 h2 ⊢
      omega)
    (by
      rw [get_k]
      show readAt (writeAt (writeAt d d.length (le8 k ++ le8 bs.length)) (d.length + 16) bs) d.length 16
        = _
      rw [readAt_writeAt_before _ _ _ _ _ (by rw [hl1]; omega) (by omega)]
      have := readAt_writeAt_self d (le8 k ++ le8 bs.length) d.length (Nat.le_refl _)
      rwa [hlen16] at this)
    (by
      rw [get_k]
      show readAt (writeAt (writeAt d d.length (le8 k ++ le8 bs.length)) (d.length + 16) bs)
        (d.length + 16) bs.length = _
      rw [readAt_writeAt_self _ _ _ (by rw [hl1]; omega)]
      simp)
  rw [get_k] at G7
  refine InsOK.of_RG G7 (fun i c => c.2 c.1) (fun y c => ?_) k_ne k_nl (hnr.live_iff)
  simp only [hl1, hlen16, false_or] at c
  omega

/-! ### the wrapper: `begin` … `commit` -/

theorem bindRes_commit (s4 : Storage) (id : Nat) (h : s4.txn = id) (k : Nat) :
    bindRes (s4.commit id) (fun s5 _ => (s5, .ok k)) = ((s4.commit id).1, (.ok k : Except Err Nat)) := by
  have h1 := (Storage.commit_ok s4 id h).1
  cases hc : s4.commit id with
  | mk s5 res =>
    rw [hc] at h1
    simp only at h1
    subst h1
    rfl

/-- the part of `insert_bytes` between `begin` and `commit` when a free region is reused -/
def Storage.insFree (s1 : Storage) (r : SRec) (fsz : Nat) (bs : Bytes) : Storage :=
  let s3 := (s1.writeRecord r).dataWrite r.valueStart bs
  if fsz > bs.length then s3.freeARegion r.fin (fsz - RECORD_SIZE - bs.length) else s3

theorem Storage.insFree_txn (s1 : Storage) (r : SRec) (fsz : Nat) (bs : Bytes) :
    (s1.insFree r fsz bs).txn = s1.txn := by
  unfold Storage.insFree
  simp only
  split <;> rfl

theorem Storage.insertBytes_some (s : Storage) (bs : Bytes) (recs : Records) (fp fsz : Nat)
    (h : s.records.takeFree bs.length = some (recs, fp, fsz)) :
    s.insertBytes bs =
      (((Storage.insFree { s with records := (recs.newRecord fp bs.length).1, txn := s.txn + 1 }
          (recs.newRecord fp bs.length).2 fsz bs).commit (s.txn + 1)).1,
        .ok (recs.newRecord fp bs.length).2.index) := by
  unfold Storage.insertBytes
  rw [h]
  simp only [Storage.begin]
  rw [← bindRes_commit _ _ (by rw [Storage.insFree_txn])]
  rfl

theorem Storage.insertBytes_none (s : Storage) (bs : Bytes)
    (h : s.records.takeFree bs.length = none) :
    s.insertBytes bs =
      ((((({ s with records := (s.records.newRecord s.data.length bs.length).1,
                    txn := s.txn + 1 } : Storage).writeRecord
            (s.records.newRecord s.data.length bs.length).2).append bs).commit (s.txn + 1)).1,
        .ok (s.records.newRecord s.data.length bs.length).2.index) := by
  unfold Storage.insertBytes
  rw [h]
  simp only [Storage.begin]
  rw [← bindRes_commit _ _ (by simp)]
  rfl

/-- from `InsOK` of the state before `commit` to the conclusion of `InsertSpec` -/
theorem InsOK.finish {s s4 : Storage} {bs : Bytes} {k : Nat}
    (h : InsOK s.records s.data bs k s4.records s4.data) (htxn : s4.txn = s.txn + 1)
    (he : s.insertBytes bs = ((s4.commit (s.txn + 1)).1, .ok k)) :
    ∃ i, (s.insertBytes bs).2 = .ok i ∧ i ≠ 0 ∧ ¬ s.records.live i ∧
      SInv (s.insertBytes bs).1 ∧
      (∀ j, (s.insertBytes bs).1.records.live j ↔ s.records.live j ∨ j = i) ∧
      (s.insertBytes bs).1.val i = bs ∧
      (∀ j, s.records.live j → (s.insertBytes bs).1.val j = s.val j) ∧
      (s.insertBytes bs).1.txn = s.txn := by
  obtain ⟨_, hr, hd, ht⟩ := Storage.commit_ok s4 (s.txn + 1) htxn
  rw [he]
  refine ⟨k, rfl, h.k_ne, h.k_nl, ?_, ?_, ?_, ?_, ?_⟩
  · show RInv _ _
    simp only [hr, hd]; exact h.inv
  · intro j; simp only [hr]; exact h.live j
  · simp only [Storage.val, hr, hd]; exact h.valk
  · intro j hj; simp only [Storage.val, hr, hd]; exact h.valo j hj
  · simp only [ht, htxn]; omega

theorem insertBytes_spec : InsertSpec := by
  intro s bs hs
  cases htf : s.records.takeFree bs.length with
  | none =>
    have hnr := Records.newRecord_spec s.records hs.idx s.data.length bs.length
    have hok := insert_end_spec s.records s.data hs bs _ _ hnr
    refine InsOK.finish ?_ ?_ (Storage.insertBytes_none s bs htf)
    case refine_2 => simp
    have hx := hnr.x_pos
    have hl16 : (le8 (s.records.newRecord s.data.length bs.length).2.index ++
        le8 (s.records.newRecord s.data.length bs.length).2.size).length = 16 := by simp
    simp only [Storage.append_records, Storage.append_data, Storage.writeRecord_records,
      Storage.writeRecord_data, hx]
    rw [length_writeAt _ _ _ (Nat.le_refl _), hl16, Nat.max_eq_right (by omega)]
    exact hok
  | some t =>
    obtain ⟨recs, fp, fsz⟩ := t
    obtain ⟨e, hm, hsz⟩ := Records.takeFree_some htf
    subst e
    have hnr := Records.newRecord_spec (s.records.removeFree fp)
      (hs.idx.of_recs_eq (Records.removeFree_recs _ _)) fp bs.length
    obtain ⟨hok1, hok2⟩ := insert_free_spec s.records s.data hs bs fp fsz hm hsz _ _ hnr
    refine InsOK.finish ?_ ?_ (Storage.insertBytes_some s bs _ fp fsz htf)
    case refine_2 => rw [Storage.insFree_txn]
    have hx := hnr.x_pos
    have hz := hnr.x_size
    unfold Storage.insFree
    simp only [RECORD_SIZE, SRec.valueStart, SRec.fin, hx, hz]
    by_cases hlt : bs.length < fsz
    · have hgt : fsz > bs.length := hlt
      simp only [if_pos hgt, Storage.freeARegion_records, Storage.freeARegion_data,
        Storage.dataWrite_records, Storage.dataWrite_data, Storage.writeRecord_records,
        Storage.writeRecord_data, hx, hz]
      have := hok2 hlt
      rw [hz] at this
      exact this
    · have hgt : ¬ fsz > bs.length := hlt
      simp only [if_neg hgt, Storage.dataWrite_records, Storage.dataWrite_data,
        Storage.writeRecord_records, Storage.writeRecord_data, hx, hz]
      have := hok1 hlt
      rw [hz] at this
      exact this

end AgdbStorage
