import AgdbStorage.Model.StorageSpec
import AgdbStorage.Lemmas.AllocBytes
/-
Byte-level facts relating what the implementation writes to the specification functions
`specInsertAt`, `specMove` (pure list reasoning, pointwise).
-/
namespace AgdbStorage

theorem length_padTo (v : Bytes) (n : Nat) : (padTo v n).length = max v.length n := by
  simp only [padTo, List.length_append, List.length_replicate]; omega

theorem getElem?_padTo (v : Bytes) (n k : Nat) :
    (padTo v n)[k]? = if k < v.length then v[k]? else if k < n then some 0 else none := by
  unfold padTo
  by_cases h : k < v.length
  · rw [if_pos h, List.getElem?_append_left h]
  · rw [if_neg h, List.getElem?_append_right (by omega), getElem?_replicate_zero]
    by_cases h2 : k < n
    · rw [if_pos h2, if_pos (by omega)]
    · rw [if_neg h2, if_neg (by omega)]

theorem length_specInsertAt (v : Bytes) (off : Nat) (b : Bytes) :
    (specInsertAt v off b).length = max v.length (off + b.length) := by
  unfold specInsertAt
  rw [length_writeAt _ _ _ (by rw [length_padTo]; omega), length_padTo]
  omega

theorem readAt_readAt (d : Bytes) (p z f n : Nat) (h : f + n ≤ z) :
    readAt (readAt d p z) f n = readAt d (p + f) n := by
  apply List.ext_getElem?
  intro k
  rw [getElem?_readAt, getElem?_readAt, getElem?_readAt]
  by_cases hk : k < n
  · rw [if_pos hk, if_pos hk, if_pos (by omega), Nat.add_assoc]
  · rw [if_neg hk, if_neg hk]

/-- `replace`: writing `b` at offset 0 and cutting to `|b|` gives `b` -/
theorem specInsertAt_zero_take (v b : Bytes) :
    (specInsertAt v 0 b).take b.length ++
      List.replicate (b.length - (specInsertAt v 0 b).length) 0 = b := by
  have hl := length_specInsertAt v 0 b
  have h0 : b.length - (specInsertAt v 0 b).length = 0 := by omega
  rw [h0, List.replicate_zero, List.append_nil]
  apply List.ext_getElem?
  intro k
  rw [List.getElem?_take]
  unfold specInsertAt
  rw [getElem?_writeAt _ _ _ _ (Nat.zero_le _)]
  by_cases hk : k < b.length
  · rw [if_pos hk, if_neg (by omega), if_pos (by omega)]; rfl
  · rw [if_neg hk, List.getElem?_eq_none (by omega)]

/-- what `erase_bytes` does to a value (offsets relative to the value) -/
def eraseV (w : Bytes) (f t n : Nat) : Bytes :=
  if f < t then writeAt w f (List.replicate (min n (t - f)) 0)
  else if f > t then writeAt w (max (t + n) f) (List.replicate (f + n - max (t + n) f) 0)
  else w

theorem getD_eq_of_lt (l : Bytes) (k : Nat) (h : k < l.length) : some (l.getD k 0) = l[k]? := by
  simp [List.getD_eq_getElem?_getD, List.getElem?_eq_getElem h]

theorem specMove_eq (v : Bytes) (f t n : Nat) (h : f + n ≤ v.length) :
    specMove v f t n = eraseV (specInsertAt v t (readAt v f n)) f t n := by
  have hsrc : (readAt v f n).length = n := by rw [length_readAt]; omega
  have hv1 : (padTo v (t + n)).length = max v.length (t + n) := length_padTo _ _
  have hw1 : (specInsertAt v t (readAt v f n)).length = max v.length (t + n) := by
    rw [length_specInsertAt, hsrc]
  apply List.ext_getElem?
  intro k
  -- left-hand side
  have hL : (specMove v f t n)[k]? =
      if k < t then
        (if k < max v.length (t + n) then
          (if f ≤ k ∧ k < f + n ∧ ¬ (t ≤ k ∧ k < t + n) then some 0 else (padTo v (t + n))[k]?)
         else none)
      else if k < t + n then (readAt v f n)[k - t]?
      else
        (if k < max v.length (t + n) then
          (if f ≤ k ∧ k < f + n ∧ ¬ (t ≤ k ∧ k < t + n) then some 0 else (padTo v (t + n))[k]?)
         else none) := by
    unfold specMove
    simp only []
    rw [getElem?_writeAt _ _ _ _ (by simp only [List.length_map, List.length_range, hv1]; omega), hsrc]
    have hmap : ∀ k', ((List.range (padTo v (t + n)).length).map fun k =>
        if f ≤ k ∧ k < f + n ∧ ¬ (t ≤ k ∧ k < t + n) then (0 : UInt8)
        else (padTo v (t + n)).getD k 0)[k']? =
        if k' < max v.length (t + n) then
          (if f ≤ k' ∧ k' < f + n ∧ ¬ (t ≤ k' ∧ k' < t + n) then some 0 else (padTo v (t + n))[k']?)
        else none := by
      intro k'
      rw [List.getElem?_map]
      by_cases hk : k' < max v.length (t + n)
      · rw [if_pos hk, List.getElem?_range (by rw [hv1]; exact hk)]
        simp only [Option.map_some]
        split
        · rfl
        · exact getD_eq_of_lt _ _ (by rw [hv1]; exact hk)
      · rw [if_neg hk, List.getElem?_eq_none (by simp only [List.length_range, hv1]; omega)]
        rfl
    rw [hmap]
  have hI : ∀ k', (specInsertAt v t (readAt v f n))[k']? =
      if k' < t then (padTo v (t + n))[k']? else if k' < t + n then (readAt v f n)[k' - t]?
      else (padTo v (t + n))[k']? := by
    intro k'
    unfold specInsertAt
    rw [hsrc, getElem?_writeAt _ _ _ _ (by rw [hv1]; omega), hsrc]
  have hnone : ∀ k', max v.length (t + n) ≤ k' → (padTo v (t + n))[k']? = none := fun k' hk' =>
    List.getElem?_eq_none (by rw [hv1]; exact hk')
  rw [hL]
  unfold eraseV
  by_cases c1 : f < t
  · rw [if_pos c1, getElem?_writeAt _ _ _ _ (by rw [hw1]; omega), hI, List.length_replicate,
      getElem?_replicate_zero]
    by_cases hk : k < max v.length (t + n)
    · simp only [hk, ↓reduceIte]
      repeat' split
      all_goals first | rfl | omega
    · have := hnone k (by omega)
      simp only [hk, ↓reduceIte, this]
      repeat' split
      all_goals first | rfl | omega
  · rw [if_neg c1]
    by_cases c2 : f > t
    · rw [if_pos c2, getElem?_writeAt _ _ _ _ (by rw [hw1]; omega), hI, List.length_replicate,
        getElem?_replicate_zero]
      by_cases hk : k < max v.length (t + n)
      · simp only [hk, ↓reduceIte]
        repeat' split
        all_goals first | rfl | omega
      · have := hnone k (by omega)
        simp only [hk, ↓reduceIte, this]
        repeat' split
        all_goals first | rfl | omega
    · rw [if_neg c2, hI]
      have : f = t := by omega
      subst this
      by_cases hk : k < max v.length (f + n)
      · simp only [hk, ↓reduceIte]
        repeat' split
        all_goals first | rfl | omega
      · have := hnone k (by omega)
        simp only [hk, ↓reduceIte, this]
        repeat' split
        all_goals first | rfl | omega

end AgdbStorage
