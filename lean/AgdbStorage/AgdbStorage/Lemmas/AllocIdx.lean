import AgdbStorage.Lemmas.AllocDefs
/-
The slot table (`StorageRecords::records` with its intrusive free-index list):
`record`, `new_record`, `set_pos`, `set_size`, `remove_index`.
-/
namespace AgdbStorage

theorem getD_set (l : List SRec) (i j : Nat) (x : SRec) :
    (l.set i x).getD j default = if i = j ∧ i < l.length then x else l.getD j default := by
  simp only [List.getD_eq_getElem?_getD, List.getElem?_set]
  by_cases h : i = j
  · subst h
    by_cases h2 : i < l.length
    · simp [h2]
    · simp [h2, List.getElem?_eq_none (Nat.le_of_not_lt h2)]
  · simp [h]

theorem getD_append_one (l : List SRec) (x : SRec) (j : Nat) :
    (l ++ [x]).getD j default = if j = l.length then x else l.getD j default := by
  simp only [List.getD_eq_getElem?_getD]
  by_cases h : j < l.length
  · rw [List.getElem?_append_left h, if_neg (by omega)]
  · by_cases h2 : j = l.length
    · subst h2; simp
    · rw [if_neg h2, List.getElem?_eq_none (by simp; omega), List.getElem?_eq_none (by omega)]

theorem Records.get_default (r : Records) (i : Nat) (h : r.recs.length ≤ i) : r.get i = default := by
  simp [Records.get, List.getD_eq_getElem?_getD, List.getElem?_eq_none h]

theorem Records.live_lt {r : Records} {i : Nat} (h : r.live i) : i < r.recs.length := by
  apply Classical.byContradiction
  intro hn
  have := r.get_default i (by omega)
  obtain ⟨h1, h2⟩ := h
  rw [this] at h2
  exact h1 h2.symm

theorem Records.isValid_iff (r : Records) (x : SRec) : r.isValid x = true ↔ r.live x.index := by
  simp [Records.isValid, Records.live]

theorem Records.record_eq (r : Records) (h : IdxInv r) (i : Nat) :
    r.record i = if r.live i then .ok (r.get i) else .error .notFound := by
  unfold Records.record
  by_cases hi : i < r.recs.length
  · have hg : r.recs[i]? = some (r.get i) := by
      simp [Records.get, List.getD_eq_getElem?_getD, List.getElem?_eq_getElem hi]
    rw [hg]
    simp only
    by_cases hl : r.live i
    · have : r.isValid (r.get i) = true := by rw [Records.isValid_iff, hl.2]; exact hl
      rw [if_pos this, if_pos hl]
    · have : ¬ r.isValid (r.get i) = true := by
        rw [Records.isValid_iff]; exact (h.tgt i hi hl).2
      rw [if_neg this, if_neg hl]
  · have hl : ¬ r.live i := fun hl => hi (Records.live_lt hl)
    rw [List.getElem?_eq_none (by omega), if_neg hl]

/-! ### `new_record` -/

structure NewRec (r r' : Records) (x : SRec) (pos size : Nat) : Prop where
  x_pos : x.pos = pos
  x_size : x.size = size
  k_ne : x.index ≠ 0
  k_nl : ¬ r.live x.index
  free_eq : r'.free = r.free
  get_k : r'.get x.index = x
  get_o : ∀ j, j ≠ x.index → j ≠ 0 → r'.get j = r.get j
  idx : IdxInv r'

theorem NewRec.live_iff {r r' : Records} {x : SRec} {pos size : Nat} (h : NewRec r r' x pos size)
    (j : Nat) : r'.live j ↔ r.live j ∨ j = x.index := by
  unfold Records.live
  by_cases hj : j = x.index
  · subst hj; rw [h.get_k]; simp [h.k_ne]
  · by_cases h0 : j = 0
    · subst h0; simp; exact fun e => h.k_ne e.symm
    · rw [h.get_o j hj h0]; simp [hj]

theorem Records.newRecord_spec (r : Records) (h : IdxInv r) (pos size : Nat) :
    NewRec r (r.newRecord pos size).1 (r.newRecord pos size).2 pos size := by
  have h0 := h.tgt 0 h.pos (by simp [Records.live])
  unfold Records.newRecord
  by_cases hh : (r.get 0).index = 0
  · -- fresh slot
    simp only [hh, bne_self_eq_false, Bool.false_eq_true, ↓reduceIte]
    have hlen := h.pos
    have hnl : ¬ r.live r.recs.length := fun hl => Nat.lt_irrefl _ (Records.live_lt hl)
    have hget : ∀ j, Records.get { recs := r.recs ++ [⟨r.recs.length, pos, size⟩], free := r.free } j
        = if j = r.recs.length then ⟨r.recs.length, pos, size⟩ else r.get j := by
      intro j; simp only [Records.get]; exact getD_append_one _ _ _
    have hlive : ∀ j, Records.live { recs := r.recs ++ [⟨r.recs.length, pos, size⟩], free := r.free } j
        ↔ r.live j ∨ j = r.recs.length := by
      intro j
      unfold Records.live
      rw [hget]
      by_cases hj : j = r.recs.length
      · subst hj; simp only [↓reduceIte, or_true, iff_true]; exact ⟨by omega, trivial⟩
      · simp [hj]
    refine ⟨rfl, rfl, (by show r.recs.length ≠ 0; omega), hnl, rfl, by rw [hget]; simp, ?_, ?_⟩
    · intro j hj _; rw [hget]; simp at hj; simp [hj]
    · refine ⟨by simp, ?_, ?_⟩
      · intro i hi hnli
        rw [hlive] at hnli
        rw [hget, hlive]
        have hi' : i < r.recs.length := by simp at hi; omega
        have := h.tgt i hi' (fun hl => hnli (Or.inl hl))
        rw [if_neg (by omega)]
        simp only [List.length_append, List.length_cons, List.length_nil]
        refine ⟨by omega, ?_⟩
        intro hc
        rcases hc with hc | hc
        · exact this.2 hc
        · omega
      · intro i j hi hj hnli hnlj
        rw [hlive] at hnli hnlj
        have hi' : i < r.recs.length := by simp at hi; omega
        have hj' : j < r.recs.length := by simp at hj; omega
        rw [hget, hget, if_neg (by omega), if_neg (by omega)]
        exact h.inj i j hi' hj' (fun hl => hnli (Or.inl hl)) (fun hl => hnlj (Or.inl hl))
  · -- reuse the head of the free-index list
    have hne : ((r.get 0).index != 0) = true := by simp [hh]
    simp only [hne, ↓reduceIte]
    generalize hhd : (r.get 0).index = hd at *
    have hhl : hd < r.recs.length := h0.1
    have hnl : ¬ r.live hd := h0.2
    have h1 := h.tgt hd hhl hnl
    have hget : ∀ j, Records.get (Records.mk ((r.recs.set 0 { r.get 0 with index := (r.get hd).index }).set hd ⟨hd, pos, size⟩) r.free) j
        = if j = hd then ⟨hd, pos, size⟩ else if j = 0 then { r.get 0 with index := (r.get hd).index }
          else r.get j := by
      intro j
      simp only [Records.get, getD_set, List.length_set]
      by_cases hj : j = hd
      · subst hj; simp [hhl]
      · rw [if_neg (by omega), if_neg hj]
        by_cases hj0 : j = 0
        · subst hj0; simp [h.pos]
        · rw [if_neg (by omega), if_neg hj0]
    have hlive : ∀ j, Records.live (Records.mk ((r.recs.set 0 { r.get 0 with index := (r.get hd).index }).set hd ⟨hd, pos, size⟩) r.free) j ↔ r.live j ∨ j = hd := by
      intro j
      unfold Records.live
      rw [hget]
      by_cases hj : j = hd
      · subst hj; simp [hh]
      · by_cases hj0 : j = 0
        · subst hj0; simp; omega
        · simp [hj, hj0]
    have hnxt : (r.get hd).index ≠ hd := fun e => hnl ⟨hh, e⟩
    refine ⟨rfl, rfl, hh, hnl, rfl, by rw [hget]; simp, ?_, ?_⟩
    · intro j hj hj0; rw [hget]; simp at hj; simp [hj, hj0]
    · refine ⟨by simp [h.pos], ?_, ?_⟩
      · intro i hi hnli
        rw [hlive] at hnli
        have hi' : i < r.recs.length := by simpa using hi
        have hih : i ≠ hd := fun e => hnli (Or.inr e)
        have hil : ¬ r.live i := fun hl => hnli (Or.inl hl)
        rw [hget, hlive, if_neg hih]
        simp only [List.length_set]
        by_cases hi0 : i = 0
        · subst hi0
          simp only [↓reduceIte]
          exact ⟨h1.1, fun hc => hc.elim h1.2 hnxt⟩
        · rw [if_neg hi0]
          have := h.tgt i hi' hil
          refine ⟨this.1, fun hc => hc.elim this.2 ?_⟩
          intro e
          have := h.inj i 0 hi' h.pos hil (by simp [Records.live]) (by rw [e, hhd]) (by rw [e]; exact hh)
          exact hi0 this
      · intro i j hi hj hnli hnlj
        rw [hlive] at hnli hnlj
        have hi' : i < r.recs.length := by simpa using hi
        have hj' : j < r.recs.length := by simpa using hj
        have hih : i ≠ hd := fun e => hnli (Or.inr e)
        have hil : ¬ r.live i := fun hl => hnli (Or.inl hl)
        have hjh : j ≠ hd := fun e => hnlj (Or.inr e)
        have hjl : ¬ r.live j := fun hl => hnlj (Or.inl hl)
        rw [hget, hget, if_neg hih, if_neg hjh]
        by_cases hi0 : i = 0 <;> by_cases hj0 : j = 0
        · intro _ _; omega
        · subst hi0
          simp only [↓reduceIte, if_neg hj0]
          intro e hn
          exact absurd (h.inj hd j hhl hj' hnl hjl e hn) (Ne.symm hjh)
        · subst hj0
          simp only [↓reduceIte, if_neg hi0]
          intro e hn
          exact absurd (h.inj i hd hi' hhl hil hnl e hn) hih
        · rw [if_neg hi0, if_neg hj0]
          exact h.inj i j hi' hj' hil hjl

/-! ### `set_pos`, `set_size` -/

theorem Records.setPos_get (r : Records) (i p j : Nat) (hi : i < r.recs.length) :
    (r.setPos i p).get j = if j = i then { r.get i with pos := p } else r.get j := by
  unfold Records.setPos
  rw [if_pos hi]
  simp only [Records.get, getD_set]
  by_cases hj : j = i
  · subst hj; simp [hi]
  · rw [if_neg (by omega), if_neg hj]

theorem Records.setSize_get (r : Records) (i z j : Nat) (hi : i < r.recs.length) :
    (r.setSize i z).get j = if j = i then { r.get i with size := z } else r.get j := by
  unfold Records.setSize
  rw [if_pos hi]
  simp only [Records.get, getD_set]
  by_cases hj : j = i
  · subst hj; simp [hi]
  · rw [if_neg (by omega), if_neg hj]

@[simp] theorem Records.setPos_free (r : Records) (i p : Nat) : (r.setPos i p).free = r.free := by
  unfold Records.setPos; split <;> rfl

@[simp] theorem Records.setSize_free (r : Records) (i z : Nat) : (r.setSize i z).free = r.free := by
  unfold Records.setSize; split <;> rfl

@[simp] theorem Records.setPos_length (r : Records) (i p : Nat) :
    (r.setPos i p).recs.length = r.recs.length := by
  unfold Records.setPos; split <;> simp

@[simp] theorem Records.setSize_length (r : Records) (i z : Nat) :
    (r.setSize i z).recs.length = r.recs.length := by
  unfold Records.setSize; split <;> simp

/-- Two tables with the same slot indices have the same `live` and `IdxInv`. -/
theorem Records.live_congr {r r' : Records} (h : ∀ j, (r'.get j).index = (r.get j).index) (j : Nat) :
    r'.live j ↔ r.live j := by
  unfold Records.live; rw [h]

theorem IdxInv.congr {r r' : Records} (hi : IdxInv r) (hl : r'.recs.length = r.recs.length)
    (h : ∀ j, (r'.get j).index = (r.get j).index) : IdxInv r' := by
  refine ⟨by rw [hl]; exact hi.pos, ?_, ?_⟩
  · intro i hil hnl
    rw [Records.live_congr h] at hnl
    rw [h, Records.live_congr h, hl]
    exact hi.tgt i (by omega) hnl
  · intro i j hi' hj' hnli hnlj
    rw [Records.live_congr h] at hnli hnlj
    rw [h, h]
    exact hi.inj i j (by omega) (by omega) hnli hnlj

theorem IdxInv.of_recs_eq {r r' : Records} (h : IdxInv r) (e : r'.recs = r.recs) : IdxInv r' :=
  IdxInv.congr h (by rw [e]) (fun j => by simp [Records.get, e])

theorem Records.setPos_index (r : Records) (i p j : Nat) :
    ((r.setPos i p).get j).index = (r.get j).index := by
  by_cases hi : i < r.recs.length
  · rw [Records.setPos_get r i p j hi]; split
    · subst_vars; rfl
    · rfl
  · unfold Records.setPos; rw [if_neg hi]

theorem Records.setSize_index (r : Records) (i z j : Nat) :
    ((r.setSize i z).get j).index = (r.get j).index := by
  by_cases hi : i < r.recs.length
  · rw [Records.setSize_get r i z j hi]; split
    · subst_vars; rfl
    · rfl
  · unfold Records.setSize; rw [if_neg hi]

/-! ### `remove_index` -/

theorem Records.removeIndex_get (r : Records) (i j : Nat) (hi : i < r.recs.length) (hi0 : i ≠ 0) :
    (r.removeIndex i).get j =
      if j = 0 then { r.get 0 with index := i }
      else if j = i then { r.get i with index := (r.get 0).index, pos := U64_MAX }
      else r.get j := by
  unfold Records.removeIndex
  rw [if_pos hi]
  simp only [Records.get, getD_set, List.length_set]
  by_cases hj0 : j = 0
  · subst hj0
    have hp : 0 < r.recs.length := by omega
    simp [hp, hi0]
  · rw [if_neg (by omega), if_neg hj0]
    by_cases hj : j = i
    · subst hj; simp [hi]
    · rw [if_neg (by omega), if_neg hj]

@[simp] theorem Records.removeIndex_free (r : Records) (i : Nat) : (r.removeIndex i).free = r.free := by
  unfold Records.removeIndex; split <;> rfl

@[simp] theorem Records.removeIndex_length (r : Records) (i : Nat) :
    (r.removeIndex i).recs.length = r.recs.length := by
  unfold Records.removeIndex; split <;> simp

theorem Records.removeIndex_live (r : Records) (i : Nat) (hi : i < r.recs.length)
    (hi0 : i ≠ 0) (hno0 : (r.get 0).index ≠ i) (j : Nat) :
    (r.removeIndex i).live j ↔ r.live j ∧ j ≠ i := by
  unfold Records.live
  rw [Records.removeIndex_get r i j hi hi0]
  by_cases hj0 : j = 0
  · subst hj0; simp
  · rw [if_neg hj0]
    by_cases hj : j = i
    · subst hj
      simp only [↓reduceIte, ne_eq, not_true_eq_false, and_false, iff_false, not_and]
      intro _ e
      exact hno0 e
    · simp [hj]

/-- `remove_index i` keeps the table well formed provided no non-live slot points to `i`
(true for a live `i`, and for the all-zero slots `rebuildFreeIndex` threads). -/
theorem Records.removeIndex_idx (r : Records) (h : IdxInv r) (i : Nat) (hi : i < r.recs.length)
    (hi0 : i ≠ 0) (hno : ∀ k, k < r.recs.length → ¬ r.live k → (r.get k).index ≠ i) :
    IdxInv (r.removeIndex i) := by
  have h0 := h.tgt 0 h.pos (by simp [Records.live])
  have hlive := Records.removeIndex_live r i hi hi0 (hno 0 h.pos (by simp [Records.live]))
  have hget := fun j => Records.removeIndex_get r i j hi hi0
  refine ⟨by simp [h.pos], ?_, ?_⟩
  · intro k hk hnl
    rw [hlive] at hnl
    rw [hget, hlive]
    simp only [Records.removeIndex_length] at hk ⊢
    by_cases hk0 : k = 0
    · subst hk0; simp [hi]
    · rw [if_neg hk0]
      by_cases hki : k = i
      · subst hki
        simp only [↓reduceIte]
        exact ⟨h0.1, fun hc => h0.2 hc.1⟩
      · rw [if_neg hki]
        have hkl : ¬ r.live k := fun hl => hnl ⟨hl, hki⟩
        have := h.tgt k hk hkl
        exact ⟨this.1, fun hc => this.2 hc.1⟩
  · intro a b ha hb hnla hnlb
    rw [hlive] at hnla hnlb
    simp only [Records.removeIndex_length] at ha hb
    rw [hget, hget]
    have key : ∀ k, k < r.recs.length → k ≠ 0 → k ≠ i → ¬ (r.live k ∧ k ≠ i) →
        ¬ r.live k := fun k _ _ hki hn hl => hn ⟨hl, hki⟩
    by_cases ha0 : a = 0 <;> by_cases hb0 : b = 0
    · intro _ _; omega
    · subst ha0
      simp only [↓reduceIte, if_neg hb0]
      by_cases hbi : b = i
      · subst hbi
        simp only [↓reduceIte]
        intro e _
        exact absurd e.symm (hno 0 h.pos (by simp [Records.live]))
      · rw [if_neg hbi]
        intro e _
        exact absurd e.symm (hno b hb (key b hb hb0 hbi hnlb))
    · subst hb0
      simp only [↓reduceIte, if_neg ha0]
      by_cases hai : a = i
      · subst hai
        simp only [↓reduceIte]
        intro e _
        exact absurd e (hno 0 h.pos (by simp [Records.live]))
      · rw [if_neg hai]
        intro e _
        exact absurd e (hno a ha (key a ha ha0 hai hnla))
    · rw [if_neg ha0, if_neg hb0]
      by_cases hai : a = i <;> by_cases hbi : b = i
      · intro _ _; omega
      · subst hai
        simp only [↓reduceIte, if_neg hbi]
        intro e hn
        have := h.inj 0 b h.pos hb (by simp [Records.live]) (key b hb hb0 hbi hnlb) e hn
        omega
      · subst hbi
        simp only [↓reduceIte, if_neg hai]
        intro e hn
        have := h.inj a 0 ha h.pos (key a ha ha0 hai hnla) (by simp [Records.live]) e hn
        omega
      · rw [if_neg hai, if_neg hbi]
        exact h.inj a b ha hb (key a ha ha0 hai hnla) (key b hb hb0 hbi hnlb)

theorem Records.removeIndex_idx_live (r : Records) (h : IdxInv r) (i : Nat) (hl : r.live i) :
    IdxInv (r.removeIndex i) := by
  apply Records.removeIndex_idx r h i (Records.live_lt hl) hl.1
  intro k hk hnl e
  have := (h.tgt k hk hnl).2
  rw [e] at this
  exact this hl

end AgdbStorage
