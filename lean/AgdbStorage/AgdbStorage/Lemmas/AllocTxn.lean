import AgdbStorage.Model.StorageSpec
/-
C01b helper lemmas: transaction depth (`Storage.txn`) and `FsOp.flush` accounting of every function
of the record allocator.  No invariant is needed: everything is structural.

* `Quiet s s'`  : an inner step — same depth, the trace grew by non-flush calls only.
* `TxnOK s s'`  : a completed transactional function — same depth, the trace grew by non-flush
                  calls followed by exactly one `flush` iff the depth at entry was 0.
* `TxnErr s s'` : a failed transactional function — non-flush calls only; the depth is either
                  unchanged or one more (the `?` early return after `begin`).
-/
namespace AgdbStorage

def NoFlush (cs : List FsOp) : Prop := ∀ c ∈ cs, c ≠ FsOp.flush

theorem NoFlush.nil : NoFlush [] := by intro c h; cases h

theorem NoFlush.append {a b : List FsOp} (h1 : NoFlush a) (h2 : NoFlush b) : NoFlush (a ++ b) := by
  intro c hc
  rcases List.mem_append.1 hc with h | h
  · exact h1 c h
  · exact h2 c h

theorem NoFlush.write (p : Nat) (bs : Bytes) : NoFlush [FsOp.write p bs] := by
  intro c hc
  cases hc with
  | head => intro h; cases h
  | tail _ h => cases h

theorem NoFlush.resize (n : Nat) : NoFlush [FsOp.resize n] := by
  intro c hc
  cases hc with
  | head => intro h; cases h
  | tail _ h => cases h

theorem NoFlush.not_mem {cs : List FsOp} (h : NoFlush cs) : FsOp.flush ∉ cs := fun hm => h _ hm rfl

/-- an inner step: same depth, some non-flush calls -/
def Quiet (s s' : Storage) : Prop :=
  s'.txn = s.txn ∧ ∃ cs, s'.trace = s.trace ++ cs ∧ NoFlush cs

theorem Quiet.refl (s : Storage) : Quiet s s := ⟨rfl, [], by simp, NoFlush.nil⟩

theorem Quiet.of_eq {s s' : Storage} (ht : s'.txn = s.txn) (htr : s'.trace = s.trace) : Quiet s s' :=
  ⟨ht, [], by simp [htr], NoFlush.nil⟩

theorem Quiet.trans {a b c : Storage} (h1 : Quiet a b) (h2 : Quiet b c) : Quiet a c := by
  obtain ⟨t1, cs1, e1, n1⟩ := h1
  obtain ⟨t2, cs2, e2, n2⟩ := h2
  exact ⟨t2.trans t1, cs1 ++ cs2, by rw [e2, e1, List.append_assoc], n1.append n2⟩

theorem Quiet.ite {s a b : Storage} {c : Prop} [Decidable c] (h1 : Quiet s a) (h2 : Quiet s b) :
    Quiet s (if c then a else b) := by
  split
  · exact h1
  · exact h2

/-- record-table-only update -/
theorem Quiet.records (s : Storage) (r : Records) : Quiet s { s with records := r } :=
  Quiet.of_eq rfl rfl

theorem Quiet.dataWrite (s : Storage) (pos : Nat) (bs : Bytes) : Quiet s (s.dataWrite pos bs) :=
  ⟨rfl, [.write pos bs], rfl, NoFlush.write _ _⟩

theorem Quiet.dataResize (s : Storage) (n : Nat) : Quiet s (s.dataResize n) :=
  ⟨rfl, [.resize n], rfl, NoFlush.resize _⟩

theorem Quiet.writeRecord (s : Storage) (r : SRec) : Quiet s (s.writeRecord r) :=
  Quiet.dataWrite _ _ _

theorem Quiet.append (s : Storage) (bs : Bytes) : Quiet s (s.append bs) :=
  Quiet.dataWrite _ _ _

theorem Quiet.truncate (s : Storage) (n : Nat) : Quiet s (s.truncate n) := by
  unfold Storage.truncate
  exact Quiet.ite (Quiet.dataResize _ _) (Quiet.refl _)

theorem Quiet.freeARegion (s : Storage) (pos size : Nat) : Quiet s (s.freeARegion pos size) :=
  (Quiet.records s (s.records.markFreeCompact pos size).1).trans (Quiet.writeRecord _ _)

theorem Quiet.updateRecord (s : Storage) (r : SRec) (p n : Nat) : Quiet s (s.updateRecord r p n).1 :=
  (Quiet.records s _).trans (Quiet.writeRecord _ _)

theorem Quiet.moveToEnd (s : Storage) (r : SRec) (n : Nat) : Quiet s (s.moveToEnd r n).1 :=
  (Quiet.freeARegion s r.pos r.size).trans
    ((Quiet.updateRecord _ r s.len n).trans (Quiet.append _ _))

theorem Quiet.enlargeAtEnd (s : Storage) (r : SRec) (n : Nat) : Quiet s (s.enlargeAtEnd r n).1 :=
  (Quiet.records s _).trans ((Quiet.dataWrite _ _ _).trans (Quiet.append _ _))

theorem Quiet.enlargeInPlace (s : Storage) (r : SRec) (n f : Nat) :
    Quiet s (s.enlargeInPlace r n f).1 := by
  have h3 : Quiet s ((({ s with records := s.records.setSize r.index n } : Storage).dataWrite
      (r.pos + 8) (le8 n)).dataWrite r.fin (List.replicate (n - r.size) 0)) :=
    (Quiet.records s _).trans ((Quiet.dataWrite _ _ _).trans (Quiet.dataWrite _ _ _))
  unfold Storage.enlargeInPlace
  dsimp only
  split
  · exact h3.trans (Quiet.freeARegion _ _ _)
  · exact h3

theorem Quiet.enlargeMoveTo (s : Storage) (r : SRec) (n fp fs : Nat) :
    Quiet s (s.enlargeMoveTo r n fp fs).1 := by
  have h3 : Quiet s ((((s.freeARegion r.pos r.size).updateRecord r fp n).1).dataWrite
      ((s.freeARegion r.pos r.size).updateRecord r fp n).2.valueStart
      ((readAt s.data r.valueStart r.size).take n ++
        List.replicate (n - (readAt s.data r.valueStart r.size).length) 0)) :=
    (Quiet.freeARegion s _ _).trans ((Quiet.updateRecord _ _ _ _).trans (Quiet.dataWrite _ _ _))
  unfold Storage.enlargeMoveTo
  dsimp only
  split
  · exact h3.trans (Quiet.freeARegion _ _ _)
  · exact h3

theorem Quiet.enlargeValue (s : Storage) (r : SRec) (n : Nat) : Quiet s (s.enlargeValue r n).1 := by
  unfold Storage.enlargeValue
  split
  · exact Quiet.enlargeAtEnd _ _ _
  · split
    · exact (Quiet.records s _).trans (Quiet.enlargeInPlace _ _ _ _)
    · split
      · exact (Quiet.records s _).trans (Quiet.enlargeMoveTo _ _ _ _ _)
      · exact Quiet.moveToEnd _ _ _

theorem Quiet.shrinkValue (s : Storage) (r : SRec) (n : Nat) : Quiet s (s.shrinkValue r n).1 := by
  unfold Storage.shrinkValue
  split
  · exact (Quiet.records s _).trans ((Quiet.dataWrite _ _ _).trans (Quiet.truncate _ _))
  · dsimp only
    split
    · exact (Quiet.records s _).trans ((Quiet.dataWrite _ _ _).trans (Quiet.freeARegion _ _ _))
    · exact Quiet.moveToEnd _ _ _

theorem Quiet.ensureSize (s : Storage) (r : SRec) (o n : Nat) : Quiet s (s.ensureSize r o n).1 := by
  unfold Storage.ensureSize
  split
  · exact Quiet.enlargeValue _ _ _
  · exact Quiet.refl _

theorem Quiet.eraseBytes (s : Storage) (p f t n : Nat) : Quiet s (s.eraseBytes p f t n) := by
  unfold Storage.eraseBytes
  split
  · exact Quiet.dataWrite _ _ _
  · split
    · exact Quiet.dataWrite _ _ _
    · exact Quiet.refl _

theorem Quiet.shrinkIndex (s : Storage) (r : SRec) (cur : Nat) : Quiet s (s.shrinkIndex r cur).1 := by
  unfold Storage.shrinkIndex
  split
  · exact (Quiet.records s _).trans ((Quiet.writeRecord _ _).trans (Quiet.dataWrite _ _ _))
  · exact Quiet.refl _

/-- the `foldl` of `optimize` -/
theorem Quiet.foldl_shrinkIndex (l : List SRec) (acc : Storage × Nat) :
    Quiet acc.1 (l.foldl (fun (acc : Storage × Nat) r => acc.1.shrinkIndex r acc.2) acc).1 := by
  induction l generalizing acc with
  | nil => exact Quiet.refl _
  | cons x xs ih => exact (Quiet.shrinkIndex acc.1 x acc.2).trans (ih _)

end AgdbStorage
