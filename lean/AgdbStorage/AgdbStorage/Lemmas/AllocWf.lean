import AgdbStorage.Lemmas.AllocOps2
import AgdbStorage.Lemmas.AllocTrace
import AgdbStorage.Lemmas.AllocShrinkWf
/-
Well-formedness of the `StorageData` calls of the public operations, composed from the per-branch
lemmas (`EnlargeWf`, `ShrinkWf`, `InsertWf`, `OptimizeWf`) and a length bound for `enlarge_value`.
-/
namespace AgdbStorage

def EnlargeLen : Prop :=
  ∀ (s : Storage) (k n : Nat), SInv s → s.records.live k → (s.records.get k).size < n →
    (s.enlargeValue (s.records.get k) n).1.data.length ≤ s.data.length + 16 + n

theorem wfOps_length_lt (cs : List FsOp) : ∀ d : Bytes, d.length < 2 ^ 64 → wfOps d cs →
    (dataAll d cs).length < 2 ^ 64 := by
  induction cs with
  | nil => intro d h _; exact h
  | cons c cs ih =>
    intro d hd hw
    obtain ⟨hc, hrest⟩ := hw
    show (dataAll (dataAfter d c) cs).length < 2 ^ 64
    apply ih _ _ hrest
    cases c with
    | write pos bs =>
      obtain ⟨h1, h2⟩ := hc
      show (if bs.isEmpty then d else writeAt d pos bs).length < _
      split
      · exact hd
      · rw [length_writeAt _ _ _ (by rcases h1 with h1 | h1 <;> omega)]; omega
    | resize n => exact (length_setLen d n).symm ▸ hc.1
    | flush => exact hd

theorem WfStep.lt {s s' : Storage} (h : WfStep s s') (hl : s.data.length < 2 ^ 64) :
    s'.data.length < 2 ^ 64 := by
  obtain ⟨cs, _, hw, hd⟩ := h
  rw [hd]
  exact wfOps_length_lt cs _ hl hw

theorem WfStep.bump (s : Storage) : WfStep s s.bump := WfStep.of_eq rfl rfl

/-- a write inside the value of a live slot -/
theorem SInv.write_value_wf {s : Storage} (hs : SInv s) (i off : Nat) (bs : Bytes)
    (hl : s.records.live i) (hb : off + bs.length ≤ (s.records.get i).size)
    (hlen : s.data.length < 2 ^ 64) :
    WfStep s (s.dataWrite ((s.records.get i).pos + 16 + off) bs) ∧
      (s.dataWrite ((s.records.get i).pos + 16 + off) bs).data.length = s.data.length := by
  have hbnd := hs.lay.bnd i _ _ (Records.Blk_of_live hl)
  refine ⟨WfStep.dataWrite s _ bs (Or.inl (by omega)) (by omega), ?_⟩
  show (writeAt s.data _ bs).length = _
  rw [length_writeAt _ _ _ (by omega)]
  omega

/-- the state after `ensure_size` -/
theorem Storage.ensureSize_all (hE : EnlargeSpec) (hW : EnlargeWf) (hL : EnlargeLen) (s : Storage)
    (hs : SInv s) (i off n : Nat) (hl : s.records.live i)
    (hb : s.data.length + (off + n) + 16 < 2 ^ 64) :
    ∃ s2 : Storage, ∃ r' : SRec,
      s.bump.ensureSize (s.records.get i) off n = (s2, r') ∧ r' = s2.records.get i ∧
      SInv s2 ∧ s2.records.live i ∧ off + n ≤ (s2.records.get i).size ∧ WfStep s s2 ∧
      s2.data.length ≤ s.data.length + 16 + (off + n) := by
  unfold Storage.ensureSize
  by_cases hgt : off + n > (s.records.get i).size
  · rw [if_pos hgt]
    obtain ⟨hR, hr'⟩ := hE s.bump i (off + n) hs.bump hl hgt
    refine ⟨(s.bump.enlargeValue (s.records.get i) (off + n)).1,
      (s.bump.enlargeValue (s.records.get i) (off + n)).2, rfl, hr', hR.inv, (hR.live i).mpr hl,
      Nat.le_of_eq hR.size.symm, (WfStep.bump s).trans (hW s.bump i (off + n) hs.bump hl hgt hb),
      hL s.bump i (off + n) hs.bump hl hgt⟩
  · rw [if_neg hgt]
    exact ⟨s.bump, _, rfl, rfl, hs, hl, by show _ ≤ (s.records.get i).size; omega, WfStep.bump s,
      by show s.data.length ≤ _; omega⟩

theorem Storage.insertBytesAt_wf (hE : EnlargeSpec) (hW : EnlargeWf) (hL : EnlargeLen) (s : Storage)
    (hs : SInv s) (i off : Nat) (bs : Bytes)
    (hb : s.data.length + (off + bs.length) + 16 < 2 ^ 64) :
    WfStep s (s.insertBytesAt i off bs).1 ∧
      (s.insertBytesAt i off bs).1.data.length ≤ s.data.length + 16 + (off + bs.length) := by
  by_cases hl : s.records.live i
  · rw [Storage.insertBytesAt_live s hs.idx i off bs hl]
    obtain ⟨s2, r', he, hr', hinv, hl2, hsz, hw, hlen⟩ :=
      Storage.ensureSize_all hE hW hL s hs i off bs.length hl hb
    rw [he]
    simp only
    subst hr'
    have hvs : (s2.records.get i).valueStart = (s2.records.get i).pos + 16 := rfl
    rw [hvs]
    obtain ⟨w1, w2⟩ := hinv.write_value_wf i off bs hl2 hsz (by omega)
    have hc := WfStep.commit (s2.dataWrite ((s2.records.get i).pos + 16 + off) bs) (s.txn + 1)
    refine ⟨hw.trans (w1.trans hc), ?_⟩
    obtain ⟨cs, _, _, hd⟩ := hc
    -- commit leaves the data untouched
    have hdata : ((s2.dataWrite ((s2.records.get i).pos + 16 + off) bs).commit (s.txn + 1)).1.data =
        (s2.dataWrite ((s2.records.get i).pos + 16 + off) bs).data := by
      unfold Storage.commit
      split
      · rfl
      · split
        · simp only []
          split <;> rfl
        · rfl
    rw [hdata, w2]
    exact hlen
  · rw [Storage.insertBytesAt_dead s hs.idx i off bs hl]
    exact ⟨WfStep.refl s, by show s.data.length ≤ _; omega⟩

theorem Storage.commit_data (s : Storage) (id : Nat) : (s.commit id).1.data = s.data := by
  unfold Storage.commit
  split
  · rfl
  · split
    · simp only []
      split <;> rfl
    · rfl

theorem Storage.resizeValue_wf (hW : EnlargeWf) (hSW : ShrinkWf) (s : Storage) (hs : SInv s)
    (i n : Nat) (hb : s.data.length + n + 16 < 2 ^ 64) : WfStep s (s.resizeValue i n).1 := by
  by_cases hl : s.records.live i
  · unfold Storage.resizeValue
    rw [Records.record_eq _ hs.idx, if_pos hl]
    simp only [Storage.begin_eq]
    by_cases h1 : n > (s.records.get i).size
    · rw [if_pos h1]
      exact ((WfStep.bump s).trans (hW s.bump i n hs.bump hl h1 hb)).trans (WfStep.commit _ _)
    · rw [if_neg h1]
      by_cases h2 : n < (s.records.get i).size
      · rw [if_pos h2]
        exact ((WfStep.bump s).trans (hSW s.bump i n hs.bump hl h2 hb)).trans (WfStep.commit _ _)
      · rw [if_neg h2]
        exact (WfStep.bump s).trans (WfStep.commit _ _)
  · rw [Storage.resizeValue_dead s hs.idx i n hl]
    exact WfStep.refl s

theorem Storage.replace_wf (hE : EnlargeSpec) (hS : ShrinkSpec) (hW : EnlargeWf) (hSW : ShrinkWf)
    (hL : EnlargeLen) (s : Storage) (hs : SInv s) (i : Nat) (bs : Bytes)
    (hb : s.data.length + 2 * bs.length + 32 < 2 ^ 64) : WfStep s (s.replace i bs).1 := by
  by_cases hl : s.records.live i
  · obtain ⟨a1, a2⟩ := Storage.insertBytesAt_spec hE s.bump hs.bump i 0 bs hl
    have hl2 : (s.bump.insertBytesAt i 0 bs).1.records.live i := (a2.live i).mpr hl
    obtain ⟨b1, _⟩ := Storage.resizeValue_spec hE hS _ a2.inv i bs.length hl2
    have he : s.replace i bs =
        ((s.bump.insertBytesAt i 0 bs).1.resizeValue i bs.length).1.commit (s.txn + 1) := by
      unfold Storage.replace
      simp only [Storage.begin_eq]
      rw [bindRes_ok _ _ () a1, bindRes_ok _ _ () b1]
    rw [he]
    obtain ⟨w1, l1⟩ := Storage.insertBytesAt_wf hE hW hL s.bump hs.bump i 0 bs
      (by show s.data.length + _ + 16 < _; omega)
    have l1' : (s.bump.insertBytesAt i 0 bs).1.data.length ≤ s.data.length + 16 + (0 + bs.length) :=
      l1
    have w2 := Storage.resizeValue_wf hW hSW _ a2.inv i bs.length (by omega)
    exact (((WfStep.bump s).trans w1).trans w2).trans (WfStep.commit _ _)
  · rw [Storage.replace_dead s hs.idx i bs hl]
    exact WfStep.bump s

theorem Storage.eraseBytes_wf (s : Storage) (hs : SInv s) (i f t n : Nat)
    (hl : s.records.live i) (hb : f + n ≤ (s.records.get i).size) (hlen : s.data.length < 2 ^ 64) :
    WfStep s (s.eraseBytes (s.records.get i).valueStart f t n) := by
  have hvs : (s.records.get i).valueStart = (s.records.get i).pos + 16 := rfl
  unfold Storage.eraseBytes
  rw [hvs]
  by_cases c1 : f < t
  · rw [if_pos c1]
    exact (hs.write_value_wf i f (List.replicate (min n (t - f)) 0) hl
      (by rw [List.length_replicate]; omega) hlen).1
  · rw [if_neg c1]
    by_cases c2 : f > t
    · rw [if_pos c2]
      exact (hs.write_value_wf i (max (t + n) f) (List.replicate (f + n - max (t + n) f) 0) hl
        (by rw [List.length_replicate]; omega) hlen).1
    · rw [if_neg c2]
      exact WfStep.refl s

theorem Storage.moveAt_wf (hE : EnlargeSpec) (hW : EnlargeWf) (hL : EnlargeLen) (s : Storage)
    (hs : SInv s) (i f t n : Nat) (hb : s.data.length + (t + n) + 16 < 2 ^ 64) :
    WfStep s (s.moveAt i f t n).1 := by
  by_cases hc : s.records.live i ∧ f + n ≤ (s.val i).length
  · obtain ⟨hl, hbd⟩ := hc
    have hsrc : (readAt (s.val i) f n).length = n := by rw [length_readAt]; omega
    obtain ⟨a1, a2⟩ := Storage.insertBytesAt_spec hE s.bump hs.bump i t (readAt (s.val i) f n) hl
    have hl2 : (s.bump.insertBytesAt i t (readAt (s.val i) f n)).1.records.live i :=
      (a2.live i).mpr hl
    have hsz2 := a2.inv.val_length hl2
    rw [a2.vali] at hsz2
    have hlen2 : f + n ≤
        ((s.bump.insertBytesAt i t (readAt (s.val i) f n)).1.records.get i).size := by
      rw [← hsz2, length_specInsertAt]
      have : (s.bump.val i) = s.val i := rfl
      rw [this]
      omega
    have he : s.moveAt i f t n =
        ((s.bump.insertBytesAt i t (readAt (s.val i) f n)).1.eraseBytes
          ((s.bump.insertBytesAt i t (readAt (s.val i) f n)).1.records.get i).valueStart f t
            n).commit (s.txn + 1) := by
      unfold Storage.moveAt
      rw [Storage.valueAtSize_eq s hs, if_pos hl, if_pos hbd]
      simp only [Storage.begin_eq]
      rw [bindRes_ok _ _ () a1, Records.record_eq _ a2.inv.idx, if_pos hl2]
    rw [he]
    obtain ⟨w1, l1⟩ := Storage.insertBytesAt_wf hE hW hL s.bump hs.bump i t (readAt (s.val i) f n)
      (by show s.data.length + _ + 16 < _; rw [hsrc]; exact hb)
    have l1' : (s.bump.insertBytesAt i t (readAt (s.val i) f n)).1.data.length ≤
        s.data.length + 16 + (t + (readAt (s.val i) f n).length) := l1
    have w2 := Storage.eraseBytes_wf _ a2.inv i f t n hl2 hlen2 (by rw [hsrc] at l1'; omega)
    exact (((WfStep.bump s).trans w1).trans w2).trans (WfStep.commit _ _)
  · obtain ⟨m1, _⟩ := Storage.moveAt_fail s hs i f t n hc
    rw [m1]
    exact WfStep.refl s

theorem Storage.removeCore_wf (s : Storage) (hs : SInv s) (i : Nat) (hl : s.records.live i)
    (hlen : s.data.length < 2 ^ 64) : WfStep s (s.removeCore i (s.records.get i)) := by
  have hlt := Records.live_lt hl
  have hidx := hs.idx
  have hbnd := hs.lay.bnd i _ _ (Records.Blk_of_live hl)
  have hlive := Records.removeIndex_live s.records i hlt hl.1
    (fun e => (hidx.tgt 0 hidx.pos (by simp [Records.live])).2 (e ▸ hl))
  have G0 := RG.intro hs
  have G1 := G0.suspend i hl (fun h => h)
  have G2 := G1.modify (r' := s.records.removeIndex i) (by simp)
    (Records.removeIndex_idx_live _ hidx i hl)
    (fun j hj0 hx => by
      rw [Records.removeIndex_get _ i j hlt hl.1, if_neg hj0, if_neg (fun e => hx (Or.inr e))])
  have G3 := G2.congrX (X' := fun _ => False) (fun j => by
    by_cases hj : j = i
    · subst hj; right; exact ⟨fun c => ((hlive j).mp c).2 rfl, hl.1⟩
    · left; simp [hj])
  have w0 : WfStep s ({ s with records := s.records.removeIndex i } : Storage) :=
    WfStep.of_eq rfl rfl
  unfold Storage.removeCore
  simp only []
  split
  · exact w0.trans (WfStep.truncate _ _ (by omega) hlen)
  · exact w0.trans (WfStep.freeARegion
      (s := ({ s with records := s.records.removeIndex i } : Storage)) G3 (fun h => h)
      (s.records.get i).pos (s.records.get i).size (fun y h1 h2 => Or.inr ⟨h1, h2⟩) hlen)

theorem Storage.remove_wf (s : Storage) (hs : SInv s) (i : Nat) (hlen : s.data.length < 2 ^ 64) :
    WfStep s (s.remove i).1 := by
  by_cases hl : s.records.live i
  · have he : s.remove i = (s.bump.removeCore i (s.records.get i)).commit (s.txn + 1) := by
      unfold Storage.remove
      rw [Records.record_eq _ hs.idx, if_pos hl]
      rfl
    rw [he]
    exact ((WfStep.bump s).trans (Storage.removeCore_wf s.bump hs.bump i hl hlen)).trans
      (WfStep.commit _ _)
  · rw [Storage.remove_dead s hs.idx i hl]
    exact WfStep.refl s

/-- how much an operation may need to grow the file (beyond one extra header) -/
def SOp.size : SOp → Nat
  | .insert b => b.length
  | .insertAt _ off b => off + b.length
  | .moveAt _ _ t n => t + n
  | .replace _ b => b.length
  | .resize _ n => n
  | _ => 0

structure WfSpecs : Prop where
  enlarge : EnlargeSpec
  shrink : ShrinkSpec
  enlargeWf : EnlargeWf
  shrinkWf : ShrinkWf
  insertWf : InsertWf
  optimizeWf : OptimizeWf
  enlargeLen : EnlargeLen

theorem step_wf (A : WfSpecs) (s : Storage) (hs : SInv s) (op : SOp) (hop : op ≠ .reopen)
    (hb : s.data.length + 2 * op.size + 32 < 2 ^ 64) : WfStep s (s.step op).1 := by
  cases op with
  | insert b => exact A.insertWf s b hs (by simp only [SOp.size] at hb; omega)
  | insertAt i off b =>
    exact (Storage.insertBytesAt_wf A.enlarge A.enlargeWf A.enlargeLen s hs i off b
      (by simp only [SOp.size] at hb; omega)).1
  | moveAt i f t n =>
    exact Storage.moveAt_wf A.enlarge A.enlargeWf A.enlargeLen s hs i f t n
      (by simp only [SOp.size] at hb; omega)
  | remove i => exact Storage.remove_wf s hs i (by omega)
  | replace i b =>
    exact Storage.replace_wf A.enlarge A.shrink A.enlargeWf A.shrinkWf A.enlargeLen s hs i b
      (by simp only [SOp.size] at hb; omega)
  | resize i n =>
    exact Storage.resizeValue_wf A.enlargeWf A.shrinkWf s hs i n
      (by simp only [SOp.size] at hb; omega)
  | optimize => exact A.optimizeWf s hs (by omega)
  | reopen => exact absurd rfl hop
  | begin => exact WfStep.bump s
  | commit id => exact WfStep.commit s id

theorem WfStep.drop {s s' : Storage} (h : WfStep s s') :
    wfOps s.data (s'.trace.drop s.trace.length) := by
  obtain ⟨cs, ht, hw, _⟩ := h
  rw [ht, List.drop_left']
  · exact hw
  · rfl

end AgdbStorage
