import AgdbStorage.Lemmas.AllocIdx
import AgdbStorage.Lemmas.AllocLay
/-
The generalised invariant `RG r X H d V` of the intermediate states of an operation:
`X` = slots being modified ("suspended": no claim about them), `H` = bytes owned by nobody,
`V` = the values of the non-suspended live slots.  One lemma per primitive step.
-/
namespace AgdbStorage

def Records.B (r : Records) (X : Nat → Prop) : BlkP := fun i p z => r.Blk i p z ∧ ¬ X i

structure RG (r : Records) (X : Nat → Prop) (H : Nat → Prop) (d : Bytes) (V : Nat → Bytes) :
    Prop where
  idx : IdxInv r
  sorted : FSorted r.free
  lay : LayG (r.B X) d.length H
  dat : DatG (r.B X) d V

theorem Records.Blk_live {r : Records} {i p z : Nat} (h : r.Blk i p z) (hi : i ≠ 0) :
    r.live i ∧ (r.get i).pos = p ∧ (r.get i).size = z := by
  rcases h with h | h
  · exact h
  · exact absurd h.1 hi

theorem Records.Blk_of_live {r : Records} {i : Nat} (h : r.live i) :
    r.Blk i (r.get i).pos (r.get i).size := Or.inl ⟨h, rfl, rfl⟩

theorem Records.Blk_zero {r : Records} {p z : Nat} : r.Blk 0 p z ↔ (p, z) ∈ r.free := by
  constructor
  · rintro (h | h)
    · exact absurd rfl h.1.1
    · exact h.2
  · intro h; exact Or.inr ⟨rfl, h⟩

/-! ### entering and leaving -/

theorem RG.intro {r : Records} {d : Bytes} (h : RInv r d) :
    RG r (fun _ => False) (fun _ => False) d
      (fun j => readAt d ((r.get j).pos + 16) (r.get j).size) := by
  have hB : ∀ i p z, r.B (fun _ => False) i p z ↔ r.Blk i p z := fun i p z => by simp [Records.B]
  refine ⟨h.idx, h.sorted, (LayG.of_lay h.lay).congr hB (fun _ => Iff.rfl), ?_, h.ver, ?_⟩
  · intro i p z hb; exact h.hdr i p z hb.1
  · intro i p z hb hi
    obtain ⟨_, e1, e2⟩ := Records.Blk_live hb.1 hi
    simp only [e1, e2]

theorem RG.elim {r : Records} {X H : Nat → Prop} {d : Bytes} {V : Nat → Bytes} (h : RG r X H d V)
    (hX : ∀ i, ¬ X i) (hH : ∀ y, ¬ H y) :
    RInv r d ∧ ∀ j, r.live j → readAt d ((r.get j).pos + 16) (r.get j).size = V j := by
  have hB : ∀ i p z, r.Blk i p z ↔ r.B X i p z := fun i p z => by simp [Records.B, hX]
  refine ⟨⟨h.idx, h.sorted, (h.lay.congr hB (fun _ => Iff.rfl)).to_lay hH, ?_, h.dat.ver⟩, ?_⟩
  · intro i p z hb; exact h.dat.hdr i p z ((hB _ _ _).mp hb)
  · intro j hj
    exact h.dat.val j _ _ ((hB _ _ _).mp (Records.Blk_of_live hj)) hj.1

theorem RG.congr {r : Records} {X X' H H' : Nat → Prop} {d : Bytes} {V : Nat → Bytes}
    (h : RG r X H d V) (hX : ∀ i, X' i ↔ X i) (hH : ∀ y, H' y ↔ H y) : RG r X' H' d V := by
  have hB : ∀ i p z, r.B X' i p z ↔ r.B X i p z := fun i p z => by simp [Records.B, hX]
  exact ⟨h.idx, h.sorted, h.lay.congr hB hH, h.dat.sub (fun i p z hb => (hB i p z).mp hb)⟩

theorem RG.congrV {r : Records} {X H : Nat → Prop} {d : Bytes} {V V' : Nat → Bytes}
    (h : RG r X H d V) (hv : ∀ j, r.live j → ¬ X j → V' j = V j) : RG r X H d V' :=
  ⟨h.idx, h.sorted, h.lay, h.dat.congrV (fun i _ _ hb hi => hv i (Records.Blk_live hb.1 hi).1 hb.2)⟩

/-! ### suspending and resuming a live slot -/

theorem RG.suspend {r : Records} {X H : Nat → Prop} {d : Bytes} {V : Nat → Bytes}
    (h : RG r X H d V) (k : Nat) (hk : r.live k) (hx : ¬ X k) :
    RG r (fun j => X j ∨ j = k)
      (fun y => H y ∨ ((r.get k).pos ≤ y ∧ y < (r.get k).pos + 16 + (r.get k).size)) d V := by
  have hB : ∀ i p z, r.B (fun j => X j ∨ j = k) i p z ↔
      (r.B X i p z ∧ ¬ (i = k ∧ p = (r.get k).pos ∧ z = (r.get k).size)) := by
    intro i p z
    simp only [Records.B]
    constructor
    · rintro ⟨hb, hn⟩
      exact ⟨⟨hb, fun c => hn (Or.inl c)⟩, fun c => hn (Or.inr c.1)⟩
    · rintro ⟨⟨hb, hn⟩, hn2⟩
      refine ⟨hb, ?_⟩
      rintro (c | c)
      · exact hn c
      · subst c
        obtain ⟨_, e1, e2⟩ := Records.Blk_live hb hk.1
        exact hn2 ⟨rfl, e1.symm, e2.symm⟩
  have hb0 : r.B X k (r.get k).pos (r.get k).size := ⟨Records.Blk_of_live hk, hx⟩
  exact ⟨h.idx, h.sorted, (h.lay.remove hb0).congr hB (fun _ => Iff.rfl),
    h.dat.sub (fun i p z hb => ((hB i p z).mp hb).1)⟩

theorem RG.resume {r : Records} {X H : Nat → Prop} {d : Bytes} {V : Nat → Bytes}
    (h : RG r X H d V) (k : Nat) (hk : r.live k)
    (hin : ∀ y, (r.get k).pos ≤ y → y < (r.get k).pos + 16 + (r.get k).size → H y)
    (hh : readAt d (r.get k).pos 16 = le8 k ++ le8 (r.get k).size)
    (hv : readAt d ((r.get k).pos + 16) (r.get k).size = V k) :
    RG r (fun j => X j ∧ j ≠ k)
      (fun y => H y ∧ ¬ ((r.get k).pos ≤ y ∧ y < (r.get k).pos + 16 + (r.get k).size)) d V := by
  have hB : ∀ i p z, r.B (fun j => X j ∧ j ≠ k) i p z ↔
      (r.B X i p z ∨ (i = k ∧ p = (r.get k).pos ∧ z = (r.get k).size)) := by
    intro i p z
    simp only [Records.B]
    constructor
    · rintro ⟨hb, hn⟩
      by_cases c : i = k
      · subst c
        obtain ⟨_, e1, e2⟩ := Records.Blk_live hb hk.1
        exact Or.inr ⟨rfl, e1.symm, e2.symm⟩
      · exact Or.inl ⟨hb, fun cx => hn ⟨cx, c⟩⟩
    · rintro (⟨hb, hn⟩ | ⟨e1, e2, e3⟩)
      · exact ⟨hb, fun c => hn c.1⟩
      · subst e1 e2 e3
        exact ⟨Records.Blk_of_live hk, fun c => c.2 rfl⟩
  exact ⟨h.idx, h.sorted, (h.lay.add hin).congr hB (fun _ => Iff.rfl),
    (h.dat.add hh (fun _ => hv)).sub (fun i p z hb => (hB i p z).mp hb)⟩

/-! ### table updates that touch only suspended slots (and the index field of slot 0) -/

theorem RG.modify {r r' : Records} {X H : Nat → Prop} {d : Bytes} {V : Nat → Bytes}
    (h : RG r X H d V) (hf : r'.free = r.free) (hi : IdxInv r')
    (hg : ∀ j, j ≠ 0 → ¬ X j → r'.get j = r.get j) : RG r' X H d V := by
  have hB : ∀ i p z, r'.B X i p z ↔ r.B X i p z := by
    intro i p z
    simp only [Records.B, Records.Blk, Records.live, hf]
    constructor
    · rintro ⟨hb, hn⟩
      refine ⟨?_, hn⟩
      rcases hb with ⟨⟨c0, c1⟩, c2⟩ | hb
      · rw [hg i c0 hn] at c1 c2; exact Or.inl ⟨⟨c0, c1⟩, c2⟩
      · exact Or.inr hb
    · rintro ⟨hb, hn⟩
      refine ⟨?_, hn⟩
      rcases hb with ⟨⟨c0, c1⟩, c2⟩ | hb
      · rw [← hg i c0 hn] at c1 c2; exact Or.inl ⟨⟨c0, c1⟩, c2⟩
      · exact Or.inr hb
  exact ⟨hi, hf ▸ h.sorted, h.lay.congr hB (fun _ => Iff.rfl),
    h.dat.sub (fun i p z hb => (hB i p z).mp hb)⟩

/-- changing `X` on slots that are not live -/
theorem RG.congrX {r : Records} {X X' H : Nat → Prop} {d : Bytes} {V : Nat → Bytes}
    (h : RG r X H d V) (hX : ∀ j, (X' j ↔ X j) ∨ (¬ r.live j ∧ j ≠ 0)) : RG r X' H d V := by
  have hB : ∀ i p z, r.B X' i p z ↔ r.B X i p z := by
    intro i p z
    simp only [Records.B]
    rcases hX i with c | ⟨c1, c2⟩
    · rw [c]
    · constructor
      · rintro ⟨hb, _⟩; exact absurd (Records.Blk_live hb c2).1 c1
      · rintro ⟨hb, _⟩; exact absurd (Records.Blk_live hb c2).1 c1
  exact ⟨h.idx, h.sorted, h.lay.congr hB (fun _ => Iff.rfl),
    h.dat.sub (fun i p z hb => (hB i p z).mp hb)⟩

/-! ### the free map -/

theorem RG.fdisj {r : Records} {X H : Nat → Prop} {d : Bytes} {V : Nat → Bytes}
    (h : RG r X H d V) (hx0 : ¬ X 0) : FDisj r.free := by
  intro x hx y hy
  have := h.lay.disj 0 x.1 x.2 0 y.1 y.2 ⟨Records.Blk_zero.mpr hx, hx0⟩ ⟨Records.Blk_zero.mpr hy, hx0⟩
  rcases this with e | e | e
  · left; exact Prod.ext e.2.1 e.2.2
  · exact Or.inr (Or.inl e)
  · exact Or.inr (Or.inr e)

/-- `take_free` / `take_free_after`: a free region becomes a hole -/
theorem RG.takeFree {r : Records} {X H : Nat → Prop} {d : Bytes} {V : Nat → Bytes}
    (h : RG r X H d V) (hx0 : ¬ X 0) (fp fz : Nat) (hm : (fp, fz) ∈ r.free) :
    RG (r.removeFree fp) X (fun y => H y ∨ (fp ≤ y ∧ y < fp + 16 + fz)) d V := by
  have hd := h.fdisj hx0
  have hB : ∀ i p z, (r.removeFree fp).B X i p z ↔
      (r.B X i p z ∧ ¬ (i = 0 ∧ p = fp ∧ z = fz)) := by
    intro i p z
    simp only [Records.B, Records.Blk, Records.removeFree, Records.live, Records.get,
      FreeMap.mem_remove]
    constructor
    · rintro ⟨hb, hn⟩
      rcases hb with hb | ⟨c0, c1, c2⟩
      · exact ⟨⟨Or.inl hb, hn⟩, fun c => hb.1.1 c.1⟩
      · exact ⟨⟨Or.inr ⟨c0, c1⟩, hn⟩, fun c => c2 c.2.1⟩
    · rintro ⟨⟨hb, hn⟩, hn2⟩
      refine ⟨?_, hn⟩
      rcases hb with hb | ⟨c0, c1⟩
      · exact Or.inl hb
      · refine Or.inr ⟨c0, c1, ?_⟩
        intro c
        subst c
        rcases hd _ c1 _ hm with e | e | e
        · simp only [Prod.mk.injEq] at e; exact hn2 ⟨c0, rfl, e.2⟩
        · simp only at e; omega
        · simp only at e; omega
  have hb0 : r.B X 0 fp fz := ⟨Records.Blk_zero.mpr hm, hx0⟩
  exact ⟨h.idx.of_recs_eq rfl, FreeMap.sorted_remove _ _ h.sorted, (h.lay.remove hb0).congr hB (fun _ => Iff.rfl),
    h.dat.sub (fun i p z hb => ((hB i p z).mp hb).1)⟩

/-! ### data -/

/-- a write into hole bytes, possibly extending the file -/
theorem RG.write {r : Records} {X H : Nat → Prop} {d : Bytes} {V : Nat → Bytes}
    (h : RG r X H d V) (pos : Nat) (bs : Bytes) (hp : pos ≤ d.length)
    (hin : ∀ y, pos ≤ y → y < pos + bs.length → y < d.length → H y) :
    RG r X (fun y => H y ∨ (d.length ≤ y ∧ y < pos + bs.length)) (writeAt d pos bs) V := by
  have hl := length_writeAt d bs pos hp
  refine ⟨h.idx, h.sorted, ?_, h.dat.frame (write_frame h.lay pos bs hp hin)⟩
  rw [hl]
  refine (h.lay.extend (max d.length (pos + bs.length)) (by omega)).congr (fun _ _ _ => Iff.rfl) ?_
  intro y
  constructor
  · rintro (c | c)
    · exact Or.inl c
    · exact Or.inr (by omega)
  · rintro (c | c)
    · exact Or.inl c
    · exact Or.inr (by omega)

/-- `set_len` cutting off a hole at the end of the file -/
theorem RG.truncate {r : Records} {X H : Nat → Prop} {d : Bytes} {V : Nat → Bytes}
    (h : RG r X H d V) (n : Nat) (h24 : 24 ≤ n) (hn : n ≤ d.length)
    (hin : ∀ y, n ≤ y → y < d.length → H y) :
    RG r X (fun y => H y ∧ y < n) (setLen d n) V := by
  have hl := length_setLen d n
  have hlay := h.lay.truncate n h24 hn hin
  refine ⟨h.idx, h.sorted, by rw [hl]; exact hlay, h.dat.frame ?_⟩
  intro y hy
  rw [getElem?_setLen d n y hn]
  have : y < n := by
    rcases hy with hy | ⟨i, p, z, hb, c1, c2⟩
    · omega
    · have := hlay.bnd i p z hb; omega
  rw [if_pos this]

/-- `mark_free_compact` + header write (`Storage::free_a_region`) of a hole interval -/
theorem RG.freeRegion {r : Records} {X H : Nat → Prop} {d : Bytes} {V : Nat → Bytes}
    (h : RG r X H d V) (hx0 : ¬ X 0) (a s : Nat) (hin : ∀ y, a ≤ y → y < a + 16 + s → H y) :
    RG (r.markFreeCompact a s).1 X (fun y => H y ∧ ¬ (a ≤ y ∧ y < a + 16 + s))
      (writeAt d (r.markFreeCompact a s).2.1 (le8 0 ++ le8 (r.markFreeCompact a s).2.2)) V := by
  have hd := h.fdisj hx0
  have hhole : Hole r.free a (a + 16 + s) := by
    intro x hx
    exact h.lay.block_hole (i := 0) ⟨Records.Blk_zero.mpr hx, hx0⟩ (by omega) hin
  obtain ⟨m, hrecs⟩ := Records.markFreeCompact_spec r a s h.sorted hd hhole
  generalize r.markFreeCompact a s = res at m hrecs
  obtain ⟨r', p0, sz0⟩ := res
  simp only at m hrecs ⊢
  have hF : ∀ p z, r.B X 0 p z ↔ (p, z) ∈ r.free := fun p z => by
    simp only [Records.B]
    constructor
    · intro c; exact Records.Blk_zero.mp c.1
    · intro c; exact ⟨Records.Blk_zero.mpr c, hx0⟩
  have hlay := h.lay.merge hF m hin
  have hB : ∀ i p z, r'.B X i p z ↔ ((i ≠ 0 ∧ r.B X i p z) ∨ (i = 0 ∧ (p, z) ∈ r'.free)) := by
    intro i p z
    simp only [Records.B, Records.Blk, Records.live, Records.get, hrecs]
    constructor
    · rintro ⟨hb | hb, hn⟩
      · exact Or.inl ⟨hb.1.1, Or.inl hb, hn⟩
      · exact Or.inr hb
    · rintro (⟨c0, hb | hb, hn⟩ | hb)
      · exact ⟨Or.inl hb, hn⟩
      · exact absurd hb.1 c0
      · exact ⟨Or.inr hb, by rw [hb.1]; exact hx0⟩
  have hlay' := hlay.congr hB (fun _ => Iff.rfl)
  have hnew : r'.B X 0 p0 sz0 := (hB 0 p0 sz0).mpr (Or.inr ⟨rfl, (m.mem _).mpr (Or.inl rfl)⟩)
  have hbn := hlay'.bnd 0 p0 sz0 hnew
  have hp : p0 ≤ d.length := by omega
  have hwl : (writeAt d p0 (le8 0 ++ le8 sz0)).length = d.length := by
    rw [length_writeAt d _ p0 hp]; simp; omega
  have hget := fun y => getElem?_writeAt d (le8 0 ++ le8 sz0) p0 y hp
  have hlen16 : (le8 0 ++ le8 sz0).length = 16 := by simp
  -- bytes outside the new header are unchanged
  have hout : ∀ y, (y < p0 ∨ p0 + 16 ≤ y) → (writeAt d p0 (le8 0 ++ le8 sz0))[y]? = d[y]? := by
    intro y hy
    rw [hget, hlen16]
    rcases hy with hy | hy
    · rw [if_pos hy]
    · rw [if_neg (by omega), if_neg (by omega)]
  refine ⟨h.idx.of_recs_eq hrecs, m.sorted, by rw [hwl]; exact hlay', ?_, ?_, ?_⟩
  · intro i p z hb
    rcases hlay'.disj _ _ _ _ _ _ hb hnew with e | e | e
    · obtain ⟨e1, e2, e3⟩ := e; subst e1 e2 e3
      apply readAt_eq_of_getElem? _ _ _ _ hlen16
      intro k hk
      rw [hget, hlen16, if_neg (by omega), if_pos (by omega)]
      congr 1; omega
    · rcases (hB i p z).mp hb with ⟨_, c⟩ | ⟨c0, c⟩
      · rw [← h.dat.hdr i p z c]
        exact readAt_congr _ _ _ _ (fun y _ _ => hout y (by omega))
      · subst c0
        rcases (m.mem (p, z)).mp c with e' | ⟨e', _⟩
        · simp only [Prod.mk.injEq] at e'; omega
        · rw [← h.dat.hdr 0 p z ((hF p z).mpr e')]
          exact readAt_congr _ _ _ _ (fun y _ _ => hout y (by omega))
    · rcases (hB i p z).mp hb with ⟨_, c⟩ | ⟨c0, c⟩
      · rw [← h.dat.hdr i p z c]
        exact readAt_congr _ _ _ _ (fun y _ _ => hout y (by omega))
      · subst c0
        rcases (m.mem (p, z)).mp c with e' | ⟨e', _⟩
        · simp only [Prod.mk.injEq] at e'; omega
        · rw [← h.dat.hdr 0 p z ((hF p z).mpr e')]
          exact readAt_congr _ _ _ _ (fun y _ _ => hout y (by omega))
  · rw [← h.dat.ver]
    exact readAt_congr _ _ _ _ (fun y _ _ => hout y (by omega))
  · intro i p z hb hi
    rcases (hB i p z).mp hb with ⟨_, c⟩ | ⟨c0, _⟩
    · rw [← h.dat.val i p z c hi]
      rcases hlay'.disj _ _ _ _ _ _ hb hnew with e | e | e
      · exact absurd e.1 hi
      · exact readAt_congr _ _ _ _ (fun y _ _ => hout y (by omega))
      · exact readAt_congr _ _ _ _ (fun y _ _ => hout y (by omega))
    · exact absurd c0 hi

end AgdbStorage
