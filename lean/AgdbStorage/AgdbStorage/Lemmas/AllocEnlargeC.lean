import AgdbStorage.Lemmas.AllocEnlargeA
/-
`Storage::enlarge_value`, branch 3: the value moves into a free region found by `take_free`
(`enlargeMoveTo`), with or without a remainder.
-/
namespace AgdbStorage

/-- the header write of `free_a_region` does not change the file length -/
theorem Enlarge.freeRegion_length {r : Records} {X H : Nat → Prop} {d : Bytes} {V : Nat → Bytes}
    (h : RG r X H d V) (hx0 : ¬ X 0) (a s : Nat) (hin : ∀ y, a ≤ y → y < a + 16 + s → H y) :
    (writeAt d (r.markFreeCompact a s).2.1 (le8 0 ++ le8 (r.markFreeCompact a s).2.2)).length =
      d.length := by
  have hd := h.fdisj hx0
  have hhole : Hole r.free a (a + 16 + s) := by
    intro x hx
    exact h.lay.block_hole (i := 0) ⟨Records.Blk_zero.mpr hx, hx0⟩ (by omega) hin
  obtain ⟨m, _⟩ := Records.markFreeCompact_spec r a s h.sorted hd hhole
  have h1 := m.le_p
  have h2 := h.lay.hbnd (a + 15) (hin _ (by omega) (by omega))
  rw [length_writeAt _ _ _ (by omega)]
  simp only [List.length_append, le8_length]
  omega

theorem Enlarge.resizeOK_of_RG' {s s' : Storage} {k n : Nat} {X H : Nat → Prop} {V : Nat → Bytes}
    {R : Records} {D : Bytes}
    (hs : SInv s) (hl : s.records.live k) (hn : (s.records.get k).size ≤ n)
    (hr : s'.records = R) (hd : s'.data = D)
    (G : RG R X H D V) (hX : ∀ i, ¬ X i) (hH : ∀ y, ¬ H y)
    (hlive : ∀ j, R.live j ↔ s.records.live j)
    (hsz : (R.get k).size = n)
    (hVk : V k = s.val k ++ List.replicate (n - (s.records.get k).size) 0)
    (hVo : ∀ j, j ≠ k → V j = s.val j)
    (htxn : s'.txn = s.txn) : ResizeOK s s' k n := by
  subst hr hd
  exact Enlarge.resizeOK_of_RG hs hl hn G hX hH hlive hsz hVk hVo htxn

theorem enlargeMoveTo_spec (s : Storage) (k n fp fsz : Nat) (hs : SInv s) (hl : s.records.live k)
    (hlt : (s.records.get k).size < n)
    (hm : (fp, fsz) ∈ s.records.free)
    (hfit : fsz = n ∨ n + 16 ≤ fsz) :
    ResizeOK s (({ s with records := s.records.removeFree fp } : Storage).enlargeMoveTo
          (s.records.get k) n fp fsz).1 k n ∧
      (({ s with records := s.records.removeFree fp } : Storage).enlargeMoveTo
          (s.records.get k) n fp fsz).2 =
      (({ s with records := s.records.removeFree fp } : Storage).enlargeMoveTo
          (s.records.get k) n fp fsz).1.records.get k := by
  have hklt := Records.live_lt hl
  have hidx := hs.idx
  have hki : (s.records.get k).index = k := hl.2
  have hbnd := hs.lay.bnd k _ _ (Records.Blk_of_live hl)
  have hfb := hs.lay.bnd 0 _ _ (Records.Blk_zero.mpr hm)
  have hdisj : (s.records.get k).pos + 16 + (s.records.get k).size ≤ fp ∨
      fp + 16 + fsz ≤ (s.records.get k).pos := by
    rcases hs.lay.disj k _ _ 0 fp fsz (Records.Blk_of_live hl) (Records.Blk_zero.mpr hm) with
      e | e | e
    · exact absurd e.1 hl.1
    · exact Or.inl e
    · exact Or.inr e
  have hvl := hs.val_length hl
  have hval : s.val k = readAt s.data ((s.records.get k).pos + 16) (s.records.get k).size := rfl
  generalize hpos : (s.records.get k).pos = pos at *
  generalize hsize : (s.records.get k).size = size at *
  generalize hr1 : s.records.removeFree fp = r1
  have hrecs1 : r1.recs = s.records.recs := by rw [← hr1]; rfl
  have hget1 : ∀ j, r1.get j = s.records.get j := Records.get_of_recs_eq hrecs1
  have hlive1 : ∀ j, r1.live j ↔ s.records.live j := Records.live_of_recs_eq hrecs1
  -- the new bytes
  obtain ⟨bs, hbs⟩ : ∃ bs, bs = (readAt s.data (pos + 16) size).take n ++
      List.replicate (n - (readAt s.data (pos + 16) size).length) 0 := ⟨_, rfl⟩
  have hbs' : bs = s.val k ++ List.replicate (n - size) 0 := by
    rw [hbs, ← hval, hvl, List.take_of_length_le (by omega)]
  have hbl : bs.length = n := by
    rw [hbs', List.length_append, hvl, List.length_replicate]; omega
  -- chain
  have G0 := RG.intro hs
  have G1 := G0.takeFree (fun h => h) _ _ hm
  rw [hr1] at G1
  have G2 := G1.suspend k ((hlive1 k).mpr hl) (fun h => h)
  rw [hget1, hpos, hsize] at G2
  have hx0 : ¬ (False ∨ 0 = k) := fun h => h.elim id (fun e => hl.1 e.symm)
  have G3 := G2.freeRegion hx0 pos size (fun y h1 h2 => Or.inr ⟨h1, h2⟩)
  have hl3 := Enlarge.freeRegion_length G2 hx0 pos size (fun y h1 h2 => Or.inr ⟨h1, h2⟩)
  have hrecs2 : (r1.markFreeCompact pos size).1.recs = s.records.recs := by
    rw [Records.markFreeCompact_recs, hrecs1]
  have hget2 : ∀ j, (r1.markFreeCompact pos size).1.get j = s.records.get j :=
    Records.get_of_recs_eq hrecs2
  have hklt2 : k < (r1.markFreeCompact pos size).1.recs.length := by rw [hrecs2]; exact hklt
  have hklt3 : k < ((r1.markFreeCompact pos size).1.setPos k fp).recs.length := by
    rw [Records.setPos_length]; exact hklt2
  have hidx3 : ∀ j, ((((r1.markFreeCompact pos size).1.setPos k fp).setSize k n).get j).index =
      ((r1.markFreeCompact pos size).1.get j).index := fun j => by
    rw [Records.setSize_index, Records.setPos_index]
  have hgetk : (((r1.markFreeCompact pos size).1.setPos k fp).setSize k n).get k =
      { s.records.get k with pos := fp, size := n } := by
    rw [Records.setSize_get _ _ _ _ hklt3, if_pos rfl, Records.setPos_get _ _ _ _ hklt2,
      if_pos rfl, hget2]
  have hlive' : ∀ j, (((r1.markFreeCompact pos size).1.setPos k fp).setSize k n).live j ↔
      s.records.live j := fun j =>
    (Records.live_congr hidx3 j).trans ((Records.live_of_recs_eq hrecs2 j))
  have G4 := G3.modify (r' := ((r1.markFreeCompact pos size).1.setPos k fp).setSize k n)
    (by simp) (G3.idx.congr (by simp) hidx3)
    (fun j _ hx => by
      rw [Records.setSize_get _ _ _ _ hklt3, if_neg (fun e => hx (Or.inr e)),
        Records.setPos_get _ _ _ _ hklt2, if_neg (fun e => hx (Or.inr e))])
  have G5 := G4.write fp (le8 k ++ le8 n) (by omega) (fun y h1 h2 h3 => by
    simp only [List.length_append, le8_length] at h2
    refine ⟨Or.inl (Or.inr ⟨h1, by omega⟩), ?_⟩
    omega)
  have hl5 : (writeAt (writeAt s.data (r1.markFreeCompact pos size).2.1
      (le8 0 ++ le8 (r1.markFreeCompact pos size).2.2)) fp (le8 k ++ le8 n)).length =
      s.data.length := by
    rw [length_writeAt _ _ _ (by omega), hl3]; simp; omega
  have G6 := G5.write (fp + 16) bs (by omega) (fun y h1 h2 h3 => by
    rw [hbl] at h2
    refine Or.inl ⟨Or.inl (Or.inr ⟨by omega, by omega⟩), ?_⟩
    omega)
  have G7 := G6.congr (X' := fun j => j = k)
    (H' := fun y => fp ≤ y ∧ y < fp + 16 + fsz)
    (fun j => by simp) (fun y => by
      rw [hl5, hl3, hbl]; simp only [List.length_append, le8_length, false_or]; omega)
  have G8 := G7.congrV (V' := fun j => if j = k then bs
      else readAt s.data ((s.records.get j).pos + 16) (s.records.get j).size)
    (fun j _ hx => by simp only [if_neg hx])
  have hk' := (hlive' k).mpr hl
  have hgp : ((((r1.markFreeCompact pos size).1.setPos k fp).setSize k n).get k).pos = fp := by
    rw [hgetk]
  have hgs : ((((r1.markFreeCompact pos size).1.setPos k fp).setSize k n).get k).size = n := by
    rw [hgetk]
  have G9 := G8.resume k hk' (by rw [hgp, hgs]; intro y h1 h2; exact ⟨h1, by omega⟩)
    (by
      rw [hgp, hgs, readAt_writeAt_before _ _ _ _ _ (by omega) (by omega)]
      have := readAt_writeAt_self (writeAt s.data (r1.markFreeCompact pos size).2.1
        (le8 0 ++ le8 (r1.markFreeCompact pos size).2.2)) (le8 k ++ le8 n) fp (by omega)
      simpa using this)
    (by
      rw [hgp, hgs]
      simp only [if_pos]
      have := readAt_writeAt_self (writeAt (writeAt s.data (r1.markFreeCompact pos size).2.1
        (le8 0 ++ le8 (r1.markFreeCompact pos size).2.2)) fp (le8 k ++ le8 n)) bs (fp + 16)
        (by omega)
      rw [hbl] at this
      exact this)
  rw [hgp, hgs] at G9
  have hVk : (fun j => if j = k then bs
      else readAt s.data ((s.records.get j).pos + 16) (s.records.get j).size) k =
      s.val k ++ List.replicate (n - (s.records.get k).size) 0 := by
    simp only [if_pos, hsize]; exact hbs'
  have hVo : ∀ j, j ≠ k → (fun j => if j = k then bs
      else readAt s.data ((s.records.get j).pos + 16) (s.records.get j).size) j = s.val j := by
    intro j hj; simp only [if_neg hj, Storage.val]
  rcases hfit with hf | hf
  · have hres : ({ s with records := r1 } : Storage).enlargeMoveTo (s.records.get k) n fp fsz =
        (((({ s with records := r1 } : Storage).freeARegion pos size).updateRecord
            (s.records.get k) fp n).1.dataWrite (fp + 16) bs,
          { s.records.get k with pos := fp, size := n }) := by
      simp only [Storage.enlargeMoveTo, RECORD_SIZE, SRec.fin, SRec.valueStart, hpos, hsize, hki,
        Storage.updateRecord, if_neg (show ¬ fsz > n by omega), ← hbs]
    rw [hres]
    refine ⟨Enlarge.resizeOK_of_RG' hs hl (by omega) ?_ ?_ G9 (fun _ h => h.2 h.1)
      (fun y (h : (fp ≤ y ∧ y < fp + 16 + fsz) ∧ ¬(fp ≤ y ∧ y < fp + 16 + n)) => by omega)
      hlive' hgs hVk hVo rfl, ?_⟩
    · simp only [Storage.updateRecord, Storage.dataWrite_records, Storage.writeRecord_records,
        Storage.freeARegion_records, hki]
    · simp only [Storage.updateRecord, Storage.dataWrite_data, Storage.writeRecord_data,
        Storage.freeARegion_data, hki]
    · simp only [Storage.updateRecord, Storage.dataWrite_records, Storage.writeRecord_records,
        Storage.freeARegion_records, hki]
      rw [hgetk]; simp only [hki]
  · have hres : ({ s with records := r1 } : Storage).enlargeMoveTo (s.records.get k) n fp fsz =
        ((((({ s with records := r1 } : Storage).freeARegion pos size).updateRecord
            (s.records.get k) fp n).1.dataWrite (fp + 16) bs).freeARegion (fp + 16 + n)
              (fsz - n - 16),
          { s.records.get k with pos := fp, size := n }) := by
      simp only [Storage.enlargeMoveTo, RECORD_SIZE, SRec.fin, SRec.valueStart, hpos, hsize, hki,
        Storage.updateRecord, if_pos (show fsz > n by omega), ← hbs]
    rw [hres]
    have G10 := G9.freeRegion (fun h => h.2 h.1) (fp + 16 + n) (fsz - n - 16)
      (fun y h1 h2 => by
        show (fp ≤ y ∧ y < fp + 16 + fsz) ∧ ¬(fp ≤ y ∧ y < fp + 16 + n)
        omega)
    have hrecs10 := Records.markFreeCompact_recs
      (((r1.markFreeCompact pos size).1.setPos k fp).setSize k n) (fp + 16 + n) (fsz - n - 16)
    refine ⟨Enlarge.resizeOK_of_RG' hs hl (by omega) ?_ ?_ G10 (fun _ h => h.2 h.1)
      (fun y (h : ((fp ≤ y ∧ y < fp + 16 + fsz) ∧ ¬(fp ≤ y ∧ y < fp + 16 + n)) ∧
          ¬(fp + 16 + n ≤ y ∧ y < fp + 16 + n + 16 + (fsz - n - 16))) => by omega)
      (fun j => (Records.live_of_recs_eq hrecs10 j).trans (hlive' j))
      ((congrArg SRec.size (Records.get_of_recs_eq hrecs10 k)).trans hgs) hVk hVo
      (by simp [Storage.updateRecord]), ?_⟩
    · simp only [Storage.updateRecord, Storage.dataWrite_records, Storage.writeRecord_records,
        Storage.freeARegion_records, hki]
    · simp only [Storage.updateRecord, Storage.dataWrite_data, Storage.writeRecord_data,
        Storage.freeARegion_data, Storage.dataWrite_records, Storage.writeRecord_records,
        Storage.freeARegion_records, hki]
    · simp only [Storage.updateRecord, Storage.dataWrite_records, Storage.writeRecord_records,
        Storage.freeARegion_records, hki]
      rw [Records.get_of_recs_eq hrecs10 k, hgetk]; simp only [hki]

end AgdbStorage
