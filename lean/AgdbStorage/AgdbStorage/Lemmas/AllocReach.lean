import AgdbStorage.Lemmas.AllocRefine
import AgdbStorage.Lemmas.AllocEnlarge
import AgdbStorage.Lemmas.AllocShrink
import AgdbStorage.Lemmas.AllocInsert
import AgdbStorage.Lemmas.AllocOptimize
import AgdbStorage.Lemmas.AllocReopen
/-
All per-operation lemmas together; the invariant holds in every reachable state.
-/
namespace AgdbStorage

theorem allSpecs : AllSpecs :=
  ⟨enlargeValue_spec moveToEnd_spec, shrinkValue_spec, insertBytes_spec, optimize_spec, reopen_spec⟩

theorem Records.new_not_live (i : Nat) : ¬ Records.new.live i := by
  intro h
  have := Records.live_lt h
  simp only [Records.new, List.length_cons, List.length_nil] at this
  have hi : i = 0 := by omega
  exact h.1 hi

theorem SInv_create : SInv Storage.create := by
  have hr : Storage.create.records = Records.new := rfl
  have hd : Storage.create.data.length = 24 := by decide
  have hnb : ∀ i p z, ¬ Records.new.Blk i p z := by
    intro i p z h
    rcases h with h | h
    · exact Records.new_not_live i h.1
    · simp [Records.new] at h
  refine ⟨?_, ?_, ?_, ?_, ?_⟩
  · rw [hr]
    refine ⟨by simp [Records.new], ?_, ?_⟩
    · intro i hi _
      simp only [Records.new, List.length_cons, List.length_nil] at hi
      have : i = 0 := by omega
      subst this
      exact ⟨by show (default : SRec).index < 1; decide, Records.new_not_live _⟩
    · intro i j hi hj _ _ _ hne
      simp only [Records.new, List.length_cons, List.length_nil] at hi hj
      omega
  · rw [hr]; simp [Records.new, FSorted]
  · rw [hr, hd]
    exact ⟨Nat.le_refl _, fun i p z h => absurd h (hnb i p z),
      fun i p z _ _ _ h => absurd h (hnb i p z), fun y h1 h2 => by omega⟩
  · rw [hr]; intro i p z h; exact absurd h (hnb i p z)
  · decide

theorem ReachableF.inv {s : Storage} (h : ReachableF s) : SInv s := by
  induction h with
  | create => exact SInv_create
  | step s op _ hop ih => exact (stepOK allSpecs s ih op (fun e => (hop e).2)).inv

end AgdbStorage
