import AgdbStorage.Lemmas.AllocOptimize
import AgdbStorage.Lemmas.AllocTrace
/-
Well-formedness of the `StorageData` calls issued by `Storage::shrink_to_fit`
(`Storage.optimize`): every write of the loop lies inside the file (the file length never changes
in the loop), the final `truncate` cuts at `cur ≤ len < 2^64`.
-/
namespace AgdbStorage

/-- one loop step issues only in-file writes -/
theorem OInv.step_wf {s0 st : Storage} {cur : Nat} {x : SRec} {l : List SRec} {H : Nat → Prop}
    (h : OInv s0 st cur (x :: l) H) (hl : s0.data.length < 2 ^ 64) :
    WfStep st (st.shrinkIndex x cur).1 := by
  by_cases he : x.pos = cur
  · rw [Storage.shrinkIndex_eq st x cur he]
    exact WfStep.refl st
  · rw [Storage.shrinkIndex_ne st x cur he]
    obtain ⟨_, _, hcur, _, hle, _⟩ := h.head
    have hlen := h.len
    have hlt : cur < x.pos := by omega
    have hl1 : (writeAt st.data cur (le8 x.index ++ le8 x.size)).length = st.data.length := by
      rw [length_writeAt _ _ _ (by omega)]
      simp only [List.length_append, le8_length]
      omega
    have hbl : (readAt st.data (x.pos + 16) x.size).length = x.size := by
      rw [length_readAt]; omega
    refine WfStep.trans (s' := ({ st with records := st.records.setPos x.index cur } : Storage))
      (WfStep.of_eq rfl rfl) (WfStep.trans (WfStep.writeRecord _ _ ?_ ?_)
        (WfStep.dataWrite _ _ _ ?_ ?_))
    · left; show cur + 16 ≤ st.data.length; omega
    · show cur + 16 < 2 ^ 64; omega
    · left
      rw [hbl]
      show cur + 16 + x.size ≤ (writeAt st.data cur (le8 x.index ++ le8 x.size)).length
      rw [hl1]; omega
    · rw [hbl]; omega

/-- the whole loop issues only well-formed calls -/
theorem OInv.fold_wf {s0 : Storage} (hl : s0.data.length < 2 ^ 64) (l : List SRec) :
    ∀ (acc : Storage × Nat) (H : Nat → Prop), OInv s0 acc.1 acc.2 l H →
      WfStep acc.1
        (l.foldl (fun (acc : Storage × Nat) r => acc.1.shrinkIndex r acc.2) acc).1 := by
  induction l with
  | nil => intro acc H h; exact WfStep.refl _
  | cons x xs ih =>
    intro acc H h
    obtain ⟨H1, h1⟩ := h.step
    exact WfStep.trans (h.step_wf hl) (ih _ H1 h1)

theorem optimize_wf : OptimizeWf := by
  intro s hs hl
  have hs1 : SInv ({ s with txn := s.txn + 1 } : Storage) := hs
  have h0 := OInv.init _ hs1
  obtain ⟨H, h⟩ := OInv.fold s.records.validSorted
    (({ s with txn := s.txn + 1 } : Storage), 24) _ h0
  change OInv ({ s with txn := s.txn + 1 } : Storage) s.optimizeLoop.1 s.optimizeLoop.2 [] H at h
  have hw : WfStep ({ s with txn := s.txn + 1 } : Storage) s.optimizeLoop.1 :=
    OInv.fold_wf (s0 := ({ s with txn := s.txn + 1 } : Storage)) hl s.records.validSorted
      (({ s with txn := s.txn + 1 } : Storage), 24) _ h0
  have hlen : s.optimizeLoop.1.data.length = s.data.length := h.len
  have hcur := h.curle
  rw [Storage.optimize_eq]
  refine WfStep.trans (s' := ({ s with txn := s.txn + 1 } : Storage)) (WfStep.of_eq rfl rfl)
    (WfStep.trans hw (WfStep.trans
      (WfStep.truncate s.optimizeLoop.1 s.optimizeLoop.2 (by omega) (by omega))
      (WfStep.trans (s' := s.optimizeCore) (WfStep.of_eq rfl rfl) (WfStep.commit _ _))))

end AgdbStorage
