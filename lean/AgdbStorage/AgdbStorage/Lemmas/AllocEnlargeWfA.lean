import AgdbStorage.Lemmas.AllocEnlarge
import AgdbStorage.Lemmas.AllocTrace
/-
Well-formedness of the `StorageData` calls issued by `Storage::enlarge_value`: every write lies
inside the file or starts exactly at its end, and all offsets are `< 2^64`.
-/
namespace AgdbStorage

/-! ### `free_a_region` on a hole interval -/

/-- the header written by `free_a_region` lies inside the file -/
theorem Enlarge.freeRegion_pos_le {r : Records} {X H : Nat → Prop} {d : Bytes} {V : Nat → Bytes}
    (h : RG r X H d V) (hx0 : ¬ X 0) (a s : Nat) (hin : ∀ y, a ≤ y → y < a + 16 + s → H y) :
    (r.markFreeCompact a s).2.1 + 16 ≤ d.length := by
  have hd := h.fdisj hx0
  have hhole : Hole r.free a (a + 16 + s) := by
    intro x hx
    exact h.lay.block_hole (i := 0) ⟨Records.Blk_zero.mpr hx, hx0⟩ (by omega) hin
  obtain ⟨m, _⟩ := Records.markFreeCompact_spec r a s h.sorted hd hhole
  have h1 := m.le_p
  have h2 := h.lay.hbnd (a + 15) (hin _ (by omega) (by omega))
  omega

theorem Enlarge.wfStep_freeARegion {s : Storage} {X H : Nat → Prop} {V : Nat → Bytes}
    (h : RG s.records X H s.data V) (hx0 : ¬ X 0) (a z : Nat)
    (hin : ∀ y, a ≤ y → y < a + 16 + z → H y) (hlen : s.data.length < 2 ^ 64) :
    WfStep s (s.freeARegion a z) := by
  have hp := Enlarge.freeRegion_pos_le h hx0 a z hin
  have e : s.freeARegion a z =
      ({ s with records := (s.records.markFreeCompact a z).1 } : Storage).writeRecord
        ⟨0, (s.records.markFreeCompact a z).2.1, (s.records.markFreeCompact a z).2.2⟩ := rfl
  rw [e]
  exact WfStep.trans (WfStep.of_eq rfl rfl)
    (WfStep.writeRecord _ _ (Or.inl hp) (Nat.lt_of_le_of_lt hp hlen))

theorem Enlarge.freeARegion_length {s : Storage} {X H : Nat → Prop} {V : Nat → Bytes}
    (h : RG s.records X H s.data V) (hx0 : ¬ X 0) (a z : Nat)
    (hin : ∀ y, a ≤ y → y < a + 16 + z → H y) :
    (s.freeARegion a z).data.length = s.data.length :=
  Enlarge.freeRegion_length h hx0 a z hin

/-! ### branch 1 -/

theorem enlargeAtEnd_wf (s : Storage) (k n : Nat) (hs : SInv s) (hl : s.records.live k)
    (hlt : (s.records.get k).size < n)
    (hend : s.data.length = (s.records.get k).pos + 16 + (s.records.get k).size)
    (hb : s.data.length + n + 16 < 2 ^ 64) :
    WfStep s (s.enlargeAtEnd (s.records.get k) n).1 := by
  have hbnd := hs.lay.bnd k _ _ (Records.Blk_of_live hl)
  show WfStep s ((({ s with records := s.records.setSize (s.records.get k).index n } :
    Storage).dataWrite ((s.records.get k).pos + 8) (le8 n)).append
      (List.replicate (n - (s.records.get k).size) 0))
  refine WfStep.trans (WfStep.of_eq rfl rfl) (WfStep.trans
    (WfStep.dataWrite _ _ _ (Or.inl ?_) ?_) (WfStep.append _ _ ?_))
  · simp only [le8_length]; omega
  · simp only [le8_length]; omega
  · simp only [Storage.dataWrite_data, List.length_replicate]
    rw [length_writeAt _ _ _ (by omega)]
    simp only [le8_length]
    omega

end AgdbStorage
