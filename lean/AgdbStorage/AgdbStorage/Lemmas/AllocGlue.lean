import AgdbStorage.Lemmas.AllocSteps
/-
Glue between the `Storage` functions and the step lemmas: field projections of the primitive
`Storage` updates, byte-level helper lemmas, `abs` in terms of `live`/`val`, and the shape of the
per-operation results (`ResizeOK`).
-/
namespace AgdbStorage

/-! ### more byte lemmas -/

theorem readAt_writeAt_before (d bs : Bytes) (pos p n : Nat) (hp : pos ≤ d.length)
    (h : p + n ≤ pos) : readAt (writeAt d pos bs) p n = readAt d p n := by
  apply readAt_congr
  intro y _ h2
  rw [getElem?_writeAt d bs pos y hp, if_pos (by omega)]

theorem readAt_writeAt_after (d bs : Bytes) (pos p n : Nat) (hp : pos ≤ d.length)
    (h : pos + bs.length ≤ p) : readAt (writeAt d pos bs) p n = readAt d p n := by
  apply readAt_congr
  intro y h1 _
  rw [getElem?_writeAt d bs pos y hp, if_neg (by omega), if_neg (by omega)]

theorem readAt_writeAt_self (d bs : Bytes) (pos : Nat) (hp : pos ≤ d.length) :
    readAt (writeAt d pos bs) pos bs.length = bs := by
  apply readAt_eq_of_getElem? _ _ _ _ rfl
  intro k hk
  rw [getElem?_writeAt d bs pos _ hp, if_neg (by omega), if_pos (by omega)]
  congr 1; omega

theorem readAt_split (d : Bytes) (p n m : Nat) :
    readAt d p (n + m) = readAt d p n ++ readAt d (p + n) m := by
  simp only [readAt, List.take_add, List.drop_drop]

theorem readAt_zero (d : Bytes) (p : Nat) : readAt d p 0 = [] := by simp [readAt]

/-- overwriting the size field of a header -/
theorem hdr_update (d : Bytes) (p i z z' : Nat) (h : readAt d p 16 = le8 i ++ le8 z)
    (hl : p + 16 ≤ d.length) : readAt (writeAt d (p + 8) (le8 z')) p 16 = le8 i ++ le8 z' := by
  have h1 : readAt (writeAt d (p + 8) (le8 z')) p 8 = le8 i := by
    rw [readAt_writeAt_before d _ (p + 8) p 8 (by omega) (by omega)]
    have := congrArg (List.take 8) h
    rw [show (16 : Nat) = 8 + 8 from rfl, readAt_split] at this
    have hl8 : (readAt d p 8).length = 8 := by rw [length_readAt]; omega
    rw [List.take_left' hl8, List.take_left' (le8_length i)] at this
    exact this
  have h2 : readAt (writeAt d (p + 8) (le8 z')) (p + 8) 8 = le8 z' := by
    have := readAt_writeAt_self d (le8 z') (p + 8) (by omega)
    rwa [le8_length] at this
  rw [show (16 : Nat) = 8 + 8 from rfl, readAt_split, h1, h2]

/-! ### projections of the primitive `Storage` updates -/

@[simp] theorem Storage.dataWrite_records (s : Storage) (pos : Nat) (bs : Bytes) :
    (s.dataWrite pos bs).records = s.records := rfl
@[simp] theorem Storage.dataWrite_data (s : Storage) (pos : Nat) (bs : Bytes) :
    (s.dataWrite pos bs).data = writeAt s.data pos bs := rfl
@[simp] theorem Storage.dataWrite_txn (s : Storage) (pos : Nat) (bs : Bytes) :
    (s.dataWrite pos bs).txn = s.txn := rfl
@[simp] theorem Storage.writeRecord_records (s : Storage) (r : SRec) :
    (s.writeRecord r).records = s.records := rfl
@[simp] theorem Storage.writeRecord_data (s : Storage) (r : SRec) :
    (s.writeRecord r).data = writeAt s.data r.pos (le8 r.index ++ le8 r.size) := rfl
@[simp] theorem Storage.writeRecord_txn (s : Storage) (r : SRec) :
    (s.writeRecord r).txn = s.txn := rfl
@[simp] theorem Storage.append_records (s : Storage) (bs : Bytes) :
    (s.append bs).records = s.records := rfl
@[simp] theorem Storage.append_data (s : Storage) (bs : Bytes) :
    (s.append bs).data = writeAt s.data s.data.length bs := rfl
@[simp] theorem Storage.append_txn (s : Storage) (bs : Bytes) : (s.append bs).txn = s.txn := rfl

@[simp] theorem Storage.truncate_records (s : Storage) (n : Nat) :
    (s.truncate n).records = s.records := by unfold Storage.truncate; split <;> rfl
@[simp] theorem Storage.truncate_txn (s : Storage) (n : Nat) : (s.truncate n).txn = s.txn := by
  unfold Storage.truncate; split <;> rfl
theorem Storage.truncate_data (s : Storage) (n : Nat) (h : n ≤ s.data.length) :
    (s.truncate n).data = setLen s.data n := by
  unfold Storage.truncate Storage.len
  split
  · rfl
  · have : n = s.data.length := by omega
    rw [this, setLen_self]

@[simp] theorem Storage.freeARegion_records (s : Storage) (a z : Nat) :
    (s.freeARegion a z).records = (s.records.markFreeCompact a z).1 := rfl
@[simp] theorem Storage.freeARegion_data (s : Storage) (a z : Nat) :
    (s.freeARegion a z).data = writeAt s.data (s.records.markFreeCompact a z).2.1
      (le8 0 ++ le8 (s.records.markFreeCompact a z).2.2) := rfl
@[simp] theorem Storage.freeARegion_txn (s : Storage) (a z : Nat) :
    (s.freeARegion a z).txn = s.txn := rfl

theorem Storage.commit_ok (s : Storage) (id : Nat) (h : s.txn = id) :
    (s.commit id).2 = .ok () ∧ (s.commit id).1.records = s.records ∧
      (s.commit id).1.data = s.data ∧ (s.commit id).1.txn = s.txn - 1 := by
  unfold Storage.commit
  have : (s.txn != id) = false := by simp [h]
  rw [this]
  simp only [Bool.false_eq_true, ↓reduceIte]
  by_cases h0 : s.txn = 0
  · simp [h0]
  · have : (s.txn != 0) = true := by simp [h0]
    rw [this]
    simp only [↓reduceIte]
    split <;> simp [Storage.dataFlush]

theorem Storage.commit_err (s : Storage) (id : Nat) (h : s.txn ≠ id) :
    s.commit id = (s, .error .notAllowed) := by
  unfold Storage.commit
  have : (s.txn != id) = true := by simp [h]
  rw [this]; rfl

/-! ### table facts across free-map updates -/

@[simp] theorem Records.markFreeCompact_recs (r : Records) (a z : Nat) :
    (r.markFreeCompact a z).1.recs = r.recs := by unfold Records.markFreeCompact; rfl

@[simp] theorem Records.removeFree_recs (r : Records) (p : Nat) : (r.removeFree p).recs = r.recs := rfl

theorem Records.get_of_recs_eq {r r' : Records} (e : r'.recs = r.recs) (j : Nat) :
    r'.get j = r.get j := by simp [Records.get, e]

theorem Records.live_of_recs_eq {r r' : Records} (e : r'.recs = r.recs) (j : Nat) :
    r'.live j ↔ r.live j := by simp [Records.live, Records.get, e]

theorem Records.takeFree_some {r r' : Records} {n p z : Nat} (h : r.takeFree n = some (r', p, z)) :
    r' = r.removeFree p ∧ (p, z) ∈ r.free ∧ (z = n ∨ n + 16 ≤ z) := by
  unfold Records.takeFree at h
  cases hp : r.free.pick n with
  | none => rw [hp] at h; simp at h
  | some x =>
    obtain ⟨p', z'⟩ := x
    rw [hp] at h
    simp only [Option.some.injEq, Prod.mk.injEq] at h
    obtain ⟨e1, e2, e3⟩ := h
    subst e1 e2 e3
    exact ⟨rfl, FreeMap.pick_some _ _ _ _ hp⟩

theorem Records.takeFreeAfter_some {r r' : Records} {e m p z : Nat}
    (h : r.takeFreeAfter e m = some (r', p, z)) :
    r' = r.removeFree e ∧ p = e ∧ (e, z) ∈ r.free ∧ (16 + z = m ∨ m ≤ z) := by
  unfold Records.takeFreeAfter at h
  cases hp : r.free.lookup e with
  | none => rw [hp] at h; simp at h
  | some s =>
    rw [hp] at h
    simp only at h
    split at h
    · next hc =>
      simp only [Option.some.injEq, Prod.mk.injEq] at h
      obtain ⟨e1, e2, e3⟩ := h
      subst e1 e2 e3
      refine ⟨rfl, rfl, FreeMap.lookup_some _ _ _ hp, ?_⟩
      simpa [RECORD_SIZE] using hc
    · simp at h

/-- closes goals/hypotheses about hole predicates (`∨`, `∧`, `¬` of intervals, with `False`s) -/
macro "hole_omega" : tactic =>
  `(tactic| ((try simp only [false_or, or_false, false_and, and_false, not_false_eq_true, and_true,
      true_and, not_true_eq_false] at *); omega))

/-! ### `abs` -/

theorem Storage.abs_eq (s : Storage) (h : IdxInv s.records) (i : Nat) :
    s.abs i = if s.records.live i then some (s.val i) else none := by
  unfold Storage.abs Storage.value Storage.valueAt Storage.valueSize Storage.valueAtSize
  rw [Records.record_eq _ h]
  by_cases hl : s.records.live i
  · simp only [if_pos hl, Except.map, validateReadSize]
    simp [Storage.val, SRec.valueStart, RECORD_SIZE]
  · simp only [if_neg hl, Except.map]

theorem SInv.val_length {s : Storage} (h : SInv s) {i : Nat} (hl : s.records.live i) :
    (s.val i).length = (s.records.get i).size := by
  have := h.lay.bnd i _ _ (Records.Blk_of_live hl)
  simp only [Storage.val, length_readAt]
  omega

/-- The effect of `enlarge_value` / `shrink_value` / `move_to_end` on slot `k`. -/
structure ResizeOK (s s' : Storage) (k n : Nat) : Prop where
  inv : SInv s'
  live : ∀ j, s'.records.live j ↔ s.records.live j
  size : (s'.records.get k).size = n
  valk : s'.val k = (s.val k).take n ++ List.replicate (n - (s.val k).length) 0
  valo : ∀ j, j ≠ k → s.records.live j → s'.val j = s.val j
  txn : s'.txn = s.txn

/-- hole predicates are closed by `omega`-style reasoning after unfolding -/
theorem RG.elim' {s : Storage} {X H : Nat → Prop} {V : Nat → Bytes}
    (h : RG s.records X H s.data V) (hX : ∀ i, ¬ X i) (hH : ∀ y, ¬ H y) :
    SInv s ∧ ∀ j, s.records.live j → s.val j = V j := RG.elim h hX hH

end AgdbStorage
