import AgdbStorage.Lemmas.AllocMoveToEnd
/-
`Storage::shrink_value`.
-/
namespace AgdbStorage

theorem readAt_take (d : Bytes) (p z n : Nat) (h : n ≤ z) :
    (readAt d p z).take n = readAt d p n := by
  simp only [readAt, List.take_take, Nat.min_eq_left h]

theorem readAt_setLen_before (d : Bytes) (m p z : Nat) (hm : m ≤ d.length) (h : p + z ≤ m) :
    readAt (setLen d m) p z = readAt d p z := by
  apply readAt_congr
  intro y _ h2
  rw [getElem?_setLen d m y hm, if_pos (by omega)]

/-! ### the three branches of `shrink_value` -/

theorem Storage.shrinkValue_atEnd (s : Storage) (r : SRec) (n : Nat)
    (h : s.data.length = r.pos + 16 + r.size) :
    s.shrinkValue r n =
      ((({ s with records := s.records.setSize r.index n } : Storage).dataWrite (r.pos + 8)
        (le8 n)).truncate (r.pos + 16 + n), { r with size := n }) := by
  simp only [Storage.shrinkValue, Storage.isAtEnd, Storage.len, SRec.fin, RECORD_SIZE, h,
    beq_self_eq_true, ↓reduceIte]

theorem Storage.shrinkValue_inPlace (s : Storage) (r : SRec) (n : Nat)
    (h : s.data.length ≠ r.pos + 16 + r.size) (hz : 16 ≤ r.size - n) :
    s.shrinkValue r n =
      ((({ s with records := s.records.setSize r.index n } : Storage).dataWrite (r.pos + 8)
        (le8 n)).freeARegion (r.pos + 16 + n) (r.size - n - 16), { r with size := n }) := by
  have : ¬ (s.data.length == r.pos + 16 + r.size) = true := by simp [h]
  simp only [Storage.shrinkValue, Storage.isAtEnd, Storage.len, SRec.fin, RECORD_SIZE, this,
    Bool.false_eq_true, ↓reduceIte, ge_iff_le, hz]

theorem Storage.shrinkValue_move (s : Storage) (r : SRec) (n : Nat)
    (h : s.data.length ≠ r.pos + 16 + r.size) (hz : ¬ 16 ≤ r.size - n) :
    s.shrinkValue r n = s.moveToEnd r n := by
  have : ¬ (s.data.length == r.pos + 16 + r.size) = true := by simp [h]
  simp only [Storage.shrinkValue, Storage.isAtEnd, Storage.len, SRec.fin, RECORD_SIZE, this,
    Bool.false_eq_true, ↓reduceIte, ge_iff_le, hz]

/-! ### the common prefix: new size in the table and on disk; the tail of the block is a hole -/

theorem shrink_common (s : Storage) (k n : Nat) (hs : SInv s) (hl : s.records.live k)
    (hn : n < (s.records.get k).size) :
    RG (s.records.setSize k n) (fun _ => False)
      (fun y => (s.records.get k).pos + 16 + n ≤ y ∧
        y < (s.records.get k).pos + 16 + (s.records.get k).size)
      (writeAt s.data ((s.records.get k).pos + 8) (le8 n))
      (fun j => if j = k then (s.val k).take n else s.val j) := by
  have hklt := Records.live_lt hl
  have hbnd := hs.lay.bnd k _ _ (Records.Blk_of_live hl)
  have hhdr := hs.hdr k _ _ (Records.Blk_of_live hl)
  have G0 := RG.intro hs
  have G1 := G0.suspend k hl (fun h => h)
  have hget : ∀ j, (s.records.setSize k n).get j =
      if j = k then ⟨k, (s.records.get k).pos, n⟩ else s.records.get j := by
    intro j
    rw [Records.setSize_get _ k n j hklt]
    by_cases hj : j = k
    · simp only [hj, if_true, hl.2]
    · simp only [hj, if_false]
  have hgk := hget k
  rw [if_pos rfl] at hgk
  have G2 := G1.modify (r' := s.records.setSize k n) (by simp)
    (IdxInv.congr hs.idx (by simp) (fun j => Records.setSize_index _ _ _ _))
    (fun j _ hx => by rw [hget, if_neg (fun e => hx (Or.inr e))])
  have G3 := G2.write ((s.records.get k).pos + 8) (le8 n) (by omega)
    (fun y h1 h2 _ => Or.inr ⟨by omega, by rw [le8_length] at h2; omega⟩)
  have G4 := G3.congrV
    (V' := fun j => if j = k then (s.val k).take n else s.val j)
    (fun j _ hx => by
      have : j ≠ k := fun e => hx (Or.inr e)
      simp only [this, if_false]; rfl)
  have hlive : (s.records.setSize k n).live k :=
    (Records.live_congr (fun j => Records.setSize_index _ _ _ _) k).mpr hl
  have G5 := G4.resume k hlive
    (by rw [hgk]; intro y h1 h2; simp only at h1 h2; exact Or.inl (Or.inr ⟨h1, by omega⟩))
    (by
      rw [hgk]
      exact hdr_update s.data _ k _ n hhdr (by omega))
    (by
      rw [hgk]
      show readAt _ ((s.records.get k).pos + 16) n = _
      simp only [if_true]
      rw [readAt_writeAt_after _ _ _ _ _ (by omega) (by rw [le8_length]; omega)]
      unfold Storage.val
      rw [readAt_take _ _ _ _ (Nat.le_of_lt hn)])
  refine G5.congr (fun j => ?_) (fun y => ?_)
  · constructor
    · intro h; exact h.elim
    · intro h; exact h.2 (h.1.resolve_left (fun f => f))
  · rw [hgk]
    simp only [le8_length, false_or]
    constructor <;> intro h <;> omega

theorem shrinkValue_spec : ShrinkSpec := by
  intro s k n hs hl hn
  have hklt := Records.live_lt hl
  have hbnd := hs.lay.bnd k _ _ (Records.Blk_of_live hl)
  have hvl := hs.val_length hl
  have hv0 : n - (s.val k).length = 0 := by omega
  have hget : ∀ j, (s.records.setSize k n).get j =
      if j = k then ⟨k, (s.records.get k).pos, n⟩ else s.records.get j := by
    intro j
    rw [Records.setSize_get _ k n j hklt]
    by_cases hj : j = k
    · simp only [hj, if_true, hl.2]
    · simp only [hj, if_false]
  have hgk := hget k
  rw [if_pos rfl] at hgk
  have hlive : ∀ j, (s.records.setSize k n).live j ↔ s.records.live j :=
    Records.live_congr (fun j => Records.setSize_index _ _ _ _)
  have hlen1 : (writeAt s.data ((s.records.get k).pos + 8) (le8 n)).length = s.data.length := by
    rw [length_writeAt _ _ _ (by omega), le8_length]; omega
  have G := shrink_common s k n hs hl hn
  by_cases hend : s.data.length = (s.records.get k).pos + 16 + (s.records.get k).size
  · -- last block of the file: cut the tail off
    rw [Storage.shrinkValue_atEnd s _ n hend, hl.2]
    have G1 := G.truncate ((s.records.get k).pos + 16 + n) (by omega) (by omega)
      (fun y h1 h2 => ⟨h1, by omega⟩)
    generalize hs' : (({ s with records := s.records.setSize k n } : Storage).dataWrite
      ((s.records.get k).pos + 8) (le8 n)).truncate ((s.records.get k).pos + 16 + n) = s'
    have hr : s'.records = s.records.setSize k n := by rw [← hs']; simp
    have hd : s'.data = setLen (writeAt s.data ((s.records.get k).pos + 8) (le8 n))
        ((s.records.get k).pos + 16 + n) := by
      rw [← hs', Storage.truncate_data _ _ (by simp only [Storage.dataWrite_data]; omega)]
      rfl
    have htxn : s'.txn = s.txn := by rw [← hs']; simp
    rw [← hd, ← hr] at G1
    rw [← hr] at hgk hlive
    obtain ⟨i1, i2⟩ := RG.elim' G1 (fun _ h => h) (fun y h => by omega)
    refine ⟨⟨i1, hlive, by rw [hgk], ?_, ?_, htxn⟩, hgk.symm⟩
    · rw [i2 k ((hlive k).mpr hl), hv0]; simp
    · intro j hj hjl
      rw [i2 j ((hlive j).mpr hjl)]; simp [hj]
  · by_cases hz : 16 ≤ (s.records.get k).size - n
    · -- shrink in place, the tail becomes a free region
      rw [Storage.shrinkValue_inPlace s _ n hend hz, hl.2]
      have G1 := G.freeRegion (fun h => h) ((s.records.get k).pos + 16 + n)
        ((s.records.get k).size - n - 16) (fun y h1 h2 => ⟨h1, by omega⟩)
      generalize hs' : (({ s with records := s.records.setSize k n } : Storage).dataWrite
        ((s.records.get k).pos + 8) (le8 n)).freeARegion ((s.records.get k).pos + 16 + n)
        ((s.records.get k).size - n - 16) = s'
      have hr : s'.records = ((s.records.setSize k n).markFreeCompact
          ((s.records.get k).pos + 16 + n) ((s.records.get k).size - n - 16)).1 := by
        rw [← hs']; rfl
      have hd : s'.data = writeAt (writeAt s.data ((s.records.get k).pos + 8) (le8 n))
          ((s.records.setSize k n).markFreeCompact
            ((s.records.get k).pos + 16 + n) ((s.records.get k).size - n - 16)).2.1
          (le8 0 ++ le8 ((s.records.setSize k n).markFreeCompact
            ((s.records.get k).pos + 16 + n) ((s.records.get k).size - n - 16)).2.2) := by
        rw [← hs']; rfl
      have htxn : s'.txn = s.txn := by rw [← hs']; rfl
      have hrecs : s'.records.recs = (s.records.setSize k n).recs := by
        rw [hr]; exact Records.markFreeCompact_recs _ _ _
      rw [← hd, ← hr] at G1
      rw [← Records.get_of_recs_eq hrecs k] at hgk
      have hlive' : ∀ j, s'.records.live j ↔ s.records.live j := fun j =>
        (Records.live_of_recs_eq hrecs j).trans (hlive j)
      obtain ⟨i1, i2⟩ := RG.elim' G1 (fun _ h => h) (fun y h => by omega)
      refine ⟨⟨i1, hlive', by rw [hgk], ?_, ?_, htxn⟩, hgk.symm⟩
      · rw [i2 k ((hlive' k).mpr hl), hv0]; simp
      · intro j hj hjl
        rw [i2 j ((hlive' j).mpr hjl)]; simp [hj]
    · rw [Storage.shrinkValue_move s _ n hend hz]
      exact moveToEnd_spec s k n hs hl hend

end AgdbStorage
