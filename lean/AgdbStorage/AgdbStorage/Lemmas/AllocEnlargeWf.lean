import AgdbStorage.Lemmas.AllocEnlargeWfA
import AgdbStorage.Lemmas.AllocEnlargeWfB
import AgdbStorage.Lemmas.AllocEnlargeWfC
/-
Well-formedness of the `StorageData` calls issued by `Storage::enlarge_value`: dispatch over the
four branches (`enlargeAtEnd_wf`, `enlargeInPlace_wf`, `enlargeMoveTo_wf`, and `MoveToEndWf`).
-/
namespace AgdbStorage

theorem enlargeValue_wf (hm : MoveToEndWf) : EnlargeWf := by
  intro s k n hs hl hlt hb
  unfold Storage.enlargeValue
  by_cases hend : s.data.length = (s.records.get k).pos + 16 + (s.records.get k).size
  · have h0 : s.isAtEnd (s.records.get k) = true := by
      simp [Storage.isAtEnd, Storage.len, SRec.fin, RECORD_SIZE, hend]
    rw [if_pos h0]
    exact enlargeAtEnd_wf s k n hs hl hlt hend hb
  · have h0 : ¬ s.isAtEnd (s.records.get k) = true := by
      simp [Storage.isAtEnd, Storage.len, SRec.fin, RECORD_SIZE, hend]
    rw [if_neg h0]
    cases h1 : s.records.takeFreeAfter (s.records.get k).fin (n - (s.records.get k).size) with
    | some x =>
      obtain ⟨recs, p, fsz⟩ := x
      obtain ⟨e1, _, e3, e4⟩ := Records.takeFreeAfter_some h1
      subst e1
      exact enlargeInPlace_wf s k n fsz _ hs hl hlt (by simp only [SRec.fin, RECORD_SIZE]) e3 e4
        (by omega)
    | none =>
      cases h2 : s.records.takeFree n with
      | some x =>
        obtain ⟨recs, fp, fsz⟩ := x
        obtain ⟨e1, e2, e3⟩ := Records.takeFree_some h2
        subst e1
        exact enlargeMoveTo_wf s k n fp fsz hs hl hlt e2 e3 (by omega)
      | none => exact hm s k n hs hl hb

end AgdbStorage
