import AgdbStorage.Lemmas.AllocOptimizeB
/-
`Storage::shrink_to_fit` (`Storage.optimize`): the wrapper `begin … commit` around the loop of
`AllocOptimizeB.lean`, and the length formula.
-/
namespace AgdbStorage

/-- the state after the loop, before `truncate` -/
def Storage.optimizeLoop (s : Storage) : Storage × Nat :=
  s.records.validSorted.foldl (fun (acc : Storage × Nat) r => acc.1.shrinkIndex r acc.2)
    (({ s with txn := s.txn + 1 } : Storage), 24)

/-- the state handed to `commit` -/
def Storage.optimizeCore (s : Storage) : Storage :=
  { s.optimizeLoop.1.truncate s.optimizeLoop.2 with
    records := { (s.optimizeLoop.1.truncate s.optimizeLoop.2).records with free := [] } }

theorem Storage.optimize_eq (s : Storage) : s.optimize = s.optimizeCore.commit (s.txn + 1) := rfl

theorem optimize_spec : OptimizeSpec := by
  intro s hs
  have hs1 : SInv ({ s with txn := s.txn + 1 } : Storage) := hs
  obtain ⟨H, h⟩ := OInv.fold s.records.validSorted
    (({ s with txn := s.txn + 1 } : Storage), 24) _ (OInv.init _ hs1)
  change OInv ({ s with txn := s.txn + 1 } : Storage) s.optimizeLoop.1 s.optimizeLoop.2 [] H at h
  have hcur : s.optimizeLoop.2 =
      24 + ((s.records.recs.filter s.records.isValid).map fun x => 16 + x.size).sum := by
    rw [← Records.validSorted_sum]
    exact shrink_fold_cur s.records.validSorted _
  generalize hst : s.optimizeLoop.1 = st at h
  generalize hc : s.optimizeLoop.2 = cur at h hcur
  obtain ⟨hinv, hvals⟩ := h.finish
  -- the state handed to `commit`
  have hr4 : s.optimizeCore.records = { st.records with free := [] } := by
    show ({ (s.optimizeLoop.1.truncate s.optimizeLoop.2).records with free := [] } : Records) = _
    rw [Storage.truncate_records, hst]
  have hd4 : s.optimizeCore.data = setLen st.data cur := by
    show (s.optimizeLoop.1.truncate s.optimizeLoop.2).data = _
    rw [hst, hc, Storage.truncate_data _ _ h.curle]
  have ht4 : s.optimizeCore.txn = s.txn + 1 := by
    show (s.optimizeLoop.1.truncate s.optimizeLoop.2).txn = _
    rw [Storage.truncate_txn, hst]; exact h.txn
  obtain ⟨c1, c2, c3, c4⟩ := Storage.commit_ok s.optimizeCore (s.txn + 1) ht4
  rw [← Storage.optimize_eq] at c1 c2 c3 c4
  rw [hr4] at c2
  rw [hd4] at c3
  rw [ht4] at c4
  have hlive : ∀ j, (s.optimize).1.records.live j ↔ s.records.live j := by
    intro j
    rw [c2]
    exact (Records.live_of_recs_eq (r := st.records) rfl j).trans (Records.live_congr h.idx j)
  refine ⟨c1, ?_, hlive, ?_, by rw [c4]; omega, by rw [c2], ?_⟩
  · show RInv (s.optimize).1.records (s.optimize).1.data
    rw [c2, c3]; exact hinv
  · intro j hj
    have hj' : st.records.live j := (Records.live_congr h.idx j).mpr hj
    show readAt (s.optimize).1.data (((s.optimize).1.records.get j).pos + 16)
      ((s.optimize).1.records.get j).size = s.val j
    rw [c2, c3]
    exact hvals j hj'
  · show (s.optimize).1.data.length = _
    rw [c3, c2, length_setLen, hcur]
    congr 1
    congr 1
    exact (Records.valid_sizes_congr (r := s.records) (r' := { st.records with free := [] })
      (fun x => 16 + x.size) (fun p => 16 + p.2) (fun _ => rfl) h.sizes h.idx).symm

end AgdbStorage
