import AgdbStorage.Lemmas.AllocDefs
/-
The free-region map (`free_pos_size`): `insert`, `remove`, `lookup`, `prev`, `pick`, and the
coalescing loops of `mark_free_compact`.
-/
namespace AgdbStorage

/-! ### basic map operations -/

theorem FreeMap.mem_remove (f : FreeMap) (p : Nat) (x : Nat × Nat) :
    x ∈ f.remove p ↔ x ∈ f ∧ x.1 ≠ p := by
  simp [FreeMap.remove]

theorem FreeMap.sorted_remove (f : FreeMap) (p : Nat) (h : FSorted f) : FSorted (f.remove p) :=
  List.Pairwise.filter _ h

theorem FreeMap.mem_insert (f : FreeMap) (p s : Nat) (h : FSorted f) (x : Nat × Nat) :
    x ∈ f.insert p s ↔ x = (p, s) ∨ (x ∈ f ∧ x.1 ≠ p) := by
  induction f with
  | nil => simp [FreeMap.insert]
  | cons y rest ih =>
    obtain ⟨q, t⟩ := y
    have hs := List.pairwise_cons.mp h
    unfold FreeMap.insert
    by_cases h1 : p < q
    · rw [if_pos h1]
      simp only [List.mem_cons]
      constructor
      · rintro (e | e | e)
        · exact Or.inl e
        · right; subst e; exact ⟨Or.inl rfl, by simp; omega⟩
        · right; have := hs.1 x e; simp at this; exact ⟨Or.inr e, by omega⟩
      · rintro (e | ⟨e | e, _⟩)
        · exact Or.inl e
        · exact Or.inr (Or.inl e)
        · exact Or.inr (Or.inr e)
    · rw [if_neg h1]
      by_cases h2 : p = q
      · subst h2
        simp only [beq_self_eq_true, ↓reduceIte, List.mem_cons]
        constructor
        · rintro (e | e)
          · exact Or.inl e
          · right; have := hs.1 x e; simp at this; exact ⟨Or.inr e, by omega⟩
        · rintro (e | ⟨e | e, hne⟩)
          · exact Or.inl e
          · subst e; simp at hne
          · exact Or.inr e
      · have : (p == q) = false := by simp [h2]
        rw [this]
        simp only [Bool.false_eq_true, ↓reduceIte, List.mem_cons]
        rw [ih hs.2]
        constructor
        · rintro (e | e | ⟨e, hne⟩)
          · subst e; exact Or.inr ⟨Or.inl rfl, by simp; omega⟩
          · exact Or.inl e
          · exact Or.inr ⟨Or.inr e, hne⟩
        · rintro (e | ⟨e | e, hne⟩)
          · exact Or.inr (Or.inl e)
          · exact Or.inl e
          · exact Or.inr (Or.inr ⟨e, hne⟩)

theorem FreeMap.sorted_insert (f : FreeMap) (p s : Nat) (h : FSorted f) : FSorted (f.insert p s) := by
  induction f with
  | nil => simp [FreeMap.insert, FSorted]
  | cons y rest ih =>
    obtain ⟨q, t⟩ := y
    have hs := List.pairwise_cons.mp h
    unfold FreeMap.insert
    by_cases h1 : p < q
    · rw [if_pos h1]
      apply List.pairwise_cons.mpr
      refine ⟨?_, h⟩
      intro x hx
      simp only [List.mem_cons] at hx
      rcases hx with e | e
      · subst e; exact h1
      · have := hs.1 x e; simp at this ⊢; omega
    · rw [if_neg h1]
      by_cases h2 : p = q
      · subst h2
        simp only [beq_self_eq_true, ↓reduceIte]
        apply List.pairwise_cons.mpr
        exact ⟨fun x hx => hs.1 x hx, hs.2⟩
      · have : (p == q) = false := by simp [h2]
        rw [this]
        simp only [Bool.false_eq_true, ↓reduceIte]
        apply List.pairwise_cons.mpr
        refine ⟨?_, ih hs.2⟩
        intro x hx
        rw [FreeMap.mem_insert rest p s hs.2] at hx
        rcases hx with e | ⟨e, _⟩
        · subst e; simp; omega
        · exact hs.1 x e

theorem FreeMap.lookup_some (f : FreeMap) (p s : Nat) (h : f.lookup p = some s) : (p, s) ∈ f := by
  unfold FreeMap.lookup at h
  cases hf : f.find? (fun e => e.1 == p) with
  | none => rw [hf] at h; simp at h
  | some x =>
    rw [hf] at h
    simp only [Option.map_some, Option.some.injEq] at h
    have h1 := List.find?_some hf
    have h2 := List.mem_of_find?_eq_some hf
    simp only [beq_iff_eq] at h1
    obtain ⟨a, b⟩ := x
    simp only at h1 h
    subst h1; subst h
    exact h2

theorem FreeMap.prev_some (f : FreeMap) (p : Nat) (x : Nat × Nat) (h : f.prev p = some x) :
    x ∈ f ∧ x.1 < p := by
  unfold FreeMap.prev at h
  have := List.mem_of_getLast? h
  simpa using this

theorem pick_fold_mem (l : List (Nat × Nat)) (init : Option (Nat × Nat)) (x : Nat × Nat)
    (h : l.foldl (fun best e =>
      match best with
      | none => some e
      | some b => if e.2 < b.2 || (e.2 == b.2 && e.1 < b.1) then some e else some b) init = some x) :
    x ∈ l ∨ init = some x := by
  induction l generalizing init with
  | nil => right; simpa using h
  | cons y ys ih =>
    simp only [List.foldl_cons] at h
    rcases ih _ h with e | e
    · left; exact List.mem_cons_of_mem _ e
    · cases init with
      | none => simp at e; left; simp [e]
      | some b =>
        simp only at e
        split at e
        · simp at e; left; simp [e]
        · right; exact e

theorem FreeMap.pick_some (f : FreeMap) (min p s : Nat) (h : f.pick min = some (p, s)) :
    (p, s) ∈ f ∧ (s = min ∨ min + 16 ≤ s) := by
  unfold FreeMap.pick at h
  rcases pick_fold_mem _ _ _ h with e | e
  · simpa [RECORD_SIZE] using e
  · simp at e

/-! ### coalescing -/

/-- free regions are pairwise disjoint -/
def FDisj (f : FreeMap) : Prop :=
  ∀ x ∈ f, ∀ y ∈ f, x = y ∨ x.1 + 16 + x.2 ≤ y.1 ∨ y.1 + 16 + y.2 ≤ x.1

/-- `[a, e)` meets no free region -/
def Hole (f : FreeMap) (a e : Nat) : Prop := ∀ x ∈ f, x.1 + 16 + x.2 ≤ a ∨ e ≤ x.1

/-- The hole `[a, e)` has been grown to `[a', e')` by swallowing adjacent free regions of `F`,
leaving `F'`. -/
structure MergeSpec (F F' : FreeMap) (a e a' e' : Nat) : Prop where
  le_a : a' ≤ a
  le_e : e ≤ e'
  mem : ∀ x, x ∈ F' ↔ x ∈ F ∧ (x.1 + 16 + x.2 ≤ a' ∨ e' ≤ x.1)
  inside : ∀ x ∈ F, (x.1 + 16 + x.2 ≤ a' ∨ e' ≤ x.1) ∨ (a' ≤ x.1 ∧ x.1 + 16 + x.2 ≤ e')
  sep : ∀ u v, u < v → (v ≤ a ∨ e ≤ u) → (∀ x ∈ F, v ≤ x.1 ∨ x.1 + 16 + x.2 ≤ u) →
    (v ≤ a' ∨ e' ≤ u)
  sorted : FSorted F'

theorem MergeSpec.refl (F : FreeMap) (a e : Nat) (hs : FSorted F) (hh : Hole F a e) :
    MergeSpec F F a e a e :=
  ⟨Nat.le_refl _, Nat.le_refl _, fun x => ⟨fun h => ⟨h, hh x h⟩, fun h => h.1⟩,
    fun x hx => Or.inl (hh x hx), fun _ _ _ h _ => h, hs⟩

theorem MergeSpec.trans {F F1 F2 : FreeMap} {a e a1 e1 a2 e2 : Nat}
    (h1 : MergeSpec F F1 a e a1 e1) (h2 : MergeSpec F1 F2 a1 e1 a2 e2) :
    MergeSpec F F2 a e a2 e2 := by
  have la := h1.le_a; have le := h1.le_e; have la2 := h2.le_a; have le2 := h2.le_e
  refine ⟨by omega, by omega, ?_, ?_, ?_, h2.sorted⟩
  · intro x
    rw [h2.mem, h1.mem]
    constructor
    · rintro ⟨⟨hx, _⟩, ho⟩; exact ⟨hx, ho⟩
    · rintro ⟨hx, ho⟩; exact ⟨⟨hx, by omega⟩, ho⟩
  · intro x hx
    rcases h1.inside x hx with ho | hi
    · exact h2.inside x ((h1.mem x).mpr ⟨hx, ho⟩)
    · right; omega
  · intro u v huv hd hF
    have := h1.sep u v huv hd hF
    exact h2.sep u v huv this (fun x hx => hF x ((h1.mem x).mp hx).1)

theorem MergeSpec.hole {F F' : FreeMap} {a e a' e' : Nat} (h : MergeSpec F F' a e a' e') :
    Hole F' a' e' := fun x hx => ((h.mem x).mp hx).2

theorem MergeSpec.disj {F F' : FreeMap} {a e a' e' : Nat} (h : MergeSpec F F' a e a' e')
    (hd : FDisj F) : FDisj F' :=
  fun x hx y hy => hd x ((h.mem x).mp hx).1 y ((h.mem y).mp hy).1

/-- swallowing the free region that starts exactly at `e` -/
theorem mergeSpec_next (F : FreeMap) (a e ns : Nat) (hs : FSorted F) (hd : FDisj F)
    (hh : Hole F a e) (hae : a < e) (hm : (e, ns) ∈ F) :
    MergeSpec F (F.remove e) a e a (e + 16 + ns) := by
  refine ⟨Nat.le_refl _, by omega, ?_, ?_, ?_, FreeMap.sorted_remove F e hs⟩
  · intro x
    rw [FreeMap.mem_remove]
    constructor
    · rintro ⟨hx, hne⟩
      refine ⟨hx, ?_⟩
      have h1 := hh x hx
      have h2 := hd x hx _ hm
      rcases h2 with h2 | h2 | h2
      · subst h2; simp at hne
      · simp only at h2; omega
      · simp only at h2; omega
    · rintro ⟨hx, ho⟩
      exact ⟨hx, by omega⟩
  · intro x hx
    have h1 := hh x hx
    have h2 := hd x hx _ hm
    rcases h2 with h2 | h2 | h2
    · subst h2; right; simp only; omega
    · simp only at h2; omega
    · simp only at h2; omega
  · intro u v huv hd' hF
    have := hF _ hm
    simp only at this
    omega

/-- swallowing a free region that ends exactly at `a` -/
theorem mergeSpec_prev (F : FreeMap) (a e pp ps : Nat) (hs : FSorted F) (hd : FDisj F)
    (hh : Hole F a e) (hae : a < e) (hm : (pp, ps) ∈ F) (hadj : pp + 16 + ps = a) :
    MergeSpec F (F.remove pp) a e pp e := by
  refine ⟨by omega, Nat.le_refl _, ?_, ?_, ?_, FreeMap.sorted_remove F pp hs⟩
  · intro x
    rw [FreeMap.mem_remove]
    constructor
    · rintro ⟨hx, hne⟩
      refine ⟨hx, ?_⟩
      have h1 := hh x hx
      have h2 := hd x hx _ hm
      rcases h2 with h2 | h2 | h2
      · subst h2; simp at hne
      · simp only at h2; omega
      · simp only at h2; omega
    · rintro ⟨hx, ho⟩
      exact ⟨hx, by omega⟩
  · intro x hx
    have h1 := hh x hx
    have h2 := hd x hx _ hm
    rcases h2 with h2 | h2 | h2
    · subst h2; right; simp only; omega
    · simp only at h2; omega
    · simp only at h2; omega
  · intro u v huv hd' hF
    have := hF _ hm
    simp only at this
    omega

theorem mergeNext_spec : ∀ (fuel : Nat) (F : FreeMap) (a e : Nat), FSorted F → FDisj F →
    Hole F a e → a < e →
    MergeSpec F (mergeNext fuel F e).1 a e a (mergeNext fuel F e).2
  | 0, F, a, e, hs, _, hh, _ => MergeSpec.refl F a e hs hh
  | fuel + 1, F, a, e, hs, hd, hh, hae => by
    unfold mergeNext
    cases hl : F.lookup e with
    | none => exact MergeSpec.refl F a e hs hh
    | some ns =>
      simp only [RECORD_SIZE]
      have hm := FreeMap.lookup_some F e ns hl
      have h1 := mergeSpec_next F a e ns hs hd hh hae hm
      have h2 := mergeNext_spec fuel (F.remove e) a (e + 16 + ns) h1.sorted (h1.disj hd) h1.hole
        (by omega)
      exact h1.trans h2

theorem mergePrev_spec : ∀ (fuel : Nat) (F : FreeMap) (a e : Nat), FSorted F → FDisj F →
    Hole F a e → a < e →
    MergeSpec F (mergePrev fuel F a).1 a e (mergePrev fuel F a).2 e
  | 0, F, a, e, hs, _, hh, _ => MergeSpec.refl F a e hs hh
  | fuel + 1, F, a, e, hs, hd, hh, hae => by
    unfold mergePrev
    cases hl : F.prev a with
    | none => exact MergeSpec.refl F a e hs hh
    | some x =>
      obtain ⟨pp, ps⟩ := x
      simp only []
      split
      · next hb =>
        have hadj : pp + 16 + ps = a := by simpa [RECORD_SIZE] using hb
        have hm := (FreeMap.prev_some F a _ hl).1
        have h1 := mergeSpec_prev F a e pp ps hs hd hh hae hm hadj
        have h2 := mergePrev_spec fuel (F.remove pp) pp e h1.sorted (h1.disj hd) h1.hole (by omega)
        exact h1.trans h2
      · exact MergeSpec.refl F a e hs hh

/-- Specification of `mark_free_compact pos size` on a free map whose regions are disjoint and do
not meet `[pos, pos+16+size)`: the result contains one region `(p, sz)` ⊇ the freed range, made of
it and of adjacent former free regions; all other regions are kept. -/
structure MFC (F : FreeMap) (pos size : Nat) (F' : FreeMap) (p sz : Nat) : Prop where
  le_p : p ≤ pos
  le_e : pos + 16 + size ≤ p + 16 + sz
  mem : ∀ x, x ∈ F' ↔ x = (p, sz) ∨ (x ∈ F ∧ (x.1 + 16 + x.2 ≤ p ∨ p + 16 + sz ≤ x.1))
  inside : ∀ x ∈ F, (x.1 + 16 + x.2 ≤ p ∨ p + 16 + sz ≤ x.1) ∨ (p ≤ x.1 ∧ x.1 + 16 + x.2 ≤ p + 16 + sz)
  sep : ∀ u v, u < v → (v ≤ pos ∨ pos + 16 + size ≤ u) → (∀ x ∈ F, v ≤ x.1 ∨ x.1 + 16 + x.2 ≤ u) →
    (v ≤ p ∨ p + 16 + sz ≤ u)
  sorted : FSorted F'

theorem Records.markFreeCompact_spec (r : Records) (pos size : Nat) (hs : FSorted r.free)
    (hd : FDisj r.free) (hh : Hole r.free pos (pos + 16 + size)) :
    MFC r.free pos size (r.markFreeCompact pos size).1.free (r.markFreeCompact pos size).2.1
      (r.markFreeCompact pos size).2.2 ∧
    (r.markFreeCompact pos size).1.recs = r.recs := by
  unfold Records.markFreeCompact
  simp only [RECORD_SIZE]
  have h1 := mergeNext_spec (r.free.length + 1) r.free pos (pos + 16 + size) hs hd hh (by omega)
  generalize mergeNext (r.free.length + 1) r.free (pos + 16 + size) = m1 at h1
  obtain ⟨f1, e⟩ := m1
  simp only at h1 ⊢
  have h2 := mergePrev_spec (f1.length + 1) f1 pos e h1.sorted (h1.disj hd) h1.hole
    (by have := h1.le_e; omega)
  generalize mergePrev (f1.length + 1) f1 pos = m2 at h2
  obtain ⟨f2, p⟩ := m2
  simp only at h2 ⊢
  have h := h1.trans h2
  have hle := h.le_a
  have hle2 := h.le_e
  have he : p + 16 + (e - p - 16) = e := by omega
  refine ⟨⟨hle, by omega, ?_, ?_, ?_, FreeMap.sorted_insert f2 p _ h.sorted⟩, trivial⟩
  · intro x
    rw [FreeMap.mem_insert f2 p _ h.sorted, h.mem, he]
    constructor
    · rintro (hx | ⟨hx, _⟩)
      · exact Or.inl hx
      · exact Or.inr hx
    · rintro (hx | hx)
      · exact Or.inl hx
      · exact Or.inr ⟨hx, by omega⟩
  · intro x hx
    rw [he]
    exact h.inside x hx
  · intro u v huv hd' hF
    rw [he]
    exact h.sep u v huv hd' hF

end AgdbStorage
