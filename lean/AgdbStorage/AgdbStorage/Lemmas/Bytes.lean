import AgdbStorage.Model.Bytes
namespace AgdbStorage

@[simp] theorem le8_length (n : Nat) : (le8 n).length = 8 := by simp [le8]

theorem unle8_le8_append (n : Nat) (h : n < 2 ^ 64) (r : Bytes) : unle8 (le8 n ++ r) = n := by
  simp [le8, unle8, UInt8.toNat_ofNat']
  omega

theorem unle8_le8 (n : Nat) (h : n < 2 ^ 64) : unle8 (le8 n) = n := by
  have := unle8_le8_append n h []
  simpa using this

/-- The file as prefix ++ region ++ suffix. -/
theorem split3 (d : Bytes) (pos n : Nat) :
    d = d.take pos ++ readAt d pos n ++ d.drop (pos + n) := by
  simp only [readAt]
  rw [List.append_assoc, ← List.drop_drop, List.take_append_drop, List.take_append_drop]

theorem writeAt_mid (a m c bs : Bytes) (h : bs.length = m.length) :
    writeAt (a ++ m ++ c) a.length bs = a ++ bs ++ c := by
  simp [writeAt, h, List.take_append, List.drop_append]

theorem writeAt_end (a bs : Bytes) : writeAt a a.length bs = a ++ bs := by
  simp [writeAt]

theorem setLen_prefix (a b : Bytes) : setLen (a ++ b) a.length = a := by
  simp [setLen]

theorem setLen_self (a : Bytes) : setLen a a.length = a := by
  simp [setLen]

theorem setLen_grow (a : Bytes) (n : Nat) (h : a.length ≤ n) :
    setLen a n = a ++ List.replicate (n - a.length) 0 := by
  simp [setLen, List.take_of_length_le h]

theorem readAt_length (d : Bytes) (pos n : Nat) (h : pos + n ≤ d.length) :
    (readAt d pos n).length = n := by
  simp [readAt]; omega

end AgdbStorage

namespace AgdbStorage

/-- Undo of an in-range overwrite that may have been torn after `bs'.length ≤ m.length` bytes. -/
theorem writeAt_undo_mid (a m c bs' : Bytes) (h : bs'.length ≤ m.length) :
    writeAt (writeAt (a ++ m ++ c) a.length bs') a.length m = a ++ m ++ c := by
  have hm : m = m.take bs'.length ++ m.drop bs'.length := (List.take_append_drop _ _).symm
  have h1 : writeAt (a ++ m ++ c) a.length bs' = a ++ (bs' ++ m.drop bs'.length) ++ c := by
    have : a ++ m ++ c = a ++ m.take bs'.length ++ (m.drop bs'.length ++ c) := by
      rw [List.append_assoc a, List.append_assoc a, ← List.append_assoc (List.take _ m),
        List.take_append_drop]
    rw [this, writeAt_mid a (m.take bs'.length) (m.drop bs'.length ++ c) bs' (by simp; omega)]
    simp
  rw [h1, writeAt_mid a (bs' ++ m.drop bs'.length) c m (by simp; omega)]

theorem writeAt_undo (d : Bytes) (pos n : Nat) (bs' : Bytes) (h1 : bs'.length ≤ n)
    (h2 : pos + n ≤ d.length) :
    writeAt (writeAt d pos bs') pos (readAt d pos n) = d := by
  have hs := split3 d pos n
  have hl : (d.take pos).length = pos := by simp; omega
  have hm := readAt_length d pos n h2
  have := writeAt_undo_mid (d.take pos) (readAt d pos n) (d.drop (pos + n)) bs' (by omega)
  rw [hl, ← hs] at this
  exact this

theorem writeAt_readAt (d : Bytes) (pos n : Nat) (h : pos + n ≤ d.length) :
    writeAt d pos (readAt d pos n) = d := by
  have := writeAt_undo d pos n [] (by simp) h
  have e : writeAt d pos [] = d := by
    simp [writeAt, Nat.sub_eq_zero_of_le (show pos ≤ d.length by omega)]
  rw [e] at this
  exact this

theorem readAt_tail (d : Bytes) (n : Nat) : readAt d n (d.length - n) = d.drop n := by
  simp [readAt, List.take_of_length_le]

end AgdbStorage

namespace AgdbStorage

theorem writeAt_inrange (d : Bytes) (pos : Nat) (bs : Bytes) (h : pos ≤ d.length) :
    writeAt d pos bs = d.take pos ++ bs ++ d.drop (pos + bs.length) := by
  simp [writeAt, Nat.sub_eq_zero_of_le h]

end AgdbStorage
