import AgdbStorage.Model.StorageSpec
import AgdbStorage.Lemmas.AllocBytes
/-
The representation invariant of the record allocator.

* `Records.live i`   — slot `i` holds a value (`recs[i].index = i`, `i ≠ 0`);
* `Records.Blk i p z` — "the file contains a block with header `(i, z)` at `p`": a live record
  (`i ≠ 0`) or a free region (`i = 0`);
* `IdxInv`           — the slot table: non-live slots point to non-live slots (or 0), injectively;
* `Lay`              — the blocks lie in `[24, len)`, are pairwise disjoint and cover `[24, len)`;
* `RInv`             — all of it plus the headers on disk.
-/
namespace AgdbStorage

def Records.live (r : Records) (i : Nat) : Prop := i ≠ 0 ∧ (r.get i).index = i

instance (r : Records) (i : Nat) : Decidable (r.live i) := by unfold Records.live; infer_instance

def Records.Blk (r : Records) (i p z : Nat) : Prop :=
  (r.live i ∧ (r.get i).pos = p ∧ (r.get i).size = z) ∨ (i = 0 ∧ (p, z) ∈ r.free)

structure IdxInv (r : Records) : Prop where
  pos : 0 < r.recs.length
  tgt : ∀ i, i < r.recs.length → ¬ r.live i →
    (r.get i).index < r.recs.length ∧ ¬ r.live (r.get i).index
  inj : ∀ i j, i < r.recs.length → j < r.recs.length → ¬ r.live i → ¬ r.live j →
    (r.get i).index = (r.get j).index → (r.get i).index ≠ 0 → i = j

/-- Blocks `B i p z` (header index `i`, position `p`, payload size `z`) tile `[24, len)`. -/
structure Lay (B : Nat → Nat → Nat → Prop) (len : Nat) : Prop where
  len24 : 24 ≤ len
  bnd : ∀ i p z, B i p z → 24 ≤ p ∧ p + 16 + z ≤ len
  disj : ∀ i p z i' p' z', B i p z → B i' p' z' →
    (i = i' ∧ p = p' ∧ z = z') ∨ p + 16 + z ≤ p' ∨ p' + 16 + z' ≤ p
  cover : ∀ y, 24 ≤ y → y < len → ∃ i p z, B i p z ∧ p ≤ y ∧ y < p + 16 + z

def FSorted (f : FreeMap) : Prop := f.Pairwise (fun a b => a.1 < b.1)

structure RInv (r : Records) (d : Bytes) : Prop where
  idx : IdxInv r
  sorted : FSorted r.free
  lay : Lay r.Blk d.length
  hdr : ∀ i p z, r.Blk i p z → readAt d p 16 = le8 i ++ le8 z
  ver : readAt d 0 24 = le8 0 ++ (le8 8 ++ le8 1)

def SInv (s : Storage) : Prop := RInv s.records s.data

/-- The value stored for slot `i` (meaningful when `i` is live). -/
def Storage.val (s : Storage) (i : Nat) : Bytes :=
  readAt s.data ((s.records.get i).pos + 16) (s.records.get i).size

/-- All offsets, sizes and indices fit `u64` (needed only where headers are *decoded*). -/
def Fits (s : Storage) : Prop := s.data.length < 2 ^ 64 ∧ s.records.recs.length ≤ 2 ^ 64

/-- `Reachable`, where in addition every `reopen` happens in a state that fits `u64`. -/
inductive ReachableF : Storage → Prop where
  | create : ReachableF Storage.create
  | step (s : Storage) (op : SOp) : ReachableF s → (op = .reopen → s.txn = 0 ∧ Fits s) →
      ReachableF (s.step op).1

theorem ReachableF.reachable {s : Storage} (h : ReachableF s) : Reachable s := by
  induction h with
  | create => exact .create
  | step s op _ h2 ih => exact .step s op ih (fun e => (h2 e).1)

end AgdbStorage
