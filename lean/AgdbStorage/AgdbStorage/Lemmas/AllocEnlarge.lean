import AgdbStorage.Lemmas.AllocEnlargeA
import AgdbStorage.Lemmas.AllocEnlargeB
import AgdbStorage.Lemmas.AllocEnlargeC
/-
`Storage::enlarge_value`: dispatch over the four branches
(`enlargeAtEnd_spec`, `enlargeInPlace_spec`, `enlargeMoveTo_spec`, and `MoveToEndSpec`).
-/
namespace AgdbStorage

theorem enlargeValue_spec (hm : MoveToEndSpec) : EnlargeSpec := by
  intro s k n hs hl hlt
  unfold Storage.enlargeValue
  by_cases hend : s.data.length = (s.records.get k).pos + 16 + (s.records.get k).size
  · have h0 : s.isAtEnd (s.records.get k) = true := by
      simp [Storage.isAtEnd, Storage.len, SRec.fin, RECORD_SIZE, hend]
    rw [if_pos h0]
    exact enlargeAtEnd_spec s k n hs hl hlt hend
  · have h0 : ¬ s.isAtEnd (s.records.get k) = true := by
      simp [Storage.isAtEnd, Storage.len, SRec.fin, RECORD_SIZE, hend]
    rw [if_neg h0]
    cases h1 : s.records.takeFreeAfter (s.records.get k).fin (n - (s.records.get k).size) with
    | some x =>
      obtain ⟨recs, p, fsz⟩ := x
      obtain ⟨e1, _, e3, e4⟩ := Records.takeFreeAfter_some h1
      subst e1
      exact enlargeInPlace_spec s k n fsz _ hs hl hlt (by simp only [SRec.fin, RECORD_SIZE]) e3 e4
    | none =>
      cases h2 : s.records.takeFree n with
      | some x =>
        obtain ⟨recs, fp, fsz⟩ := x
        obtain ⟨e1, e2, e3⟩ := Records.takeFree_some h2
        subst e1
        exact enlargeMoveTo_spec s k n fp fsz hs hl hlt e2 e3
      | none => exact hm s k n hs hl hend

end AgdbStorage
