import AgdbStorage.Model.Wal
import AgdbStorage.Lemmas.Bytes
namespace AgdbStorage

/-- Offsets and lengths of a record fit `u64` (so that `le8` is injective on them). -/
def Rec.ok (r : Rec) : Prop := r.pos < 2 ^ 64 ∧ r.value.length < 2 ^ 64

def RecsOk (rs : List Rec) : Prop := ∀ r ∈ rs, r.ok

/-- A trailing fragment that `repair` cuts off: no complete record starts here. -/
def Torn (t : Bytes) : Prop := t.length < 16 ∨ t.length < 16 + unle8 (t.drop 8)

theorem parseAux_torn (t : Bytes) (h : Torn t) : ∀ fuel, parseAux fuel t = [] := by
  intro fuel
  cases fuel with
  | zero => rfl
  | succ f =>
    unfold parseAux
    rcases h with h | h
    · simp [h]
    · by_cases h16 : t.length < 16
      · simp [h16]
      · simp [h16, h]

theorem torn_nil : Torn [] := by left; simp

theorem torn_short (t : Bytes) (h : t.length < 16) : Torn t := Or.inl h

theorem torn_header (p n : Nat) (v : Bytes) (hn : n < 2 ^ 64) (hv : v.length < n) :
    Torn (le8 p ++ (le8 n ++ v)) := by
  right
  have : List.drop 8 (le8 p ++ (le8 n ++ v)) = le8 n ++ v := by
    rw [List.drop_append_of_le_length (by simp)]
    simp [List.drop_of_length_le]
  rw [this, unle8_le8_append n hn]
  simp
  omega

theorem serAll_append (rs : List Rec) (r : Rec) : serAll (rs ++ [r]) = serAll rs ++ r.ser := by
  induction rs with
  | nil => simp [serAll]
  | cons a rs ih => simp [serAll, ih]

theorem serAll_length_ge (rs : List Rec) : rs.length ≤ (serAll rs).length := by
  induction rs with
  | nil => simp
  | cons a rs ih => simp [serAll, Rec.ser]; omega

theorem parseAux_ser (rs : List Rec) : ∀ (fuel : Nat) (t : Bytes), RecsOk rs → Torn t →
    rs.length < fuel → parseAux fuel (serAll rs ++ t) = rs := by
  induction rs with
  | nil =>
    intro fuel t _ ht _
    simpa [serAll] using parseAux_torn t ht fuel
  | cons r rs ih =>
    intro fuel t hok ht hf
    cases fuel with
    | zero => simp at hf
    | succ f =>
      have hr : r.ok := hok r (by simp)
      have hrs : RecsOk rs := fun x hx => hok x (by simp [hx])
      obtain ⟨p, v⟩ := r
      simp only [Rec.ok] at hr
      have hw : serAll (⟨p, v⟩ :: rs) ++ t = le8 p ++ (le8 v.length ++ (v ++ (serAll rs ++ t))) := by
        simp [serAll, Rec.ser]
      rw [hw]
      unfold parseAux
      have hlen : (le8 p ++ (le8 v.length ++ (v ++ (serAll rs ++ t)))).length
          = 16 + v.length + (serAll rs ++ t).length := by simp; omega
      have hd8 : List.drop 8 (le8 p ++ (le8 v.length ++ (v ++ (serAll rs ++ t))))
          = le8 v.length ++ (v ++ (serAll rs ++ t)) := by
        rw [List.drop_append_of_le_length (by simp)]
        simp [List.drop_of_length_le]
      have hd16 : ∀ k, List.drop (16 + k) (le8 p ++ (le8 v.length ++ (v ++ (serAll rs ++ t))))
          = List.drop k (v ++ (serAll rs ++ t)) := by
        intro k
        have e1 : List.drop (16 + k) (le8 p) = [] := List.drop_of_length_le (by simp; omega)
        have e2 : List.drop (16 + k - 8) (le8 v.length) = [] := List.drop_of_length_le (by simp; omega)
        rw [List.drop_append, e1, le8_length, List.nil_append, List.drop_append, e2, le8_length,
          List.nil_append]
        congr 1
        omega
      have hn : unle8 (le8 v.length ++ (v ++ (serAll rs ++ t))) = v.length :=
        unle8_le8_append _ hr.2 _
      have hp : unle8 (le8 p ++ (le8 v.length ++ (v ++ (serAll rs ++ t)))) = p :=
        unle8_le8_append _ hr.1 _
      have h1 : ¬ (le8 p ++ (le8 v.length ++ (v ++ (serAll rs ++ t)))).length < 16 := by
        rw [hlen]; omega
      rw [if_neg h1]
      simp only [hd8, hn]
      have h2 : ¬ (le8 p ++ (le8 v.length ++ (v ++ (serAll rs ++ t)))).length < 16 + v.length := by
        rw [hlen]; omega
      rw [if_neg h2, hp, hd16 v.length]
      have h0 := hd16 0
      simp only [Nat.add_zero, List.drop_zero] at h0
      rw [h0]
      simp only [List.take_left', List.drop_left']
      rw [ih f t hrs ht (by simp at hf; omega)]

theorem parse_ser_torn (rs : List Rec) (t : Bytes) (hok : RecsOk rs) (ht : Torn t) :
    parse (serAll rs ++ t) = rs := by
  unfold parse
  apply parseAux_ser rs _ t hok ht
  have := serAll_length_ge rs
  simp
  omega

theorem parse_ser (rs : List Rec) (hok : RecsOk rs) : parse (serAll rs) = rs := by
  have := parse_ser_torn rs [] hok torn_nil
  simpa using this

theorem undoAll_snoc (d : Bytes) (rs : List Rec) (r : Rec) :
    undoAll d (rs ++ [r]) = undoAll (applyRec d r) rs := by
  simp [undoAll]

theorem recsOk_snoc (rs : List Rec) (r : Rec) (h : RecsOk rs) (hr : r.ok) : RecsOk (rs ++ [r]) := by
  intro x hx
  simp at hx
  rcases hx with hx | hx
  · exact h x hx
  · exact hx ▸ hr

end AgdbStorage
