import AgdbStorage.Lemmas.AllocWf
import AgdbStorage.Lemmas.AllocReach
import AgdbStorage.Lemmas.AllocEnlargeWf
import AgdbStorage.Lemmas.AllocEnlargeLen
import AgdbStorage.Lemmas.AllocInsertWf
import AgdbStorage.Lemmas.AllocOptimizeWf
/-
All call-well-formedness lemmas together.
-/
namespace AgdbStorage

theorem wfSpecs : WfSpecs :=
  ⟨enlargeValue_spec moveToEnd_spec, shrinkValue_spec, enlargeValue_wf moveToEnd_wf, shrinkValue_wf,
    insertBytes_wf, optimize_wf, enlargeValue_len⟩

theorem ReachableF.step_wf {s : Storage} (h : ReachableF s) (op : SOp) (hop : op ≠ .reopen)
    (hb : s.data.length + 2 * op.size + 32 < 2 ^ 64) :
    wfOps s.data ((s.step op).1.trace.drop s.trace.length) :=
  (AgdbStorage.step_wf wfSpecs s h.inv op hop hb).drop

end AgdbStorage
