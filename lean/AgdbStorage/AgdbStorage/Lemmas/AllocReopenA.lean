import AgdbStorage.Lemmas.AllocSpecs
/-
Reopen, part A: decoding the headers from the bytes, block boundaries of a layout, and transport of
`Lay`/`RInv` along an equivalence of the block predicate.
-/
namespace AgdbStorage

/-! ### decoding -/

theorem drop_of_drop_append (d a b : Bytes) (p : Nat) (h : d.drop p = a ++ b) :
    d.drop (p + a.length) = b := by
  rw [← List.drop_drop, h, List.drop_left]

theorem drop_eq_of_readAt (d : Bytes) (p n : Nat) (v : Bytes) (h : readAt d p n = v) :
    d.drop p = v ++ d.drop (p + n) := by
  rw [← h, readAt, ← List.drop_drop, List.take_append_drop]

theorem readRecordAt_of_hdr (d : Bytes) (p i z : Nat) (h : readAt d p 16 = le8 i ++ le8 z)
    (hi : i < 2 ^ 64) (hz : z < 2 ^ 64) : readRecordAt d p = ⟨i, p, z⟩ := by
  have h1 := drop_eq_of_readAt d p 16 _ h
  rw [List.append_assoc] at h1
  have h2 := drop_of_drop_append d (le8 i) _ p h1
  rw [le8_length] at h2
  unfold readRecordAt
  rw [h1, h2, unle8_le8_append _ hi, unle8_le8_append _ hz]

theorem version_decode (d : Bytes) (h : readAt d 0 24 = le8 0 ++ (le8 8 ++ le8 1)) :
    readRecordAt d 0 = ⟨0, 0, 8⟩ ∧ unle8 (d.drop 16) = 1 := by
  have h1 := drop_eq_of_readAt d 0 24 _ h
  simp only [List.append_assoc] at h1
  have h2 := drop_of_drop_append d (le8 0) _ 0 h1
  rw [le8_length] at h2
  have h3 := drop_of_drop_append d (le8 8) _ (0 + 8) h2
  rw [le8_length] at h3
  unfold readRecordAt
  rw [h1, h2]
  have e : (0 + 8 + 8 : Nat) = 16 := rfl
  rw [e] at h3
  rw [h3, unle8_le8_append _ (by decide), unle8_le8_append _ (by decide),
    unle8_le8_append _ (by decide)]
  exact ⟨rfl, rfl⟩

/-! ### boundaries of a layout -/

/-- `c` is the start of the block area or the end of a block. -/
def Bdy (B : Nat → Nat → Nat → Prop) (c : Nat) : Prop :=
  c = 24 ∨ ∃ i p z, B i p z ∧ p + 16 + z = c

theorem Lay.bdy_le {B : Nat → Nat → Nat → Prop} {len c : Nat} (h : Lay B len) (hc : Bdy B c) :
    c ≤ len := by
  rcases hc with e | ⟨i, p, z, hb, e⟩
  · have := h.len24; omega
  · have := h.bnd i p z hb; omega

theorem Lay.bdy_ge {B : Nat → Nat → Nat → Prop} {len c : Nat} (h : Lay B len) (hc : Bdy B c) :
    24 ≤ c := by
  rcases hc with e | ⟨i, p, z, hb, e⟩
  · omega
  · have := h.bnd i p z hb; omega

/-- at a boundary inside the file a block starts exactly there -/
theorem Lay.bdy_block {B : Nat → Nat → Nat → Prop} {len c : Nat} (h : Lay B len) (hc : Bdy B c)
    (hlt : c < len) : ∃ i z, B i c z := by
  obtain ⟨i, p, z, hb, h1, h2⟩ := h.cover c (h.bdy_ge hc) hlt
  have hbn := h.bnd i p z hb
  have hp : p = c := by
    rcases hc with e | ⟨i0, p0, z0, hb0, e⟩
    · omega
    · rcases h.disj i0 p0 z0 i p z hb0 hb with ⟨_, e2, e3⟩ | h3 | h3
      · omega
      · omega
      · omega
  subst hp
  exact ⟨i, z, hb⟩

theorem Bdy.next {B : Nat → Nat → Nat → Prop} {i p z : Nat} (hb : B i p z) : Bdy B (p + 16 + z) :=
  Or.inr ⟨i, p, z, hb, rfl⟩

/-! ### transport along an equivalence of block predicates -/

theorem Lay.congr {B B' : Nat → Nat → Nat → Prop} {len : Nat} (h : Lay B len)
    (e : ∀ i p z, B' i p z ↔ B i p z) : Lay B' len := by
  refine ⟨h.len24, ?_, ?_, ?_⟩
  · intro i p z hb; exact h.bnd i p z ((e _ _ _).mp hb)
  · intro i p z i' p' z' hb hb'
    exact h.disj i p z i' p' z' ((e _ _ _).mp hb) ((e _ _ _).mp hb')
  · intro y h1 h2
    obtain ⟨i, p, z, hb, h3⟩ := h.cover y h1 h2
    exact ⟨i, p, z, (e _ _ _).mpr hb, h3⟩

theorem RInv.congr {r r' : Records} {d : Bytes} (h : RInv r d) (hi : IdxInv r')
    (hs : FSorted r'.free) (e : ∀ i p z, r'.Blk i p z ↔ r.Blk i p z) : RInv r' d :=
  ⟨hi, hs, h.lay.congr e, fun i p z hb => h.hdr i p z ((e _ _ _).mp hb), h.ver⟩

/-- every block of a state that fits `u64` has `u64` header fields -/
theorem RInv.blk_fits {r : Records} {d : Bytes} (h : RInv r d) (hl : d.length < 2 ^ 64)
    (hr : r.recs.length ≤ 2 ^ 64) {i p z : Nat} (hb : r.Blk i p z) : i < 2 ^ 64 ∧ z < 2 ^ 64 := by
  have hbn := h.lay.bnd i p z hb
  refine ⟨?_, by omega⟩
  by_cases hi : i = 0
  · subst hi; decide
  · have := Records.live_lt (Records.Blk_live hb hi).1
    omega

theorem RInv.decode {r : Records} {d : Bytes} (h : RInv r d) (hl : d.length < 2 ^ 64)
    (hr : r.recs.length ≤ 2 ^ 64) {i p z : Nat} (hb : r.Blk i p z) :
    readRecordAt d p = ⟨i, p, z⟩ := by
  have := h.blk_fits hl hr hb
  exact readRecordAt_of_hdr d p i z (h.hdr i p z hb) this.1 this.2

end AgdbStorage
