import AgdbStorage.Lemmas.AllocInsert
import AgdbStorage.Lemmas.AllocTrace
/-
Well-formedness of the `StorageData` calls issued by `Storage::insert_bytes` (`InsertWf`).
-/
namespace AgdbStorage

/-- the free block produced by `mark_free_compact` of a hole interval lies inside the file -/
theorem RG.freeRegion_bnd {r : Records} {X H : Nat → Prop} {d : Bytes} {V : Nat → Bytes}
    (h : RG r X H d V) (hx0 : ¬ X 0) (a s : Nat) (hin : ∀ y, a ≤ y → y < a + 16 + s → H y) :
    24 ≤ (r.markFreeCompact a s).2.1 ∧
      (r.markFreeCompact a s).2.1 + 16 + (r.markFreeCompact a s).2.2 ≤ d.length := by
  have hd := h.fdisj hx0
  have hhole : Hole r.free a (a + 16 + s) := by
    intro x hx
    exact h.lay.block_hole (i := 0) ⟨Records.Blk_zero.mpr hx, hx0⟩ (by omega) hin
  obtain ⟨m, _⟩ := Records.markFreeCompact_spec r a s h.sorted hd hhole
  have hF : ∀ p z, r.B X 0 p z ↔ (p, z) ∈ r.free := fun p z => by
    simp only [Records.B]
    constructor
    · intro c; exact Records.Blk_zero.mp c.1
    · intro c; exact ⟨Records.Blk_zero.mpr c, hx0⟩
  have hlay := h.lay.merge hF m hin
  exact hlay.bnd 0 _ _ (Or.inr ⟨rfl, (m.mem _).mpr (Or.inl rfl)⟩)

theorem Storage.freeARegion_eq (s : Storage) (a z : Nat) :
    s.freeARegion a z = ({ s with records := (s.records.markFreeCompact a z).1 } : Storage).writeRecord
      ⟨0, (s.records.markFreeCompact a z).2.1, (s.records.markFreeCompact a z).2.2⟩ := rfl

theorem insertBytes_wf : InsertWf := by
  intro s bs hs hb
  cases htf : s.records.takeFree bs.length with
  | none =>
    rw [Storage.insertBytes_none s bs htf]
    have hnr := Records.newRecord_spec s.records hs.idx s.data.length bs.length
    generalize s.records.newRecord s.data.length bs.length = res at hnr
    obtain ⟨r2, x⟩ := res
    simp only at hnr ⊢
    have hx := hnr.x_pos
    refine WfStep.trans ?_ (WfStep.commit _ _)
    have h0 : WfStep s ({ s with records := r2, txn := s.txn + 1 } : Storage) :=
      WfStep.of_eq rfl rfl
    have h1 := WfStep.writeRecord ({ s with records := r2, txn := s.txn + 1 } : Storage) x
      (Or.inr hx) (by rw [hx]; show s.data.length + 16 < _; omega)
    have hl : (({ s with records := r2, txn := s.txn + 1 } : Storage).writeRecord x).data.length
        = s.data.length + 16 := by
      simp only [Storage.writeRecord_data, hx]
      rw [length_writeAt _ _ _ (Nat.le_refl _)]
      simp only [List.length_append, le8_length]
      omega
    have h2 := WfStep.append (({ s with records := r2, txn := s.txn + 1 } : Storage).writeRecord x)
      bs (by rw [hl]; omega)
    exact (h0.trans h1).trans h2
  | some t =>
    obtain ⟨recs, fp, fsz⟩ := t
    rw [Storage.insertBytes_some s bs recs fp fsz htf]
    obtain ⟨e, hm, hsz⟩ := Records.takeFree_some htf
    subst e
    have hnr := Records.newRecord_spec (s.records.removeFree fp)
      (hs.idx.of_recs_eq (Records.removeFree_recs _ _)) fp bs.length
    have G := insert_free_G s.records s.data hs bs fp fsz hm (by omega) _ _ hnr
    generalize (s.records.removeFree fp).newRecord fp bs.length = res at hnr G
    obtain ⟨r2, x⟩ := res
    simp only at hnr G ⊢
    have hx := hnr.x_pos
    have hz := hnr.x_size
    have hbnd := hs.lay.bnd 0 fp fsz (Records.Blk_zero.mpr hm)
    refine WfStep.trans ?_ (WfStep.commit _ _)
    have h0 : WfStep s ({ s with records := r2, txn := s.txn + 1 } : Storage) :=
      WfStep.of_eq rfl rfl
    have h1 := WfStep.writeRecord ({ s with records := r2, txn := s.txn + 1 } : Storage) x
      (Or.inl (by rw [hx]; show fp + 16 ≤ s.data.length; omega))
      (by rw [hx]; have : fp + 16 ≤ s.data.length := by omega
          omega)
    have hl1 : (({ s with records := r2, txn := s.txn + 1 } : Storage).writeRecord x).data.length
        = s.data.length := by
      simp only [Storage.writeRecord_data, hx]
      rw [length_writeAt _ _ _ (by omega)]
      simp only [List.length_append, le8_length]
      omega
    have h2 := WfStep.dataWrite
      (({ s with records := r2, txn := s.txn + 1 } : Storage).writeRecord x) (fp + 16) bs
      (Or.inl (by rw [hl1]; omega)) (by omega)
    have h012 := (h0.trans h1).trans h2
    unfold Storage.insFree
    simp only [RECORD_SIZE, SRec.valueStart, SRec.fin, hx, hz]
    by_cases hlt : fsz > bs.length
    · simp only [if_pos hlt]
      refine h012.trans ?_
      rw [Storage.freeARegion_eq]
      have hb2 := G.freeRegion_bnd (fun c => c) (fp + 16 + bs.length) (fsz - 16 - bs.length)
        (fun y h1 h2 => by omega)
      have hl2 : (writeAt (writeAt s.data fp (le8 x.index ++ le8 x.size)) (fp + 16) bs).length
          = s.data.length := by
        have e1 : (writeAt s.data fp (le8 x.index ++ le8 x.size)).length = s.data.length := by
          rw [length_writeAt _ _ _ (by omega)]; simp; omega
        rw [length_writeAt _ _ _ (by rw [e1]; omega), e1]; omega
      rw [hl2] at hb2
      refine WfStep.trans (WfStep.of_eq rfl rfl) (WfStep.writeRecord _ _ (Or.inl ?_) ?_)
      · simp only [Storage.dataWrite_data, Storage.dataWrite_records, Storage.writeRecord_data,
          Storage.writeRecord_records, hx]
        rw [hl2]
        omega
      · simp only [Storage.dataWrite_records, Storage.writeRecord_records]
        omega
    · simp only [if_neg hlt]
      exact h012

end AgdbStorage
