import AgdbStorage.Lemmas.AllocGlue
/-
`Storage::remove`.
-/
namespace AgdbStorage

/-- the part of `remove` between `begin` and `commit` -/
def Storage.removeCore (s : Storage) (i : Nat) (r : SRec) : Storage :=
  let s2 := { s with records := s.records.removeIndex i }
  if s2.isAtEnd r then s2.truncate r.pos else s2.freeARegion r.pos r.size

theorem Storage.removeCore_spec (s : Storage) (hs : SInv s) (i : Nat) (hl : s.records.live i) :
    let s' := s.removeCore i (s.records.get i)
    SInv s' ∧ (∀ j, s'.records.live j ↔ s.records.live j ∧ j ≠ i) ∧
      (∀ j, s.records.live j → j ≠ i → s'.val j = s.val j) ∧ s'.txn = s.txn := by
  intro s'
  have hlt := Records.live_lt hl
  have hidx := hs.idx
  have hbnd := hs.lay.bnd i _ _ (Records.Blk_of_live hl)
  have hlive := Records.removeIndex_live s.records i hlt hl.1
    (fun e => (hidx.tgt 0 hidx.pos (by simp [Records.live])).2 (e ▸ hl))
  have G0 := RG.intro hs
  have G1 := G0.suspend i hl (fun h => h)
  have G2 := G1.modify (r' := s.records.removeIndex i) (by simp)
    (Records.removeIndex_idx_live _ hidx i hl)
    (fun j hj0 hx => by
      rw [Records.removeIndex_get _ i j hlt hl.1, if_neg hj0, if_neg (fun e => hx (Or.inr e))])
  have G3 := G2.congrX (X' := fun _ => False) (fun j => by
    by_cases hj : j = i
    · subst hj; right; exact ⟨fun c => ((hlive j).mp c).2 rfl, hl.1⟩
    · left; simp [hj])
  by_cases hend : s.data.length = (s.records.get i).pos + 16 + (s.records.get i).size
  · -- the record is the last block of the file: cut it off
    have hs' : s' = ({ s with records := s.records.removeIndex i } : Storage).truncate
        (s.records.get i).pos := by
      simp only [s', Storage.removeCore, Storage.isAtEnd, Storage.len, SRec.fin, RECORD_SIZE, hend,
        beq_self_eq_true, ↓reduceIte]
    have G4 := G3.truncate (s.records.get i).pos hbnd.1 (by omega) (fun y h1 h2 => by
      right; omega)
    have hd : s'.data = setLen s.data (s.records.get i).pos := by
      rw [hs', Storage.truncate_data _ _ (by simp; omega)]
    have hr : s'.records = s.records.removeIndex i := by rw [hs']; simp
    rw [← hd, ← hr] at G4
    obtain ⟨h1, h2⟩ := RG.elim' G4 (fun _ h => h) (fun y h => by simp only [false_or] at h; omega)
    refine ⟨h1, fun j => by rw [hr]; exact hlive j, ?_, by rw [hs']; simp⟩
    intro j hj hji
    exact h2 j (by rw [hr]; exact (hlive j).mpr ⟨hj, hji⟩)
  · have hs' : s' = ({ s with records := s.records.removeIndex i } : Storage).freeARegion
        (s.records.get i).pos (s.records.get i).size := by
      have : ¬ (s.data.length == (s.records.get i).pos + 16 + (s.records.get i).size) = true := by
        simp [hend]
      simp only [s', Storage.removeCore, Storage.isAtEnd, Storage.len, SRec.fin, RECORD_SIZE, this,
        Bool.false_eq_true, ↓reduceIte]
    have G4 := G3.freeRegion (fun h => h) (s.records.get i).pos (s.records.get i).size
      (fun y h1 h2 => Or.inr ⟨h1, h2⟩)
    have hr : s'.records = ((s.records.removeIndex i).markFreeCompact (s.records.get i).pos
        (s.records.get i).size).1 := by rw [hs']; rfl
    have hd : s'.data = writeAt s.data
        ((s.records.removeIndex i).markFreeCompact (s.records.get i).pos (s.records.get i).size).2.1
        (le8 0 ++ le8 ((s.records.removeIndex i).markFreeCompact (s.records.get i).pos
          (s.records.get i).size).2.2) := by rw [hs']; rfl
    rw [← hd, ← hr] at G4
    obtain ⟨h1, h2⟩ := RG.elim' G4 (fun _ h => h) (fun y h => by simp only [false_or] at h; omega)
    have hrecs : s'.records.recs = (s.records.removeIndex i).recs := by
      rw [hr]
      unfold Records.markFreeCompact
      rfl
    have hlive' : ∀ j, s'.records.live j ↔ (s.records.removeIndex i).live j := fun j => by
      simp only [Records.live, Records.get, hrecs]
    refine ⟨h1, fun j => by rw [hlive']; exact hlive j, ?_, by rw [hs']; simp⟩
    intro j hj hji
    exact h2 j (by rw [hlive']; exact (hlive j).mpr ⟨hj, hji⟩)

end AgdbStorage
