import AgdbStorage.Lemmas.AllocEnlargeA
/-
`Storage::enlarge_value`, branch 2: a free region directly after the record is large enough
(`enlargeInPlace`), with or without a remainder.
-/
namespace AgdbStorage

theorem enlargeInPlace_spec (s : Storage) (k n fsz e : Nat) (hs : SInv s) (hl : s.records.live k)
    (hlt : (s.records.get k).size < n)
    (he : e = (s.records.get k).pos + 16 + (s.records.get k).size)
    (hm : (e, fsz) ∈ s.records.free)
    (hfit : 16 + fsz = n - (s.records.get k).size ∨ n - (s.records.get k).size ≤ fsz) :
    ResizeOK s (({ s with records := s.records.removeFree e } : Storage).enlargeInPlace
          (s.records.get k) n fsz).1 k n ∧
      (({ s with records := s.records.removeFree e } : Storage).enlargeInPlace
          (s.records.get k) n fsz).2 =
      (({ s with records := s.records.removeFree e } : Storage).enlargeInPlace
          (s.records.get k) n fsz).1.records.get k := by
  subst he
  have hklt := Records.live_lt hl
  have hidx := hs.idx
  have hki : (s.records.get k).index = k := hl.2
  have hbnd := hs.lay.bnd k _ _ (Records.Blk_of_live hl)
  have hhdr := hs.hdr k _ _ (Records.Blk_of_live hl)
  have hfb := hs.lay.bnd 0 _ _ (Records.Blk_zero.mpr hm)
  generalize hpos : (s.records.get k).pos = pos at *
  generalize hsize : (s.records.get k).size = size at *
  generalize hr1 : s.records.removeFree (pos + 16 + size) = r1
  have hrecs1 : r1.recs = s.records.recs := by rw [← hr1]; rfl
  have hget1 : ∀ j, r1.get j = s.records.get j := Records.get_of_recs_eq hrecs1
  have hklt1 : k < r1.recs.length := by rw [hrecs1]; exact hklt
  have hgetk : (r1.setSize k n).get k = { s.records.get k with size := n } := by
    rw [Records.setSize_get _ _ _ _ hklt1, if_pos rfl, hget1]
  have hlive1 : ∀ j, r1.live j ↔ s.records.live j := Records.live_of_recs_eq hrecs1
  have hlive' : ∀ j, (r1.setSize k n).live j ↔ s.records.live j := fun j =>
    (Records.live_congr (Records.setSize_index _ _ _) j).trans (hlive1 j)
  have G0 := RG.intro hs
  have G1 := G0.takeFree (fun h => h) _ _ hm
  rw [hr1] at G1
  have G2 := G1.suspend k ((hlive1 k).mpr hl) (fun h => h)
  rw [hget1, hpos, hsize] at G2
  have G3 := G2.modify (r' := r1.setSize k n) (by simp)
    (G2.idx.congr (by simp) (Records.setSize_index _ _ _))
    (fun j _ hx => by
      rw [Records.setSize_get _ _ _ _ hklt1, if_neg (fun e => hx (Or.inr e))])
  have G4 := G3.write (pos + 8) (le8 n) (by omega) (fun y h1 h2 h3 => by
    simp only [le8_length] at h2; right; omega)
  have hl4 : (writeAt s.data (pos + 8) (le8 n)).length = s.data.length := by
    rw [length_writeAt _ _ _ (by omega)]; simp; omega
  have G5 := G4.write (pos + 16 + size) (List.replicate (n - size) 0) (by omega)
    (fun y h1 h2 h3 => by
      simp only [List.length_replicate] at h2; left; left; right; omega)
  have G6 := G5.congr (X' := fun j => j = k)
    (H' := fun y => pos ≤ y ∧ y < pos + 16 + size + 16 + fsz)
    (fun j => by simp) (fun y => by
      rw [hl4]; simp only [le8_length, List.length_replicate, false_or]; omega)
  have G7 := G6.congrV (V' := fun j => if j = k then
      readAt s.data (pos + 16) size ++ List.replicate (n - size) 0
      else readAt s.data ((s.records.get j).pos + 16) (s.records.get j).size)
    (fun j _ hx => by simp only [if_neg hx])
  have hk' : (r1.setSize k n).live k := (hlive' k).mpr hl
  have hgp : ((r1.setSize k n).get k).pos = pos := by rw [hgetk]; exact hpos
  have hgs : ((r1.setSize k n).get k).size = n := by rw [hgetk]
  have G8 := G7.resume k hk' (by rw [hgp, hgs]; intro y h1 h2; exact ⟨h1, by omega⟩)
    (by
      rw [hgp, hgs, readAt_writeAt_before _ _ _ _ _ (by omega) (by omega)]
      exact hdr_update _ _ _ _ _ hhdr (by omega))
    (by
      rw [hgp, hgs]
      simp only [if_pos]
      apply Enlarge.readAt_value_zeros _ _ _ _ _ (by omega)
      · rw [readAt_writeAt_before _ _ _ _ _ (by omega) (by omega),
          readAt_writeAt_after _ _ _ _ _ (by omega) (by simp)]
      · have := readAt_writeAt_self (writeAt s.data (pos + 8) (le8 n))
          (List.replicate (n - size) 0) (pos + 16 + size) (by omega)
        rw [List.length_replicate] at this
        exact this)
  rw [hgp, hgs] at G8
  have hVk : (fun j => if j = k then readAt s.data (pos + 16) size ++ List.replicate (n - size) 0
      else readAt s.data ((s.records.get j).pos + 16) (s.records.get j).size) k =
      s.val k ++ List.replicate (n - (s.records.get k).size) 0 := by
    simp only [if_pos, Storage.val, hpos, hsize]
  have hVo : ∀ j, j ≠ k → (fun j => if j = k then
      readAt s.data (pos + 16) size ++ List.replicate (n - size) 0
      else readAt s.data ((s.records.get j).pos + 16) (s.records.get j).size) j = s.val j := by
    intro j hj; simp only [if_neg hj, Storage.val]
  rcases hfit with hf | hf
  · have hrem : ((size + 16 + fsz - n) != 0) = false := by simp; omega
    have hres : ({ s with records := r1 } : Storage).enlargeInPlace (s.records.get k) n fsz =
        ((({ s with records := r1.setSize k n } : Storage).dataWrite (pos + 8) (le8 n)).dataWrite
          (pos + 16 + size) (List.replicate (n - size) 0), { s.records.get k with size := n }) := by
      simp only [Storage.enlargeInPlace, RECORD_SIZE, SRec.fin, hpos, hsize, hki, hrem,
        Bool.false_eq_true, ↓reduceIte]
    rw [hres]
    refine ⟨Enlarge.resizeOK_of_RG hs hl (by omega) G8 (fun _ h => h.2 h.1) (fun y (h : (pos ≤ y ∧ y < pos + 16 + size + 16 + fsz) ∧ ¬(pos ≤ y ∧ y < pos + 16 + n)) => by
        omega)
      hlive' hgs hVk hVo rfl, ?_⟩
    exact hgetk.symm
  · have hrem : ((size + 16 + fsz - n) != 0) = true := by simp; omega
    have hres : ({ s with records := r1 } : Storage).enlargeInPlace (s.records.get k) n fsz =
        (((({ s with records := r1.setSize k n } : Storage).dataWrite (pos + 8) (le8 n)).dataWrite
          (pos + 16 + size) (List.replicate (n - size) 0)).freeARegion (pos + 16 + n)
            (size + 16 + fsz - n - 16), { s.records.get k with size := n }) := by
      simp only [Storage.enlargeInPlace, RECORD_SIZE, SRec.fin, hpos, hsize, hki, hrem, ↓reduceIte]
    rw [hres]
    have G9 := G8.freeRegion (fun h => h.2 h.1) (pos + 16 + n) (size + 16 + fsz - n - 16)
      (fun y h1 h2 => by
        show (pos ≤ y ∧ y < pos + 16 + size + 16 + fsz) ∧ ¬(pos ≤ y ∧ y < pos + 16 + n)
        omega)
    have hrecs9 := Records.markFreeCompact_recs (r1.setSize k n) (pos + 16 + n)
      (size + 16 + fsz - n - 16)
    refine ⟨Enlarge.resizeOK_of_RG hs hl (by omega) G9 (fun _ h => h.2 h.1)
      (fun y (h : ((pos ≤ y ∧ y < pos + 16 + size + 16 + fsz) ∧ ¬(pos ≤ y ∧ y < pos + 16 + n)) ∧
          ¬(pos + 16 + n ≤ y ∧ y < pos + 16 + n + 16 + (size + 16 + fsz - n - 16))) => by omega)
      (fun j => (Records.live_of_recs_eq hrecs9 j).trans (hlive' j))
      ((congrArg SRec.size (Records.get_of_recs_eq hrecs9 k)).trans hgs) hVk hVo rfl, ?_⟩
    exact ((Records.get_of_recs_eq hrecs9 k).trans hgetk).symm

end AgdbStorage
