import AgdbStorage.Lemmas.AllocEnlargeWfA
/-
Well-formedness of the calls of `enlargeMoveTo` (branch 3 of `enlarge_value`).
-/
namespace AgdbStorage

theorem enlargeMoveTo_wf (s : Storage) (k n fp fsz : Nat) (hs : SInv s) (hl : s.records.live k)
    (hlt : (s.records.get k).size < n)
    (hm : (fp, fsz) ∈ s.records.free)
    (hfit : fsz = n ∨ n + 16 ≤ fsz)
    (hb : s.data.length < 2 ^ 64) :
    WfStep s (({ s with records := s.records.removeFree fp } : Storage).enlargeMoveTo
      (s.records.get k) n fp fsz).1 := by
  have hklt := Records.live_lt hl
  have hki : (s.records.get k).index = k := hl.2
  have hbnd := hs.lay.bnd k _ _ (Records.Blk_of_live hl)
  have hfb := hs.lay.bnd 0 _ _ (Records.Blk_zero.mpr hm)
  have hdisj : (s.records.get k).pos + 16 + (s.records.get k).size ≤ fp ∨
      fp + 16 + fsz ≤ (s.records.get k).pos := by
    rcases hs.lay.disj k _ _ 0 fp fsz (Records.Blk_of_live hl) (Records.Blk_zero.mpr hm) with
      e | e | e
    · exact absurd e.1 hl.1
    · exact Or.inl e
    · exact Or.inr e
  have hvl := hs.val_length hl
  have hval : s.val k = readAt s.data ((s.records.get k).pos + 16) (s.records.get k).size := rfl
  generalize hpos : (s.records.get k).pos = pos at *
  generalize hsize : (s.records.get k).size = size at *
  generalize hr1 : s.records.removeFree fp = r1
  have hrecs1 : r1.recs = s.records.recs := by rw [← hr1]; rfl
  have hget1 : ∀ j, r1.get j = s.records.get j := Records.get_of_recs_eq hrecs1
  have hlive1 : ∀ j, r1.live j ↔ s.records.live j := Records.live_of_recs_eq hrecs1
  obtain ⟨bs, hbs⟩ : ∃ bs, bs = (readAt s.data (pos + 16) size).take n ++
      List.replicate (n - (readAt s.data (pos + 16) size).length) 0 := ⟨_, rfl⟩
  have hbl : bs.length = n := by
    rw [hbs, ← hval, hvl, List.take_of_length_le (by omega), List.length_append, hvl,
      List.length_replicate]
    omega
  -- the `RG` chain up to the state before the optional second `free_a_region`
  have G0 := RG.intro hs
  have G1 := G0.takeFree (fun h => h) _ _ hm
  rw [hr1] at G1
  have G2 := G1.suspend k ((hlive1 k).mpr hl) (fun h => h)
  rw [hget1, hpos, hsize] at G2
  have hx0 : ¬ (False ∨ 0 = k) := fun h => h.elim id (fun e => hl.1 e.symm)
  have G3 := G2.freeRegion hx0 pos size (fun y h1 h2 => Or.inr ⟨h1, h2⟩)
  have hl3 := Enlarge.freeRegion_length G2 hx0 pos size (fun y h1 h2 => Or.inr ⟨h1, h2⟩)
  have hrecs2 : (r1.markFreeCompact pos size).1.recs = s.records.recs := by
    rw [Records.markFreeCompact_recs, hrecs1]
  have hklt2 : k < (r1.markFreeCompact pos size).1.recs.length := by rw [hrecs2]; exact hklt
  have hklt3 : k < ((r1.markFreeCompact pos size).1.setPos k fp).recs.length := by
    rw [Records.setPos_length]; exact hklt2
  have hidx3 : ∀ j, ((((r1.markFreeCompact pos size).1.setPos k fp).setSize k n).get j).index =
      ((r1.markFreeCompact pos size).1.get j).index := fun j => by
    rw [Records.setSize_index, Records.setPos_index]
  have G4 := G3.modify (r' := ((r1.markFreeCompact pos size).1.setPos k fp).setSize k n)
    (by simp) (G3.idx.congr (by simp) hidx3)
    (fun j _ hx => by
      rw [Records.setSize_get _ _ _ _ hklt3, if_neg (fun e => hx (Or.inr e)),
        Records.setPos_get _ _ _ _ hklt2, if_neg (fun e => hx (Or.inr e))])
  have G5 := G4.write fp (le8 k ++ le8 n) (by omega) (fun y h1 h2 h3 => by
    simp only [List.length_append, le8_length] at h2
    refine ⟨Or.inl (Or.inr ⟨h1, by omega⟩), ?_⟩
    omega)
  have hl5 : (writeAt (writeAt s.data (r1.markFreeCompact pos size).2.1
      (le8 0 ++ le8 (r1.markFreeCompact pos size).2.2)) fp (le8 k ++ le8 n)).length =
      s.data.length := by
    rw [length_writeAt _ _ _ (by omega), hl3]; simp; omega
  have G6 := G5.write (fp + 16) bs (by omega) (fun y h1 h2 h3 => by
    rw [hbl] at h2
    refine Or.inl ⟨Or.inl (Or.inr ⟨by omega, by omega⟩), ?_⟩
    omega)
  have hl6 : (writeAt (writeAt (writeAt s.data (r1.markFreeCompact pos size).2.1
      (le8 0 ++ le8 (r1.markFreeCompact pos size).2.2)) fp (le8 k ++ le8 n)) (fp + 16) bs).length =
      s.data.length := by
    rw [length_writeAt _ _ _ (by omega), hl5, hbl]; omega
  -- the steps
  have W1 : WfStep s ({ s with records := r1 } : Storage) := WfStep.of_eq rfl rfl
  have W2 : WfStep ({ s with records := r1 } : Storage)
      (({ s with records := r1 } : Storage).freeARegion pos size) :=
    Enlarge.wfStep_freeARegion (s := ({ s with records := r1 } : Storage)) G2 hx0 pos size
      (fun y h1 h2 => Or.inr ⟨h1, h2⟩) hb
  have W3 : WfStep (({ s with records := r1 } : Storage).freeARegion pos size)
      ((({ s with records := r1 } : Storage).freeARegion pos size).updateRecord
        (s.records.get k) fp n).1 := by
    refine WfStep.trans (WfStep.of_eq rfl rfl) (WfStep.writeRecord _ _ (Or.inl ?_) ?_)
    · show fp + 16 ≤ (writeAt s.data (r1.markFreeCompact pos size).2.1
        (le8 0 ++ le8 (r1.markFreeCompact pos size).2.2)).length
      rw [hl3]; omega
    · show fp + 16 < 2 ^ 64
      omega
  have W4 := WfStep.dataWrite ((({ s with records := r1 } : Storage).freeARegion pos size).updateRecord
        (s.records.get k) fp n).1 (fp + 16) bs
    (Or.inl (by
      show fp + 16 + bs.length ≤ (writeAt (writeAt s.data (r1.markFreeCompact pos size).2.1
        (le8 0 ++ le8 (r1.markFreeCompact pos size).2.2)) fp (le8 (s.records.get k).index ++ le8 n)).length
      rw [hki, hl5, hbl]; omega))
    (by rw [hbl]; omega)
  have W := W1.trans (W2.trans (W3.trans W4))
  rcases hfit with hf | hf
  · have hres : ({ s with records := r1 } : Storage).enlargeMoveTo (s.records.get k) n fp fsz =
        (((({ s with records := r1 } : Storage).freeARegion pos size).updateRecord
            (s.records.get k) fp n).1.dataWrite (fp + 16) bs,
          { s.records.get k with pos := fp, size := n }) := by
      simp only [Storage.enlargeMoveTo, RECORD_SIZE, SRec.fin, SRec.valueStart, hpos, hsize, hki,
        Storage.updateRecord, if_neg (show ¬ fsz > n by omega), ← hbs]
    rw [hres]
    exact W
  · have hres : ({ s with records := r1 } : Storage).enlargeMoveTo (s.records.get k) n fp fsz =
        ((((({ s with records := r1 } : Storage).freeARegion pos size).updateRecord
            (s.records.get k) fp n).1.dataWrite (fp + 16) bs).freeARegion (fp + 16 + n)
              (fsz - n - 16),
          { s.records.get k with pos := fp, size := n }) := by
      simp only [Storage.enlargeMoveTo, RECORD_SIZE, SRec.fin, SRec.valueStart, hpos, hsize, hki,
        Storage.updateRecord, if_pos (show fsz > n by omega), ← hbs]
    rw [hres]
    have hr : (((({ s with records := r1 } : Storage).freeARegion pos size).updateRecord
        (s.records.get k) fp n).1.dataWrite (fp + 16) bs).records =
        ((r1.markFreeCompact pos size).1.setPos k fp).setSize k n := by
      simp only [Storage.updateRecord, Storage.dataWrite_records, Storage.writeRecord_records,
        Storage.freeARegion_records, hki]
    have hd : (((({ s with records := r1 } : Storage).freeARegion pos size).updateRecord
        (s.records.get k) fp n).1.dataWrite (fp + 16) bs).data =
        writeAt (writeAt (writeAt s.data (r1.markFreeCompact pos size).2.1
          (le8 0 ++ le8 (r1.markFreeCompact pos size).2.2)) fp (le8 k ++ le8 n)) (fp + 16) bs := by
      simp only [Storage.updateRecord, Storage.dataWrite_data, Storage.writeRecord_data,
        Storage.freeARegion_data, hki]
    rw [← hd, ← hr] at G6
    refine W.trans (Enlarge.wfStep_freeARegion G6 hx0 _ _ (fun y h1 h2 => ?_) ?_)
    · refine Or.inl (Or.inl ⟨Or.inl (Or.inr ⟨by omega, by omega⟩), ?_⟩)
      omega
    · rw [hd, hl6]; exact hb

end AgdbStorage
