import AgdbStorage.Lemmas.AllocReach
/-
Why the explicit `u64` hypothesis (`Fits`) is needed: the model computes with unbounded naturals,
but a header stores a size in 8 bytes.  A value of `2^64` bytes can be inserted in the model, and
after a `reopen` no value can be that long (every size was decoded from 8 bytes).
-/
namespace AgdbStorage

theorem unle8_lt (l : Bytes) : unle8 l < 2 ^ 64 := by
  unfold unle8
  split
  · rename_i b0 b1 b2 b3 b4 b5 b6 b7 _
    have h0 := b0.toNat_lt; have h1 := b1.toNat_lt; have h2 := b2.toNat_lt; have h3 := b3.toNat_lt
    have h4 := b4.toNat_lt; have h5 := b5.toNat_lt; have h6 := b6.toNat_lt; have h7 := b7.toNat_lt
    omega
  · decide

/-- every size in the slot table fits `u64` -/
def SizesOK (r : Records) : Prop := ∀ x ∈ r.recs, x.size < 2 ^ 64

theorem SizesOK.get {r : Records} (h : SizesOK r) (i : Nat) : (r.get i).size < 2 ^ 64 := by
  unfold Records.get
  rw [List.getD_eq_getElem?_getD]
  cases hi : r.recs[i]? with
  | none => simp only [Option.getD_none]; decide
  | some x => exact h x (List.mem_of_getElem? hi)

theorem SizesOK.set {r : Records} (h : SizesOK r) (i : Nat) (x : SRec) (hx : x.size < 2 ^ 64) :
    SizesOK { r with recs := r.recs.set i x } := by
  intro y hy
  rcases List.mem_or_eq_of_mem_set hy with hy | hy
  · exact h y hy
  · subst hy; exact hx

theorem SizesOK.removeIndex {r : Records} (h : SizesOK r) (i : Nat) : SizesOK (r.removeIndex i) := by
  unfold Records.removeIndex
  split
  · have h1 := h.set i ({ r.get i with index := (r.get 0).index, pos := U64_MAX }) (h.get i)
    exact h1.set 0 _ (h1.get 0)
  · exact h

theorem SizesOK.setRecord {r : Records} (h : SizesOK r) (x : SRec) (hx : x.size < 2 ^ 64) :
    SizesOK (r.setRecord x) := by
  unfold Records.setRecord
  split
  · exact h
  · simp only []
    have hp : SizesOK { r with recs := (if r.recs.length ≤ x.index then
        r.recs ++ List.replicate (x.index + 1 - r.recs.length) default else r.recs) } := by
      intro y hy
      simp only at hy
      split at hy
      · rcases List.mem_append.mp hy with hy | hy
        · exact h y hy
        · have := List.eq_of_mem_replicate hy
          subst this; decide
      · exact h y hy
    exact hp.set x.index x hx

theorem scanRecords_sizes : ∀ (fuel : Nat) (d : Bytes) (cur : Nat) (r r' : Records), SizesOK r →
    scanRecords fuel d cur r = .ok r' → SizesOK r'
  | 0, _, _, r, r', h, he => by
    simp only [scanRecords, Except.ok.injEq] at he
    exact he ▸ h
  | fuel + 1, d, cur, r, r', h, he => by
    unfold scanRecords at he
    split at he
    · simp only [] at he
      split at he
      · cases he
      · exact scanRecords_sizes fuel d _ _ r' (h.setRecord _ (unle8_lt _)) he
    · simp only [Except.ok.injEq] at he
      exact he ▸ h

theorem rebuildFreeIndex_sizes {r : Records} (h : SizesOK r) : SizesOK r.rebuildFreeIndex := by
  unfold Records.rebuildFreeIndex
  generalize List.range r.recs.length = l
  induction l generalizing r with
  | nil => exact h
  | cons i l ih =>
    simp only [List.foldl_cons]
    apply ih
    split
    · exact h.removeIndex i
    · exact h

theorem openImage_sizes (d : Bytes) (s' : Storage) (h : Storage.openImage d = .ok s') :
    SizesOK s'.records := by
  unfold Storage.openImage at h
  split at h
  · cases h
  · simp only [] at h
    split at h
    · cases h
    · split at h
      · cases h
      · split at h
        · cases h
        · split at h
          · cases h
          · rename_i r hr
            simp only [Except.ok.injEq] at h
            subst h
            apply rebuildFreeIndex_sizes
            apply scanRecords_sizes _ _ _ _ _ _ hr
            intro x hx
            simp only [Records.new, List.mem_singleton] at hx
            subst hx; decide

theorem Records.record_mem (r : Records) (i : Nat) (x : SRec) (h : r.record i = .ok x) :
    x ∈ r.recs := by
  unfold Records.record at h
  cases hi : r.recs[i]? with
  | none => rw [hi] at h; cases h
  | some y =>
    rw [hi] at h
    simp only at h
    split at h
    · cases h; exact List.mem_of_getElem? hi
    · cases h

/-- with all sizes `< 2^64`, no readable value is `2^64` bytes long -/
theorem abs_length_lt (s : Storage) (h : SizesOK s.records) (i : Nat) (v : Bytes)
    (hv : s.abs i = some v) : v.length < 2 ^ 64 := by
  cases hrec : s.records.record i with
  | error e =>
    simp [Storage.abs, Storage.value, Storage.valueAt, Storage.valueSize, hrec, Except.map] at hv
  | ok x =>
    have hx := h x (Records.record_mem _ _ _ hrec)
    simp only [Storage.abs, Storage.value, Storage.valueAt, Storage.valueSize, Storage.valueAtSize,
      hrec, Except.map] at hv
    split at hv
    · rename_i b hb
      split at hb
      · cases hb
      · cases hb
        cases hv
        rw [length_readAt]
        omega
    · cases hv

/-- After inserting a value of at least `2^64` bytes into a fresh storage (possible in the model,
not in reality), reopening either fails or loses that value. -/
theorem reopen_loses (b : Bytes) (hb : 2 ^ 64 ≤ b.length) :
    Reachable (Storage.create.step (.insert b)).1 ∧ (Storage.create.step (.insert b)).1.txn = 0 ∧
      ¬ (((Storage.create.step (.insert b)).1.step .reopen).2 = .ok none ∧
        ((Storage.create.step (.insert b)).1.step .reopen).1.abs =
          (Storage.create.step (.insert b)).1.abs) := by
  generalize hs : (Storage.create.step (.insert b)).1 = s
  have hr : Reachable s := hs ▸ .step _ _ .create (fun e => by cases e)
  obtain ⟨i, h1, _, _, _, _, _, _, h8⟩ := insertBytes_spec Storage.create b SInv_create
  have hres : (Storage.create.step (.insert b)).2 = .ok (some i) := by
    show (Storage.create.insertBytes b).2.map some = _
    rw [h1]; rfl
  have hst := stepOK allSpecs Storage.create SInv_create (.insert b) (fun e => by cases e)
  have habs : s.abs i = some b := by
    rw [← hs, hst.abs, hres]
    show Spec.set _ i (some b) i = _
    simp [Spec.set]
  have htxn : s.txn = 0 := by
    rw [← hs]
    show (Storage.create.insertBytes b).1.txn = 0
    rw [h8]
    rfl
  refine ⟨hr, htxn, ?_⟩
  rintro ⟨hok, heq⟩
  have hstep : s.step .reopen = liftUnit s.reopen := rfl
  unfold Storage.reopen at hstep
  cases ho : Storage.openImage s.data with
  | error e =>
    rw [ho] at hstep
    rw [hstep] at hok
    cases hok
  | ok s' =>
    rw [ho] at hstep
    have hs1 : (s.step .reopen).1 = { s' with trace := s.trace } := by rw [hstep]; rfl
    have hsz : SizesOK (s.step .reopen).1.records := by
      rw [hs1]; show SizesOK s'.records; exact openImage_sizes _ _ ho
    have := abs_length_lt _ hsz i b (by rw [heq]; exact habs)
    omega

/-- **Counterexample to the reopen statement without the `u64` hypothesis** (an artefact of the
unbounded model, not of the Rust code, where such a file cannot exist): the state after inserting
a `2^64`-byte value is reachable, outside any transaction, and reopening it either fails or loses
that value. -/
theorem reopen_unbounded_counterexample :
    ¬ (∀ s : Storage, Reachable s → s.txn = 0 →
        (s.step .reopen).2 = .ok none ∧ (s.step .reopen).1.abs = s.abs) := by
  intro hall
  obtain ⟨h1, h2, h3⟩ := reopen_loses (List.replicate (2 ^ 64) 0)
    (by rw [List.length_replicate]; exact Nat.le_refl _)
  exact h3 (hall _ h1 h2)

end AgdbStorage
