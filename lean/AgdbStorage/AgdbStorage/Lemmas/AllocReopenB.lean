import AgdbStorage.Lemmas.AllocReopenA
/-
Reopen, part B: `scanRecords` walks the blocks of a well-formed image and rebuilds the slot table
(without the free-index list) and the free map.
-/
namespace AgdbStorage

/-! ### `set_record` -/

theorem getD_append_replicate_default (l : List SRec) (n j : Nat) :
    (l ++ List.replicate n default).getD j default = l.getD j default := by
  simp only [List.getD_eq_getElem?_getD]
  by_cases h : j < l.length
  · rw [List.getElem?_append_left h]
  · rw [List.getElem?_append_right (by omega), List.getElem?_eq_none (l := l) (by omega),
      List.getElem?_replicate]
    split <;> rfl

theorem Records.setRecord_zero (A : Records) (x : SRec) (hx : x.index = 0) :
    A.setRecord x = A.markFree x.pos x.size := by
  unfold Records.setRecord
  simp [hx]

theorem Records.setRecord_free (A : Records) (x : SRec) (hx : x.index ≠ 0) :
    (A.setRecord x).free = A.free := by
  unfold Records.setRecord
  have : (x.index == 0) = false := by simp [hx]
  rw [this]
  rfl

theorem Records.setRecord_get (A : Records) (x : SRec) (hx : x.index ≠ 0) (j : Nat) :
    (A.setRecord x).get j = if j = x.index then x else A.get j := by
  unfold Records.setRecord
  have : (x.index == 0) = false := by simp [hx]
  rw [this]
  simp only [Bool.false_eq_true, ↓reduceIte, Records.get, getD_set]
  by_cases hl : A.recs.length ≤ x.index
  · rw [if_pos hl]
    by_cases hj : j = x.index
    · subst hj
      rw [if_pos ⟨rfl, by simp; omega⟩, if_pos rfl]
    · rw [if_neg (fun h => hj h.1.symm), if_neg hj, getD_append_replicate_default]
  · rw [if_neg hl]
    by_cases hj : j = x.index
    · subst hj
      rw [if_pos ⟨rfl, by omega⟩, if_pos rfl]
    · rw [if_neg (fun h => hj h.1.symm), if_neg hj]

theorem Records.setRecord_pos (A : Records) (x : SRec) (h : 0 < A.recs.length) :
    0 < (A.setRecord x).recs.length := by
  unfold Records.setRecord
  split
  · exact h
  · simp only [List.length_set]
    split
    · simp only [List.length_append, List.length_replicate]; omega
    · exact h

/-! ### the scan invariant -/

/-- the accumulator `A` holds exactly the blocks of `R` that start before `c` -/
structure Scanned (R : Records) (c : Nat) (A : Records) : Prop where
  free : ∀ p z, (p, z) ∈ A.free ↔ ((p, z) ∈ R.free ∧ p < c)
  sorted : FSorted A.free
  pos : 0 < A.recs.length
  get_in : ∀ j, R.live j → (R.get j).pos < c → A.get j = R.get j
  get_out : ∀ j, ¬ (R.live j ∧ (R.get j).pos < c) → A.get j = default

theorem Records.new_get (j : Nat) : Records.new.get j = default := by
  unfold Records.new Records.get
  cases j with
  | zero => rfl
  | succ n => rfl

theorem Scanned.init {R : Records} {len : Nat} (h : Lay R.Blk len) : Scanned R 24 Records.new := by
  refine ⟨?_, ?_, ?_, ?_, ?_⟩
  · intro p z
    constructor
    · intro hm; simp [Records.new] at hm
    · rintro ⟨hm, hp⟩
      have := h.bnd 0 p z (Records.Blk_zero.mpr hm)
      omega
  · simp [Records.new, FSorted]
  · simp [Records.new]
  · intro j hl hp
    have := h.bnd j _ _ (Records.Blk_of_live hl)
    omega
  · intro j _; exact Records.new_get j

theorem SRec.eta (x : SRec) : x = ⟨x.index, x.pos, x.size⟩ := by cases x; rfl

theorem Scanned.step {R : Records} {len c i z : Nat} {A : Records} (h : Lay R.Blk len)
    (hA : Scanned R c A) (hb : R.Blk i c z) : Scanned R (c + 16 + z) (A.setRecord ⟨i, c, z⟩) := by
  by_cases hi : i = 0
  · -- a free region
    subst hi
    have hm : (c, z) ∈ R.free := Records.Blk_zero.mp hb
    rw [Records.setRecord_zero _ _ rfl]
    have hnone : ∀ j, R.live j → ¬ (c ≤ (R.get j).pos ∧ (R.get j).pos < c + 16 + z) := by
      intro j hl hc
      have hj := Records.Blk_of_live hl
      rcases h.disj _ _ _ _ _ _ hb hj with ⟨e, _, _⟩ | h3 | h3
      · exact hl.1 e.symm
      · omega
      · omega
    refine ⟨?_, ?_, hA.pos, ?_, ?_⟩
    · intro p z'
      show (p, z') ∈ A.free.insert c z ↔ _
      rw [FreeMap.mem_insert _ _ _ hA.sorted, hA.free]
      constructor
      · rintro (e | ⟨⟨hm', hp⟩, _⟩)
        · simp only [Prod.mk.injEq] at e
          obtain ⟨e1, e2⟩ := e
          subst e1 e2
          exact ⟨hm, by omega⟩
        · exact ⟨hm', by omega⟩
      · rintro ⟨hm', hp⟩
        by_cases hpc : p < c
        · right; exact ⟨⟨hm', hpc⟩, by simp only; omega⟩
        · left
          have hb' : R.Blk 0 p z' := Records.Blk_zero.mpr hm'
          rcases h.disj _ _ _ _ _ _ hb hb' with ⟨_, e2, e3⟩ | h3 | h3
          · rw [e2, e3]
          · omega
          · omega
    · exact FreeMap.sorted_insert _ _ _ hA.sorted
    · intro j hl hp
      show A.get j = R.get j
      have := hnone j hl
      exact hA.get_in j hl (by omega)
    · intro j hn
      show A.get j = default
      apply hA.get_out
      rintro ⟨hl, hp⟩
      exact hn ⟨hl, by omega⟩
  · -- a live record
    obtain ⟨hl, hp, hz⟩ := Records.Blk_live hb hi
    have hget : R.get i = ⟨i, c, z⟩ := by
      rw [SRec.eta (R.get i), hl.2, hp, hz]
    have hother : ∀ j, j ≠ i → R.live j → ¬ (c ≤ (R.get j).pos ∧ (R.get j).pos < c + 16 + z) := by
      intro j hj hlj hc
      have hbj := Records.Blk_of_live hlj
      rcases h.disj _ _ _ _ _ _ hb hbj with ⟨e, _, _⟩ | h3 | h3
      · exact hj e.symm
      · omega
      · omega
    refine ⟨?_, ?_, Records.setRecord_pos _ _ hA.pos, ?_, ?_⟩
    · intro p z'
      rw [Records.setRecord_free _ _ (by exact hi), hA.free]
      constructor
      · rintro ⟨hm, hlt⟩; exact ⟨hm, by omega⟩
      · rintro ⟨hm, hlt⟩
        refine ⟨hm, ?_⟩
        have hb' : R.Blk 0 p z' := Records.Blk_zero.mpr hm
        rcases h.disj _ _ _ _ _ _ hb hb' with ⟨e, _, _⟩ | h3 | h3
        · exact absurd e hi
        · omega
        · have := h.bnd 0 p z' hb'; omega
    · rw [Records.setRecord_free _ _ (by exact hi)]; exact hA.sorted
    · intro j hlj hpj
      rw [Records.setRecord_get _ _ (by exact hi)]
      by_cases hj : j = i
      · subst hj; rw [if_pos rfl, hget]
      · rw [if_neg hj]
        have := hother j hj hlj
        exact hA.get_in j hlj (by omega)
    · intro j hn
      rw [Records.setRecord_get _ _ (by exact hi)]
      by_cases hj : j = i
      · subst hj
        exact absurd ⟨hl, by omega⟩ hn
      · rw [if_neg hj]
        apply hA.get_out
        rintro ⟨hlj, hpj⟩
        exact hn ⟨hlj, by omega⟩

/-! ### the scan -/

theorem scanRecords_spec {R : Records} {d : Bytes} (hR : RInv R d) (hl : d.length < 2 ^ 64)
    (hr : R.recs.length ≤ 2 ^ 64) :
    ∀ (fuel c : Nat) (A : Records), Bdy R.Blk c → Scanned R c A → d.length - c < fuel →
      ∃ A', scanRecords fuel d c A = .ok A' ∧ Scanned R d.length A' := by
  intro fuel
  induction fuel with
  | zero => intro c A _ _ hf; omega
  | succ fuel ih =>
    intro c A hb hA hf
    have hle := hR.lay.bdy_le hb
    by_cases hc : c < d.length
    · obtain ⟨i, z, hblk⟩ := hR.lay.bdy_block hb hc
      have hdec := hR.decode hl hr hblk
      have hbn := hR.lay.bnd i c z hblk
      have hnot : ¬ (d.length - c + 16 < z) := by omega
      obtain ⟨A', h1, h2⟩ := ih (c + 16 + z) (A.setRecord ⟨i, c, z⟩) (Bdy.next hblk)
        (hA.step hR.lay hblk) (by omega)
      refine ⟨A', ?_, h2⟩
      rw [scanRecords]
      simp only [hdec, RECORD_SIZE, SRec.fin]
      rw [if_pos hc, if_neg hnot]
      exact h1
    · have e : c = d.length := by omega
      subst e
      refine ⟨A, ?_, hA⟩
      rw [scanRecords]
      simp only [Nat.lt_irrefl, ↓reduceIte]

end AgdbStorage
