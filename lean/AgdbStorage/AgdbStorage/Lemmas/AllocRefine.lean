import AgdbStorage.Lemmas.AllocOps2
/-
One step of any operation, from a state satisfying the invariant: the invariant is preserved and
the observable map changes as the specification says.
-/
namespace AgdbStorage

/-- the per-branch lemmas the composition depends on -/
structure AllSpecs : Prop where
  enlarge : EnlargeSpec
  shrink : ShrinkSpec
  insert : InsertSpec
  optimize : OptimizeSpec
  reopen : ReopenSpec

theorem Storage.abs_congr {s s' : Storage} (hr : s'.records = s.records) (hd : s'.data = s.data) :
    s'.abs = s.abs := by
  funext i
  simp only [Storage.abs, Storage.value, Storage.valueAt, Storage.valueSize, Storage.valueAtSize,
    hr, hd]

theorem Storage.abs_live {s : Storage} (hs : SInv s) {i : Nat} (hl : s.records.live i) :
    s.abs i = some (s.val i) := by rw [Storage.abs_eq s hs.idx, if_pos hl]

theorem Storage.abs_dead {s : Storage} (hs : SInv s) {i : Nat} (hl : ¬ s.records.live i) :
    s.abs i = none := by rw [Storage.abs_eq s hs.idx, if_neg hl]

theorem Storage.abs_none_iff {s : Storage} (hs : SInv s) (i : Nat) :
    s.abs i = none ↔ ¬ s.records.live i := by
  rw [Storage.abs_eq s hs.idx]
  by_cases hl : s.records.live i <;> simp [hl]

theorem ModOK.abs_set {s s' : Storage} {i : Nat} {v' : Bytes} (h : ModOK s s' i v') (hs : SInv s)
    (hl : s.records.live i) : s'.abs = Spec.set s.abs i (some v') := by
  funext j
  rw [Storage.abs_eq s' h.inv.idx]
  unfold Spec.set
  by_cases hj : j = i
  · subst hj
    rw [if_pos ((h.live j).mpr hl), if_pos rfl, h.vali]
  · rw [if_neg hj, Storage.abs_eq s hs.idx]
    by_cases hlj : s.records.live j
    · rw [if_pos ((h.live j).mpr hlj), if_pos hlj, h.valo j hj hlj]
    · rw [if_neg (fun c => hlj ((h.live j).mp c)), if_neg hlj]

/-- the four claims about one step -/
structure StepOK (s : Storage) (op : SOp) : Prop where
  inv : SInv (s.step op).1
  abs : (s.step op).1.abs = specStep s.abs op (s.step op).2
  fails : (∃ e, (s.step op).2 = .error e) ↔ specFails s.abs s.txn op
  fresh : ∀ b i, op = .insert b → (s.step op).2 = .ok (some i) → s.abs i = none ∧ i ≠ 0

theorem stepOK_insert (A : AllSpecs) (s : Storage) (hs : SInv s) (b : Bytes) :
    StepOK s (.insert b) := by
  obtain ⟨i, h1, h2, h3, h4, h5, h6, h7, _⟩ := A.insert s b hs
  have hres : (s.step (.insert b)).2 = .ok (some i) := by
    show (s.insertBytes b).2.map some = _
    rw [h1]; rfl
  have hst : (s.step (.insert b)).1 = (s.insertBytes b).1 := rfl
  refine ⟨by rw [hst]; exact h4, ?_, ?_, ?_⟩
  · rw [hres, hst]
    show _ = Spec.set s.abs i (some b)
    funext j
    rw [Storage.abs_eq _ h4.idx]
    unfold Spec.set
    by_cases hj : j = i
    · subst hj
      rw [if_pos ((h5 j).mpr (Or.inr rfl)), if_pos rfl, h6]
    · rw [if_neg hj, Storage.abs_eq s hs.idx]
      by_cases hlj : s.records.live j
      · rw [if_pos ((h5 j).mpr (Or.inl hlj)), if_pos hlj, h7 j hlj]
      · rw [if_neg (fun c => ((h5 j).mp c).elim hlj hj), if_neg hlj]
  · rw [hres]
    constructor
    · rintro ⟨e, he⟩; cases he
    · intro hf; exact hf.elim
  · intro b' i' _ hi'
    rw [hres] at hi'
    cases hi'
    exact ⟨Storage.abs_dead hs h3, h2⟩

/-- shape shared by `insertAt`, `replace`, `resize`: modify slot `i` if live, else fail untouched -/
theorem stepOK_of_mod (s : Storage) (hs : SInv s) (op : SOp) (i : Nat) (res : Res Unit)
    (hstep : s.step op = liftUnit res) (hop : ∀ b, op ≠ .insert b) (C : Prop) (v' : Bytes)
    (hspecF : specFails s.abs s.txn op ↔ ¬ C)
    (hC : C → s.records.live i ∧ res.2 = .ok () ∧ ModOK s res.1 i v' ∧
      specStep s.abs op (.ok none) = Spec.set s.abs i (some v'))
    (hN : ¬ C → ∃ e, res.2 = .error e ∧ SInv res.1 ∧ res.1.abs = s.abs) :
    StepOK s op := by
  have h1 : (s.step op).1 = res.1 := by rw [hstep]; rfl
  have h2 : (s.step op).2 = res.2.map fun _ => none := by rw [hstep]; rfl
  by_cases hc : C
  · obtain ⟨hl, hok, hM, hsp⟩ := hC hc
    have h2' : (s.step op).2 = .ok none := by rw [h2, hok]; rfl
    refine ⟨by rw [h1]; exact hM.inv, ?_, ?_, ?_⟩
    · rw [h1, h2', hsp]; exact hM.abs_set hs hl
    · rw [h2', hspecF]
      constructor
      · rintro ⟨e, he⟩; cases he
      · intro hn; exact absurd hc hn
    · intro b _ hb; exact absurd hb (hop b)
  · obtain ⟨e, herr, hinv, habs⟩ := hN hc
    have h2' : (s.step op).2 = .error e := by rw [h2, herr]; rfl
    refine ⟨by rw [h1]; exact hinv, ?_, ?_, ?_⟩
    · rw [h1, h2', habs]; rfl
    · rw [h2', hspecF]
      exact ⟨fun _ => hc, fun _ => ⟨e, rfl⟩⟩
    · intro b _ hb; exact absurd hb (hop b)

theorem stepOK_insertAt (A : AllSpecs) (s : Storage) (hs : SInv s) (i off : Nat) (b : Bytes) :
    StepOK s (.insertAt i off b) := by
  apply stepOK_of_mod s hs _ i (s.insertBytesAt i off b) rfl (fun _ h => by cases h)
    (s.records.live i) (specInsertAt (s.val i) off b)
  · show s.abs i = none ↔ _
    exact Storage.abs_none_iff hs i
  · intro hl
    obtain ⟨a1, a2⟩ := Storage.insertBytesAt_spec A.enlarge s hs i off b hl
    refine ⟨hl, a1, a2, ?_⟩
    show (match s.abs i with | some v => _ | none => _) = _
    rw [Storage.abs_live hs hl]
  · intro hl
    rw [Storage.insertBytesAt_dead s hs.idx i off b hl]
    exact ⟨_, rfl, hs, rfl⟩

theorem stepOK_resize (A : AllSpecs) (s : Storage) (hs : SInv s) (i n : Nat) :
    StepOK s (.resize i n) := by
  apply stepOK_of_mod s hs _ i (s.resizeValue i n) rfl (fun _ h => by cases h)
    (s.records.live i) ((s.val i).take n ++ List.replicate (n - (s.val i).length) 0)
  · show s.abs i = none ↔ _
    exact Storage.abs_none_iff hs i
  · intro hl
    obtain ⟨a1, a2⟩ := Storage.resizeValue_spec A.enlarge A.shrink s hs i n hl
    refine ⟨hl, a1, a2, ?_⟩
    show (match s.abs i with | some v => _ | none => _) = _
    rw [Storage.abs_live hs hl]
  · intro hl
    rw [Storage.resizeValue_dead s hs.idx i n hl]
    exact ⟨_, rfl, hs, rfl⟩

theorem stepOK_replace (A : AllSpecs) (s : Storage) (hs : SInv s) (i : Nat) (b : Bytes) :
    StepOK s (.replace i b) := by
  apply stepOK_of_mod s hs _ i (s.replace i b) rfl (fun _ h => by cases h)
    (s.records.live i) b
  · show s.abs i = none ↔ _
    exact Storage.abs_none_iff hs i
  · intro hl
    obtain ⟨a1, a2⟩ := Storage.replace_spec A.enlarge A.shrink s hs i b hl
    exact ⟨hl, a1, a2, rfl⟩
  · intro hl
    rw [Storage.replace_dead s hs.idx i b hl]
    exact ⟨_, rfl, hs.bump, Storage.abs_congr rfl rfl⟩

theorem stepOK_moveAt (A : AllSpecs) (s : Storage) (hs : SInv s) (i f t n : Nat) :
    StepOK s (.moveAt i f t n) := by
  apply stepOK_of_mod s hs _ i (s.moveAt i f t n) rfl (fun _ h => by cases h)
    (s.records.live i ∧ f + n ≤ (s.val i).length) (specMove (s.val i) f t n)
  · show (match s.abs i with | none => True | some v => f + n > v.length) ↔ _
    by_cases hl : s.records.live i
    · rw [Storage.abs_live hs hl]
      simp only [hl, true_and]
      omega
    · rw [Storage.abs_dead hs hl]
      simp [hl]
  · rintro ⟨hl, hb⟩
    obtain ⟨a1, a2⟩ := Storage.moveAt_spec A.enlarge s hs i f t n hl hb
    refine ⟨hl, a1, a2, ?_⟩
    show (match s.abs i with | some v => _ | none => _) = _
    rw [Storage.abs_live hs hl]
  · intro hc
    obtain ⟨m1, e, m2⟩ := Storage.moveAt_fail s hs i f t n hc
    exact ⟨e, m2, by rw [m1]; exact hs, by rw [m1]⟩

theorem stepOK_remove (s : Storage) (hs : SInv s) (i : Nat) : StepOK s (.remove i) := by
  have h1 : (s.step (.remove i)).1 = (s.remove i).1 := rfl
  have h2 : (s.step (.remove i)).2 = (s.remove i).2.map fun _ => none := rfl
  by_cases hl : s.records.live i
  · obtain ⟨r0, r1, r2, r3, _⟩ := Storage.remove_spec s hs i hl
    have h2' : (s.step (.remove i)).2 = .ok none := by rw [h2, r0]; rfl
    refine ⟨by rw [h1]; exact r1, ?_, ?_, fun b _ hb => by cases hb⟩
    · rw [h1, h2']
      show _ = Spec.set s.abs i none
      funext j
      rw [Storage.abs_eq _ r1.idx]
      unfold Spec.set
      by_cases hj : j = i
      · subst hj
        rw [if_neg (fun c => ((r2 j).mp c).2 rfl), if_pos rfl]
      · rw [if_neg hj, Storage.abs_eq s hs.idx]
        by_cases hlj : s.records.live j
        · rw [if_pos ((r2 j).mpr ⟨hlj, hj⟩), if_pos hlj, r3 j hlj hj]
        · rw [if_neg (fun c => hlj ((r2 j).mp c).1), if_neg hlj]
    · rw [h2']
      show _ ↔ s.abs i = none
      rw [Storage.abs_none_iff hs]
      constructor
      · rintro ⟨e, he⟩; cases he
      · intro hn; exact absurd hl hn
  · have he := Storage.remove_dead s hs.idx i hl
    have h2' : (s.step (.remove i)).2 = .error .notFound := by rw [h2, he]; rfl
    refine ⟨by rw [h1, he]; exact hs, ?_, ?_, fun b _ hb => by cases hb⟩
    · rw [h1, h2', he]; rfl
    · rw [h2']
      show _ ↔ s.abs i = none
      rw [Storage.abs_none_iff hs]
      exact ⟨fun _ => hl, fun _ => ⟨_, rfl⟩⟩

theorem stepOK_optimize (A : AllSpecs) (s : Storage) (hs : SInv s) : StepOK s .optimize := by
  obtain ⟨o1, o2, o3, o4, _⟩ := A.optimize s hs
  have h1 : (s.step .optimize).1 = s.optimize.1 := rfl
  have h2 : (s.step .optimize).2 = .ok none := by
    show s.optimize.2.map (fun _ => none) = _
    rw [o1]; rfl
  refine ⟨by rw [h1]; exact o2, ?_, ?_, fun b _ hb => by cases hb⟩
  · rw [h1, h2]
    show _ = s.abs
    funext j
    rw [Storage.abs_eq _ o2.idx, Storage.abs_eq s hs.idx]
    by_cases hlj : s.records.live j
    · rw [if_pos ((o3 j).mpr hlj), if_pos hlj, o4 j hlj]
    · rw [if_neg (fun c => hlj ((o3 j).mp c)), if_neg hlj]
  · rw [h2]
    constructor
    · rintro ⟨e, he⟩; cases he
    · intro hf; exact hf.elim

theorem stepOK_reopen (A : AllSpecs) (s : Storage) (hs : SInv s) (hf : Fits s) :
    StepOK s .reopen ∧ (s.step .reopen).2 = .ok none := by
  obtain ⟨s', p1, p2, p3, _, p5, p6⟩ := A.reopen s hs hf
  have hre : s.reopen = ({ s' with trace := s.trace }, .ok ()) := by
    unfold Storage.reopen; rw [p1]
  have h1 : (s.step .reopen).1 = { s' with trace := s.trace } := by
    show s.reopen.1 = _; rw [hre]
  have h2 : (s.step .reopen).2 = .ok none := by
    show s.reopen.2.map (fun _ => none) = _; rw [hre]; rfl
  have hinv : SInv ({ s' with trace := s.trace } : Storage) := p2
  refine ⟨⟨by rw [h1]; exact hinv, ?_, ?_, fun b _ hb => by cases hb⟩, h2⟩
  · rw [h1, h2]
    show _ = s.abs
    funext j
    rw [Storage.abs_eq _ hinv.idx, Storage.abs_eq s hs.idx]
    show (if s'.records.live j then some (s'.val j) else none) = _
    by_cases hlj : s.records.live j
    · rw [if_pos ((p5 j).mpr hlj), if_pos hlj, p6 j hlj]
    · rw [if_neg (fun c => hlj ((p5 j).mp c)), if_neg hlj]
  · rw [h2]
    constructor
    · rintro ⟨e, he⟩; cases he
    · intro hf; exact hf.elim

theorem stepOK_begin (s : Storage) (hs : SInv s) : StepOK s .begin := by
  refine ⟨hs, ?_, ?_, fun b _ hb => by cases hb⟩
  · show s.bump.abs = s.abs
    exact Storage.abs_congr rfl rfl
  · constructor
    · rintro ⟨e, he⟩; cases he
    · intro hf; exact hf.elim

theorem stepOK_commit (s : Storage) (hs : SInv s) (id : Nat) : StepOK s (.commit id) := by
  have h1 : (s.step (.commit id)).1 = (s.commit id).1 := rfl
  have h2 : (s.step (.commit id)).2 = (s.commit id).2.map fun _ => none := rfl
  by_cases hid : s.txn = id
  · obtain ⟨c1, c2, c3, _⟩ := Storage.commit_ok s id hid
    have h2' : (s.step (.commit id)).2 = .ok none := by rw [h2, c1]; rfl
    refine ⟨by rw [h1]; exact hs.of_eq c2 c3, ?_, ?_, fun b _ hb => by cases hb⟩
    · rw [h1, h2']; exact Storage.abs_congr c2 c3
    · rw [h2']
      show _ ↔ s.txn ≠ id
      constructor
      · rintro ⟨e, he⟩; cases he
      · intro hn; exact absurd hid hn
  · have he := Storage.commit_err s id hid
    have h2' : (s.step (.commit id)).2 = .error .notAllowed := by rw [h2, he]; rfl
    refine ⟨by rw [h1, he]; exact hs, ?_, ?_, fun b _ hb => by cases hb⟩
    · rw [h1, h2', he]; rfl
    · rw [h2']
      show _ ↔ s.txn ≠ id
      exact ⟨fun _ => hid, fun _ => ⟨_, rfl⟩⟩

/-- every operation, from every state satisfying the invariant -/
theorem stepOK (A : AllSpecs) (s : Storage) (hs : SInv s) (op : SOp)
    (hop : op = .reopen → Fits s) : StepOK s op := by
  cases op with
  | insert b => exact stepOK_insert A s hs b
  | insertAt i off b => exact stepOK_insertAt A s hs i off b
  | moveAt i f t n => exact stepOK_moveAt A s hs i f t n
  | remove i => exact stepOK_remove s hs i
  | replace i b => exact stepOK_replace A s hs i b
  | resize i n => exact stepOK_resize A s hs i n
  | optimize => exact stepOK_optimize A s hs
  | reopen => exact (stepOK_reopen A s hs (hop rfl)).1
  | begin => exact stepOK_begin s hs
  | commit id => exact stepOK_commit s hs id

end AgdbStorage
