import AgdbStorage.Lemmas.AllocReopenB
/-
Reopen, part C: `rebuildFreeIndex` threads the unused slots into the free-index list, and the
final theorem `reopen_spec : ReopenSpec`.
-/
namespace AgdbStorage

/-! ### `rebuild_free_index` -/

/-- one iteration of the loop of `rebuildFreeIndex` -/
def rbStep (acc : Records) (i : Nat) : Records :=
  if i != 0 && (acc.get i).index == 0 then acc.removeIndex i else acc

theorem Records.rebuildFreeIndex_eq (r : Records) :
    r.rebuildFreeIndex = (List.range r.recs.length).foldl rbStep r := rfl

/-- loop invariant: slots `< n` processed -/
structure Rb (A : Records) (n : Nat) (acc : Records) : Prop where
  idx : IdxInv acc
  len : acc.recs.length = A.recs.length
  free : acc.free = A.free
  live : ∀ j, acc.live j ↔ A.live j
  get_live : ∀ j, A.live j → acc.get j = A.get j
  small : ∀ k, ¬ A.live k → (acc.get k).index = 0 ∨ (acc.get k).index < n
  todo : ∀ k, n ≤ k → k ≠ 0 → ¬ A.live k → (acc.get k).index = 0

theorem not_live_zero (r : Records) : ¬ r.live 0 := fun h => h.1 rfl

theorem IdxInv.of_zero {A : Records} (hp : 0 < A.recs.length)
    (hz : ∀ k, ¬ A.live k → (A.get k).index = 0) : IdxInv A := by
  refine ⟨hp, ?_, ?_⟩
  · intro i _ hnl
    rw [hz i hnl]
    exact ⟨hp, not_live_zero A⟩
  · intro i j _ _ hnl _ _ hne
    exact absurd (hz i hnl) hne

theorem Rb.init {A : Records} (hp : 0 < A.recs.length)
    (hz : ∀ k, ¬ A.live k → (A.get k).index = 0) : Rb A 0 A :=
  ⟨IdxInv.of_zero hp hz, rfl, rfl, fun _ => Iff.rfl, fun _ _ => rfl, fun k hk => Or.inl (hz k hk),
    fun k _ _ hk => hz k hk⟩

theorem Rb.weaken {A acc : Records} {n : Nat} (h : Rb A n acc) : Rb A (n + 1) acc := by
  refine ⟨h.idx, h.len, h.free, h.live, h.get_live, ?_, ?_⟩
  · intro k hk
    rcases h.small k hk with e | e
    · exact Or.inl e
    · exact Or.inr (by omega)
  · intro k hk hk0 hkl
    exact h.todo k (by omega) hk0 hkl

theorem Rb.step {A acc : Records} {n : Nat} (hn : n < A.recs.length) (h : Rb A n acc) :
    Rb A (n + 1) (rbStep acc n) := by
  unfold rbStep
  by_cases hn0 : n = 0
  · subst hn0
    simp only [bne_self_eq_false, Bool.false_and, Bool.false_eq_true, ↓reduceIte]
    exact h.weaken
  · have hne : (n != 0) = true := by simp [hn0]
    rw [hne, Bool.true_and]
    by_cases hl : A.live n
    · have : (acc.get n).index = n := by rw [h.get_live n hl]; exact hl.2
      have hc : ((acc.get n).index == 0) = false := by rw [this]; simp [hn0]
      rw [hc]
      simp only [Bool.false_eq_true, ↓reduceIte]
      exact h.weaken
    · have hz : (acc.get n).index = 0 := h.todo n (Nat.le_refl _) hn0 hl
      have hc : ((acc.get n).index == 0) = true := by rw [hz]; rfl
      rw [hc]
      simp only [↓reduceIte]
      have hn' : n < acc.recs.length := by rw [h.len]; exact hn
      have hno : ∀ k, k < acc.recs.length → ¬ acc.live k → (acc.get k).index ≠ n := by
        intro k _ hk
        rw [h.live] at hk
        rcases h.small k hk with e | e <;> omega
      have h0 : ¬ A.live 0 := not_live_zero A
      have hget := fun j => Records.removeIndex_get acc n j hn' hn0
      refine ⟨Records.removeIndex_idx acc h.idx n hn' hn0 hno, ?_, ?_, ?_, ?_, ?_, ?_⟩
      · rw [Records.removeIndex_length]; exact h.len
      · rw [Records.removeIndex_free]; exact h.free
      · intro j
        rw [Records.removeIndex_live acc n hn' hn0
          (hno 0 h.idx.pos (not_live_zero acc)), h.live]
        constructor
        · exact fun hh => hh.1
        · intro hj
          refine ⟨hj, ?_⟩
          intro e
          subst e
          exact hl hj
      · intro j hj
        have hj0 : j ≠ 0 := hj.1
        have hjn : j ≠ n := by intro e; subst e; exact hl hj
        rw [hget, if_neg hj0, if_neg hjn]
        exact h.get_live j hj
      · intro k hk
        rw [hget]
        by_cases hk0 : k = 0
        · subst hk0
          simp only [↓reduceIte]
          exact Or.inr (Nat.lt_succ_self n)
        · rw [if_neg hk0]
          by_cases hkn : k = n
          · subst hkn
            simp only [↓reduceIte]
            rcases h.small 0 h0 with e | e
            · exact Or.inl e
            · exact Or.inr (by omega)
          · rw [if_neg hkn]
            rcases h.small k hk with e | e
            · exact Or.inl e
            · exact Or.inr (by omega)
      · intro k hk hk0 hkl
        rw [hget, if_neg hk0, if_neg (by omega)]
        exact h.todo k (by omega) hk0 hkl

theorem Rb.fold {A : Records} (hp : 0 < A.recs.length)
    (hz : ∀ k, ¬ A.live k → (A.get k).index = 0) :
    ∀ n, n ≤ A.recs.length → Rb A n ((List.range n).foldl rbStep A) := by
  intro n
  induction n with
  | zero => intro _; exact Rb.init hp hz
  | succ n ih =>
    intro hn
    rw [List.range_succ, List.foldl_append]
    simp only [List.foldl_cons, List.foldl_nil]
    exact (ih (by omega)).step (by omega)

/-- the table produced by the scan of a full image -/
structure Clean (R A : Records) : Prop where
  pos : 0 < A.recs.length
  get_in : ∀ j, R.live j → A.get j = R.get j
  get_out : ∀ j, ¬ R.live j → A.get j = default

theorem Clean.of_scanned {R A : Records} {len : Nat} (hL : Lay R.Blk len)
    (h : Scanned R len A) : Clean R A := by
  refine ⟨h.pos, ?_, ?_⟩
  · intro j hl
    have := hL.bnd j _ _ (Records.Blk_of_live hl)
    exact h.get_in j hl (by omega)
  · intro j hn
    exact h.get_out j (fun hh => hn hh.1)

theorem Clean.live {R A : Records} (h : Clean R A) (j : Nat) : A.live j ↔ R.live j := by
  by_cases hl : R.live j
  · have : A.live j := ⟨hl.1, by rw [h.get_in j hl]; exact hl.2⟩
    exact ⟨fun _ => hl, fun _ => this⟩
  · constructor
    · intro ha
      have h2 := ha.2
      rw [h.get_out j hl] at h2
      exact absurd h2.symm ha.1
    · intro hh; exact absurd hh hl

theorem Clean.zero {R A : Records} (h : Clean R A) (k : Nat) (hk : ¬ A.live k) :
    (A.get k).index = 0 := by
  rw [h.live] at hk
  rw [h.get_out k hk]
  rfl

theorem Clean.rebuild {R A : Records} (h : Clean R A) :
    IdxInv A.rebuildFreeIndex ∧ A.rebuildFreeIndex.free = A.free ∧
      (∀ j, A.rebuildFreeIndex.live j ↔ R.live j) ∧
      (∀ j, R.live j → A.rebuildFreeIndex.get j = R.get j) := by
  have hb := Rb.fold h.pos h.zero A.recs.length (Nat.le_refl _)
  rw [← Records.rebuildFreeIndex_eq] at hb
  refine ⟨hb.idx, hb.free, fun j => (hb.live j).trans (h.live j), ?_⟩
  intro j hl
  rw [hb.get_live j ((h.live j).mpr hl), h.get_in j hl]

/-! ### the block predicate depends only on `live`, `get` on live slots, and the free members -/

theorem Records.Blk_congr {R R' : Records} (hlive : ∀ j, R'.live j ↔ R.live j)
    (hget : ∀ j, R.live j → R'.get j = R.get j)
    (hfree : ∀ p z, (p, z) ∈ R'.free ↔ (p, z) ∈ R.free) (i p z : Nat) :
    R'.Blk i p z ↔ R.Blk i p z := by
  unfold Records.Blk
  rw [hlive, hfree]
  constructor
  · rintro (⟨hl, h1, h2⟩ | hh)
    · rw [hget i hl] at h1 h2
      exact Or.inl ⟨hl, h1, h2⟩
    · exact Or.inr hh
  · rintro (⟨hl, h1, h2⟩ | hh)
    · rw [← hget i hl] at h1 h2
      exact Or.inl ⟨hl, h1, h2⟩
    · exact Or.inr hh

/-! ### the theorem -/

theorem reopen_spec : ReopenSpec := by
  intro s hs hf
  have hs' : RInv s.records s.data := hs
  obtain ⟨hv1, hv2⟩ := version_decode s.data hs'.ver
  have h24 := hs'.lay.len24
  obtain ⟨A, hscan, hA⟩ := scanRecords_spec hs' hf.1 hf.2 (s.data.length + 1) 24 Records.new
    (Or.inl rfl) (Scanned.init hs'.lay) (by omega)
  have hC := Clean.of_scanned hs'.lay hA
  obtain ⟨hidx, hfree, hlive, hget⟩ := hC.rebuild
  have hfm : ∀ p z, (p, z) ∈ A.rebuildFreeIndex.free ↔ (p, z) ∈ s.records.free := by
    intro p z
    rw [hfree, hA.free]
    constructor
    · exact fun hh => hh.1
    · intro hm
      refine ⟨hm, ?_⟩
      have := hs'.lay.bnd 0 p z (Records.Blk_zero.mpr hm)
      omega
  have hblk := Records.Blk_congr hlive hget hfm
  have hinv : RInv A.rebuildFreeIndex s.data :=
    hs'.congr hidx (by rw [hfree]; exact hA.sorted) hblk
  refine ⟨{ data := s.data, records := A.rebuildFreeIndex, txn := 0, version := 1, trace := [] },
    ?_, hinv, rfl, rfl, hlive, ?_⟩
  · unfold Storage.openImage
    simp only [RECORD_SIZE, CURRENT_VERSION, hv1, hv2, Nat.reduceAdd]
    rw [if_neg (by omega), hscan]
    rfl
  · intro j hl
    show readAt s.data ((A.rebuildFreeIndex.get j).pos + 16) (A.rebuildFreeIndex.get j).size = _
    rw [hget j hl]
    rfl

end AgdbStorage
