import AgdbStorage.Lemmas.AllocSpecs
import AgdbStorage.Lemmas.AllocRemove
/-
The public operations of `Storage` composed from the per-branch lemmas:
`insert_bytes_at`, `resize_value`, `replace`, `remove` (effects on `live` / `val`).
-/
namespace AgdbStorage

theorem SInv.of_eq {s s' : Storage} (h : SInv s) (hr : s'.records = s.records)
    (hd : s'.data = s.data) : SInv s' := by
  unfold SInv; rw [hr, hd]; exact h

theorem Storage.val_of_eq {s s' : Storage} (hr : s'.records = s.records) (hd : s'.data = s.data)
    (j : Nat) : s'.val j = s.val j := by
  unfold Storage.val; rw [hr, hd]

/-- reading a window of a file after a write inside the window -/
theorem readAt_writeAt_inside (d bs : Bytes) (p n off : Nat) (h1 : off + bs.length ≤ n)
    (h2 : p + n ≤ d.length) :
    readAt (writeAt d (p + off) bs) p n = writeAt (readAt d p n) off bs := by
  have hl : (readAt d p n).length = n := by rw [length_readAt]; omega
  apply List.ext_getElem?
  intro k
  have e1 := getElem?_writeAt d bs (p + off) (p + k) (by omega)
  have e2 := getElem?_writeAt (readAt d p n) bs off k (by omega)
  rw [getElem?_readAt, e1, e2, getElem?_readAt]
  by_cases hk : k < n
  · simp only [hk, ↓reduceIte]
    by_cases c1 : k < off
    · rw [if_pos c1, if_pos (by omega)]
    · rw [if_neg c1, if_neg (by omega)]
      by_cases c2 : k < off + bs.length
      · rw [if_pos c2, if_pos (by omega)]
        congr 1; omega
      · rw [if_neg c2, if_neg (by omega)]
  · simp only [hk, ↓reduceIte]
    rw [if_neg (by omega), if_neg (by omega)]

/-- a write inside the value of a live slot -/
theorem SInv.write_value {s : Storage} (hs : SInv s) (i off : Nat) (bs : Bytes)
    (hl : s.records.live i) (hb : off + bs.length ≤ (s.records.get i).size) :
    let s' := s.dataWrite ((s.records.get i).pos + 16 + off) bs
    SInv s' ∧ s'.val i = writeAt (s.val i) off bs ∧
      (∀ j, s.records.live j → j ≠ i → s'.val j = s.val j) := by
  intro s'
  have hbnd := hs.lay.bnd i _ _ (Records.Blk_of_live hl)
  have hhdr := hs.hdr i _ _ (Records.Blk_of_live hl)
  have G0 := RG.intro hs
  have G1 := G0.suspend i hl (fun h => h)
  have G2 := G1.write ((s.records.get i).pos + 16 + off) bs (by omega) (fun y h1 h2 _ => by
    right; omega)
  have hlen : (writeAt s.data ((s.records.get i).pos + 16 + off) bs).length = s.data.length := by
    rw [length_writeAt _ _ _ (by omega)]; omega
  have G3 := G2.congrV (V' := fun j => if j = i then writeAt (s.val i) off bs else s.val j)
    (fun j _ hx => by
      have : j ≠ i := fun e => hx (Or.inr e)
      simp [this, Storage.val])
  have G4 := G3.resume i hl (fun y h1 h2 => by left; right; exact ⟨h1, h2⟩)
    (by rw [readAt_writeAt_before _ _ _ _ _ (by omega) (by omega)]; exact hhdr)
    (by
      simp only [↓reduceIte, Storage.val]
      exact readAt_writeAt_inside s.data bs ((s.records.get i).pos + 16) (s.records.get i).size off
        hb (by omega))
  obtain ⟨h1, h2⟩ := RG.elim' (s := s') G4 (fun j h => by
      rcases h with ⟨h | h, h'⟩
      · exact h
      · exact h' h)
    (fun y h => by hole_omega)
  refine ⟨h1, ?_, ?_⟩
  · have := h2 i hl
    simpa using this
  · intro j hj hji
    have := h2 j hj
    simpa [hji] using this

/-- slot `i` now holds `v'`; nothing else is observable -/
structure ModOK (s s' : Storage) (i : Nat) (v' : Bytes) : Prop where
  inv : SInv s'
  live : ∀ j, s'.records.live j ↔ s.records.live j
  vali : s'.val i = v'
  valo : ∀ j, j ≠ i → s.records.live j → s'.val j = s.val j
  txn : s'.txn = s.txn

theorem ModOK.of_eq {s s' s'' : Storage} {i : Nat} {v' : Bytes} (h : ModOK s s' i v')
    (hr : s''.records = s'.records) (hd : s''.data = s'.data) (ht : s''.txn = s.txn) :
    ModOK s s'' i v' :=
  ⟨h.inv.of_eq hr hd, fun j => by rw [hr]; exact h.live j,
    by rw [Storage.val_of_eq hr hd]; exact h.vali,
    fun j hj hl => by rw [Storage.val_of_eq hr hd]; exact h.valo j hj hl, ht⟩

theorem ModOK.trans_val {s s' s'' : Storage} {i : Nat} {v' v'' : Bytes} (h : ModOK s s' i v')
    (h2 : ModOK s' s'' i v'') : ModOK s s'' i v'' :=
  ⟨h2.inv, fun j => (h2.live j).trans (h.live j), h2.vali,
    fun j hj hl => (h2.valo j hj ((h.live j).mpr hl)).trans (h.valo j hj hl), h2.txn.trans h.txn⟩

theorem ModOK.congr_val {s s' : Storage} {i : Nat} {v' v'' : Bytes} (h : ModOK s s' i v')
    (e : v' = v'') : ModOK s s' i v'' := e ▸ h

theorem ResizeOK.modOK {s s' : Storage} {k n : Nat} (h : ResizeOK s s' k n) :
    ModOK s s' k ((s.val k).take n ++ List.replicate (n - (s.val k).length) 0) :=
  ⟨h.inv, h.live, h.valk, h.valo, h.txn⟩

/-- `begin`: only the depth changes -/
def Storage.bump (s : Storage) : Storage := { s with txn := s.txn + 1 }

theorem Storage.begin_eq (s : Storage) : s.begin = (s.bump, s.txn + 1) := rfl

theorem SInv.bump {s : Storage} (hs : SInv s) : SInv s.bump := hs

theorem Storage.insertBytesAt_live (s : Storage) (hi : IdxInv s.records) (i off : Nat) (bs : Bytes)
    (hl : s.records.live i) :
    s.insertBytesAt i off bs =
      (((s.bump.ensureSize (s.records.get i) off bs.length).1.dataWrite
        ((s.bump.ensureSize (s.records.get i) off bs.length).2.valueStart + off) bs).commit
          (s.txn + 1)) := by
  unfold Storage.insertBytesAt
  rw [Records.record_eq _ hi, if_pos hl]
  rfl

theorem Storage.insertBytesAt_dead (s : Storage) (hi : IdxInv s.records) (i off : Nat) (bs : Bytes)
    (hl : ¬ s.records.live i) : s.insertBytesAt i off bs = (s, .error .notFound) := by
  unfold Storage.insertBytesAt
  rw [Records.record_eq _ hi, if_neg hl]

theorem padTo_of_le (v : Bytes) (n : Nat) (h : n ≤ v.length) : padTo v n = v := by
  simp [padTo, Nat.sub_eq_zero_of_le h]

/-- `insert_bytes_at` on a live slot -/
theorem Storage.insertBytesAt_spec (hE : EnlargeSpec) (s : Storage) (hs : SInv s) (i off : Nat)
    (bs : Bytes) (hl : s.records.live i) :
    (s.insertBytesAt i off bs).2 = .ok () ∧
      ModOK s (s.insertBytesAt i off bs).1 i (specInsertAt (s.val i) off bs) := by
  rw [Storage.insertBytesAt_live s hs.idx i off bs hl]
  have hvl := hs.val_length hl
  -- the state after `ensure_size`
  have key : ∃ s2 : Storage, ∃ r' : SRec,
      s.bump.ensureSize (s.records.get i) off bs.length = (s2, r') ∧ r' = s2.records.get i ∧
      ModOK s.bump s2 i (padTo (s.val i) (off + bs.length)) ∧
      off + bs.length ≤ (s2.records.get i).size := by
    unfold Storage.ensureSize
    by_cases hgt : off + bs.length > (s.records.get i).size
    · rw [if_pos hgt]
      obtain ⟨hR, hr'⟩ := hE s.bump i (off + bs.length) hs.bump hl hgt
      refine ⟨(s.bump.enlargeValue (s.records.get i) (off + bs.length)).1,
        (s.bump.enlargeValue (s.records.get i) (off + bs.length)).2, rfl, hr',
        hR.modOK.congr_val ?_, Nat.le_of_eq hR.size.symm⟩
      show (s.val i).take _ ++ _ = _
      rw [List.take_of_length_le (by omega)]
      rfl
    · rw [if_neg hgt]
      refine ⟨s.bump, _, rfl, rfl, ⟨hs, fun _ => Iff.rfl, ?_, fun _ _ _ => rfl, rfl⟩,
        by show _ ≤ (s.records.get i).size; omega⟩
      show s.val i = _
      rw [padTo_of_le _ _ (by omega)]
  obtain ⟨s2, r', he, hr', hM, hsz⟩ := key
  rw [he]
  simp only
  subst hr'
  have hl2 : s2.records.live i := (hM.live i).mpr hl
  obtain ⟨w1, w2, w3⟩ := hM.inv.write_value i off bs hl2 hsz
  have hc := Storage.commit_ok (s2.dataWrite ((s2.records.get i).valueStart + off) bs) (s.txn + 1)
    (by simp only [Storage.dataWrite_txn]; rw [hM.txn]; rfl)
  obtain ⟨c1, c2, c3, c4⟩ := hc
  refine ⟨c1, ?_⟩
  have hvs : (s2.records.get i).valueStart = (s2.records.get i).pos + 16 := rfl
  rw [hvs] at c2 c3 c4 ⊢
  refine ⟨w1.of_eq c2 c3, fun j => by rw [c2]; exact hM.live j, ?_, ?_, ?_⟩
  · rw [Storage.val_of_eq c2 c3, w2, hM.vali]
    rfl
  · intro j hj hlj
    rw [Storage.val_of_eq c2 c3, w3 j ((hM.live j).mpr hlj) hj]
    exact hM.valo j hj hlj
  · rw [c4]
    simp only [Storage.dataWrite_txn]
    rw [hM.txn]
    rfl

end AgdbStorage
