import AgdbStorage.Lemmas.Recovery
namespace AgdbStorage

/-- A logged data-file step: log the record `r` (a no-op on the current data), then perform a
data-file call whose every torn / complete effect is undone by `r`. -/
theorem logged_step (data c : Bytes) (rs : List Rec) (p : Nat) (v : Bytes) (x : Sys) (data' : Bytes)
    (hok : RecsOk rs) (hu : undoAll data rs = c) (hp : p < 2 ^ 64) (hv : v.length < 2 ^ 64)
    (hnoop : applyRec data ⟨p, v⟩ = data)
    (hx : ∀ w, x.apply ⟨data, w⟩ = ⟨data', w⟩)
    (hundo : applyRec data' ⟨p, v⟩ = data)
    (hpart : ∀ q ∈ x.partials, ∃ dq, (∀ w, q.apply ⟨data, w⟩ = ⟨dq, w⟩) ∧ applyRec dq ⟨p, v⟩ = data) :
    (∀ d ∈ crashStates ⟨data, serAll rs⟩ (walInsert p v ++ [x]), Good c d) ∧
      Inv c (applyAll ⟨data, serAll rs⟩ (walInsert p v ++ [x])) ∧
      (applyAll ⟨data, serAll rs⟩ (walInsert p v ++ [x])).data = data' := by
  obtain ⟨h1, h2⟩ := walInsert_crash data c rs p v hok hu hp hv hnoop
  have hok' : RecsOk (rs ++ [⟨p, v⟩]) := recsOk_snoc rs _ hok ⟨hp, hv⟩
  refine ⟨?_, ?_, ?_⟩
  · intro d hd
    rw [crashStates_append, List.mem_append] at hd
    rcases hd with hd | hd
    · exact h1 d hd
    · rw [h2, crashStates_cons] at hd
      simp only [crashStates, List.append_nil, List.mem_cons, List.mem_map] at hd
      rcases hd with rfl | ⟨q, hq, rfl⟩
      · have := good_of_torn data c (rs ++ [⟨p, v⟩]) [] hok' torn_nil (by rw [undoAll_snoc, hnoop, hu])
        simpa using this
      · obtain ⟨dq, hq1, hq2⟩ := hpart q hq
        rw [hq1]
        have := good_of_torn dq c (rs ++ [⟨p, v⟩]) [] hok' torn_nil (by rw [undoAll_snoc, hq2, hu])
        simpa using this
  · rw [applyAll_append, h2]
    simp only [applyAll, List.foldl_cons, List.foldl_nil, hx]
    exact ⟨rs ++ [⟨p, v⟩], hok', rfl, by simp only; rw [undoAll_snoc, hundo, hu]⟩
  · rw [applyAll_append, h2]
    simp only [applyAll, List.foldl_cons, List.foldl_nil, hx]

theorem op_crash (data c : Bytes) (rs : List Rec) (op : FsOp) (hok : RecsOk rs)
    (hu : undoAll data rs = c) (hwf : op.wf data.length) :
    (∀ d ∈ crashStates ⟨data, serAll rs⟩ (op.sys data), Good c d) ∧
      Inv (if isFlush op then dataAfter data op else c) (applyAll ⟨data, serAll rs⟩ (op.sys data)) ∧
      (applyAll ⟨data, serAll rs⟩ (op.sys data)).data = dataAfter data op := by
  cases op with
  | flush =>
    simp only [FsOp.sys, isFlush, dataAfter, if_true]
    refine ⟨?_, ?_, ?_⟩
    · intro d hd
      rw [mem_crash_walSetLen] at hd
      simp only [crashStates, List.not_mem_nil, or_false] at hd
      subst hd
      have := good_of_torn data c rs [] hok torn_nil hu
      simpa using this
    · exact ⟨[], by intro r hr; simp at hr, by simp [applyAll, Sys.apply, setLen, serAll], by simp [undoAll, applyAll, Sys.apply]⟩
    · simp [applyAll, Sys.apply]
  | resize n =>
    simp only [FsOp.wf] at hwf
    simp only [FsOp.sys, isFlush, dataAfter]
    by_cases hn : n < data.length
    · simp only [hn, if_true, Bool.false_eq_true, if_false]
      have hv : (readAt data n (data.length - n)).length = data.length - n :=
        readAt_length _ _ _ (by omega)
      have hne : (readAt data n (data.length - n)).isEmpty = false := by
        cases h : readAt data n (data.length - n) with
        | nil => rw [h] at hv; simp at hv; omega
        | cons _ _ => rfl
      apply logged_step data c rs n _ (.dataSetLen n) (setLen data n) hok hu hwf.1 (by omega)
      · simp only [applyRec, hne, Bool.false_eq_true, if_false]
        exact writeAt_readAt _ _ _ (by omega)
      · intro w; rfl
      · simp only [applyRec, hne, Bool.false_eq_true, if_false]
        rw [readAt_tail]
        have e : setLen data n = data.take n := by
          simp [setLen, Nat.sub_eq_zero_of_le (Nat.le_of_lt hn)]
        have hl : (data.take n).length = n := by simp; omega
        rw [e]
        conv => lhs; rw [← hl]
        rw [hl]
        have := writeAt_end (data.take n) (data.drop n)
        rw [hl] at this
        rw [this, List.take_append_drop]
      · intro q hq; simp [Sys.partials] at hq
    · simp only [hn, if_false, Bool.false_eq_true]
      apply logged_step data c rs data.length [] (.dataSetLen n) (setLen data n) hok hu hwf.2 (by simp)
      · simp [applyRec, setLen_self]
      · intro w; rfl
      · simp only [applyRec, List.isEmpty_nil, if_true]
        rw [setLen_grow data n (by omega), setLen_prefix]
      · intro q hq; simp [Sys.partials] at hq
  | write pos bs =>
    simp only [FsOp.wf] at hwf
    simp only [FsOp.sys, isFlush, dataAfter, Bool.false_eq_true, if_false]
    by_cases hb : bs.isEmpty
    · simp only [hb, if_true]
      refine ⟨by intro d hd; simp [crashStates] at hd, ⟨rs, hok, rfl, hu⟩, rfl⟩
    · simp only [hb, Bool.false_eq_true, if_false]
      have hbl : 0 < bs.length := by
        cases bs with
        | nil => simp at hb
        | cons _ _ => simp
      rcases hwf.1 with hin | hend
      · -- overwrite inside the file
        have hm : min data.length (pos + bs.length) - pos = bs.length := by omega
        rw [hm]
        have hv : (readAt data pos bs.length).length = bs.length := readAt_length _ _ _ hin
        have hne : (readAt data pos bs.length).isEmpty = false := by
          cases h : readAt data pos bs.length with
          | nil => rw [h] at hv; simp at hv; omega
          | cons _ _ => rfl
        apply logged_step data c rs pos _ (.dataWrite pos bs) (writeAt data pos bs) hok hu
          (by omega) (by omega)
        · simp only [applyRec, hne, Bool.false_eq_true, if_false]
          exact writeAt_readAt _ _ _ hin
        · intro w; rfl
        · simp only [applyRec, hne, Bool.false_eq_true, if_false]
          exact writeAt_undo data pos bs.length bs (Nat.le_refl _) hin
        · intro q hq
          simp only [Sys.partials, List.mem_map, List.mem_range] at hq
          obtain ⟨k, hk, rfl⟩ := hq
          refine ⟨writeAt data pos (bs.take k), fun w => rfl, ?_⟩
          simp only [applyRec, hne, Bool.false_eq_true, if_false]
          exact writeAt_undo data pos bs.length (bs.take k) (by simp; omega) hin
      · -- append at the end of the file
        subst hend
        have hm : min data.length (data.length + bs.length) - data.length = 0 := by omega
        rw [hm]
        have hr : readAt data data.length 0 = [] := by simp [readAt]
        rw [hr]
        apply logged_step data c rs data.length [] (.dataWrite data.length bs)
          (writeAt data data.length bs) hok hu (by omega) (by simp)
        · simp [applyRec, setLen_self]
        · intro w; rfl
        · simp only [applyRec, List.isEmpty_nil, if_true]
          rw [writeAt_end, setLen_prefix]
        · intro q hq
          simp only [Sys.partials, List.mem_map, List.mem_range] at hq
          obtain ⟨k, hk, rfl⟩ := hq
          refine ⟨writeAt data data.length (bs.take k), fun w => rfl, ?_⟩
          simp only [applyRec, List.isEmpty_nil, if_true]
          rw [writeAt_end, setLen_prefix]

end AgdbStorage
