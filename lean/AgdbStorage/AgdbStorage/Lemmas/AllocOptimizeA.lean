import AgdbStorage.Lemmas.AllocSpecs
/-
`Storage::shrink_to_fit` (`Storage.optimize`), part A: facts that do not mention the loop —
`Records.validSorted` (a sorted, duplicate-free enumeration of the live slots), "suspending" all
free regions at once, dropping the free map, and the size bookkeeping of `setPos`.
-/
namespace AgdbStorage

/-! ### `insertByPos` / `validSorted` -/

theorem insertByPos_perm (x : SRec) (l : List SRec) : (insertByPos x l).Perm (x :: l) := by
  induction l with
  | nil => exact List.Perm.refl _
  | cons y ys ih =>
    simp only [insertByPos]
    split
    · exact List.Perm.refl _
    · exact (List.Perm.cons y ih).trans (List.Perm.swap x y ys)

theorem insertByPos_sorted (x : SRec) (l : List SRec)
    (h : l.Pairwise (fun a b => a.pos ≤ b.pos)) :
    (insertByPos x l).Pairwise (fun a b => a.pos ≤ b.pos) := by
  induction l with
  | nil => simp [insertByPos]
  | cons y ys ih =>
    rw [List.pairwise_cons] at h
    simp only [insertByPos]
    split
    · next hlt =>
      rw [List.pairwise_cons]
      refine ⟨?_, List.pairwise_cons.mpr h⟩
      intro b hb
      rcases List.mem_cons.mp hb with e | e
      · subst e; omega
      · have := h.1 b e; omega
    · next hlt =>
      rw [List.pairwise_cons]
      refine ⟨?_, ih h.2⟩
      intro b hb
      rcases List.mem_cons.mp ((insertByPos_perm x ys).mem_iff.mp hb) with e | e
      · subst e; omega
      · exact h.1 b e

theorem foldl_insertByPos_perm (l acc : List SRec) :
    (l.foldl (fun acc x => insertByPos x acc) acc).Perm (l ++ acc) := by
  induction l generalizing acc with
  | nil => exact List.Perm.refl _
  | cons x xs ih =>
    simp only [List.foldl_cons, List.cons_append]
    exact (ih _).trans (((insertByPos_perm x acc).append_left xs).trans List.perm_middle)

theorem foldl_insertByPos_sorted (l acc : List SRec)
    (h : acc.Pairwise (fun a b => a.pos ≤ b.pos)) :
    (l.foldl (fun acc x => insertByPos x acc) acc).Pairwise (fun a b => a.pos ≤ b.pos) := by
  induction l generalizing acc with
  | nil => exact h
  | cons x xs ih =>
    simp only [List.foldl_cons]
    exact ih _ (insertByPos_sorted x acc h)

theorem Records.validSorted_perm (r : Records) :
    r.validSorted.Perm (r.recs.filter r.isValid) := by
  have := foldl_insertByPos_perm (r.recs.filter r.isValid) []
  rwa [List.append_nil] at this

theorem Records.validSorted_sorted (r : Records) :
    r.validSorted.Pairwise (fun a b => a.pos ≤ b.pos) :=
  foldl_insertByPos_sorted _ [] List.Pairwise.nil

theorem Records.get_eq_getElem (r : Records) (i : Nat) (hi : i < r.recs.length) :
    r.get i = r.recs[i] := by
  simp [Records.get, List.getD_eq_getElem?_getD, List.getElem?_eq_getElem hi]

/-- under `IdxInv`, a slot whose content is valid is live -/
theorem Records.live_of_valid (r : Records) (h : IdxInv r) (i : Nat) (hi : i < r.recs.length)
    (hv : r.live (r.get i).index) : r.live i := by
  apply Classical.byContradiction
  intro hn
  exact (h.tgt i hi hn).2 hv

theorem Records.mem_valid_iff (r : Records) (h : IdxInv r) (x : SRec) :
    x ∈ r.recs.filter r.isValid ↔ r.live x.index ∧ r.get x.index = x := by
  rw [List.mem_filter, Records.isValid_iff]
  constructor
  · rintro ⟨hm, hv⟩
    refine ⟨hv, ?_⟩
    obtain ⟨i, hi, e⟩ := List.mem_iff_getElem.mp hm
    rw [← Records.get_eq_getElem r i hi] at e
    have hl := Records.live_of_valid r h i hi (by rw [e]; exact hv)
    have : x.index = i := by rw [← e]; exact hl.2
    rw [this]; exact e
  · rintro ⟨hv, e⟩
    refine ⟨?_, hv⟩
    have hi := Records.live_lt hv
    rw [Records.get_eq_getElem r _ hi] at e
    rw [← e]
    exact List.getElem_mem hi

theorem Records.valid_nodup (r : Records) (h : IdxInv r) :
    (r.recs.filter r.isValid).Pairwise (fun a b => a.index ≠ b.index) := by
  rw [List.pairwise_filter, List.pairwise_iff_getElem]
  intro i j hi hj hij hvi hvj
  rw [Records.isValid_iff] at hvi hvj
  rw [← Records.get_eq_getElem r i hi] at hvi ⊢
  rw [← Records.get_eq_getElem r j hj] at hvj ⊢
  have h1 := (Records.live_of_valid r h i hi hvi).2
  have h2 := (Records.live_of_valid r h j hj hvj).2
  omega

theorem Records.validSorted_nodup (r : Records) (h : IdxInv r) :
    r.validSorted.Pairwise (fun a b => a.index ≠ b.index) :=
  (List.Perm.pairwise_iff (fun hab => Ne.symm hab) r.validSorted_perm).mpr (r.valid_nodup h)

theorem Records.mem_validSorted_iff (r : Records) (h : IdxInv r) (x : SRec) :
    x ∈ r.validSorted ↔ r.live x.index ∧ r.get x.index = x := by
  rw [r.validSorted_perm.mem_iff, Records.mem_valid_iff r h]

theorem Records.validSorted_sum (r : Records) :
    (r.validSorted.map fun x => 16 + x.size).sum =
      ((r.recs.filter r.isValid).map fun x => 16 + x.size).sum :=
  (r.validSorted_perm.map _).sum_nat

/-! ### the free regions as a hole -/

/-- suspend slot 0: every free region becomes a hole -/
theorem RG.suspendFree {r : Records} {d : Bytes} {V : Nat → Bytes}
    (h : RG r (fun _ => False) (fun _ => False) d V) :
    RG r (fun j => j = 0) (fun y => ∃ x ∈ r.free, x.1 ≤ y ∧ y < x.1 + 16 + x.2) d V := by
  have hsub : ∀ i p z, r.B (fun j => j = 0) i p z → r.B (fun _ => False) i p z :=
    fun i p z hb => ⟨hb.1, fun c => c⟩
  have hfr : ∀ x ∈ r.free, r.B (fun _ => False) 0 x.1 x.2 :=
    fun x hx => ⟨Records.Blk_zero.mpr hx, fun c => c⟩
  refine ⟨h.idx, h.sorted, ⟨h.lay.len24, ?_, ?_, ?_, ?_, ?_⟩, h.dat.sub hsub⟩
  · intro i p z hb; exact h.lay.bnd i p z (hsub _ _ _ hb)
  · intro i p z i' p' z' hb hb'; exact h.lay.disj _ _ _ _ _ _ (hsub _ _ _ hb) (hsub _ _ _ hb')
  · intro i p z y hb h1 h2 hh
    obtain ⟨x, hx, c1, c2⟩ := hh
    rcases h.lay.disj _ _ _ _ _ _ (hsub _ _ _ hb) (hfr x hx) with e | e | e
    · exact hb.2 e.1
    · omega
    · omega
  · intro y hh
    obtain ⟨x, hx, c1, c2⟩ := hh
    have := h.lay.bnd _ _ _ (hfr x hx)
    omega
  · intro y h1 h2
    rcases h.lay.cover y h1 h2 with hh | ⟨i, p, z, hb, c1, c2⟩
    · exact hh.elim
    · by_cases hi : i = 0
      · subst hi
        exact Or.inl ⟨(p, z), Records.Blk_zero.mp hb.1, c1, c2⟩
      · exact Or.inr ⟨i, p, z, ⟨hb.1, hi⟩, c1, c2⟩

/-- with slot 0 suspended the free map is irrelevant and may be dropped -/
theorem RG.clearFree {r : Records} {H : Nat → Prop} {d : Bytes} {V : Nat → Bytes}
    (h : RG r (fun j => j = 0) H d V) :
    RG { r with free := [] } (fun _ => False) H d V := by
  have hB : ∀ i p z, Records.B { r with free := [] } (fun _ => False) i p z ↔
      r.B (fun j => j = 0) i p z := by
    intro i p z
    simp only [Records.B, Records.Blk, Records.live, Records.get, List.not_mem_nil, and_false,
      or_false, not_false_eq_true, and_true]
    constructor
    · intro hb; exact ⟨Or.inl hb, hb.1.1⟩
    · rintro ⟨hb | hb, hn⟩
      · exact hb
      · exact absurd hb.1 hn
  exact ⟨h.idx.of_recs_eq rfl, List.Pairwise.nil, h.lay.congr hB (fun _ => Iff.rfl),
    h.dat.sub (fun i p z hb => (hB i p z).mp hb)⟩

/-! ### sizes of the valid records -/

def idxSize (x : SRec) : Nat × Nat := (x.index, x.size)

theorem Records.setPos_idxSize (r : Records) (i p : Nat) :
    (r.setPos i p).recs.map idxSize = r.recs.map idxSize := by
  unfold Records.setPos
  split
  · next hi =>
    simp only [List.map_set]
    apply List.ext_getElem?
    intro j
    rw [List.getElem?_set]
    split
    · next e =>
      subst e
      simp only [List.length_map, hi, ↓reduceIte, List.getElem?_map,
        List.getElem?_eq_getElem hi, Option.map_some, Records.get_eq_getElem r i hi, idxSize]
    · rfl
  · rfl

/-- the sizes of the valid records depend only on the `(index, size)` columns -/
theorem Records.valid_sizes_congr {r r' : Records} (f : SRec → Nat) (g : Nat × Nat → Nat)
    (hf : ∀ x, f x = g (idxSize x))
    (hm : r'.recs.map idxSize = r.recs.map idxSize)
    (hi : ∀ j, (r'.get j).index = (r.get j).index) :
    (r'.recs.filter r'.isValid).map f = (r.recs.filter r.isValid).map f := by
  let q : Nat × Nat → Bool := fun p => p.1 != 0 && (r.get p.1).index == p.1
  have h1 : r'.isValid = q ∘ idxSize := by
    funext x; simp only [Records.isValid, q, Function.comp, idxSize, hi]
  have h2 : r.isValid = q ∘ idxSize := by
    funext x; simp only [Records.isValid, q, Function.comp, idxSize]
  have hf' : f = g ∘ idxSize := by funext x; exact hf x
  rw [h1, h2, hf', ← List.map_map, ← List.map_map, ← List.filter_map, ← List.filter_map, hm]

end AgdbStorage
